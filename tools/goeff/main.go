// gvgoeff: a regenerated WRITE-EFFECT summary of the exported API of gnark-crypto (property C18, tie T).
//
// On every run the tool loads the covered packages of -repo (and every gnark-crypto package they import) with
// golang.org/x/tools/go/packages, builds SSA, and computes for EVERY function a may-write summary by an interprocedural,
// flow-insensitive fixpoint (analysis.go). It writes lean/GnarkVerif/Gen/Effects.lean: per package the DIRECT facts of every
// function (direct writes to parameter roots / globals, call edges with the callee-root -> caller-roots map), i.e. the call-graph
// form BEFORE the closure; the closure, its soundness and the policy (closed write set of every exported function inside the
// destinations allowed by tools/goeff/expect.txt) are computed and proved in Lean (Model/Effects.lean, Props/C18_eff.lean).
package main

import (
	"flag"
	"fmt"
	"os"
	"path/filepath"
	"sort"
	"strings"
	"time"

	"golang.org/x/tools/go/packages"
	"golang.org/x/tools/go/ssa"
	"golang.org/x/tools/go/ssa/ssautil"
)

const modPath = "github.com/consensys/gnark-crypto"

var curves = []string{"bn254", "bls12-377", "bls12-381", "bls24-315", "bls24-317", "bw6-633", "bw6-761"}

// covered package patterns (relative to the module), in coverage order of the task
func coveredPatterns(stage int) []string {
	var ps []string
	ps = append(ps, "ecc/bn254/internal/fptower", "ecc/bn254")
	if stage >= 2 {
		for _, c := range curves {
			ps = append(ps, "ecc/"+c+"/internal/fptower", "ecc/"+c)
			for _, s := range []string{"kzg", "fr/fft"} {
				ps = append(ps, "ecc/"+c+"/"+s)
			}
		}
	}
	if stage >= 3 { // NOT in the default check: loaded together, the join over all implementations of hash.Hash / io.Writer is too coarse; expect.txt has no reviewed lines for them
		for _, c := range curves {
			for _, s := range []string{"fr/iop", "fr/polynomial", "fr/permutation", "fr/plookup", "fr/fri", "shplonk", "fflonk", "fr/mimc", "fr/pedersen", "ecdsa", "twistededwards", "twistededwards/eddsa"} {
				ps = append(ps, "ecc/"+c+"/"+s)
			}
		}
	}
	if stage >= 3 {
		ps = append(ps, "field/koalabear", "field/koalabear/extensions", "field/koalabear/fft", "field/koalabear/poseidon2", "field/koalabear/sis", "field/koalabear/vortex",
			"hash", "fiat-shamir", "accumulator/merkletree")
	}
	// drop what does not exist in this tree (a removed package is reported by the Lean side: the policy theorem names the packages)
	return ps
}

func die(f string, a ...any) {
	fmt.Fprintf(os.Stderr, "gvgoeff: "+f+"\n", a...)
	os.Exit(1)
}

func main() {
	repo := flag.String("repo", "/repo", "repository root")
	out := flag.String("out", "", "output directory (lean/GnarkVerif/Gen)")
	stage := flag.Int("stage", 2, "coverage stage: 1 = bn254 tower + curve, 2 (default, reviewed in expect.txt) = tower + curve + kzg + fr/fft of the 7 pairing curves, 3 = + the argument systems, signatures, koalabear, hash, fiat-shamir, merkletree (unreviewed)")
	expect := flag.String("expect", "", "expectation file (default: expect.txt next to the sources / executable)")
	report := flag.String("report", "", "write a text report of the closed summaries of the exported functions")
	dump := flag.String("dump", "", "debug: print the closed summary and the call atoms of every function whose name contains this string")
	pats := flag.String("pkgs", "", "comma separated package patterns (relative to the module) instead of the stage list")
	flag.Parse()
	if *out == "" {
		die("missing -out")
	}
	t0 := time.Now()
	var rel []string
	if *pats != "" {
		rel = strings.Split(*pats, ",")
	} else {
		rel = coveredPatterns(*stage)
	}
	var exist []string
	for _, p := range rel {
		if st, err := os.Stat(filepath.Join(*repo, p)); err == nil && st.IsDir() {
			exist = append(exist, p)
		} else {
			fmt.Fprintf(os.Stderr, "gvgoeff: covered package %s does not exist in %s\n", p, *repo)
		}
	}
	rel = exist
	covered := map[string]bool{}
	var patterns []string
	for _, p := range rel {
		covered[modPath+"/"+p] = true
		patterns = append(patterns, "./"+p)
	}
	env := append(os.Environ(), "GOFLAGS=-mod=readonly", "GOPROXY=off", "GOSUMDB=off", "GOTOOLCHAIN=local", "CGO_ENABLED=0")
	// step 1: the gnark-crypto packages in the import closure
	cfg1 := &packages.Config{Mode: packages.NeedName | packages.NeedImports | packages.NeedDeps, Dir: *repo, Env: env}
	l1, err := packages.Load(cfg1, patterns...)
	if err != nil {
		die("go list: %v", err)
	}
	own := map[string]bool{}
	packages.Visit(l1, nil, func(p *packages.Package) {
		if p.PkgPath == modPath || strings.HasPrefix(p.PkgPath, modPath+"/") {
			own[p.PkgPath] = true
		}
	})
	var all []string
	for p := range own {
		all = append(all, p)
	}
	sort.Strings(all)
	// step 2: those from source, everything else from export data
	cfg2 := &packages.Config{Mode: packages.NeedName | packages.NeedFiles | packages.NeedCompiledGoFiles | packages.NeedImports | packages.NeedTypes |
		packages.NeedTypesSizes | packages.NeedSyntax | packages.NeedTypesInfo, Dir: *repo, Env: env}
	l2, err := packages.Load(cfg2, all...)
	if err != nil {
		die("load: %v", err)
	}
	nerr := 0
	for _, p := range l2 {
		for _, e := range p.Errors {
			fmt.Fprintf(os.Stderr, "gvgoeff: %s: %v\n", p.PkgPath, e)
			nerr++
		}
	}
	if nerr > 0 {
		die("%d package errors", nerr)
	}
	tLoad := time.Since(t0)
	prog, _ := ssautil.Packages(l2, ssa.InstantiateGenerics)
	prog.Build()
	tSSA := time.Since(t0)

	exp := loadExpect(*expect)
	A := newAnalysis(prog, own, covered)
	A.run()
	tAn := time.Since(t0)
	if *dump != "" {
		for _, fi := range A.bodies {
			if strings.Contains(fi.name, *dump) {
				fmt.Fprintf(os.Stderr, "DUMP %s params=%v writes=%v direct=%v\n", fi.name, fi.pnames, A.fmtRoots(fi, fi.writes), A.fmtRoots(fi, fi.dwrites))
				for _, at := range fi.keptAtoms(true) {
					fmt.Fprintf(os.Stderr, "   call %s %v  (callee writes %v)\n", at.callee.name, at.am, A.fmtRoots(at.callee, at.callee.writes))
				}
			}
		}
	}
	A.emit(*out, exp, *report)
	exp.checkUsed()
	fmt.Fprintf(os.Stderr, "gvgoeff: %d packages from source (%d covered), %d functions analysed, %d emitted; load %.1fs, ssa %.1fs, analysis %.1fs, total %.1fs\n",
		len(all), len(covered), len(A.order), A.nEmitted, tLoad.Seconds(), (tSSA - tLoad).Seconds(), (tAn - tSSA).Seconds(), time.Since(t0).Seconds())
}
