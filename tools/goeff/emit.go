package main

import (
	"bufio"
	"fmt"
	"os"
	"path/filepath"
	"regexp"
	"runtime"
	"sort"
	"strconv"
	"strings"
)

// ------------------------------------------------------------------------------------------------ expectation file

type expLine struct {
	pat     string
	re      *regexp.Regexp
	params  []int
	globals []*regexp.Regexp
	gpats   []string
	used    bool
	everyFn bool
	lineno  int
}

type expectations struct {
	path  string
	lines []*expLine
}

func globRe(g string) *regexp.Regexp {
	var sb strings.Builder
	sb.WriteString("^")
	for i := 0; i < len(g); i++ {
		if g[i] == '*' {
			if i+1 < len(g) && g[i+1] == '*' {
				sb.WriteString(".*")
				i++
			} else {
				sb.WriteString("[^/]*")
			}
			continue
		}
		sb.WriteString(regexp.QuoteMeta(string(g[i])))
	}
	sb.WriteString("$")
	return regexp.MustCompile(sb.String())
}

func loadExpect(path string) *expectations {
	if path == "" {
		// next to the executable's source: <root>/tools/goeff/expect.txt, found from the executable (<root>/build/gvgoeff) or the cwd
		exe, _ := os.Executable()
		cands := []string{filepath.Join(filepath.Dir(exe), "..", "tools", "goeff", "expect.txt"), "expect.txt", filepath.Join("tools", "goeff", "expect.txt")}
		if _, f, _, ok := runtime.Caller(0); ok {
			cands = append(cands, filepath.Join(filepath.Dir(f), "expect.txt"))
		}
		for _, c := range cands {
			if _, err := os.Stat(c); err == nil {
				path = c
				break
			}
		}
		if path == "" {
			die("expect.txt not found (use -expect)")
		}
	}
	f, err := os.Open(path)
	if err != nil {
		die("%v", err)
	}
	defer f.Close()
	e := &expectations{path: path}
	sc := bufio.NewScanner(f)
	n := 0
	for sc.Scan() {
		n++
		ln := sc.Text()
		if i := strings.Index(ln, "#"); i >= 0 {
			ln = ln[:i]
		}
		ln = strings.TrimSpace(ln)
		if ln == "" {
			continue
		}
		i := strings.LastIndex(ln, ":")
		if i < 0 {
			die("%s:%d: missing ':'", path, n)
		}
		l := &expLine{pat: strings.TrimSpace(ln[:i]), lineno: n}
		if l.pat == "global" { // a global every function may write (scratch pools, the process-wide entropy source)
			l.pat = "**"
			l.everyFn = true
		}
		l.re = globRe(l.pat)
		for _, tok := range strings.Fields(ln[i+1:]) {
			switch {
			case tok == "-":
			case strings.HasPrefix(tok, "@"):
				l.globals = append(l.globals, globRe(tok[1:]))
				l.gpats = append(l.gpats, tok[1:])
			default:
				k, err := strconv.Atoi(tok)
				if err != nil || k < 0 {
					die("%s:%d: bad token %q", path, n, tok)
				}
				l.params = append(l.params, k)
			}
		}
		e.lines = append(e.lines, l)
	}
	return e
}

func (e *expectations) checkUsed() {
	for _, l := range e.lines {
		if !l.used {
			fmt.Fprintf(os.Stderr, "gvgoeff: note: %s:%d: pattern %q matches no exported function of the covered packages\n", e.path, l.lineno, l.pat)
		}
	}
}

// allowed destinations of an exported function: parameter indices and global-name patterns
func (e *expectations) allowed(fi *fnInfo) (params map[int]bool, globals []*regexp.Regexp, explicit bool) {
	params = map[int]bool{}
	for _, l := range e.lines {
		if l.everyFn {
			l.used = true
			globals = append(globals, l.globals...)
			continue
		}
		if l.re.MatchString(fi.name) {
			l.used = true
			explicit = true
			for _, k := range l.params {
				params[k] = true
			}
			globals = append(globals, l.globals...)
		}
	}
	if !explicit && fi.isMethod && fi.recvPtr {
		params[0] = true // default rule: a method may write its pointer receiver, nothing else; a function or value-receiver method nothing
	}
	return
}

// ------------------------------------------------------------------------------------------------ emission

type tnode struct {
	v    []root
	l, r *tnode
}

func (t *tnode) insert(k int, v []root) *tnode {
	if t == nil {
		t = &tnode{}
	}
	if k == 0 {
		t.v = v
		return t
	}
	k--
	if k%2 == 0 {
		t.l = t.l.insert(k/2, v)
	} else {
		t.r = t.r.insert(k/2, v)
	}
	return t
}

func (t *tnode) lean(sb *strings.Builder) {
	if t == nil {
		sb.WriteString(".leaf")
		return
	}
	sb.WriteString("(.node " + leanRoots(t.v) + " ")
	t.l.lean(sb)
	sb.WriteString(" ")
	t.r.lean(sb)
	sb.WriteString(")")
}

func leanRoot(r root) string {
	switch r.kind() {
	case kPS:
		return fmt.Sprintf(".p %d", 2*r.idx())
	case kPD:
		return fmt.Sprintf(".p %d", 2*r.idx()+1)
	case kG:
		return fmt.Sprintf(".g %d", r.idx())
	}
	panic("local root in output")
}

func leanRoots(rs []root) string {
	var s []string
	for _, r := range rs {
		s = append(s, leanRoot(r))
	}
	return "[" + strings.Join(s, ", ") + "]"
}

func nsOf(pkg string) string {
	if pkg == "" {
		return "iface"
	}
	s := relName(pkg)
	s = strings.NewReplacer("/", "_", "-", "_", ".", "_").Replace(s)
	return s
}

func hasGlobal(s rset) bool {
	for r := range s {
		if r.kind() == kG {
			return true
		}
	}
	return false
}

func (fi *fnInfo) keptAtoms(full bool) []*atom {
	var keys []string
	for k := range fi.atoms {
		keys = append(keys, k)
	}
	var out []*atom
	for _, k := range keys {
		at := fi.atoms[k]
		if len(at.am) == 0 && !hasGlobal(at.callee.writes) {
			continue // binds no caller root and the callee writes no global: cannot contribute
		}
		if !full && len(at.callee.writes) == 0 {
			continue // the callee's closed write set is empty (Go-side fixpoint)
		}
		out = append(out, at)
	}
	sort.Slice(out, func(i, j int) bool {
		if out[i].callee.name != out[j].callee.name {
			return out[i].callee.name < out[j].callee.name
		}
		return fmt.Sprint(out[i].am) < fmt.Sprint(out[j].am)
	})
	return out
}

var fullAtoms = os.Getenv("GOEFF_FULL") != ""

func (a *analysis) emit(outDir string, exp *expectations, report string) {
	var exported []*fnInfo
	for _, fi := range a.bodies {
		if fi.exported {
			exported = append(exported, fi)
		}
	}
	sort.Slice(exported, func(i, j int) bool { return exported[i].name < exported[j].name })
	// number the functions reachable from the exported ones, callee first
	kept := map[*fnInfo][]*atom{}
	var visit func(fi *fnInfo)
	visit = func(fi *fnInfo) {
		if fi.visited {
			return
		}
		fi.visited = true
		ats := fi.keptAtoms(fullAtoms)
		kept[fi] = ats
		for _, at := range ats {
			visit(at.callee)
		}
		a.order = append(a.order, fi)
	}
	for _, fi := range exported {
		visit(fi)
	}
	// package order: import depth
	depth := map[string]int{}
	for _, p := range a.prog.AllPackages() {
		depth[p.Pkg.Path()] = -1
	}
	var dep func(path string) int
	pk := map[string]interface{ Imports() []string }{}
	_ = pk
	pkgByPath := map[string][]string{}
	for _, p := range a.prog.AllPackages() {
		for _, im := range p.Pkg.Imports() {
			pkgByPath[p.Pkg.Path()] = append(pkgByPath[p.Pkg.Path()], im.Path())
		}
	}
	memo := map[string]int{}
	dep = func(path string) int {
		if d, ok := memo[path]; ok {
			return d
		}
		memo[path] = 0
		d := 0
		for _, im := range pkgByPath[path] {
			if x := dep(im) + 1; x > d {
				d = x
			}
		}
		memo[path] = d
		return d
	}
	groups := map[string][]*fnInfo{}
	for _, fi := range a.order {
		groups[fi.pkg] = append(groups[fi.pkg], fi)
	}
	var pkgs []string
	for p := range groups {
		pkgs = append(pkgs, p)
	}
	sort.Slice(pkgs, func(i, j int) bool {
		di, dj := dep(pkgs[i]), dep(pkgs[j])
		if pkgs[i] == "" {
			di = -1
		}
		if pkgs[j] == "" {
			dj = -1
		}
		if di != dj {
			return di < dj
		}
		return pkgs[i] < pkgs[j]
	})
	// ids follow the final list order (package by package, callee first inside a package)
	var final []*fnInfo
	for _, p := range pkgs {
		final = append(final, groups[p]...)
	}
	for i, fi := range final {
		fi.id = i
	}
	a.nEmitted = len(final)
	// globals: renumber by name, only those that occur
	usedG := map[int]bool{}
	for _, fi := range final {
		for r := range fi.dwrites {
			if r.kind() == kG {
				usedG[r.idx()] = true
			}
		}
		for _, at := range kept[fi] {
			for _, rs := range at.am {
				for _, r := range rs {
					if r.kind() == kG {
						usedG[r.idx()] = true
					}
				}
			}
		}
	}
	var gl []int
	for g := range usedG {
		gl = append(gl, g)
	}
	sort.Slice(gl, func(i, j int) bool { return a.gnames[gl[i]] < a.gnames[gl[j]] })
	gnew := map[int]int{}
	for i, g := range gl {
		gnew[g] = i
	}
	ren := func(r root) root {
		if r.kind() == kG {
			return mk(kG, gnew[r.idx()])
		}
		return r
	}
	renAll := func(rs []root) []root {
		out := make([]root, len(rs))
		for i, r := range rs {
			out[i] = ren(r)
		}
		return out
	}

	// simulate the Lean closure on the emitted facts: number of rounds to the fixpoint, and self-check against the Go-side fixpoint
	S := make([]rset, len(final))
	for i := range S {
		S[i] = rset{}
	}
	rounds := 0
	for {
		ch := false
		for _, fi := range final {
			s := S[fi.id]
			for r := range fi.dwrites {
				if s.add(r) {
					ch = true
				}
			}
			for _, at := range kept[fi] {
				for r := range S[at.callee.id] {
					switch r.kind() {
					case kG:
						if s.add(r) {
							ch = true
						}
					case kPS:
						for _, x := range at.am[2*r.idx()] {
							if s.add(x) {
								ch = true
							}
						}
					case kPD:
						for _, x := range at.am[2*r.idx()+1] {
							if s.add(x) {
								ch = true
							}
						}
					}
				}
			}
		}
		if !ch {
			break
		}
		rounds++
	}
	for _, fi := range final {
		if fmt.Sprint(S[fi.id].sorted()) != fmt.Sprint(fi.writes.sorted()) {
			die("internal: closure of the emitted facts differs from the analysis for %s: %v vs %v", fi.name, S[fi.id].sorted(), fi.writes.sorted())
		}
	}

	// policy (also decided in Lean): report
	var rep strings.Builder
	nviol := 0
	type pol struct{ allowed []root }
	pols := map[*fnInfo]pol{}
	for _, fi := range exported {
		ap, ag, explicit := exp.allowed(fi)
		var al []root
		var aks []int
		for k := range ap {
			aks = append(aks, k)
		}
		sort.Ints(aks)
		for _, k := range aks {
			al = append(al, mk(kPS, k), mk(kPD, k))
		}
		for _, g := range gl {
			for _, re := range ag {
				if re.MatchString(a.gnames[g]) {
					al = append(al, mk(kG, g))
					break
				}
			}
		}
		pols[fi] = pol{al}
		var bad []string
		var wr []string
		seenP := map[int]bool{}
		for _, r := range fi.writes.sorted() {
			switch r.kind() {
			case kPS, kPD:
				if !seenP[r.idx()] {
					seenP[r.idx()] = true
					nm := "?"
					if r.idx() < len(fi.pnames) {
						nm = fi.pnames[r.idx()]
					}
					wr = append(wr, fmt.Sprintf("%d(%s)", r.idx(), nm))
					if !ap[r.idx()] {
						bad = append(bad, fmt.Sprintf("param %d (%s)", r.idx(), nm))
					}
				}
			case kG:
				wr = append(wr, "@"+a.gnames[r.idx()])
				ok := false
				for _, re := range ag {
					if re.MatchString(a.gnames[r.idx()]) {
						ok = true
					}
				}
				if !ok {
					bad = append(bad, "global "+a.gnames[r.idx()])
				}
			}
		}
		tag := "default "
		if explicit {
			tag = "explicit"
		}
		fmt.Fprintf(&rep, "%s %s: writes %s\n", tag, fi.name, strings.Join(wr, " "))
		if len(bad) > 0 {
			nviol++
			fmt.Fprintf(&rep, "  OUTSIDE %s: %s\n", fi.name, strings.Join(bad, ", "))
			fmt.Fprintf(os.Stderr, "gvgoeff: POLICY %s may write %s, which is not an allowed destination (tools/goeff/expect.txt)\n", fi.name, strings.Join(bad, ", "))
		}
	}
	var unk []string
	for n := range a.unknownExt {
		unk = append(unk, n)
	}
	sort.Strings(unk)
	for _, n := range unk {
		fmt.Fprintf(&rep, "UNKNOWN-EXTERNAL %s\n", n)
	}
	if report != "" {
		os.WriteFile(report, []byte(rep.String()), 0o644)
	}

	// Lean
	var sb strings.Builder
	sb.WriteString("import GnarkVerif.Model.Effects\n")
	sb.WriteString("/-! GENERATED by tools/goeff from the Go source on every run - do not edit.\n")
	sb.WriteString("Direct write / call facts of every function reachable from the exported API of the covered packages (SSA, flow-insensitive).\n")
	sb.WriteString("Root `.p (2k)` = memory directly pointed to by parameter k (receiver = 0; captured variables of a closure follow its parameters),\n")
	sb.WriteString("`.p (2k+1)` = everything reachable from it by at least one load, `.g i` = package-level variable `globals[i]`. -/\n")
	sb.WriteString("set_option maxRecDepth 100000\nnamespace GV.Gen.Effects\nopen GV.Eff\n\n")
	fmt.Fprintf(&sb, "def globals : List String := [")
	for i, g := range gl {
		if i > 0 {
			sb.WriteString(", ")
		}
		fmt.Fprintf(&sb, "%q", a.gnames[g])
	}
	sb.WriteString("]\n\n")
	var nss []string
	for _, p := range pkgs {
		ns := nsOf(p)
		nss = append(nss, ns)
		fmt.Fprintf(&sb, "def %s.effects : List Fn := [\n", ns)
		for i, fi := range groups[p] {
			var ats []string
			for _, r := range fi.dwrites.sorted() {
				ats = append(ats, ".write ("+leanRoot(ren(r))+")")
			}
			for _, at := range kept[fi] {
				var ks []int
				for k := range at.am {
					ks = append(ks, k)
				}
				sort.Ints(ks)
				var ms []string
				for _, k := range ks {
					ms = append(ms, fmt.Sprintf("(%d, %s)", k, leanRoots(renAll(at.am[k]))))
				}
				ats = append(ats, fmt.Sprintf(".call %d [%s]", at.callee.id, strings.Join(ms, ", ")))
			}
			pn := "[]"
			al := "[]"
			if fi.exported {
				var q []string
				for _, n := range fi.pnames {
					q = append(q, strconv.Quote(n))
				}
				pn = "[" + strings.Join(q, ", ") + "]"
				al = leanRoots(renAll(pols[fi].allowed))
			}
			sep := ","
			if i == len(groups[p])-1 {
				sep = ""
			}
			fmt.Fprintf(&sb, " ⟨%d, %q, %d, %s, %v, %s, [%s]⟩%s\n", fi.id, fi.name, fi.nparams, pn, fi.exported, al, strings.Join(ats, ", "), sep)
		}
		sb.WriteString("]\n\n")
	}
	sb.WriteString("/-- covered packages with the number of exported functions reported for each -/\ndef coveredPkgs : List (String × Nat) := [")
	cnt := map[string]int{}
	for _, fi := range exported {
		cnt[fi.pkg]++
	}
	var cps []string
	for p := range a.covered {
		cps = append(cps, p)
	}
	sort.Strings(cps)
	for i, p := range cps {
		if i > 0 {
			sb.WriteString(", ")
		}
		fmt.Fprintf(&sb, "(%q, %d)", relName(p), cnt[p])
	}
	sb.WriteString("]\n\n")
	sb.WriteString("def all : List Fn :=\n  ")
	for i, ns := range nss {
		if i > 0 {
			sb.WriteString(" ++ ")
		}
		sb.WriteString(ns + ".effects")
	}
	if len(nss) == 0 {
		sb.WriteString("[]")
	}
	// certificate: the closed summaries as a trie literal (key scheme of GV.Eff.Trie.find); CHECKED closed by the kernel in Props/C18_eff
	var tr *tnode
	for _, fi := range final {
		tr = tr.insert(fi.id, renAll(fi.writes.sorted()))
	}
	sb.WriteString("\n\n/-- the closed write summaries found by the tool (a CERTIFICATE: Props/C18_eff checks that it is closed under `all`) -/\ndef closedTrie : Trie :=\n  ")
	tr.lean(&sb)
	fmt.Fprintf(&sb, "\n\n/-- rounds of the iteration after which the Go tool saw no change (the Lean side runs `rounds + 1` and CHECKS closedness) -/\ndef rounds : Nat := %d\n", rounds)
	fmt.Fprintf(&sb, "def nFns : Nat := %d\ndef nExported : Nat := %d\n", len(final), len(exported))
	sb.WriteString("\nend GV.Gen.Effects\n")
	os.MkdirAll(outDir, 0o755)
	p := filepath.Join(outDir, "Effects.lean")
	if old, err := os.ReadFile(p); err != nil || string(old) != sb.String() {
		if err := os.WriteFile(p, []byte(sb.String()), 0o644); err != nil {
			die("%v", err)
		}
	}
	fmt.Fprintf(os.Stderr, "gvgoeff: %d exported functions, %d outside their allowed destinations, %d unknown externals, closure rounds %d, %d bytes\n",
		len(exported), nviol, len(unk), rounds, sb.Len())
}
