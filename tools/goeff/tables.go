package main

import (
	"regexp"
	"strings"
)

// Hand tables for callees without a body in the loaded program (TRUSTED): the standard library / third-party functions that
// the covered code calls, and the assembly stubs of gnark-crypto. `writes` lists the argument positions (receiver = 0) whose
// memory (shallow and deep) the callee may write; `retAlias` the arguments its results may alias; `retains` (src, dst) pairs.
// An external function that matches no line is UNKNOWN: it is assumed to write every pointer-like argument and to return an alias
// of any of them (the tool lists them in its report).

type extRule struct {
	re *regexp.Regexp
	sp extSpec
}

func R(pat string, writes []int, alias []int, retains ...[2]int) extRule {
	return extRule{regexp.MustCompile(pat), extSpec{writes: writes, retAlias: alias, retains: retains}}
}

var none = []int{}

var extRules = []extRule{
	R(`(^|[./])init(#[0-9]+)?$`, none, none), // package initialisers of imported packages
	// ---- math/big
	R(`^\(\*math/big\.Int\)\.(Cmp|CmpAbs|Sign|BitLen|Bit|Bits|Bytes|String|Text|IsUint64|Uint64|Int64|IsInt64|ProbablyPrime|TrailingZeroBits|Format|Float64|MarshalText|MarshalJSON|GobEncode)$`, none, none),
	R(`^\(\*math/big\.Int\)\.(FillBytes|Append)$`, []int{1}, []int{1}),
	R(`^\(\*math/big\.Int\)\.(DivMod|QuoRem)$`, []int{0, 3}, []int{0, 3}),
	R(`^\(\*math/big\.Int\)\.GCD$`, []int{0, 1, 2}, []int{0}),
	R(`^\(\*math/big\.Int\)\.Rand$`, []int{0, 1}, []int{0}),
	R(`^\(\*math/big\.Int\)\.SetBits$`, []int{0}, []int{0}, [2]int{1, 0}),
	R(`^\(\*math/big\.Int\)\.`, []int{0}, []int{0}),
	R(`^\(\*math/big\.(Float|Rat)\)\.(Cmp|Sign|String|Text|IsInt|IsInf|Prec|Mode|Float64|Num|Denom|Signbit|MinPrec|Acc)$`, none, []int{0}),
	R(`^\(\*math/big\.Float\)\.Int$`, []int{1}, []int{1}),
	R(`^\(\*math/big\.(Float|Rat)\)\.`, []int{0}, []int{0}),
	R(`^math/big\.(NewInt|NewFloat|NewRat|Jacobi)$`, none, none),
	// ---- pure helpers
	R(`^(math/bits|math|strconv|strings|errors|unicode|unicode/utf8|runtime|runtime/debug|time|os|path/filepath|math/cmplx)\.[A-Za-z0-9_]+(\[.*\])?$`, none, none),
	R(`^\(time\.(Time|Duration)\)\.`, none, none),
	R(`^\(\*strings\.Builder\)\.(String|Len)$`, none, none),
	R(`^\(\*strings\.Builder\)\.`, []int{0}, none),
	R(`^bytes\.(Equal|Compare|HasPrefix|HasSuffix|Index|IndexByte|Contains|NewReader|NewBuffer|NewBufferString)$`, none, []int{0}),
	R(`^\(\*bytes\.Buffer\)\.(Bytes|Len|String|Cap)$`, none, []int{0}),
	R(`^\(\*bytes\.Buffer\)\.(Read|ReadFrom|WriteTo)$`, []int{0, 1}, none),
	R(`^\(\*bytes\.(Buffer|Reader)\)\.`, []int{0}, none),
	R(`^fmt\.(Sprintf|Sprint|Sprintln|Errorf|Print|Printf|Println)$`, none, none),
	R(`^fmt\.(Fprintf|Fprint|Fprintln)$`, []int{0}, none),
	R(`^reflect\.(TypeOf|ValueOf|DeepEqual)$`, none, []int{0}),
	R(`^\(reflect\.Value\)\.(Kind|Len|Type|IsNil|Interface|Index|Elem|NumField|Field|Int|Uint|IsValid|CanInterface)$`, none, []int{0}),
	R(`^\(\*?reflect\.[A-Za-z]+\)\.(String|Name|Kind|Size|Elem|NumField|PkgPath)$`, none, none),
	// ---- encoding/binary
	R(`^\(encoding/binary\.(bigEndian|littleEndian)\)\.(PutUint16|PutUint32|PutUint64)$`, []int{1}, none),
	R(`^\(encoding/binary\.(bigEndian|littleEndian)\)\.(Uint16|Uint32|Uint64|String|GoString)$`, none, none),
	R(`^\(encoding/binary\.(bigEndian|littleEndian)\)\.Append`, []int{1}, []int{1}),
	R(`^encoding/binary\.Write$`, []int{0}, none),
	R(`^encoding/binary\.Read$`, []int{0, 2}, none),
	R(`^encoding/binary\.(Size|Uvarint|Varint)$`, none, none),
	R(`^encoding/binary\.(PutUvarint|PutVarint)$`, []int{0}, none),
	R(`^encoding/hex\.(EncodeToString|DecodeString)$`, none, none),
	// ---- io
	R(`^io\.ReadFull$`, []int{0, 1}, none),
	R(`^io\.(ReadAll|WriteString)$`, []int{0}, none),
	R(`^io\.(Copy|CopyN)$`, []int{0, 1}, none),
	R(`^io\.(LimitReader|TeeReader|MultiWriter|MultiReader|NewSectionReader)$`, none, []int{0, 1}),
	R(`^bufio\.New(Reader|Writer)(Size)?$`, none, []int{0}),
	R(`^\(\*bufio\.(Reader|Writer)\)\.`, []int{0, 1}, none),
	// ---- sync: Mutex / RWMutex / WaitGroup / Once / Cond are SYNCHRONISATION ONLY (no write effect); Once.Do(f): the effects of f on what
	// it captures are charged where the closure is made. Pool / Map are memory.
	R(`^\(\*sync\.(Mutex|RWMutex|WaitGroup|Once|Cond)\)\.`, none, none),
	R(`^sync\.(NewCond|OnceFunc|OnceValue.*)$`, none, none),
	R(`^\(\*sync\.Pool\)\.Put$`, []int{0}, none, [2]int{1, 0}),
	R(`^\(\*sync\.Pool\)\.Get$`, []int{0}, []int{0}),
	R(`^\(\*sync\.Map\)\.(Load|Range)$`, none, []int{0}),
	R(`^\(\*sync\.Map\)\.(Store|LoadOrStore|Swap|CompareAndSwap)$`, []int{0}, []int{0, 1, 2}, [2]int{1, 0}, [2]int{2, 0}),
	R(`^\(\*sync\.Map\)\.`, []int{0}, []int{0}),
	R(`^sync/atomic\.Load`, none, none),
	R(`^sync/atomic\.`, []int{0}, none),
	R(`^\(\*sync/atomic\.[A-Za-z0-9]+\)\.Load$`, none, none),
	R(`^\(\*sync/atomic\.[A-Za-z0-9]+\)\.`, []int{0}, none),
	R(`^\(\*golang\.org/x/sync/errgroup\.Group\)\.`, none, none),
	R(`^golang\.org/x/sync/errgroup\.`, none, none),
	// ---- sort / slices
	R(`^sort\.(Slice|SliceStable|Sort|Stable|Ints|Strings|Float64s)$`, []int{0}, none),
	R(`^sort\.(Search.*|SliceIsSorted|IsSorted)$`, none, none),
	R(`^slices\.(Sort|SortFunc|SortStableFunc|Reverse)(\[.*\])?$`, []int{0}, none),
	R(`^slices\.(Contains|ContainsFunc|Index|IndexFunc|Equal|Max|Min|BinarySearch|BinarySearchFunc|IsSorted|IsSortedFunc|Clone)(\[.*\])?$`, none, none),
	// ---- hashes and randomness
	R(`^(crypto/sha256|crypto/sha512|crypto/sha3|crypto/md5|crypto/sha1|golang\.org/x/crypto/sha3|golang\.org/x/crypto/blake2b|golang\.org/x/crypto/blake2s|hash/fnv|crypto/hmac|crypto/aes|crypto/cipher)\.(New.*|Sum.*)$`, none, none),
	R(`^crypto/rand\.(Read|Int|Prime)$`, []int{0}, none),
	R(`^\(\*math/rand\.Rand\)\.`, []int{0, 1}, none),
	R(`^math/rand\.`, none, none),
	R(`^crypto/subtle\.ConstantTimeCopy$`, []int{1}, none),
	R(`^crypto/subtle\.XORBytes$`, []int{0}, none),
	R(`^crypto/subtle\.ConstantTime`, none, none),
	R(`^golang\.org/x/sys/cpu\.`, none, none),
	// ---- bitset
	R(`^\(\*github\.com/bits-and-blooms/bitset\.BitSet\)\.(Test|Len|Count|Any|None|All|NextSet|NextClear|String)$`, none, none),
	R(`^\(\*github\.com/bits-and-blooms/bitset\.BitSet\)\.`, []int{0}, []int{0}),
	R(`^github\.com/bits-and-blooms/bitset\.(New|From)$`, none, none),
}

// interface methods of well-known interfaces (key = <interface type>.<method>); joined with the implementations in the loaded packages
var ifaceRules = []extRule{
	R(`^hash\.Hash\.(Write|Reset)$`, []int{0}, none),
	R(`^hash\.Hash\.Sum$`, []int{0, 1}, []int{1}),
	R(`^hash\.Hash\.(Size|BlockSize)$`, none, none),
	R(`^io\.(Writer|StringWriter|ByteWriter)\.`, []int{0}, none),
	R(`^io\.(Reader|ByteReader)\.`, []int{0, 1}, none),
	R(`^io\.ReaderFrom\.ReadFrom$`, []int{0, 1}, none),
	R(`^io\.WriterTo\.WriteTo$`, []int{1}, none),
	R(`^io\.Closer\.`, []int{0}, none),
	R(`^error\.Error$`, none, none),
	R(`^fmt\.Stringer\.String$`, none, none),
	R(`^sort\.Interface\.(Len|Less)$`, none, none),
	R(`^sort\.Interface\.Swap$`, []int{0}, none),
	R(`^reflect\.Type\.`, none, none),
	R(`^math/rand\.Source(64)?\.`, []int{0}, none),
	R(`^crypto/cipher\.(Block|Stream)\.`, []int{0, 1}, none),
}

// assembly stubs and other body-less functions of gnark-crypto, by short name: argument positions written
var asmRules = []struct {
	re     *regexp.Regexp
	writes []int
}{
	{regexp.MustCompile(`^(Butterfly|butterfly)$`), []int{0, 1}},
	{regexp.MustCompile(`^(mul|add|sub|double|neg|square|fromMont|toMont|reduce|MulBy[0-9]+|mulBy[0-9]+|_mulGeneric|inverse|halve)$`), []int{0}},
	{regexp.MustCompile(`^(addVec|subVec|mulVec|scalarMulVec|sumVec|innerProdVec|vectorButterfly.*)$`), []int{0}},
	{regexp.MustCompile(`^(addE2|subE2|doubleE2|negE2|mulAdxE2|mulNonResE2|squareAdxE2|mulE2|squareE2)$`), []int{0}},
	{regexp.MustCompile(`^(mulAccE4_avx512|mulAccE4.*)$`), []int{0}},
	{regexp.MustCompile(`^(innerDIFWithTwiddles.*|innerDITWithTwiddles.*|kerDIFNP_.*|kerDITNP_.*)$`), []int{0}},
	{regexp.MustCompile(`^(permutation.*_avx512|permutation16x24_avx512|permutation24_avx512|permutation16_avx512)$`), []int{0}},
	{regexp.MustCompile(`^(sis.*_avx512|sisShuffle_avx512|sisUnshuffle_avx512|sis512_16_avx512)$`), []int{0, 1, 2, 3, 4, 5}},
	{regexp.MustCompile(`^(supportAdx|supportAvx512|cpuid|xgetbv)$`), []int{}},
}

func lookupExt(name string, own bool) *extSpec {
	if own {
		short := name[strings.LastIndex(name, ".")+1:]
		for _, r := range asmRules {
			if r.re.MatchString(short) {
				return &extSpec{writes: r.writes}
			}
		}
		return nil
	}
	for i := range extRules {
		if extRules[i].re.MatchString(name) {
			return &extRules[i].sp
		}
	}
	return nil
}

func lookupIface(key string) *extSpec {
	for i := range ifaceRules {
		if ifaceRules[i].re.MatchString(key) {
			return &ifaceRules[i].sp
		}
	}
	return nil
}
