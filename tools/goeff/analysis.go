package main

import (
	"fmt"
	"go/token"
	"go/types"
	"sort"
	"strings"

	"golang.org/x/tools/go/ssa"
	"golang.org/x/tools/go/ssa/ssautil"
)

// ------------------------------------------------------------------------------------------------ roots

// A root names a REGION of memory relative to one function activation:
//
//	PS k : the memory block(s) directly pointed to by the pointers contained in parameter k (receiver = 0; the free variables of a
//	       closure follow its parameters)                                                       ("shallow")
//	PD k : everything reachable from PS k by at least one load of a pointer / slice / map / interface   ("deep")
//	G g  : package-level variable g and everything reachable from it
//	L s  : an allocation site of the function itself (Alloc, make, fresh result of a call); never leaves the function
type root int64

const (
	kPS = iota
	kPD
	kG
	kL
	kFresh
)

func mk(k, i int) root     { return root(k)<<40 | root(i) }
func (r root) kind() int   { return int(r >> 40) }
func (r root) idx() int    { return int(r & (1<<40 - 1)) }
func (r root) local() bool { return r.kind() == kL }

var freshRoot = mk(kFresh, 0)

type rset map[root]struct{}

func (s rset) add(r root) bool {
	if _, ok := s[r]; ok {
		return false
	}
	s[r] = struct{}{}
	return true
}
func (s rset) addAll(t rset) bool {
	ch := false
	for r := range t {
		if s.add(r) {
			ch = true
		}
	}
	return ch
}
func (s rset) sorted() []root {
	var l []root
	for r := range s {
		l = append(l, r)
	}
	sort.Slice(l, func(i, j int) bool { return l[i] < l[j] })
	return l
}

func sameBase(a, b root) bool {
	ka, kb := a.kind(), b.kind()
	if (ka == kPS || ka == kPD) && (kb == kPS || kb == kPD) {
		return a.idx() == b.idx()
	}
	return a == b
}

// ------------------------------------------------------------------------------------------------ function info

type atom struct {
	callee *fnInfo
	am     map[int][]root // callee p-root index (2k shallow, 2k+1 deep) -> caller roots (non-local)
}

type fnInfo struct {
	fn       *ssa.Function // nil for table entries of interface methods
	name     string
	pkg      string
	nparams  int
	ptr      []bool
	pnames   []string
	nres     int
	external bool
	unknown  bool // external without table entry
	exported bool
	recvPtr  bool
	isMethod bool

	// closed summary (Go side)
	writes  rset
	rets    []rset
	retCont []rset
	retains map[[2]root]struct{}

	// local state (monotone, kept between rounds)
	vals    map[ssa.Value]rset
	tups    map[ssa.Value][]rset
	content map[root]rset
	sites   map[any]int
	pidx    map[ssa.Value]int

	// emission
	dwrites rset
	atoms   map[string]*atom
	id      int
	visited bool
}

type analysis struct {
	prog       *ssa.Program
	own        map[string]bool
	covered    map[string]bool
	infos      map[*ssa.Function]*fnInfo
	pseudo     map[string]*fnInfo
	bodies     []*fnInfo
	order      []*fnInfo // emitted, callee first
	globals    map[*ssa.Global]int
	gnames     []string
	addrTaken  map[string][]*ssa.Function
	implCache  map[string][]*ssa.Function
	ownTypes   []types.Type
	ptrCache   map[types.Type]bool
	changed    bool
	dyn        bool // applying a summary at a dynamic call of a function value: parameter effects only
	emitting   bool
	nEmitted   int
	unknownExt map[string]bool
}

func newAnalysis(prog *ssa.Program, own, covered map[string]bool) *analysis {
	return &analysis{prog: prog, own: own, covered: covered, infos: map[*ssa.Function]*fnInfo{}, pseudo: map[string]*fnInfo{},
		globals: map[*ssa.Global]int{}, addrTaken: map[string][]*ssa.Function{}, implCache: map[string][]*ssa.Function{},
		ptrCache: map[types.Type]bool{}, unknownExt: map[string]bool{}}
}

func (a *analysis) ptrLike(t types.Type) bool {
	if v, ok := a.ptrCache[t]; ok {
		return v
	}
	a.ptrCache[t] = false // recursion guard (recursive types go through a pointer, which returns true before recursing)
	r := false
	switch u := t.Underlying().(type) {
	case *types.Pointer, *types.Slice, *types.Map, *types.Chan, *types.Interface, *types.Signature:
		r = true
	case *types.Basic:
		r = u.Kind() == types.UnsafePointer
	case *types.Struct:
		for i := 0; i < u.NumFields(); i++ {
			if a.ptrLike(u.Field(i).Type()) {
				r = true
				break
			}
		}
	case *types.Array:
		r = a.ptrLike(u.Elem())
	case *types.Tuple:
		for i := 0; i < u.Len(); i++ {
			if a.ptrLike(u.At(i).Type()) {
				r = true
			}
		}
	default:
		r = true // type parameters etc.
	}
	a.ptrCache[t] = r
	return r
}

func pkgPathOf(fn *ssa.Function) string {
	for f := fn; f != nil; f = f.Parent() {
		if f.Pkg != nil {
			return f.Pkg.Pkg.Path()
		}
		if o := f.Object(); o != nil && o.Pkg() != nil {
			return o.Pkg().Path()
		}
		if f.Origin() != nil && f.Origin().Pkg != nil {
			return f.Origin().Pkg.Pkg.Path()
		}
	}
	return ""
}

func relName(s string) string { return strings.ReplaceAll(s, modPath+"/", "") }

// canonical name  <pkg>.(*T).M  /  <pkg>.T.M  /  <pkg>.F  (module prefix stripped)
func fnName(fn *ssa.Function) string {
	if fn.Signature.Recv() != nil && fn.Pkg != nil && fn.Synthetic == "" {
		rt := fn.Signature.Recv().Type()
		ptr := false
		if p, ok := rt.(*types.Pointer); ok {
			rt = p.Elem()
			ptr = true
		}
		tn := types.TypeString(rt, func(*types.Package) string { return "" })
		if ptr {
			return relName(fn.Pkg.Pkg.Path()) + ".(*" + tn + ")." + fn.Name()
		}
		return relName(fn.Pkg.Pkg.Path()) + "." + tn + "." + fn.Name()
	}
	return relName(fn.String())
}

func (a *analysis) info(fn *ssa.Function) *fnInfo {
	if fi, ok := a.infos[fn]; ok {
		return fi
	}
	fi := &fnInfo{fn: fn, name: fnName(fn), writes: rset{}, retains: map[[2]root]struct{}{}, dwrites: rset{}, atoms: map[string]*atom{}, id: -1}
	fi.pkg = pkgPathOf(fn)
	a.infos[fn] = fi
	sig := fn.Signature
	fi.nres = sig.Results().Len()
	if len(fn.Blocks) > 0 {
		fi.pidx = map[ssa.Value]int{}
		for i, p := range fn.Params {
			fi.pidx[p] = i
			fi.ptr = append(fi.ptr, a.ptrLike(p.Type()))
			fi.pnames = append(fi.pnames, p.Name())
		}
		fi.nparams = len(fn.Params)
		for i, fv := range fn.FreeVars {
			fi.pidx[fv] = fi.nparams + i
			fi.ptr = append(fi.ptr, true)
			fi.pnames = append(fi.pnames, "^"+fv.Name())
		}
		fi.vals = map[ssa.Value]rset{}
		fi.tups = map[ssa.Value][]rset{}
		fi.content = map[root]rset{}
		fi.sites = map[any]int{}
		a.bodies = append(a.bodies, fi)
		a.changed = true
		if a.emitting {
			die("internal: function %s discovered in the emission sweep", fi.name)
		}
	} else {
		fi.external = true
		if sig.Recv() != nil {
			fi.ptr = append(fi.ptr, a.ptrLike(sig.Recv().Type()))
			fi.pnames = append(fi.pnames, "recv")
		}
		for i := 0; i < sig.Params().Len(); i++ {
			fi.ptr = append(fi.ptr, a.ptrLike(sig.Params().At(i).Type()))
			fi.pnames = append(fi.pnames, sig.Params().At(i).Name())
		}
		fi.nparams = len(fi.ptr)
		a.applySpec(fi, lookupExt(fn.String(), fi.pkg != "" && a.own[fi.pkg]))
	}
	for i := 0; i < fi.nres; i++ {
		fi.rets = append(fi.rets, rset{})
		fi.retCont = append(fi.retCont, rset{})
	}
	if fi.external {
		a.specRets(fi)
	}
	// exported entry point of a covered package?
	if fn.Pkg != nil && a.covered[fn.Pkg.Pkg.Path()] && fn.Synthetic == "" && fn.Parent() == nil && token.IsExported(fn.Name()) && len(fn.TypeArgs()) == 0 {
		ok := true
		if r := sig.Recv(); r != nil {
			fi.isMethod = true
			rt := r.Type()
			if p, isp := rt.(*types.Pointer); isp {
				rt = p.Elem()
				fi.recvPtr = true
			}
			if n, isn := rt.(*types.Named); isn {
				ok = n.Obj().Exported()
			}
		}
		fi.exported = ok
	}
	return fi
}

// spec of an external function: which arguments it may write, which its results may alias, what it retains
type extSpec struct {
	writes   []int
	retAlias []int
	retains  [][2]int
	unknown  bool
}

var pendingSpec = map[*fnInfo]*extSpec{}

func (a *analysis) applySpec(fi *fnInfo, sp *extSpec) {
	if sp == nil || sp.unknown {
		fi.unknown = true
		sp = &extSpec{unknown: true}
		for k, p := range fi.ptr {
			if p {
				sp.writes = append(sp.writes, k)
				sp.retAlias = append(sp.retAlias, k)
			}
		}
	}
	for _, k := range sp.writes {
		if k < len(fi.ptr) && fi.ptr[k] {
			fi.writes.add(mk(kPS, k))
			fi.writes.add(mk(kPD, k))
			fi.dwrites.add(mk(kPS, k))
			fi.dwrites.add(mk(kPD, k))
		}
	}
	for _, p := range sp.retains {
		if p[0] < len(fi.ptr) && p[1] < len(fi.ptr) {
			fi.retains[[2]root{mk(kPS, p[0]), mk(kPD, p[1])}] = struct{}{}
		}
	}
	pendingSpec[fi] = sp
}

func (a *analysis) specRets(fi *fnInfo) {
	sp := pendingSpec[fi]
	delete(pendingSpec, fi)
	for j := range fi.rets {
		fi.rets[j].add(freshRoot)
		for _, k := range sp.retAlias {
			if k < len(fi.ptr) && fi.ptr[k] {
				fi.rets[j].add(mk(kPS, k))
				fi.rets[j].add(mk(kPD, k))
			}
		}
	}
}

// table entry for an interface method of a well-known interface
func (a *analysis) pseudoFn(key string, nargs int, nres int, sp *extSpec) *fnInfo {
	k := fmt.Sprintf("%s/%d", key, nargs)
	if fi, ok := a.pseudo[k]; ok {
		return fi
	}
	fi := &fnInfo{name: "iface:" + key, writes: rset{}, retains: map[[2]root]struct{}{}, dwrites: rset{}, atoms: map[string]*atom{}, id: -1, external: true, nparams: nargs, nres: nres}
	for i := 0; i < nargs; i++ {
		fi.ptr = append(fi.ptr, true)
		fi.pnames = append(fi.pnames, fmt.Sprintf("a%d", i))
	}
	a.applySpec(fi, sp)
	for i := 0; i < nres; i++ {
		fi.rets = append(fi.rets, rset{})
		fi.retCont = append(fi.retCont, rset{})
	}
	a.specRets(fi)
	a.pseudo[k] = fi
	return fi
}

// ------------------------------------------------------------------------------------------------ driver

func sigKey(sig *types.Signature) string {
	var sb strings.Builder
	for i := 0; i < sig.Params().Len(); i++ {
		sb.WriteString(types.TypeString(sig.Params().At(i).Type(), nil))
		sb.WriteByte(',')
	}
	if sig.Variadic() {
		sb.WriteString("...")
	}
	sb.WriteString("->")
	for i := 0; i < sig.Results().Len(); i++ {
		sb.WriteString(types.TypeString(sig.Results().At(i).Type(), nil))
		sb.WriteByte(',')
	}
	return sb.String()
}

func (a *analysis) run() {
	all := ssautil.AllFunctions(a.prog)
	var fns []*ssa.Function
	for fn := range all {
		if len(fn.Blocks) == 0 {
			continue
		}
		if fn.TypeParams().Len() > 0 && len(fn.TypeArgs()) == 0 {
			continue // generic template; its instances are analysed
		}
		fns = append(fns, fn)
	}
	sort.Slice(fns, func(i, j int) bool {
		si, sj := fns[i].String(), fns[j].String()
		if si != sj {
			return si < sj
		}
		return fns[i].Pos() < fns[j].Pos()
	})
	for _, fn := range fns {
		if a.own[pkgPathOf(fn)] {
			a.info(fn)
		}
	}
	// own named types (for interface dispatch)
	for _, p := range a.prog.AllPackages() {
		if !a.own[p.Pkg.Path()] {
			continue
		}
		var names []string
		for n := range p.Members {
			names = append(names, n)
		}
		sort.Strings(names)
		for _, n := range names {
			if t, ok := p.Members[n].(*ssa.Type); ok {
				if _, isI := t.Type().Underlying().(*types.Interface); isI {
					continue
				}
				if nt, ok := t.Type().(*types.Named); ok && nt.TypeParams().Len() > 0 {
					continue
				}
				a.ownTypes = append(a.ownTypes, t.Type(), types.NewPointer(t.Type()))
			}
		}
	}
	// address-taken functions by signature
	seenAT := map[*ssa.Function]bool{}
	for _, fi := range a.bodies {
		for _, b := range fi.fn.Blocks {
			for _, in := range b.Instrs {
				var callee ssa.Value
				if ci, ok := in.(ssa.CallInstruction); ok && !ci.Common().IsInvoke() {
					callee = ci.Common().Value
				}
				for _, op := range in.Operands(nil) {
					if f, ok := (*op).(*ssa.Function); ok && (*op) != callee || ok && isMakeClosure(in) {
						if !seenAT[f] && len(f.Blocks) > 0 {
							seenAT[f] = true
							k := sigKey(f.Signature)
							a.addrTaken[k] = append(a.addrTaken[k], f)
						}
					}
				}
			}
		}
	}
	for round := 1; ; round++ {
		a.changed = false
		for _, fi := range a.bodies {
			a.analyse(fi)
		}
		if !a.changed {
			break
		}
		if round > 200 {
			die("no fixpoint after 200 rounds")
		}
	}
	// final sweep: record the direct facts
	a.emitting = true
	for _, fi := range a.bodies {
		fi.dwrites = rset{}
		fi.atoms = map[string]*atom{}
	}
	for _, fi := range a.bodies {
		a.analyse(fi)
	}
	if a.changed {
		die("internal: summaries changed in the emission sweep")
	}
}

func isMakeClosure(in ssa.Instruction) bool { _, ok := in.(*ssa.MakeClosure); return ok }

func (a *analysis) analyse(fi *fnInfo) {
	for {
		ch := false
		for _, b := range fi.fn.Blocks {
			for _, in := range b.Instrs {
				if a.step(fi, in) {
					ch = true
				}
			}
		}
		if !ch {
			return
		}
	}
}

// ------------------------------------------------------------------------------------------------ transfer functions

func (a *analysis) gid(g *ssa.Global) int {
	if i, ok := a.globals[g]; ok {
		return i
	}
	i := len(a.gnames)
	a.globals[g] = i
	a.gnames = append(a.gnames, relName(g.String()))
	return i
}

func (a *analysis) roots(fi *fnInfo, v ssa.Value) rset {
	switch v := v.(type) {
	case *ssa.Parameter:
		if k := fi.pidx[v]; fi.ptr[k] {
			return rset{mk(kPS, k): {}}
		}
		return nil
	case *ssa.FreeVar:
		return rset{mk(kPS, fi.pidx[v]): {}}
	case *ssa.Global:
		return rset{mk(kG, a.gid(v)): {}}
	case *ssa.Const, *ssa.Function, *ssa.Builtin:
		return nil
	}
	return fi.vals[v]
}

func (fi *fnInfo) site(key any) root {
	if i, ok := fi.sites[key]; ok {
		return mk(kL, i)
	}
	i := len(fi.sites)
	fi.sites[key] = i
	return mk(kL, i)
}

func (fi *fnInfo) loadFrom(R rset) rset {
	out := rset{}
	for r := range R {
		switch r.kind() {
		case kPS, kPD:
			out.add(mk(kPD, r.idx()))
		case kG:
			out.add(r)
		}
		out.addAll(fi.content[r])
	}
	return out
}

// everything reachable from R by at least one load
func (fi *fnInfo) deepOf(R rset) rset {
	out := fi.loadFrom(R)
	for {
		n := fi.loadFrom(out)
		if !out.addAll(n) {
			return out
		}
	}
}

func (fi *fnInfo) setVal(v ssa.Value, R rset) bool {
	if len(R) == 0 {
		return false
	}
	s := fi.vals[v]
	if s == nil {
		s = rset{}
		fi.vals[v] = s
	}
	return s.addAll(R)
}

func (fi *fnInfo) addContent(d root, V rset) bool {
	if len(V) == 0 {
		return false
	}
	s := fi.content[d]
	if s == nil {
		s = rset{}
		fi.content[d] = s
	}
	return s.addAll(V)
}

func (a *analysis) addWrite(fi *fnInfo, r root, direct bool) bool {
	if r.local() || r.kind() == kFresh {
		return false
	}
	if direct && a.emitting {
		fi.dwrites.add(r)
	}
	if fi.writes.add(r) {
		a.changed = true
		return true
	}
	return false
}

func (a *analysis) addRetain(fi *fnInfo, s, d root) bool {
	if s.local() || d.local() || sameBase(s, d) || s.kind() == kFresh {
		return false
	}
	k := [2]root{s, d}
	if _, ok := fi.retains[k]; ok {
		return false
	}
	fi.retains[k] = struct{}{}
	a.changed = true
	return true
}

// a pointer-like value with roots V is stored into memory of root d
func (a *analysis) storeInto(fi *fnInfo, d root, V rset) bool {
	ch := fi.addContent(d, V)
	if !d.local() && len(V) > 0 {
		hasLocal := false
		for v := range V {
			if v.local() {
				hasLocal = true
			} else if a.addRetain(fi, v, d) {
				ch = true
			}
		}
		if hasLocal {
			for v := range fi.deepOf(V) {
				if a.addRetain(fi, v, d) {
					ch = true
				}
			}
		}
	}
	return ch
}

func (a *analysis) step(fi *fnInfo, in ssa.Instruction) bool {
	ch0 := false
	if _, isMC := in.(*ssa.MakeClosure); !isMC {
		var callee ssa.Value
		if ci, ok := in.(ssa.CallInstruction); ok && !ci.Common().IsInvoke() {
			callee = ci.Common().Value
		}
		for _, op := range in.Operands(nil) {
			if f, ok := (*op).(*ssa.Function); ok && (*op) != callee && (len(f.Blocks) > 0 || !a.own[pkgPathOf(f)]) {
				if f.TypeParams().Len() > 0 && len(f.TypeArgs()) == 0 {
					continue
				}
				if a.apply(fi, in, a.info(f), nil, nil, true) {
					ch0 = true
				}
			}
		}
	}
	return a.step1(fi, in) || ch0
}

func (a *analysis) step1(fi *fnInfo, in ssa.Instruction) bool {
	switch v := in.(type) {
	case *ssa.Alloc:
		return fi.setVal(v, rset{fi.site(v): {}})
	case *ssa.MakeSlice:
		return fi.setVal(v, rset{fi.site(v): {}})
	case *ssa.MakeMap:
		return fi.setVal(v, rset{fi.site(v): {}})
	case *ssa.MakeChan:
		return fi.setVal(v, rset{fi.site(v): {}})
	case *ssa.FieldAddr:
		return fi.setVal(v, a.roots(fi, v.X))
	case *ssa.IndexAddr:
		return fi.setVal(v, a.roots(fi, v.X))
	case *ssa.Slice:
		return fi.setVal(v, a.roots(fi, v.X))
	case *ssa.Field:
		if a.ptrLike(v.Type()) {
			return fi.setVal(v, a.roots(fi, v.X))
		}
	case *ssa.Index:
		if a.ptrLike(v.Type()) {
			return fi.setVal(v, a.roots(fi, v.X))
		}
	case *ssa.ChangeType:
		return fi.setVal(v, a.roots(fi, v.X))
	case *ssa.Convert:
		if a.ptrLike(v.Type()) {
			return fi.setVal(v, a.roots(fi, v.X))
		}
	case *ssa.MultiConvert:
		if a.ptrLike(v.Type()) {
			return fi.setVal(v, a.roots(fi, v.X))
		}
	case *ssa.ChangeInterface:
		return fi.setVal(v, a.roots(fi, v.X))
	case *ssa.SliceToArrayPointer:
		return fi.setVal(v, a.roots(fi, v.X))
	case *ssa.MakeInterface:
		return fi.setVal(v, a.roots(fi, v.X))
	case *ssa.TypeAssert:
		if a.ptrLike(v.Type()) {
			return fi.setVal(v, a.roots(fi, v.X))
		}
	case *ssa.Range:
		return fi.setVal(v, a.roots(fi, v.X))
	case *ssa.Next:
		return fi.setVal(v, fi.loadFrom(a.roots(fi, v.Iter)))
	case *ssa.UnOp:
		if (v.Op == token.MUL || v.Op == token.ARROW) && a.ptrLike(v.Type()) {
			return fi.setVal(v, fi.loadFrom(a.roots(fi, v.X)))
		}
	case *ssa.Lookup:
		if a.ptrLike(v.Type()) {
			return fi.setVal(v, fi.loadFrom(a.roots(fi, v.X)))
		}
	case *ssa.Extract:
		if !a.ptrLike(v.Type()) {
			return false
		}
		if t, ok := fi.tups[v.Tuple]; ok {
			if v.Index < len(t) {
				return fi.setVal(v, t[v.Index])
			}
			return false
		}
		return fi.setVal(v, a.roots(fi, v.Tuple))
	case *ssa.Phi:
		ch := false
		if a.ptrLike(v.Type()) {
			for _, e := range v.Edges {
				if fi.setVal(v, a.roots(fi, e)) {
					ch = true
				}
			}
		}
		return ch
	case *ssa.Select:
		ch := false
		for _, st := range v.States {
			if st.Dir == types.RecvOnly {
				if fi.setVal(v, fi.loadFrom(a.roots(fi, st.Chan))) {
					ch = true
				}
			} else if a.sendTo(fi, st.Chan, st.Send) {
				ch = true
			}
		}
		return ch
	case *ssa.Store:
		ch := false
		var V rset
		if a.ptrLike(v.Val.Type()) {
			V = a.roots(fi, v.Val)
		}
		for d := range a.roots(fi, v.Addr) {
			if a.addWrite(fi, d, true) {
				ch = true
			}
			if a.storeInto(fi, d, V) {
				ch = true
			}
		}
		return ch
	case *ssa.MapUpdate:
		ch := false
		V := rset{}
		if a.ptrLike(v.Key.Type()) {
			V.addAll(a.roots(fi, v.Key))
		}
		if a.ptrLike(v.Value.Type()) {
			V.addAll(a.roots(fi, v.Value))
		}
		for d := range a.roots(fi, v.Map) {
			if a.addWrite(fi, d, true) {
				ch = true
			}
			if a.storeInto(fi, d, V) {
				ch = true
			}
		}
		return ch
	case *ssa.Send:
		return a.sendTo(fi, v.Chan, v.X)
	case *ssa.Return:
		ch := false
		for j, r := range v.Results {
			if !a.ptrLike(r.Type()) || j >= len(fi.rets) {
				continue
			}
			for x := range a.roots(fi, r) {
				if !x.local() {
					if fi.rets[j].add(x) {
						ch, a.changed = true, true
					}
					continue
				}
				if fi.rets[j].add(freshRoot) {
					ch, a.changed = true, true
				}
				for y := range fi.deepOf(rset{x: {}}) {
					if !y.local() && fi.retCont[j].add(y) {
						ch, a.changed = true, true
					}
				}
			}
		}
		return ch
	case *ssa.MakeClosure:
		cf := a.info(v.Fn.(*ssa.Function))
		A := make([]rset, cf.nparams+len(v.Bindings))
		all := rset{}
		for i, b := range v.Bindings {
			A[cf.nparams+i] = a.roots(fi, b)
			all.addAll(A[cf.nparams+i])
		}
		ch := a.apply(fi, in, cf, A, nil, true)
		if fi.setVal(v, all) {
			ch = true
		}
		return ch
	case *ssa.Call:
		return a.doCall(fi, in, v.Common(), v)
	case *ssa.Go:
		return a.doCall(fi, in, v.Common(), nil)
	case *ssa.Defer:
		return a.doCall(fi, in, v.Common(), nil)
	}
	return false
}

func (a *analysis) sendTo(fi *fnInfo, ch0, x ssa.Value) bool {
	ch := false
	var V rset
	if a.ptrLike(x.Type()) {
		V = a.roots(fi, x)
	}
	for d := range a.roots(fi, ch0) {
		if a.addWrite(fi, d, true) {
			ch = true
		}
		if a.storeInto(fi, d, V) {
			ch = true
		}
	}
	return ch
}

// ------------------------------------------------------------------------------------------------ calls

func (a *analysis) doCall(fi *fnInfo, in ssa.Instruction, c *ssa.CallCommon, res ssa.Value) bool {
	if b, ok := c.Value.(*ssa.Builtin); ok {
		return a.doBuiltin(fi, in, b.Name(), c.Args, res)
	}
	argRoots := func(args []ssa.Value) []rset {
		A := make([]rset, len(args))
		for i, x := range args {
			if a.ptrLike(x.Type()) {
				A[i] = a.roots(fi, x)
			}
		}
		return A
	}
	if c.IsInvoke() {
		args := append([]ssa.Value{c.Value}, c.Args...)
		A := argRoots(args)
		ch := false
		for _, cf := range a.implementations(c, len(args)) {
			if a.apply(fi, in, cf, A, res, false) {
				ch = true
			}
		}
		return ch
	}
	A := argRoots(c.Args)
	if f := c.StaticCallee(); f != nil {
		if f.TypeParams().Len() > 0 && len(f.TypeArgs()) == 0 {
			return false
		}
		return a.apply(fi, in, a.info(f), A, res, false)
	}
	// dynamic call of a function value: every address-taken function of the same signature (parameter effects only; the effects of a
	// closure on its free variables are charged where the closure is made)
	ch := false
	a.dyn = true
	for _, f := range a.addrTaken[sigKey(c.Signature())] {
		if a.apply(fi, in, a.info(f), A, res, false) {
			ch = true
		}
	}
	a.dyn = false
	return ch
}

// is the interface value certainly an object made by a constructor outside the loaded packages (sha256.New(), bytes.NewReader, ...)?
func (a *analysis) extOrigin(v ssa.Value, depth int) bool {
	if depth > 6 {
		return false
	}
	switch v := v.(type) {
	case *ssa.Call:
		if f := v.Common().StaticCallee(); f != nil && len(f.Blocks) == 0 && !a.own[pkgPathOf(f)] {
			return true
		}
	case *ssa.MakeInterface:
		t := v.X.Type()
		if p, ok := t.(*types.Pointer); ok {
			t = p.Elem()
		}
		if n, ok := t.(*types.Named); ok && n.Obj().Pkg() != nil && !a.own[n.Obj().Pkg().Path()] {
			return true
		}
	case *ssa.ChangeInterface:
		return a.extOrigin(v.X, depth+1)
	case *ssa.Phi:
		for _, e := range v.Edges {
			if !a.extOrigin(e, depth+1) {
				return false
			}
		}
		return len(v.Edges) > 0
	}
	return false
}

func (a *analysis) implementations(c *ssa.CallCommon, nargs int) []*fnInfo {
	it := c.Value.Type()
	key := types.TypeString(it, nil) + "." + c.Method.Name()
	var out []*fnInfo
	sp := lookupIface(key)
	declaredOutside := true
	if n, ok := it.(*types.Named); ok && n.Obj().Pkg() != nil && a.own[n.Obj().Pkg().Path()] {
		declaredOutside = false
	}
	fns, ok := a.implCache[key]
	if !ok {
		iface, _ := it.Underlying().(*types.Interface)
		for _, T := range a.ownTypes {
			if iface == nil || !types.Implements(T, iface) {
				continue
			}
			sel := a.prog.MethodSets.MethodSet(T).Lookup(c.Method.Pkg(), c.Method.Name())
			if sel == nil {
				continue
			}
			if f := a.prog.MethodValue(sel); f != nil {
				fns = append(fns, f)
			}
		}
		a.implCache[key] = fns
	}
	for _, f := range fns {
		if len(f.Blocks) > 0 {
		}
		out = append(out, a.info(f))
	}
	if sp != nil {
		out = append(out, a.pseudoFn(key, nargs, c.Signature().Results().Len(), sp))
	} else if declaredOutside || len(fns) == 0 {
		// implementations outside the loaded packages are possible and nothing is known about them
		if !a.unknownExt["iface:"+key] {
			a.unknownExt["iface:"+key] = true
		}
		out = append(out, a.pseudoFn(key, nargs, c.Signature().Results().Len(), nil))
	}
	return out
}

// apply the summary of cf at a call with argument roots A (indexed by the callee's parameter index)
func (a *analysis) apply(fi *fnInfo, in ssa.Instruction, cf *fnInfo, A []rset, res ssa.Value, closure bool) bool {
	ch := false
	deep := map[int]rset{}
	bind := func(r root) rset {
		switch r.kind() {
		case kPS:
			if r.idx() < len(A) {
				return A[r.idx()]
			}
		case kPD:
			k := r.idx()
			if k < len(A) {
				if d, ok := deep[k]; ok {
					return d
				}
				d := fi.deepOf(A[k])
				deep[k] = d
				return d
			}
		case kG:
			return rset{r: {}}
		}
		return nil
	}
	if cf.unknown && cf.fn != nil {
		a.unknownExt[cf.name] = true
	}
	for w := range cf.writes {
		if a.dyn && w.kind() == kG {
			continue // charged where the function value is made
		}
		for r := range bind(w) {
			// a dynamic call is recorded as DIRECT writes (the candidate's closed parameter effects through the argument roots)
			if a.addWrite(fi, r, a.dyn) {
				ch = true
			}
		}
	}
	for p := range cf.retains {
		bs := bind(p[0])
		if len(bs) == 0 {
			continue
		}
		for d := range bind(p[1]) {
			if a.storeInto(fi, d, bs) {
				ch = true
			}
		}
	}
	if res != nil && !closure {
		n := len(cf.rets)
		var tup []rset
		if n > 1 {
			tup = fi.tups[res]
			if tup == nil {
				tup = make([]rset, n)
				for j := range tup {
					tup[j] = rset{}
				}
				fi.tups[res] = tup
			}
		}
		for j := 0; j < n; j++ {
			R := rset{}
			for r := range cf.rets[j] {
				if r == freshRoot {
					s := fi.site([2]any{in, j})
					R.add(s)
					C := rset{s: {}}
					for x := range cf.retCont[j] {
						C.addAll(bind(x))
					}
					if fi.addContent(s, C) {
						ch = true
					}
					continue
				}
				R.addAll(bind(r))
			}
			if n == 1 {
				if a.ptrLike(res.Type()) && fi.setVal(res, R) {
					ch = true
				}
			} else if tup[j].addAll(R) {
				ch = true
			}
		}
	}
	if a.emitting && !a.dyn {
		am := map[int][]root{}
		for k := 0; k < len(A) && k < len(cf.ptr); k++ {
			if !cf.ptr[k] || len(A[k]) == 0 {
				continue
			}
			var sh, dp []root
			for _, r := range A[k].sorted() {
				if !r.local() {
					sh = append(sh, r)
				}
			}
			for _, r := range bind(mk(kPD, k)).sorted() {
				if !r.local() {
					dp = append(dp, r)
				}
			}
			if len(sh) > 0 {
				am[2*k] = sh
			}
			if len(dp) > 0 {
				am[2*k+1] = dp
			}
		}
		key := fmt.Sprintf("%p|%v", cf, am)
		if _, ok := fi.atoms[key]; !ok {
			fi.atoms[key] = &atom{callee: cf, am: am}
		}
	}
	return ch
}

func (a *analysis) doBuiltin(fi *fnInfo, in ssa.Instruction, name string, args []ssa.Value, res ssa.Value) bool {
	ch := false
	writeAll := func(v ssa.Value) {
		for d := range a.roots(fi, v) {
			if a.addWrite(fi, d, true) {
				ch = true
			}
		}
	}
	switch name {
	case "append":
		s := fi.site(in)
		R := rset{s: {}}
		R.addAll(a.roots(fi, args[0]))
		writeAll(args[0]) // append in place: writes the backing array of its first argument beyond len when the capacity allows
		if len(args) > 1 && a.ptrLike(args[1].Type()) {
			if sl, ok := args[1].Type().Underlying().(*types.Slice); ok && a.ptrLike(sl.Elem()) {
				V := fi.loadFrom(a.roots(fi, args[1]))
				for d := range R {
					if a.storeInto(fi, d, V) {
						ch = true
					}
				}
			}
		}
		if res != nil && fi.setVal(res, R) {
			ch = true
		}
	case "copy":
		writeAll(args[0])
		if sl, ok := args[0].Type().Underlying().(*types.Slice); ok && a.ptrLike(sl.Elem()) {
			V := fi.loadFrom(a.roots(fi, args[1]))
			for d := range a.roots(fi, args[0]) {
				if a.storeInto(fi, d, V) {
					ch = true
				}
			}
		}
	case "clear", "delete", "close":
		writeAll(args[0])
	case "ssa:wrapnilchk", "Slice", "SliceData", "String", "StringData", "Add":
		if res != nil && a.ptrLike(res.Type()) && fi.setVal(res, a.roots(fi, args[0])) {
			ch = true
		}
	}
	return ch
}

func (a *analysis) fmtRoots(fi *fnInfo, s rset) string {
	var out []string
	for _, r := range s.sorted() {
		switch r.kind() {
		case kPS:
			out = append(out, fmt.Sprintf("p%d", r.idx()))
		case kPD:
			out = append(out, fmt.Sprintf("p%d*", r.idx()))
		case kG:
			out = append(out, "@"+a.gnames[r.idx()])
		}
	}
	return "[" + strings.Join(out, " ") + "]"
}
