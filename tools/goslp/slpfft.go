// Part 4 of gvgoslp: the FFT butterfly kernels and small complete transforms of the fft packages -> Gen/FFT/<Pkg>.lean (C10).
//
// Built on the extended mode (slpx.go: values known at translation time decide `if` / `for`, callees are specialised per call
// site). Additional Go subset and its semantics (trusted, like slp.go / slpx.go):
//   - `a[lo:hi]` with lo, hi known at translation time is a VIEW of the elements lo..hi-1 of the array cell `a` lives in.
//     A view passed as a slice argument is copied into a fresh array (`blk<k>`), the callee is specialised to that length, and
//     the elements are copied back after the call (copy-in / copy-out is what sharing the backing array means as long as no other
//     argument of the same call reaches the same array: that is checked, overlapping arguments are rejected).
//     `v := fr.Vector(a[lo:hi])` binds a local name to a view; `v1.Mul(v1, v2)` on views of equal length is the element-wise
//     product written into v1 (v1 and the operands must be the same view or disjoint).
//   - `[][]Element` (the twiddle table) is a read-only structure of rows whose lengths are fixed by the specialisation
//     (`Tw<M>`: the rows `buildTwiddles` allocates for a domain of cardinality M, row i has 1 + M/2^(i+1) entries);
//     `twiddles[k]` with k known at translation time is row k.
//   - arrays of more than 32 elements are functions `Nat → F` (slp.go); one that is BUILT is a balanced decision tree over the
//     index, `fun i__ => if i__ < n/2 then … else …`, whose leaves are the elements.
//   - `chan struct{}` parameters are statically nil (targets are specialised with nbTasks = 1, maxSplits = -1: the branches that
//     start goroutines / call parallel.Execute are decided away at translation time; reaching one is a rejection because
//     `go`, `defer`, closures and channel operations are not in the subset).
//   - `1<<k`, `n>>1` on values known at translation time; `x += k` on such a variable; `b := <static condition>`.
//   - primitives of the base package, whose purego TEXT is compared with the expected text on every run (checkBaseText):
//     fr.Butterfly(&a, &b)   (a, b) := (a + b, a − b)          [_butterflyGeneric: t := *a; a.Add(a, b); b.Sub(&t, b)]
//     Vector.Mul(a, b)        element-wise product               [mulVecGeneric: for i { res[i].Mul(&a[i], &b[i]) }]
package main

import (
	"bytes"
	"encoding/json"
	"fmt"
	"go/ast"
	"go/parser"
	"go/printer"
	"go/token"
	"os"
	"path/filepath"
	"strings"
)

type view struct {
	l      loc // the array cell
	off, n int
}

// sub-slice argument of a call under construction: elements off..off+n-1 of base were copied into the fresh root tmp
type pview struct {
	tmp  string
	base view
}

func (v view) whole(x *tr, s *state) bool {
	return v.off == 0 && v.n == len(x.typeAt(s, v.l).fields)
}

func (v view) overlaps(w view) bool {
	return v.l.overlaps(w.l) && v.off < w.off+w.n && w.off < v.off+v.n
}

// ---------------------------------------------------------------- declarations

func (p *pkgCtx) fftParam(f *ast.File, inBase bool, te ast.Expr, q *param) {
	if at, ok := te.(*ast.ArrayType); ok && at.Len == nil {
		if in, ok := at.Elt.(*ast.ArrayType); ok && in.Len == nil {
			if et, eptr, _ := p.typeOf(f, inBase, in.Elt); et != nil && !eptr && et.base {
				// a reference like every slice: the def returns the table next to the array (read-only: slp.go rejects a write).
				// Besides fidelity this keeps the result of a def a TUPLE, so that `(f a tw).1 i` shares one evaluation of
				// `f a tw` between all indices i when the kernel checks a theorem by evaluation.
				q.jag, q.ptr, q.t = true, true, et
			}
		}
	}
	if id, ok := te.(*ast.Ident); ok && id.Name == "Decimation" && !inBase {
		q.isInt = true // DIT = 0, DIF = 1 (scanIota)
	}
	if el, ok := te.(*ast.Ellipsis); ok {
		if id, ok := el.Elt.(*ast.Ident); ok && id.Name == "Option" && !inBase {
			q.isOpts = true
		}
	}
	if ct, ok := te.(*ast.ChanType); ok {
		if st, ok := ct.Value.(*ast.StructType); ok && len(st.Fields.List) == 0 {
			q.isChan = true
		}
	}
}

// table of a domain of cardinality m (a power of two): log2(m) rows, row i of 1 + m/2^(i+1) entries (buildTwiddles)
func (p *pkgCtx) twType(m int) *typ {
	name := fmt.Sprintf("Tw%d", m)
	if t := p.structs[name]; t != nil {
		return t
	}
	t := &typ{name: name, jag: true}
	for i, h := 0, m/2; h >= 1; i, h = i+1, h/2 {
		t.fields = append(t.fields, fmt.Sprintf("r%d", i))
		t.ftypes = append(t.ftypes, p.arrType(1+h, baseT))
	}
	p.structs[name] = t
	return t
}

// ---------------------------------------------------------------- views

func (x *tr) evalView(s *state, e ast.Expr) view {
	switch e := e.(type) {
	case *ast.ParenExpr:
		return x.evalView(s, e.X)
	case *ast.Ident:
		if v, ok := s.views[e.Name]; ok {
			return v
		}
	case *ast.CallExpr:
		// conversion fr.Vector(x)
		if se, ok := e.Fun.(*ast.SelectorExpr); ok && len(e.Args) == 1 && se.Sel.Name == "Vector" {
			if id, ok := se.X.(*ast.Ident); ok && id.Name == x.p.baseQual[x.file] && s.cells[id.Name] == nil {
				return x.evalView(s, e.Args[0])
			}
		}
		reject("unsupported slice expression %s", exprStr(e))
	case *ast.SliceExpr:
		if e.Max != nil {
			reject("3-index slice")
		}
		b := x.evalView(s, e.X)
		lo, hi := int64(0), int64(b.n)
		ok1, ok2 := true, true
		if e.Low != nil {
			lo, ok1 = x.evalInt(s, e.Low)
		}
		if e.High != nil {
			hi, ok2 = x.evalInt(s, e.High)
		}
		if !ok1 || !ok2 {
			reject("slice bounds of %s are not known at translation time", exprStr(e))
		}
		if lo < 0 || lo > hi || hi > int64(b.n) {
			reject("slice bounds out of range [%d:%d] with length %d (would panic or reach beyond len)", lo, hi, b.n)
		}
		return view{l: b.l, off: b.off + int(lo), n: int(hi - lo)}
	}
	l := x.evalLoc(s, e)
	t := x.typeAt(s, l)
	if !t.arr {
		reject("%s is not a slice of elements", exprStr(e))
	}
	return view{l: l, off: 0, n: len(t.fields)}
}

func (x *tr) elemLoc(v view, i int) loc {
	return loc{v.l.root, append(append([]int(nil), v.l.path...), v.off+i)}
}

// viewArg: a slice argument of a call. The whole array: its location. A proper sub-slice: a fresh array holding a copy
// (written back by flushViews after the call).
func (x *tr) viewArg(s *state, e ast.Expr) loc {
	v := x.evalView(s, e)
	if v.whole(x, s) {
		return v.l
	}
	if v.n == 0 {
		reject("empty slice %s as an argument", exprStr(e))
	}
	et := x.typeAt(s, v.l).ftypes[0]
	t := x.p.arrType(v.n, et)
	nv := &val{t: t}
	src := get(s.cells[v.l.root], v.l.path)
	for i := 0; i < v.n; i++ {
		nv.kids = append(nv.kids, kid(src, v.off+i))
	}
	x.anon++
	name := fmt.Sprintf("blk%d", x.anon)
	x.newRoot(s, name, nv)
	x.pviews = append(x.pviews, pview{tmp: name, base: v})
	return loc{root: name}
}

// no other argument of the call may reach the array a sub-slice argument is taken from (unless the ranges are disjoint views)
func (x *tr) checkViews(mark int, locs []*loc) {
	for i := mark; i < len(x.pviews); i++ {
		pv := x.pviews[i]
		for _, l := range locs {
			if l != nil && l.overlaps(pv.base.l) {
				reject("an argument overlaps the array of a sub-slice argument")
			}
		}
		for j := mark; j < i; j++ {
			if pv.base.overlaps(x.pviews[j].base) {
				reject("overlapping sub-slice arguments")
			}
		}
	}
}

func (x *tr) flushViews(s *state, mark int) {
	if len(x.pviews) <= mark {
		return
	}
	for _, pv := range x.pviews[mark:] {
		if x.wr[pv.tmp] {
			tmp := s.cells[pv.tmp]
			for i := 0; i < pv.base.n; i++ {
				x.write(s, x.elemLoc(pv.base, i), kid(tmp, i))
			}
		}
		delete(s.cells, pv.tmp)
		delete(x.wr, pv.tmp)
	}
	x.pviews = x.pviews[:mark]
}

// a long array that was built: the function `fun i__ => if i__ < n/2 then (…) else (…)`, a balanced decision tree over the index
// whose leaves are the elements (an index ≥ n, which the generated code never reads, gives the last element)
func (x *tr) readLong(v *val) string {
	terms := make([]string, len(v.kids))
	for i, k := range v.kids {
		terms[i] = x.read(k)
	}
	var tree func(lo, hi int) string
	tree = func(lo, hi int) string {
		if hi-lo == 1 {
			return terms[lo]
		}
		mid := (lo + hi) / 2
		return fmt.Sprintf("(if i__ < %d then %s else %s)", mid, tree(lo, mid), tree(mid, hi))
	}
	return "(fun i__ => " + tree(0, len(terms)) + ")"
}

// ---------------------------------------------------------------- locations, assignments, calls

// twiddles[k]: row k of the table
func (x *tr) fftLoc(s *state, e ast.Expr) (loc, bool) {
	ix, ok := e.(*ast.IndexExpr)
	if !ok {
		return loc{}, false
	}
	id, ok := ix.X.(*ast.Ident)
	if !ok {
		return loc{}, false
	}
	c, ok := s.cells[id.Name]
	if !ok || !c.t.jag {
		return loc{}, false
	}
	k, ok := x.evalInt(s, ix.Index)
	if !ok {
		reject("row index of %s is not known at translation time", exprStr(e))
	}
	if k < 0 || int(k) >= len(c.t.fields) {
		reject("row %d of a table of %d rows", k, len(c.t.fields))
	}
	return loc{root: id.Name, path: []int{int(k)}}, true
}

func (x *tr) fftAssign(s *state, st *ast.AssignStmt) bool {
	if len(st.Lhs) != 1 || len(st.Rhs) != 1 {
		return false
	}
	if x.topAssign(s, st) {
		return true
	}
	id, ok := st.Lhs[0].(*ast.Ident)
	if !ok {
		return false
	}
	switch st.Tok {
	case token.DEFINE:
		if _, dup := s.cells[id.Name]; dup {
			return false
		}
		if _, isInt := x.evalInt(s, st.Rhs[0]); isInt {
			return false // slpx.go
		}
		if b, ok := x.staticCond(s, st.Rhs[0]); ok {
			s.sbools[id.Name] = b
			return true
		}
		if c, ok := st.Rhs[0].(*ast.CallExpr); ok {
			if se, ok := c.Fun.(*ast.SelectorExpr); ok && se.Sel.Name == "Vector" && len(c.Args) == 1 {
				if q, ok := se.X.(*ast.Ident); ok && q.Name == x.p.baseQual[x.file] && s.cells[q.Name] == nil {
					s.views[id.Name] = x.evalView(s, c.Args[0])
					return true
				}
			}
		}
	case token.ADD_ASSIGN, token.SUB_ASSIGN:
		if n, ok := s.sints[id.Name]; ok {
			k, ok := x.evalInt(s, st.Rhs[0])
			if !ok {
				reject("%s of an unknown value to %s", st.Tok, id.Name)
			}
			if st.Tok == token.ADD_ASSIGN {
				s.sints[id.Name] = n + k
			} else {
				s.sints[id.Name] = n - k
			}
			return true
		}
	}
	return false
}

// fftCall: fr.Butterfly(&a, &b) and v.Mul(v1, v2) on views
func (x *tr) fftCall(s *state, c *ast.CallExpr) bool {
	if x.topCall(s, c) {
		return true
	}
	se, ok := c.Fun.(*ast.SelectorExpr)
	if !ok {
		return false
	}
	id, ok := se.X.(*ast.Ident)
	if !ok {
		return false
	}
	if id.Name == x.p.baseQual[x.file] && !x.v.f.inBase && s.cells[id.Name] == nil && se.Sel.Name == "Butterfly" && len(c.Args) == 2 {
		la, lb := x.evalPtr(s, c.Args[0]), x.evalPtr(s, c.Args[1])
		if !x.typeAt(s, la).base || !x.typeAt(s, lb).base {
			reject("Butterfly of something that is not an element")
		}
		if la.overlaps(lb) {
			reject("Butterfly(&x, &x)")
		}
		a, b := x.read(get(s.cells[la.root], la.path)), x.read(get(s.cells[lb.root], lb.path))
		x.need("Add", "Sub")
		x.def(s, la, a+" + "+b)
		x.def(s, lb, a+" - "+b)
		return true
	}
	if dst, ok := s.views[id.Name]; ok && se.Sel.Name == "Mul" && len(c.Args) == 2 {
		a, b := x.evalView(s, c.Args[0]), x.evalView(s, c.Args[1])
		if a.n != dst.n || b.n != dst.n {
			reject("Vector.Mul on slices of different lengths (panics)")
		}
		for _, o := range []view{a, b} {
			same := o.l.eq(dst.l) && o.off == dst.off
			if !same && o.overlaps(dst) {
				reject("Vector.Mul: the result overlaps an operand at a different offset")
			}
		}
		x.need("Mul")
		// res[i] = a[i] * b[i], i ascending; element i is read before it is written and never again
		for i := 0; i < dst.n; i++ {
			la, lb := x.elemLoc(a, i), x.elemLoc(b, i)
			ta, tb := x.read(get(s.cells[la.root], la.path)), x.read(get(s.cells[lb.root], lb.path))
			x.def(s, x.elemLoc(dst, i), ta+" * "+tb)
		}
		return true
	}
	if _, ok := s.views[id.Name]; ok {
		reject("unsupported Vector method %s", se.Sel.Name)
	}
	return false
}

// ---------------------------------------------------------------- the text of the base-package primitives

func normSrc(fset *token.FileSet, n ast.Node) string {
	var b bytes.Buffer
	printer.Fprint(&b, fset, n)
	return strings.Join(strings.Fields(b.String()), " ")
}

// checkBaseText compares the text of the base-package functions that fftCall treats as primitives with the text their
// semantics was read from. Only the purego path is looked at (assembly is tied by K: C01 / C09).
func checkBaseText(cfg towerPkg) {
	want := map[string]string{
		"_butterflyGeneric": "{ t := *a a.Add(a, b) b.Sub(&t, b) }",
		"Butterfly":         "{ _butterflyGeneric(a, b) }",
		"mulVecGeneric":     "{ if len(a) != len(b) || len(a) != len(res) { panic(\"vector.Mul: vectors don't have the same length\") } for i := 0; i < len(a); i++ { res[i].Mul(&a[i], &b[i]) } }",
		"Vector.Mul":        "{ mulVecGeneric(*vector, a, b) }",
	}
	wantSig := map[string]string{
		"_butterflyGeneric": "func(a, b *Element)", "Butterfly": "func(a, b *Element)",
		"mulVecGeneric": "func(res, a, b Vector)", "Vector.Mul": "func(a, b Vector)",
	}
	found := map[string]bool{}
	fset := token.NewFileSet()
	for _, fn := range []string{"element.go", "element_purego.go", "vector.go", "vector_purego.go"} {
		path := filepath.Join(repo, cfg.baseDir, fn)
		f, err := parser.ParseFile(fset, path, nil, parser.ParseComments)
		if err != nil {
			die("parse %s: %v", path, err)
		}
		if !buildOK(f, fn) {
			die("%s is excluded under the purego tag", path)
		}
		for _, d := range f.Decls {
			fd, ok := d.(*ast.FuncDecl)
			if !ok || fd.Body == nil {
				continue
			}
			key := fd.Name.Name
			if fd.Recv != nil {
				key = strings.TrimPrefix(exprStr(fd.Recv.List[0].Type), "*") + "." + key
			}
			w, ok := want[key]
			if !ok {
				continue
			}
			if got := normSrc(fset, fd.Body); got != w {
				die("%s: the text of %s changed; the primitive semantics assumed by slpfft.go was read from\n  %s\nfound\n  %s", path, key, w, got)
			}
			if got := normSrc(fset, fd.Type); got != wantSig[key] {
				die("%s: the signature of %s changed: %s", path, key, got)
			}
			if key == "Vector.Mul" && exprStr(fd.Recv.List[0].Type) != "*Vector" {
				die("%s: receiver of Vector.Mul changed", path)
			}
			found[key] = true
		}
	}
	for k := range want {
		if !found[k] {
			die("%s: base-package function %s not found (purego)", cfg.baseDir, k)
		}
	}
}

// ---------------------------------------------------------------- driver

type fftPkgCfg struct {
	towerPkg
	kers []int // sizes of the unrolled kernels of the package
}

func fftPkg(name, dir, base string, kers ...int) fftPkgCfg {
	return fftPkgCfg{towerPkg{name: name, dir: dir, baseDir: base, ext: "fft", files: []string{"fft.go", "kernel_purego.go", "bitreverse.go"}, specRecv: "Domain"}, kers}
}

var fftPkgs = []fftPkgCfg{
	fftPkg("bn254", "ecc/bn254/fr/fft", "ecc/bn254/fr", 32, 256),
	fftPkg("bls12_381", "ecc/bls12-381/fr/fft", "ecc/bls12-381/fr", 32, 256),
	fftPkg("bls12_377", "ecc/bls12-377/fr/fft", "ecc/bls12-377/fr", 32, 256),
	fftPkg("bls24_315", "ecc/bls24-315/fr/fft", "ecc/bls24-315/fr", 32, 256),
	fftPkg("bls24_317", "ecc/bls24-317/fr/fft", "ecc/bls24-317/fr", 32, 256),
	fftPkg("bw6_761", "ecc/bw6-761/fr/fft", "ecc/bw6-761/fr", 32, 256),
	fftPkg("bw6_633", "ecc/bw6-633/fr/fft", "ecc/bw6-633/fr", 32, 256),
	fftPkg("goldilocks", "field/goldilocks/fft", "field/goldilocks", 32, 256),
	fftPkg("koalabear", "field/koalabear/fft", "field/koalabear", 256),
	fftPkg("babybear", "field/babybear/fft", "field/babybear", 256),
}

// sizes of the complete transforms (difFFT / ditFFT with nbTasks = 1): with precomputed tables (twiddlesStartStage = 0) and
// without (twiddlesStartStage = 3: three stages with twiddles generated on the fly, then the table of the root w^8)
var fftSizesPre = []int{2, 4, 8, 16, 32, 64, 128, 256}
var fftSizesNoPre = []int{2, 4, 8, 16, 32}

func (p *pkgCtx) fftSpec(f *fn, n, twCard int, ints map[string]int64) *spec {
	sp := newSpec()
	for i, q := range f.pos {
		switch {
		case q.slice:
			sp.arrs[i] = p.arrType(n, q.t)
		case q.jag:
			sp.arrs[i] = p.twType(twCard)
		case q.isInt:
			v, ok := ints[q.name]
			if !ok {
				die("fft target %s: no value for the int parameter %s", f.key, q.name)
			}
			sp.ints[i] = v
		case q.isChan, q.t != nil && q.t.base && !q.ptr:
		default:
			die("fft target %s: unexpected parameter %s", f.key, q.name)
		}
	}
	return sp
}

func runFFT(want map[string]bool) (all, failures []string) {
	sum := map[string]*extSummary{}
	for _, cfg := range fftPkgs {
		if _, err := os.Stat(filepath.Join(repo, cfg.dir, "fft.go")); err != nil {
			die("fft package %s not found", cfg.dir)
		}
		checkBaseText(cfg.towerPkg)
		p := loadPkg(cfg.towerPkg, nil)
		label := "fft/" + cfg.name
		ps := &extSummary{Untranslated: map[string]string{}}
		target := func(key string, n, twCard int, ints map[string]int64) {
			f := p.funcs[key]
			if f == nil {
				ps.Untranslated[key] = "not found"
				return
			}
			v := p.translateSpec(f, identityPat(f), p.fftSpec(f, n, twCard, ints))
			if v.err != "" {
				ps.Untranslated[v.name] = v.err
				if want[label+" "+v.name] {
					failures = append(failures, fmt.Sprintf("%s %s: %s", label, v.name, v.err))
				}
				return
			}
			ps.Translated = append(ps.Translated, v.name)
			all = append(all, label+" "+v.name)
		}
		for _, k := range cfg.kers {
			for _, d := range []string{"DIF", "DIT"} {
				target(fmt.Sprintf("ker%sNP_%dgeneric", d, k), k, k, map[string]int64{"stage": 0})
			}
		}
		for _, fn := range []string{"difFFT", "ditFFT"} {
			for _, n := range fftSizesPre {
				target(fn, n, n, map[string]int64{"twiddlesStartStage": 0, "stage": 0, "maxSplits": -1, "nbTasks": 1})
			}
			for _, n := range fftSizesNoPre {
				target(fn, n, max(n>>3, 1), map[string]int64{"twiddlesStartStage": 3, "stage": 0, "maxSplits": -1, "nbTasks": 1})
			}
		}
		checkTopText(cfg.towerPkg)
		p.runTop(label, ps, want, &all, &failures)
		p.emit()
		sum[cfg.name] = ps
		fmt.Fprintf(os.Stderr, "gvgoslp: %-22s %3d functions translated (%d defs), %d untranslatable\n", label, len(ps.Translated), len(p.order), len(ps.Untranslated))
	}
	js, _ := json.MarshalIndent(sum, "", " ")
	writeFile("FFT/summary.json", string(js)+"\n")
	return
}
