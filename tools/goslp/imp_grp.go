// imp_grp.go — mode "imp" at the GROUP level (C03 loops): a point type (G1Jac, G2Jac, PointProj, PointExtended) is read as an ABSTRACT
// element type G. The methods of the group law are abstract operations (parameters of every generated def):
//
//	X.Set(a) = a    X.Neg(a) = neg a    X.Double(a) = dbl a    X.DoubleAssign() = dbl X    X.AddAssign(a) = add X a
//	X.Add(a, b) = add a b    X.setInfinity() = zero    &<inf> (the package-level infinity) = zero
//
// X is an lvalue: a local / the receiver / an element `arr[i]` of a local fixed-size array (a list VALUE); a chain
// `X.M1(…).M2(…)` is `X.M1(…); X.M2(…)` — CHECKED here: every method used in a chain returns its receiver on every path.
// `var x T` / `var a [n]T` hold the Go zero value `uninit` (one more parameter; the theorems hold for every value of it).
// Alias condition CHECKED here (value semantics of the receiver): the pointer parameters of the point type may alias the receiver,
// so none of them is read after the first write to the receiver (a write inside a loop counts from the start of the outermost loop).
// What the operations compute (group law, alias safety of each single call) is C02_gen / C19's subject.
package main

import (
	"go/ast"
	"go/token"
	"strings"
)

const grpAbsParams = " {G : Type} (add : G → G → G) (dbl : G → G) (neg : G → G) (zero : G) (uninit : G)"
const grpAbsArgs = " add dbl neg zero uninit"

var grpReserved = map[string]bool{"add": true, "dbl": true, "neg": true, "zero": true, "uninit": true, "G": true, "arrGet": true, "arrSet": true,
	"shrByte": true, "shr64": true, "bigBytes": true, "bigWords": true}

// extra reserved names of the current target (so that the old targets keep their text)
var impExtraReserved map[string]bool

// root identifier of the receiver of a (possibly chained) method call `X.M(…).N(…)`, X = ident or ident[index]
func callRecvRoot(call *ast.CallExpr) string {
	var e ast.Expr = call
	for {
		switch v := e.(type) {
		case *ast.CallExpr:
			se, ok := v.Fun.(*ast.SelectorExpr)
			if !ok {
				return ""
			}
			e = se.X
		case *ast.IndexExpr:
			e = v.X
		case *ast.ParenExpr:
			e = v.X
		case *ast.Ident:
			return v.Name
		default:
			return ""
		}
	}
}

func (f *impFn) isGrpVar(n string) bool {
	t := f.lookup(n)
	return t != nil && (t.k == "grp" || (t.k == "array" && t.elem.k == "grp"))
}

// the lvalue X of a group-method call and the calls of the chain, innermost first
func (f *impFn) grpChain(call *ast.CallExpr) (ast.Expr, []*ast.CallExpr, bool) {
	root := callRecvRoot(call)
	if root == "" || !f.isGrpVar(root) {
		return nil, nil, false
	}
	var chain []*ast.CallExpr
	cur := call
	for {
		chain = append([]*ast.CallExpr{cur}, chain...)
		se := cur.Fun.(*ast.SelectorExpr)
		if inner, ok := se.X.(*ast.CallExpr); ok {
			cur = inner
			continue
		}
		return se.X, chain, true
	}
}

// index of an array element as a Nat expression
func (f *impFn) natIndex(e ast.Expr, c *ictx) string {
	if n := litInt(e); n != nil {
		return n.String()
	}
	is, it := f.expr(e, nil, c)
	switch it.k {
	case "int":
		return parenImp(is) + ".toNat" // a negative index panics in Go: not modelled
	case "byte":
		return parenImp(is) + ".toNat"
	case "uint64":
		return parenImp(is)
	}
	f.p.die(e, "array index of type %v", it)
	return ""
}

// read / write access to a group lvalue: (root variable, Lean expression of its current value, new value of the root after `X = val`)
func (f *impFn) grpLval(x ast.Expr, c *ictx) (string, string, func(val string) string) {
	switch v := x.(type) {
	case *ast.ParenExpr:
		return f.grpLval(v.X, c)
	case *ast.Ident:
		if t := f.lookup(v.Name); t != nil && t.k == "grp" {
			return v.Name, lname(v.Name), func(val string) string { return val }
		}
	case *ast.IndexExpr:
		if id, ok := v.X.(*ast.Ident); ok {
			if t := f.lookup(id.Name); t != nil && t.k == "array" && t.elem.k == "grp" {
				ix := f.natIndex(v.Index, c)
				return id.Name, "arrGet " + lname(id.Name) + " " + parenImp(ix) + " uninit", func(val string) string {
					return "arrSet " + lname(id.Name) + " " + parenImp(ix) + " " + parenImp(val)
				}
			}
		}
	}
	f.p.die(x, "group lvalue outside the subset (only a local, the receiver, or an element of a local array)")
	return "", "", nil
}

// a pointer argument of a group method: `&X`, `&<inf>`, or a pointer variable (receiver / parameter)
func (f *impFn) grpArg(a ast.Expr, c *ictx) string {
	if u, ok := a.(*ast.UnaryExpr); ok && u.Op == token.AND {
		if id, ok := u.X.(*ast.Ident); ok && f.lookup(id.Name) == nil && f.p.tg.inf != "" && id.Name == f.p.tg.inf {
			return "zero"
		}
		if id, ok := u.X.(*ast.Ident); ok && (id.Name == f.recv || f.isPtrParam(id.Name)) {
			f.p.die(a, "& of the pointer variable %s", id.Name)
		}
		_, get, _ := f.grpLval(u.X, c)
		return get
	}
	if id, ok := a.(*ast.Ident); ok {
		if t := f.lookup(id.Name); t != nil && t.k == "grp" && (id.Name == f.recv || f.isPtrParam(id.Name)) {
			return lname(id.Name)
		}
	}
	f.p.die(a, "group argument outside the subset (only &X, &%s, the receiver or a pointer parameter)", f.p.tg.inf)
	return ""
}

func (f *impFn) isPtrParam(n string) bool {
	for _, fl := range f.fd.Type.Params.List {
		if _, ok := fl.Type.(*ast.StarExpr); !ok {
			continue
		}
		for _, m := range fl.Names {
			if m.Name == n {
				return true
			}
		}
	}
	return false
}

// a statement `X.M1(…).M2(…)…` on a group lvalue, as `let` lines
func (f *impFn) grpStmt(call *ast.CallExpr, c *ictx) ([]string, bool) {
	x, chain, ok := f.grpChain(call)
	if !ok {
		return nil, false
	}
	p := f.p
	var out []string
	for i, cl := range chain {
		m := cl.Fun.(*ast.SelectorExpr).Sel.Name
		if len(chain) > 1 && i < len(chain)-1 {
			p.checkReturnsRecv(cl, m, map[string]bool{})
		}
		root, get, set := f.grpLval(x, c)
		args := cl.Args
		var val string
		switch {
		case m == "Set" && len(args) == 1:
			val = f.grpArg(args[0], c)
		case m == "Neg" && len(args) == 1:
			val = "neg " + parenImp(f.grpArg(args[0], c))
		case m == "Double" && len(args) == 1:
			val = "dbl " + parenImp(f.grpArg(args[0], c))
		case m == "DoubleAssign" && len(args) == 0:
			val = "dbl " + parenImp(get)
		case m == "AddAssign" && len(args) == 1:
			val = "add " + parenImp(get) + " " + parenImp(f.grpArg(args[0], c))
		case m == "Add" && len(args) == 2:
			val = "add " + parenImp(f.grpArg(args[0], c)) + " " + parenImp(f.grpArg(args[1], c))
		case m == "setInfinity" && len(args) == 0:
			val = "zero"
		default:
			if sig := p.grpTranslated[m]; sig != nil && i == len(chain)-1 && len(chain) == 1 {
				// a method of the point type translated before (same target): by value, the new receiver is its result
				if len(sig.params) != len(args) {
					p.die(cl, "call of %s: arity", m)
				}
				val = lname(m) + impAbsArgs + " " + parenImp(get)
				for j, a := range args {
					var as string
					var at *ity
					if sig.params[j].k == "grp" {
						as, at = f.grpArg(a, c), sig.params[j]
					} else {
						as, at = f.expr(a, sig.params[j], c)
					}
					if !at.eq(sig.params[j]) {
						p.die(a, "argument %d of %s: %v expected, %v given", j, m, sig.params[j], at)
					}
					val += " " + parenImp(as)
				}
				break
			}
			p.die(cl, "group method %s outside the subset", m)
		}
		out = append(out, "let "+lname(root)+" := "+set(val))
	}
	return out, true
}

// every `return` of method m of the point type gives back the receiver (directly or through another such method)
func (p *impPkg) checkReturnsRecv(at ast.Node, m string, seen map[string]bool) {
	if seen[m] {
		return
	}
	seen[m] = true
	fd := p.methods[p.tg.grp+"."+m]
	if fd == nil || fd.Body == nil || fd.Recv == nil || len(fd.Recv.List[0].Names) != 1 {
		p.die(at, "chained call: method %s.%s not found in %s (cannot check that it returns its receiver)", p.tg.grp, m, p.tg.file)
	}
	if fd.Type.Results == nil || len(fd.Type.Results.List) != 1 || exprText(fd.Type.Results.List[0].Type) != "*"+p.tg.grp {
		p.die(at, "chained call: method %s does not return *%s", m, p.tg.grp)
	}
	recv := fd.Recv.List[0].Names[0].Name
	nret := 0
	ast.Inspect(fd.Body, func(n ast.Node) bool {
		switch r := n.(type) {
		case *ast.FuncLit:
			return false
		case *ast.AssignStmt:
			for _, l := range r.Lhs {
				if id, ok := l.(*ast.Ident); ok && id.Name == recv {
					p.die(at, "chained call: method %s re-assigns its receiver variable", m)
				}
			}
		case *ast.ReturnStmt:
			nret++
			if len(r.Results) != 1 {
				p.die(at, "chained call: return arity in %s", m)
			}
			if id, ok := r.Results[0].(*ast.Ident); ok && id.Name == recv {
				return true
			}
			if cl, ok := r.Results[0].(*ast.CallExpr); ok {
				if se, ok := cl.Fun.(*ast.SelectorExpr); ok && exprText(se.X) == recv {
					p.checkReturnsRecv(at, se.Sel.Name, seen)
					return true
				}
			}
			p.die(at, "chained call: method %s.%s may return something else than its receiver (line %d)", p.tg.grp, m, p.fset.Position(r.Pos()).Line)
		}
		return true
	})
	if nret == 0 {
		p.die(at, "chained call: method %s has no return", m)
	}
}

// no pointer parameter of the point type is read after the first write to the receiver
func (f *impFn) checkRecvAlias() {
	if f.recv == "" || f.recvTy == nil || f.recvTy.k != "grp" {
		return
	}
	var params []string
	for _, fl := range f.fd.Type.Params.List {
		if _, ok := fl.Type.(*ast.StarExpr); ok && f.p.goType(fl.Type).k == "ptr" {
			for _, n := range fl.Names {
				params = append(params, n.Name)
			}
		}
	}
	if len(params) == 0 {
		return
	}
	// first write to the receiver: a method call whose receiver chain is rooted at it
	var firstEnd, firstPos token.Pos
	var loops []ast.Node
	var walk func(n ast.Node, stack []ast.Node)
	walk = func(n ast.Node, stack []ast.Node) {
		ast.Inspect(n, func(m ast.Node) bool {
			if m == nil || m == n {
				return true
			}
			switch s := m.(type) {
			case *ast.ForStmt, *ast.RangeStmt:
				walk(s, append(append([]ast.Node{}, stack...), s))
				return false
			case *ast.CallExpr:
				if _, ok := s.Fun.(*ast.SelectorExpr); ok && callRecvRoot(s) == f.recv && firstEnd == 0 {
					firstEnd, firstPos = s.End(), s.Pos()
					loops = stack
				}
			case *ast.AssignStmt:
				for _, l := range s.Lhs {
					if rootOf(l) == f.recv {
						f.p.die(s, "assignment to the receiver variable")
					}
				}
			}
			return true
		})
	}
	walk(f.fd.Body, nil)
	if firstEnd == 0 {
		return
	}
	limit := firstEnd
	if len(loops) > 0 {
		limit = loops[0].Pos()
	}
	_ = firstPos
	ast.Inspect(f.fd.Body, func(m ast.Node) bool {
		if id, ok := m.(*ast.Ident); ok && id.Pos() >= limit {
			for _, q := range params {
				if id.Name == q {
					f.p.die(id, "the pointer parameter %s is read after the first write to the receiver %s (they may alias: value semantics would be unsound)", q, f.recv)
				}
			}
		}
		return true
	})
}

var _ = strings.Join

// ---------------------------------------------------------------------------------------------- families of template-generated packages

// a family: the same functions of the same point type in many packages (generated from one template); every member is translated to
// its own file Imp/<name>_<member>.lean and Imp/<name>All.lean proves every member equal to the first one (by unfolding, loop by loop)
type grpFamily struct {
	name    string
	funcs   []string
	members []grpMember
}

type grpMember struct {
	tag, dir, file, grp, inf string
	funcs                    []string // nil: the family's
}

func (fam grpFamily) funcsOf(m grpMember) []string {
	if m.funcs != nil {
		return m.funcs
	}
	return fam.funcs
}

func (fam grpFamily) has(m grpMember, fn string) bool {
	for _, g := range fam.funcsOf(m) {
		if g == fn {
			return true
		}
	}
	return false
}

// twisted Edwards: scalarMulWindowed + ScalarMultiplication of PointProj / PointExtended (bandersnatch's ScalarMultiplication goes through
// scalarMulGLV: only its scalarMulWindowed belongs to the family)
func teMembers() []grpMember {
	var ms []grpMember
	for _, d := range teDirs {
		tag := leanName(strings.TrimSuffix(d, "/twistededwards"))
		var fs []string
		if strings.HasSuffix(d, "bandersnatch") {
			fs = []string{"scalarMulWindowed"}
		}
		ms = append(ms, grpMember{tag: tag + "_Proj", dir: d, file: "point.go", grp: "PointProj", funcs: fs})
		ms = append(ms, grpMember{tag: tag + "_Ext", dir: d, file: "point.go", grp: "PointExtended", funcs: fs})
	}
	return ms
}

func wMembers() []grpMember {
	var ms []grpMember
	g1 := []string{"bn254", "bls12-377", "bls12-381", "bls24-315", "bls24-317", "bw6-633", "bw6-761", "secp256k1", "stark-curve", "grumpkin"}
	for _, c := range g1 {
		ms = append(ms, grpMember{tag: leanName(c) + "_G1", dir: "ecc/" + c, file: "g1.go", grp: "G1Jac", inf: "g1Infinity"})
	}
	for _, c := range g1[:7] {
		ms = append(ms, grpMember{tag: leanName(c) + "_G2", dir: "ecc/" + c, file: "g2.go", grp: "G2Jac", inf: "g2Infinity"})
	}
	return ms
}

var grpFamilies = []grpFamily{
	{name: "MulW", funcs: []string{"mulWindowed"}, members: wMembers()},
	{name: "TEMul", funcs: []string{"scalarMulWindowed", "ScalarMultiplication"}, members: teMembers()},
}

func (fam grpFamily) targets() []impTarget {
	var ts []impTarget
	for _, m := range fam.members {
		ns := fam.name + "_" + m.tag
		ts = append(ts, impTarget{dir: m.dir, file: m.file, ns: ns, out: "Imp/" + ns + ".lean", funcs: fam.funcsOf(m), grp: m.grp, inf: m.inf})
	}
	return ts
}

func (fam grpFamily) allFile(infos map[string][]impLoopInfo) string {
	var b strings.Builder
	first := fam.name + "_" + fam.members[0].tag
	b.WriteString("/- GENERATED by tools/goslp (imp_grp.go) on every run. DO NOT EDIT.\n   " + strings.Join(fam.funcs, ", ") + " of the " + itoa(len(fam.members)) +
		" members of the family: every translation is the same Lean term as the one of " + fam.members[0].dir + "/" + fam.members[0].file + " (proved by unfolding, loop by loop). -/\n")
	for _, m := range fam.members {
		b.WriteString("import GnarkVerif.Gen.Imp." + fam.name + "_" + m.tag + "\n")
	}
	b.WriteString("\nset_option linter.unusedSimpArgs false\n\nnamespace GV.Gen.Imp." + fam.name + "All\n\n")
	for _, m := range fam.members[1:] {
		ns := fam.name + "_" + m.tag
		var lemmas []string
		if len(infos[ns]) != len(infos[first]) {
			die("imp: family %s: %s has %d loops, %s has %d (the texts differ)", fam.name, ns, len(infos[ns]), first, len(infos[first]))
		}
		for i, li := range infos[ns] {
			if li.name != infos[first][i].name {
				die("imp: family %s: loop names differ (%s / %s)", fam.name, li.name, infos[first][i].name)
			}
			ln := m.tag + "_" + strings.ReplaceAll(li.name, ".", "_") + "_same"
			binders := "G add dbl neg zero uninit " + strings.Join(li.ro, " ")
			unf := ns + "." + li.name + ", " + first + "." + li.name + ", ih"
			if len(lemmas) > 0 {
				unf += ", " + strings.Join(lemmas, ", ")
			}
			st := strings.Join(li.S, " ")
			if li.kind == "for" {
				b.WriteString("theorem " + ln + " : @" + ns + "." + li.name + " = @" + first + "." + li.name + " := by\n  funext " + binders + " fuel__ " + st +
					"\n  induction fuel__ generalizing " + st + " with\n  | zero => rfl\n  | succ n__ ih => simp only [" + unf + "]\n")
			} else {
				b.WriteString("theorem " + ln + " : @" + ns + "." + li.name + " = @" + first + "." + li.name + " := by\n  funext " + binders + " l__ " + st +
					"\n  induction l__ generalizing " + st + " with\n  | nil => rfl\n  | cons x__ r__ ih => simp only [" + unf + "]\n")
			}
			lemmas = append(lemmas, ln)
		}
		for _, fn := range fam.funcsOf(m) {
			ln := m.tag + "_" + fn + "_same"
			b.WriteString("theorem " + ln + " : @" + ns + "." + fn + " = @" + first + "." + fn + " := by\n  unfold " + ns + "." + fn + " " + first + "." + fn +
				"\n  simp only [" + strings.Join(lemmas, ", ") + "]\n")
			lemmas = append(lemmas, ln)
		}
		b.WriteString("\n")
	}
	for _, fn := range fam.funcs {
		ty := famSigs[first+"."+fn]
		if ty == "" {
			die("imp: family %s: no signature recorded for %s", fam.name, fn)
		}
		b.WriteString("/-- the translated " + fn + " of every member of the family, by name -/\ndef all_" + fn + " : List (String × (" + ty + ")) := [\n")
		var alts []string
		var rows []string
		for i, m := range fam.members {
			if !fam.has(m, fn) {
				continue
			}
			rows = append(rows, "  (\""+m.tag+"\", @"+fam.name+"_"+m.tag+"."+fn+")")
			if i > 0 {
				alts = append(alts, "exact "+m.tag+"_"+fn+"_same")
			}
		}
		b.WriteString(strings.Join(rows, ",\n") + "\n")
		b.WriteString("]\n\ntheorem all_" + fn + "_same : ∀ e ∈ all_" + fn + ", @e.2 = @" + first + "." + fn + " := by\n  intro e he\n  simp only [all_" + fn +
			", List.mem_cons, List.not_mem_nil, or_false] at he\n  rcases he with " + strings.TrimSuffix(strings.Repeat("rfl | ", len(rows)), " | ") +
			" <;> first | rfl | (simp only []; first | " + strings.Join(alts, " | ") + ")\n\n")
	}
	b.WriteString("end GV.Gen.Imp." + fam.name + "All\n")
	return b.String()
}

func itoa(n int) string {
	return strings.TrimSpace(strings.Replace(strings.Repeat(" ", 0)+fmtInt(n), " ", "", -1))
}

func fmtInt(n int) string {
	if n == 0 {
		return "0"
	}
	s := ""
	for n > 0 {
		s = string(rune('0'+n%10)) + s
		n /= 10
	}
	return s
}
