// Part 5 (bytes.go): tie T for the byte <-> limb conversion code of the 23 field packages (properties C08, C07).
// On top of the limb-level symbolic executor of limb.go: `bigEndian.Element / PutElement`, `littleEndian.Element / PutElement`,
// `Element.Bytes / SetBytesCanonical / SetBytes / Bits / Uint64 / IsUint64 / FitsOnOneWord / SetUint64` are translated, on every
// run, into Lean definitions over byte lists (`List UInt8`) and the word tuples of Gen/Limb/<Field>.lean. Output: Gen/Bytes/<Field>.lean
// (conventions: lean/GnarkVerif/Model/Bytes.lean). Props/C08_gen*.lean prove the generated definitions against Model/Conv.lean.
//
// Additional subset (everything else in a targeted function, or in a function it calls, is fatal):
//   - a byte array `*[Bytes]byte` / `[Bytes]byte` is a Lean `List UInt8` (length = the constant Bytes); `(*b)[i:j]` with literal bounds,
//     only as the argument of binary.{BigEndian,LittleEndian}.{Uint64,Uint32,PutUint64,PutUint32}; the bounds are written into the
//     Lean term EXACTLY as they occur (`GV.Bytes.slice b i j`); a slice too short for the access or out of the array (a reachable
//     panic) is rejected here;
//   - a call of a function that limb.go translated into Gen/Limb/<Field>.lean (Mul, _fromMontGeneric, smallerThanModulus, …) is a call
//     of THAT generated definition (no second copy of the arithmetic); wrappers (`toMont`, `fromMont`, `Element.fromMont`) are inlined;
//   - `error` values are words: nil = 0, errInvalidEncoding = 1, errors.New(…) = 2; a bool result is a Prop;
//   - `e []byte` is a `List UInt8` of unknown length, `len(e)` is `e.length`, `(*[Bytes]byte)(e)` is `GV.Bytes.toArray Bytes e`;
//   - the slow path of SetBytes `vv := pool.BigInt.Get(); vv.SetBytes(e); z.SetBigInt(vv); pool.BigInt.Put(vv)` is the call `setBigIntBE e`
//     of an uninterpreted PARAMETER of the generated definition (math/big is not translated);
//   - `if` bodies that return on some paths only; `const k = <literal>`; `%` by a non-zero literal; `*z = v`, `*z = Element{…}`.
package main

import (
	"fmt"
	"go/ast"
	"go/token"
	"math/big"
	"path/filepath"
	"strings"
)

type limbRef struct {
	name string
	idx  int
}

// signature of a definition of Gen/Limb/<Field>.lean
type limbSig struct {
	lean    string
	params  []limbRef // the parameters the generated def takes (unused inputs are dropped by limb.go)
	outArrs []string  // written array parameters, in order (all limbs each), followed by the scalar results
	nOut    int
	prop    bool
}

var limbSigs = map[string]map[string]*limbSig{}

type bytesMode struct {
	nBytes    int
	usesSlow  bool // the uninterpreted slow path occurs
	byteNames map[string]bool
}

// a byte array, by reference; store[cell] holds its current value (a Lean `List UInt8` term, w = -8)
type lbarr struct {
	cell     int
	n        int
	readonly bool
}

// `(*b)[lo:hi]`
type lslice struct {
	arr    *lbarr
	lo, hi int
}

// `e []byte`
type lbslice struct{ cell int }

// a *big.Int: fresh from the pool, or holding SetBytes(e)
type lbig struct{ from *lval }

const byteW = -8

func containsReturn(n ast.Node) bool {
	found := false
	ast.Inspect(n, func(m ast.Node) bool {
		if _, ok := m.(*ast.ReturnStmt); ok {
			found = true
		}
		if _, ok := m.(*ast.FuncLit); ok {
			return false
		}
		return true
	})
	return found
}

func (x *ltr) isByteArray(t ast.Expr) bool {
	at, ok := t.(*ast.ArrayType)
	if !ok || at.Len == nil {
		return false
	}
	id, ok := at.Elt.(*ast.Ident)
	if !ok || id.Name != "byte" {
		return false
	}
	if l, ok := at.Len.(*ast.Ident); ok && l.Name == "Bytes" && x.lookup("Bytes") == nil {
		return true
	}
	lreject("byte array of a length other than the constant Bytes")
	return false
}

func (x *ltr) isByteArrayPtr(t ast.Expr) bool {
	if se, ok := t.(*ast.StarExpr); ok {
		if _, isArr := se.X.(*ast.ArrayType); isArr {
			return x.isByteArray(se.X)
		}
	}
	return false
}

func isByteSlice(t ast.Expr) bool {
	at, ok := t.(*ast.ArrayType)
	if !ok || at.Len != nil {
		return false
	}
	id, ok := at.Elt.(*ast.Ident)
	return ok && id.Name == "byte"
}

func (x *ltr) zeroBytes() *lbarr {
	v := &lval{term: fmt.Sprintf("(List.replicate %d (0 : UInt8))", x.bm.nBytes), w: byteW}
	return &lbarr{cell: x.newCell(v), n: x.bm.nBytes}
}

func errVal(code int64) *lval {
	v := litVal(big.NewInt(code), 64)
	return v
}

// expressions of the bytes pass; ok = false: not one of them (limb.go goes on)
func (x *ltr) bytesEval(e ast.Expr) (any, bool) {
	switch v := e.(type) {
	case *ast.Ident:
		if x.lookup(v.Name) != nil {
			return nil, false
		}
		switch v.Name {
		case "true":
			return &lval{term: "True"}, true
		case "false":
			return &lval{term: "False"}, true
		case "nil":
			return errVal(0), true
		case "errInvalidEncoding":
			return errVal(1), true
		case "rSquare":
			// package variable `var rSquare = Element{…}` (never assigned: checked by runBytes)
			arr, ok := x.fc.arrays["rSquare"]
			if !ok || len(arr) != x.nLimbs {
				lreject("rSquare literal not found")
			}
			a := &larr{w: x.word}
			for _, c := range arr {
				a.cells = append(a.cells, x.newCell(litVal(c, x.word)))
			}
			return a, true
		}
	case *ast.CompositeLit:
		id, ok := v.Type.(*ast.Ident)
		if !ok || id.Name != "Element" || len(v.Elts) > x.nLimbs {
			lreject("unsupported composite literal %s", x.text(v))
		}
		a := &larr{w: x.word}
		for k := 0; k < x.nLimbs; k++ {
			val := litVal(big.NewInt(0), x.word)
			if k < len(v.Elts) {
				if _, isKV := v.Elts[k].(*ast.KeyValueExpr); isKV {
					lreject("keyed composite literal %s", x.text(v))
				}
				s := x.scalar(v.Elts[k])
				if s.w == 0 && s.lit != nil {
					s = litVal(s.lit, x.word)
				}
				if s.w != x.word {
					lreject("composite literal element width in %s", x.text(v))
				}
				val = s
			}
			a.cells = append(a.cells, x.newCell(val))
		}
		return a, true
	case *ast.SliceExpr:
		ba, ok := x.eval(v.X).(*lbarr)
		if !ok || v.Slice3 || v.Low == nil || v.High == nil {
			lreject("unsupported slice expression %s", x.text(v))
		}
		lo, hi := x.scalarConst(v.Low), x.scalarConst(v.High)
		if lo < 0 || lo > hi || hi > ba.n {
			lreject("slice bounds out of range (reachable panic): %s", x.text(v))
		}
		return &lslice{ba, lo, hi}, true
	}
	return nil, false
}

func selChain(e ast.Expr) string {
	switch v := e.(type) {
	case *ast.Ident:
		return v.Name
	case *ast.SelectorExpr:
		return selChain(v.X) + "." + v.Sel.Name
	}
	return "?"
}

// calls of the bytes pass
func (x *ltr) bytesCall(c *ast.CallExpr, dst []string) ([]any, bool) {
	nm := func(i int, def string) string {
		if i < len(dst) && dst[i] != "" && dst[i] != "_" {
			return dst[i]
		}
		return def
	}
	// (*[Bytes]byte)(e)
	if pe, ok := c.Fun.(*ast.ParenExpr); ok {
		if x.isByteArrayPtr(pe.X) && len(c.Args) == 1 {
			sl, ok := x.eval(c.Args[0]).(*lbslice)
			if !ok {
				lreject("unsupported conversion %s", x.text(c))
			}
			src := x.store[sl.cell]
			v := &lval{term: fmt.Sprintf("(GV.Bytes.toArray %d %s)", x.bm.nBytes, src.term), w: byteW, deps: src.deps}
			return []any{&lbarr{cell: x.newCell(v), n: x.bm.nBytes, readonly: true}}, true
		}
		lreject("unsupported conversion %s", x.text(c))
	}
	if id, ok := c.Fun.(*ast.Ident); ok && id.Name == "len" && x.lookup("len") == nil {
		if len(c.Args) != 1 {
			lreject("len arity")
		}
		sl, ok := x.eval(c.Args[0]).(*lbslice)
		if !ok {
			lreject("unsupported len argument %s", x.text(c))
		}
		src := x.store[sl.cell]
		return []any{&lval{term: src.term + ".length", w: 64, deps: src.deps}}, true
	}
	se, ok := c.Fun.(*ast.SelectorExpr)
	if !ok {
		// plain function of the package that limb.go translated
		if id, ok := c.Fun.(*ast.Ident); ok {
			if sig := limbSigs[x.fc.dir][id.Name]; sig != nil && x.lookup(id.Name) == nil {
				return x.callLimbDef(id.Name, sig, nil, c.Args, dst), true
			}
		}
		return nil, false
	}
	chain := selChain(se)
	switch chain {
	case "binary.BigEndian.Uint64", "binary.BigEndian.Uint32", "binary.LittleEndian.Uint64", "binary.LittleEndian.Uint32",
		"binary.BigEndian.PutUint64", "binary.BigEndian.PutUint32", "binary.LittleEndian.PutUint64", "binary.LittleEndian.PutUint32":
		if x.lookup("binary") != nil {
			lreject("shadowed package binary")
		}
		w := 64
		if strings.HasSuffix(chain, "32") {
			w = 32
		}
		k := w / 8
		be := strings.Contains(chain, "BigEndian")
		put := strings.Contains(chain, ".Put")
		if (put && len(c.Args) != 2) || (!put && len(c.Args) != 1) {
			lreject("%s: arity", chain)
		}
		sl, ok := x.eval(c.Args[0]).(*lslice)
		if !ok {
			lreject("%s: the argument must be a slice of a byte array with literal bounds", x.text(c))
		}
		if sl.hi-sl.lo < k {
			lreject("%s: slice shorter than %d bytes (reachable panic)", x.text(c), k)
		}
		cur := x.store[sl.arr.cell]
		if !put {
			f := "GV.Bytes.leUint"
			if be {
				f = "GV.Bytes.beUint"
			}
			r := x.emit(nm(0, "w"), fmt.Sprintf("%s %d (GV.Bytes.slice %s %d %d)", f, k, cur.term, sl.lo, sl.hi), w, false, cur.deps)
			return []any{r}, true
		}
		if sl.arr.readonly {
			lreject("%s: write through a converted slice", x.text(c))
		}
		val := x.scalar(c.Args[1])
		if val.w == 0 && val.lit != nil {
			val = litVal(val.lit, w)
		}
		if val.w != w {
			lreject("%s: operand width", x.text(c))
		}
		f := "GV.Conv.natToLE"
		if be {
			f = "GV.Conv.natToBE"
		}
		base := "b"
		if id, ok := stripByteArr(c.Args[0]); ok {
			base = id
		}
		nv := x.emit(base, fmt.Sprintf("GV.Bytes.putSlice %s %d %d (%s %d %s)", cur.term, sl.lo, sl.hi, f, k, val.term), byteW, false, mergeDeps(cur, val))
		x.store[sl.arr.cell] = nv
		return []any{}, true
	case "errors.New":
		if x.lookup("errors") != nil {
			lreject("shadowed package errors")
		}
		return []any{errVal(2)}, true
	case "pool.BigInt.Get":
		if len(c.Args) != 0 {
			lreject("pool.BigInt.Get arity")
		}
		return []any{&lbig{}}, true
	case "pool.BigInt.Put":
		if len(c.Args) != 1 {
			lreject("pool.BigInt.Put arity")
		}
		if _, ok := x.eval(c.Args[0]).(*lbig); !ok {
			lreject("pool.BigInt.Put of a non-big.Int")
		}
		return []any{}, true
	case "BigEndian.Element", "BigEndian.PutElement", "LittleEndian.Element", "LittleEndian.PutElement":
		// package variables `var BigEndian bigEndian`, `var LittleEndian littleEndian` (declarations checked by runBytes)
		if x.lookup(strings.Split(chain, ".")[0]) != nil {
			lreject("shadowed %s", chain)
		}
		key := strings.ToLower(chain[:1]) + chain[1:]
		f := x.fns[key]
		if f == nil {
			lreject("unknown method %s", key)
		}
		return x.inline(f, nil, c.Args), true
	}
	// methods on a *big.Int
	if id, ok := se.X.(*ast.Ident); ok {
		if bi, ok := x.lookup(id.Name).(*lbig); ok {
			if se.Sel.Name != "SetBytes" || len(c.Args) != 1 {
				lreject("unsupported big.Int method %s", x.text(c))
			}
			sl, ok := x.eval(c.Args[0]).(*lbslice)
			if !ok {
				lreject("big.Int.SetBytes of a non-slice")
			}
			bi.from = x.store[sl.cell]
			return []any{}, true
		}
	}
	if se.Sel.Name == "SetBigInt" {
		recv, ok := x.eval(se.X).(*larr)
		if !ok || len(c.Args) != 1 {
			lreject("unsupported call %s", x.text(c))
		}
		bi, ok := x.eval(c.Args[0]).(*lbig)
		if !ok || bi.from == nil {
			lreject("SetBigInt of something else than big.Int.SetBytes(e): %s", x.text(c))
		}
		x.bm.usesSlow = true
		r := x.emit("slow", fmt.Sprintf("setBigIntBE %s", bi.from.term), x.word, false, bi.from.deps)
		for k, cell := range recv.cells {
			t := projOf(r.term, k, len(recv.cells))
			x.store[cell] = &lval{term: t, w: x.word, deps: r.deps}
		}
		return []any{recv}, true
	}
	// method of Element that limb.go translated
	if sig := limbSigs[x.fc.dir]["Element."+se.Sel.Name]; sig != nil {
		if recv, ok := x.eval(se.X).(*larr); ok {
			return x.callLimbDef("Element."+se.Sel.Name, sig, recv, c.Args, dst), true
		}
	}
	return nil, false
}

func stripByteArr(e ast.Expr) (string, bool) {
	for {
		switch v := e.(type) {
		case *ast.SliceExpr:
			e = v.X
		case *ast.ParenExpr:
			e = v.X
		case *ast.StarExpr:
			e = v.X
		case *ast.Ident:
			return v.Name, true
		default:
			return "", false
		}
	}
}

// a call of a definition of Gen/Limb/<Field>.lean
func (x *ltr) callLimbDef(key string, sig *limbSig, recv *larr, args []ast.Expr, dst []string) []any {
	f := x.fns[key]
	if f == nil {
		lreject("unknown function %s", key)
	}
	d := f.decl
	bound := map[string]any{}
	if d.Recv != nil && len(d.Recv.List) == 1 && len(d.Recv.List[0].Names) == 1 {
		bound[d.Recv.List[0].Names[0].Name] = recv
	}
	i := 0
	for _, p := range d.Type.Params.List {
		for _, n := range p.Names {
			if i >= len(args) {
				lreject("%s: arity", key)
			}
			bound[n.Name] = x.eval(args[i])
			i++
		}
	}
	if i != len(args) {
		lreject("%s: arity", key)
	}
	var terms []string
	var depv []*lval
	for _, p := range sig.params {
		switch a := bound[p.name].(type) {
		case *larr:
			if p.idx < 0 || p.idx >= len(a.cells) {
				lreject("%s: parameter %s", key, p.name)
			}
			v := x.store[a.cells[p.idx]]
			terms = append(terms, atom(v.term))
			depv = append(depv, v)
		case *lval:
			if p.idx >= 0 {
				lreject("%s: parameter %s", key, p.name)
			}
			terms = append(terms, atom(a.term))
			depv = append(depv, a)
		default:
			lreject("%s: parameter %s not bound", key, p.name)
		}
	}
	call := fmt.Sprintf("GV.Gen.Limb.%s.%s %s", x.fc.name, sig.lean, strings.Join(terms, " "))
	deps := mergeDeps(depv...)
	if sig.prop {
		return []any{&lval{term: "(" + call + ")", deps: deps}}
	}
	r := x.emit("r", call, 64, false, deps)
	k := 0
	for _, an := range sig.outArrs {
		a, ok := bound[an].(*larr)
		if !ok {
			lreject("%s: output array %s not bound", key, an)
		}
		for _, cell := range a.cells {
			x.store[cell] = &lval{term: projOf(r.term, k, sig.nOut), w: a.w, deps: r.deps}
			k++
		}
	}
	// results: a pointer result is the receiver; scalar results are the remaining components
	var res []any
	if d.Type.Results != nil {
		for _, rt := range d.Type.Results.List {
			cnt := len(rt.Names)
			if cnt == 0 {
				cnt = 1
			}
			for j := 0; j < cnt; j++ {
				if _, isPtr := rt.Type.(*ast.StarExpr); isPtr {
					res = append(res, recv)
					continue
				}
				w, n, ok := x.typeWidth(rt.Type)
				if !ok || n != 0 {
					lreject("%s: unsupported result type", key)
				}
				if k >= sig.nOut {
					lreject("%s: result count", key)
				}
				res = append(res, &lval{term: projOf(r.term, k, sig.nOut), w: w, deps: r.deps})
				k++
			}
		}
	}
	if k != sig.nOut {
		lreject("%s: %d outputs in the generated definition, %d consumed", key, sig.nOut, k)
	}
	return res
}

func atom(t string) string {
	if strings.ContainsAny(t, " ") && !strings.HasPrefix(t, "(") {
		return "(" + t + ")"
	}
	return t
}

type bytesTarget struct{ fn, lean string }

var bytesTargets = []bytesTarget{
	{"bigEndian.Element", "bigEndian_Element"}, {"bigEndian.PutElement", "bigEndian_PutElement"},
	{"littleEndian.Element", "littleEndian_Element"}, {"littleEndian.PutElement", "littleEndian_PutElement"},
	{"Element.Bytes", "Bytes"}, {"Element.SetBytesCanonical", "SetBytesCanonical"}, {"Element.SetBytes", "SetBytes"},
	{"Element.Bits", "Bits"}, {"Element.Uint64", "Uint64"}, {"Element.IsUint64", "IsUint64"}, {"Element.FitsOnOneWord", "FitsOnOneWord"},
	{"Element.SetUint64", "SetUint64"}, {"Element.toMont", "toMont"},
}

type bOut struct {
	term string
	ty   string
	deps []string
}

func translateBytesFn(fc *fieldConsts, fns map[string]*limbFn, tg bytesTarget) (text string, err error) {
	defer func() {
		if r := recover(); r != nil {
			if e, ok := r.(limbErr); ok {
				err = fmt.Errorf("%s", string(e))
				return
			}
			panic(r)
		}
	}()
	f := fns[tg.fn]
	x := &ltr{fc: fc, fns: fns, fset: limbFsets[fc.dir], word: fc.word, nLimbs: int(fc.consts["Limbs"].Int64()),
		store: map[int]*lval{}, cnt: map[string]int{}, inSet: map[string]bool{}, src: fileSrc[f.file],
		bm: &bytesMode{nBytes: int(fc.consts["Bytes"].Int64()), byteNames: map[string]bool{}}}
	x.depth = 1 // no segment cuts
	x.push()
	d := f.decl
	type inParam struct {
		name, ty string
	}
	var ins []inParam
	type outArr struct {
		cells []int
		init  []string
	}
	var ptrOuts []outArr
	bind := func(name string, t ast.Expr) {
		if x.isByteArrayPtr(t) {
			ins = append(ins, inParam{name, "List UInt8"})
			c := x.newCell(&lval{term: name, w: byteW, deps: []string{name}})
			x.declare(name, &lbarr{cell: c, n: x.bm.nBytes})
			ptrOuts = append(ptrOuts, outArr{[]int{c}, []string{name}})
			return
		}
		if isByteSlice(t) {
			ins = append(ins, inParam{name, "List UInt8"})
			c := x.newCell(&lval{term: name, w: byteW, deps: []string{name}})
			x.declare(name, &lbslice{cell: c})
			return
		}
		w, n, ok := x.typeWidth(t)
		if !ok {
			lreject("unsupported parameter type of %s", name)
		}
		if n == 0 {
			ins = append(ins, inParam{name, "Nat"})
			x.declare(name, x.newCell(&lval{term: name, w: w, deps: []string{name}}))
			return
		}
		a := &larr{w: w}
		oa := outArr{}
		for i := 0; i < n; i++ {
			in := fmt.Sprintf("%s%d", name, i)
			ins = append(ins, inParam{in, "Nat"})
			c := x.newCell(&lval{term: in, w: w, deps: []string{in}})
			a.cells = append(a.cells, c)
			oa.cells = append(oa.cells, c)
			oa.init = append(oa.init, in)
		}
		if _, isPtr := t.(*ast.StarExpr); isPtr {
			ptrOuts = append(ptrOuts, oa)
		}
		x.declare(name, a)
	}
	if d.Recv != nil && len(d.Recv.List) == 1 && len(d.Recv.List[0].Names) == 1 {
		bind(d.Recv.List[0].Names[0].Name, d.Recv.List[0].Type)
	}
	for _, p := range d.Type.Params.List {
		for _, n := range p.Names {
			bind(n.Name, p.Type)
		}
	}
	var named []string
	var resTypes []ast.Expr
	if d.Type.Results != nil {
		for _, r := range d.Type.Results.List {
			cnt := len(r.Names)
			if cnt == 0 {
				resTypes = append(resTypes, r.Type)
			}
			for _, nmI := range r.Names {
				resTypes = append(resTypes, r.Type)
				if !x.isByteArray(r.Type) {
					lreject("unsupported named result")
				}
				x.declare(nmI.Name, x.zeroBytes())
				named = append(named, nmI.Name)
			}
		}
	}
	vals := x.execFunc(d.Body.List, named)
	x.cut()
	if len(vals) != len(resTypes) {
		lreject("result arity")
	}
	var outs []bOut
	add := func(v *lval) {
		ty := "Nat"
		if v.w == byteW {
			ty = "List UInt8"
		} else if v.w == 0 {
			ty = "Prop"
		}
		outs = append(outs, bOut{v.term, ty, v.deps})
	}
	for _, po := range ptrOuts {
		written := false
		for i, c := range po.cells {
			if x.store[c].term != po.init[i] {
				written = true
			}
		}
		if written {
			for _, c := range po.cells {
				add(x.store[c])
			}
		}
	}
	for i, v := range vals {
		if _, isPtr := resTypes[i].(*ast.StarExpr); isPtr {
			continue // the receiver: already an output when written
		}
		switch s := v.(type) {
		case *lval:
			add(s)
		case *larr:
			for _, c := range s.cells {
				add(x.store[c])
			}
		case *lbarr:
			add(x.store[s.cell])
		default:
			lreject("unsupported result value")
		}
	}
	if len(outs) == 0 {
		lreject("no outputs")
	}
	isProp := false
	for _, o := range outs {
		if o.ty == "Prop" {
			isProp = true
		}
	}
	if isProp && len(outs) != 1 {
		lreject("bool result mixed with other outputs")
	}
	var lines []lline
	for _, sg := range x.segs {
		lines = append(lines, sg...)
	}
	used := map[string]bool{}
	for _, l := range lines {
		for _, dn := range l.deps {
			used[dn] = true
		}
	}
	for _, o := range outs {
		for _, dn := range o.deps {
			used[dn] = true
		}
	}
	var b strings.Builder
	fmt.Fprintf(&b, "def %s", tg.lean)
	if x.bm.usesSlow {
		fmt.Fprintf(&b, " (setBigIntBE : List UInt8 → %s)", tupleType(x.nLimbs, false))
	}
	for _, in := range ins {
		if used[in.name] {
			fmt.Fprintf(&b, " (%s : %s)", in.name, in.ty)
		}
	}
	var tys, terms []string
	for _, o := range outs {
		tys = append(tys, o.ty)
		terms = append(terms, o.term)
	}
	fmt.Fprintf(&b, " : %s :=\n", strings.Join(tys, " × "))
	for _, l := range lines {
		fmt.Fprintf(&b, "  let %s := %s\n", l.name, l.rhs)
	}
	fmt.Fprintf(&b, "  %s\n\n", tupleOf(terms))
	return b.String(), nil
}

var limbFsets = map[string]*token.FileSet{}

// the declarations the pass relies on without translating them
func checkBytesDecls(fc *fieldConsts, fns map[string]*limbFn) error {
	src := string(fileSrc[filepath.Join(repo, fc.dir, "element.go")])
	for _, need := range []string{"var BigEndian bigEndian\n", "var LittleEndian littleEndian\n", "type bigEndian struct{}\n", "type littleEndian struct{}\n",
		"var errInvalidEncoding = errors.New(", "\t\"encoding/binary\"\n", "\t\"errors\"\n"} {
		if !strings.Contains(src, need) {
			return fmt.Errorf("declaration %q not found", strings.TrimSpace(need))
		}
	}
	// rSquare, BigEndian, LittleEndian, errInvalidEncoding are never assigned in the functions of the loaded files
	frozen := map[string]bool{"rSquare": true, "BigEndian": true, "LittleEndian": true, "errInvalidEncoding": true}
	var bad error
	for _, f := range fns {
		ast.Inspect(f.decl, func(n ast.Node) bool {
			as, ok := n.(*ast.AssignStmt)
			if !ok {
				return true
			}
			for _, l := range as.Lhs {
				if id, ok := stripByteArr(l); ok && frozen[id] {
					bad = fmt.Errorf("%s is assigned in %s", id, f.name)
				}
				if ie, ok := l.(*ast.IndexExpr); ok {
					if id, ok := stripByteArr(ie.X); ok && frozen[id] {
						bad = fmt.Errorf("%s is assigned in %s", id, f.name)
					}
				}
			}
			return true
		})
	}
	if bad != nil {
		return bad
	}
	return nil
}

func runBytes() {
	var index strings.Builder
	index.WriteString("/- GENERATED by tools/goslp (bytes.go) from /repo on every run. DO NOT EDIT. -/\n")
	var failures []string
	for _, dir := range limbDirs {
		fc := extractField(dir)
		fset, fns := loadLimbPkg(fc)
		limbFsets[dir] = fset
		if err := checkBytesDecls(fc, fns); err != nil {
			failures = append(failures, fmt.Sprintf("%s: %v", dir, err))
			continue
		}
		mod := strings.ToUpper(fc.name[:1]) + fc.name[1:]
		var b strings.Builder
		fmt.Fprintf(&b, "/- GENERATED by tools/goslp (bytes.go) from /repo/%s on every run. DO NOT EDIT.\n", dir)
		b.WriteString("   Byte <-> limb conversion code; conventions in Model/Bytes.lean; the limb arithmetic is Gen/Limb of the same run. -/\n")
		fmt.Fprintf(&b, "import GnarkVerif.Model.Bytes\nimport GnarkVerif.Gen.Limb.%s\n\nset_option maxRecDepth 100000\nset_option linter.unusedVariables false\n\n", mod)
		fmt.Fprintf(&b, "namespace GV.Gen.Bytes.%s\n\n", fc.name)
		n := int(fc.consts["Limbs"].Int64())
		var zs []string
		for i := 0; i < n; i++ {
			zs = append(zs, fmt.Sprintf("z%d", i))
		}
		fmt.Fprintf(&b, "/-- Go `bool` results are `Prop`s in Gen/Limb; the `if` of the decoders needs to decide this one -/\ninstance (%s : Nat) : Decidable (GV.Gen.Limb.%s.smallerThanModulus %s) := by\n  unfold GV.Gen.Limb.%s.smallerThanModulus\n  exact inferInstance\n\n",
			strings.Join(zs, " "), fc.name, strings.Join(zs, " "), fc.name)
		fmt.Fprintf(&b, "/-- the constant `Bytes` of the package -/\ndef nBytes : Nat := %d\n\n", fc.consts["Bytes"].Int64())
		var done []string
		for _, tg := range bytesTargets {
			if fns[tg.fn] == nil {
				failures = append(failures, fmt.Sprintf("%s %s: function not found", dir, tg.fn))
				continue
			}
			txt, err := translateBytesFn(fc, fns, tg)
			if err != nil {
				failures = append(failures, fmt.Sprintf("%s %s: %v", dir, tg.fn, err))
				continue
			}
			b.WriteString(txt)
			done = append(done, tg.lean)
		}
		fmt.Fprintf(&b, "end GV.Gen.Bytes.%s\n", fc.name)
		writeFile(filepath.Join("Bytes", mod+".lean"), b.String())
		fmt.Fprintf(&index, "import GnarkVerif.Gen.Bytes.%s -- %s\n", mod, strings.Join(done, " "))
	}
	writeFile("Bytes.lean", index.String())
	if len(failures) > 0 {
		die("byte-conversion translation failed:\n  %s", strings.Join(failures, "\n  "))
	}
}
