// Part 7 (pointcodec.go): the flag DISPATCH of the point codecs (ecc/<curve>/marshal.go) -> Gen/PointCodec/<Curve>.lean (C07, Props/C07_codec_gen).
//
// Translated statement by statement, per curve package: `isZeroed`, `isCompressed`, `isMaskInvalid` (when present),
// `(*G1Affine).Bytes`, `RawBytes`, `setBytes`, `SetBytes`, the same methods of `*G2Affine` for bw6-633 / bw6-761 (G2 over the base field; secp256k1, which has no flag block: `RawBytes`, `setBytes`, `SetBytes` only). Value semantics: a byte slice / byte array is a `List UInt8`, the receiver is the
// pair of coordinates (pX, pY), `setBytes` returns `Except GoErr (pX × pY × consumed)`.
// Everything on base-field elements is a PARAMETER (structure `Prims F` of Model/PointCodecGo.lean): SetZero / IsZero, SetBytesCanonical,
// BigEndian.PutElement, Square, Mul, Add, Neg, Sqrt, LexicographicallyLargest, bCurveCoeff, and IsInSubGroup of the point.
// CHECKED here: every index / slice bound on a fixed-size ARRAY is a constant inside the array; the `(*[fp.Bytes]byte)(res[i:j])` conversion has
// j-i = fp.Bytes. NOT assumed but emitted as a run-time guard of the generated definition (`GoErr.outOfRange`, which the theorems prove unreachable):
// every index / slice bound on the SLICE parameter is within `len` (Go would panic or read up to `cap`).
// Anything outside the statement / expression forms below: fatal error of this pass.
package main

import (
	"fmt"
	"go/ast"
	"go/parser"
	"go/token"
	"path/filepath"
	"sort"
	"strconv"
	"strings"
)

var pointCodecDirs = []string{"ecc/bn254", "ecc/grumpkin", "ecc/stark-curve", "ecc/bls12-377", "ecc/bls12-381", "ecc/bls24-315", "ecc/bls24-317", "ecc/bw6-633", "ecc/bw6-761", "ecc/secp256k1"}

// packages whose G2 coordinates are base-field elements (the G2 text is the G1 text with the twist coefficient): G2 is translated too
var pcG2Fp = map[string]bool{"ecc/bw6-633": true, "ecc/bw6-761": true}

// packages whose G2 coordinates are tower elements (E2 / E4): G2 is translated with component access through `Comps`
var pcG2Tower = map[string]bool{"ecc/bn254": true, "ecc/bls12-377": true, "ecc/bls12-381": true, "ecc/bls24-315": true, "ecc/bls24-317": true}

type pcKind int

const (
	pcByte pcKind = iota
	pcInt
	pcBool
	pcSlice // []byte (length unknown: guarded)
	pcArray // [N]byte
	pcElem  // fp.Element
	pcNone
)

type pcVar struct {
	kind pcKind
	n    int64 // array length
}

type pcCtx struct {
	dir     string
	ints    map[string]int64  // package-level integer constants (evaluated)
	bytes   map[string]string // package-level byte constants: Lean text
	funcs   map[string]bool   // bool helper functions translated in this file
	vars    map[string]*pcVar
	fn      string
	retKind string // "set", "res", "bool"
	errVar  string // name bound by `if err := …SetBytesCanonical`
	joins   int
	tower   bool // the group's coordinates are tower elements (G2 over Fp2 / Fp4): component access through `Comps`
	retType string
}

func (c *pcCtx) die(n ast.Node, f string, a ...any) {
	die("pointcodec: %s: %s: %s", c.dir, c.fn, fmt.Sprintf(f, a...))
}

func pcLeanName(dir string) string {
	return strings.NewReplacer("-", "_").Replace(strings.TrimPrefix(dir, "ecc/"))
}

// ---- constants -------------------------------------------------------------------------------------------------

func (c *pcCtx) evalInt(e ast.Expr) (int64, bool) {
	switch v := e.(type) {
	case *ast.BasicLit:
		if k := litInt(v); k != nil && k.IsInt64() {
			return k.Int64(), true
		}
	case *ast.Ident:
		if s, ok := c.ints[v.Name]; ok {
			if _, shadow := c.vars[v.Name]; !shadow {
				return s, true
			}
		}
	case *ast.SelectorExpr:
		if x, ok := v.X.(*ast.Ident); ok && x.Name == "fp" && v.Sel.Name == "Bytes" {
			return c.ints["fp.Bytes"], true
		}
	case *ast.ParenExpr:
		return c.evalInt(v.X)
	case *ast.BinaryExpr:
		a, ok1 := c.evalInt(v.X)
		b, ok2 := c.evalInt(v.Y)
		if ok1 && ok2 {
			switch v.Op {
			case token.ADD:
				return a + b, true
			case token.MUL:
				return a * b, true
			case token.SHL:
				if b < 32 {
					return a << uint(b), true
				}
			}
		}
	}
	return 0, false
}

// ---- expressions -----------------------------------------------------------------------------------------------

func (c *pcCtx) kindOf(e ast.Expr) pcKind {
	switch v := e.(type) {
	case *ast.Ident:
		if x, ok := c.vars[v.Name]; ok {
			return x.kind
		}
		if _, ok := c.bytes[v.Name]; ok {
			return pcByte
		}
		if _, ok := c.ints[v.Name]; ok {
			return pcInt
		}
	case *ast.IndexExpr:
		return pcByte
	case *ast.ParenExpr:
		return c.kindOf(v.X)
	case *ast.UnaryExpr:
		if v.Op == token.XOR {
			return pcByte
		}
		if v.Op == token.NOT {
			return pcBool
		}
	case *ast.CallExpr:
		if id, ok := v.Fun.(*ast.Ident); ok && id.Name == "len" {
			return pcInt
		}
		return pcBool
	case *ast.SelectorExpr:
		if _, ok := c.evalInt(v); ok {
			return pcInt
		}
	case *ast.BinaryExpr:
		switch v.Op {
		case token.AND, token.OR:
			return pcByte
		case token.ADD, token.MUL:
			return pcInt
		case token.SHL:
			return pcNone // untyped constant
		case token.LAND, token.LOR, token.EQL, token.NEQ, token.LSS:
			return pcBool
		}
	}
	return pcNone
}

// guards collects, for the slice-typed variables, the bounds that Go needs to stay inside `len`
func (c *pcCtx) intExpr(e ast.Expr) string {
	switch v := e.(type) {
	case *ast.BasicLit:
		if k := litInt(v); k != nil {
			return k.String()
		}
	case *ast.Ident:
		if x, ok := c.vars[v.Name]; ok && x.kind == pcInt {
			return v.Name
		}
		if _, ok := c.ints[v.Name]; ok {
			return v.Name
		}
	case *ast.SelectorExpr:
		if x, ok := v.X.(*ast.Ident); ok && x.Name == "fp" && v.Sel.Name == "Bytes" {
			return "fpBytes"
		}
	case *ast.ParenExpr:
		return "(" + c.intExpr(v.X) + ")"
	case *ast.BinaryExpr:
		if v.Op == token.ADD || v.Op == token.MUL {
			return "(" + c.intExpr(v.X) + " " + v.Op.String() + " " + c.intExpr(v.Y) + ")"
		}
	case *ast.CallExpr:
		if id, ok := v.Fun.(*ast.Ident); ok && id.Name == "len" && len(v.Args) == 1 {
			if a, ok := v.Args[0].(*ast.Ident); ok {
				if x, ok := c.vars[a.Name]; ok && (x.kind == pcSlice || x.kind == pcArray) {
					return a.Name + ".length"
				}
			}
		}
	}
	c.die(e, "unsupported integer expression %T", e)
	return ""
}

func (c *pcCtx) byteExpr(e ast.Expr, g *[]string) string {
	switch v := e.(type) {
	case *ast.Ident:
		if x, ok := c.vars[v.Name]; ok && x.kind == pcByte {
			return v.Name
		}
		if _, ok := c.bytes[v.Name]; ok {
			if _, shadow := c.vars[v.Name]; !shadow {
				return v.Name
			}
		}
	case *ast.ParenExpr:
		return c.byteExpr(v.X, g)
	case *ast.BasicLit, *ast.BinaryExpr:
		if k, ok := c.evalInt(e); ok {
			if k < 0 || k > 255 {
				c.die(e, "byte constant out of range")
			}
			return fmt.Sprintf("(%d : UInt8)", k)
		}
		if be, ok := e.(*ast.BinaryExpr); ok {
			switch be.Op {
			case token.AND:
				return "(" + c.byteExpr(be.X, g) + " &&& " + c.byteExpr(be.Y, g) + ")"
			case token.OR:
				return "(" + c.byteExpr(be.X, g) + " ||| " + c.byteExpr(be.Y, g) + ")"
			}
		}
	case *ast.UnaryExpr:
		if v.Op == token.XOR {
			return "(~~~" + c.byteExpr(v.X, g) + ")"
		}
	case *ast.IndexExpr:
		if a, ok := v.X.(*ast.Ident); ok {
			if x, ok := c.vars[a.Name]; ok {
				i, okI := c.evalInt(v.Index)
				if !okI || i < 0 {
					c.die(e, "index is not a constant")
				}
				switch x.kind {
				case pcArray:
					if i >= x.n {
						c.die(e, "constant index %d outside the array %s", i, a.Name)
					}
				case pcSlice:
					if g == nil {
						c.die(e, "index of a slice where no bound guard can be emitted")
					}
					*g = append(*g, fmt.Sprintf("%d < %s.length", i, a.Name))
				default:
					c.die(e, "index of a non-array")
				}
				return fmt.Sprintf("(%s.getD %d 0)", a.Name, i)
			}
		}
	}
	c.die(e, "unsupported byte expression %T", e)
	return ""
}

// sliceExpr: `v`, `v[:j]`, `v[i:j]` with integer bounds; returns the Lean list and its statically known length (-1: unknown)
func (c *pcCtx) sliceExpr(e ast.Expr, g *[]string) (string, int64) {
	switch v := e.(type) {
	case *ast.Ident:
		if x, ok := c.vars[v.Name]; ok {
			if x.kind == pcArray {
				return v.Name, x.n
			}
			if x.kind == pcSlice {
				return v.Name, -1
			}
		}
	case *ast.SliceExpr:
		a, ok := v.X.(*ast.Ident)
		if !ok || v.Slice3 || v.High == nil {
			break
		}
		x, ok := c.vars[a.Name]
		if !ok || (x.kind != pcArray && x.kind != pcSlice) {
			break
		}
		lo, loS := int64(0), "0"
		if v.Low != nil {
			k, ok := c.evalInt(v.Low)
			if !ok {
				c.die(e, "slice bound is not a constant")
			}
			lo, loS = k, c.intExpr(v.Low)
		}
		hi, ok := c.evalInt(v.High)
		if !ok || lo < 0 || hi < lo {
			c.die(e, "slice bound is not a constant or low > high")
		}
		hiS := c.intExpr(v.High)
		if x.kind == pcArray {
			if hi > x.n {
				c.die(e, "slice bound %d outside the array %s", hi, a.Name)
			}
		} else {
			if g == nil {
				c.die(e, "slice of a slice where no bound guard can be emitted")
			}
			*g = append(*g, fmt.Sprintf("%s ≤ %s.length", hiS, a.Name))
		}
		return fmt.Sprintf("(goSlice %s %s %s)", a.Name, loS, hiS), hi - lo
	}
	c.die(e, "unsupported slice expression %T", e)
	return "", 0
}

// elemExpr: `p.X`, `&p.X`, `Y`, `&Y`, `&bCurveCoeff`
func (c *pcCtx) elemExpr(e ast.Expr) string {
	if u, ok := e.(*ast.UnaryExpr); ok && u.Op == token.AND {
		e = u.X
	}
	switch v := e.(type) {
	case *ast.Ident:
		if x, ok := c.vars[v.Name]; ok && x.kind == pcElem {
			return v.Name
		}
		if v.Name == "bCurveCoeff" || v.Name == "bTwistCurveCoeff" {
			if _, shadow := c.vars[v.Name]; !shadow {
				return "P." + v.Name
			}
		}
	case *ast.SelectorExpr:
		if x, ok := v.X.(*ast.Ident); ok && x.Name == "p" && (v.Sel.Name == "X" || v.Sel.Name == "Y") {
			return "p" + v.Sel.Name
		}
	}
	c.die(e, "unsupported field-element operand %T", e)
	return ""
}

// compPath: `p.X.A1`, `p.Y.B1.A0` → the coordinate variable ("pX") and the component path ("A1", "B1.A0") of a tower coordinate
func (c *pcCtx) compPath(e ast.Expr) (string, string, bool) {
	var path []string
	for {
		sel, ok := e.(*ast.SelectorExpr)
		if !ok {
			return "", "", false
		}
		if x, ok := sel.X.(*ast.Ident); ok && x.Name == "p" && (sel.Sel.Name == "X" || sel.Sel.Name == "Y") {
			if len(path) == 0 || !c.tower {
				return "", "", false
			}
			return "p" + sel.Sel.Name, strings.Join(path, "."), true
		}
		nm := sel.Sel.Name
		if nm != "A0" && nm != "A1" && nm != "B0" && nm != "B1" {
			return "", "", false
		}
		path = append([]string{nm}, path...)
		e = sel.X
	}
}

func (c *pcCtx) boolExpr(e ast.Expr, g *[]string) string {
	switch v := e.(type) {
	case *ast.Ident:
		if x, ok := c.vars[v.Name]; ok && x.kind == pcBool {
			return v.Name
		}
		if v.Name == "true" || v.Name == "false" {
			return v.Name
		}
	case *ast.ParenExpr:
		return c.boolExpr(v.X, g)
	case *ast.UnaryExpr:
		if v.Op == token.NOT {
			return "(!" + c.boolExpr(v.X, g) + ")"
		}
	case *ast.BinaryExpr:
		switch v.Op {
		case token.LAND, token.LOR:
			op := map[token.Token]string{token.LAND: "&&", token.LOR: "||"}[v.Op]
			// the right operand is evaluated conditionally: no guarded access may sit there
			return "(" + c.boolExpr(v.X, g) + " " + op + " " + c.boolExpr(v.Y, nil) + ")"
		case token.EQL, token.NEQ:
			op := map[token.Token]string{token.EQL: "==", token.NEQ: "!="}[v.Op]
			if call, ok := v.X.(*ast.CallExpr); ok && c.tower {
				if sel, ok := call.Fun.(*ast.SelectorExpr); ok && sel.Sel.Name == "Legendre" && len(call.Args) == 0 {
					if u, ok := v.Y.(*ast.UnaryExpr); ok && u.Op == token.SUB {
						if k, ok := c.evalInt(u.X); ok {
							return fmt.Sprintf("(Q.legendre %s %s (-%d : Int))", c.elemExpr(sel.X), op, k)
						}
					}
					c.die(e, "Legendre compared with a non-constant")
				}
			}
			kx, ky := c.kindOf(v.X), c.kindOf(v.Y)
			if kx == pcByte || ky == pcByte {
				return "(" + c.byteExpr(v.X, g) + " " + op + " " + c.byteExpr(v.Y, g) + ")"
			}
			if kx == pcInt || ky == pcInt {
				return "(" + c.intExpr(v.X) + " " + op + " " + c.intExpr(v.Y) + ")"
			}
		case token.LSS:
			return "(decide (" + c.intExpr(v.X) + " < " + c.intExpr(v.Y) + "))"
		}
	case *ast.CallExpr:
		if id, ok := v.Fun.(*ast.Ident); ok && c.funcs[id.Name] {
			switch id.Name {
			case "isZeroed":
				if len(v.Args) == 2 {
					s, _ := c.sliceExpr(v.Args[1], g)
					return "(isZeroed " + c.byteExpr(v.Args[0], g) + " " + s + ")"
				}
			case "isMaskInvalid", "isCompressed":
				if len(v.Args) == 1 {
					return "(" + id.Name + " " + c.byteExpr(v.Args[0], g) + ")"
				}
			}
		}
		if sel, ok := v.Fun.(*ast.SelectorExpr); ok && len(v.Args) == 0 {
			switch sel.Sel.Name {
			case "IsZero":
				return "(P.isZero " + c.elemExpr(sel.X) + ")"
			case "LexicographicallyLargest":
				return "(P.lex " + c.elemExpr(sel.X) + ")"
			case "IsInSubGroup":
				if x, ok := sel.X.(*ast.Ident); ok && x.Name == "p" {
					return "(P.isInSubGroup pX pY)"
				}
			}
		}
	}
	c.die(e, "unsupported boolean expression %T", e)
	return ""
}

// ---- statements ------------------------------------------------------------------------------------------------

func pcHasReturn(s ast.Node) bool {
	found := false
	ast.Inspect(s, func(n ast.Node) bool {
		if _, ok := n.(*ast.ReturnStmt); ok {
			found = true
		}
		return !found
	})
	return found
}

func (c *pcCtx) guard(g []string, body string) string {
	if len(g) == 0 {
		return body
	}
	if c.retKind != "set" {
		c.die(nil, "bound guard needed in a function that cannot fail")
	}
	return "(if ¬(" + strings.Join(g, " ∧ ") + ") then .error .outOfRange else\n" + body + ")"
}

// assigned: the local variables a return-free statement list assigns (Lean names)
func (c *pcCtx) assigned(stmts []ast.Stmt, set map[string]bool) {
	for _, s := range stmts {
		switch v := s.(type) {
		case *ast.AssignStmt:
			if len(v.Lhs) == 1 && v.Tok != token.DEFINE {
				switch l := v.Lhs[0].(type) {
				case *ast.Ident:
					set[l.Name] = true
					continue
				case *ast.IndexExpr:
					if a, ok := l.X.(*ast.Ident); ok {
						set[a.Name] = true
						continue
					}
				case *ast.SelectorExpr:
					set[c.elemExpr(l)] = true
					continue
				}
			}
			c.die(s, "unsupported assignment inside a return-free branch")
		case *ast.ExprStmt:
			set[c.chainRoot(v.X)] = true
		case *ast.IfStmt:
			if v.Init != nil {
				c.die(s, "if with init inside a return-free branch")
			}
			c.assigned(v.Body.List, set)
			if v.Else != nil {
				eb, ok := v.Else.(*ast.BlockStmt)
				if !ok {
					c.die(s, "else-if")
				}
				c.assigned(eb.List, set)
			}
		default:
			c.die(s, "unsupported statement %T inside a return-free branch", s)
		}
	}
}

// chainRoot: the receiver a method chain `R.A(..).B(..)` writes
func (c *pcCtx) chainRoot(e ast.Expr) string {
	for {
		call, ok := e.(*ast.CallExpr)
		if !ok {
			return c.elemExpr(e)
		}
		sel, ok := call.Fun.(*ast.SelectorExpr)
		if !ok {
			c.die(e, "unsupported call statement")
		}
		e = sel.X
	}
}

// chain: `R.Op1(args).Op2(args)` → successive `let R := …;`
func (c *pcCtx) chain(e ast.Expr) string {
	call, ok := e.(*ast.CallExpr)
	if !ok {
		return ""
	}
	sel := call.Fun.(*ast.SelectorExpr)
	pre := c.chain(sel.X)
	r := c.chainRoot(e)
	var rhs string
	switch {
	case sel.Sel.Name == "SetZero" && len(call.Args) == 0:
		rhs = "P.zero"
	case sel.Sel.Name == "Square" && len(call.Args) == 1:
		rhs = "P.square " + c.elemExpr(call.Args[0])
	case sel.Sel.Name == "Sqrt" && len(call.Args) == 1 && c.tower:
		// the tower Sqrt is called after the Legendre test and its result is not inspected
		rhs = "Q.sqrtU " + c.elemExpr(call.Args[0])
	case sel.Sel.Name == "Neg" && len(call.Args) == 1:
		rhs = "P.neg " + c.elemExpr(call.Args[0])
	case (sel.Sel.Name == "Mul" || sel.Sel.Name == "Add") && len(call.Args) == 2:
		rhs = "P." + strings.ToLower(sel.Sel.Name) + " " + c.elemExpr(call.Args[0]) + " " + c.elemExpr(call.Args[1])
	default:
		c.die(e, "unsupported field method %s/%d", sel.Sel.Name, len(call.Args))
	}
	return pre + "let " + r + " := " + rhs + ";\n"
}

func (c *pcCtx) errExpr(e ast.Expr) string {
	switch v := e.(type) {
	case *ast.Ident:
		if v.Name == c.errVar && c.errVar != "" {
			return ".setBytesCanonical"
		}
		if v.Name == "ErrInvalidInfinityEncoding" || v.Name == "ErrInvalidEncoding" {
			return "." + v.Name
		}
	case *ast.SelectorExpr:
		if x, ok := v.X.(*ast.Ident); ok && x.Name == "io" && v.Sel.Name == "ErrShortBuffer" {
			return ".ErrShortBuffer"
		}
	case *ast.CallExpr:
		if sel, ok := v.Fun.(*ast.SelectorExpr); ok && len(v.Args) == 1 {
			if x, ok := sel.X.(*ast.Ident); ok && x.Name == "errors" && sel.Sel.Name == "New" {
				if l, ok := v.Args[0].(*ast.BasicLit); ok && l.Kind == token.STRING {
					s, err := strconv.Unquote(l.Value)
					if err == nil {
						return "(.new " + strconv.Quote(s) + ")"
					}
				}
			}
		}
	}
	c.die(e, "unsupported error value")
	return ""
}

func (c *pcCtx) stmts(list []ast.Stmt, tail string) string {
	if len(list) == 0 {
		if tail == "" {
			c.die(nil, "control reaches the end of the function without return")
		}
		return tail
	}
	s, rest := list[0], list[1:]
	switch v := s.(type) {
	case *ast.ReturnStmt:
		switch c.retKind {
		case "set":
			if len(v.Results) == 2 {
				if id, ok := v.Results[1].(*ast.Ident); ok && id.Name == "nil" {
					return "(.ok (pX, pY, " + c.intExpr(v.Results[0]) + "))"
				}
				if k, ok := c.evalInt(v.Results[0]); ok && k == 0 {
					return "(.error " + c.errExpr(v.Results[1]) + ")"
				}
			}
		case "res":
			if len(v.Results) == 0 {
				return "res"
			}
		case "bool":
			if len(v.Results) == 1 {
				return c.boolExpr(v.Results[0], nil)
			}
		}
		c.die(s, "unsupported return")
	case *ast.DeclStmt:
		gd, ok := v.Decl.(*ast.GenDecl)
		if !ok || gd.Tok != token.VAR {
			c.die(s, "unsupported declaration")
		}
		out := ""
		for _, sp := range gd.Specs {
			vs := sp.(*ast.ValueSpec)
			if len(vs.Values) != 0 {
				c.die(s, "var with initialiser")
			}
			for _, n := range vs.Names {
				if at, ok := vs.Type.(*ast.ArrayType); ok && at.Len != nil {
					if el, ok := at.Elt.(*ast.Ident); ok && el.Name == "byte" {
						k, ok := c.evalInt(at.Len)
						if !ok {
							c.die(s, "array length is not a constant")
						}
						c.vars[n.Name] = &pcVar{kind: pcArray, n: k}
						out += "let " + n.Name + " : List UInt8 := List.replicate " + c.intExpr(at.Len) + " 0;\n"
						continue
					}
				}
				if st, ok := vs.Type.(*ast.SelectorExpr); ok {
					if x, ok := st.X.(*ast.Ident); ok && ((!c.tower && x.Name == "fp" && st.Sel.Name == "Element") || (c.tower && x.Name == "fptower" && (st.Sel.Name == "E2" || st.Sel.Name == "E4"))) {
						c.vars[n.Name] = &pcVar{kind: pcElem}
						out += "let " + n.Name + " : F := P.zero;\n"
						continue
					}
				}
				c.die(s, "unsupported variable type")
			}
		}
		return "(" + out + c.stmts(rest, tail) + ")"
	case *ast.AssignStmt:
		if len(v.Lhs) != 1 || len(v.Rhs) != 1 {
			c.die(s, "multi-assignment")
		}
		var g []string
		switch l := v.Lhs[0].(type) {
		case *ast.Ident:
			if v.Tok == token.DEFINE {
				if _, dup := c.vars[l.Name]; dup {
					c.die(s, "redeclared %s", l.Name)
				}
				if c.kindOf(v.Rhs[0]) != pcByte {
					c.die(s, "only byte locals are supported with :=")
				}
				rhs := c.byteExpr(v.Rhs[0], &g)
				c.vars[l.Name] = &pcVar{kind: pcByte}
				return c.guard(g, "(let "+l.Name+" : UInt8 := "+rhs+";\n"+c.stmts(rest, tail)+")")
			}
			if v.Tok == token.ASSIGN {
				if x, ok := c.vars[l.Name]; ok && x.kind == pcByte {
					rhs := c.byteExpr(v.Rhs[0], &g)
					return c.guard(g, "(let "+l.Name+" : UInt8 := "+rhs+";\n"+c.stmts(rest, tail)+")")
				}
			}
		case *ast.SelectorExpr:
			if v.Tok == token.ASSIGN {
				return "(let " + c.elemExpr(l) + " := " + c.elemExpr(v.Rhs[0]) + ";\n" + c.stmts(rest, tail) + ")"
			}
		case *ast.IndexExpr:
			a, ok := l.X.(*ast.Ident)
			if !ok {
				break
			}
			x, ok := c.vars[a.Name]
			i, okI := c.evalInt(l.Index)
			if !ok || x.kind != pcArray || !okI || i < 0 || i >= x.n {
				c.die(s, "indexed assignment outside a fixed-size array")
			}
			rhs := c.byteExpr(v.Rhs[0], &g)
			cur := fmt.Sprintf("(%s.getD %d 0)", a.Name, i)
			switch v.Tok {
			case token.ASSIGN:
			case token.OR_ASSIGN:
				rhs = "(" + cur + " ||| " + rhs + ")"
			case token.AND_ASSIGN:
				rhs = "(" + cur + " &&& " + rhs + ")"
			default:
				c.die(s, "unsupported assignment operator")
			}
			return c.guard(g, fmt.Sprintf("(let %s := %s.set %d %s;\n%s)", a.Name, a.Name, i, rhs, c.stmts(rest, tail)))
		}
		c.die(s, "unsupported assignment")
	case *ast.ExprStmt:
		call, ok := v.X.(*ast.CallExpr)
		if !ok {
			c.die(s, "unsupported expression statement")
		}
		if id, ok := call.Fun.(*ast.Ident); ok && id.Name == "copy" && len(call.Args) == 2 {
			var g []string
			dst, okD := call.Args[0].(*ast.SliceExpr)
			if !okD || dst.Low != nil {
				c.die(s, "copy destination must be `arr[:n]`")
			}
			a, okA := dst.X.(*ast.Ident)
			if !okA || c.vars[a.Name] == nil || c.vars[a.Name].kind != pcArray {
				c.die(s, "copy destination must be a local array")
			}
			d, _ := c.sliceExpr(dst, &g)
			src, _ := c.sliceExpr(call.Args[1], &g)
			return c.guard(g, fmt.Sprintf("(let %s := goCopy %s %s ++ %s.drop %s;\n%s)", a.Name, d, src, a.Name, c.intExpr(dst.High), c.stmts(rest, tail)))
		}
		if sel, ok := call.Fun.(*ast.SelectorExpr); ok && sel.Sel.Name == "PutElement" && len(call.Args) == 2 {
			// fp.BigEndian.PutElement((*[fp.Bytes]byte)(arr[i:j]), elem)
			if inner, ok := sel.X.(*ast.SelectorExpr); !ok || inner.Sel.Name != "BigEndian" {
				c.die(s, "PutElement of an unknown byte order")
			}
			conv, ok := call.Args[0].(*ast.CallExpr)
			if !ok || len(conv.Args) != 1 {
				c.die(s, "PutElement destination is not an array conversion")
			}
			sl, ok := conv.Args[0].(*ast.SliceExpr)
			if !ok {
				c.die(s, "PutElement destination is not a slice of the result")
			}
			a, okA := sl.X.(*ast.Ident)
			if !okA || c.vars[a.Name] == nil || c.vars[a.Name].kind != pcArray || sl.Low == nil {
				c.die(s, "PutElement destination must be a window of a local array")
			}
			_, n := c.sliceExpr(sl, nil)
			if n != c.ints["fp.Bytes"] {
				c.die(s, "PutElement window is not fp.Bytes long")
			}
			var val string
			if root, path, ok := c.compPath(call.Args[1]); ok {
				val = "Q.put (Q.getComp " + strconv.Quote(path) + " " + root + ")"
			} else if !c.tower {
				val = "P.putElement " + c.elemExpr(call.Args[1])
			} else {
				c.die(s, "PutElement of a tower coordinate as a whole")
			}
			return fmt.Sprintf("(let %s := goPutAt %s %s (%s);\n%s)", a.Name, a.Name, c.intExpr(sl.Low), val, c.stmts(rest, tail))
		}
		return "(" + c.chain(v.X) + c.stmts(rest, tail) + ")"
	case *ast.RangeStmt:
		// for _, b := range S { if cond(b) { return CONST } }
		if c.retKind != "bool" || v.Key == nil || v.Value == nil || v.Tok != token.DEFINE || len(v.Body.List) != 1 {
			c.die(s, "unsupported range loop")
		}
		if k, ok := v.Key.(*ast.Ident); !ok || k.Name != "_" {
			c.die(s, "range loop with an index")
		}
		b := v.Value.(*ast.Ident).Name
		inner, ok := v.Body.List[0].(*ast.IfStmt)
		if !ok || inner.Init != nil || inner.Else != nil || len(inner.Body.List) != 1 {
			c.die(s, "unsupported range loop body")
		}
		ret, ok := inner.Body.List[0].(*ast.ReturnStmt)
		if !ok || len(ret.Results) != 1 {
			c.die(s, "unsupported range loop body")
		}
		rv, ok := ret.Results[0].(*ast.Ident)
		if !ok || (rv.Name != "true" && rv.Name != "false") {
			c.die(s, "range loop returns a non-constant")
		}
		src, _ := c.sliceExpr(v.X, nil)
		if _, dup := c.vars[b]; dup {
			c.die(s, "range variable shadows")
		}
		c.vars[b] = &pcVar{kind: pcByte}
		cond := c.boolExpr(inner.Cond, nil)
		delete(c.vars, b)
		return "(if " + src + ".any (fun " + b + " => " + cond + ") then " + rv.Name + " else\n" + c.stmts(rest, tail) + ")"
	case *ast.IfStmt:
		var elseList []ast.Stmt
		if v.Else != nil {
			eb, ok := v.Else.(*ast.BlockStmt)
			if !ok {
				c.die(s, "else-if")
			}
			elseList = eb.List
		}
		if v.Init != nil {
			// if err := R.SetBytesCanonical(S); err != nil { return 0, err }
			as, ok := v.Init.(*ast.AssignStmt)
			if !ok || as.Tok != token.DEFINE || len(as.Lhs) != 1 || len(as.Rhs) != 1 || v.Else != nil {
				c.die(s, "unsupported if-init")
			}
			ev := as.Lhs[0].(*ast.Ident).Name
			call, ok := as.Rhs[0].(*ast.CallExpr)
			if !ok || len(call.Args) != 1 {
				c.die(s, "unsupported if-init")
			}
			sel, ok := call.Fun.(*ast.SelectorExpr)
			if !ok || sel.Sel.Name != "SetBytesCanonical" {
				c.die(s, "unsupported if-init call")
			}
			cond, ok := v.Cond.(*ast.BinaryExpr)
			if !ok || cond.Op != token.NEQ {
				c.die(s, "unsupported if-init condition")
			}
			cx, ok1 := cond.X.(*ast.Ident)
			cy, ok2 := cond.Y.(*ast.Ident)
			if !ok1 || !ok2 || cx.Name != ev || cy.Name != "nil" {
				c.die(s, "unsupported if-init condition")
			}
			var g []string
			src, n := c.sliceExpr(call.Args[0], &g)
			if n != c.ints["fp.Bytes"] {
				c.die(s, "SetBytesCanonical argument is not fp.Bytes long")
			}
			var r, upd, fn string
			if root, path, ok := c.compPath(sel.X); ok {
				r, upd, fn = root, "Q.setComp "+strconv.Quote(path)+" "+root+" v_", "Q.sbc"
			} else if !c.tower {
				r, upd, fn = c.elemExpr(sel.X), "v_", "P.setBytesCanonical"
			} else {
				c.die(s, "SetBytesCanonical on a tower coordinate as a whole")
			}
			if !pcHasReturn(v.Body) {
				c.die(s, "error branch does not return")
			}
			old := c.errVar
			c.errVar = ev
			errBranch := c.stmts(v.Body.List, "")
			c.errVar = old
			return c.guard(g, "(match "+fn+" "+src+" with\n| none => "+errBranch+"\n| some v_ => let "+r+" := "+upd+";\n"+c.stmts(rest, tail)+")")
		}
		// if R.Sqrt(&a) == nil { return … }
		if be, ok := v.Cond.(*ast.BinaryExpr); ok && be.Op == token.EQL {
			if call, ok := be.X.(*ast.CallExpr); ok {
				if sel, ok := call.Fun.(*ast.SelectorExpr); ok && sel.Sel.Name == "Sqrt" && len(call.Args) == 1 {
					if y, ok := be.Y.(*ast.Ident); !ok || y.Name != "nil" || v.Else != nil || !pcHasReturn(v.Body) {
						c.die(s, "unsupported use of Sqrt")
					}
					r := c.elemExpr(sel.X)
					arg := c.elemExpr(call.Args[0])
					return "(match P.sqrt " + arg + " with\n| none => " + c.stmts(v.Body.List, "") + "\n| some v_ => let " + r + " := v_;\n" + c.stmts(rest, tail) + ")"
				}
			}
		}
		var g []string
		cond := c.boolExpr(v.Cond, &g)
		if pcHasReturn(v) && !(pcTerminates(v.Body.List) && len(elseList) == 0) && len(rest) > 0 {
			// a branch that may return AND may fall through: the continuation becomes a join point (translated once);
			// CHECKED: such a branch assigns / declares nothing (the join point would not see it)
			ast.Inspect(v, func(n ast.Node) bool {
				switch n.(type) {
				case *ast.AssignStmt, *ast.ExprStmt, *ast.DeclStmt, *ast.IncDecStmt, *ast.RangeStmt, *ast.ForStmt:
					c.die(s, "a branch that both returns and falls through must not have effects")
				}
				return true
			})
			c.joins++
			k := fmt.Sprintf("k_%d", c.joins)
			saved := c.snapshot()
			thenT := c.stmts(v.Body.List, k+" ()")
			c.restore(saved)
			elseT := c.stmts(elseList, k+" ()")
			c.restore(saved)
			restT := c.stmts(rest, tail)
			return c.guard(g, "(let "+k+" := fun (_ : Unit) => ("+restT+" : "+c.retType+");\nif "+cond+" then\n"+thenT+"\nelse\n"+elseT+")")
		}
		if pcHasReturn(v) {
			saved := c.snapshot()
			thenT := c.stmts(append(append([]ast.Stmt{}, v.Body.List...), rest...), tail)
			c.restore(saved)
			elseT := c.stmts(append(append([]ast.Stmt{}, elseList...), rest...), tail)
			return c.guard(g, "(if "+cond+" then\n"+thenT+"\nelse\n"+elseT+")")
		}
		set := map[string]bool{}
		c.assigned(v.Body.List, set)
		c.assigned(elseList, set)
		if len(set) != 1 {
			c.die(s, "a return-free branch must assign exactly one variable (assigns %d)", len(set))
		}
		var name string
		for k := range set {
			name = k
		}
		thenT := c.stmts(v.Body.List, name)
		elseT := c.stmts(elseList, name)
		return c.guard(g, "(let "+name+" := (if "+cond+" then\n"+thenT+"\nelse\n"+elseT+");\n"+c.stmts(rest, tail)+")")
	}
	c.die(s, "unsupported statement %T", s)
	return ""
}

func pcTerminates(l []ast.Stmt) bool {
	if len(l) == 0 {
		return false
	}
	_, ok := l[len(l)-1].(*ast.ReturnStmt)
	return ok
}

func (c *pcCtx) snapshot() map[string]*pcVar {
	m := map[string]*pcVar{}
	for k, v := range c.vars {
		m[k] = v
	}
	return m
}
func (c *pcCtx) restore(m map[string]*pcVar) { c.vars = m }

// ---- functions -------------------------------------------------------------------------------------------------

func pcRecvIs(fd *ast.FuncDecl, ty string) bool {
	if fd.Recv == nil || len(fd.Recv.List) != 1 || len(fd.Recv.List[0].Names) != 1 || fd.Recv.List[0].Names[0].Name != "p" {
		return false
	}
	st, ok := fd.Recv.List[0].Type.(*ast.StarExpr)
	if !ok {
		return false
	}
	id, ok := st.X.(*ast.Ident)
	return ok && id.Name == ty
}

func (c *pcCtx) params(fd *ast.FuncDecl) string {
	out := ""
	for _, f := range fd.Type.Params.List {
		for _, n := range f.Names {
			switch t := f.Type.(type) {
			case *ast.Ident:
				if t.Name == "byte" {
					c.vars[n.Name] = &pcVar{kind: pcByte}
					out += " (" + n.Name + " : UInt8)"
					continue
				}
				if t.Name == "bool" {
					c.vars[n.Name] = &pcVar{kind: pcBool}
					out += " (" + n.Name + " : Bool)"
					continue
				}
			case *ast.ArrayType:
				if el, ok := t.Elt.(*ast.Ident); ok && el.Name == "byte" && t.Len == nil {
					c.vars[n.Name] = &pcVar{kind: pcSlice}
					out += " (" + n.Name + " : List UInt8)"
					continue
				}
			}
			c.die(fd, "unsupported parameter type of %s", n.Name)
		}
	}
	return out
}

func runPointCodec() {
	for _, dir := range pointCodecDirs {
		p := filepath.Join(repo, dir, "marshal.go")
		fset := token.NewFileSet()
		f, err := parser.ParseFile(fset, p, nil, 0)
		if err != nil {
			die("pointcodec: parse %s: %v", p, err)
		}
		c := &pcCtx{dir: dir, ints: map[string]int64{}, bytes: map[string]string{}, funcs: map[string]bool{}, vars: map[string]*pcVar{}}
		// fp.Bytes
		ef, err := parser.ParseFile(token.NewFileSet(), filepath.Join(repo, dir, "fp", "element.go"), nil, 0)
		if err != nil {
			die("pointcodec: parse %s/fp/element.go: %v", dir, err)
		}
		found := false
		for _, d := range ef.Decls {
			if gd, ok := d.(*ast.GenDecl); ok && gd.Tok == token.CONST {
				for _, sp := range gd.Specs {
					vs := sp.(*ast.ValueSpec)
					for i, n := range vs.Names {
						if n.Name == "Bytes" && i < len(vs.Values) {
							if k := litInt(vs.Values[i]); k != nil {
								c.ints["fp.Bytes"] = k.Int64()
								found = true
							}
						}
					}
				}
			}
		}
		if !found {
			die("pointcodec: %s: fp.Bytes is not a literal constant", dir)
		}
		var b strings.Builder
		ln := pcLeanName(dir)
		fmt.Fprintf(&b, "import GnarkVerif.Model.PointCodecGo\n/- GENERATED by tools/goslp (pointcodec.go) from /repo/%s/marshal.go on every run. DO NOT EDIT.\n   Statement-by-statement translation of isZeroed / isCompressed / isMaskInvalid and of (*G1Affine).Bytes / RawBytes / setBytes / SetBytes. -/\nset_option linter.unusedVariables false\nnamespace GV.Gen.PointCodec.%s\nopen GV.PointCodecGo\n\n", dir, ln)
		fmt.Fprintf(&b, "@[reducible] def fpBytes : Nat := %d\n", c.ints["fp.Bytes"])
		// constants of marshal.go (the flag block, byte typed; the G1 size constants)
		for _, d := range f.Decls {
			gd, ok := d.(*ast.GenDecl)
			if !ok || gd.Tok != token.CONST {
				continue
			}
			for _, sp := range gd.Specs {
				vs := sp.(*ast.ValueSpec)
				for i, n := range vs.Names {
					if n.Name == "_" || i >= len(vs.Values) {
						continue
					}
					if ty, ok := vs.Type.(*ast.Ident); ok && ty.Name == "byte" {
						k, ok := c.evalInt(vs.Values[i])
						if !ok || k < 0 || k > 255 {
							die("pointcodec: %s: byte constant %s is not a constant in range", dir, n.Name)
						}
						c.bytes[n.Name] = fmt.Sprint(k)
						fmt.Fprintf(&b, "@[reducible] def %s : UInt8 := %d\n", n.Name, k)
						continue
					}
					if (strings.HasPrefix(n.Name, "SizeOfG1") || ((pcG2Fp[dir] || pcG2Tower[dir]) && strings.HasPrefix(n.Name, "SizeOfG2"))) && vs.Type == nil {
						k, ok := c.evalInt(vs.Values[i])
						if !ok {
							die("pointcodec: %s: size constant %s is not evaluable", dir, n.Name)
						}
						c.ints[n.Name] = k
						fmt.Fprintf(&b, "@[reducible] def %s : Nat := %d\n", n.Name, k)
					}
				}
			}
		}
		b.WriteString("\n")
		decls := map[string]*ast.FuncDecl{}
		for _, d := range f.Decls {
			if fd, ok := d.(*ast.FuncDecl); ok {
				if fd.Recv == nil {
					decls[fd.Name.Name] = fd
				} else if pcRecvIs(fd, "G1Affine") {
					decls["G1."+fd.Name.Name] = fd
				} else if pcRecvIs(fd, "G2Affine") {
					decls["G2."+fd.Name.Name] = fd
				}
			}
		}
		// bool helpers
		for _, name := range []string{"isZeroed", "isMaskInvalid", "isCompressed"} {
			fd, ok := decls[name]
			if !ok {
				// isMaskInvalid exists in the 3-bit family only; a package WITHOUT a flag block (secp256k1: raw encoding only) has no helper at all
				if _, flagged := c.bytes["mMask"]; name == "isMaskInvalid" || !flagged {
					continue
				}
				die("pointcodec: %s: %s not found", dir, name)
			}
			c.fn, c.retKind, c.retType, c.vars = name, "bool", "Bool", map[string]*pcVar{}
			if fd.Type.Results == nil || len(fd.Type.Results.List) != 1 {
				die("pointcodec: %s: %s: unexpected result list", dir, name)
			}
			if rt, ok := fd.Type.Results.List[0].Type.(*ast.Ident); !ok || rt.Name != "bool" || len(fd.Type.Results.List[0].Names) != 0 {
				die("pointcodec: %s: %s: unexpected result type", dir, name)
			}
			ps := c.params(fd)
			fmt.Fprintf(&b, "def %s%s : Bool :=\n%s\n\n", name, ps, c.stmts(fd.Body.List, ""))
			c.funcs[name] = true
		}
		groups := []string{"G1"}
		if pcG2Fp[dir] || pcG2Tower[dir] {
			groups = append(groups, "G2")
		}
		for _, grp := range groups {
			c.tower = grp == "G2" && pcG2Tower[dir]
			sig := "{F : Type} (P : Prims F)"
			if c.tower {
				sig = "{F B : Type} (P : Prims F) (Q : Comps F B)"
			}
			// encoders
			for _, name := range []string{"Bytes", "RawBytes"} {
				fd, ok := decls[grp+"."+name]
				if !ok {
					if _, flagged := c.bytes["mMask"]; name == "Bytes" && !flagged {
						continue
					}
					die("pointcodec: %s: (*G1Affine).%s not found", dir, name)
				}
				c.fn, c.retKind, c.retType, c.vars = grp+"."+name, "res", "List UInt8", map[string]*pcVar{}
				if len(fd.Type.Params.List) != 0 || fd.Type.Results == nil || len(fd.Type.Results.List) != 1 || len(fd.Type.Results.List[0].Names) != 1 || fd.Type.Results.List[0].Names[0].Name != "res" {
					die("pointcodec: %s: %s: unexpected signature", dir, name)
				}
				at, ok := fd.Type.Results.List[0].Type.(*ast.ArrayType)
				if !ok || at.Len == nil {
					die("pointcodec: %s: %s: result is not a fixed-size array", dir, name)
				}
				if el, ok := at.Elt.(*ast.Ident); !ok || el.Name != "byte" {
					die("pointcodec: %s: %s: result is not a byte array", dir, name)
				}
				k, ok := c.evalInt(at.Len)
				if !ok {
					die("pointcodec: %s: %s: result length is not a constant", dir, name)
				}
				c.vars["res"] = &pcVar{kind: pcArray, n: k}
				fmt.Fprintf(&b, "def %s_%s %s (pX pY : F) : List UInt8 :=\nlet res : List UInt8 := List.replicate %s 0;\n%s\n\n", grp, name, sig, c.intExpr(at.Len), c.stmts(fd.Body.List, ""))
			}
			// decoder
			{
				fd, ok := decls[grp+".setBytes"]
				if !ok {
					die("pointcodec: %s: (*G1Affine).setBytes not found", dir)
				}
				c.fn, c.retKind, c.retType, c.vars = grp+".setBytes", "set", "Except GoErr (F × F × Nat)", map[string]*pcVar{}
				rs := fd.Type.Results
				if rs == nil || len(rs.List) != 2 || len(rs.List[0].Names) != 0 {
					die("pointcodec: %s: setBytes: unexpected result list", dir)
				}
				if a, ok := rs.List[0].Type.(*ast.Ident); !ok || a.Name != "int" {
					die("pointcodec: %s: setBytes: unexpected result type", dir)
				}
				if a, ok := rs.List[1].Type.(*ast.Ident); !ok || a.Name != "error" {
					die("pointcodec: %s: setBytes: unexpected result type", dir)
				}
				ps := c.params(fd)
				var names []string
				for k := range c.vars {
					names = append(names, k)
				}
				sort.Strings(names)
				if strings.Join(names, ",") != "buf,subGroupCheck" {
					die("pointcodec: %s: setBytes: unexpected parameters %v", dir, names)
				}
				fmt.Fprintf(&b, "def %s_setBytes %s (pX pY : F)%s : Except GoErr (F × F × Nat) :=\n%s\n\n", grp, sig, ps, c.stmts(fd.Body.List, ""))
				// SetBytes: `return p.setBytes(buf, true)`
				sb, ok := decls[grp+".SetBytes"]
				if !ok || len(sb.Body.List) != 1 {
					die("pointcodec: %s: (*G1Affine).SetBytes not found or not a single return", dir)
				}
				ret, ok := sb.Body.List[0].(*ast.ReturnStmt)
				if !ok || len(ret.Results) != 1 {
					die("pointcodec: %s: SetBytes: not a single return", dir)
				}
				call, ok := ret.Results[0].(*ast.CallExpr)
				if !ok || len(call.Args) != 2 {
					die("pointcodec: %s: SetBytes: not a call of setBytes", dir)
				}
				sel, ok := call.Fun.(*ast.SelectorExpr)
				a0, ok0 := call.Args[0].(*ast.Ident)
				a1, ok1 := call.Args[1].(*ast.Ident)
				if !ok || sel.Sel.Name != "setBytes" || !ok0 || !ok1 || a0.Name != "buf" || (a1.Name != "true" && a1.Name != "false") {
					die("pointcodec: %s: SetBytes: not `p.setBytes(buf, <const>)`", dir)
				}
				if x, ok := sel.X.(*ast.Ident); !ok || x.Name != "p" || len(sb.Type.Params.List) != 1 || len(sb.Type.Params.List[0].Names) != 1 || sb.Type.Params.List[0].Names[0].Name != "buf" {
					die("pointcodec: %s: SetBytes: unexpected receiver / parameters", dir)
				}
				fmt.Fprintf(&b, "def %s_SetBytes %s (pX pY : F) (buf : List UInt8) : Except GoErr (F × F × Nat) :=\n%s_setBytes P %spX pY buf %s\n\n", grp, sig, grp, map[bool]string{true: "Q ", false: ""}[c.tower], a1.Name)
			}
		}
		fmt.Fprintf(&b, "end GV.Gen.PointCodec.%s\n", ln)
		writeFile("PointCodec/"+ln+".lean", b.String())
	}
}
