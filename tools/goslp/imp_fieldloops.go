// imp_fieldloops.go — sub-pass "FieldLoops" of the imperative mode: the data-dependent LOOPS of the 23 field packages
// (`BatchInvert` of element.go; and the wrapper `(*Element).Legendre`, see flLegendre below), statement by statement, over an ABSTRACT element type F and an ABSTRACT bit-set type B
// → Gen/Imp/FieldLoops.lean (C01; theorems in Props/C01_loops_gen.lean).
//
// ONE Lean file for the 23 packages: every package is translated, and the pass is FATAL unless the 23 translations are the same text
// (the text carries no package name and no line number), so the definitions of Gen/Imp/FieldLoops.lean are those of every package.
//
// Value vocabulary (Model/GoImp.lean, Model/GoImpSlice.lean): `int` = Int (overflow not modelled); `Element` = F; `[]Element` = List F BY VALUE;
// `*bitset.BitSet` = B. PARAMETERS of every generated def (flParams): `zero` (zero value of Element: what `make` fills in), `one` (`One()`:
// CHECKED to be `var one Element; one.SetOne(); return one`), `mul` (`z.Mul(x, y)`), `inv` (`z.Inverse(x)`), `isZero` (`x.IsZero()`),
// `bsNew` (`bitset.New(uint(n))`), `bsSet` (`b.Set(uint(i))`, the receiver after the call), `bsTest` (`b.Test(uint(i))`).
//
// CHECKED here (fatal otherwise):
//   - every statement / expression is in the subset below; no variable is declared twice in a function;
//   - the slice parameter is only READ (`a[i]`, `&a[i]` as an argument of Mul, `len(a)`); the only slice written is a local bound ONCE to
//     `make([]Element, len(..))` (fresh memory, so it aliases nothing); a bit set is a local bound once to `bitset.New(..)`;
//   - `x.Mul(&y, &z)` / `x.Inverse(&y)`: statement position, x an element local or `res[i]` of the make-local; every `Mul` / `Inverse` argument
//     is read before the receiver is written (value semantics of the gnark-crypto field methods: assumed, they are C01's limb subject);
//   - `uint(e)` only for `e = len(..)` or `e` = the counter of the enclosing loop, which is ≥ 0 inside the body of both loop forms
//     (so the conversion is the identity on a 64-bit platform);
//   - loops are `for i := 0; i < len(x); i++` (fuel (len x - 0).toNat) or `for i := len(x) - 1; i >= 0; i--` (fuel (i + 1 - 0).toNat);
//     the body never assigns i; `continue` only as the last statement of an `if` block directly in the loop body.
//
// Not modelled: panics of out-of-range accesses (a read yields `zero`, a write does nothing, as in Model/GoImp.lean), integer overflow.
package main

import (
	"bytes"
	"fmt"
	"go/ast"
	"go/parser"
	"go/printer"
	"go/token"
	"os"
	"path/filepath"
	"strings"
)

const flParams = " {F B : Type} (zero one : F) (mul : F → F → F) (inv : F → F) (isZero : F → Bool) (bsNew : Int → B) (bsSet : B → Int → B) (bsTest : B → Int → Bool)"
const flArgs = " zero one mul inv isZero bsNew bsSet bsTest"

var flReserved = map[string]bool{"zero": true, "one": true, "mul": true, "inv": true, "isZero": true, "bsNew": true, "bsSet": true, "bsTest": true,
	"F": true, "B": true, "fuel_": true, "len": true, "idxD": true, "setAt": true}

var flFuncs = []string{"BatchInvert"} // + the method Legendre (flLegendre)

const flOneText = "func One() Element { var one Element one.SetOne() return one }"

// flSrc prints a node on one line (whitespace normalised)
func flSrc(fset *token.FileSet, n ast.Node) string {
	var b bytes.Buffer
	printer.Fprint(&b, fset, n)
	return strings.Join(strings.Fields(b.String()), " ")
}

type flVar struct{ name, kind string } // kind: elem list bits int

type flFn struct {
	fset   *token.FileSet
	dir    string
	name   string
	vars   []flVar // in declaration order (parameters first)
	params map[string]bool
	made   map[string]bool // slice locals bound to make
	nloop  int
	defs   []string
}

func (f *flFn) die(n ast.Node, format string, a ...any) {
	pos := ""
	if n != nil {
		p := f.fset.Position(n.Pos())
		pos = fmt.Sprintf("%s:%d: ", p.Filename, p.Line)
	}
	die("imp/fieldloops %s: %s%s", f.dir, pos, fmt.Sprintf(format, a...))
}

func (f *flFn) kind(name string) string {
	for _, v := range f.vars {
		if v.name == name {
			return v.kind
		}
	}
	return ""
}

func (f *flFn) declare(n ast.Node, name, kind string) {
	if flReserved[name] || f.kind(name) != "" {
		f.die(n, "variable %s declared twice or reserved", name)
	}
	f.vars = append(f.vars, flVar{name, kind})
}

func flLeanTy(k string) string {
	switch k {
	case "elem":
		return "F"
	case "list":
		return "List F"
	case "bits":
		return "B"
	case "int":
		return "Int"
	}
	die("imp/fieldloops: no Lean type for kind %q", k)
	return ""
}

type flLoopCtx struct {
	counter string
	cont    string // text that ends one iteration
}

func flParen(s string) string {
	if strings.ContainsAny(s, " ") {
		return "(" + s + ")"
	}
	return s
}

// expr translates a VALUE expression; returns text and kind
func (f *flFn) expr(e ast.Expr, lc *flLoopCtx) (string, string) {
	switch v := e.(type) {
	case *ast.ParenExpr:
		return f.expr(v.X, lc)
	case *ast.BasicLit:
		if v.Kind == token.INT {
			return v.Value, "int"
		}
	case *ast.Ident:
		if k := f.kind(v.Name); k != "" {
			return v.Name, k
		}
	case *ast.BinaryExpr:
		xs, xk := f.expr(v.X, lc)
		ys, yk := f.expr(v.Y, lc)
		if xk == "int" && yk == "int" {
			switch v.Op {
			case token.ADD, token.SUB:
				return flParen(xs) + " " + v.Op.String() + " " + flParen(ys), "int"
			case token.LSS:
				return "decide (" + xs + " < " + ys + ")", "bool"
			case token.GEQ:
				return "decide (" + xs + " ≥ " + ys + ")", "bool"
			case token.EQL:
				return flParen(xs) + " == " + flParen(ys), "bool"
			}
		}
	case *ast.IndexExpr:
		xs, xk := f.expr(v.X, lc)
		is, ik := f.expr(v.Index, lc)
		if xk == "list" && ik == "int" {
			return "idxD zero " + flParen(xs) + " " + flParen(is), "elem"
		}
	case *ast.UnaryExpr:
		if v.Op == token.AND { // &x as an argument of a field method: the value of x at the call
			s, k := f.expr(v.X, lc)
			if k == "elem" {
				return s, "elemptr"
			}
		}
	case *ast.CallExpr:
		fn := exprText(v.Fun)
		switch {
		case fn == "len" && len(v.Args) == 1:
			s, k := f.expr(v.Args[0], lc)
			if k == "list" {
				return "len " + flParen(s), "int"
			}
		case fn == "uint" && len(v.Args) == 1:
			// identity where the argument is known to be ≥ 0: len(..), or the counter inside the loop body
			if c, ok := v.Args[0].(*ast.CallExpr); ok && exprText(c.Fun) == "len" {
				return f.expr(c, lc)
			}
			if id, ok := v.Args[0].(*ast.Ident); ok && lc != nil && id.Name == lc.counter {
				return id.Name, "int"
			}
			f.die(e, "uint(%s): only of len(..) or of the counter of the enclosing loop", exprText(v.Args[0]))
		case fn == "One" && len(v.Args) == 0:
			return "one", "elem"
		case fn == "bitset.New" && len(v.Args) == 1:
			s, k := f.expr(v.Args[0], lc)
			if k == "int" {
				return "bsNew " + flParen(s), "bits"
			}
		case fn == "make" && len(v.Args) == 2 && flSrc(f.fset, v.Args[0]) == "[]Element":
			s, k := f.expr(v.Args[1], lc)
			if k == "int" {
				return "List.replicate (" + s + ").toNat zero", "list"
			}
		default:
			if se, ok := v.Fun.(*ast.SelectorExpr); ok {
				rs, rk := f.expr(se.X, lc)
				switch {
				case se.Sel.Name == "IsZero" && len(v.Args) == 0 && rk == "elem":
					return "isZero " + flParen(rs), "bool"
				case se.Sel.Name == "Test" && len(v.Args) == 1 && rk == "bits":
					as, ak := f.expr(v.Args[0], lc)
					if ak == "int" {
						return "bsTest " + rs + " " + flParen(as), "bool"
					}
				}
			}
		}
	}
	f.die(e, "expression outside the subset: %s", exprText(e))
	return "", ""
}

// lvalue of an element: a local, or res[i] of a make-local; returns a function wrapping the new value into the binding text
func (f *flFn) elemLvalue(e ast.Expr, lc *flLoopCtx) (name string, bind func(val string) string) {
	switch v := e.(type) {
	case *ast.Ident:
		if f.kind(v.Name) == "elem" && !f.params[v.Name] {
			return v.Name, func(val string) string { return "let " + v.Name + " := " + val }
		}
	case *ast.IndexExpr:
		if id, ok := v.X.(*ast.Ident); ok && f.made[id.Name] {
			is, ik := f.expr(v.Index, lc)
			if ik == "int" {
				return id.Name, func(val string) string {
					return "let " + id.Name + " := setAt " + id.Name + " " + flParen(is) + " " + flParen(val)
				}
			}
		}
	}
	f.die(e, "written element %s is neither an element local nor an element of a make-local", exprText(e))
	return "", nil
}

// assigned lists the variables (declared before the node) written inside n
func (f *flFn) assigned(n ast.Node) map[string]bool {
	res := map[string]bool{}
	base := func(e ast.Expr) {
		for {
			switch v := e.(type) {
			case *ast.IndexExpr:
				e = v.X
				continue
			case *ast.Ident:
				res[v.Name] = true
			}
			return
		}
	}
	ast.Inspect(n, func(x ast.Node) bool {
		switch v := x.(type) {
		case *ast.AssignStmt:
			for _, l := range v.Lhs {
				base(l)
			}
		case *ast.IncDecStmt:
			base(v.X)
		case *ast.ExprStmt:
			if c, ok := v.X.(*ast.CallExpr); ok {
				if se, ok := c.Fun.(*ast.SelectorExpr); ok {
					base(se.X)
				}
			}
		}
		return true
	})
	return res
}

func (f *flFn) mentioned(n ast.Node) map[string]bool {
	res := map[string]bool{}
	ast.Inspect(n, func(x ast.Node) bool {
		if id, ok := x.(*ast.Ident); ok {
			res[id.Name] = true
		}
		return true
	})
	return res
}

// simple translates a non-control statement into one `let` line
func (f *flFn) simple(s ast.Stmt, lc *flLoopCtx) string {
	switch v := s.(type) {
	case *ast.AssignStmt:
		if len(v.Lhs) != 1 || len(v.Rhs) != 1 {
			break
		}
		if v.Tok == token.DEFINE {
			id, ok := v.Lhs[0].(*ast.Ident)
			if !ok {
				break
			}
			val, k := f.expr(v.Rhs[0], lc)
			if k != "elem" && k != "list" && k != "bits" && k != "int" {
				f.die(s, "definition of kind %s", k)
			}
			if lc != nil && k != "elem" && k != "int" {
				f.die(s, "make / bitset.New inside a loop")
			}
			f.declare(s, id.Name, k)
			if k == "list" {
				f.made[id.Name] = true
			}
			return "let " + id.Name + " := " + val
		}
		if v.Tok == token.ASSIGN {
			val, k := f.expr(v.Rhs[0], lc)
			if k != "elem" {
				break
			}
			_, bind := f.elemLvalue(v.Lhs[0], lc)
			return bind(val)
		}
	case *ast.ExprStmt:
		c, ok := v.X.(*ast.CallExpr)
		if !ok {
			break
		}
		se, ok := c.Fun.(*ast.SelectorExpr)
		if !ok {
			break
		}
		switch {
		case se.Sel.Name == "Set" && len(c.Args) == 1:
			id, ok := se.X.(*ast.Ident)
			if !ok || f.kind(id.Name) != "bits" {
				break
			}
			as, ak := f.expr(c.Args[0], lc)
			if ak != "int" {
				break
			}
			return "let " + id.Name + " := bsSet " + id.Name + " " + flParen(as)
		case (se.Sel.Name == "Mul" && len(c.Args) == 2) || (se.Sel.Name == "Inverse" && len(c.Args) == 1):
			var args []string
			for _, a := range c.Args {
				as, ak := f.expr(a, lc)
				if ak != "elemptr" {
					f.die(a, "argument of %s is not the address of an element", se.Sel.Name)
				}
				args = append(args, flParen(as))
			}
			_, bind := f.elemLvalue(se.X, lc)
			op := map[string]string{"Mul": "mul", "Inverse": "inv"}[se.Sel.Name]
			return bind(op + " " + strings.Join(args, " "))
		}
	}
	f.die(s, "statement outside the subset: %s", flSrc(f.fset, s))
	return ""
}

// seq translates a statement list; `end` gives the text that follows the last statement
func (f *flFn) seq(stmts []ast.Stmt, ind string, lc *flLoopCtx, end func(ind string) string) string {
	if len(stmts) == 0 {
		return end(ind)
	}
	s, rest := stmts[0], stmts[1:]
	switch v := s.(type) {
	case *ast.ReturnStmt:
		if lc != nil || len(v.Results) != 1 || len(rest) != 0 {
			f.die(s, "return inside a loop / not last in its block / not one result")
		}
		val, k := f.expr(v.Results[0], lc)
		if k != "list" {
			f.die(s, "result of kind %s", k)
		}
		return ind + val + "\n"
	case *ast.IfStmt:
		if v.Init != nil || v.Else != nil {
			f.die(s, "if with init / else")
		}
		c, ck := f.expr(v.Cond, lc)
		if ck != "bool" {
			f.die(s, "condition of kind %s", ck)
		}
		body := v.Body.List
		if len(body) == 0 {
			f.die(s, "empty if")
		}
		var inner string
		nv := len(f.vars)
		switch last := body[len(body)-1].(type) {
		case *ast.BranchStmt:
			if last.Tok != token.CONTINUE || last.Label != nil || lc == nil {
				f.die(last, "branch statement other than a plain continue in a loop body")
			}
			inner = f.seq(body[:len(body)-1], ind+"  ", lc, func(ind string) string { return ind + lc.cont + "\n" })
		case *ast.ReturnStmt:
			inner = f.seq(body, ind+"  ", lc, nil)
		default:
			f.die(s, "if block that ends neither in continue nor in return")
		}
		if len(f.vars) != nv {
			f.die(s, "declaration inside an if block")
		}
		return ind + "if " + c + " then\n" + inner + ind + "else\n" + f.seq(rest, ind, lc, end)
	case *ast.ForStmt:
		if lc != nil {
			f.die(s, "nested loop")
		}
		return f.loop(v, ind) + f.seq(rest, ind, lc, end)
	case *ast.BranchStmt:
		f.die(s, "continue / break outside the accepted position")
	}
	return ind + f.simple(s, lc) + "\n" + f.seq(rest, ind, lc, end)
}

func (f *flFn) loop(l *ast.ForStmt, ind string) string {
	bad := func() { f.die(l, "loop header outside the two accepted forms: %s", flSrc(f.fset, l)) }
	init, ok := l.Init.(*ast.AssignStmt)
	if !ok || init.Tok != token.DEFINE || len(init.Lhs) != 1 || len(init.Rhs) != 1 || l.Cond == nil || l.Post == nil {
		bad()
	}
	cid, ok := init.Lhs[0].(*ast.Ident)
	if !ok {
		bad()
	}
	post, ok := l.Post.(*ast.IncDecStmt)
	if !ok || exprText(post.X) != cid.Name {
		bad()
	}
	startS, sk := f.expr(init.Rhs[0], nil)
	if sk != "int" {
		bad()
	}
	f.declare(l, cid.Name, "int")
	cond, ok := l.Cond.(*ast.BinaryExpr)
	if !ok || exprText(cond.X) != cid.Name {
		bad()
	}
	var fuel, step string
	switch {
	case post.Tok == token.INC && cond.Op == token.LSS && exprText(init.Rhs[0]) == "0":
		c, ok := cond.Y.(*ast.CallExpr)
		if !ok || exprText(c.Fun) != "len" {
			bad()
		}
		bs, _ := f.expr(cond.Y, nil)
		fuel = "(" + bs + " - 0).toNat"
		step = cid.Name + " + 1"
	case post.Tok == token.DEC && cond.Op == token.GEQ && exprText(cond.Y) == "0":
		fuel = "(" + cid.Name + " + 1 - 0).toNat"
		step = cid.Name + " - 1"
	default:
		bad()
	}
	condS, _ := f.expr(l.Cond, nil)
	asg := f.assigned(l.Body)
	if asg[cid.Name] {
		f.die(l, "the loop body assigns the counter")
	}
	men := f.mentioned(l.Body)
	var state, fixed []flVar
	for _, v := range f.vars {
		if v.name == cid.Name {
			continue
		}
		if asg[v.name] {
			if f.params[v.name] {
				f.die(l, "the loop body writes the parameter %s", v.name)
			}
			state = append(state, v)
		} else if men[v.name] {
			fixed = append(fixed, v)
		}
	}
	state = append(state, flVar{cid.Name, "int"})
	f.nloop++
	lname := fmt.Sprintf("%s.loop%d", f.name, f.nloop)
	var fixedB, fixedA, stTy, stNames []string
	for _, v := range fixed {
		fixedB = append(fixedB, "("+v.name+" : "+flLeanTy(v.kind)+")")
		fixedA = append(fixedA, v.name)
	}
	for _, v := range state {
		stTy = append(stTy, flLeanTy(v.kind))
		stNames = append(stNames, v.name)
	}
	fa := ""
	if len(fixedA) > 0 {
		fa = " " + strings.Join(fixedA, " ")
	}
	fb := ""
	if len(fixedB) > 0 {
		fb = " " + strings.Join(fixedB, " ")
	}
	tuple := "(" + strings.Join(stNames, ", ") + ")"
	call := lname + flArgs + fa
	lc := &flLoopCtx{counter: cid.Name, cont: "let " + cid.Name + " := " + step + "; " + call + " fuel_ " + strings.Join(stNames, " ")}
	nv := len(f.vars)
	body := f.seq(l.Body.List, "      ", lc, func(ind string) string { return ind + lc.cont + "\n" })
	if len(f.vars) != nv {
		f.die(l, "declaration inside a loop body")
	}
	var d strings.Builder
	fmt.Fprintf(&d, "/-- %s: `%s { … }`; the first explicit argument bounds the number of iterations -/\n", f.name, strings.TrimSpace(strings.SplitN(flSrc(f.fset, l), "{", 2)[0]))
	fmt.Fprintf(&d, "def %s%s%s : Nat → %s → %s\n", lname, flParams, fb, strings.Join(stTy, " → "), strings.Join(stTy, " × "))
	fmt.Fprintf(&d, "  | 0, %s => %s\n", strings.Join(stNames, ", "), tuple)
	fmt.Fprintf(&d, "  | fuel_ + 1, %s =>\n", strings.Join(stNames, ", "))
	fmt.Fprintf(&d, "    if %s then\n%s    else\n    %s\n", condS, body, tuple)
	f.defs = append(f.defs, d.String())
	// the counter goes out of scope after the loop (Go scoping of the for clause): its final value is bound and never read
	f.vars = f.vars[:nv-1]
	return ind + "let " + cid.Name + " := " + startS + "\n" + ind + "let " + tuple + " := " + call + " " + fuel + " " + strings.Join(stNames, " ") + "\n"
}

func flTranslate(dir string) string {
	fset := token.NewFileSet()
	path := filepath.Join(repo, dir, "element.go")
	file, err := parser.ParseFile(fset, path, nil, 0)
	if err != nil {
		die("imp/fieldloops %s: %v", dir, err)
	}
	decls := map[string]*ast.FuncDecl{}
	for _, d := range file.Decls {
		if fd, ok := d.(*ast.FuncDecl); ok && fd.Recv == nil {
			decls[fd.Name.Name] = fd
		}
	}
	one := decls["One"]
	if one == nil || flSrc(fset, one) != flOneText {
		die("imp/fieldloops %s: One() is not `%s`", dir, flOneText)
	}
	var out strings.Builder
	for _, name := range flFuncs {
		fd := decls[name]
		if fd == nil || fd.Body == nil {
			die("imp/fieldloops %s: func %s not found", dir, name)
		}
		f := &flFn{fset: fset, dir: dir, name: name, params: map[string]bool{}, made: map[string]bool{}}
		var binders []string
		for _, fl := range fd.Type.Params.List {
			if flSrc(fset, fl.Type) != "[]Element" {
				f.die(fl, "parameter type %s", flSrc(fset, fl.Type))
			}
			for _, n := range fl.Names {
				f.declare(fl, n.Name, "list")
				f.params[n.Name] = true
				binders = append(binders, "("+n.Name+" : List F)")
			}
		}
		if fd.Type.Results == nil || len(fd.Type.Results.List) != 1 || len(fd.Type.Results.List[0].Names) != 0 || flSrc(fset, fd.Type.Results.List[0].Type) != "[]Element" {
			f.die(fd, "result list is not one unnamed []Element")
		}
		for p := range f.assigned(fd.Body) {
			if f.params[p] {
				f.die(fd, "the slice parameter %s is written", p)
			}
		}
		body := f.seq(fd.Body.List, "  ", nil, func(string) string { f.die(fd, "function body does not end in a return"); return "" })
		for _, d := range f.defs {
			out.WriteString(d + "\n")
		}
		fmt.Fprintf(&out, "/-- element.go: `func %s` -/\ndef %s%s %s : List F :=\n%s\n", name, name, flParams, strings.Join(binders, " "), body)
	}
	out.WriteString(flLegendre(fset, file, dir))
	return out.String()
}

// `(*Element).Legendre`: parameters `zero`, `isZero`, `isOne` (`x.IsOne()`), `legendreExp` = the exponentiation to (q-1)/2, which the
// packages write either `l.expByLegendreExp(*z)` (addition chain: C01_chains pins its exponent per package) or
// `l.Exp(*z, _bLegendreExponentElement)` (C01_expgen is the theorem about Exp; the value of the package variable is ASSUMED);
// both spellings give the same Lean text. Statements accepted: `var l Element`, that call on a declared local with argument `*z`
// (z the receiver, never written), `if l.IsZero() / l.IsOne() { return <int literal> }`, a final `return <int literal>`.
const flLegParams = " {F : Type} (zero : F) (isZero isOne : F → Bool) (legendreExp : F → F)"

func flLegendre(fset *token.FileSet, file *ast.File, dir string) string {
	var fd *ast.FuncDecl
	for _, d := range file.Decls {
		if x, ok := d.(*ast.FuncDecl); ok && x.Name.Name == "Legendre" && x.Recv != nil && x.Body != nil {
			fd = x
		}
	}
	bad := func(n ast.Node, msg string) {
		pos := ""
		if n != nil {
			pos = fset.Position(n.Pos()).String() + ": " + flSrc(fset, n) + ": "
		}
		die("imp/fieldloops %s: Legendre: %s%s", dir, pos, msg)
	}
	if fd == nil {
		bad(nil, "method not found")
	}
	if len(fd.Recv.List) != 1 || len(fd.Recv.List[0].Names) != 1 || flSrc(fset, fd.Recv.List[0].Type) != "*Element" || len(fd.Type.Params.List) != 0 ||
		fd.Type.Results == nil || len(fd.Type.Results.List) != 1 || flSrc(fset, fd.Type.Results.List[0].Type) != "int" {
		bad(fd.Type, "signature is not func (z *Element) Legendre() int")
	}
	recv := fd.Recv.List[0].Names[0].Name
	locals := map[string]bool{}
	intLit := func(e ast.Expr) string {
		t := flSrc(fset, e)
		if t == "0" || t == "1" || t == "-1" {
			return t
		}
		bad(e, "result is not one of the literals 0, 1, -1")
		return ""
	}
	var seq func(stmts []ast.Stmt, ind string) string
	seq = func(stmts []ast.Stmt, ind string) string {
		if len(stmts) == 0 {
			bad(fd, "a block does not end in a return")
		}
		s, rest := stmts[0], stmts[1:]
		switch v := s.(type) {
		case *ast.DeclStmt:
			if t := flSrc(fset, v); strings.HasPrefix(t, "var ") && strings.HasSuffix(t, " Element") && len(strings.Fields(t)) == 3 {
				n := strings.Fields(t)[1]
				if locals[n] || n == recv || flReserved[n] || n == "isOne" || n == "legendreExp" {
					bad(s, "variable declared twice or reserved")
				}
				locals[n] = true
				return ind + "let " + n + " := zero\n" + seq(rest, ind)
			}
		case *ast.ExprStmt:
			t := flSrc(fset, v.X)
			for l := range locals {
				if t == l+".expByLegendreExp(*"+recv+")" || t == l+".Exp(*"+recv+", _bLegendreExponentElement)" {
					return ind + "let " + l + " := legendreExp " + recv + "\n" + seq(rest, ind)
				}
			}
		case *ast.IfStmt:
			if v.Init == nil && v.Else == nil && len(v.Body.List) == 1 {
				if r, ok := v.Body.List[0].(*ast.ReturnStmt); ok && len(r.Results) == 1 {
					c := flSrc(fset, v.Cond)
					for l := range locals {
						if c == l+".IsZero()" {
							return ind + "if isZero " + l + " then\n" + ind + "  " + intLit(r.Results[0]) + "\n" + ind + "else\n" + seq(rest, ind)
						}
						if c == l+".IsOne()" {
							return ind + "if isOne " + l + " then\n" + ind + "  " + intLit(r.Results[0]) + "\n" + ind + "else\n" + seq(rest, ind)
						}
					}
				}
			}
		case *ast.ReturnStmt:
			if len(v.Results) == 1 && len(rest) == 0 {
				return ind + intLit(v.Results[0]) + "\n"
			}
		}
		bad(s, "statement outside the subset")
		return ""
	}
	body := seq(fd.Body.List, "  ")
	return "/-- element.go: `func (" + recv + " *Element) Legendre` -/\ndef Legendre" + flLegParams + " (" + recv + " : F) : Int :=\n" + body + "\n"
}

// The POST-CHECK of `(*Element).Inverse` (the packages whose Inverse is Pornin's optimized binary GCD: those that declare `inverseExp`):
// the statements AFTER the last loop of the method, statement by statement — each must be, literally, the Go statement on the left of the
// table below (any other text is fatal) — as a function of `x` and of `v`, the value the (untranslated) loops left in `v`:
// Gen/Imp/InverseTail.lean (one text for all those packages). CHECKED: the tail reads `u` and `z` only after assigning them
// (by construction of the table: `u.Set(x)`, `z.Mul(..)` come first), so of the loop state only `v` reaches it. PARAMETERS: mul, isZero,
// isOne, `corr` (the composite literal of the inversionCorrectionFactorWord constants: its value is irrelevant for the theorem),
// `inverseExp` (the method of that name).
var flInvTail = [][2]string{
	{"u.Set(x)", "let u := x"},
	{"z.Mul(&v, &Element{ @CORR@ })", "let z := mul v corr"},
	{"v.Mul(&u, z)", "let v := mul u z"},
	{"if !v.IsOne() && !u.IsZero() { return z.inverseExp(u) }", "if (!isOne v) && (!isZero u) then\n    inverseExp u\n  else"},
	{"return z", "z"},
}

func flInverseTail(dir string) (string, bool) {
	fset := token.NewFileSet()
	file, err := parser.ParseFile(fset, filepath.Join(repo, dir, "element.go"), nil, 0)
	if err != nil {
		die("imp/fieldloops %s: %v", dir, err)
	}
	var inv *ast.FuncDecl
	hasExp := false
	for _, d := range file.Decls {
		if x, ok := d.(*ast.FuncDecl); ok && x.Recv != nil && x.Body != nil {
			if x.Name.Name == "Inverse" {
				inv = x
			}
			if x.Name.Name == "inverseExp" {
				hasExp = true
			}
		}
	}
	if !hasExp {
		return "", false
	}
	if inv == nil || flSrc(fset, inv.Type) != "func(x *Element) *Element" || flSrc(fset, inv.Recv.List[0].Type) != "*Element" || len(inv.Recv.List[0].Names) != 1 || inv.Recv.List[0].Names[0].Name != "z" {
		die("imp/fieldloops %s: inverseExp is declared but Inverse is not func (z *Element) Inverse(x *Element) *Element", dir)
	}
	last := -1
	for i, st := range inv.Body.List {
		ast.Inspect(st, func(n ast.Node) bool {
			switch n.(type) {
			case *ast.ForStmt, *ast.RangeStmt, *ast.BranchStmt, *ast.FuncLit:
				last = i
			}
			return true
		})
	}
	tail := inv.Body.List[last+1:]
	if last < 0 || len(tail) != len(flInvTail) {
		die("imp/fieldloops %s: Inverse: %d statements after the last loop, expected %d", dir, len(tail), len(flInvTail))
	}
	var b strings.Builder
	b.WriteString("/-- the statements of `(*Element).Inverse` after its last loop; `v` = the value the untranslated loops left in `v` -/\n")
	b.WriteString("def Inverse.tail {F : Type} (mul : F → F → F) (isZero isOne : F → Bool) (corr : F) (inverseExp : F → F) (x v : F) : F :=\n")
	for i, st := range tail {
		want := strings.Replace(flInvTail[i][0], "@CORR@", "inversionCorrectionFactorWord0, inversionCorrectionFactorWord1", 1)
		got := flSrc(fset, st)
		if i == 1 { // the literal lists the correction words 0..n-1 in order, and nothing else
			if !strings.HasPrefix(got, "z.Mul(&v, &Element{ ") || !strings.HasSuffix(got, ", })") {
				die("imp/fieldloops %s: Inverse: statement %q is not z.Mul(&v, &Element{ correction words })", dir, got)
			}
			ws := strings.Split(strings.TrimSuffix(strings.TrimPrefix(got, "z.Mul(&v, &Element{ "), ", })"), ", ")
			for j, w := range ws {
				if w != fmt.Sprintf("inversionCorrectionFactorWord%d", j) {
					die("imp/fieldloops %s: Inverse: word %d of the correction factor is %q", dir, j, w)
				}
			}
		} else if got != want {
			die("imp/fieldloops %s: Inverse: statement %d after the last loop is %q, expected %q", dir, i+1, got, want)
		}
		b.WriteString("  " + flInvTail[i][1] + "\n")
	}
	return b.String(), true
}

func runInverseTail() {
	outName := "Imp/InverseTail.lean"
	dieHook = func() { os.Remove(filepath.Join(outDir, outName)) }
	var ref string
	var dirs, without []string
	for _, d := range fieldDirs {
		t, ok := flInverseTail(d)
		if !ok {
			without = append(without, d)
			continue
		}
		if len(dirs) > 0 && t != ref {
			die("imp/fieldloops: the Inverse tail of %s differs from the one of %s", d, dirs[0])
		}
		ref = t
		dirs = append(dirs, d)
	}
	if len(dirs) == 0 {
		die("imp/fieldloops: no field package declares inverseExp")
	}
	var b strings.Builder
	b.WriteString("/- GENERATED by tools/goslp (imp_fieldloops.go) on every run. DO NOT EDIT.\n")
	fmt.Fprintf(&b, "   The statements after the last loop of (*Element).Inverse of /repo/{%s}\n   (the packages that declare inverseExp; same text checked). Without inverseExp (another Inverse, not covered): %s. -/\n", strings.Join(dirs, ", "), strings.Join(without, ", "))
	b.WriteString("set_option linter.unusedVariables false\n\nnamespace GV.Gen.Imp.InverseTail\n\n")
	b.WriteString(ref)
	b.WriteString("\nend GV.Gen.Imp.InverseTail\n")
	writeFile(outName, b.String())
	dieHook = nil
}

func runFieldLoops() {
	outName := "Imp/FieldLoops.lean"
	dieHook = func() { os.Remove(filepath.Join(outDir, outName)) }
	var ref string
	for i, d := range fieldDirs {
		t := flTranslate(d)
		if i == 0 {
			ref = t
		} else if t != ref {
			die("imp/fieldloops: the translation of %s differs from the one of %s (the %d field packages must translate to the same text)", d, fieldDirs[0], len(fieldDirs))
		}
	}
	var b strings.Builder
	b.WriteString("/- GENERATED by tools/goslp (imp_fieldloops.go) on every run. DO NOT EDIT.\n")
	fmt.Fprintf(&b, "   Statement-by-statement translation of %s (element.go) of\n   /repo/{%s}; the translator checked that the %d packages give this same text.\n", strings.Join(flFuncs, " / ")+" / (*Element).Legendre", strings.Join(fieldDirs, ", "), len(fieldDirs))
	b.WriteString("   Vocabulary: Model/GoImp.lean, Model/GoImpSlice.lean; parameters and checked side conditions: header of tools/goslp/imp_fieldloops.go. -/\n")
	b.WriteString("import GnarkVerif.Model.GoImpSlice\n\nset_option linter.unusedVariables false\n\nnamespace GV.Gen.Imp.FieldLoops\nopen GV.GoImp\n\n")
	b.WriteString(ref)
	b.WriteString("end GV.Gen.Imp.FieldLoops\n")
	writeFile(outName, b.String())
	dieHook = nil
}
