// Part 6 (proto.go): the goroutine / channel PROTOCOL SKELETON of the multi-exponentiation -> Gen/MSMProto.lean.
//
// For every curve package with a multiexp.go: the functions _innerMsm*, msmReduceChunk* (multiexp.go), processChunk*Jacobian
// (multiexp_jacobian.go) and processChunk*BatchAffine (multiexp_affine.go) are walked with go/ast and the ORDERED list of
// their concurrency-relevant statements is emitted as a term of GV.MSMProto.Sk (Model/MSMProto.lean): channel receive, send,
// close, make(chan T, cap), go f(...), go func(){...}(...), defer, the `if` / `for` statements around them, return, calls of
// functions that have a skeleton themselves. All computation between these statements is dropped (that abstraction is the
// trusted part). Anything concurrency-relevant the pass does not understand - select, sync / atomic, range over a channel, a
// channel operation inside an expression or inside an unexpected construct, a goroutine whose function cannot be resolved -
// makes gvgoslp exit non-zero. The pass also checks that the chunk processors are referenced only by getChunkProcessor* and
// that getChunkProcessor* is called only by _innerMsm*.
package main

import (
	"fmt"
	"go/ast"
	"go/parser"
	"go/token"
	"go/types"
	"os"
	"path/filepath"
	"sort"
	"strconv"
	"strings"
)

type protoPkg struct {
	dir, name string
	fset      *token.FileSet
	funcs     map[string]*ast.FuncDecl // all top-level functions (no receiver) of the three multiexp files
	skel      map[string]bool          // functions that get a skeleton
}

type protoFn struct {
	p      *protoPkg
	name   string
	chans  map[string]bool     // identifiers of channel (or slice-of-channel) type in scope
	vars   map[string][]string // function-valued local variable -> provider functions it was assigned from
	rename map[string]string   // parameter -> argument inside a goroutine literal
}

func (f *protoFn) die(n ast.Node, msg string, a ...any) {
	die("proto: %s: %s: %s", f.p.fset.Position(n.Pos()), f.name, fmt.Sprintf(msg, a...))
}

func lq(s string) string { return strconv.Quote(s) }

func lstrs(xs []string) string {
	q := make([]string, len(xs))
	for i, x := range xs {
		q[i] = lq(x)
	}
	return "[" + strings.Join(q, ", ") + "]"
}

func isChanType(e ast.Expr) bool {
	switch t := e.(type) {
	case *ast.ChanType:
		return true
	case *ast.ArrayType:
		return isChanType(t.Elt)
	case *ast.ParenExpr:
		return isChanType(t.X)
	}
	return false
}

// isConcNode: a node that is concurrency-relevant by itself
func (f *protoFn) isConcNode(n ast.Node) bool {
	switch v := n.(type) {
	case *ast.SendStmt, *ast.GoStmt, *ast.SelectStmt, *ast.CommClause:
		return true
	case *ast.UnaryExpr:
		return v.Op == token.ARROW
	case *ast.RangeStmt:
		return f.chanRooted(v.X)
	case *ast.CallExpr:
		if id, ok := v.Fun.(*ast.Ident); ok {
			if id.Name == "close" {
				return true
			}
			if id.Name == "make" && len(v.Args) > 0 && isChanTypeStrict(v.Args[0]) {
				return true
			}
			if f.p.skel[id.Name] {
				return true
			}
		}
	case *ast.SelectorExpr:
		if id, ok := v.X.(*ast.Ident); ok && (id.Name == "sync" || id.Name == "atomic" || id.Name == "errgroup" || id.Name == "semaphore") {
			return true
		}
	}
	return false
}

func isChanTypeStrict(e ast.Expr) bool { _, ok := e.(*ast.ChanType); return ok }

func (f *protoFn) hasConc(n ast.Node) bool {
	if n == nil {
		return false
	}
	found := false
	ast.Inspect(n, func(x ast.Node) bool {
		if x == nil || found {
			return false
		}
		if f.isConcNode(x) {
			found = true
			return false
		}
		if d, ok := x.(*ast.DeferStmt); ok && f.hasConc(d.Call) {
			found = true
			return false
		}
		return true
	})
	return found
}

func (f *protoFn) chanRooted(e ast.Expr) bool {
	switch v := e.(type) {
	case *ast.Ident:
		return f.chans[v.Name]
	case *ast.IndexExpr:
		return f.chanRooted(v.X)
	case *ast.SliceExpr:
		return f.chanRooted(v.X)
	case *ast.ParenExpr:
		return f.chanRooted(v.X)
	}
	return false
}

// chanText: canonical text of a channel expression, goroutine-literal parameters replaced by their arguments
func (f *protoFn) chanText(e ast.Expr) string {
	if !f.chanRooted(e) {
		f.die(e, "channel expression %s is not rooted at a known channel variable", types.ExprString(e))
	}
	return f.exprText(e)
}

func (f *protoFn) exprText(e ast.Expr) string {
	switch v := e.(type) {
	case *ast.Ident:
		if r, ok := f.rename[v.Name]; ok {
			return r
		}
		return v.Name
	case *ast.IndexExpr:
		return f.exprText(v.X) + "[" + f.exprText(v.Index) + "]"
	case *ast.SliceExpr:
		if v.Low == nil && v.High == nil && v.Max == nil {
			return f.exprText(v.X)
		}
	}
	return types.ExprString(e)
}

// capacity expression: literal, or a sum of config.NbTasks / nbChunks / literals (conversions int(...) dropped)
func parseCap(e ast.Expr) string {
	a, b, c, ok := linCap(e)
	if !ok {
		return ".text"
	}
	if a == 0 && b == 0 {
		return fmt.Sprintf("(.lit %d)", c)
	}
	return fmt.Sprintf("(.lin %d %d %d)", a, b, c)
}

func linCap(e ast.Expr) (a, b, c int, ok bool) {
	switch v := e.(type) {
	case *ast.ParenExpr:
		return linCap(v.X)
	case *ast.BasicLit:
		if v.Kind == token.INT {
			n, err := strconv.Atoi(v.Value)
			if err == nil && n >= 0 {
				return 0, 0, n, true
			}
		}
	case *ast.Ident:
		if v.Name == "nbChunks" {
			return 0, 1, 0, true
		}
	case *ast.SelectorExpr:
		if id, ok := v.X.(*ast.Ident); ok && id.Name == "config" && v.Sel.Name == "NbTasks" {
			return 1, 0, 0, true
		}
	case *ast.CallExpr:
		if id, ok := v.Fun.(*ast.Ident); ok && (id.Name == "int" || id.Name == "uint64" || id.Name == "uint") && len(v.Args) == 1 {
			return linCap(v.Args[0])
		}
	case *ast.BinaryExpr:
		if v.Op == token.ADD {
			a1, b1, c1, ok1 := linCap(v.X)
			a2, b2, c2, ok2 := linCap(v.Y)
			if ok1 && ok2 {
				return a1 + a2, b1 + b2, c1 + c2, true
			}
		}
	}
	return 0, 0, 0, false
}

func (f *protoFn) makeChan(lhs ast.Expr, call *ast.CallExpr) string {
	if len(call.Args) != 2 {
		f.die(call, "make(chan) without a capacity (unbuffered channels are not modelled)")
	}
	return fmt.Sprintf("(.make %s %s %s)", lq(f.exprText(lhs)), parseCap(call.Args[1]), lq(types.ExprString(call.Args[1])))
}

func isMakeChan(e ast.Expr) *ast.CallExpr {
	if c, ok := e.(*ast.CallExpr); ok {
		if id, ok := c.Fun.(*ast.Ident); ok && id.Name == "make" && len(c.Args) > 0 && isChanTypeStrict(c.Args[0]) {
			return c
		}
	}
	return nil
}

func isRecv(e ast.Expr) *ast.UnaryExpr {
	if p, ok := e.(*ast.ParenExpr); ok {
		return isRecv(p.X)
	}
	if u, ok := e.(*ast.UnaryExpr); ok && u.Op == token.ARROW {
		return u
	}
	return nil
}

// callee names a `go f(...)` / function value can denote
func (f *protoFn) calleesOf(fun ast.Expr) []string {
	switch v := fun.(type) {
	case *ast.Ident:
		if provs, ok := f.vars[v.Name]; ok {
			set := map[string]bool{}
			for _, pr := range provs {
				for _, t := range f.p.providerTargets(pr) {
					set[t] = true
				}
			}
			var out []string
			for k := range set {
				out = append(out, k)
			}
			sort.Strings(out)
			return out
		}
		if f.p.skel[v.Name] {
			return []string{v.Name}
		}
	case *ast.IndexExpr:
		return f.calleesOf(v.X)
	case *ast.IndexListExpr:
		return f.calleesOf(v.X)
	}
	f.die(fun, "goroutine function %s cannot be resolved to functions with a skeleton", types.ExprString(fun))
	return nil
}

// providerTargets: a function all of whose return statements return (instantiations of) functions with a skeleton
func (p *protoPkg) providerTargets(name string) []string {
	fd, ok := p.funcs[name]
	if !ok || fd.Body == nil {
		die("proto: %s: function-valued variable assigned from %s, which is not a function of the package's multiexp files", p.dir, name)
	}
	set := map[string]bool{}
	ast.Inspect(fd.Body, func(n ast.Node) bool {
		if _, ok := n.(*ast.FuncLit); ok {
			die("proto: %s: %s contains a function literal", p.dir, name)
		}
		r, ok := n.(*ast.ReturnStmt)
		if !ok {
			return true
		}
		if len(r.Results) != 1 {
			die("proto: %s: %s: return with %d results", p.dir, name, len(r.Results))
		}
		e := r.Results[0]
		for {
			if ie, ok := e.(*ast.IndexExpr); ok {
				e = ie.X
			} else if il, ok := e.(*ast.IndexListExpr); ok {
				e = il.X
			} else {
				break
			}
		}
		id, ok := e.(*ast.Ident)
		if !ok || !p.skel[id.Name] {
			die("proto: %s: %s returns %s, which has no skeleton", p.fset.Position(r.Pos()), name, types.ExprString(r.Results[0]))
		}
		set[id.Name] = true
		return true
	})
	var out []string
	for k := range set {
		out = append(out, k)
	}
	sort.Strings(out)
	if len(out) == 0 {
		die("proto: %s: %s returns nothing", p.dir, name)
	}
	return out
}

func (f *protoFn) chanArgs(call *ast.CallExpr) []string {
	var out []string
	for _, a := range call.Args {
		if f.chanRooted(a) {
			out = append(out, f.chanText(a))
		} else if f.hasConc(a) {
			f.die(a, "concurrency-relevant expression as call argument")
		}
	}
	return out
}

func endsWithJump(b *ast.BlockStmt) (string, bool) {
	if b == nil || len(b.List) == 0 {
		return "", false
	}
	switch v := b.List[len(b.List)-1].(type) {
	case *ast.BranchStmt:
		if v.Tok == token.CONTINUE && v.Label == nil {
			return "continue", true
		}
	case *ast.ReturnStmt:
		return "return", true
	}
	return "", false
}

func (f *protoFn) loopKind(s *ast.ForStmt) string {
	bad := func() string {
		f.die(s, "loop around concurrency-relevant statements is neither `for v := 0; v < B; v++` nor `for v := S; v >= 0; v--`")
		return ""
	}
	as, ok := s.Init.(*ast.AssignStmt)
	if !ok || as.Tok != token.DEFINE || len(as.Lhs) != 1 || len(as.Rhs) != 1 {
		return bad()
	}
	v, ok := as.Lhs[0].(*ast.Ident)
	if !ok {
		return bad()
	}
	cond, ok := s.Cond.(*ast.BinaryExpr)
	if !ok {
		return bad()
	}
	cv, ok := cond.X.(*ast.Ident)
	if !ok || cv.Name != v.Name {
		return bad()
	}
	inc, ok := s.Post.(*ast.IncDecStmt)
	if !ok {
		return bad()
	}
	iv, ok := inc.X.(*ast.Ident)
	if !ok || iv.Name != v.Name {
		return bad()
	}
	if f.hasConc(as.Rhs[0]) || f.hasConc(cond.Y) {
		return bad()
	}
	zero := func(e ast.Expr) bool { b, ok := e.(*ast.BasicLit); return ok && b.Value == "0" }
	switch {
	case inc.Tok == token.INC && cond.Op == token.LSS && zero(as.Rhs[0]):
		return fmt.Sprintf("(.up %s)", lq(types.ExprString(cond.Y)))
	case inc.Tok == token.DEC && cond.Op == token.GEQ && zero(cond.Y):
		return fmt.Sprintf("(.down %s)", lq(types.ExprString(as.Rhs[0])))
	}
	return bad()
}

// stmts: skeleton of a statement list; inLoop: `continue` ends the list; top: `return` allowed as last statement
func (f *protoFn) stmts(list []ast.Stmt, inLoop bool) string {
	if len(list) == 0 {
		return ".nil"
	}
	s, rest := list[0], list[1:]
	cont := func() string { return f.stmts(rest, inLoop) }
	op := func(o string) string { return fmt.Sprintf("(.op %s %s)", o, cont()) }
	switch s.(type) {
	case *ast.IfStmt, *ast.ForStmt, *ast.RangeStmt, *ast.SwitchStmt, *ast.TypeSwitchStmt, *ast.BlockStmt, *ast.LabeledStmt:
		if !f.hasConc(s) {
			if escapes(s) && f.hasConcList(rest) {
				f.die(s, "return / continue / break / goto leaves a pure %T before concurrency-relevant statements", s)
			}
			return cont()
		}
	}
	switch v := s.(type) {
	case *ast.ExprStmt:
		if u := isRecv(v.X); u != nil {
			return op(fmt.Sprintf("(.recv %s)", lq(f.chanText(u.X))))
		}
		if c, ok := v.X.(*ast.CallExpr); ok {
			if id, ok := c.Fun.(*ast.Ident); ok {
				if id.Name == "close" && len(c.Args) == 1 {
					return op(fmt.Sprintf("(.close %s)", lq(f.chanText(c.Args[0]))))
				}
				if f.p.skel[id.Name] {
					return op(fmt.Sprintf("(.call %s %s)", lq(id.Name), lstrs(f.chanArgs(c))))
				}
			}
		}
		if f.hasConc(v.X) {
			f.die(v, "channel operation inside an expression statement")
		}
		return cont()
	case *ast.SendStmt:
		if f.hasConc(v.Value) {
			f.die(v, "channel operation inside the sent value")
		}
		return op(fmt.Sprintf("(.send %s)", lq(f.chanText(v.Chan))))
	case *ast.AssignStmt:
		if len(v.Lhs) == 1 && len(v.Rhs) == 1 {
			if u := isRecv(v.Rhs[0]); u != nil {
				return op(fmt.Sprintf("(.recv %s)", lq(f.chanText(u.X))))
			}
			if c := isMakeChan(v.Rhs[0]); c != nil {
				if id, ok := v.Lhs[0].(*ast.Ident); ok {
					f.chans[id.Name] = true
				} else if !f.chanRooted(v.Lhs[0]) {
					f.die(v, "make(chan) assigned to %s", types.ExprString(v.Lhs[0]))
				}
				return op(f.makeChan(v.Lhs[0], c))
			}
			// slice of channels
			if c, ok := v.Rhs[0].(*ast.CallExpr); ok {
				if id, ok := c.Fun.(*ast.Ident); ok && id.Name == "make" && len(c.Args) > 0 && isChanType(c.Args[0]) {
					if lid, ok := v.Lhs[0].(*ast.Ident); ok {
						f.chans[lid.Name] = true
						return cont()
					}
				}
				if id, ok := c.Fun.(*ast.Ident); ok && strings.HasPrefix(id.Name, "getChunkProcessor") {
					return cont()
				}
			}
			if lid, ok := v.Lhs[0].(*ast.Ident); ok {
				if f.chans[lid.Name] {
					f.die(v, "channel variable %s re-assigned", lid.Name)
				}
			}
		}
		if f.hasConc(v) {
			f.die(v, "channel operation inside an assignment")
		}
		return cont()
	case *ast.DeclStmt:
		if gd, ok := v.Decl.(*ast.GenDecl); ok && gd.Tok == token.VAR {
			for _, sp := range gd.Specs {
				vs := sp.(*ast.ValueSpec)
				if vs.Type != nil && isChanType(vs.Type) && len(vs.Values) == 0 {
					for _, n := range vs.Names {
						f.chans[n.Name] = true
					}
				}
			}
		}
		if f.hasConc(v) {
			f.die(v, "channel operation inside a declaration")
		}
		return cont()
	case *ast.DeferStmt:
		if !f.hasConc(v.Call) {
			return cont()
		}
		var body string
		if fl, ok := v.Call.Fun.(*ast.FuncLit); ok {
			if len(v.Call.Args) != 0 || len(fl.Type.Params.List) != 0 {
				f.die(v, "deferred function literal with parameters")
			}
			body = f.stmts(fl.Body.List, false)
		} else {
			body = f.stmts([]ast.Stmt{&ast.ExprStmt{X: v.Call}}, false)
		}
		if inLoop {
			f.die(v, "defer inside a loop")
		}
		return fmt.Sprintf("(.deferS %s %s)", body, cont())
	case *ast.GoStmt:
		if fl, ok := v.Call.Fun.(*ast.FuncLit); ok {
			saved := f.rename
			f.rename = map[string]string{}
			for k, x := range saved {
				f.rename[k] = x
			}
			i := 0
			for _, fld := range fl.Type.Params.List {
				for _, n := range fld.Names {
					if i >= len(v.Call.Args) {
						f.die(v, "goroutine literal: argument count")
					}
					aid, ok := v.Call.Args[i].(*ast.Ident)
					if !ok {
						f.die(v, "goroutine literal argument %s is not an identifier", types.ExprString(v.Call.Args[i]))
					}
					f.rename[n.Name] = aid.Name
					if f.chans[aid.Name] {
						f.chans[n.Name] = true
					}
					i++
				}
			}
			body := f.stmts(fl.Body.List, false)
			f.rename = saved
			return fmt.Sprintf("(.goLit %s %s)", body, cont())
		}
		cs := f.calleesOf(v.Call.Fun)
		return op(fmt.Sprintf("(.go %s %s)", lstrs(cs), lstrs(f.chanArgs(v.Call))))
	case *ast.IfStmt:
		if v.Init != nil || f.hasConc(v.Cond) {
			f.die(v, "`if` with an init statement or a channel operation in its condition")
		}
		cond := fmt.Sprintf("(.other %s)", lq(types.ExprString(v.Cond)))
		if be, ok := v.Cond.(*ast.BinaryExpr); ok && be.Op == token.NEQ {
			if x, ok := be.X.(*ast.Ident); ok && x.Name == "sem" {
				if y, ok := be.Y.(*ast.Ident); ok && y.Name == "nil" {
					cond = ".semNonNil"
				}
			}
		}
		thenList := v.Body.List
		var elseList []ast.Stmt
		switch e := v.Else.(type) {
		case nil:
		case *ast.BlockStmt:
			elseList = e.List
		case *ast.IfStmt:
			elseList = []ast.Stmt{e}
		default:
			f.die(v, "else branch")
		}
		if kind, ok := endsWithJump(v.Body); ok {
			// `if c { A; continue }; B`  ==  `if c { A } else { B }` (same for a return that ends the function body)
			if v.Else != nil {
				f.die(v, "`if` ending in %s with an else branch", kind)
			}
			if kind == "continue" {
				if !inLoop {
					f.die(v, "continue outside a loop")
				}
				thenList = thenList[:len(thenList)-1]
			}
			return fmt.Sprintf("(.ifS %s %s %s .nil)", cond, f.stmts(thenList, inLoop), f.stmts(rest, inLoop))
		}
		return fmt.Sprintf("(.ifS %s %s %s %s)", cond, f.stmts(thenList, inLoop), f.stmts(elseList, inLoop), cont())
	case *ast.ForStmt:
		kind := f.loopKind(v)
		return fmt.Sprintf("(.forS %s %s %s)", kind, f.stmts(v.Body.List, true), cont())
	case *ast.ReturnStmt:
		if len(rest) != 0 {
			f.die(v, "return is not the last statement")
		}
		if inLoop {
			f.die(v, "return inside a loop that contains concurrency-relevant statements")
		}
		if len(v.Results) == 1 {
			if c, ok := v.Results[0].(*ast.CallExpr); ok {
				if id, ok := c.Fun.(*ast.Ident); ok && f.p.skel[id.Name] {
					return fmt.Sprintf("(.op (.call %s %s) (.op .ret .nil))", lq(id.Name), lstrs(f.chanArgs(c)))
				}
			}
		}
		for _, r := range v.Results {
			if f.hasConc(r) {
				f.die(v, "channel operation inside a return value")
			}
		}
		return "(.op .ret .nil)"
	case *ast.BranchStmt:
		if v.Tok == token.CONTINUE && v.Label == nil && inLoop && len(rest) == 0 {
			return ".nil"
		}
		f.die(v, "%s in a statement list with concurrency-relevant statements", v.Tok)
	case *ast.IncDecStmt, *ast.EmptyStmt:
		return cont()
	}
	if f.hasConc(s) {
		f.die(s, "concurrency-relevant statement inside %T", s)
	}
	if escapes(s) && f.hasConcList(rest) {
		f.die(s, "jump inside %T before concurrency-relevant statements", s)
	}
	return cont()
}

func (f *protoFn) hasConcList(l []ast.Stmt) bool {
	for _, s := range l {
		if f.hasConc(s) {
			return true
		}
	}
	return false
}

// escapes: control can leave the statement other than by falling through: a return / goto / labelled jump anywhere (outside
// function literals), or a break / continue that is not inside a loop / switch of the statement itself
func escapes(n ast.Node) bool {
	var walk func(x ast.Node, depthLoop, depthBrk int) bool
	walk = func(x ast.Node, dl, db int) bool {
		found := false
		ast.Inspect(x, func(y ast.Node) bool {
			if found || y == nil {
				return false
			}
			if y == x {
				return true
			}
			switch v := y.(type) {
			case *ast.FuncLit:
				return false
			case *ast.ReturnStmt:
				found = true
			case *ast.BranchStmt:
				if v.Label != nil || v.Tok == token.GOTO || v.Tok == token.FALLTHROUGH && false {
					found = true
				} else if v.Tok == token.CONTINUE && dl == 0 {
					found = true
				} else if v.Tok == token.BREAK && db == 0 {
					found = true
				}
			case *ast.ForStmt, *ast.RangeStmt:
				if walk(y, dl+1, db+1) {
					found = true
				}
				return false
			case *ast.SwitchStmt, *ast.TypeSwitchStmt, *ast.SelectStmt:
				if walk(y, dl, db+1) {
					found = true
				}
				return false
			}
			return !found
		})
		return found
	}
	switch n.(type) {
	case *ast.ForStmt, *ast.RangeStmt:
		return walk(n, 1, 1)
	case *ast.SwitchStmt, *ast.TypeSwitchStmt:
		return walk(n, 0, 1)
	case *ast.ReturnStmt:
		return true
	case *ast.BranchStmt:
		return true
	}
	return walk(n, 0, 0)
}

func (p *protoPkg) skeleton(name string) (string, []string) {
	fd := p.funcs[name]
	f := &protoFn{p: p, name: name, chans: map[string]bool{}, vars: map[string][]string{}, rename: map[string]string{}}
	var cps []string
	for _, fld := range fd.Type.Params.List {
		if isChanType(fld.Type) {
			for _, n := range fld.Names {
				f.chans[n.Name] = true
				cps = append(cps, n.Name)
			}
		}
	}
	// function-valued variables: every assignment to them must be a call of getChunkProcessor*
	isProv := func(e ast.Expr) (string, bool) {
		if c, ok := e.(*ast.CallExpr); ok {
			if id, ok := c.Fun.(*ast.Ident); ok && strings.HasPrefix(id.Name, "getChunkProcessor") {
				return id.Name, true
			}
		}
		return "", false
	}
	for pass := 0; pass < 2; pass++ {
		ast.Inspect(fd.Body, func(n ast.Node) bool {
			as, ok := n.(*ast.AssignStmt)
			if !ok {
				return true
			}
			for i, l := range as.Lhs {
				lid, ok := l.(*ast.Ident)
				if !ok {
					continue
				}
				var rhs ast.Expr
				if len(as.Rhs) == len(as.Lhs) {
					rhs = as.Rhs[i]
				}
				prov, isP := "", false
				if rhs != nil {
					prov, isP = isProv(rhs)
				}
				if pass == 0 && isP {
					f.vars[lid.Name] = append(f.vars[lid.Name], prov)
				}
				if pass == 1 && !isP {
					if _, tracked := f.vars[lid.Name]; tracked {
						f.die(as, "function-valued variable %s assigned from something else than getChunkProcessor*", lid.Name)
					}
				}
			}
			return true
		})
	}
	body := f.stmts(fd.Body.List, false)
	return body, cps
}

var protoPrefixes = []string{"_innerMsm", "msmReduceChunk", "processChunk"}

func runProto() {
	dirs, _ := filepath.Glob(filepath.Join(repo, "ecc", "*", "multiexp.go"))
	sort.Strings(dirs)
	if len(dirs) == 0 {
		die("proto: no ecc/*/multiexp.go under %s", repo)
	}
	var b strings.Builder
	b.WriteString("/- GENERATED by tools/goslp (proto.go) from /repo on every run. DO NOT EDIT.\n" +
		"The ordered skeleton of the concurrency-relevant statements (channel receive / send / close / make, go, defer, the\n" +
		"if / for statements around them, return, calls of functions with a skeleton) of _innerMsm*, msmReduceChunk*,\n" +
		"processChunk*Jacobian and processChunk*BatchAffine of every curve package that has a multiexp.go; all other\n" +
		"computation is dropped. Language: Model/MSMProto.lean; theorems: Props/C04_proto.lean. -/\n" +
		"import GnarkVerif.Model.MSMProto\n\nset_option maxRecDepth 100000\n\nnamespace GV.Gen.MSMProto\nopen GV.MSMProto\n\n")
	var pkgNames []string
	for _, mf := range dirs {
		dir := filepath.Dir(mf)
		p := &protoPkg{dir: "ecc/" + filepath.Base(dir), name: leanName("ecc/" + filepath.Base(dir)), fset: token.NewFileSet(),
			funcs: map[string]*ast.FuncDecl{}, skel: map[string]bool{}}
		owner := map[string]string{}
		for _, fn := range []string{"multiexp.go", "multiexp_jacobian.go", "multiexp_affine.go"} {
			path := filepath.Join(dir, fn)
			if _, err := os.Stat(path); err != nil {
				die("proto: %s: %s not found", p.dir, fn)
			}
			af, err := parser.ParseFile(p.fset, path, nil, 0)
			if err != nil {
				die("proto: parse %s: %v", path, err)
			}
			for _, d := range af.Decls {
				fd, ok := d.(*ast.FuncDecl)
				if !ok || fd.Recv != nil || fd.Body == nil {
					continue
				}
				p.funcs[fd.Name.Name] = fd
				owner[fd.Name.Name] = fn
				for _, pre := range protoPrefixes {
					if strings.HasPrefix(fd.Name.Name, pre) {
						p.skel[fd.Name.Name] = true
					}
				}
			}
		}
		// who may mention the chunk processors / their provider
		files, _ := filepath.Glob(filepath.Join(dir, "*.go"))
		for _, path := range files {
			if strings.HasSuffix(path, "_test.go") {
				continue
			}
			af, err := parser.ParseFile(p.fset, path, nil, 0)
			if err != nil {
				die("proto: parse %s: %v", path, err)
			}
			for _, d := range af.Decls {
				fd, ok := d.(*ast.FuncDecl)
				var where string
				if ok {
					where = fd.Name.Name
				}
				ast.Inspect(d, func(n ast.Node) bool {
					id, ok := n.(*ast.Ident)
					if !ok {
						return true
					}
					if fd != nil && id == fd.Name {
						return true
					}
					switch {
					case strings.HasPrefix(id.Name, "processChunk") && p.skel[id.Name]:
						if !strings.HasPrefix(where, "getChunkProcessor") || fd.Recv != nil {
							die("proto: %s: chunk processor %s referenced outside getChunkProcessor* (in %s)", p.fset.Position(id.Pos()), id.Name, where)
						}
					case strings.HasPrefix(id.Name, "getChunkProcessor") && p.funcs[id.Name] != nil:
						if !strings.HasPrefix(where, "_innerMsm") || fd.Recv != nil {
							die("proto: %s: %s referenced outside _innerMsm* (in %s)", p.fset.Position(id.Pos()), id.Name, where)
						}
					}
					return true
				})
			}
		}
		var names []string
		for n := range p.skel {
			names = append(names, n)
		}
		sort.Strings(names)
		fmt.Fprintf(&b, "/-! ### %s -/\nnamespace %s\n\n", p.dir, p.name)
		var ws, rs, ms []string
		for _, n := range names {
			body, cps := p.skeleton(n)
			fmt.Fprintf(&b, "/-- %s/%s: func %s -/\ndef %s : Fn := { name := %s, chanParams := %s, body :=\n  %s }\n\n", p.dir, owner[n], n, protoIdent(n), lq(n), lstrs(cps), body)
			switch {
			case strings.HasPrefix(n, "processChunk"):
				ws = append(ws, protoIdent(n))
			case strings.HasPrefix(n, "msmReduceChunk"):
				rs = append(rs, protoIdent(n))
			default:
				ms = append(ms, protoIdent(n))
			}
		}
		if len(ws) == 0 || len(rs) == 0 || len(ms) == 0 {
			die("proto: %s: %d chunk processors, %d reductions, %d _innerMsm functions", p.dir, len(ws), len(rs), len(ms))
		}
		fmt.Fprintf(&b, "def workers : List Fn := [%s]\ndef reduces : List Fn := [%s]\ndef mains : List Fn := [%s]\n\nend %s\n\n",
			strings.Join(ws, ", "), strings.Join(rs, ", "), strings.Join(ms, ", "), p.name)
		pkgNames = append(pkgNames, p.name)
	}
	fmt.Fprintf(&b, "def packages : List String := %s\n\nend GV.Gen.MSMProto\n", lstrs(pkgNames))
	writeFile("MSMProto.lean", b.String())
}

func protoIdent(n string) string {
	if strings.HasPrefix(n, "_") {
		return "f" + n
	}
	return n
}
