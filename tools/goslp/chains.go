// Part 5 (this file): the fixed-exponent ADDITION CHAINS, emitted as DATA for the deep-embedded chain language of
// lean/GnarkVerif/Model/Chain.lean (Gen/Chains/Fields.lean, Gen/Chains/Tower.lean, Gen/Chains/Curve.lean):
//
//	field level: every method `expBy*` of element_exp.go of every field package that has one;
//	tower level: Expt / ExptHalf / ExptMinus1 / ... / Expc1 / Expc2 of ecc/*/internal/fptower/e{6,12,24}_pairing.go;
//	curve level: mulBySeed of G1Jac / G2Jac of ecc/*/g1.go, g2.go.
//
// Supported Go subset (anything else in a targeted function is FATAL: gvgoslp exits non-zero):
//
//	var a, b T / var ( a = new(T) ... ) / a := new(T) / var t [k]T
//	recv.M(args) and chains recv.M(args).M(args)...   with M in the method table of the level
//	for i := A; i < B; i++ { straight-line body }      with integer literals A <= B (the body is unrolled B-A times;
//	                                                   a body that is the single step `r.Square(r)` is one `sq r r (B-A)`)
//	batch := BatchDecompressKarabina([]T{a, b, ...})    (tower)
//	r.F(x) with F another chain of the same file: inlined with fresh registers (tower)
//	return z / return z.M(args)
//
// Register 0 is the parameter, register 1 the receiver, the others are the locals in declaration order. Tower and curve
// functions (pointer parameter) are translated twice: receiver and parameter distinct, and the in-place call v.F(&v) where
// they are ONE register. Trusted reading of the primitives: every method of the tables writes its receiver only, reads its
// operands before it writes, and returns its receiver (so that a.M(..).N(..) is a.M(..); a.N(..)): for the tower and point
// methods this is what C19 proves about the translated bodies; nSquare / nSquareCompressed are compared as text;
// DecompressKarabina and one slot of BatchDecompressKarabina are the same abstract operation `dec`; DoubleAssign is
// Double on the same variable; SubAssign(q) is Neg(q) into a fresh register followed by AddAssign.
package main

import (
	"fmt"
	"go/ast"
	"go/parser"
	"go/printer"
	"go/token"
	"os"
	"path/filepath"
	"regexp"
	"strconv"
	"strings"
)

type chStep struct {
	kind    string // mul sq inv set sqc dec
	d, a, b int    // b = second operand (mul) or repetition count (sq, sqc)
}

type chain struct {
	name     string
	regNames []string
	out      int
	steps    []chStep
	windowed string // curve level: mulBySeed is `p.mulWindowed(q, &<const>)`, not a chain
}

type chCtx struct {
	level   string // field tower curve
	where   string
	fset    *token.FileSet
	funcs   map[string]*ast.FuncDecl // chain functions of the same file, for inlining
	regs    map[string]int
	names   []string
	steps   []chStep
	out     int
	prefix  string
	depth   int
	noAlloc bool
}

func (c *chCtx) fail(n ast.Node, f string, a ...any) {
	pos := ""
	if n != nil {
		pos = c.fset.Position(n.Pos()).String() + ": "
	}
	die("chains: %s: %s%s", c.where, pos, fmt.Sprintf(f, a...))
}

func (c *chCtx) alloc(name string, n ast.Node) int {
	name = c.prefix + name
	if _, ok := c.regs[name]; ok {
		c.fail(n, "register %s declared twice", name)
	}
	c.regs[name] = len(c.names)
	c.names = append(c.names, name)
	return len(c.names) - 1
}

func intLit(e ast.Expr) (int, bool) {
	if bl, ok := e.(*ast.BasicLit); ok && bl.Kind == token.INT {
		v, err := strconv.ParseInt(strings.ReplaceAll(bl.Value, "_", ""), 0, 32)
		if err == nil {
			return int(v), true
		}
	}
	return 0, false
}

// operand: x, &x, t[i], &t[i]
func (c *chCtx) operand(e ast.Expr) int {
	switch v := e.(type) {
	case *ast.UnaryExpr:
		if v.Op == token.AND {
			return c.operand(v.X)
		}
	case *ast.ParenExpr:
		return c.operand(v.X)
	case *ast.Ident:
		if r, ok := c.regs[c.prefix+v.Name]; ok {
			return r
		}
		c.fail(e, "unknown variable %s", v.Name)
	case *ast.IndexExpr:
		if id, ok := v.X.(*ast.Ident); ok {
			if i, ok := intLit(v.Index); ok {
				nm := fmt.Sprintf("%s%s[%d]", c.prefix, id.Name, i)
				if r, ok := c.regs[nm]; ok {
					return r
				}
				c.fail(e, "unknown array cell %s", nm)
			}
		}
	}
	c.fail(e, "unsupported operand")
	return 0
}

func (c *chCtx) emit(kind string, d, a, b int) {
	c.steps = append(c.steps, chStep{kind, d, a, b})
}

func (c *chCtx) nargs(call *ast.CallExpr, m string, n int) {
	if len(call.Args) != n {
		c.fail(call, "%s: %d arguments, want %d", m, len(call.Args), n)
	}
}

// one method call recv.M(args); returns the register that the call's value (the receiver) denotes
func (c *chCtx) call(call *ast.CallExpr) int {
	se, ok := call.Fun.(*ast.SelectorExpr)
	if !ok {
		c.fail(call, "unsupported call")
	}
	var d int
	if inner, ok := se.X.(*ast.CallExpr); ok {
		d = c.call(inner) // chained: the inner call returns its receiver
	} else {
		d = c.operand(se.X)
	}
	m := se.Sel.Name
	switch c.level {
	case "field":
		switch m {
		case "Mul":
			c.nargs(call, m, 2)
			c.emit("mul", d, c.operand(call.Args[0]), c.operand(call.Args[1]))
			return d
		case "Square":
			c.nargs(call, m, 1)
			c.emit("sq", d, c.operand(call.Args[0]), 1)
			return d
		}
	case "tower":
		switch m {
		case "Mul":
			c.nargs(call, m, 2)
			c.emit("mul", d, c.operand(call.Args[0]), c.operand(call.Args[1]))
			return d
		case "CyclotomicSquare", "Square":
			c.nargs(call, m, 1)
			c.emit("sq", d, c.operand(call.Args[0]), 1)
			return d
		case "nSquare", "nSquareCompressed":
			c.nargs(call, m, 1)
			n, ok := intLit(call.Args[0])
			if !ok || n < 0 {
				c.fail(call, "%s: the count must be a non-negative integer literal", m)
			}
			if m == "nSquare" {
				c.emit("sq", d, d, n)
			} else {
				c.emit("sqc", d, d, n)
			}
			return d
		case "DecompressKarabina":
			c.nargs(call, m, 1)
			c.emit("dec", d, c.operand(call.Args[0]), 0)
			return d
		case "Conjugate", "InverseUnitary":
			c.nargs(call, m, 1)
			c.emit("inv", d, c.operand(call.Args[0]), 0)
			return d
		case "Set":
			c.nargs(call, m, 1)
			c.emit("set", d, c.operand(call.Args[0]), 0)
			return d
		}
		if fd, ok := c.funcs[m]; ok { // another chain of the same file: inline
			c.nargs(call, m, 1)
			c.inline(fd, d, c.operand(call.Args[0]), call)
			return d
		}
	case "curve":
		switch m {
		case "Double":
			c.nargs(call, m, 1)
			c.emit("sq", d, c.operand(call.Args[0]), 1)
			return d
		case "DoubleAssign":
			c.nargs(call, m, 0)
			c.emit("sq", d, d, 1)
			return d
		case "AddAssign":
			c.nargs(call, m, 1)
			c.emit("mul", d, d, c.operand(call.Args[0]))
			return d
		case "SubAssign":
			c.nargs(call, m, 1)
			t := c.alloc(fmt.Sprintf("neg#%d", len(c.steps)), call)
			c.emit("inv", t, c.operand(call.Args[0]), 0)
			c.emit("mul", d, d, t)
			return d
		case "Neg":
			c.nargs(call, m, 1)
			c.emit("inv", d, c.operand(call.Args[0]), 0)
			return d
		case "Set":
			c.nargs(call, m, 1)
			c.emit("set", d, c.operand(call.Args[0]), 0)
			return d
		}
	}
	c.fail(call, "method %s is outside the %s-chain subset", m, c.level)
	return 0
}

// inline callee `func (z *T) F(x *T) *T` as  dst := F(src)
func (c *chCtx) inline(fd *ast.FuncDecl, dst, src int, at ast.Node) {
	if c.depth > 8 {
		c.fail(at, "inlining too deep (recursive chain?)")
	}
	save := c.prefix
	savedOut := c.out
	c.depth++
	c.prefix = fmt.Sprintf("%s%s#%d.", save, fd.Name.Name, len(c.steps))
	recv, par := chainSig(fd)
	if recv == "" {
		c.fail(at, "callee %s does not have the shape func (z *T) F(x *T) *T", fd.Name.Name)
	}
	// the callee's parameter and receiver ARE the caller's registers (Go pointers): when the caller passes the same variable
	// twice, the callee's x and z are one register
	c.regs[c.prefix+par] = src
	c.regs[c.prefix+recv] = dst
	c.block(fd.Body.List, true)
	if c.out != dst {
		c.fail(at, "callee %s does not return its receiver", fd.Name.Name)
	}
	c.prefix = save
	c.out = savedOut
	c.depth--
}

// receiver and parameter names of `func (z *T) F(x T | x *T) *T`
func chainSig(fd *ast.FuncDecl) (recv, par string) {
	if fd.Recv == nil || len(fd.Recv.List) != 1 || len(fd.Recv.List[0].Names) != 1 {
		return "", ""
	}
	if fd.Type.Params == nil || len(fd.Type.Params.List) != 1 || len(fd.Type.Params.List[0].Names) != 1 {
		return "", ""
	}
	if fd.Type.Results == nil || len(fd.Type.Results.List) != 1 {
		return "", ""
	}
	return fd.Recv.List[0].Names[0].Name, fd.Type.Params.List[0].Names[0].Name
}

func isNewCall(e ast.Expr) bool {
	ce, ok := e.(*ast.CallExpr)
	if !ok || len(ce.Args) != 1 {
		return false
	}
	id, ok := ce.Fun.(*ast.Ident)
	return ok && id.Name == "new"
}

func (c *chCtx) declare(vs *ast.ValueSpec) {
	if len(vs.Values) != 0 {
		if len(vs.Values) != len(vs.Names) {
			c.fail(vs, "unsupported declaration")
		}
		for i, nm := range vs.Names {
			if !isNewCall(vs.Values[i]) {
				c.fail(vs, "initialiser of %s is not new(T)", nm.Name)
			}
			c.alloc(nm.Name, vs)
		}
		return
	}
	if at, ok := vs.Type.(*ast.ArrayType); ok {
		n, ok := intLit(at.Len)
		if !ok {
			c.fail(vs, "array length must be a literal")
		}
		for _, nm := range vs.Names {
			for i := 0; i < n; i++ {
				c.alloc(fmt.Sprintf("%s[%d]", nm.Name, i), vs)
			}
		}
		return
	}
	for _, nm := range vs.Names {
		c.alloc(nm.Name, vs)
	}
}

func (c *chCtx) block(stmts []ast.Stmt, top bool) {
	for si, st := range stmts {
		switch s := st.(type) {
		case *ast.DeclStmt:
			if !top {
				c.fail(s, "declaration inside a loop")
			}
			gd, ok := s.Decl.(*ast.GenDecl)
			if !ok || gd.Tok != token.VAR {
				c.fail(s, "unsupported declaration")
			}
			for _, sp := range gd.Specs {
				c.declare(sp.(*ast.ValueSpec))
			}
		case *ast.AssignStmt:
			if s.Tok != token.DEFINE || len(s.Lhs) != 1 || len(s.Rhs) != 1 || !top {
				c.fail(s, "unsupported assignment")
			}
			id, ok := s.Lhs[0].(*ast.Ident)
			if !ok {
				c.fail(s, "unsupported assignment")
			}
			if isNewCall(s.Rhs[0]) {
				c.alloc(id.Name, s)
				break
			}
			// batch := BatchDecompressKarabina([]T{a, b, ...})
			ce, ok := s.Rhs[0].(*ast.CallExpr)
			if ok && c.level == "tower" {
				if fn, ok := ce.Fun.(*ast.Ident); ok && fn.Name == "BatchDecompressKarabina" && len(ce.Args) == 1 {
					if cl, ok := ce.Args[0].(*ast.CompositeLit); ok {
						if _, ok := cl.Type.(*ast.ArrayType); ok {
							for i, el := range cl.Elts {
								d := c.alloc(fmt.Sprintf("%s[%d]", id.Name, i), s)
								c.emit("dec", d, c.operand(el), 0)
							}
							break
						}
					}
				}
			}
			c.fail(s, "unsupported assignment")
		case *ast.ExprStmt:
			ce, ok := s.X.(*ast.CallExpr)
			if !ok {
				c.fail(s, "unsupported statement")
			}
			c.call(ce)
		case *ast.ForStmt:
			lo, hi, ok := literalLoop(s)
			if !ok {
				c.fail(s, "loop is not `for i := A; i < B; i++` with literal bounds A <= B and an unused counter")
			}
			n := hi - lo
			// the common case: a single `r.Square(r)` / `r.Double(&r)` / `r.CyclotomicSquare(r)`
			before := len(c.steps)
			c.block(s.Body.List, false)
			body := append([]chStep(nil), c.steps[before:]...)
			c.steps = c.steps[:before]
			if len(body) == 1 && body[0].kind == "sq" && body[0].d == body[0].a {
				c.emit("sq", body[0].d, body[0].a, body[0].b*n)
			} else {
				for k := 0; k < n; k++ {
					c.steps = append(c.steps, body...)
				}
			}
		case *ast.ReturnStmt:
			if si != len(stmts)-1 || len(s.Results) != 1 {
				c.fail(s, "return must be the last statement and return one value")
			}
			if !top {
				c.fail(s, "return inside a loop")
			}
			if ce, ok := s.Results[0].(*ast.CallExpr); ok {
				c.out = c.call(ce)
			} else {
				c.out = c.operand(s.Results[0])
			}
			return
		case *ast.EmptyStmt:
		default:
			c.fail(st, "unsupported statement %T", st)
		}
	}
	if top {
		c.fail(nil, "function does not end with a return")
	}
}

// for i := A; i < B; i++ { ... } with literal A <= B; the body must not mention i
func literalLoop(s *ast.ForStmt) (lo, hi int, ok bool) {
	as, ok1 := s.Init.(*ast.AssignStmt)
	if !ok1 || as.Tok != token.DEFINE || len(as.Lhs) != 1 || len(as.Rhs) != 1 {
		return
	}
	id, ok1 := as.Lhs[0].(*ast.Ident)
	if !ok1 {
		return
	}
	lo, ok1 = intLit(as.Rhs[0])
	if !ok1 {
		return
	}
	be, ok1 := s.Cond.(*ast.BinaryExpr)
	if !ok1 || be.Op != token.LSS {
		return
	}
	if x, ok2 := be.X.(*ast.Ident); !ok2 || x.Name != id.Name {
		return
	}
	hi, ok1 = intLit(be.Y)
	if !ok1 || hi < lo {
		return
	}
	inc, ok1 := s.Post.(*ast.IncDecStmt)
	if !ok1 || inc.Tok != token.INC {
		return
	}
	if x, ok2 := inc.X.(*ast.Ident); !ok2 || x.Name != id.Name {
		return
	}
	used := false
	ast.Inspect(s.Body, func(n ast.Node) bool {
		if x, ok := n.(*ast.Ident); ok && x.Name == id.Name {
			used = true
		}
		return true
	})
	if used {
		return
	}
	return lo, hi, true
}

// aliased: the call `v.F(&v)` (receiver and argument are the same variable): one register for both
func translateChain(level, where string, fset *token.FileSet, fd *ast.FuncDecl, funcs map[string]*ast.FuncDecl, aliased bool) *chain {
	c := &chCtx{level: level, where: where + "." + fd.Name.Name, fset: fset, funcs: funcs, regs: map[string]int{}}
	recv, par := chainSig(fd)
	if recv == "" {
		c.fail(fd, "signature is not func (z *T) F(x T) *T")
	}
	c.alloc(par, fd)
	if recv == par {
		c.fail(fd, "receiver and parameter have the same name")
	}
	if aliased {
		c.regs[recv] = 0
		c.names[0] = par + "=" + recv
	} else {
		c.alloc(recv, fd)
	}
	// curve level: `p.mulWindowed(q, &xGen); return p` is not a chain; record which constant it multiplies by
	if level == "curve" && len(fd.Body.List) == 2 {
		if es, ok := fd.Body.List[0].(*ast.ExprStmt); ok {
			if ce, ok := es.X.(*ast.CallExpr); ok {
				if se, ok := ce.Fun.(*ast.SelectorExpr); ok && se.Sel.Name == "mulWindowed" && len(ce.Args) == 2 {
					r, ok1 := se.X.(*ast.Ident)
					a0, ok2 := ce.Args[0].(*ast.Ident)
					ue, ok3 := ce.Args[1].(*ast.UnaryExpr)
					rs, ok4 := fd.Body.List[1].(*ast.ReturnStmt)
					if ok1 && ok2 && ok3 && ok4 && r.Name == recv && a0.Name == par && ue.Op == token.AND && len(rs.Results) == 1 {
						if k, ok := ue.X.(*ast.Ident); ok {
							if ri, ok := rs.Results[0].(*ast.Ident); ok && ri.Name == recv {
								return &chain{name: fd.Name.Name, windowed: k.Name}
							}
						}
					}
				}
			}
		}
	}
	c.block(fd.Body.List, true)
	return &chain{name: fd.Name.Name, regNames: c.names, out: c.out, steps: c.steps}
}

func (ch *chain) lean(indent string) string {
	var b strings.Builder
	fmt.Fprintf(&b, "{ nregs := %d, out := %d, steps := [", len(ch.regNames), ch.out)
	for i, s := range ch.steps {
		if i > 0 {
			b.WriteString(",")
		}
		if i%8 == 0 {
			b.WriteString("\n" + indent)
		} else {
			b.WriteString(" ")
		}
		switch s.kind {
		case "mul", "sq", "sqc":
			fmt.Fprintf(&b, ".%s %d %d %d", s.kind, s.d, s.a, s.b)
		default:
			fmt.Fprintf(&b, ".%s %d %d", s.kind, s.d, s.a)
		}
	}
	b.WriteString("] }")
	return b.String()
}

func parseChainFile(path string) (*token.FileSet, *ast.File) {
	fset := token.NewFileSet()
	f, err := parser.ParseFile(fset, path, nil, 0)
	if err != nil {
		die("chains: parse %s: %v", path, err)
	}
	return fset, f
}

const chainsHeader = "/- GENERATED by tools/goslp (chains.go) from /repo on every run. DO NOT EDIT.\n   %s\n   Register 0 = the argument, register 1 = the receiver, then the Go locals in declaration order (names in the comments). -/\nimport GnarkVerif.Model.Chain\n\nnamespace GV.Gen.Chains\nopen GV.Chain\n\n"

// ---- field level

// ---- how element.go USES the two chains: the text of Legendre and Sqrt (comments dropped, white space collapsed, the
// Tonelli-Shanks constants g and r abstracted) must be one of the texts below; which one it is, and g / r, go to Lean.

const legendreText = `{ var l Element l.expByLegendreExp(*z) if l.IsZero() { return 0 } if l.IsOne() { return 1 } return -1 }`

var sqrtTexts = []string{
	// 0: q = 3 mod 4
	`{ var y, square Element y.expBySqrtExp(*x) square.Square(&y) if square.Equal(x) { return z.Set(&y) } return nil }`,
	// 1: q = 5 mod 8 (Atkin)
	`{ var one, alpha, beta, tx, square Element one.SetOne() tx.Double(x) alpha.expBySqrtExp(tx) beta.Square(&alpha). Mul(&beta, &tx). Sub(&beta, &one). Mul(&beta, x). Mul(&beta, &alpha) square.Square(&beta) if square.Equal(x) { return z.Set(&beta) } return nil }`,
	// 2: Tonelli-Shanks
	`{ var y, b, t, w Element w.expBySqrtExp(*x) y.Mul(x, &w) b.Mul(&w, &y) var g = Element{G} r := uint64(R) t = b for i := uint64(0); i < r-1; i++ { t.Square(&t) } if t.IsZero() { return z.SetZero() } if !t.IsOne() { return nil } for { var m uint64 t = b for !t.IsOne() { t.Square(&t) m++ } if m == 0 { return z.Set(&y) } ge := int(r - m - 1) t = g for ge > 0 { t.Square(&t) ge-- } g.Square(&t) y.Mul(&y, &t) b.Mul(&b, &g) r = m } }`,
}

var wsRe = regexp.MustCompile(`\s+`)
var gRe = regexp.MustCompile(`var g = Element\{([0-9, ]*)\}`)
var rRe = regexp.MustCompile(`r := uint64\(([0-9]+)\)`)

func bodyText(fset *token.FileSet, fd *ast.FuncDecl) string {
	var sb strings.Builder
	if err := printer.Fprint(&sb, fset, fd.Body); err != nil {
		die("chains: print %s: %v", fd.Name.Name, err)
	}
	return strings.TrimSpace(wsRe.ReplaceAllString(sb.String(), " "))
}

// returns (kind, r, g limbs as a Lean list)
func sqrtUse(dir string) (int, string, string) {
	fset := token.NewFileSet()
	f, err := parser.ParseFile(fset, filepath.Join(repo, dir, "element.go"), nil, 0) // comments are not parsed
	if err != nil {
		die("chains: parse %s/element.go: %v", dir, err)
	}
	kind, r, g := -1, "0", "[]"
	seenL := false
	for _, dc := range f.Decls {
		fd, ok := dc.(*ast.FuncDecl)
		if !ok || fd.Recv == nil || fd.Body == nil {
			continue
		}
		switch fd.Name.Name {
		case "Legendre":
			if t := bodyText(fset, fd); t != legendreText {
				die("chains: %s: Legendre is not the expected text (z^((q-1)/2) through expByLegendreExp, then IsZero / IsOne):\n%s", dir, t)
			}
			seenL = true
		case "Sqrt":
			t := bodyText(fset, fd)
			if m := gRe.FindStringSubmatch(t); m != nil {
				g = "[" + strings.TrimSuffix(strings.TrimSpace(m[1]), ",") + "]"
				t = gRe.ReplaceAllString(t, "var g = Element{G}")
			}
			if m := rRe.FindStringSubmatch(t); m != nil {
				r = m[1]
				t = rRe.ReplaceAllString(t, "r := uint64(R)")
			}
			for k, want := range sqrtTexts {
				if t == want {
					kind = k
				}
			}
			if kind < 0 {
				die("chains: %s: Sqrt is none of the three expected texts (q = 3 mod 4 / Atkin / Tonelli-Shanks):\n%s", dir, t)
			}
		}
	}
	if kind < 0 || !seenL {
		die("chains: %s: Sqrt or Legendre not found in element.go", dir)
	}
	return kind, r, g
}

func runFieldChains() {
	var b strings.Builder
	fmt.Fprintf(&b, chainsHeader, "Addition chains of element_exp.go (methods expBy*) of the field packages.")
	b.WriteString("/-- how `Sqrt` of element.go uses `expBySqrtExp` (its text is compared with three expected texts by the translator):\n`kind` 0: q ≡ 3 (mod 4) `y = x^k`, test `y² = x`; 1: Atkin (q ≡ 5 mod 8); 2: Tonelli–Shanks with the literals `r := uint64(e)` and\n`g` (limbs, Montgomery form). `Legendre` is `expByLegendreExp` followed by `IsZero` / `IsOne` in every package (text compared). -/\nstructure SqrtUse where\n  kind : Nat\n  e : Nat\n  g : List Nat\n\n")
	var table []string
	n := 0
	for _, d := range fieldDirs {
		p := filepath.Join(repo, d, "element_exp.go")
		if _, err := os.Stat(p); err != nil {
			continue
		}
		fset, f := parseChainFile(p)
		pkg := leanName(d)
		fmt.Fprintf(&b, "namespace %s\n", pkg)
		found := 0
		for _, dc := range f.Decls {
			fd, ok := dc.(*ast.FuncDecl)
			if !ok || fd.Recv == nil {
				continue
			}
			if !strings.HasPrefix(fd.Name.Name, "expBy") {
				die("chains: %s: unexpected method %s in element_exp.go (only expBy* chains are expected there)", d, fd.Name.Name)
			}
			ch := translateChain("field", d, fset, fd, nil, false)
			fmt.Fprintf(&b, "/-- %s/element_exp.go `%s`; registers: %s -/\ndef %s : Chain :=\n  %s\n", d, ch.name, strings.Join(ch.regNames, " "), ch.name, ch.lean("    "))
			table = append(table, fmt.Sprintf("(\"%s\", \"%s\", %s.%s)", pkg, ch.name, pkg, ch.name))
			found++
			n++
		}
		if found == 0 {
			die("chains: %s/element_exp.go has no expBy* method", d)
		}
		kind, r, g := sqrtUse(d)
		fmt.Fprintf(&b, "/-- %s/element.go `Sqrt` -/\ndef sqrtUse : SqrtUse := { kind := %d, e := %s, g := %s }\n", d, kind, r, g)
		fmt.Fprintf(&b, "end %s\n\n", pkg)
	}
	fmt.Fprintf(&b, "/-- every translated field chain: (package, function, chain) -/\ndef fieldChains : List (String × String × Chain) := [\n  %s]\n\nend GV.Gen.Chains\n", strings.Join(table, ",\n  "))
	writeFile("Chains/Fields.lean", b.String())
	fmt.Fprintf(os.Stderr, "gvgoslp: chains: %d field chains\n", n)
}

func runChains() {
	runFieldChains()
	runTowerChains()
	runCurveChains()
}

// ---- tower level

var towerChainFiles = []struct{ curve, file string }{
	{"bn254", "e12_pairing.go"}, {"bls12-377", "e12_pairing.go"}, {"bls12-381", "e12_pairing.go"},
	{"bls24-315", "e24_pairing.go"}, {"bls24-317", "e24_pairing.go"}, {"bw6-633", "e6_pairing.go"}, {"bw6-761", "e6_pairing.go"},
}

const nSquareText = `{ for i := 0; i < n; i++ { z.CyclotomicSquare(z) } }`
const nSquareCompressedText = `{ for i := 0; i < n; i++ { z.CyclotomicSquareCompressed(z) } }`

var towerChainRe = regexp.MustCompile(`^Exp[tc]`)

func runTowerChains() {
	var b strings.Builder
	fmt.Fprintf(&b, chainsHeader, "Cyclotomic exponentiation chains (Expt*, Expc*) of ecc/<curve>/internal/fptower/e{6,12,24}_pairing.go.\n   `<F>` is the call z.F(x) with distinct variables, `<F>_inplace` the call v.F(&v) (one register for receiver and argument).\n   nSquare / nSquareCompressed are loops of CyclotomicSquare / CyclotomicSquareCompressed (their text is compared by the translator).")
	b.WriteString("namespace Tower\n\n")
	var table []string
	n := 0
	for _, tf := range towerChainFiles {
		dir := filepath.Join("ecc", tf.curve, "internal", "fptower")
		fset, f := parseChainFile(filepath.Join(repo, dir, tf.file))
		funcs := map[string]*ast.FuncDecl{}
		var order []string
		for _, dc := range f.Decls {
			fd, ok := dc.(*ast.FuncDecl)
			if !ok || fd.Recv == nil || fd.Body == nil {
				continue
			}
			switch fd.Name.Name {
			case "nSquare":
				if t := bodyText(fset, fd); t != nSquareText {
					die("chains: %s: nSquare is not n times CyclotomicSquare: %s", dir, t)
				}
			case "nSquareCompressed":
				if t := bodyText(fset, fd); t != nSquareCompressedText {
					die("chains: %s: nSquareCompressed is not n times CyclotomicSquareCompressed: %s", dir, t)
				}
			default:
				if towerChainRe.MatchString(fd.Name.Name) {
					funcs[fd.Name.Name] = fd
					order = append(order, fd.Name.Name)
				}
			}
		}
		if len(order) == 0 {
			die("chains: %s/%s has no Expt* chain", dir, tf.file)
		}
		pkg := strings.ReplaceAll(tf.curve, "-", "_")
		fmt.Fprintf(&b, "namespace %s\n", pkg)
		for _, nm := range order {
			for _, al := range []bool{false, true} {
				ch := translateChain("tower", dir, fset, funcs[nm], funcs, al)
				name := ch.name
				if al {
					name += "_inplace"
				}
				fmt.Fprintf(&b, "/-- %s/%s `%s`%s; registers: %s -/\ndef %s : Chain :=\n  %s\n", dir, tf.file, ch.name, map[bool]string{false: "", true: " called in place"}[al], strings.Join(ch.regNames, " "), name, ch.lean("    "))
				table = append(table, fmt.Sprintf("(\"%s\", \"%s\", %s.%s)", pkg, name, pkg, name))
				n++
			}
		}
		fmt.Fprintf(&b, "end %s\n\n", pkg)
	}
	fmt.Fprintf(&b, "/-- every translated tower chain: (curve, function, chain) -/\ndef towerChains : List (String × String × Chain) := [\n  %s]\n\nend Tower\nend GV.Gen.Chains\n", strings.Join(table, ",\n  "))
	writeFile("Chains/Tower.lean", b.String())
	fmt.Fprintf(os.Stderr, "gvgoslp: chains: %d tower chains (incl. in-place variants)\n", n)
}

// ---- curve level

var curveChainDirs = []string{"bn254", "bls12-377", "bls12-381", "bls24-315", "bls24-317", "bw6-633", "bw6-761", "grumpkin", "secp256k1", "stark-curve"}

func runCurveChains() {
	var b strings.Builder
	fmt.Fprintf(&b, chainsHeader, "mulBySeed of G1Jac / G2Jac (ecc/<curve>/g1.go, g2.go) as ADDITIVE chains: mul = AddAssign, sq = Double / DoubleAssign,\n   inv = Neg (SubAssign = Neg into a fresh register, then AddAssign). `<F>` is p.mulBySeed(q) with distinct variables,\n   `<F>_inplace` is p.mulBySeed(p). A mulBySeed that is `p.mulWindowed(q, &K); return p` is not a chain: `windowed` lists (curve, group, K).")
	b.WriteString("namespace Curve\n\n")
	var table, windowed []string
	n := 0
	for _, cv := range curveChainDirs {
		pkg := strings.ReplaceAll(cv, "-", "_")
		opened := false
		for _, g := range []string{"g1", "g2"} {
			p := filepath.Join(repo, "ecc", cv, g+".go")
			if _, err := os.Stat(p); err != nil {
				continue
			}
			fset, f := parseChainFile(p)
			for _, dc := range f.Decls {
				fd, ok := dc.(*ast.FuncDecl)
				if !ok || fd.Recv == nil || fd.Body == nil || fd.Name.Name != "mulBySeed" {
					continue
				}
				where := "ecc/" + cv + "/" + g + ".go"
				ch := translateChain("curve", where, fset, fd, nil, false)
				if ch.windowed != "" {
					windowed = append(windowed, fmt.Sprintf("(\"%s\", \"%s\", \"%s\")", pkg, g, ch.windowed))
					continue
				}
				if !opened {
					fmt.Fprintf(&b, "namespace %s\n", pkg)
					opened = true
				}
				for _, al := range []bool{false, true} {
					if al {
						ch = translateChain("curve", where, fset, fd, nil, true)
					}
					name := g + "_mulBySeed"
					if al {
						name += "_inplace"
					}
					fmt.Fprintf(&b, "/-- %s `mulBySeed`%s; registers: %s -/\ndef %s : Chain :=\n  %s\n", where, map[bool]string{false: "", true: " called in place"}[al], strings.Join(ch.regNames, " "), name, ch.lean("    "))
					table = append(table, fmt.Sprintf("(\"%s\", \"%s\", %s.%s)", pkg, name, pkg, name))
					n++
				}
			}
		}
		if opened {
			fmt.Fprintf(&b, "end %s\n\n", pkg)
		}
	}
	fmt.Fprintf(&b, "/-- every translated curve chain: (curve, function, chain) -/\ndef curveChains : List (String × String × Chain) := [\n  %s]\n\n", strings.Join(table, ",\n  "))
	fmt.Fprintf(&b, "/-- mulBySeed implemented as mulWindowed(q, &K): (curve, group, K) -/\ndef windowed : List (String × String × String) := [%s]\n\nend Curve\nend GV.Gen.Chains\n", strings.Join(windowed, ", "))
	writeFile("Chains/Curve.lean", b.String())
	fmt.Fprintf(os.Stderr, "gvgoslp: chains: %d curve chains (incl. in-place variants), %d mulBySeed through mulWindowed\n", n, len(windowed))
}
