// Part 3 (limb.go): tie T at the LIMB level. Straight-line uint64/uint32 code of the prime-field packages
// (Mul, Square, Add, … in element.go / element_purego.go / arith.go) is translated, on every run, into Lean
// definitions over plain `Nat` with explicit wrap-around (`% 2^64`), see lean/GnarkVerif/Model/Limb.lean for the
// conventions. Output: Gen/Limb/<Field>.lean. Props/C01_limb*.lean prove the generated definitions equal to the
// value-level model GV.Field on all inputs.
//
// Supported: bits.Mul64/Add64/Sub64 (and the 32-bit versions), + - * & | ^ << >> with wrap-around, conversions
// uint64()/uint32(), constants of the package, array-indexed limbs, block scopes, `if` without loops, early
// return, calls of other functions of the package (inlined). Anything else in a targeted function: fatal error.
package main

import (
	"fmt"
	"go/ast"
	"go/parser"
	"go/token"
	"math/big"
	"os"
	"path/filepath"
	"regexp"
	"sort"
	"strings"
)

type limbErr string

func lreject(f string, a ...any) { panic(limbErr(fmt.Sprintf(f, a...))) }

// a symbolic scalar
type lval struct {
	term string   // Lean term (SSA name, literal, or a small closed expression)
	w    int      // width in bits: 64, 32; 0 = bool (Lean Prop)
	bit  bool     // known to be 0 or 1 (carry / borrow)
	lit  *big.Int // literal value when known
	deps []string // SSA / input names occurring in term
}

// an array of cells (Element, [N]uintX); shared by reference like the Go pointer
type larr struct {
	cells []int
	w     int
}

type limbFn struct {
	name string // "Element.Mul" or "_mulGeneric"
	decl *ast.FuncDecl
	file string
}

type lline struct {
	name, rhs string
	deps      []string
}

type ltr struct {
	fc      *fieldConsts
	fns     map[string]*limbFn
	fset    *token.FileSet
	nLimbs  int
	word    int
	store   map[int]*lval // cell → current value
	nextID  int
	scopes  []map[string]any // name → int (scalar cell) | *larr
	lines   []lline
	cnt     map[string]int
	inputs  []string  // function inputs, in order
	inRef   []limbRef // for every input: Go parameter (or receiver) name and limb index (-1: scalar)
	inSet   map[string]bool
	segs    [][]lline // closed segments
	depth   int       // inlining depth
	splitRe *regexp.Regexp
	src     []byte
	bm      *bytesMode      // non-nil: byte-conversion pass (bytes.go) — extra value kinds and calls
	curCont func() *lresult // bytes pass: what follows the innermost enclosing `if` whose body returns on some paths only
}

func (x *ltr) newCell(v *lval) int {
	x.nextID++
	x.store[x.nextID] = v
	return x.nextID
}

func (x *ltr) push() { x.scopes = append(x.scopes, map[string]any{}) }
func (x *ltr) pop()  { x.scopes = x.scopes[:len(x.scopes)-1] }
func (x *ltr) lookup(n string) any {
	for i := len(x.scopes) - 1; i >= 0; i-- {
		if v, ok := x.scopes[i][n]; ok {
			return v
		}
	}
	return nil
}
func (x *ltr) declare(n string, v any) {
	if n != "_" {
		x.scopes[len(x.scopes)-1][n] = v
	}
}

func litVal(n *big.Int, w int) *lval {
	return &lval{term: n.String(), w: w, lit: n, bit: n.Cmp(big.NewInt(1)) <= 0}
}

func pow2(w int) *big.Int { return new(big.Int).Lsh(big.NewInt(1), uint(w)) }

func mergeDeps(vs ...*lval) []string {
	seen := map[string]bool{}
	var out []string
	for _, v := range vs {
		for _, d := range v.deps {
			if !seen[d] {
				seen[d] = true
				out = append(out, d)
			}
		}
	}
	return out
}

// emit `let base_k := rhs`
func (x *ltr) emit(base, rhs string, w int, bit bool, deps []string) *lval {
	if base == "_" || base == "" {
		base = "drop"
	}
	x.cnt[base]++
	name := fmt.Sprintf("%s_%d", base, x.cnt[base])
	x.lines = append(x.lines, lline{name, rhs, deps})
	return &lval{term: name, w: w, bit: bit, deps: []string{name}}
}

func (x *ltr) typeWidth(e ast.Expr) (w int, n int, ok bool) {
	switch t := e.(type) {
	case *ast.Ident:
		switch t.Name {
		case "uint64":
			return 64, 0, true
		case "uint32":
			return 32, 0, true
		case "Element":
			return x.word, x.nLimbs, true
		}
	case *ast.ArrayType:
		if bl, ok := t.Len.(*ast.BasicLit); ok {
			var k int
			fmt.Sscan(bl.Value, &k)
			w, _, ok2 := x.typeWidth(t.Elt)
			return w, k, ok2
		}
	case *ast.StarExpr:
		return x.typeWidth(t.X)
	}
	return 0, 0, false
}

// ---- expressions

func (x *ltr) constant(name string) *lval {
	if a, ok := constAlias[x.fc.dir][name]; ok {
		name = a
	}
	if c, ok := x.fc.consts[name]; ok {
		return litVal(c, 0) // treated as an untyped constant: width fixed by the other operand
	}
	return nil
}

func (x *ltr) scalar(e ast.Expr) *lval {
	v := x.eval(e)
	s, ok := v.(*lval)
	if !ok {
		lreject("scalar expected: %s", x.text(e))
	}
	return s
}

func (x *ltr) text(n ast.Node) string {
	return string(x.src[x.fset.Position(n.Pos()).Offset:x.fset.Position(n.End()).Offset])
}

func (x *ltr) index(e *ast.IndexExpr) (*larr, int) {
	a, ok := x.eval(e.X).(*larr)
	if !ok {
		lreject("indexing a non-array: %s", x.text(e))
	}
	iv := x.scalarConst(e.Index)
	if iv < 0 || iv >= len(a.cells) {
		lreject("index out of range: %s", x.text(e))
	}
	return a, iv
}

func (x *ltr) scalarConst(e ast.Expr) int {
	if bl, ok := e.(*ast.BasicLit); ok && bl.Kind == token.INT {
		var k int
		fmt.Sscan(bl.Value, &k)
		return k
	}
	lreject("constant index expected: %s", x.text(e))
	return 0
}

func wrapTerm(t string, w int) string { return fmt.Sprintf("(%s) %% %s", t, pow2(w).String()) }

func (x *ltr) eval(e ast.Expr) any {
	if x.bm != nil {
		if r, ok := x.bytesEval(e); ok {
			return r
		}
	}
	switch v := e.(type) {
	case *ast.ParenExpr:
		return x.eval(v.X)
	case *ast.BasicLit:
		if n := litInt(v); n != nil {
			return litVal(n, 0) // untyped constant: width fixed by the other operand
		}
	case *ast.Ident:
		if r := x.lookup(v.Name); r != nil {
			switch c := r.(type) {
			case int:
				return x.store[c]
			case *larr:
				return c
			default:
				if x.bm != nil {
					return r
				}
			}
		}
		if c := x.constant(v.Name); c != nil {
			return c
		}
		lreject("unknown identifier %s", v.Name)
	case *ast.IndexExpr:
		a, i := x.index(v)
		return x.store[a.cells[i]]
	case *ast.StarExpr:
		return x.eval(v.X)
	case *ast.UnaryExpr:
		switch v.Op {
		case token.NOT:
			c := x.scalar(v.X)
			if c.w != 0 {
				lreject("! on a non-bool")
			}
			return &lval{term: "¬(" + c.term + ")", deps: c.deps}
		case token.AND:
			return x.eval(v.X)
		case token.SUB:
			// a negative literal (`return -1` of an `int` result): the two's-complement 64-bit word
			if bl, ok := v.X.(*ast.BasicLit); ok && bl.Kind == token.INT {
				n, ok2 := new(big.Int).SetString(bl.Value, 0)
				if ok2 && n.Sign() > 0 && n.BitLen() < 64 {
					return litVal(new(big.Int).Sub(pow2(64), n), 64)
				}
			}
		}
	case *ast.BinaryExpr:
		return x.binary(v)
	case *ast.CallExpr:
		rs := x.call(v)
		if len(rs) != 1 {
			lreject("single-valued call expected: %s", x.text(v))
		}
		return rs[0]
	}
	lreject("unsupported expression %s", x.text(e))
	return nil
}

func unify(a, b *lval) int {
	if a.w == 0 && a.lit != nil {
		return b.w
	}
	if b.w == 0 && b.lit != nil {
		return a.w
	}
	if a.w != b.w {
		lreject("width mismatch %s:%d vs %s:%d", a.term, a.w, b.term, b.w)
	}
	return a.w
}

func (x *ltr) binary(v *ast.BinaryExpr) *lval {
	switch v.Op {
	case token.LOR, token.LAND:
		a, b := x.scalar(v.X), x.scalar(v.Y)
		op := " ∨ "
		if v.Op == token.LAND {
			op = " ∧ "
		}
		return &lval{term: "(" + a.term + op + b.term + ")", deps: mergeDeps(a, b)}
	}
	a, b := x.scalar(v.X), x.scalar(v.Y)
	deps := mergeDeps(a, b)
	if a.lit != nil && b.lit != nil && a.w == 0 && b.w == 0 {
		// untyped constant arithmetic (exact)
		r := new(big.Int)
		switch v.Op {
		case token.ADD:
			r.Add(a.lit, b.lit)
		case token.SUB:
			r.Sub(a.lit, b.lit)
		case token.MUL:
			r.Mul(a.lit, b.lit)
		case token.SHL:
			r.Lsh(a.lit, uint(b.lit.Int64()))
		case token.SHR:
			r.Rsh(a.lit, uint(b.lit.Int64()))
		default:
			lreject("unsupported constant expression %s", x.text(v))
		}
		if r.Sign() < 0 {
			lreject("negative constant %s", x.text(v))
		}
		return litVal(r, 0)
	}
	switch v.Op {
	case token.LSS, token.LEQ, token.GTR, token.GEQ, token.EQL, token.NEQ:
		unify(a, b)
		op := map[token.Token]string{token.LSS: "<", token.LEQ: "≤", token.GTR: ">", token.GEQ: "≥", token.EQL: "=", token.NEQ: "≠"}[v.Op]
		return &lval{term: "(" + a.term + " " + op + " " + b.term + ")", deps: deps}
	}
	var w int
	if v.Op == token.SHL || v.Op == token.SHR {
		w = a.w
		if b.lit == nil {
			lreject("shift by a non-constant: %s", x.text(v))
		}
	} else {
		w = unify(a, b)
	}
	if w == 0 {
		lreject("untyped arithmetic: %s", x.text(v))
	}
	W := pow2(w).String()
	var t string
	switch v.Op {
	case token.ADD:
		t = fmt.Sprintf("(%s + %s) %% %s", a.term, b.term, W)
	case token.MUL:
		t = fmt.Sprintf("(%s * %s) %% %s", a.term, b.term, W)
	case token.SUB:
		// wrap-around subtraction = Sub64 with a discarded borrow (keeps Nat subtraction out of the generated code)
		d := x.emit("sub", fmt.Sprintf("GV.Limb.subD %s %s %s 0", W, a.term, b.term), w, false, deps)
		x.emit("_", fmt.Sprintf("GV.Limb.subB %s %s 0", a.term, b.term), w, true, deps)
		return d
	case token.AND:
		if b.lit != nil && b.lit.Cmp(big.NewInt(1)) == 0 {
			t = fmt.Sprintf("%s %% 2", a.term)
		} else {
			t = fmt.Sprintf("(%s &&& %s)", a.term, b.term)
		}
	case token.OR:
		t = fmt.Sprintf("(%s ||| %s)", a.term, b.term)
	case token.XOR:
		t = fmt.Sprintf("(%s ^^^ %s)", a.term, b.term)
	case token.SHL:
		t = fmt.Sprintf("(%s * %s) %% %s", a.term, pow2(int(b.lit.Int64())).String(), W)
	case token.SHR:
		t = fmt.Sprintf("%s / %s", a.term, pow2(int(b.lit.Int64())).String())
	case token.REM:
		if x.bm == nil {
			lreject("unsupported operator in %s", x.text(v))
		}
		t = fmt.Sprintf("%s %% %s", a.term, b.term) // Go's % on unsigned words is Nat's % (x % 0 panics in Go: the divisor must be a non-zero literal)
		if b.lit == nil || b.lit.Sign() == 0 {
			lreject("%% by a non-literal or zero: %s", x.text(v))
		}
	default:
		lreject("unsupported operator in %s", x.text(v))
	}
	return &lval{term: "(" + t + ")", w: w, deps: deps}
}

func (x *ltr) needBit(v *lval, ctx string) {
	if !v.bit {
		lreject("%s: carry/borrow operand %s is not known to be 0 or 1", ctx, v.term)
	}
}

// call returns the results of a call; dst names (Go targets) are used to name the SSA variables
func (x *ltr) call(c *ast.CallExpr) []any { return x.callNamed(c, nil) }

func (x *ltr) callNamed(c *ast.CallExpr, dst []string) []any {
	nm := func(i int, def string) string {
		if i < len(dst) && dst[i] != "" {
			return dst[i]
		}
		return def
	}
	if x.bm != nil {
		if rs, ok := x.bytesCall(c, dst); ok {
			return rs
		}
	}
	// conversions
	if id, ok := c.Fun.(*ast.Ident); ok && (id.Name == "uint64" || id.Name == "uint32") && len(c.Args) == 1 {
		a := x.scalar(c.Args[0])
		w := 64
		if id.Name == "uint32" {
			w = 32
		}
		if a.w == 0 && a.lit != nil {
			return []any{litVal(a.lit, w)}
		}
		if a.w <= w {
			return []any{&lval{term: a.term, w: w, bit: a.bit, lit: a.lit, deps: a.deps}}
		}
		return []any{&lval{term: "(" + a.term + " % " + pow2(w).String() + ")", w: w, bit: a.bit, deps: a.deps}}
	}
	if se, ok := c.Fun.(*ast.SelectorExpr); ok {
		if pk, ok := se.X.(*ast.Ident); ok && pk.Name == "bits" && x.lookup("bits") == nil {
			w := 64
			if strings.HasSuffix(se.Sel.Name, "32") {
				w = 32
			}
			W := pow2(w).String()
			var as []*lval
			for _, a := range c.Args {
				v := x.scalar(a)
				if v.w == 0 && v.lit != nil {
					v = litVal(v.lit, w)
				}
				if v.w != w {
					lreject("%s: operand width", x.text(c))
				}
				as = append(as, v)
			}
			switch strings.TrimRight(se.Sel.Name, "0123456789") {
			case "Mul":
				d := mergeDeps(as...)
				hi := x.emit(nm(0, "hi"), fmt.Sprintf("%s * %s / %s", as[0].term, as[1].term, W), w, false, d)
				lo := x.emit(nm(1, "lo"), fmt.Sprintf("%s * %s %% %s", as[0].term, as[1].term, W), w, false, d)
				return []any{hi, lo}
			case "Add":
				x.needBit(as[2], x.text(c))
				d := mergeDeps(as...)
				s := x.emit(nm(0, "s"), fmt.Sprintf("(%s + %s + %s) %% %s", as[0].term, as[1].term, as[2].term, W), w, false, d)
				co := x.emit(nm(1, "c"), fmt.Sprintf("(%s + %s + %s) / %s", as[0].term, as[1].term, as[2].term, W), w, true, d)
				return []any{s, co}
			case "Sub":
				x.needBit(as[2], x.text(c))
				d := mergeDeps(as...)
				s := x.emit(nm(0, "d"), fmt.Sprintf("GV.Limb.subD %s %s %s %s", W, as[0].term, as[1].term, as[2].term), w, false, d)
				bo := x.emit(nm(1, "b"), fmt.Sprintf("GV.Limb.subB %s %s %s", as[0].term, as[1].term, as[2].term), w, true, d)
				return []any{s, bo}
			}
			lreject("unsupported bits function %s", se.Sel.Name)
		}
		// method call on an Element
		recv, ok := x.eval(se.X).(*larr)
		if !ok {
			lreject("method call on a non-Element: %s", x.text(c))
		}
		f := x.fns["Element."+se.Sel.Name]
		if f == nil {
			lreject("unknown method %s", se.Sel.Name)
		}
		return x.inline(f, recv, c.Args)
	}
	if id, ok := c.Fun.(*ast.Ident); ok {
		f := x.fns[id.Name]
		if f == nil {
			lreject("unknown function %s", id.Name)
		}
		return x.inline(f, nil, c.Args)
	}
	lreject("unsupported call %s", x.text(c))
	return nil
}

// ---- statements

type lresult struct {
	vals []any // returned values (scalars or arrays)
	snap map[int]*lval
}

// inline a call: fresh scope, parameters bound to the argument values (arrays by reference)
func (x *ltr) inline(f *limbFn, recv *larr, args []ast.Expr) []any {
	x.depth++
	if x.depth > 8 {
		lreject("inlining too deep at %s", f.name)
	}
	var av []any
	for _, a := range args {
		av = append(av, x.eval(a))
	}
	saved := x.scopes
	savedSrc, savedRe := x.src, x.splitRe
	x.scopes = []map[string]any{{}}
	x.src = fileSrc[f.file]
	x.splitRe = nil
	savedCont := x.curCont
	x.curCont = nil
	d := f.decl
	if d.Recv != nil && len(d.Recv.List) == 1 && len(d.Recv.List[0].Names) == 1 {
		x.declare(d.Recv.List[0].Names[0].Name, recv)
	}
	i := 0
	for _, p := range d.Type.Params.List {
		if x.bm != nil && x.isByteArrayPtr(p.Type) {
			for _, nmI := range p.Names {
				if i >= len(av) {
					lreject("%s: arity", f.name)
				}
				ba, ok := av[i].(*lbarr)
				if !ok {
					lreject("%s: byte array expected", f.name)
				}
				x.declare(nmI.Name, ba)
				i++
			}
			continue
		}
		w, n, ok := x.typeWidth(p.Type)
		if !ok {
			lreject("%s: unsupported parameter type", f.name)
		}
		_, isPtr := p.Type.(*ast.StarExpr)
		for _, nmI := range p.Names {
			if i >= len(av) {
				lreject("%s: arity", f.name)
			}
			switch a := av[i].(type) {
			case *larr:
				if n == 0 {
					lreject("%s: array passed for scalar", f.name)
				}
				if !isPtr {
					// an array passed BY VALUE (`e Element`): the callee works on a copy
					cp := &larr{w: a.w}
					for _, c := range a.cells {
						cp.cells = append(cp.cells, x.newCell(x.store[c]))
					}
					a = cp
				}
				x.declare(nmI.Name, a)
			case *lval:
				if n != 0 {
					lreject("%s: scalar passed for array", f.name)
				}
				if a.w == 0 && a.lit != nil {
					a = litVal(a.lit, w)
				}
				if a.w != w {
					lreject("%s: argument width %d vs %d", f.name, a.w, w)
				}
				x.declare(nmI.Name, x.newCell(a)) // by value
			}
			i++
		}
	}
	var named []string
	if d.Type.Results != nil {
		for _, r := range d.Type.Results.List {
			if x.bm != nil && x.isByteArray(r.Type) {
				for _, nmI := range r.Names {
					x.declare(nmI.Name, x.zeroBytes())
					named = append(named, nmI.Name)
				}
				continue
			}
			w, n, ok := x.typeWidth(r.Type)
			for _, nmI := range r.Names {
				if !ok || n != 0 {
					lreject("%s: unsupported named result", f.name)
				}
				x.declare(nmI.Name, x.newCell(litVal(big.NewInt(0), w)))
				named = append(named, nmI.Name)
			}
		}
	}
	res := x.execFunc(d.Body.List, named)
	x.scopes = saved
	x.curCont = savedCont
	x.src, x.splitRe = savedSrc, savedRe
	x.depth--
	return res
}

// execFunc runs a function body and returns its (merged) result values
func (x *ltr) execFunc(stmts []ast.Stmt, named []string) []any {
	r := x.execList(stmts, named, true)
	if r == nil { // fell off the end
		r = x.mkResult(nil, named)
	}
	// adopt the snapshot as the current store
	for k, v := range r.snap {
		x.store[k] = v
	}
	return r.vals
}

func (x *ltr) mkResult(es []ast.Expr, named []string) *lresult {
	r := &lresult{}
	if len(es) == 0 {
		for _, n := range named {
			switch c := x.lookup(n).(type) {
			case int:
				r.vals = append(r.vals, x.store[c])
			default:
				r.vals = append(r.vals, c)
			}
		}
	}
	for _, e := range es {
		v := x.eval(e)
		if s, ok := v.(*lval); ok && s.w == 0 && s.lit != nil {
			v = litVal(s.lit, 64) // an untyped integer literal returned as `int` / `uint64` (`return 1`)
		}
		r.vals = append(r.vals, v)
	}
	r.snap = map[int]*lval{}
	for k, v := range x.store {
		r.snap[k] = v
	}
	return r
}

func copyStore(s map[int]*lval) map[int]*lval {
	c := make(map[int]*lval, len(s))
	for k, v := range s {
		c[k] = v
	}
	return c
}

// merge two stores under condition c: cells that differ get `if c then a else b`
func (x *ltr) mergeStores(c *lval, a, b map[int]*lval, names map[int]string) map[int]*lval {
	out := map[int]*lval{}
	var keys []int
	for k := range b {
		keys = append(keys, k)
	}
	sort.Ints(keys)
	for _, k := range keys {
		vb := b[k]
		va, ok := a[k]
		if !ok {
			continue // cell created inside one branch only: dead afterwards
		}
		if va.term == vb.term {
			out[k] = vb
			continue
		}
		if va.w != vb.w {
			lreject("merge: width mismatch")
		}
		base := names[k]
		if base == "" {
			base = "phi"
		}
		out[k] = x.emit(base, fmt.Sprintf("if %s then %s else %s", c.term, va.term, vb.term), va.w, va.bit && vb.bit, mergeDeps(c, va, vb))
	}
	return out
}

// names of cells (for readable SSA names at merges)
func (x *ltr) cellNames() map[int]string {
	m := map[int]string{}
	for _, sc := range x.scopes {
		var keys []string
		for n := range sc {
			keys = append(keys, n)
		}
		sort.Strings(keys) // deterministic choice among several names of one cell (the output must not depend on map order)
		for _, n := range keys {
			v := sc[n]
			switch c := v.(type) {
			case int:
				m[c] = n
			case *larr:
				for i, id := range c.cells {
					if _, ok := m[id]; !ok {
						m[id] = fmt.Sprintf("%s%d", n, i)
					}
				}
			}
		}
	}
	return m
}

func (x *ltr) mergeResults(c *lval, a, b *lresult) *lresult {
	names := x.cellNames()
	r := &lresult{snap: x.mergeStores(c, a.snap, b.snap, names)}
	if len(a.vals) != len(b.vals) {
		lreject("merge: result arity")
	}
	for i := range a.vals {
		switch va := a.vals[i].(type) {
		case *larr:
			vb, ok := b.vals[i].(*larr)
			if ok && vb == va {
				r.vals = append(r.vals, va)
				break
			}
			if !ok || x.bm == nil || len(va.cells) != len(vb.cells) {
				lreject("merge: different arrays returned")
			}
			// two different arrays returned BY VALUE (`return Element{}, err` / `return z, nil`): a fresh array of merged cells
			m := &larr{w: va.w}
			for k := range va.cells {
				ca, cb := a.snap[va.cells[k]], b.snap[vb.cells[k]]
				var mv *lval
				if ca.term == cb.term {
					mv = ca
				} else {
					mv = x.emit(fmt.Sprintf("ret%d", k), fmt.Sprintf("if %s then %s else %s", c.term, ca.term, cb.term), ca.w, ca.bit && cb.bit, mergeDeps(c, ca, cb))
				}
				id := x.newCell(mv)
				r.snap[id] = mv
				m.cells = append(m.cells, id)
			}
			r.vals = append(r.vals, m)
		case *lbarr:
			if vb, ok := b.vals[i].(*lbarr); !ok || vb != va {
				lreject("merge: different byte arrays returned")
			}
			r.vals = append(r.vals, va)
		case *lval:
			vb := b.vals[i].(*lval)
			if va.term == vb.term {
				r.vals = append(r.vals, va)
			} else if va.w == 0 {
				r.vals = append(r.vals, &lval{term: fmt.Sprintf("((%s ∧ %s) ∨ (¬(%s) ∧ %s))", c.term, va.term, c.term, vb.term), deps: mergeDeps(c, va, vb)})
			} else {
				r.vals = append(r.vals, x.emit("ret", fmt.Sprintf("if %s then %s else %s", c.term, va.term, vb.term), va.w, va.bit && vb.bit, mergeDeps(c, va, vb)))
			}
		}
	}
	return r
}

// execList executes statements; returns non-nil iff every path returned
func (x *ltr) execList(stmts []ast.Stmt, named []string, top bool) *lresult {
	for i, s := range stmts {
		if top && x.depth == 0 {
			_, isBlock := s.(*ast.BlockStmt)
			if isBlock || (x.splitRe != nil && x.splitRe.MatchString(x.text(s))) {
				x.cut()
			}
		}
		switch st := s.(type) {
		case *ast.ReturnStmt:
			return x.mkResult(st.Results, named)
		case *ast.IfStmt:
			if st.Init != nil {
				lreject("if with init")
			}
			c := x.scalar(st.Cond)
			if c.w != 0 {
				lreject("non-bool condition")
			}
			before := copyStore(x.store)
			prevCont := x.curCont
			if x.bm != nil && containsReturn(st.Body) {
				// the body returns on some paths only (`if a { …; if b { return }; … }; rest`): where the body falls through, the
				// statements after this `if` (then whatever follows the enclosing one) are executed
				outerRest := stmts[i+1:]
				if ei, ok := st.Else.(*ast.IfStmt); ok {
					_ = ei
					lreject("else-if after a body with a nested return")
				}
				if st.Else != nil {
					lreject("else after a body with a nested return")
				}
				scopes := append([]map[string]any{}, x.scopes...)
				x.curCont = func() *lresult {
					saved, savedC := x.scopes, x.curCont
					x.scopes, x.curCont = scopes, prevCont
					r := x.execList(outerRest, named, top)
					if r == nil {
						if prevCont != nil {
							r = prevCont()
						} else if top {
							r = x.mkResult(nil, named)
						} else {
							lreject("early return inside a nested block")
						}
					}
					x.scopes, x.curCont = saved, savedC
					return r
				}
			}
			x.push()
			rThen := x.execList(st.Body.List, named, false)
			x.pop()
			x.curCont = prevCont
			thenStore := x.store
			x.store = copyStore(before)
			var rElse *lresult
			rest := stmts[i+1:]
			if ei, ok := st.Else.(*ast.IfStmt); ok {
				// `if c { …return } else if d { … }; rest`  ≡  `if c { …return }; if d { … }; rest`  (only when the then-branch returns)
				if rThen == nil {
					lreject("else-if after a branch that does not return")
				}
				rest = append([]ast.Stmt{ei}, rest...)
			} else if st.Else != nil {
				eb, ok := st.Else.(*ast.BlockStmt)
				if !ok {
					lreject("else-if")
				}
				x.push()
				rElse = x.execList(eb.List, named, false)
				x.pop()
			}
			elseStore := x.store
			switch {
			case rThen == nil && rElse == nil:
				x.store = x.mergeStores(c, thenStore, elseStore, x.cellNames())
			case rThen != nil && rElse == nil:
				// the rest of the list is the else-continuation
				rRest := x.execList(rest, named, false)
				if rRest == nil {
					if x.curCont != nil {
						rRest = x.curCont()
					} else if top {
						rRest = x.mkResult(nil, named)
					} else {
						lreject("early return inside a nested block")
					}
				}
				return x.mergeResults(c, rThen, rRest)
			case rThen != nil && rElse != nil:
				return x.mergeResults(c, rThen, rElse)
			default:
				lreject("return in else-branch only")
			}
		case *ast.BlockStmt:
			x.push()
			r := x.execList(st.List, named, false)
			x.pop()
			if r != nil {
				lreject("return inside a block scope")
			}
			if top && x.depth == 0 {
				x.cut()
			}
		case *ast.DeclStmt:
			gd := st.Decl.(*ast.GenDecl)
			if gd.Tok == token.CONST && x.bm != nil {
				for _, sp := range gd.Specs {
					vs := sp.(*ast.ValueSpec)
					if len(vs.Names) != 1 || len(vs.Values) != 1 || vs.Type != nil {
						lreject("unsupported const declaration %s", x.text(st))
					}
					n := litInt(vs.Values[0])
					if n == nil {
						lreject("unsupported const declaration %s", x.text(st))
					}
					x.declare(vs.Names[0].Name, x.newCell(litVal(n, 0)))
				}
				continue
			}
			if gd.Tok != token.VAR {
				lreject("unsupported declaration %s", x.text(st))
			}
			for _, sp := range gd.Specs {
				vs := sp.(*ast.ValueSpec)
				if len(vs.Values) != 0 || vs.Type == nil {
					lreject("unsupported var declaration %s", x.text(st))
				}
				w, n, ok := x.typeWidth(vs.Type)
				if !ok {
					lreject("unsupported type in %s", x.text(st))
				}
				for _, nmI := range vs.Names {
					if n == 0 {
						x.declare(nmI.Name, x.newCell(litVal(big.NewInt(0), w)))
					} else {
						a := &larr{w: w}
						for k := 0; k < n; k++ {
							a.cells = append(a.cells, x.newCell(litVal(big.NewInt(0), w)))
						}
						x.declare(nmI.Name, a)
					}
				}
			}
		case *ast.AssignStmt:
			x.assign(st)
		case *ast.ExprStmt:
			ce, ok := st.X.(*ast.CallExpr)
			if !ok {
				lreject("unsupported statement %s", x.text(st))
			}
			x.call(ce)
		case *ast.IncDecStmt:
			op := token.ADD
			if st.Tok == token.DEC {
				op = token.SUB
			}
			v := x.binary(&ast.BinaryExpr{X: st.X, Op: op, Y: &ast.BasicLit{Kind: token.INT, Value: "1", ValuePos: st.TokPos}, OpPos: st.TokPos})
			r := x.emit(x.targetName(st.X), v.term, v.w, false, v.deps)
			x.store1(st.X, r, false)
		case *ast.EmptyStmt:
		default:
			lreject("unsupported statement %s", x.text(s))
		}
	}
	return nil
}

func (x *ltr) cut() {
	if len(x.lines) > 0 {
		x.segs = append(x.segs, x.lines)
		x.lines = nil
	}
}

// target name for SSA naming
func (x *ltr) targetName(e ast.Expr) string {
	switch v := e.(type) {
	case *ast.Ident:
		return v.Name
	case *ast.IndexExpr:
		if id, ok := v.X.(*ast.Ident); ok {
			return fmt.Sprintf("%s%d", id.Name, x.scalarConst(v.Index))
		}
	}
	return ""
}

func (x *ltr) store1(lhs ast.Expr, v *lval, define bool) {
	switch t := lhs.(type) {
	case *ast.Ident:
		if t.Name == "_" {
			return
		}
		if define {
			if v.w == 0 {
				lreject("untyped := %s", t.Name)
			}
			x.declare(t.Name, x.newCell(v))
			return
		}
		c, ok := x.lookup(t.Name).(int)
		if !ok {
			lreject("assignment to unknown scalar %s", t.Name)
		}
		old := x.store[c]
		if v.w == 0 && v.lit != nil {
			v = litVal(v.lit, old.w)
		}
		if old.w != v.w {
			lreject("assignment width mismatch on %s", t.Name)
		}
		x.store[c] = v
	case *ast.IndexExpr:
		a, i := x.index(t)
		if v.w == 0 && v.lit != nil {
			v = litVal(v.lit, a.w)
		}
		if a.w != v.w {
			lreject("assignment width mismatch on %s", x.text(t))
		}
		x.store[a.cells[i]] = v
	default:
		lreject("unsupported assignment target %s", x.text(lhs))
	}
}

func (x *ltr) assign(st *ast.AssignStmt) {
	define := st.Tok == token.DEFINE
	if st.Tok != token.ASSIGN && !define {
		// op-assign: a op= b
		op := map[token.Token]token.Token{token.ADD_ASSIGN: token.ADD, token.SUB_ASSIGN: token.SUB, token.MUL_ASSIGN: token.MUL,
			token.SHR_ASSIGN: token.SHR, token.SHL_ASSIGN: token.SHL, token.AND_ASSIGN: token.AND, token.OR_ASSIGN: token.OR, token.XOR_ASSIGN: token.XOR}[st.Tok]
		if op == 0 || len(st.Lhs) != 1 {
			lreject("unsupported assignment %s", x.text(st))
		}
		v := x.binary(&ast.BinaryExpr{X: st.Lhs[0], Op: op, Y: st.Rhs[0], OpPos: st.TokPos})
		r := x.emit(x.targetName(st.Lhs[0]), v.term, v.w, false, v.deps)
		x.store1(st.Lhs[0], r, false)
		return
	}
	if x.bm != nil && len(st.Lhs) == 1 && len(st.Rhs) == 1 {
		if se, ok := st.Lhs[0].(*ast.StarExpr); ok && !define {
			// `*z = v`, `*z = Element{v}`: element-wise copy into the array z points to
			dst, ok1 := x.eval(se.X).(*larr)
			srcA, ok2 := x.eval(st.Rhs[0]).(*larr)
			if !ok1 || !ok2 || len(dst.cells) != len(srcA.cells) {
				lreject("unsupported assignment %s", x.text(st))
			}
			var vs []*lval
			for _, c := range srcA.cells {
				vs = append(vs, x.store[c])
			}
			for k, c := range dst.cells {
				x.store[c] = vs[k]
			}
			return
		}
	}
	var names []string
	for _, l := range st.Lhs {
		names = append(names, x.targetName(l))
	}
	var vals []any
	if len(st.Rhs) == 1 && len(st.Lhs) > 1 {
		ce, ok := st.Rhs[0].(*ast.CallExpr)
		if !ok {
			lreject("unsupported multi-assignment %s", x.text(st))
		}
		vals = x.callNamed(ce, names)
	} else {
		if len(st.Rhs) != len(st.Lhs) {
			lreject("unsupported assignment %s", x.text(st))
		}
		for i, r := range st.Rhs {
			if ce, ok := r.(*ast.CallExpr); ok {
				rs := x.callNamed(ce, names[i:i+1])
				if len(rs) != 1 {
					lreject("arity in %s", x.text(st))
				}
				vals = append(vals, rs[0])
			} else {
				vals = append(vals, x.eval(r))
			}
		}
	}
	if len(vals) != len(st.Lhs) {
		lreject("arity in %s", x.text(st))
	}
	for i, l := range st.Lhs {
		switch v := vals[i].(type) {
		case *lval:
			// non-trivial expressions get their own SSA name (keeps the let-chain flat)
			if v.lit == nil && len(v.deps) > 0 && !(len(v.deps) == 1 && v.deps[0] == v.term) && names[i] != "_" && names[i] != "" {
				v = x.emit(names[i], v.term, v.w, v.bit, v.deps)
			}
			x.store1(l, v, define)
		case *larr:
			// Go array values are COPIED on assignment (`_x := *x`, `_z := z.Bits()`): fresh cells holding the current values
			id, ok := l.(*ast.Ident)
			if !ok || !define {
				lreject("array assignment %s", x.text(st))
			}
			cp := &larr{w: v.w}
			for _, c := range v.cells {
				cp.cells = append(cp.cells, x.newCell(x.store[c]))
			}
			x.declare(id.Name, cp)
		default:
			id, ok := l.(*ast.Ident)
			if x.bm == nil || !ok || !define {
				lreject("unsupported assignment %s", x.text(st))
			}
			x.declare(id.Name, v)
		}
	}
}

// ---- driver

var fileSrc = map[string][]byte{}

// package dir → const name → name of the constant it aliases (`q = q0`)
var constAlias = map[string]map[string]string{}

type limbTarget struct {
	fn    string // key in fns
	lean  string // Lean name
	split string // regexp: a top-level statement matching it starts a new segment
	ext   bool   // emitted into Gen/Limb/<Field>X.lean (second batch of targets; keeps the first file, and the proofs about it, stable)
}

var limbTargets = []limbTarget{
	{"Element.Mul", "Mul", `^C, t\[0\] = (bits\.Mul64|madd1)\(|^if t\[\d+\] != 0`, false},
	{"Element.Square", "Square", `^C, t\[0\] = (bits\.Mul64|madd1)\(|^if t\[\d+\] != 0`, false},
	{"_mulGeneric", "mulGeneric", `^C, t\[0\] = (bits\.Mul64|madd1)\(|^if t\[\d+\] != 0`, false},
	{"_fromMontGeneric", "fromMontGeneric", ``, false},
	{"_reduceGeneric", "reduceGeneric", ``, false},
	{"Element.Add", "Add", ``, false},
	{"Element.Sub", "Sub", ``, false},
	{"Element.Neg", "Neg", ``, false},
	{"Element.Double", "Double", ``, false},
	{"Element.Halve", "Halve", ``, false},
	{"Element.smallerThanModulus", "smallerThanModulus", ``, false},
	{"madd0", "madd0", ``, false}, {"madd1", "madd1", ``, false}, {"madd2", "madd2", ``, false}, {"madd3", "madd3", ``, false},
	{"montReduce", "montReduce", ``, false},
	{"Element.IsZero", "IsZero", ``, true}, {"Element.IsOne", "IsOne", ``, true}, {"Element.NotEqual", "NotEqual", ``, true}, {"Element.Equal", "Equal", ``, true},
	{"Element.LexicographicallyLargest", "LexicographicallyLargest", ``, true}, {"Element.Cmp", "Cmp", ``, true},
	{"MulBy3", "MulBy3", ``, true}, {"MulBy5", "MulBy5", ``, true}, {"_butterflyGeneric", "butterflyGeneric", ``, true},
	{"Element.fromMont", "fromMont", ``, true},
}

// packages translated at the limb level
var limbDirs = []string{
	"ecc/bn254/fr", "ecc/bn254/fp", "ecc/bls12-381/fr", "ecc/bls12-377/fr", "ecc/bls24-315/fr", "ecc/bls24-317/fr",
	"ecc/grumpkin/fp", "ecc/grumpkin/fr", "ecc/secp256k1/fp", "ecc/secp256k1/fr", "ecc/stark-curve/fp", "ecc/stark-curve/fr",
	"ecc/bls24-315/fp", "ecc/bls12-377/fp", "ecc/bls12-381/fp", "ecc/bw6-633/fr", "ecc/bw6-761/fr", "ecc/bls24-317/fp",
	"ecc/bw6-633/fp", "ecc/bw6-761/fp",
	"field/goldilocks", "field/koalabear", "field/babybear",
}

var limbFiles = []string{"element.go", "element_purego.go", "arith.go"}

func loadLimbPkg(fc *fieldConsts) (*token.FileSet, map[string]*limbFn) {
	fset := token.NewFileSet()
	fns := map[string]*limbFn{}
	for _, fn := range limbFiles {
		p := filepath.Join(repo, fc.dir, fn)
		src, err := os.ReadFile(p)
		if err != nil {
			continue
		}
		fileSrc[p] = src
		f, err := parser.ParseFile(fset, p, src, 0)
		if err != nil {
			die("parse %s: %v", p, err)
		}
		for _, d := range f.Decls {
			if gd, ok := d.(*ast.GenDecl); ok && gd.Tok == token.CONST {
				for _, sp := range gd.Specs {
					vs := sp.(*ast.ValueSpec)
					for i, nm := range vs.Names {
						if i < len(vs.Values) {
							if id, ok := vs.Values[i].(*ast.Ident); ok {
								if constAlias[fc.dir] == nil {
									constAlias[fc.dir] = map[string]string{}
								}
								constAlias[fc.dir][nm.Name] = id.Name
							}
						}
					}
				}
			}
			fd, ok := d.(*ast.FuncDecl)
			if !ok || fd.Body == nil {
				continue
			}
			name := fd.Name.Name
			if fd.Recv != nil {
				t := fd.Recv.List[0].Type
				if se, ok := t.(*ast.StarExpr); ok {
					t = se.X
				}
				if id, ok := t.(*ast.Ident); ok {
					name = id.Name + "." + name
				}
			}
			fns[name] = &limbFn{name: name, decl: fd, file: p}
		}
	}
	return fset, fns
}

type limbDef struct {
	name   string
	params []string
	lines  []lline
	outs   []string // terms
}

func tupleOf(ts []string) string {
	if len(ts) == 1 {
		return ts[0]
	}
	return "(" + strings.Join(ts, ", ") + ")"
}

func tupleType(n int, prop bool) string {
	if prop {
		return "Prop"
	}
	return strings.TrimSuffix(strings.Repeat("Nat × ", n), " × ")
}

func projOf(r string, i, n int) string {
	if n == 1 {
		return r
	}
	s := r
	for k := 0; k < i; k++ {
		s += ".2"
	}
	if i < n-1 {
		s += ".1"
	}
	return s
}

// translate one target function; returns Lean text
func translateLimb(fc *fieldConsts, fset *token.FileSet, fns map[string]*limbFn, tg limbTarget) (text string, err error) {
	defer func() {
		if r := recover(); r != nil {
			if e, ok := r.(limbErr); ok {
				err = fmt.Errorf("%s", string(e))
				return
			}
			panic(r)
		}
	}()
	f := fns[tg.fn]
	x := &ltr{fc: fc, fns: fns, fset: fset, word: fc.word, nLimbs: int(fc.consts["Limbs"].Int64()),
		store: map[int]*lval{}, cnt: map[string]int{}, inSet: map[string]bool{}, src: fileSrc[f.file]}
	if tg.split != "" {
		x.splitRe = regexp.MustCompile(tg.split)
	}
	x.push()
	d := f.decl
	type arrParam struct {
		name string
		a    *larr
		init []string
	}
	var arrs []arrParam
	bind := func(name string, t ast.Expr) {
		w, n, ok := x.typeWidth(t)
		if !ok {
			lreject("unsupported parameter type of %s", name)
		}
		if n == 0 {
			x.inputs = append(x.inputs, name)
			x.inRef = append(x.inRef, limbRef{name, -1})
			x.declare(name, x.newCell(&lval{term: name, w: w, deps: []string{name}}))
			return
		}
		a := &larr{w: w}
		ap := arrParam{name: name, a: a}
		for i := 0; i < n; i++ {
			in := fmt.Sprintf("%s%d", name, i)
			x.inputs = append(x.inputs, in)
			x.inRef = append(x.inRef, limbRef{name, i})
			ap.init = append(ap.init, in)
			a.cells = append(a.cells, x.newCell(&lval{term: in, w: w, deps: []string{in}}))
		}
		arrs = append(arrs, ap)
		x.declare(name, a)
	}
	if d.Recv != nil {
		bind(d.Recv.List[0].Names[0].Name, d.Recv.List[0].Type)
	}
	for _, p := range d.Type.Params.List {
		for _, n := range p.Names {
			bind(n.Name, p.Type)
		}
	}
	var named []string
	if d.Type.Results != nil {
		for _, r := range d.Type.Results.List {
			w, n, ok := x.typeWidth(r.Type)
			for _, nmI := range r.Names {
				if !ok || n != 0 {
					lreject("unsupported named result")
				}
				x.declare(nmI.Name, x.newCell(litVal(big.NewInt(0), w)))
				named = append(named, nmI.Name)
			}
		}
	}
	vals := x.execFunc(d.Body.List, named)
	x.cut()
	// outputs: written array parameters (all limbs), then scalar results
	var outs []*lval
	prop := false
	sig := &limbSig{lean: tg.lean}
	for _, ap := range arrs {
		written := false
		for i, c := range ap.a.cells {
			if x.store[c].term != ap.init[i] {
				written = true
			}
		}
		if written {
			for _, c := range ap.a.cells {
				outs = append(outs, x.store[c])
			}
			sig.outArrs = append(sig.outArrs, ap.name)
		}
	}
	for _, v := range vals {
		if s, ok := v.(*lval); ok {
			if s.w == 0 {
				prop = true
			}
			outs = append(outs, s)
		}
	}
	if len(outs) == 0 {
		lreject("no outputs")
	}
	if prop && len(outs) != 1 {
		var dbg []string
		for _, o := range outs {
			dbg = append(dbg, fmt.Sprintf("%s/w%d", o.term, o.w))
		}
		lreject("bool result mixed with other outputs: %v", dbg)
	}
	// live-in / live-out per segment
	inputPos := map[string]int{}
	for i, n := range x.inputs {
		inputPos[n] = i
	}
	defSeg := map[string]int{}
	defPos := map[string]int{}
	pos := 0
	for si, sg := range x.segs {
		for _, l := range sg {
			defSeg[l.name] = si
			defPos[l.name] = pos
			pos++
		}
	}
	nseg := len(x.segs)
	order := func(ns []string) {
		sort.Slice(ns, func(i, j int) bool {
			pi, iin := inputPos[ns[i]]
			pj, jin := inputPos[ns[j]]
			if iin != jin {
				return iin
			}
			if iin {
				return pi < pj
			}
			return defPos[ns[i]] < defPos[ns[j]]
		})
	}
	usedIn := make([]map[string]bool, nseg+1) // names used by segment k (index nseg = final result)
	for k := range usedIn {
		usedIn[k] = map[string]bool{}
	}
	for si, sg := range x.segs {
		for _, l := range sg {
			for _, dname := range l.deps {
				usedIn[si][dname] = true
			}
		}
	}
	for _, o := range outs {
		for _, dname := range o.deps {
			usedIn[nseg][dname] = true
		}
	}
	var b strings.Builder
	usedInputs := map[string]bool{}
	for k := 0; k <= nseg; k++ {
		for n := range usedIn[k] {
			if _, ok := inputPos[n]; ok {
				usedInputs[n] = true
			}
		}
	}
	var params []string
	for i, n := range x.inputs {
		if usedInputs[n] {
			params = append(params, n)
			sig.params = append(sig.params, x.inRef[i])
		}
	}
	sig.prop, sig.nOut = prop, len(outs)
	if limbSigs[fc.dir] == nil {
		limbSigs[fc.dir] = map[string]*limbSig{}
	}
	if !tg.ext {
		limbSigs[fc.dir][tg.fn] = sig
	}
	var outTerms []string
	for _, o := range outs {
		outTerms = append(outTerms, o.term)
	}
	writeDef := func(name string, ps []string, lines []string, res string, n int, isProp bool) {
		fmt.Fprintf(&b, "def %s", name)
		if len(ps) > 0 {
			fmt.Fprintf(&b, " (%s : Nat)", strings.Join(ps, " "))
		}
		fmt.Fprintf(&b, " : %s :=\n", tupleType(n, isProp))
		for _, l := range lines {
			fmt.Fprintf(&b, "  %s\n", l)
		}
		fmt.Fprintf(&b, "  %s\n\n", res)
	}
	if nseg <= 1 {
		var ls []string
		if nseg == 1 {
			for _, l := range x.segs[0] {
				ls = append(ls, fmt.Sprintf("let %s := %s", l.name, l.rhs))
			}
		}
		writeDef(tg.lean, params, ls, tupleOf(outTerms), len(outs), prop)
		return b.String(), nil
	}
	var mainLines []string
	projMap := map[string]string{} // SSA name defined in a segment → projection of that segment's result
	identRe := regexp.MustCompile(`[A-Za-z_][A-Za-z0-9_]*`)
	subst := func(t string) string {
		return identRe.ReplaceAllStringFunc(t, func(id string) string {
			if pr, ok := projMap[id]; ok {
				return pr
			}
			return id
		})
	}
	for si, sg := range x.segs {
		var ins, louts []string
		defd := map[string]bool{}
		for _, l := range sg {
			defd[l.name] = true
		}
		for n := range usedIn[si] {
			if !defd[n] {
				ins = append(ins, n)
			}
		}
		for _, l := range sg {
			later := false
			for k := si + 1; k <= nseg; k++ {
				if usedIn[k][l.name] {
					later = true
				}
			}
			if later {
				louts = append(louts, l.name)
			}
		}
		order(ins)
		order(louts)
		if len(louts) == 0 {
			continue
		}
		var ls []string
		for _, l := range sg {
			ls = append(ls, fmt.Sprintf("let %s := %s", l.name, l.rhs))
		}
		sname := fmt.Sprintf("%s_s%d", tg.lean, si)
		writeDef(sname, ins, ls, tupleOf(louts), len(louts), false)
		var args []string
		for _, a := range ins {
			args = append(args, subst(a))
		}
		r := fmt.Sprintf("r_%d", si)
		mainLines = append(mainLines, fmt.Sprintf("let %s := %s %s", r, sname, strings.Join(args, " ")))
		for i, o := range louts {
			projMap[o] = projOf(r, i, len(louts))
		}
	}
	for i := range outTerms {
		outTerms[i] = subst(outTerms[i])
	}
	writeDef(tg.lean, params, mainLines, tupleOf(outTerms), len(outs), prop)
	return b.String(), nil
}

func runLimb() {
	byDir := map[string]*fieldConsts{}
	for _, d := range fieldDirs {
		byDir[d] = nil
	}
	var index strings.Builder
	index.WriteString("/- GENERATED by tools/goslp (limb.go) from /repo on every run. DO NOT EDIT. -/\n")
	var failures []string
	for _, dir := range limbDirs {
		fc := extractField(dir)
		if _, ok := fc.consts["Limbs"]; !ok {
			die("limb: %s: constant Limbs not found", dir)
		}
		fset, fns := loadLimbPkg(fc)
		var b strings.Builder
		fmt.Fprintf(&b, "/- GENERATED by tools/goslp (limb.go) from /repo/%s on every run. DO NOT EDIT.\n", dir)
		b.WriteString("   Limb-level straight-line code over Nat with explicit wrap-around; conventions in Model/Limb.lean. -/\n")
		b.WriteString("import GnarkVerif.Model.Limb\n\nset_option maxRecDepth 100000\nset_option linter.unusedVariables false\n\n")
		fmt.Fprintf(&b, "namespace GV.Gen.Limb.%s\n\n", fc.name)
		var bx strings.Builder
		fmt.Fprintf(&bx, "/- GENERATED by tools/goslp (limb.go) from /repo/%s on every run. DO NOT EDIT.\n", dir)
		bx.WriteString("   Second batch of limb-level targets (predicates, comparisons, small multiples, butterfly, fromMont). -/\n")
		modName := strings.ToUpper(fc.name[:1]) + fc.name[1:]
		fmt.Fprintf(&bx, "import GnarkVerif.Gen.Limb.%s\n\nset_option maxRecDepth 100000\nset_option linter.unusedVariables false\n\n", modName)
		fmt.Fprintf(&bx, "namespace GV.Gen.Limb.%s\n\n", fc.name)
		var done []string
		for _, tg := range limbTargets {
			if fns[tg.fn] == nil {
				continue
			}
			if (tg.fn == "MulBy3" || tg.fn == "MulBy5") && fc.consts["Limbs"].Cmp(big.NewInt(1)) == 0 {
				continue // one-word fields build a composite literal from a 64-bit product: not in the fragment (correspondence only)
			}
			txt, err := translateLimb(fc, fset, fns, tg)
			if err != nil {
				failures = append(failures, fmt.Sprintf("%s %s: %v", dir, tg.fn, err))
				continue
			}
			if tg.ext {
				bx.WriteString(txt)
			} else {
				b.WriteString(txt)
			}
			done = append(done, tg.lean)
		}
		fmt.Fprintf(&b, "end GV.Gen.Limb.%s\n", fc.name)
		fmt.Fprintf(&bx, "end GV.Gen.Limb.%s\n", fc.name)
		mod := strings.ToUpper(fc.name[:1]) + fc.name[1:]
		writeFile(filepath.Join("Limb", mod+".lean"), b.String())
		writeFile(filepath.Join("Limb", mod+"X.lean"), bx.String())
		fmt.Fprintf(&index, "import GnarkVerif.Gen.Limb.%s -- %s\nimport GnarkVerif.Gen.Limb.%sX\n", mod, strings.Join(done, " "), mod)
	}
	writeFile("Limb.lean", index.String())
	if len(failures) > 0 {
		// fail loudly: a targeted function uses syntax outside the supported fragment
		die("limb translation failed:\n  %s", strings.Join(failures, "\n  "))
	}
}
