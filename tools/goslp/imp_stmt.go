// imp_stmt.go — statements of mode "imp": let-chains in continuation style; loops and join points become helper defs.
package main

import (
	"fmt"
	"go/ast"
	"go/token"
	"go/types"
	"sort"
	"strings"
)

func rootOf(e ast.Expr) string {
	for {
		switch v := e.(type) {
		case *ast.SelectorExpr:
			e = v.X
		case *ast.IndexExpr:
			e = v.X
		case *ast.ParenExpr:
			e = v.X
		case *ast.SliceExpr:
			e = v.X
		case *ast.Ident:
			return v.Name
		default:
			return ""
		}
	}
}

func falls(list []ast.Stmt) bool {
	if len(list) == 0 {
		return true
	}
	switch s := list[len(list)-1].(type) {
	case *ast.ReturnStmt, *ast.BranchStmt:
		return false
	case *ast.BlockStmt:
		return falls(s.List)
	case *ast.IfStmt:
		if s.Else == nil {
			return true
		}
		return falls(s.Body.List) || falls([]ast.Stmt{s.Else})
	}
	return true
}

func hasReturn(n ast.Node) bool {
	r := false
	ast.Inspect(n, func(m ast.Node) bool {
		switch m.(type) {
		case *ast.ReturnStmt, *ast.BranchStmt:
			r = true
		case *ast.FuncLit:
			return false
		}
		return !r
	})
	return r
}

func (f *impFn) snap() ([]map[string]*ity, map[string]bool) {
	var s []map[string]*ity
	for _, m := range f.scopes {
		c := map[string]*ity{}
		for k, v := range m {
			c[k] = v
		}
		s = append(s, c)
	}
	return s, copySet(f.nonNil)
}

func (f *impFn) restore(s []map[string]*ity, g map[string]bool) {
	f.scopes = nil
	for _, m := range s {
		c := map[string]*ity{}
		for k, v := range m {
			c[k] = v
		}
		f.scopes = append(f.scopes, c)
	}
	f.nonNil = copySet(g)
}

// variables live now that are assigned somewhere in the nodes (by `=`, copy, a state-changing method call)
func (f *impFn) assigned(nodes ...ast.Node) []string {
	set := map[string]bool{}
	for _, n := range nodes {
		if n == nil {
			continue
		}
		ast.Inspect(n, func(m ast.Node) bool {
			switch s := m.(type) {
			case *ast.AssignStmt:
				for _, l := range s.Lhs {
					set[rootOf(l)] = true
				}
			case *ast.IncDecStmt:
				set[rootOf(s.X)] = true
			case *ast.CallExpr:
				if id, ok := s.Fun.(*ast.Ident); ok {
					if t := f.lookup(id.Name); t != nil && t.k == "events" {
						set[id.Name] = true
					}
				}
				if exprText(s.Fun) == "copy" && len(s.Args) > 0 {
					set[rootOf(s.Args[0])] = true
				}
				if exprText(s.Fun) == "io.ReadFull" && len(s.Args) == 2 {
					set[rootOf(s.Args[0])], set[rootOf(s.Args[1])] = true, true
				}
				if f.p.tg.digest {
					f.digestAssigned(s, set)
				}
				if se, ok := s.Fun.(*ast.SelectorExpr); ok && (se.Sel.Name == "Write" || se.Sel.Name == "Reset") {
					set[rootOf(se.X)] = true
				}
				if se, ok := s.Fun.(*ast.SelectorExpr); ok {
					if id, ok := se.X.(*ast.Ident); ok {
						if t := f.lookup(id.Name); t != nil && (t.k == "elem" || (t.k == "bigint" && (se.Sel.Name == "Neg" || se.Sel.Name == "SetBytes" || se.Sel.Name == "Mod" || se.Sel.Name == "SetString" || (se.Sel.Name == "Set" && f.p.tg.grp != "")))) {
							set[id.Name] = true
						}
						if t := f.lookup(id.Name); t != nil && t.k == "struct" && id.Name == f.recv {
							if m := f.p.recvMeths[se.Sel.Name]; m != nil && m.mutates {
								set[id.Name] = true
							}
						}
					}
					if ix, ok := se.X.(*ast.IndexExpr); ok { // xs[i].M(…) on a slice of elements: xs is updated
						if id, ok := ix.X.(*ast.Ident); ok {
							if t := f.lookup(id.Name); t != nil && t.k == "slice" && t.elem.k == "elem" {
								set[id.Name] = true
							}
						}
					}
					if r := callRecvRoot(s); r != "" && f.isGrpVar(r) {
						set[r] = true
					}
					if r := callRecvRoot(s); r != "" && f.lookup(r) != nil && f.lookup(r).k == "bigpair" && se.Sel.Name == "Neg" {
						set[r] = true
					}
				}
			}
			return true
		})
	}
	var out []string
	for _, d := range f.declOrd {
		if set[d] && f.lookup(d) != nil {
			out = append(out, d)
		}
	}
	return out
}

// variables live now that occur in the nodes
func (f *impFn) freeVars(nodes ...ast.Node) []string {
	set := map[string]bool{}
	for _, n := range nodes {
		if n == nil {
			continue
		}
		ast.Inspect(n, func(m ast.Node) bool {
			switch s := m.(type) {
			case *ast.SelectorExpr:
				ast.Inspect(s.X, func(k ast.Node) bool {
					if id, ok := k.(*ast.Ident); ok {
						set[id.Name] = true
					}
					return true
				})
				return false
			case *ast.KeyValueExpr:
				ast.Inspect(s.Value, func(k ast.Node) bool {
					if id, ok := k.(*ast.Ident); ok {
						set[id.Name] = true
					}
					return true
				})
				return false
			case *ast.Ident:
				set[s.Name] = true
			}
			return true
		})
	}
	var out []string
	for _, d := range f.declOrd {
		if set[d] && f.lookup(d) != nil {
			out = append(out, d)
		}
	}
	return out
}

func impTuple(vs []string) string {
	if len(vs) == 0 {
		return "()"
	}
	if len(vs) == 1 {
		return vs[0]
	}
	return "(" + strings.Join(vs, ", ") + ")"
}

func (f *impFn) tupleTy(vs []string) string {
	if len(vs) == 0 {
		return "Unit"
	}
	var ts []string
	for _, v := range vs {
		ts = append(ts, f.p.ltyA(f.lookup(v), false))
	}
	return strings.Join(ts, " × ")
}

func lnames(vs []string) []string {
	var o []string
	for _, v := range vs {
		o = append(o, lname(v))
	}
	return o
}

func whArgs(u iuses) string {
	s := ""
	if u.W {
		s += " W"
	}
	if u.H {
		s += " H"
	}
	if u.S {
		s += " hSize"
	}
	if u.B {
		s += " hBlockSize"
	}
	return s + impAbsArgs
}

func whParams(u iuses) string {
	s := ""
	if u.W {
		s += " (W : Bytes → Option Bytes)"
	}
	if u.H {
		s += " (H : Bytes → Bytes)"
	}
	if u.S {
		s += " (hSize : Int)"
	}
	if u.B {
		s += " (hBlockSize : Int)"
	}
	return s + impAbsParams
}

// value of the lhs path after `lhs = val`: (root variable, its new value)
func (f *impFn) upd(lhs ast.Expr, val string, c *ictx) (string, string) {
	switch v := lhs.(type) {
	case *ast.ParenExpr:
		return f.upd(v.X, val, c)
	case *ast.Ident:
		if f.lookup(v.Name) == nil {
			f.p.die(lhs, "assignment to unknown variable %s", v.Name)
		}
		return v.Name, val
	case *ast.SelectorExpr:
		bt := exprText(v.X)
		wasFresh, wasNN := f.nonNil[freshKey+bt], f.nonNil[bt]
		sv := f.saveFresh()
		xs, xt := f.expr(v.X, nil, c)
		f.restoreFresh(sv)
		if xt.k == "lptr" {
			// write to a field of a list node: a value update of the path only if no other pointer to the node exists
			if !wasFresh || !wasNN {
				f.p.die(lhs, "write through the list pointer %s, which is not known to be fresh (`%s = &T{…}` just before, not read as a value since): the node could be shared", bt, bt)
			}
			if v.Sel.Name == f.p.listNext[xt.elem.name] {
				f.p.die(lhs, "assignment to the link field of a list node")
			}
			return f.upd(v.X, "({ nodeOf "+parenImp(xs)+" with "+v.Sel.Name+" := "+val+" } :: "+parenImp(xs)+".tail)", c)
		}
		if xt.k == "ptr" {
			f.p.die(lhs, "write through the pointer %s (outside the subset: pointers are immutable values)", exprText(v.X))
		}
		if xt.k != "struct" {
			f.p.die(lhs, "field write on %v", xt)
		}
		return f.upd(v.X, "{ "+xs+" with "+v.Sel.Name+" := "+val+" }", c)
	case *ast.IndexExpr:
		xs, xt := f.expr(v.X, nil, c)
		if xt.k != "map" {
			f.p.die(lhs, "element write on %v (slices are values in the subset)", xt)
		}
		ks, kt := f.expr(v.Index, tyString, c)
		if kt.k != "string" {
			f.p.die(lhs, "map key type")
		}
		return f.upd(v.X, parenImp(xs)+".set "+parenImp(ks)+" "+parenImp(val), c)
	}
	f.p.die(lhs, "assignment target outside the subset")
	return "", ""
}

func (f *impFn) lhsType(lhs ast.Expr, c *ictx) *ity {
	if ix, ok := lhs.(*ast.IndexExpr); ok {
		_, xt := f.expr(ix.X, nil, c)
		if xt.k == "map" {
			return xt.elem
		}
		f.p.die(lhs, "element write on %v (slices are values in the subset)", xt)
	}
	_, t := f.expr(lhs, nil, c)
	return t
}

// a simple statement as `let` lines
func (f *impFn) simple(s ast.Stmt, prev ast.Stmt, c *ictx) []string {
	p := f.p
	f.inLoopNow = c.inLoop
	if p.tg.digest {
		if lines, ok := f.digestSimple(s, c); ok {
			return lines
		}
	}
	switch v := s.(type) {
	case *ast.AssignStmt:
		if v.Tok != token.DEFINE && v.Tok != token.ASSIGN {
			p.die(s, "assignment operator %s", v.Tok)
		}
		if len(v.Lhs) == 2 && len(v.Rhs) == 1 {
			if call, ok := v.Rhs[0].(*ast.CallExpr); ok && p.tg.mode == "h2f" && len(call.Args) == 2 && v.Tok == token.DEFINE {
				// `_, ok := x.SetString(s, 0)` on a scratch big.Int: PARAMETER bigSetString (value, ok); x is unspecified when !ok
				if se, isSel := call.Fun.(*ast.SelectorExpr); isSel && se.Sel.Name == "SetString" {
					if id, isId := se.X.(*ast.Ident); isId && f.lookup(id.Name) != nil && f.lookup(id.Name).k == "bigint" {
						l0, ok0 := v.Lhs[0].(*ast.Ident)
						l1, ok1 := v.Lhs[1].(*ast.Ident)
						if !f.isFresh(id.Name) || f.bigDead[id.Name] {
							p.die(s, "%s.SetString(…) on a big.Int that is not a live scratch object", id.Name)
						}
						if !ok0 || !ok1 || l0.Name != "_" || l1.Name == "_" || exprText(call.Args[1]) != "0" {
							p.die(s, "SetString form (only `_, ok := x.SetString(s, 0)`)")
						}
						ss, st := f.expr(call.Args[0], tyString, c)
						if st.k != "string" {
							p.die(s, "SetString argument type")
						}
						f.declare(s, l1.Name, tyBool)
						delete(f.bigUninit, id.Name)
						return []string{"let (" + lname(id.Name) + ", " + lname(l1.Name) + ") := bigSetString " + parenImp(ss)}
					}
				}
			}
			names := func(ts ...*ity) []string {
				var ns []string
				for i, l := range v.Lhs {
					id, ok := l.(*ast.Ident)
					if !ok {
						p.die(l, "tuple assignment to a non-variable")
					}
					if id.Name == "_" {
						ns = append(ns, "_")
						continue
					}
					if v.Tok == token.DEFINE {
						f.declare(l, id.Name, ts[i])
					} else if t := f.lookup(id.Name); t == nil || !t.eq(ts[i]) {
						p.die(l, "tuple assignment type")
					} else {
						f.killGuards(id.Name)
					}
					ns = append(ns, lname(id.Name))
				}
				return ns
			}
			if ix, ok := v.Rhs[0].(*ast.IndexExpr); ok { // v, ok := m[k]
				xs, xt := f.expr(ix.X, nil, c)
				if xt.k != "map" {
					p.die(s, "comma-ok on %v", xt)
				}
				ks, kt := f.expr(ix.Index, tyString, c)
				if kt.k != "string" {
					p.die(s, "map key type")
				}
				ns := names(xt.elem, tyBool)
				return []string{"let (" + ns[0] + ", " + ns[1] + ") := " + parenImp(xs) + ".lookup " + parenImp(ks)}
			}
			if call, ok := v.Rhs[0].(*ast.CallExpr); ok && exprText(call.Fun) == "io.ReadFull" && len(call.Args) == 2 && f.lookup("io") == nil {
				// n, err := io.ReadFull(r, buf): buf must be the local created by make in the statement just before (nobody else holds it)
				rid, ok1 := call.Args[0].(*ast.Ident)
				bid, ok2 := call.Args[1].(*ast.Ident)
				if !ok1 || !ok2 {
					p.die(s, "io.ReadFull form (only variables)")
				}
				rt, bt := f.lookup(rid.Name), f.lookup(bid.Name)
				if rt == nil || rt.k != "reader" || bt == nil || !bt.eq(tyBytes) {
					p.die(s, "io.ReadFull(%v, %v)", rt, bt)
				}
				okPrev := false
				if pa, ok := prev.(*ast.AssignStmt); ok && len(pa.Lhs) == 1 && len(pa.Rhs) == 1 && exprText(pa.Lhs[0]) == bid.Name {
					if mk, ok := pa.Rhs[0].(*ast.CallExpr); ok && exprText(mk.Fun) == "make" {
						okPrev = true
					}
				}
				if !okPrev {
					p.die(s, "io.ReadFull into a buffer that was not created by make in the statement just before (it could be aliased)")
				}
				ns := names(tyInt, tyErr)
				return []string{"let (" + lname(rid.Name) + ", " + lname(bid.Name) + ", " + ns[0] + ", " + ns[1] + ") := readFull " + lname(rid.Name) + " " + lname(bid.Name)}
			}
			if call, ok := v.Rhs[0].(*ast.CallExpr); ok {
				if x, m, ok := f.hashCall(call, c); ok && m == "Write" && len(call.Args) == 1 {
					xs, _ := f.expr(x, nil, c)
					as, at := f.expr(call.Args[0], tyBytes, c)
					if !at.eq(tyBytes) {
						p.die(s, "Write argument")
					}
					c.uses.W = true
					tmp := strings.NewReplacer(".", "_", "(", "", ")", "").Replace(exprText(x))
					ns := names(tyInt, tyErr)
					root, nv := f.upd(x, tmp, c)
					f.killGuards(exprText(x))
					return []string{"let (" + tmp + ", (" + ns[0] + ", " + ns[1] + ")) := Hash.Write W " + parenImp(xs) + " " + parenImp(as),
						"let " + lname(root) + " := " + nv}
				}
			}
			if call, ok := v.Rhs[0].(*ast.CallExpr); ok && p.tg.mode == "h2f" && exprText(call.Fun) == "hash.ExpandMsgXmd" && len(call.Args) == 3 && f.lookup("hash") == nil {
				// the already-translated field/hash.ExpandMsgXmd: an explicit PARAMETER of the def
				if p.imports["hash"] != "github.com/consensys/gnark-crypto/field/hash" {
					p.die(s, "package `hash` is %q, not gnark-crypto/field/hash", p.imports["hash"])
				}
				var as []string
				for i, a := range call.Args {
					w := []*ity{tyBytes, tyBytes, tyInt}[i]
					es, et := f.sliceVal(a, w, c)
					if !et.eq(w) {
						p.die(a, "argument %d of hash.ExpandMsgXmd: %v expected, %v given", i, w, et)
					}
					as = append(as, parenImp(es))
				}
				ns := names(tyBytes, tyErr)
				return []string{"let (" + ns[0] + ", " + ns[1] + ") := ExpandMsgXmd " + strings.Join(as, " ")}
			}
			p.die(s, "tuple assignment outside the subset")
		}
		if len(v.Lhs) != 1 || len(v.Rhs) != 1 {
			p.die(s, "assignment arity")
		}
		if call, ok := v.Rhs[0].(*ast.CallExpr); ok && exprText(call.Fun) == "append" && !isCopyAppend(call) {
			if exprText(v.Lhs[0]) != exprText(call.Args[0]) {
				p.die(s, "append whose result is not stored back into its first argument")
			}
		}
		if v.Tok == token.DEFINE {
			id, ok := v.Lhs[0].(*ast.Ident)
			if !ok {
				p.die(s, ":= to a non-variable")
			}
			if call, ok := v.Rhs[0].(*ast.CallExpr); ok && exprText(call.Fun) == "pool.BigInt.Get" && len(call.Args) == 0 && p.tg.mode == "h2f" {
				if p.imports["pool"] != "github.com/consensys/gnark-crypto/field/pool" {
					p.die(s, "package `pool` is %q, not gnark-crypto/field/pool", p.imports["pool"])
				}
				f.checkBigScratch(v, id.Name)
				f.declare(s, id.Name, &ity{k: "bigint"})
				if f.bigFresh == nil {
					f.bigFresh = map[string]bool{}
				}
				if f.bigUninit == nil {
					f.bigUninit = map[string]bool{}
				}
				if f.bigScratch == nil {
					f.bigScratch = map[string]bool{}
				}
				f.bigScratch[id.Name] = true
				f.bigFresh[id.Name], f.bigUninit[id.Name] = true, true
				return []string{"let " + lname(id.Name) + " : Int := 0  -- pool.BigInt.Get(): a fresh scratch object (contents unspecified: checked to be set before it is read, not to escape, not to be used after Put)"}
			}
			nn, _ := f.rhsNonNil(v.Rhs[0])
			es, et := f.expr(v.Rhs[0], nil, c)
			f.declare(s, id.Name, et)
			if et.k == "lptr" && nn {
				f.nonNil[id.Name] = true
			}
			if _, isLit := v.Rhs[0].(*ast.BasicLit); isLit || et.k == "struct" {
				return []string{"let " + lname(id.Name) + " : " + p.lty(et, true) + " := " + es}
			}
			return []string{"let " + lname(id.Name) + " := " + es}
		}
		if p.tg.ext && v.Tok == token.ASSIGN {
			if lines, ok := f.frAssign(v, c); ok {
				return lines
			}
		}
		if ix, ok := v.Lhs[0].(*ast.IndexExpr); ok && v.Tok == token.ASSIGN {
			if id, ok := ix.X.(*ast.Ident); ok {
				if t := f.lookup(id.Name); t != nil && t.k == "slice" {
					// x[j] = v on a local buffer that is only ever created by make and never aliased: a value update
					f.checkFreshLocal(s, id.Name)
					js, jt := f.expr(ix.Index, tyInt, c)
					es, et := f.expr(v.Rhs[0], t.elem, c)
					if jt.k != "int" || !et.eq(t.elem) {
						p.die(s, "element write types")
					}
					return []string{"let " + lname(id.Name) + " := setAt " + lname(id.Name) + " " + parenImp(js) + " " + parenImp(es)}
				}
			}
		}
		if id, ok := v.Lhs[0].(*ast.Ident); ok && v.Tok == token.ASSIGN {
			if t := f.lookup(id.Name); t != nil && t.k == "bigint" {
				if call, ok := v.Rhs[0].(*ast.CallExpr); ok && exprText(call.Fun) == "pool.BigInt.Get" && len(call.Args) == 0 {
					if f.bigFresh == nil {
						f.bigFresh = map[string]bool{}
					}
					if f.bigUninit == nil {
						f.bigUninit = map[string]bool{}
					}
					f.bigFresh[id.Name], f.bigUninit[id.Name] = true, true
					return []string{"let " + lname(id.Name) + " : Int := 0  -- pool.BigInt.Get(): a fresh scratch object (contents unspecified: checked to be set before it is read)"}
				}
				delete(f.bigFresh, id.Name)
			}
		}
		sv0 := f.saveFresh()
		lt := f.lhsType(v.Lhs[0], c)
		f.restoreFresh(sv0) // typing the left-hand side reads nothing
		nn, lit := f.rhsNonNil(v.Rhs[0])
		es, et := f.expr(v.Rhs[0], lt, c)
		if !et.eq(lt) {
			p.die(s, "assignment of %v to %v", et, lt)
		}
		nodeBase := ""
		if se, ok := v.Lhs[0].(*ast.SelectorExpr); ok {
			sv := f.saveFresh()
			if _, bt := f.expr(se.X, nil, c); bt.k == "lptr" {
				nodeBase = exprText(se.X)
			}
			f.restoreFresh(sv)
		}
		root, nv := f.upd(v.Lhs[0], es, c)
		f.killGuards(exprText(v.Lhs[0]))
		if lt.k == "lptr" && nn {
			f.nonNil[exprText(v.Lhs[0])] = true
			if lit {
				f.nonNil[freshKey+exprText(v.Lhs[0])] = true
			}
		}
		if nodeBase != "" { // a field of the (fresh) node was written: the pointer itself is what it was
			f.nonNil[nodeBase], f.nonNil[freshKey+nodeBase] = true, true
		}
		return []string{"let " + lname(root) + " := " + nv}
	case *ast.IncDecStmt:
		xs, xt := f.expr(v.X, nil, c)
		if xt.k != "int" && xt.k != "uint64" {
			p.die(s, "%s on %v", v.Tok, xt)
		}
		op := " + 1"
		if v.Tok == token.DEC {
			op = " - 1"
		}
		val := xs + op
		if xt.k == "uint64" {
			val = "(" + xs + " + " + map[bool]string{true: "(2^64 - 1)", false: "1"}[v.Tok == token.DEC] + ") % 2^64"
		}
		root, nv := f.upd(v.X, val, c)
		f.killGuards(exprText(v.X))
		return []string{"let " + lname(root) + " := " + nv}
	case *ast.ExprStmt:
		call, ok := v.X.(*ast.CallExpr)
		if !ok {
			p.die(s, "expression statement")
		}
		if f.p.tg.grp != "" {
			if lines, ok := f.grpStmt(call, c); ok {
				return lines
			}
		}
		if f.p.tg.ext {
			// k[i].Neg(&k[i]) on the pair returned by ecc.SplitScalar (a value owned by the function)
			if se, ok := call.Fun.(*ast.SelectorExpr); ok && se.Sel.Name == "Neg" && len(call.Args) == 1 {
				if ix, ok := se.X.(*ast.IndexExpr); ok {
					if id, ok := ix.X.(*ast.Ident); ok && f.lookup(id.Name) != nil && f.lookup(id.Name).k == "bigpair" {
						u, ok := call.Args[0].(*ast.UnaryExpr)
						if !ok || u.Op != token.AND || exprText(u.X) != exprText(ix) {
							p.die(s, "Neg on the split pair (only k[i].Neg(&k[i]))")
						}
						n := litInt(ix.Index)
						if n == nil || (n.Int64() != 0 && n.Int64() != 1) {
							p.die(s, "index of the split pair")
						}
						k := lname(id.Name)
						if n.Int64() == 0 {
							return []string{"let " + k + " := (-(" + k + ".1), " + k + ".2)"}
						}
						return []string{"let " + k + " := (" + k + ".1, -(" + k + ".2))"}
					}
				}
			}
		}
		if se, ok := call.Fun.(*ast.SelectorExpr); ok {
			if id, ok := se.X.(*ast.Ident); ok {
				if t := f.lookup(id.Name); t != nil && t.k == "elem" {
					// field-level reading of the element primitives: the receiver gets the value of the operation on its
					// (pointer) arguments; operands are read before the receiver is written (C01 limb level, C19)
					arg := func(a ast.Expr) string {
						if u, ok := a.(*ast.UnaryExpr); ok && u.Op == token.AND {
							a = u.X
						}
						aid, ok := a.(*ast.Ident)
						if !ok || f.lookup(aid.Name) == nil || f.lookup(aid.Name).k != "elem" {
							p.die(a, "element argument (only z or &x)")
						}
						return lname(aid.Name)
					}
					var val string
					switch {
					case se.Sel.Name == "SetOne" && len(call.Args) == 0:
						val = "one"
					case se.Sel.Name == "Set" && len(call.Args) == 1:
						val = arg(call.Args[0])
					case se.Sel.Name == "Square" && len(call.Args) == 1:
						val = "mul " + arg(call.Args[0]) + " " + arg(call.Args[0])
					case se.Sel.Name == "Mul" && len(call.Args) == 2:
						val = "mul " + arg(call.Args[0]) + " " + arg(call.Args[1])
					case se.Sel.Name == "Inverse" && len(call.Args) == 1:
						val = "inv " + arg(call.Args[0])
					case se.Sel.Name == "SetZero" && len(call.Args) == 0 && p.tg.mode == "h2f":
						val = "zeroF"
					case se.Sel.Name == "SetUint64" && len(call.Args) == 1 && p.tg.mode == "h2f":
						// PARAMETER setUint64F
						us, ut := f.expr(call.Args[0], tyU64, c)
						if ut.k != "uint64" {
							p.die(s, "SetUint64 argument type %v", ut)
						}
						val = "setUint64F " + parenImp(us)
					case se.Sel.Name == "Neg" && len(call.Args) == 1 && p.tg.mode == "h2f":
						val = "negF " + arg(call.Args[0]) // PARAMETER negF
					case p.tg.mode == "h2f" && p.elemMeth[se.Sel.Name] != nil && len(call.Args) == len(p.elemMeth[se.Sel.Name].params):
						// a method `func (z *Element) M(…) *Element` of this target translated before
						_, margs := h2fParams(se.Sel.Name)
						val = se.Sel.Name + margs + " " + lname(id.Name)
						for i, a := range call.Args {
							if p.elemMeth[se.Sel.Name].params[i].k != "bigint" {
								p.die(a, "argument %d of %s", i, se.Sel.Name)
							}
							val += " " + parenImp(f.h2fBigArg(a, c))
						}
					case se.Sel.Name == "setBigInt" && len(call.Args) == 1 && p.tg.mode == "h2f":
						// the limb-level primitive (assumes 0 ≤ v < q): PARAMETER setBigIntF
						if p.funcs["setBigInt"] == nil || p.funcs["setBigInt"].Recv == nil {
							p.die(s, "method setBigInt not found")
						}
						val = "setBigIntF " + parenImp(f.h2fBigArg(call.Args[0], c))
					default:
						p.die(s, "element method %s outside the subset", se.Sel.Name)
					}
					return []string{"let " + lname(id.Name) + " := " + val}
				}
				if t := f.lookup(id.Name); t != nil && t.k == "bigint" {
					if se.Sel.Name == "Set" && len(call.Args) == 1 && f.bigLocal[id.Name] {
						as, at := f.bigArg(call.Args[0], c)
						if at.k != "bigint" {
							p.die(s, "Set argument")
						}
						return []string{"let " + lname(id.Name) + " := " + as}
					}
					if se.Sel.Name == "Neg" && len(call.Args) == 1 && f.bigLocal[id.Name] {
						as, at := f.bigArg(call.Args[0], c)
						if at.k != "bigint" {
							p.die(s, "Neg argument")
						}
						return []string{"let " + lname(id.Name) + " := -" + parenImp(as)}
					}
					if se.Sel.Name == "Neg" && len(call.Args) == 1 {
						if !f.bigFresh[id.Name] {
							p.die(s, "%s.Neg(…) on a big.Int that is not known to be a fresh object (could be the caller's)", id.Name)
						}
						as, at := f.expr(call.Args[0], nil, c)
						if at.k != "bigint" {
							p.die(s, "Neg argument")
						}
						delete(f.bigUninit, id.Name)
						return []string{"let " + lname(id.Name) + " := -" + parenImp(as)}
					}
					if (se.Sel.Name == "SetBytes" || se.Sel.Name == "Mod") && p.tg.mode == "h2f" {
						if !f.isFresh(id.Name) {
							p.die(s, "%s.%s(…) on a big.Int that is not known to be a fresh object (could be the caller's)", id.Name, se.Sel.Name)
						}
						if f.bigDead[id.Name] {
							p.die(s, "%s is used after pool.BigInt.Put(%s)", id.Name, id.Name)
						}
						var val string
						if se.Sel.Name == "Mod" && len(call.Args) == 2 {
							// x.Mod(a, m): Euclidean remainder a mod m, 0 ≤ result < |m| (m = 0 panics in Go: not modelled)
							val = "bigMod " + parenImp(f.h2fBigArg(call.Args[0], c)) + " " + parenImp(f.h2fBigArg(call.Args[1], c))
						} else if sl, ok := call.Args[0].(*ast.SliceExpr); ok && se.Sel.Name == "SetBytes" && len(call.Args) == 1 && sl.Low != nil && sl.High != nil && sl.Max == nil {
							// x.SetBytes(s[a:b]): the window is only read (SetBytes copies); bounds out of range panic in Go: not modelled
							xs, xt := f.sliceVal(sl.X, tyBytes, c)
							ls, lt := f.expr(sl.Low, tyInt, c)
							hs, ht := f.expr(sl.High, tyInt, c)
							if !xt.eq(tyBytes) || lt.k != "int" || ht.k != "int" {
								p.die(s, "SetBytes argument types")
							}
							val = "bigSetBytes (sliceOf " + parenImp(xs) + " " + parenImp(ls) + " " + parenImp(hs) + ")"
						} else if se.Sel.Name == "SetBytes" && len(call.Args) == 1 {
							xs, xt := f.sliceVal(call.Args[0], tyBytes, c)
							if !xt.eq(tyBytes) {
								p.die(s, "SetBytes argument type")
							}
							val = "bigSetBytes " + parenImp(xs)
						} else {
							p.die(s, "big.Int method %s form", se.Sel.Name)
						}
						delete(f.bigUninit, id.Name)
						return []string{"let " + lname(id.Name) + " := " + val}
					}
					p.die(s, "big.Int method %s as a statement", se.Sel.Name)
				}
			}
		}
		if se, ok := call.Fun.(*ast.SelectorExpr); ok && f.recv != "" && !f.evRecv && exprText(se.X) == f.recv {
			if m := p.recvMeths[se.Sel.Name]; m != nil {
				if !m.mutates || len(m.results) != 0 {
					p.die(s, "call statement of the method %s (only methods without results that modify the receiver)", se.Sel.Name)
				}
				txt := f.recvMethodCall(call, se.Sel.Name, m, c)
				f.killGuards(f.recv)
				return []string{"let " + lname(f.recv) + " := " + txt}
			}
		}
		if se, ok := call.Fun.(*ast.SelectorExpr); ok && p.tg.mode == "h2f" {
			if ix, ok := se.X.(*ast.IndexExpr); ok {
				// xs[i].M(args) with M a method `func (z *Element) M(…) *Element` of this target translated before: xs[i] gets M's result
				id, isId := ix.X.(*ast.Ident)
				sig := p.elemMeth[se.Sel.Name]
				if !isId || sig == nil {
					p.die(s, "method call on an indexed element outside the subset")
				}
				t := f.lookup(id.Name)
				if t == nil || t.k != "slice" || t.elem.k != "elem" {
					p.die(s, "indexed method call on %v", t)
				}
				f.checkFreshLocal(s, id.Name)
				js, jt := f.expr(ix.Index, tyInt, c)
				if jt.k != "int" || len(call.Args) != len(sig.params) {
					p.die(s, "indexed method call: index type / arity")
				}
				_, margs := h2fParams(se.Sel.Name)
				out := se.Sel.Name + margs + " (index " + lname(id.Name) + " " + parenImp(js) + ")"
				for i, a := range call.Args {
					var as string
					if sig.params[i].k == "bigint" {
						as = f.h2fBigArg(a, c)
					} else {
						var at *ity
						as, at = f.expr(a, sig.params[i], c)
						if !at.eq(sig.params[i]) {
							p.die(a, "argument %d of %s", i, se.Sel.Name)
						}
					}
					out += " " + parenImp(as)
				}
				return []string{"let " + lname(id.Name) + " := setAt " + lname(id.Name) + " " + parenImp(js) + " (" + out + ")"}
			}
		}
		if exprText(call.Fun) == "pool.BigInt.Put" && len(call.Args) == 1 && p.tg.mode == "h2f" {
			id, ok := call.Args[0].(*ast.Ident)
			if !ok || !f.isFresh(id.Name) {
				p.die(s, "pool.BigInt.Put of something that is not a scratch object obtained by Get in this function")
			}
			if f.bigDead == nil {
				f.bigDead = map[string]bool{}
			}
			f.bigDead[id.Name] = true
			return []string{"-- pool.BigInt.Put(" + id.Name + "): memory pool only (" + id.Name + " is not used afterwards: checked)"}
		}
		if id, ok := call.Fun.(*ast.Ident); ok {
			if t := f.lookup(id.Name); t != nil && t.k == "events" {
				if len(call.Args) != t.n || id.Name != f.recv {
					p.die(s, "callback call arity")
				}
				var as []string
				for _, a := range call.Args {
					es, et := f.expr(a, tyInt, c)
					if et.k != "int" {
						p.die(a, "callback argument type %v", et)
					}
					as = append(as, es)
				}
				return []string{"let " + lname(id.Name) + " := " + lname(id.Name) + " ++ [(" + strings.Join(as, ", ") + ")]"}
			}
		}
		if se, ok := call.Fun.(*ast.SelectorExpr); ok {
			if id, ok := se.X.(*ast.Ident); ok {
				if t := f.lookup(id.Name); t != nil && t.k == "waitgroup" {
					switch se.Sel.Name {
					case "Add", "Done", "Wait":
						return []string{"-- " + exprText(call.Fun) + "(…): synchronisation only, no effect on the recorded events"}
					}
					p.die(s, "sync.WaitGroup method %s", se.Sel.Name)
				}
			}
		}
		if exprText(call.Fun) == "copy" && len(call.Args) == 2 {
			okPrev := false
			if pa, ok := prev.(*ast.AssignStmt); ok && len(pa.Lhs) == 1 && len(pa.Rhs) == 1 && exprText(pa.Lhs[0]) == exprText(call.Args[0]) {
				if mk, ok := pa.Rhs[0].(*ast.CallExpr); ok && exprText(mk.Fun) == "make" {
					okPrev = true
				}
			}
			if se, ok := call.Args[0].(*ast.SliceExpr); ok {
				// copy(x[a:b], src) into a window of a local buffer that is only ever created by make and never aliased
				id, isId := se.X.(*ast.Ident)
				if !isId || se.Max != nil {
					p.die(s, "copy into a slice expression of something that is not a local variable")
				}
				f.checkFreshLocal(s, id.Name)
				xs, xt := f.expr(se.X, nil, c)
				if xt.k != "slice" {
					p.die(s, "copy into %v", xt)
				}
				lo, hi := "0", "len "+parenImp(xs)
				if se.Low != nil {
					ls, lt := f.expr(se.Low, tyInt, c)
					if lt.k != "int" {
						p.die(s, "slice bound type")
					}
					lo = ls
				}
				if se.High != nil {
					hs, ht := f.expr(se.High, tyInt, c)
					if ht.k != "int" {
						p.die(s, "slice bound type")
					}
					hi = hs
				}
				ss, st := f.expr(call.Args[1], xt, c)
				if !st.eq(xt) {
					p.die(s, "copy(%v, %v)", xt, st)
				}
				return []string{"let " + lname(id.Name) + " := copyAt " + parenImp(xs) + " " + parenImp(lo) + " " + parenImp(hi) + " " + parenImp(ss)}
			}
			if !okPrev {
				p.die(s, "copy(dst, …) whose dst was not created by make in the statement just before (dst could be aliased)")
			}
			ds, dt := f.expr(call.Args[0], nil, c)
			ss, st := f.expr(call.Args[1], dt, c)
			if dt.k != "slice" || !(st.eq(dt) || (st.k == "string" && dt.eq(tyBytes))) {
				p.die(s, "copy(%v, %v)", dt, st)
			}
			if st.k == "string" {
				ss = "bytesOfString " + parenImp(ss)
			}
			root, nv := f.upd(call.Args[0], "copy "+parenImp(ds)+" "+parenImp(ss), c)
			f.killGuards(exprText(call.Args[0]))
			return []string{"let " + lname(root) + " := " + nv}
		}
		if x, m, ok := f.hashCall(call, c); ok {
			xs, _ := f.expr(x, nil, c)
			var val string
			switch {
			case m == "Reset" && len(call.Args) == 0:
				val = "Hash.Reset " + parenImp(xs)
			case m == "Write" && len(call.Args) == 1:
				as, at := f.expr(call.Args[0], tyBytes, c)
				if !at.eq(tyBytes) {
					p.die(s, "Write argument")
				}
				c.uses.W = true
				val = "(Hash.Write W " + parenImp(xs) + " " + parenImp(as) + ").1"
			default:
				p.die(s, "hash method %s as a statement", m)
			}
			root, nv := f.upd(x, val, c)
			f.killGuards(exprText(x))
			return []string{"let " + lname(root) + " := " + nv}
		}
		p.die(s, "call statement %s outside the subset", exprText(call.Fun))
	case *ast.DeclStmt:
		gd, ok := v.Decl.(*ast.GenDecl)
		if ok && gd.Tok == token.CONST && p.tg.mode == "h2f" {
			// local `const X = e`: an (untyped) integer constant expression, exact arithmetic
			var out []string
			for _, sp := range gd.Specs {
				vs := sp.(*ast.ValueSpec)
				if vs.Type != nil || len(vs.Values) != len(vs.Names) {
					p.die(s, "const declaration form (only `const X = e`)")
				}
				for i, n := range vs.Names {
					es, et := f.expr(vs.Values[i], tyInt, c)
					if et.k != "int" {
						p.die(s, "const %s: integer expression expected", n.Name)
					}
					f.declare(s, n.Name, tyInt)
					out = append(out, "let "+lname(n.Name)+" : Int := "+es)
				}
			}
			return out
		}
		if ok && gd.Tok == token.CONST && p.tg.grp != "" && len(gd.Specs) == 1 {
			// `const n = bits.UintSize`: 64 (64-bit platforms, as for uint); an untyped integer constant used as an int
			vs := gd.Specs[0].(*ast.ValueSpec)
			if vs.Type == nil && len(vs.Names) == 1 && len(vs.Values) == 1 && exprText(vs.Values[0]) == "bits.UintSize" {
				f.declare(s, vs.Names[0].Name, tyInt)
				return []string{"let " + lname(vs.Names[0].Name) + " : Int := 64  -- bits.UintSize on a 64-bit platform"}
			}
		}
		if !ok || gd.Tok != token.VAR {
			p.die(s, "declaration")
		}
		var out []string
		for _, sp := range gd.Specs {
			vs := sp.(*ast.ValueSpec)
			if vs.Type == nil || len(vs.Values) != 0 {
				p.die(s, "var declaration form (only `var x T`)")
			}
			t := p.goType(vs.Type)
			for _, n := range vs.Names {
				if t.k == "bigint" { // `var x big.Int`: the function's own object (value 0), may be mutated
					if _, isPtr := vs.Type.(*ast.StarExpr); isPtr {
						p.die(s, "var of type *big.Int")
					}
					if f.bigLocal == nil {
						f.bigLocal = map[string]bool{}
					}
					f.bigLocal[n.Name] = true
				}
				f.declare(s, n.Name, t)
				out = append(out, "let "+lname(n.Name)+" : "+p.lty(t, true)+" := "+p.zero(t))
			}
		}
		return out
	}
	p.die(s, "statement outside the subset (%T)", s)
	return nil
}

// append(x[:0:0], x...): a fresh copy of x
func isCopyAppend(v *ast.CallExpr) bool {
	if exprText(v.Fun) != "append" || !v.Ellipsis.IsValid() || len(v.Args) != 2 {
		return false
	}
	isZero := func(e ast.Expr) bool { b, ok := e.(*ast.BasicLit); return e == nil || (ok && b.Value == "0") }
	se, ok := v.Args[0].(*ast.SliceExpr)
	return ok && se.Slice3 && isZero(se.Low) && se.High != nil && isZero(se.High) && se.Max != nil && isZero(se.Max) && exprText(se.X) == exprText(v.Args[1])
}

func indent(lines []string, ind string) string {
	for i := range lines {
		lines[i] = ind + lines[i]
	}
	return strings.Join(lines, "\n")
}

func (f *impFn) enter(k *kont, c *ictx, ind string) string {
	if k == nil {
		return ind + c.fall()
	}
	f.popTo(k.depth)
	f.nonNil = copySet(k.nonNil)
	f.bigFresh = map[string]bool{}
	if k.call != "" {
		c.uses.or(k.uses)
		return ind + k.call
	}
	return f.seq(k.list, k.next, c, ind, nil, k.top)
}

func (f *impFn) lineNo(n ast.Node) int { return f.p.fset.Position(n.Pos()).Line }

func (f *impFn) seq(list []ast.Stmt, k *kont, c *ictx, ind string, prev ast.Stmt, top bool) string {
	p := f.p
	if len(list) == 0 {
		return f.enter(k, c, ind)
	}
	s, rest := list[0], list[1:]
	if _, ok := s.(*ast.IfStmt); !ok {
		f.seenStmt = true
	}
	switch v := s.(type) {
	case *ast.ReturnStmt:
		if f.retSelf {
			// `return z` or `return z.M(…)`: run the method on the receiver, the result is the receiver
			if len(v.Results) != 1 {
				p.die(s, "return arity")
			}
			if id, ok := v.Results[0].(*ast.Ident); ok && id.Name == f.recv {
				return ind + c.ret("()")
			}
			if call, ok := v.Results[0].(*ast.CallExpr); ok {
				if se, ok := call.Fun.(*ast.SelectorExpr); ok && exprText(se.X) == f.recv {
					lines := f.simple(&ast.ExprStmt{X: call}, prev, c)
					return indent(lines, ind) + "\n" + ind + c.ret("()")
				}
			}
			p.die(s, "return of something else than the receiver")
		}
		if len(v.Results) != len(f.results) {
			p.die(s, "return arity")
		}
		var vals []string
		for i, r := range v.Results {
			if w := f.results[i]; w.k == "nslice" {
				if id, ok := r.(*ast.Ident); ok && id.Name == "nil" && f.lookup("nil") == nil {
					vals = append(vals, "none")
					continue
				}
				es, et := f.expr(r, w.elem, c)
				if et.eq(w) {
					vals = append(vals, es)
				} else if et.eq(w.elem) {
					vals = append(vals, "some "+parenImp(es))
				} else {
					p.die(r, "return value %d: %v expected, %v given", i, w.elem, et)
				}
				continue
			}
			if id, ok := r.(*ast.Ident); ok && f.results[i].k == "ptr" && id.Name == f.recv && f.recvTy.eq(f.results[i].elem) {
				vals = append(vals, "some "+lname(f.recv)) // the returned pointer is the receiver
				continue
			}
			es, et := f.expr(r, f.results[i], c)
			if !et.eq(f.results[i]) {
				p.die(r, "return value %d: %v expected, %v given", i, f.results[i], et)
			}
			vals = append(vals, es)
		}
		return ind + c.ret(impTuple(vals))
	case *ast.BlockStmt:
		d := len(f.scopes)
		f.push()
		return f.seq(v.List, &kont{list: rest, next: k, depth: d, nonNil: copySet(f.nonNil), top: top}, c, ind, nil, false)
	case *ast.IfStmt:
		if top && prev == nil && v.Init == nil && v.Else == nil && len(v.Body.List) == 1 && f.ncont == 0 && f.nloop == 0 && !f.seenStmt {
			if es, ok := v.Body.List[0].(*ast.ExprStmt); ok {
				if call, ok := es.X.(*ast.CallExpr); ok && exprText(call.Fun) == "panic" && len(call.Args) == 1 && f.lookup("panic") == nil {
					// `if cond { panic(…) }` as the FIRST statement: the def describes the calls that do not panic here; the condition
					// (a function of the arguments) is emitted as `<fn>.panics`
					if _, ok := call.Args[0].(*ast.BasicLit); !ok {
						p.die(s, "panic argument (only a literal)")
					}
					u := &iuses{}
					cs, ct := f.expr(v.Cond, tyBool, &ictx{uses: u})
					if ct.k != "bool" || u.W || u.H || u.S || u.B {
						p.die(s, "panic condition")
					}
					var params []string
					for _, x := range f.freeVars(v.Cond) {
						params = append(params, "("+lname(x)+" : "+p.lty(f.lookup(x), false)+")")
					}
					f.helpers = append(f.helpers, fmt.Sprintf("/-- %s, line %d: the call panics (%s) exactly when this holds; the def below describes the other calls -/\ndef %s.panics %s : Bool :=\n  %s\n",
						f.name, f.lineNo(s), strings.ReplaceAll(exprText(call.Args[0]), "-/", "- /"), f.name, strings.Join(params, " "), cs))
					return ind + fmt.Sprintf("-- line %d: if %s { panic } — see %s.panics", f.lineNo(s), types.ExprString(v.Cond), f.name) + "\n" + f.seq(rest, k, c, ind, nil, top)
				}
			}
		}
		f.seenStmt = true
		return f.ifStmt(v, rest, k, c, ind, top)
	case *ast.RangeStmt:
		return f.rangeStmt(v, rest, k, c, ind, top)
	case *ast.DeferStmt:
		if exprText(v.Call.Fun) == "pool.BigInt.Put" && len(v.Call.Args) == 1 {
			// giving a scratch big.Int back to the pool at exit: no effect on the result
			return ind + "-- defer pool.BigInt.Put(" + exprText(v.Call.Args[0]) + "): memory pool only\n" + f.seq(rest, k, c, ind, s, top)
		}
		if !top || c.inLoop {
			p.die(s, "defer that is not at the top level of the function body")
		}
		if f.recv == "" {
			p.die(s, "defer in a function without receiver")
		}
		if len(v.Call.Args) != 0 {
			p.die(s, "defer of a call with arguments (they are evaluated at defer time: outside the subset)")
		}
		if _, m, ok := f.hashCall(v.Call, c); !ok || m != "Reset" {
			p.die(s, "deferred call outside the subset")
		}
		if rootOf(v.Call.Fun) != f.recv {
			p.die(s, "deferred call must act on the receiver")
		}
		ss, sg := f.snap()
		inner := f.seq(rest, k, c, ind+"  ", s, top)
		f.restore(ss, sg)
		f.nonNil = map[string]bool{}
		dl := f.simple(&ast.ExprStmt{X: v.Call}, nil, c)
		pat := lname(f.recv)
		if len(f.results) > 0 {
			pat = "(" + lname(f.recv) + ", ret_)"
		}
		out := []string{
			fmt.Sprintf("%s-- line %d: defer %s()  — runs at every exit below, after the return values are evaluated", ind, f.lineNo(s), exprText(v.Call.Fun)),
			ind + "let " + pat + " := (",
			inner + ")",
			indent(dl, ind),
			ind + pat,
		}
		return strings.Join(out, "\n")
	case *ast.ForStmt:
		return f.forStmt(v, rest, k, c, ind, top)
	case *ast.BranchStmt:
		if v.Tok == token.BREAK && v.Label == nil && c.brk != nil {
			return ind + c.brk()
		}
		p.die(s, "%s outside the subset", v.Tok)
	case *ast.GoStmt:
		// `go func() { … }()`: the closure body is run at the launch point (what is recorded is the ORDER OF LAUNCHES and the
		// arguments handed to the callback); it may only use variables that cannot change after the launch
		fl, ok := v.Call.Fun.(*ast.FuncLit)
		if !ok || len(v.Call.Args) != 0 || len(fl.Type.Params.List) != 0 || (fl.Type.Results != nil && len(fl.Type.Results.List) != 0) {
			p.die(s, "go statement form (only `go func() { … }()`)")
		}
		if hasReturn(fl.Body) {
			p.die(s, "return / break inside a goroutine body")
		}
		if len(f.assigned(fl.Body)) > 0 {
			for _, a := range f.assigned(fl.Body) {
				if t := f.lookup(a); t.k != "events" && t.k != "waitgroup" {
					p.die(s, "goroutine body assigns the captured variable %s", a)
				}
			}
		}
		for _, x := range f.freeVars(fl.Body) {
			t := f.lookup(x)
			if t.k == "events" || t.k == "waitgroup" {
				continue
			}
			if c.inLoop {
				d := -1
				for i := len(f.scopes) - 1; i >= 0; i-- {
					if _, ok := f.scopes[i][x]; ok {
						d = i
						break
					}
				}
				if d < c.loopDepth {
					p.die(s, "goroutine captures %s, which is not declared inside the same loop iteration", x)
				}
			}
			f.checkNotAssignedAfter(v, x)
		}
		return ind + "-- go func() { … }(): launched here; events are recorded in launch order\n" +
			f.seq(append([]ast.Stmt{fl.Body}, rest...), k, c, ind, nil, top)
	case *ast.SwitchStmt, *ast.SelectStmt, *ast.TypeSwitchStmt, *ast.LabeledStmt, *ast.SendStmt:
		p.die(s, "statement outside the subset (%T)", s)
	}
	lines := f.simple(s, prev, c)
	return indent(lines, ind) + "\n" + f.seq(rest, k, c, ind, s, top)
}

func (f *impFn) ifStmt(v *ast.IfStmt, rest []ast.Stmt, k *kont, c *ictx, ind string, top bool) string {
	p := f.p
	depth0 := len(f.scopes)
	// guards valid in the continuation: those from before whose root variable the statement does not assign (+ the negated
	// condition when the then-branch always leaves and there is no else)
	touched := map[string]bool{}
	for _, a := range f.assigned(v) {
		touched[a] = true
	}
	rootName := func(g string) string {
		if i := strings.IndexAny(g, ".["); i >= 0 {
			return g[:i]
		}
		return g
	}
	kg := map[string]bool{}
	for g := range f.nonNil {
		if !touched[rootName(g)] && !strings.HasPrefix(g, freshKey) {
			kg[g] = true
		}
	}
	f.push()
	var pre []string
	if v.Init != nil {
		pre = f.simple(v.Init, nil, c)
	}
	cond, ct := f.expr(v.Cond, tyBool, c)
	if ct.k != "bool" {
		p.die(v, "condition type")
	}
	var negG, posG []string
	nilTests(v.Cond, token.LOR, token.EQL, &negG)
	nilTests(v.Cond, token.LAND, token.NEQ, &posG)
	var elseList []ast.Stmt
	switch e := v.Else.(type) {
	case *ast.BlockStmt:
		elseList = e.List
	case *ast.IfStmt:
		elseList = []ast.Stmt{e}
	}
	thenFalls := falls(v.Body.List)
	elseFalls := v.Else == nil || falls(elseList)
	anyRet := hasReturn(v.Body) || (v.Else != nil && hasReturn(v.Else))
	if v.Else == nil && !thenFalls {
		for _, g := range negG {
			if !touched[rootName(g)] {
				kg[g] = true
			}
		}
	}
	K := &kont{list: rest, next: k, depth: depth0, nonNil: kg, top: top}
	ss, sg := f.snap()
	head := ""
	if len(pre) > 0 {
		head = indent(pre, ind) + "\n"
	}
	branch := func(list []ast.Stmt, gs []string, kk *kont, cc *ictx, bind string) string {
		f.restore(ss, sg)
		for _, g := range gs {
			f.nonNil[g] = true
		}
		f.push()
		return f.seq(list, kk, cc, bind, nil, false)
	}
	nfall := 0
	if thenFalls {
		nfall++
	}
	if elseFalls {
		nfall++
	}
	if nfall == 2 && !anyRet {
		// join by value: let (modified variables) := if … then … else …
		f.restore(ss, sg)
		f.popTo(depth0)
		M := f.assigned(v.Body, v.Else)
		f.restore(ss, sg)
		if len(M) == 0 {
			p.die(v, "if statement without effect on live variables")
		}
		mt := impTuple(lnames(M))
		var ends []map[string]bool // guards (and fresh marks) that hold where a branch ends
		cc := &ictx{ret: func(string) string { p.die(v, "internal: return in a value-joined if"); return "" }, fall: func() string { ends = append(ends, copySet(f.nonNil)); return mt }, inLoop: c.inLoop, uses: c.uses}
		th := branch(v.Body.List, posG, nil, cc, ind+"    ")
		el := branch(elseList, nil, nil, cc, ind+"    ")
		if len(ends) == 2 { // what holds at the end of both branches holds afterwards (variables of the enclosing scopes only)
			f.restore(ss, sg)
			f.popTo(depth0)
			for g := range ends[0] {
				if ends[1][g] && f.lookup(rootName(strings.TrimPrefix(g, freshKey))) != nil {
					K.nonNil[g] = true
				}
			}
		}
		out := head + ind + "let " + mt + " :=\n" + ind + "  if " + cond + " then\n" + th + "\n" + ind + "  else\n" + el + "\n"
		f.restore(ss, sg)
		return out + f.enter(K, c, ind)
	}
	if nfall == 0 && len(rest) > 0 {
		p.die(rest[0], "unreachable statement")
	}
	if nfall == 2 && !c.inLoop {
		f.restore(ss, sg)
		K = f.mkCont(K, c)
	}
	// (inside a loop body a join point cannot be a helper def — it would have to call the loop: the continuation is translated
	// once per falling branch instead)
	th := branch(v.Body.List, posG, K, c, ind+"  ")
	var el string
	if v.Else == nil {
		f.restore(ss, sg)
		el = f.enter(K, c, ind)
	} else {
		el = branch(elseList, nil, K, c, ind)
	}
	return head + ind + "if " + cond + " then\n" + th + "\n" + ind + "else\n" + el
}

// turn a statement continuation into a helper def (join point), returning a cheap call
func (f *impFn) mkCont(K *kont, c *ictx) *kont {
	p := f.p
	for K != nil && K.call == "" && len(K.list) == 0 {
		K = K.next
	}
	if K == nil || K.call != "" {
		return K
	}
	if c.inLoop {
		p.die(K.list[0], "join point inside a loop body (outside the subset)")
	}
	ss, sg := f.snap()
	f.popTo(K.depth)
	f.nonNil = copySet(K.nonNil)
	var nodes []ast.Node
	for q := K; q != nil; q = q.next {
		for _, s := range q.list {
			nodes = append(nodes, s)
		}
	}
	fv := f.freeVars(nodes...)
	if f.recv != "" {
		has := false
		for _, x := range fv {
			has = has || x == f.recv
		}
		if !has {
			fv = append([]string{f.recv}, fv...)
		}
	}
	var params []string
	for _, x := range fv {
		params = append(params, "("+lname(x)+" : "+p.lty(f.lookup(x), true)+")")
	}
	f.ncont++
	name := fmt.Sprintf("%s.cont%d", f.name, f.ncont)
	u := &iuses{}
	cc := &ictx{ret: c.ret, fall: c.fall, uses: u}
	line := f.lineNo(K.list[0])
	body := f.seq(K.list, K.next, cc, "  ", nil, K.top)
	def := fmt.Sprintf("/-- %s, from line %d to the end of the function (join point) -/\ndef %s%s %s : %s :=\n%s\n", f.name, line, name, whParams(*u), strings.Join(params, " "), f.retTy(), body)
	f.helpers = append(f.helpers, def)
	f.restore(ss, sg)
	return &kont{call: name + whArgs(*u) + " " + strings.Join(lnames(fv), " "), uses: *u}
}

func (f *impFn) retTy() string {
	var ts []string
	if f.recv != "" && !f.recvRO {
		ts = append(ts, f.p.ltyA(f.recvTy, false))
	}
	var rs []string
	for _, r := range f.results {
		rs = append(rs, f.p.ltyA(r, false))
	}
	if len(rs) > 0 {
		r := strings.Join(rs, " × ")
		if len(ts) > 0 && len(rs) > 1 {
			r = "(" + r + ")"
		}
		ts = append(ts, r)
	}
	if len(ts) == 0 {
		return "Unit"
	}
	return strings.Join(ts, " × ")
}

func (f *impFn) valTy() string { // type of the returned values alone
	var rs []string
	for _, r := range f.results {
		rs = append(rs, f.p.ltyA(r, false))
	}
	if len(rs) == 0 {
		return "Unit"
	}
	return strings.Join(rs, " × ")
}

func (f *impFn) rangeStmt(v *ast.RangeStmt, rest []ast.Stmt, k *kont, c *ictx, ind string, top bool) string {
	p := f.p
	if v.Tok != token.DEFINE {
		p.die(v, "range without :=")
	}
	xs, xt := f.expr(v.X, nil, c)
	if xt.k != "slice" {
		p.die(v, "range over %v (only slices; the iteration order of a map is not modelled)", xt)
	}
	keyName, valName := "_", "_"
	if v.Key != nil {
		keyName = v.Key.(*ast.Ident).Name
	}
	if v.Value != nil {
		valName = v.Value.(*ast.Ident).Name
	}
	if keyName != "_" && valName != "_" {
		p.die(v, "range with both index and value")
	}
	if keyName == "_" && valName == "_" {
		p.die(v, "range without variable")
	}
	byIndex := keyName != "_"
	depth0 := len(f.scopes)
	S := f.assigned(v.Body)
	withRet := hasReturn(v.Body)
	if len(S) == 0 && !withRet {
		p.die(v, "loop without effect on live variables")
	}
	f.push()
	var elemTy, pat, first string
	if byIndex {
		f.declare(v, keyName, tyInt)
		elemTy, pat = "Nat", lname(keyName)+"_"
		first = "let " + lname(keyName) + " : Int := Int.ofNat " + pat
	} else {
		f.declare(v, valName, xt.elem)
		elemTy, pat = p.ltyA(xt.elem, false), lname(valName)
	}
	inS := map[string]bool{}
	for _, s := range S {
		inS[s] = true
	}
	var ro []string
	for _, x := range f.freeVars(v.Body) {
		if !inS[x] && x != keyName && x != valName {
			ro = append(ro, x)
		}
	}
	f.nloop++
	name := fmt.Sprintf("%s.loop%d", f.name, f.nloop)
	st := impTuple(lnames(S))
	u := &iuses{}
	const hole = "@@LOOPARGS@@"
	cc := &ictx{inLoop: true, uses: u,
		ret:  func(vals string) string { return "(" + st + ", some " + parenImp(vals) + ")" },
		fall: func() string { return name + hole + " rest_ " + strings.Join(lnames(S), " ") }}
	ss, sg := f.snap()
	f.loopGuards(S) // only guards on variables the loop does not assign survive an iteration boundary
	body := f.seq(v.Body.List, nil, cc, "    ", nil, false)
	if first != "" {
		body = "    " + first + "\n" + body
	}
	f.restore(ss, sg)
	roArgs := ""
	var roParams []string
	for _, x := range ro {
		roArgs += " " + lname(x)
		roParams = append(roParams, "("+lname(x)+" : "+p.lty(f.lookup(x), true)+")")
	}
	body = strings.ReplaceAll(body, hole, whArgs(*u)+roArgs)
	var sTys []string
	for _, s := range S {
		sTys = append(sTys, p.ltyA(f.lookup(s), false))
	}
	resTy, base := f.tupleTy(S), st
	if withRet {
		if len(S) > 1 {
			resTy = "(" + resTy + ")"
		}
		resTy += " × Option (" + f.valTy() + ")"
		base = "(" + st + ", none)"
	}
	sig := strings.Join(append([]string{"List " + elemTy}, sTys...), " → ")
	pats := strings.Join(append([]string{""}, lnames(S)...), ", ")
	def := fmt.Sprintf("/-- %s, line %d: `for %s := range %s` -/\ndef %s%s%s : %s → %s\n  | []%s => %s\n  | %s :: rest_%s =>\n%s\n",
		f.name, f.lineNo(v), map[bool]string{true: keyName, false: "_, " + valName}[byIndex], exprText(v.X),
		name, whParams(*u), strings.Join(append([]string{""}, roParams...), " "), sig, resTy, pats, base, pat, pats, body)
	f.helpers = append(f.helpers, def)
	f.p.loopInfos = append(f.p.loopInfos, impLoopInfo{name: name, kind: "range", ro: lnames(ro), S: lnames(S)})
	c.uses.or(*u)
	f.popTo(depth0)
	over := parenImp(xs)
	if byIndex {
		over = "(List.range " + parenImp(xs) + ".length)"
	}
	callTxt := name + whArgs(*u) + roArgs + " " + over + " " + strings.Join(lnames(S), " ")
	for _, s := range S {
		f.killGuards(s)
	}
	if !withRet {
		return ind + "let " + st + " := " + callTxt + "\n" + f.seq(rest, k, c, ind, v, top)
	}
	return ind + "match " + callTxt + " with\n" + ind + "| (" + st + ", some ret_) => " + c.ret("ret_") + "\n" + ind + "| (" + st + ", none) =>\n" + f.seq(rest, k, c, ind, v, top)
}

// counting pattern `i < N` / `i <= N` with exactly one `i++` (post statement or top level of the body), N not assigned in the loop:
// the number of iterations is known at loop entry
func (f *impFn) countingFuel(v *ast.ForStmt, c *ictx) string {
	be, ok := v.Cond.(*ast.BinaryExpr)
	if !ok {
		return ""
	}
	down := be.Op == token.GEQ || be.Op == token.GTR
	if be.Op != token.LSS && be.Op != token.LEQ && !down {
		return ""
	}
	id, ok := be.X.(*ast.Ident)
	if !ok {
		return ""
	}
	incs, other := 0, false
	isInc := func(s ast.Stmt) bool {
		d, ok := s.(*ast.IncDecStmt)
		return ok && ((d.Tok == token.INC && !down) || (d.Tok == token.DEC && down)) && exprText(d.X) == id.Name
	}
	if as, ok := v.Post.(*ast.AssignStmt); ok && f.p.tg.digest && !down && as.Tok == token.ADD_ASSIGN && len(as.Lhs) == 1 && exprText(as.Lhs[0]) == id.Name {
		// `i += K`, K not assigned in the loop: N - i iterations suffice whenever K ≥ 1 (K ≤ 0: the Go loop does not terminate)
		incs++
		for _, a := range f.assigned(v.Body) {
			for _, b := range f.freeVars(as.Rhs[0]) {
				other = other || a == b
			}
		}
	} else if v.Post != nil && isInc(v.Post) {
		incs++
	} else if v.Post != nil {
		for _, a := range f.assigned(v.Post) {
			other = other || a == id.Name
		}
	}
	for _, s := range v.Body.List {
		if isInc(s) {
			incs++
			continue
		}
		for _, a := range f.assigned(s) {
			other = other || a == id.Name
		}
		ast.Inspect(s, func(n ast.Node) bool {
			if b, ok := n.(*ast.BranchStmt); ok && b.Tok == token.CONTINUE {
				other = true
			}
			return true
		})
	}
	if incs != 1 || other {
		return ""
	}
	bound := f.freeVars(be.Y)
	for _, a := range f.assigned(v.Body, v.Post) {
		for _, b := range bound {
			if a == b {
				return ""
			}
		}
	}
	ns, nt := f.expr(be.Y, tyInt, c)
	is, it := f.expr(be.X, nil, c)
	if !nt.eq(it) || (it.k != "int" && it.k != "uint64") {
		return ""
	}
	plus := ""
	if be.Op == token.LEQ || be.Op == token.GEQ {
		plus = " + 1"
	}
	if down {
		if it.k != "int" {
			return ""
		}
		return "(" + parenImp(is) + plus + " - " + parenImp(ns) + ").toNat"
	}
	if it.k == "uint64" {
		return "(" + parenImp(ns) + plus + " - " + parenImp(is) + ")"
	}
	return "(" + parenImp(ns) + plus + " - " + parenImp(is) + ").toNat"
}

func (f *impFn) forStmt(v *ast.ForStmt, rest []ast.Stmt, k *kont, c *ictx, ind string, top bool) string {
	p := f.p
	depth0 := len(f.scopes)
	f.push()
	var pre []string
	if v.Init != nil {
		pre = f.simple(v.Init, nil, c)
	}
	var nodes []ast.Node
	nodes = append(nodes, v.Body)
	if v.Post != nil {
		nodes = append(nodes, v.Post)
	}
	S := f.assigned(nodes...)
	withRet := false
	ast.Inspect(v.Body, func(n ast.Node) bool {
		switch n.(type) {
		case *ast.ReturnStmt:
			withRet = true
		case *ast.FuncLit:
			return false
		}
		return true
	})
	if len(S) == 0 && !withRet {
		p.die(v, "loop without effect on live variables")
	}
	fuel := ""
	if v.Cond != nil {
		fuel = f.countingFuel(v, c)
	}
	if fuel == "" {
		fuel = fmt.Sprintf("fuel%d", len(f.fuels)+1)
		f.fuels = append(f.fuels, fuel)
	}
	inS := map[string]bool{}
	for _, s := range S {
		inS[s] = true
	}
	all := append([]ast.Node{}, nodes...)
	if v.Cond != nil {
		all = append(all, v.Cond)
	}
	var ro []string
	for _, x := range f.freeVars(all...) {
		if !inS[x] {
			ro = append(ro, x)
		}
	}
	f.nloop++
	name := fmt.Sprintf("%s.loop%d", f.name, f.nloop)
	st := impTuple(lnames(S))
	u := &iuses{}
	const hole = "@@LOOPARGS@@"
	exit := st
	if withRet {
		exit = "(" + st + ", none)"
	}
	cc := &ictx{inLoop: true, uses: u, loopDepth: len(f.scopes),
		ret: func(vals string) string { return "(" + st + ", some " + parenImp(vals) + ")" },
		brk: func() string { return exit }}
	f.dropFresh("")
	inv := f.invariantGuards(nodes...)
	ss, sg := f.snap()
	f.loopGuards(S)
	for _, g := range inv {
		f.nonNil[g] = true
	}
	cond := "true"
	var condG []string
	if v.Cond != nil {
		cs, ct := f.expr(v.Cond, tyBool, cc)
		if ct.k != "bool" {
			p.die(v, "loop condition type")
		}
		cond = cs
		nilTests(v.Cond, token.LAND, token.NEQ, &condG)
	}
	for _, g := range condG { // the body runs under the loop condition
		f.nonNil[g] = true
	}
	cc.fall = func() string {
		post := ""
		if v.Post != nil {
			sv, sn := f.snap()
			post = strings.Join(f.simple(v.Post, nil, cc), "; ") + "; "
			f.restore(sv, sn)
		}
		return post + name + hole + " fuel_ " + strings.Join(lnames(S), " ")
	}
	f.push()
	nf0 := len(f.fuels)
	uninit0 := copySet(f.bigUninit)
	body := f.seq(v.Body.List, nil, cc, "      ", nil, false)
	if len(uninit0) > 0 { // the body may run zero times: what was unset before the loop is still unset after it
		f.bigUninit = uninit0
	}
	f.restore(ss, sg)
	roArgs := ""
	var roParams []string
	for _, fu := range f.fuels[nf0:] { // fuel of the calls made by the body
		roArgs += " " + fu
		roParams = append(roParams, "("+fu+" : Nat)")
	}
	for _, x := range ro {
		if t := f.lookup(x); t.k == "waitgroup" {
			continue
		}
		roArgs += " " + lname(x)
		roParams = append(roParams, "("+lname(x)+" : "+p.lty(f.lookup(x), true)+")")
	}
	if u.W || u.H {
		// (same convention as range loops)
	}
	body = strings.ReplaceAll(body, hole, whArgs(*u)+roArgs)
	var sTys []string
	for _, s := range S {
		sTys = append(sTys, p.ltyA(f.lookup(s), true))
	}
	resTy := strings.Join(sTys, " × ")
	if len(S) == 0 {
		resTy = "Unit"
	}
	if withRet {
		if len(S) > 1 {
			resTy = "(" + resTy + ")"
		}
		resTy += " × Option (" + f.valTy() + ")"
	}
	sig := strings.Join(append([]string{"Nat"}, sTys...), " → ")
	pats := strings.Join(append([]string{""}, lnames(S)...), ", ")
	condTxt := "for " + map[bool]string{true: exprText(v.Cond), false: ""}[v.Cond != nil]
	def := fmt.Sprintf("/-- %s, line %d: `%s { … }`; the first argument bounds the number of iterations -/\ndef %s%s%s : %s → %s\n  | 0%s => %s\n  | fuel_ + 1%s =>\n    if %s then\n%s\n    else\n    %s\n",
		f.name, f.lineNo(v), strings.TrimSpace(condTxt), name, whParams(*u), strings.Join(append([]string{""}, roParams...), " "), sig, resTy, pats, exit, pats, cond, body, exit)
	f.helpers = append(f.helpers, def)
	{
		var ron []string
		for _, x := range ro {
			if t := f.lookup(x); t != nil && t.k != "waitgroup" {
				ron = append(ron, lname(x))
			}
		}
		f.p.loopInfos = append(f.p.loopInfos, impLoopInfo{name: name, kind: "for", ro: ron, S: lnames(S)})
	}
	c.uses.or(*u)
	callTxt := name + whArgs(*u) + roArgs + " " + fuel + " " + strings.Join(lnames(S), " ")
	// the loop variable of the init statement goes out of scope; the other state variables keep their new values
	f.popTo(depth0)
	for _, s := range S {
		f.killGuards(s)
	}
	for _, g := range inv {
		f.nonNil[g] = true
	}
	head := ""
	if len(pre) > 0 {
		head = indent(pre, ind) + "\n"
	}
	if !withRet {
		return head + ind + "let " + st + " := " + callTxt + "\n" + f.seq(rest, k, c, ind, v, top)
	}
	return head + ind + "match " + callTxt + " with\n" + ind + "| (" + st + ", some ret_) => " + c.ret("ret_") + "\n" + ind + "| (" + st + ", none) =>\n" + f.seq(rest, k, c, ind, v, top)
}

// roots of everything assigned anywhere in the node (no liveness filter)
func (f *impFn) assignedAnywhere(n ast.Node) []string {
	var out []string
	ast.Inspect(n, func(m ast.Node) bool {
		switch s := m.(type) {
		case *ast.AssignStmt:
			if s.Tok == token.ASSIGN {
				for _, l := range s.Lhs {
					out = append(out, rootOf(l))
				}
			}
		case *ast.IncDecStmt:
			out = append(out, rootOf(s.X))
		}
		return true
	})
	return out
}

// guards that hold now and that every statement of the loop keeps: each assignment that overlaps the guarded path assigns exactly
// that path a syntactically non-nil pointer (`&T{…}` or the result of a function all of whose returns are `&T{…}`); a method call
// on the root variable, a tuple assignment or copy() into it breaks the guard
func (f *impFn) invariantGuards(nodes ...ast.Node) []string {
	var out []string
	for g := range f.nonNil {
		if strings.HasPrefix(g, freshKey) {
			continue
		}
		ok := true
		root := g
		if i := strings.IndexAny(g, ".["); i >= 0 {
			root = g[:i]
		}
		for _, n := range nodes {
			ast.Inspect(n, func(m ast.Node) bool {
				switch s := m.(type) {
				case *ast.AssignStmt:
					for i, l := range s.Lhs {
						lt := exprText(l)
						if !(pathPrefix(lt, g) || pathPrefix(g, lt)) {
							continue
						}
						if lt != g { // a shorter path (the whole struct) or a field below the guarded pointer
							if pathPrefix(lt, g) {
								ok = false
							}
							continue
						}
						if len(s.Lhs) != len(s.Rhs) {
							ok = false
							continue
						}
						u, isAddr := s.Rhs[i].(*ast.UnaryExpr)
						_, isLit := (func() (ast.Expr, bool) {
							if isAddr && u.Op == token.AND {
								cl, ok := u.X.(*ast.CompositeLit)
								return cl, ok
							}
							return nil, false
						})()
						isRes := false
						if c, isCall := s.Rhs[i].(*ast.CallExpr); isCall {
							if id, isId := c.Fun.(*ast.Ident); isId && f.lookup(id.Name) == nil && f.p.translated[id.Name] != nil && f.p.translated[id.Name].nonNilRe {
								isRes = true
							}
						}
						if !isLit && !isRes {
							ok = false
						}
					}
				case *ast.IncDecStmt:
					if pathPrefix(exprText(s.X), g) {
						ok = false
					}
				case *ast.RangeStmt:
					if (s.Key != nil && exprText(s.Key) == root) || (s.Value != nil && exprText(s.Value) == root) {
						ok = false
					}
				case *ast.CallExpr:
					if exprText(s.Fun) == "copy" && len(s.Args) > 0 && pathPrefix(exprText(s.Args[0]), g) {
						ok = false
					}
					if se, isSel := s.Fun.(*ast.SelectorExpr); isSel && (pathPrefix(exprText(se.X), g) || pathPrefix(g, exprText(se.X))) {
						ok = false // a method call on the path (Write / Reset / a method of the receiver)
					}
				}
				return true
			})
		}
		if ok {
			out = append(out, g)
		}
	}
	sort.Strings(out)
	return out
}

// inside a loop body only the nil-guards whose root variable the loop never assigns remain valid
func (f *impFn) loopGuards(S []string) {
	for g := range f.nonNil {
		r := g
		if i := strings.IndexAny(g, ".["); i >= 0 {
			r = g[:i]
		}
		for _, s := range S {
			if s == r {
				delete(f.nonNil, g)
			}
		}
	}
}

// x is a local slice variable that is only ever assigned `make(…)` and is never copied to another variable / stored / re-sliced
// into a value, so that no alias of its backing array exists: in-place writes to it are value updates
func (f *impFn) checkFreshLocal(at ast.Node, x string) {
	for _, fl := range f.fd.Type.Params.List {
		for _, n := range fl.Names {
			if n.Name == x {
				f.p.die(at, "in-place write to the parameter %s (could be aliased by the caller)", x)
			}
		}
	}
	strip := func(e ast.Expr) string {
		for {
			switch v := e.(type) {
			case *ast.ParenExpr:
				e = v.X
			case *ast.SliceExpr:
				e = v.X
			case *ast.Ident:
				return v.Name
			default:
				return ""
			}
		}
	}
	selfAppend := map[*ast.CallExpr]bool{} // x = append(x, …) with x nowhere among the appended values: x stays the only holder of its array
	ast.Inspect(f.fd.Body, func(n ast.Node) bool {
		switch s := n.(type) {
		case *ast.AssignStmt:
			for i, l := range s.Lhs {
				if id, ok := l.(*ast.Ident); ok && id.Name == x && i < len(s.Rhs) {
					if ap, ok := s.Rhs[i].(*ast.CallExpr); ok && exprText(ap.Fun) == "append" && len(ap.Args) >= 1 && !ap.Ellipsis.IsValid() && f.p.tg.methodCalls {
						if a0, ok := ap.Args[0].(*ast.Ident); ok && a0.Name == x {
							clean := true
							for _, a := range ap.Args[1:] {
								if strip(a) == x {
									clean = false
								}
							}
							if clean {
								selfAppend[ap] = true
								continue
							}
						}
					}
					if mk, ok := s.Rhs[i].(*ast.CallExpr); !ok || exprText(mk.Fun) != "make" {
						f.p.die(s, "%s is written in place but assigned something else than make(…)", x)
					}
				}
			}
			for _, r := range s.Rhs {
				if strip(r) == x {
					if f.p.tg.digest && !f.inLoopNow && s.Pos() > at.End() {
						continue // handed on after its last in-place write (any later in-place write is checked against this alias again)
					}
					f.p.die(s, "%s is written in place and aliased here", x)
				}
			}
		case *ast.CompositeLit:
			for _, e := range s.Elts {
				if strip(e) == x {
					f.p.die(s, "%s is written in place and stored here", x)
				}
			}
		case *ast.CallExpr:
			if exprText(s.Fun) == "append" && !selfAppend[s] {
				for _, a := range s.Args {
					if strip(a) == x {
						f.p.die(s, "%s is written in place and appended here", x)
					}
				}
			}
		}
		return true
	})
}

// a *big.Int argument: a pointer variable, or `&x` of a local big.Int value
func (f *impFn) bigArg(a ast.Expr, c *ictx) (string, *ity) {
	if u, ok := a.(*ast.UnaryExpr); ok && u.Op == token.AND {
		if id, ok := u.X.(*ast.Ident); ok && f.bigLocal[id.Name] {
			return f.expr(id, nil, c)
		}
		f.p.die(a, "& of something that is not a local big.Int value")
	}
	return f.expr(a, nil, c)
}

// `X = X.SetBigInt(&K).Bits()` with X an fr.Element variable or an element of a local array of them: X receives the words of the
// non-Montgomery representative of K mod r (parameter `frBits`; SetBigInt overwrites its receiver, so the old value of X is not read)
func (f *impFn) frAssign(v *ast.AssignStmt, c *ictx) ([]string, bool) {
	p := f.p
	bits, ok := v.Rhs[0].(*ast.CallExpr)
	if !ok {
		return nil, false
	}
	se, ok := bits.Fun.(*ast.SelectorExpr)
	if !ok || se.Sel.Name != "Bits" || len(bits.Args) != 0 {
		return nil, false
	}
	set, ok := se.X.(*ast.CallExpr)
	if !ok {
		return nil, false
	}
	se2, ok := set.Fun.(*ast.SelectorExpr)
	if !ok || se2.Sel.Name != "SetBigInt" || len(set.Args) != 1 {
		return nil, false
	}
	if exprText(se2.X) != exprText(v.Lhs[0]) {
		p.die(v, "X = Y.SetBigInt(…).Bits() with X ≠ Y (Y would keep the Montgomery form)")
	}
	var ks string
	var kt *ity
	if u, ok := set.Args[0].(*ast.UnaryExpr); ok && u.Op == token.AND {
		if id, ok := u.X.(*ast.Ident); ok && f.bigLocal[id.Name] {
			ks, kt = f.expr(id, nil, c)
		} else if _, ok := u.X.(*ast.IndexExpr); ok {
			ks, kt = f.expr(u.X, nil, c)
		}
	} else {
		ks, kt = f.expr(set.Args[0], nil, c)
	}
	if kt == nil || kt.k != "bigint" {
		p.die(v, "SetBigInt argument")
	}
	val := "frBits " + parenImp(ks)
	switch l := v.Lhs[0].(type) {
	case *ast.Ident:
		if t := f.lookup(l.Name); t != nil && t.k == "frel" {
			return []string{"let " + lname(l.Name) + " := " + val}, true
		}
	case *ast.IndexExpr:
		if id, ok := l.X.(*ast.Ident); ok {
			if t := f.lookup(id.Name); t != nil && t.k == "array" && t.elem.k == "frel" {
				return []string{"let " + lname(id.Name) + " := arrSet " + lname(id.Name) + " " + parenImp(f.natIndex(l.Index, c)) + " " + parenImp(val)}, true
			}
		}
	}
	p.die(v, "fr.Element assignment target")
	return nil, false
}
