// Part 6b (slpsig.go): additions to the group-level executor of slpgroup.go for the signature verifiers (C12 tie T):
// big.Int as exact integers, byte strings as `List UInt8`, hash objects, base-field coordinates of points.
//
// PRIMITIVES / PARAMETERS added here (documented again in the generated files' users, Props/C12_gen*):
//
//	big.Int  SetBytes b            Int.ofNat (GV.beToNat b)          (big-endian)
//	         Cmp y                 GV.Gen.Verifier.cmpInt x y ∈ {-1, 0, 1}
//	         Mul / Add / Sub / Mod exact Int operations (Mod = Euclidean remainder, Int.emod, as math/big for a positive modulus)
//	         ModInverse g n        PARAMETER modInverse : Int → Int → Int   (its nil result for a non-invertible g is NOT modelled)
//	         big.NewInt(k)         the literal;   fr.Modulus()  =  the constant `frModulus` emitted from the fr package's modulus
//	[]byte   len, x[lo:hi] with known bounds (List.take / List.drop), make([]byte, n), copy / subtle.ConstantTimeCopy(1, dst[:], src)
//	         = GV.Gen.Verifier.copyBytes dst src
//	hash     Reset / Write b / Sum(nil): PARAMETERS hashWriteOk : List UInt8 → Bool (Write returns an error iff false) and
//	         hashSum : List (List UInt8) → List UInt8 (the digest of the sequence of Writes since Reset); `hFunc == nil` is decided by the
//	         specialisation (two defs per function: …_hash / …_nohash)
//	HashToInt                      PARAMETER hashToInt : List UInt8 → Int    (truncation to the bit length of the order: hand model + K)
//	points   JointScalarMultiplicationBase a s t = s • g1Gen + t • a  (PARAMETER g1Gen : G, the generator)
//	         IsInfinity / IsOnCurve            PARAMETERS isInfinity, isOnCurve : G → Bool
//	         P.X / P.Y / P.Z                   PARAMETERS jacX jacY jacZ (Jacobian), affX affY (affine) : G → Fp; writing a coordinate
//	                                           makes the point unusable as a group element afterwards (rejected)
//	fp       Square Mul Add Sub Inverse (x⁻¹, 0 ↦ 0 is the instance's business), Equal / IsZero (==), BigInt = PARAMETER fpToInt,
//	         SetBigInt = PARAMETER fpOfInt, Bytes = PARAMETER fpBytes
package main

import (
	"fmt"
	"go/ast"
	"go/token"
	"strings"
)

func (x *gtr) newZ(name, term string) *gv {
	n := x.fresh(name)
	x.lines = append(x.lines, fmt.Sprintf("let %s : Int := %s", n, term))
	c := x.newCell(name, &gv{t: &gtype{k: gZ}, term: n})
	return x.ptrTo(c)
}

func (x *gtr) bytesArg(s *gscope, e ast.Expr) *gv {
	v := x.eval(s, e)
	if v.t.k != gBytes {
		reject("%s: %s is not a byte string", x.fname, gexpr(e))
	}
	return v
}

// sigMethod: primitive methods on big.Int, fp.Element, hash.Hash receivers and the additional point methods
func (x *gtr) sigMethod(s *gscope, recv cellID, name string, c *ast.CallExpr) ([]*gv, bool) {
	rv := x.store[recv]
	self := func() ([]*gv, bool) { return []*gv{x.ptrTo(recv)}, true }
	switch rv.t.k {
	case gS:
		switch name {
		case "Equal":
			x.nargs(c, 1)
			return []*gv{{t: &gtype{k: gBool}, term: fmt.Sprintf("(%s == %s)", rv.term, x.ptrArg(s, c.Args[0], gS).term)}}, true
		case "Inverse":
			x.nargs(c, 1)
			x.setLeaf(recv, gparen(x.ptrArg(s, c.Args[0], gS).term)+"⁻¹")
			return self()
		case "SetBytes":
			x.nargs(c, 1)
			x.need("frOfBytes", "List UInt8 → S", false)
			x.setLeaf(recv, "frOfBytes "+gparen(x.bytesArg(s, c.Args[0]).term))
			return self()
		case "Marshal":
			x.nargs(c, 0)
			x.need("marshalS", "S → List UInt8", false)
			return []*gv{{t: &gtype{k: gBytes, n: -1}, term: "(marshalS " + gparen(rv.term) + ")"}}, true
		}
	case gFS:
		switch name {
		case "Bind":
			// Bind(name, data): the data is appended to what the challenge `name` is bound to. Its error (unknown or already
			// computed challenge name) is nil here: the names are the literals given to NewTranscript (C15's territory).
			x.nargs(c, 2)
			nm := x.eval(s, c.Args[0])
			if nm.t.k != gStr {
				reject("%s: Bind name", x.fname)
			}
			b := x.bytesArg(s, c.Args[1])
			nv := *rv
			nv.strs = append(append([]string(nil), rv.strs...), nm.term+"\x00"+b.term)
			x.noteWrite(recv)
			x.store[recv] = &nv
			return []*gv{{t: &gtype{k: gErr}, static: true, n: 0}}, true
		case "ComputeChallenge":
			// the challenge bytes = fsChallenge name (everything bound to that name, in order) (the challenges computed before, in order)
			x.nargs(c, 1)
			nm := x.eval(s, c.Args[0])
			if nm.t.k != gStr {
				reject("%s: ComputeChallenge name", x.fname)
			}
			var items []string
			for _, it := range rv.strs {
				if strings.HasPrefix(it, nm.term+"\x00") {
					items = append(items, strings.TrimPrefix(it, nm.term+"\x00"))
				}
			}
			x.need("fsChallenge", "String → List (List UInt8) → List (List UInt8) → List UInt8", false)
			n := x.fresh("challenge_" + strings.Trim(nm.term, "\""))
			x.lines = append(x.lines, fmt.Sprintf("let %s : List UInt8 := fsChallenge %s [%s] [%s]", n, nm.term, strings.Join(items, ", "), strings.Join(rv.strs2, ", ")))
			nv := *rv
			nv.strs2 = append(append([]string(nil), rv.strs2...), n)
			x.noteWrite(recv)
			x.store[recv] = &nv
			return []*gv{{t: &gtype{k: gBytes, n: -1}, term: n}, {t: &gtype{k: gErr}, static: true, n: 0}}, true
		}
	case gZ:
		switch name {
		case "SetBytes":
			x.nargs(c, 1)
			x.setLeaf(recv, fmt.Sprintf("Int.ofNat (GV.beToNat %s)", gparen(x.bytesArg(s, c.Args[0]).term)))
			return self()
		case "Set":
			x.nargs(c, 1)
			x.setLeaf(recv, x.ptrArg(s, c.Args[0], gZ).term)
			return self()
		case "SetInt64":
			x.nargs(c, 1)
			x.setLeaf(recv, fmt.Sprintf("(%d : Int)", x.staticInt(s, c.Args[0])))
			return self()
		case "Cmp":
			x.nargs(c, 1)
			y := x.ptrArg(s, c.Args[0], gZ)
			return []*gv{{t: &gtype{k: gInt}, term: fmt.Sprintf("(cmpInt %s %s)", gparen(rv.term), gparen(y.term))}}, true
		case "Sign":
			x.nargs(c, 0)
			return []*gv{{t: &gtype{k: gInt}, term: fmt.Sprintf("(Int.sign %s)", gparen(rv.term))}}, true
		case "Mul", "Add", "Sub", "Mod":
			x.nargs(c, 2)
			op := map[string]string{"Mul": " * ", "Add": " + ", "Sub": " - ", "Mod": " % "}[name]
			a := x.ptrArg(s, c.Args[0], gZ)
			b := x.ptrArg(s, c.Args[1], gZ)
			x.setLeaf(recv, gparen(a.term)+op+gparen(b.term))
			return self()
		case "ModInverse":
			x.nargs(c, 2)
			a := x.ptrArg(s, c.Args[0], gZ)
			b := x.ptrArg(s, c.Args[1], gZ)
			x.need("modInverse", "Int → Int → Int", false)
			x.setLeaf(recv, fmt.Sprintf("modInverse %s %s", gparen(a.term), gparen(b.term)))
			return self()
		}
	case gFp:
		switch name {
		case "Square":
			x.nargs(c, 1)
			a := x.ptrArg(s, c.Args[0], gFp)
			x.setLeaf(recv, a.term+" * "+a.term)
			return self()
		case "Inverse":
			x.nargs(c, 1)
			x.setLeaf(recv, gparen(x.ptrArg(s, c.Args[0], gFp).term)+"⁻¹")
			return self()
		case "Mul", "Add", "Sub":
			x.nargs(c, 2)
			op := map[string]string{"Mul": " * ", "Add": " + ", "Sub": " - "}[name]
			x.setLeaf(recv, x.ptrArg(s, c.Args[0], gFp).term+op+x.ptrArg(s, c.Args[1], gFp).term)
			return self()
		case "Set":
			x.nargs(c, 1)
			x.setLeaf(recv, x.ptrArg(s, c.Args[0], gFp).term)
			return self()
		case "BigInt":
			x.nargs(c, 1)
			pv := x.eval(s, c.Args[0])
			if pv.t.k != gPtr || pv.ptr == 0 || x.store[pv.ptr].t.k != gZ {
				reject("%s: BigInt destination", x.fname)
			}
			x.need("fpToInt", "Fp → Int", false)
			x.setLeaf(pv.ptr, "fpToInt "+gparen(rv.term))
			return []*gv{x.ptrTo(pv.ptr)}, true
		case "SetBigInt":
			x.nargs(c, 1)
			x.need("fpOfInt", "Int → Fp", false)
			x.setLeaf(recv, "fpOfInt "+gparen(x.ptrArg(s, c.Args[0], gZ).term))
			return self()
		case "IsZero":
			x.nargs(c, 0)
			return []*gv{{t: &gtype{k: gBool}, term: fmt.Sprintf("(%s == (0 : Fp))", rv.term)}}, true
		case "Equal":
			x.nargs(c, 1)
			return []*gv{{t: &gtype{k: gBool}, term: fmt.Sprintf("(%s == %s)", rv.term, x.ptrArg(s, c.Args[0], gFp).term)}}, true
		case "Bytes":
			x.nargs(c, 0)
			x.need("fpBytes", "Fp → List UInt8", false)
			n := x.fresh("bytes")
			x.lines = append(x.lines, fmt.Sprintf("let %s : List UInt8 := fpBytes %s", n, gparen(rv.term)))
			return []*gv{{t: &gtype{k: gBytes, n: -1}, term: n}}, true
		}
	case gHash:
		if rv.n == 0 {
			reject("%s: method %s on a nil hash", x.fname, name)
		}
		switch name {
		case "Reset":
			x.nargs(c, 0)
			x.noteWrite(recv)
			x.store[recv] = &gv{t: rv.t, static: true, n: 1}
			return nil, true
		case "Write":
			x.nargs(c, 1)
			b := x.bytesArg(s, c.Args[0])
			x.need("hashWriteOk", "List UInt8 → Bool", false)
			x.noteWrite(recv)
			x.store[recv] = &gv{t: rv.t, static: true, n: 1, strs: append(append([]string(nil), rv.strs...), b.term)}
			return []*gv{{t: &gtype{k: gInt}, term: "(0 : Int)", nat: "0"},
				{t: &gtype{k: gErr}, cond: fmt.Sprintf("(!hashWriteOk %s)", gparen(b.term)), term: "(Res.err \"hash.Write\")"}}, true
		case "Sum":
			x.nargs(c, 1)
			if id, ok := c.Args[0].(*ast.Ident); !ok || id.Name != "nil" {
				reject("%s: hash.Sum of a non-nil prefix", x.fname)
			}
			x.need("hashSum", "List (List UInt8) → List UInt8", false)
			n := x.fresh("digest")
			x.lines = append(x.lines, fmt.Sprintf("let %s : List UInt8 := hashSum [%s]", n, strings.Join(rv.strs, ", ")))
			return []*gv{{t: &gtype{k: gBytes, n: -1}, term: n}}, true
		}
	case gG:
		switch name {
		case "Marshal":
			x.nargs(c, 0)
			x.useG(rv)
			x.need("marshalG", "G → List UInt8", false)
			return []*gv{{t: &gtype{k: gBytes, n: -1}, term: "(marshalG " + gparen(rv.term) + ")"}}, true
		case "JointScalarMultiplicationBase":
			x.nargs(c, 3)
			a := x.ptrArg(s, c.Args[0], gG)
			k := x.ptrArg(s, c.Args[1], gZ)
			l := x.ptrArg(s, c.Args[2], gZ)
			x.need("g1Gen", "G", false)
			x.setLeaf(recv, fmt.Sprintf("%s • g1Gen + %s • %s", k.term, l.term, a.term))
			return self()
		case "IsInfinity", "IsOnCurve":
			x.nargs(c, 0)
			x.useG(rv)
			fn := map[string]string{"IsInfinity": "isInfinity", "IsOnCurve": "isOnCurve"}[name]
			x.need(fn, "G → Bool", false)
			return []*gv{{t: &gtype{k: gBool}, term: fn + " " + gparen(rv.term)}}, true
		}
	}
	return nil, false
}

// sigCall: package-level functions and builtins of the signature code
func (x *gtr) sigCall(s *gscope, c *ast.CallExpr) ([]*gv, bool) {
	name := gexpr(c.Fun)
	switch name {
	case "fiatshamir.NewTranscript":
		if len(c.Args) < 1 {
			reject("%s: NewTranscript arguments", x.fname)
		}
		if k := x.eval(s, c.Args[0]).t.k; k != gHash && k != gOpaque {
			reject("%s: NewTranscript hash argument", x.fname)
		}
		for _, a := range c.Args[1:] {
			if x.eval(s, a).t.k != gStr {
				reject("%s: NewTranscript challenge name", x.fname)
			}
		}
		return []*gv{x.ptrTo(x.newCell("fs", &gv{t: &gtype{k: gFS}}))}, true
	case "twistededwards.GetEdwardsCurve", "bandersnatch.GetEdwardsCurve":
		x.nargs(c, 0)
		return []*gv{x.edCurveParams()}, true
	case "big.NewInt":
		x.nargs(c, 1)
		cell := x.newCell("bigLit", &gv{t: &gtype{k: gZ}, term: fmt.Sprintf("(%d : Int)", x.staticInt(s, c.Args[0]))})
		return []*gv{x.ptrTo(cell)}, true
	case "fr.Modulus":
		x.nargs(c, 0)
		dir, ok := x.p.importDir("fr")
		if !ok {
			reject("%s: fr package not found", x.fname)
		}
		x.p.addHeader("frModulus", fmt.Sprintf("/-- `fr.Modulus()`: the modulus of %s (the group order), read from the source on this run -/\ndef frModulus : Int := %s\n", dir, fieldOf(dir).modulus))
		cell := x.newCell("frMod", &gv{t: &gtype{k: gZ}, term: "frModulus"})
		return []*gv{x.ptrTo(cell)}, true
	case "subtle.ConstantTimeCopy", "copy":
		args := c.Args
		if name == "subtle.ConstantTimeCopy" {
			x.nargs(c, 3)
			if x.staticInt(s, args[0]) != 1 {
				reject("%s: ConstantTimeCopy with v != 1", x.fname)
			}
			args = args[1:]
		} else {
			x.nargs(c, 2)
			if dv := x.eval(s, args[0]); dv.t.k == gSlice {
				// copy on slices of cells: element-wise assignment of the first min(len) elements
				sv := x.eval(s, args[1])
				if sv.t.k != gSlice {
					reject("%s: copy source", x.fname)
				}
				n := len(dv.elems)
				if len(sv.elems) < n {
					n = len(sv.elems)
				}
				vals := make([]*gv, n)
				for i := 0; i < n; i++ {
					vals[i] = x.store[sv.elems[i]]
				}
				for i := 0; i < n; i++ {
					x.assign(dv.elems[i], vals[i])
				}
				return []*gv{mkInt(n)}, true
			}
		}
		se, ok := args[0].(*ast.SliceExpr)
		if !ok || se.Low != nil || se.High != nil || se.Max != nil {
			reject("%s: copy destination %s (only dst[:] of a variable)", x.fname, gexpr(args[0]))
		}
		dst := x.lval(s, se.X)
		if x.store[dst].t.k != gBytes {
			reject("%s: copy destination is not a byte string", x.fname)
		}
		src := x.bytesArg(s, args[1])
		x.setLeaf(dst, fmt.Sprintf("copyBytes %s %s", gparen(x.store[dst].term), gparen(src.term)))
		return []*gv{{t: &gtype{k: gInt}, term: "(0 : Int)"}}, true // the count is not modelled (never used)
	}
	if id, ok := c.Fun.(*ast.Ident); ok && id.Name == "getIthRootOne" {
		if _, ok := x.p.uninterp[id.Name]; ok {
			// NOT looked into: PARAMETERS ithRootOne : Int → S (a generator of the t-th roots of unity) and ithRootOneErr : Int → Bool (t ∤ r − 1)
			x.nargs(c, 1)
			t := x.staticInt(s, c.Args[0])
			x.need("ithRootOne", "Int → S", false)
			x.need("ithRootOneErr", "Int → Bool", false)
			n := x.fresh("omega")
			x.lines = append(x.lines, fmt.Sprintf("let %s : S := ithRootOne (%d : Int)", n, t))
			return []*gv{{t: &gtype{k: gS}, term: n}, {t: &gtype{k: gErr}, cond: fmt.Sprintf("(ithRootOneErr (%d : Int))", t), term: "(Res.err \"ErrRootsOne\")"}}, true
		}
	}
	if id, ok := c.Fun.(*ast.Ident); ok {
		if typ, ok := x.p.uninterp[id.Name]; ok {
			// a function of the package that is NOT looked into: PARAMETER bytes → Int
			x.nargs(c, 1)
			b := x.bytesArg(s, c.Args[0])
			pn := strings.ToLower(id.Name[:1]) + id.Name[1:]
			x.need(pn, typ, false)
			return []*gv{x.newZ(pn, fmt.Sprintf("%s %s", pn, gparen(b.term)))}, true
		}
	}
	return nil, false
}

// uninterpMethod: a method of a struct of the package that is NOT looked into. eddsa `sig.SetBytes(buf)`: PARAMETERS
// sigParseErr : bytes → Res (nil or the error), sigParseR : bytes → G (the decompressed R), sigParseS : bytes → bytes (the S half).
func (x *gtr) uninterpMethod(s *gscope, recv cellID, key string, c *ast.CallExpr) ([]*gv, bool) {
	if _, ok := x.p.uninterp[key]; !ok || key != "Signature.SetBytes" {
		return nil, false
	}
	x.nargs(c, 1)
	b := x.bytesArg(s, c.Args[0])
	rv := x.store[recv]
	x.need("sigParseErr", "List UInt8 → Res", false)
	x.need("sigParseR", "List UInt8 → G", false)
	x.need("sigParseS", "List UInt8 → List UInt8", false)
	for i, f := range rv.t.fields {
		switch f.name {
		case "R":
			x.setLeaf(rv.fields[i], "sigParseR "+gparen(b.term))
		case "S":
			x.setLeaf(rv.fields[i], "sigParseS "+gparen(b.term))
		default:
			reject("%s: Signature has an unexpected field %s", x.fname, f.name)
		}
	}
	return []*gv{{t: &gtype{k: gInt}, term: "(0 : Int)"}, {t: &gtype{k: gErr}, term: fmt.Sprintf("(sigParseErr %s)", gparen(b.term))}}, true
}

// edCurveParams: the value of twistededwards.GetEdwardsCurve(): PARAMETERS edA edD edCofactor : Fp, edOrder : Int, edBase : G
func (x *gtr) edCurveParams() *gv {
	t := &gtype{k: gStruct, name: "CurveParams", fields: []gfield{{"A", &gtype{k: gFp}}, {"D", &gtype{k: gFp}}, {"Cofactor", &gtype{k: gFp}},
		{"Order", &gtype{k: gZ}}, {"Base", &gtype{k: gG, name: "PointAffine"}}}}
	v := &gv{t: t}
	for _, f := range t.fields {
		pn := "ed" + f.name
		x.need(pn, f.t.lean(), false)
		v.fields = append(v.fields, x.newCell("curveParams_"+f.name, &gv{t: f.t, term: pn}))
	}
	return v
}

// appendCall: append(s, v…) / append(s, t...). Within the capacity the spare cells of s are written (they may be shared with
// other slices of the same array, as in Go); beyond it a fresh array is allocated and the old elements are copied.
func (x *gtr) appendCall(s *gscope, c *ast.CallExpr) *gv {
	if len(c.Args) < 1 {
		reject("%s: append", x.fname)
	}
	sv := x.eval(s, c.Args[0])
	if sv.t.k != gSlice {
		reject("%s: append to a non-slice", x.fname)
	}
	var vals []*gv
	if c.Ellipsis.IsValid() {
		if len(c.Args) != 2 {
			reject("%s: append(s, t...) arguments", x.fname)
		}
		tv := x.eval(s, c.Args[1])
		if tv.t.k != gSlice {
			reject("%s: append(s, t...) of a non-slice", x.fname)
		}
		for _, e := range tv.elems {
			vals = append(vals, x.store[e])
		}
	} else {
		for _, a := range c.Args[1:] {
			vals = append(vals, x.eval(s, a))
		}
	}
	res := &gv{t: sv.t, elems: append([]cellID(nil), sv.elems...), spare: append([]cellID(nil), sv.spare...)}
	for _, v := range vals {
		if len(res.spare) > 0 {
			cell := res.spare[0]
			res.spare = res.spare[1:]
			x.assign(cell, v)
			res.elems = append(res.elems, cell)
			continue
		}
		// reallocation: new cells holding the old values (no other slice can see the new array)
		var ne []cellID
		for i, e := range res.elems {
			ne = append(ne, x.newCell(fmt.Sprintf("ap_%d", i), x.store[e]))
		}
		cell := x.zero(fmt.Sprintf("ap_%d", len(ne)), sv.t.elem)
		x.assignQuiet(cell, v)
		res.elems = append(ne, cell)
		res.spare = nil
	}
	return res
}

// inlineFn: a function of the package executed in place (same store: slices alias exactly as in Go). Supported: bodies whose
// control flow is decided at translation time; the values of the `return` reached are handed back.
func (x *gtr) inlineFn(s *gscope, fd *ast.FuncDecl, name string, c *ast.CallExpr) []*gv {
	if x.inlineDepth > 30 {
		reject("%s: functions executed in place are nested too deeply (%s)", x.fname, name)
	}
	sc := &gscope{vars: map[string]cellID{}}
	var ptypes []*gtype
	var pnames []string
	variadic := false
	for i, fl := range fd.Type.Params.List {
		t := x.p.typeOf(fl.Type)
		if _, ok := fl.Type.(*ast.Ellipsis); ok && i == len(fd.Type.Params.List)-1 {
			variadic = true
		}
		for _, nm := range fl.Names {
			ptypes = append(ptypes, t)
			pnames = append(pnames, nm.Name)
		}
	}
	np := len(pnames)
	if (!variadic && len(c.Args) != np) || (variadic && len(c.Args) < np-1) {
		reject("%s: call of %s with %d arguments", x.fname, name, len(c.Args))
	}
	for i := 0; i < np; i++ {
		var v *gv
		switch {
		case variadic && i == np-1 && len(c.Args) == np-1:
			v = &gv{t: ptypes[i]} // no variadic arguments
		case variadic && i == np-1 && !(len(c.Args) == np && c.Ellipsis.IsValid()):
			reject("%s: variadic arguments of %s must be passed as one slice", x.fname, name)
		default:
			if id, ok := c.Args[i].(*ast.Ident); ok && id.Name == "nil" && (ptypes[i].k == gSlice || ptypes[i].k == gOpaque) {
				v = &gv{t: ptypes[i]}
			} else {
				v = x.eval(s, c.Args[i])
			}
		}
		if v.t.k != ptypes[i].k {
			reject("%s: argument %d of %s has an unexpected kind", x.fname, i, name)
		}
		// a fresh cell: parameters are copies (slice headers and pointers share what they refer to)
		sc.vars[pnames[i]] = x.newCell(pnames[i], v)
		if v.t.k == gStruct || v.t.k == gArray {
			cell := x.zero(pnames[i], v.t)
			x.assign(cell, v)
			sc.vars[pnames[i]] = cell
		}
	}
	var out []*gv
	got := false
	savedHook, savedName := x.retHook, x.fname
	x.retHook = func(vals []*gv) {
		if got {
			reject("%s: two returns reached in %s", savedName, name)
		}
		got, out = true, vals
	}
	x.inlineDepth++
	x.exec(sc, fd.Body.List, func() string {
		if fd.Type.Results != nil && len(fd.Type.Results.List) > 0 {
			reject("%s: %s ends without return", savedName, name)
		}
		got = true
		return ""
	})
	x.inlineDepth--
	x.retHook = savedHook
	if !got {
		reject("%s: no return reached in %s", savedName, name)
	}
	return out
}

func (p *gpkg) addHeader(key, text string) {
	if !p.headerSeen[key] {
		p.headerSeen[key] = true
		p.header = append(p.header, text)
	}
}

var _ = token.ADD
