// Part 6b (slpsig.go): additions to the group-level executor of slpgroup.go for the signature verifiers (C12 tie T):
// big.Int as exact integers, byte strings as `List UInt8`, hash objects, base-field coordinates of points.
//
// PRIMITIVES / PARAMETERS added here (documented again in the generated files' users, Props/C12_gen*):
//
//	big.Int  SetBytes b            Int.ofNat (GV.beToNat b)          (big-endian)
//	         Cmp y                 GV.Gen.Verifier.cmpInt x y ∈ {-1, 0, 1}
//	         Mul / Add / Sub / Mod exact Int operations (Mod = Euclidean remainder, Int.emod, as math/big for a positive modulus)
//	         ModInverse g n        PARAMETER modInverse : Int → Int → Int   (its nil result for a non-invertible g is NOT modelled)
//	         big.NewInt(k)         the literal;   fr.Modulus()  =  the constant `frModulus` emitted from the fr package's modulus
//	[]byte   len, x[lo:hi] with known bounds (List.take / List.drop), make([]byte, n), copy / subtle.ConstantTimeCopy(1, dst[:], src)
//	         = GV.Gen.Verifier.copyBytes dst src
//	hash     Reset / Write b / Sum(nil): PARAMETERS hashWriteOk : List UInt8 → Bool (Write returns an error iff false) and
//	         hashSum : List (List UInt8) → List UInt8 (the digest of the sequence of Writes since Reset); `hFunc == nil` is decided by the
//	         specialisation (two defs per function: …_hash / …_nohash)
//	HashToInt                      PARAMETER hashToInt : List UInt8 → Int    (truncation to the bit length of the order: hand model + K)
//	points   JointScalarMultiplicationBase a s t = s • g1Gen + t • a  (PARAMETER g1Gen : G, the generator)
//	         IsInfinity / IsOnCurve            PARAMETERS isInfinity, isOnCurve : G → Bool
//	         P.X / P.Y / P.Z                   PARAMETERS jacX jacY jacZ (Jacobian), affX affY (affine) : G → Fp; writing a coordinate
//	                                           makes the point unusable as a group element afterwards (rejected)
//	fp       Square Mul Add Sub Inverse (x⁻¹, 0 ↦ 0 is the instance's business), Equal / IsZero (==), BigInt = PARAMETER fpToInt,
//	         SetBigInt = PARAMETER fpOfInt, Bytes = PARAMETER fpBytes
package main

import (
	"fmt"
	"go/ast"
	"go/token"
	"strings"
)

func (x *gtr) newZ(name, term string) *gv {
	n := x.fresh(name)
	x.lines = append(x.lines, fmt.Sprintf("let %s : Int := %s", n, term))
	c := x.newCell(name, &gv{t: &gtype{k: gZ}, term: n})
	return x.ptrTo(c)
}

func (x *gtr) bytesArg(s *gscope, e ast.Expr) *gv {
	v := x.eval(s, e)
	if v.t.k != gBytes {
		reject("%s: %s is not a byte string", x.fname, gexpr(e))
	}
	return v
}

// sigMethod: primitive methods on big.Int, fp.Element, hash.Hash receivers and the additional point methods
func (x *gtr) sigMethod(s *gscope, recv cellID, name string, c *ast.CallExpr) ([]*gv, bool) {
	rv := x.store[recv]
	self := func() ([]*gv, bool) { return []*gv{x.ptrTo(recv)}, true }
	switch rv.t.k {
	case gZ:
		switch name {
		case "SetBytes":
			x.nargs(c, 1)
			x.setLeaf(recv, fmt.Sprintf("Int.ofNat (GV.beToNat %s)", gparen(x.bytesArg(s, c.Args[0]).term)))
			return self()
		case "Set":
			x.nargs(c, 1)
			x.setLeaf(recv, x.ptrArg(s, c.Args[0], gZ).term)
			return self()
		case "SetInt64":
			x.nargs(c, 1)
			x.setLeaf(recv, fmt.Sprintf("(%d : Int)", x.staticInt(s, c.Args[0])))
			return self()
		case "Cmp":
			x.nargs(c, 1)
			y := x.ptrArg(s, c.Args[0], gZ)
			return []*gv{{t: &gtype{k: gInt}, term: fmt.Sprintf("(cmpInt %s %s)", gparen(rv.term), gparen(y.term))}}, true
		case "Sign":
			x.nargs(c, 0)
			return []*gv{{t: &gtype{k: gInt}, term: fmt.Sprintf("(Int.sign %s)", gparen(rv.term))}}, true
		case "Mul", "Add", "Sub", "Mod":
			x.nargs(c, 2)
			op := map[string]string{"Mul": " * ", "Add": " + ", "Sub": " - ", "Mod": " % "}[name]
			a := x.ptrArg(s, c.Args[0], gZ)
			b := x.ptrArg(s, c.Args[1], gZ)
			x.setLeaf(recv, gparen(a.term)+op+gparen(b.term))
			return self()
		case "ModInverse":
			x.nargs(c, 2)
			a := x.ptrArg(s, c.Args[0], gZ)
			b := x.ptrArg(s, c.Args[1], gZ)
			x.need("modInverse", "Int → Int → Int", false)
			x.setLeaf(recv, fmt.Sprintf("modInverse %s %s", gparen(a.term), gparen(b.term)))
			return self()
		}
	case gFp:
		switch name {
		case "Square":
			x.nargs(c, 1)
			a := x.ptrArg(s, c.Args[0], gFp)
			x.setLeaf(recv, a.term+" * "+a.term)
			return self()
		case "Inverse":
			x.nargs(c, 1)
			x.setLeaf(recv, gparen(x.ptrArg(s, c.Args[0], gFp).term)+"⁻¹")
			return self()
		case "Mul", "Add", "Sub":
			x.nargs(c, 2)
			op := map[string]string{"Mul": " * ", "Add": " + ", "Sub": " - "}[name]
			x.setLeaf(recv, x.ptrArg(s, c.Args[0], gFp).term+op+x.ptrArg(s, c.Args[1], gFp).term)
			return self()
		case "Set":
			x.nargs(c, 1)
			x.setLeaf(recv, x.ptrArg(s, c.Args[0], gFp).term)
			return self()
		case "BigInt":
			x.nargs(c, 1)
			pv := x.eval(s, c.Args[0])
			if pv.t.k != gPtr || pv.ptr == 0 || x.store[pv.ptr].t.k != gZ {
				reject("%s: BigInt destination", x.fname)
			}
			x.need("fpToInt", "Fp → Int", false)
			x.setLeaf(pv.ptr, "fpToInt "+gparen(rv.term))
			return []*gv{x.ptrTo(pv.ptr)}, true
		case "SetBigInt":
			x.nargs(c, 1)
			x.need("fpOfInt", "Int → Fp", false)
			x.setLeaf(recv, "fpOfInt "+gparen(x.ptrArg(s, c.Args[0], gZ).term))
			return self()
		case "IsZero":
			x.nargs(c, 0)
			return []*gv{{t: &gtype{k: gBool}, term: fmt.Sprintf("(%s == (0 : Fp))", rv.term)}}, true
		case "Equal":
			x.nargs(c, 1)
			return []*gv{{t: &gtype{k: gBool}, term: fmt.Sprintf("(%s == %s)", rv.term, x.ptrArg(s, c.Args[0], gFp).term)}}, true
		case "Bytes":
			x.nargs(c, 0)
			x.need("fpBytes", "Fp → List UInt8", false)
			n := x.fresh("bytes")
			x.lines = append(x.lines, fmt.Sprintf("let %s : List UInt8 := fpBytes %s", n, gparen(rv.term)))
			return []*gv{{t: &gtype{k: gBytes, n: -1}, term: n}}, true
		}
	case gHash:
		if rv.n == 0 {
			reject("%s: method %s on a nil hash", x.fname, name)
		}
		switch name {
		case "Reset":
			x.nargs(c, 0)
			x.noteWrite(recv)
			x.store[recv] = &gv{t: rv.t, static: true, n: 1}
			return nil, true
		case "Write":
			x.nargs(c, 1)
			b := x.bytesArg(s, c.Args[0])
			x.need("hashWriteOk", "List UInt8 → Bool", false)
			x.noteWrite(recv)
			x.store[recv] = &gv{t: rv.t, static: true, n: 1, strs: append(append([]string(nil), rv.strs...), b.term)}
			return []*gv{{t: &gtype{k: gInt}, term: "(0 : Int)", nat: "0"},
				{t: &gtype{k: gErr}, cond: fmt.Sprintf("(!hashWriteOk %s)", gparen(b.term)), term: "(Res.err \"hash.Write\")"}}, true
		case "Sum":
			x.nargs(c, 1)
			if id, ok := c.Args[0].(*ast.Ident); !ok || id.Name != "nil" {
				reject("%s: hash.Sum of a non-nil prefix", x.fname)
			}
			x.need("hashSum", "List (List UInt8) → List UInt8", false)
			n := x.fresh("digest")
			x.lines = append(x.lines, fmt.Sprintf("let %s : List UInt8 := hashSum [%s]", n, strings.Join(rv.strs, ", ")))
			return []*gv{{t: &gtype{k: gBytes, n: -1}, term: n}}, true
		}
	case gG:
		switch name {
		case "JointScalarMultiplicationBase":
			x.nargs(c, 3)
			a := x.ptrArg(s, c.Args[0], gG)
			k := x.ptrArg(s, c.Args[1], gZ)
			l := x.ptrArg(s, c.Args[2], gZ)
			x.need("g1Gen", "G", false)
			x.setLeaf(recv, fmt.Sprintf("%s • g1Gen + %s • %s", k.term, l.term, a.term))
			return self()
		case "IsInfinity", "IsOnCurve":
			x.nargs(c, 0)
			x.useG(rv)
			fn := map[string]string{"IsInfinity": "isInfinity", "IsOnCurve": "isOnCurve"}[name]
			x.need(fn, "G → Bool", false)
			return []*gv{{t: &gtype{k: gBool}, term: fn + " " + gparen(rv.term)}}, true
		}
	}
	return nil, false
}

// sigCall: package-level functions and builtins of the signature code
func (x *gtr) sigCall(s *gscope, c *ast.CallExpr) ([]*gv, bool) {
	name := gexpr(c.Fun)
	switch name {
	case "twistededwards.GetEdwardsCurve", "bandersnatch.GetEdwardsCurve":
		x.nargs(c, 0)
		return []*gv{x.edCurveParams()}, true
	case "big.NewInt":
		x.nargs(c, 1)
		cell := x.newCell("bigLit", &gv{t: &gtype{k: gZ}, term: fmt.Sprintf("(%d : Int)", x.staticInt(s, c.Args[0]))})
		return []*gv{x.ptrTo(cell)}, true
	case "fr.Modulus":
		x.nargs(c, 0)
		dir, ok := x.p.importDir("fr")
		if !ok {
			reject("%s: fr package not found", x.fname)
		}
		x.p.addHeader("frModulus", fmt.Sprintf("/-- `fr.Modulus()`: the modulus of %s (the group order), read from the source on this run -/\ndef frModulus : Int := %s\n", dir, fieldOf(dir).modulus))
		cell := x.newCell("frMod", &gv{t: &gtype{k: gZ}, term: "frModulus"})
		return []*gv{x.ptrTo(cell)}, true
	case "subtle.ConstantTimeCopy", "copy":
		args := c.Args
		if name == "subtle.ConstantTimeCopy" {
			x.nargs(c, 3)
			if x.staticInt(s, args[0]) != 1 {
				reject("%s: ConstantTimeCopy with v != 1", x.fname)
			}
			args = args[1:]
		} else {
			x.nargs(c, 2)
		}
		se, ok := args[0].(*ast.SliceExpr)
		if !ok || se.Low != nil || se.High != nil || se.Max != nil {
			reject("%s: copy destination %s (only dst[:] of a variable)", x.fname, gexpr(args[0]))
		}
		dst := x.lval(s, se.X)
		if x.store[dst].t.k != gBytes {
			reject("%s: copy destination is not a byte string", x.fname)
		}
		src := x.bytesArg(s, args[1])
		x.setLeaf(dst, fmt.Sprintf("copyBytes %s %s", gparen(x.store[dst].term), gparen(src.term)))
		return []*gv{{t: &gtype{k: gInt}, term: "(0 : Int)"}}, true // the count is not modelled (never used)
	}
	if id, ok := c.Fun.(*ast.Ident); ok {
		if typ, ok := x.p.uninterp[id.Name]; ok {
			// a function of the package that is NOT looked into: PARAMETER bytes → Int
			x.nargs(c, 1)
			b := x.bytesArg(s, c.Args[0])
			pn := strings.ToLower(id.Name[:1]) + id.Name[1:]
			x.need(pn, typ, false)
			return []*gv{x.newZ(pn, fmt.Sprintf("%s %s", pn, gparen(b.term)))}, true
		}
	}
	return nil, false
}

// uninterpMethod: a method of a struct of the package that is NOT looked into. eddsa `sig.SetBytes(buf)`: PARAMETERS
// sigParseErr : bytes → Res (nil or the error), sigParseR : bytes → G (the decompressed R), sigParseS : bytes → bytes (the S half).
func (x *gtr) uninterpMethod(s *gscope, recv cellID, key string, c *ast.CallExpr) ([]*gv, bool) {
	if _, ok := x.p.uninterp[key]; !ok || key != "Signature.SetBytes" {
		return nil, false
	}
	x.nargs(c, 1)
	b := x.bytesArg(s, c.Args[0])
	rv := x.store[recv]
	x.need("sigParseErr", "List UInt8 → Res", false)
	x.need("sigParseR", "List UInt8 → G", false)
	x.need("sigParseS", "List UInt8 → List UInt8", false)
	for i, f := range rv.t.fields {
		switch f.name {
		case "R":
			x.setLeaf(rv.fields[i], "sigParseR "+gparen(b.term))
		case "S":
			x.setLeaf(rv.fields[i], "sigParseS "+gparen(b.term))
		default:
			reject("%s: Signature has an unexpected field %s", x.fname, f.name)
		}
	}
	return []*gv{{t: &gtype{k: gInt}, term: "(0 : Int)"}, {t: &gtype{k: gErr}, term: fmt.Sprintf("(sigParseErr %s)", gparen(b.term))}}, true
}

// edCurveParams: the value of twistededwards.GetEdwardsCurve(): PARAMETERS edA edD edCofactor : Fp, edOrder : Int, edBase : G
func (x *gtr) edCurveParams() *gv {
	t := &gtype{k: gStruct, name: "CurveParams", fields: []gfield{{"A", &gtype{k: gFp}}, {"D", &gtype{k: gFp}}, {"Cofactor", &gtype{k: gFp}},
		{"Order", &gtype{k: gZ}}, {"Base", &gtype{k: gG, name: "PointAffine"}}}}
	v := &gv{t: t}
	for _, f := range t.fields {
		pn := "ed" + f.name
		x.need(pn, f.t.lean(), false)
		v.fields = append(v.fields, x.newCell("curveParams_"+f.name, &gv{t: f.t, term: pn}))
	}
	return v
}

func (p *gpkg) addHeader(key, text string) {
	if !p.headerSeen[key] {
		p.headerSeen[key] = true
		p.header = append(p.header, text)
	}
}

var _ = token.ADD
