module gvgoslp

go 1.23.0
