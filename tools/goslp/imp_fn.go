// imp_fn.go — the statement / expression translator of mode "imp" (see imp.go for the subset and its side conditions).
package main

import (
	"fmt"
	"go/ast"
	"go/token"
	"strings"
)

type iuses struct{ W, H, S, B bool } // hash parameters used: Write, Sum, Size(), BlockSize()

func (u *iuses) or(v iuses) {
	u.W, u.H, u.S, u.B = u.W || v.W, u.H || v.H, u.S || v.S, u.B || v.B
}

type impFn struct {
	p          *impPkg
	fd         *ast.FuncDecl
	name       string
	recvTy     *ity
	recvRO     bool            // the receiver is never assigned: the def returns the results only
	retSelf    bool            // the single result is the receiver pointer itself
	bigFresh   map[string]bool // big.Int variables currently bound to a fresh object (pool.BigInt.Get): may be overwritten
	bigUninit  map[string]bool // … whose contents have not been set yet: may not be read
	seenStmt   bool            // a statement other than an entry `if … { panic }` has been translated
	inAddr     bool            // the composite literal being translated is the operand of &
	bigScratch map[string]bool // … declared by `x := pool.BigInt.Get()` (checkBigScratch: never re-assigned or aliased): fresh in its whole scope
	bigDead    map[string]bool // … that have been given back to the pool (pool.BigInt.Put): may not be used any more
	bigLocal   map[string]bool // `var x big.Int` locals (values owned by the function)
	evRecv     bool            // the "receiver" is the event list of a callback parameter
	fuels      []string        // explicit fuel parameters (loops without a recognised counting pattern)
	usesNumCPU bool
	inLoopNow  bool   // the statement being translated is inside a loop body
	recv       string // receiver variable ("" = none); passed and returned by value
	results    []*ity
	scopes     []map[string]*ity
	declOrd    []string // every variable ever declared, in order (deterministic parameter lists)
	nonNil     map[string]bool
	helpers    []string
	nloop      int
	ncont      int
}

// continuation: statements still to run after the current list (k.call != "" : a cheap expression instead)
type kont struct {
	list   []ast.Stmt
	next   *kont
	depth  int
	nonNil map[string]bool
	call   string
	uses   iuses
	top    bool
}

type ictx struct {
	ret       func(vals string) string // Lean expression of `return vals` (vals already tupled)
	fall      func() string            // Lean expression of falling off the end of the outermost list (cheap)
	inLoop    bool
	brk       func() string // Lean expression of `break` (inside a for loop)
	loopDepth int           // scope depth of the innermost loop body (closures may only capture variables declared there)
	top       bool          // the list is the function body itself (defer allowed)
	uses      *iuses
}

var leanReserved = map[string]bool{"end": true, "from": true, "at": true, "show": true, "then": true, "fun": true, "open": true, "by": true, "do": true, "in": true,
	"have": true, "let": true, "match": true, "with": true, "if": true, "else": true, "def": true, "theorem": true, "where": true, "namespace": true, "section": true,
	"instance": true, "structure": true, "class": true, "Type": true, "Prop": true, "Sort": true, "this": true, "W": true, "H": true, "rest_": true, "ret_": true,
	"some": true, "none": true, "len": true, "copy": true, "index": true, "deref": true, "makeBytes": true, "bytesOfString": true, "numCPU": true, "fuel_": true, "shl64": true, "uintOfInt": true, "min": true, "max": true, "hSize": true, "hBlockSize": true, "copyAt": true, "setAt": true, "byteOfInt": true, "mul": true, "one": true, "inv": true, "F": true,
	"Bytes": true, "zeroF": true, "setBigIntF": true, "modulus": true, "default": true, "makeSlice": true, "sliceOf": true, "bigCmp": true, "bigMod": true, "bigSetBytes": true}

func lname(n string) string {
	if leanReserved[n] || impExtraReserved[n] {
		return n + "'"
	}
	return n
}

func (f *impFn) isFresh(x string) bool { return f.bigFresh[x] || f.bigScratch[x] }

// ---------------------------------------------------------------------------------------------- scopes

func (f *impFn) push() { f.scopes = append(f.scopes, map[string]*ity{}) }
func (f *impFn) popTo(d int) {
	f.scopes = f.scopes[:d]
}
func (f *impFn) lookup(n string) *ity {
	for i := len(f.scopes) - 1; i >= 0; i-- {
		if t, ok := f.scopes[i][n]; ok {
			return t
		}
	}
	return nil
}
func (f *impFn) declare(at ast.Node, n string, t *ity) {
	if n == "_" {
		return
	}
	if f.lookup(n) != nil {
		f.p.die(at, "declaration of %s shadows / repeats a live variable (outside the subset)", n)
	}
	if f.p.tg.digest && digestReserved[n] {
		f.p.die(at, "the variable %s has the name of a parameter of the generated defs", n)
	}
	f.scopes[len(f.scopes)-1][n] = t
	f.killGuards(n) // a guard recorded for an earlier variable of the same name (out of scope by now) says nothing about this one
	for _, d := range f.declOrd {
		if d == n {
			return
		}
	}
	f.declOrd = append(f.declOrd, n)
}

func copySet(m map[string]bool) map[string]bool {
	r := map[string]bool{}
	for k, v := range m {
		r[k] = v
	}
	return r
}

func pathPrefix(a, b string) bool {
	return a == b || strings.HasPrefix(b, a+".") || strings.HasPrefix(b, a+"[")
}

// Besides the nil-guards, f.nonNil holds (under the key freshKey+path) the list-node pointers that are FRESH: the path was assigned
// `&T{…}` and the pointer has not been read as a value since, so the node is referenced by that path only and a field write
// through it is a value update of that path.
const freshKey = "#fresh:"

func (f *impFn) killGuards(lhs string) {
	for g := range f.nonNil {
		q := strings.TrimPrefix(g, freshKey)
		if pathPrefix(lhs, q) || pathPrefix(q, lhs) {
			delete(f.nonNil, g)
		}
	}
}

// the value at path (a pointer, or a struct containing pointers) is read: whatever is fresh at or below it may now be aliased
func (f *impFn) dropFresh(path string) {
	for g := range f.nonNil {
		if strings.HasPrefix(g, freshKey) && (path == "" || pathPrefix(path, g[len(freshKey):])) {
			delete(f.nonNil, g)
		}
	}
}

func (f *impFn) saveFresh() []string {
	var out []string
	for g := range f.nonNil {
		if strings.HasPrefix(g, freshKey) {
			out = append(out, g)
		}
	}
	return out
}

func (f *impFn) restoreFresh(gs []string) {
	for _, g := range gs {
		f.nonNil[g] = true
	}
}

// is the pointer expression syntactically / by a recorded guard non-nil?  second result: it is a fresh `&T{…}`
func (f *impFn) rhsNonNil(e ast.Expr) (bool, bool) {
	if u, ok := e.(*ast.UnaryExpr); ok && u.Op == token.AND {
		if _, ok := u.X.(*ast.CompositeLit); ok {
			return true, true
		}
	}
	if c, ok := e.(*ast.CallExpr); ok {
		if id, ok := c.Fun.(*ast.Ident); ok && f.lookup(id.Name) == nil && f.p.translated[id.Name] != nil && f.p.translated[id.Name].nonNilRe {
			return true, false
		}
		return false, false
	}
	return f.nonNil[exprText(e)], false
}

// call of a method translated before, on the receiver: Lean text; entry conditions are checked here
func (f *impFn) recvMethodCall(v *ast.CallExpr, name string, m *impMeth, c *ictx) string {
	p := f.p
	if len(m.params) != len(v.Args) || v.Ellipsis.IsValid() {
		p.die(v, "call of %s: arity", name)
	}
	callee := p.funcs[name].Recv.List[0].Names[0].Name
	for _, g := range p.tg.pre[name] {
		if !pathPrefix(callee, g) {
			p.die(v, "entry condition %s of %s is not a path of its receiver", g, name)
		}
		if h := f.recv + strings.TrimPrefix(g, callee); !f.nonNil[h] {
			p.die(v, "call of %s: its entry condition %s != nil is not established here", name, h)
		}
	}
	out := lname(name) + impAbsArgs + " " + lname(f.recv)
	f.dropFresh(f.recv)
	for i, a := range v.Args {
		as, at := f.expr(a, m.params[i], c)
		if !at.eq(m.params[i]) {
			p.die(a, "argument %d of %s: %v expected, %v given", i, name, m.params[i], at)
		}
		out += " " + parenImp(as)
	}
	for i := 0; i < m.nfuel; i++ { // the loops of the callee: one fresh fuel parameter each
		fu := fmt.Sprintf("fuel%d", len(f.fuels)+1)
		f.fuels = append(f.fuels, fu)
		out += " " + fu
	}
	return out
}

// ---------------------------------------------------------------------------------------------- expressions

func parenImp(s string) string {
	if strings.ContainsAny(s, " \n") && !(strings.HasPrefix(s, "(") && matchingParen(s)) && !(strings.HasPrefix(s, "[") && strings.HasSuffix(s, "]") && strings.Count(s, "[") == 1) {
		return "(" + s + ")"
	}
	return s
}

func matchingParen(s string) bool { // s starts with "(" : does that paren close at the very end?
	d := 0
	for i, c := range s {
		if c == '(' {
			d++
		} else if c == ')' {
			d--
			if d == 0 {
				return i == len(s)-1
			}
		}
	}
	return false
}

// guards established by a condition: paths P such that (cond false) => P != nil  (neg) / (cond true) => P != nil (pos)
func nilTests(e ast.Expr, op token.Token, cmp token.Token, out *[]string) {
	switch v := e.(type) {
	case *ast.ParenExpr:
		nilTests(v.X, op, cmp, out)
	case *ast.BinaryExpr:
		if v.Op == op {
			nilTests(v.X, op, cmp, out)
			nilTests(v.Y, op, cmp, out)
		} else if v.Op == cmp {
			if id, ok := v.Y.(*ast.Ident); ok && id.Name == "nil" {
				*out = append(*out, exprText(v.X))
			}
		}
	}
}

func (f *impFn) expr(e ast.Expr, want *ity, c *ictx) (string, *ity) {
	p := f.p
	if p.tg.digest {
		if s, t, ok := f.digestExpr(e, want, c); ok {
			return s, t
		}
	}
	switch v := e.(type) {
	case *ast.ParenExpr:
		return f.expr(v.X, want, c)
	case *ast.BasicLit:
		if v.Kind == token.INT {
			if want != nil && want.k == "uint64" { // untyped constant in a uint64 context
				return v.Value, tyU64
			}
			if want != nil && want.k == "byte" {
				return "(" + v.Value + " : UInt8)", tyByte
			}
			if want != nil && want.k == "int64" { // untyped constant in an int64 context
				return v.Value, want
			}
			return v.Value, tyInt
		}
		p.die(e, "literal outside the subset")
	case *ast.Ident:
		switch v.Name {
		case "nil":
			if want == nil || !(want.k == "slice" || want.k == "error" || want.k == "ptr" || want.k == "map" || want.k == "lptr" || want.k == "nslice") {
				p.die(e, "nil without a slice / error / pointer / map context")
			}
			if want.k == "map" {
				p.die(e, "nil map")
			}
			return p.zero(want), want
		case "true", "false":
			if f.lookup(v.Name) == nil {
				return v.Name, tyBool
			}
		}
		if t := f.lookup(v.Name); t != nil {
			if f.bigUninit[v.Name] {
				p.die(e, "%s is read before the fresh big.Int it points to has been set", v.Name)
			}
			if t.k == "struct" || t.k == "lptr" {
				f.dropFresh(v.Name)
			}
			if f.bigDead[v.Name] {
				p.die(e, "%s is used after pool.BigInt.Put(%s)", v.Name, v.Name)
			}
			return lname(v.Name), t
		}
		if _, ok := p.errVars[v.Name]; ok {
			return v.Name, tyErr
		}
		if _, ok := p.consts[v.Name]; ok { // package-level integer constant (mode h2f)
			p.useConst(v.Name)
			return lname(v.Name), tyInt
		}
		p.die(e, "unknown identifier %s", v.Name)
	case *ast.SelectorExpr:
		if p.tg.ext && exprText(v) == "fr.Limbs" && f.lookup("fr") == nil {
			return "limbs", tyInt // the number of 64-bit words of an fr.Element (parameter)
		}
		if id, ok := v.X.(*ast.Ident); ok && id.Name == "io" && f.lookup("io") == nil && (v.Sel.Name == "EOF" || v.Sel.Name == "ErrUnexpectedEOF") {
			return "Err.sentinel \"io." + v.Sel.Name + "\"", tyErr
		}
		sv := f.saveFresh()
		xs, xt := f.expr(v.X, nil, c)
		f.restoreFresh(sv) // selecting a field does not copy the pointers of the other fields
		if xt.k == "lptr" {
			if !f.nonNil[exprText(v.X)] {
				p.die(e, "dereference of %s is not guarded by a nil test", exprText(v.X))
			}
			if v.Sel.Name == p.listNext[xt.elem.name] {
				return parenImp(xs) + ".tail", xt
			}
			xs, xt = "(nodeOf "+parenImp(xs)+")", xt.elem
		}
		if xt.k == "ptr" {
			if !f.nonNil[exprText(v.X)] {
				p.die(e, "dereference of %s is not guarded by a nil test", exprText(v.X))
			}
			xs, xt = "(deref "+parenImp(xs)+")", xt.elem
		}
		if xt.k != "struct" {
			p.die(e, "selector on %v", xt)
		}
		for _, fl := range p.structs[xt.name] {
			if fl.name == v.Sel.Name {
				if fl.ty.k == "struct" || fl.ty.k == "lptr" {
					f.dropFresh(exprText(e))
				}
				return parenImp(xs) + "." + fl.name, fl.ty
			}
		}
		p.die(e, "no field %s", v.Sel.Name)
	case *ast.IndexExpr:
		xs, xt := f.expr(v.X, nil, c)
		if xt.k == "array" && xt.elem.k == "grp" {
			_, get, _ := f.grpLval(v, c)
			return get, xt.elem
		}
		if xt.k == "array" { // array of fr.Element words
			return "arrGet " + parenImp(xs) + " " + parenImp(f.natIndex(v.Index, c)) + " " + p.zero(xt.elem), xt.elem
		}
		if xt.k == "frel" { // word i of an fr.Element (out of range panics in Go: not modelled, reads 0)
			return "arrGet " + parenImp(xs) + " " + parenImp(f.natIndex(v.Index, c)) + " 0", tyU64
		}
		if xt.k == "bigpair" { // the [2]big.Int returned by ecc.SplitScalar
			if n := litInt(v.Index); n != nil && (n.Int64() == 0 || n.Int64() == 1) {
				return parenImp(xs) + map[int64]string{0: ".1", 1: ".2"}[n.Int64()], &ity{k: "bigint"}
			}
			p.die(e, "index of the split pair (only the literals 0, 1)")
		}
		if xt.k != "slice" {
			p.die(e, "index expression on %v (map reads only as `v, ok := m[k]`)", xt)
		}
		is, it := f.expr(v.Index, tyInt, c)
		if it.k != "int" {
			p.die(e, "index type")
		}
		return "index " + parenImp(xs) + " " + parenImp(is), xt.elem
	case *ast.SliceExpr:
		if v.Low == nil && v.High != nil && v.Max == nil {
			// x[:n]: the first n elements (n > cap(x) panics in Go: not modelled)
			xs, xt := f.expr(v.X, nil, c)
			ns, nt := f.expr(v.High, tyInt, c)
			if xt.k != "slice" || nt.k != "int" {
				p.die(e, "x[:n] on %v, %v", xt, nt)
			}
			return "List.take " + parenImp(ns) + ".toNat " + parenImp(xs), xt
		}
		if v.Low != nil || v.High != nil || v.Max != nil {
			p.die(e, "slice expression with bounds")
		}
		xs, xt := f.expr(v.X, nil, c)
		if xt.k != "slice" {
			p.die(e, "x[:] on %v", xt)
		}
		return xs, xt
	case *ast.UnaryExpr:
		switch v.Op {
		case token.NOT:
			xs, xt := f.expr(v.X, tyBool, c)
			if xt.k != "bool" {
				p.die(e, "! on %v", xt)
			}
			return "!" + parenImp(xs), tyBool
		case token.SUB:
			xs, xt := f.expr(v.X, tyInt, c)
			if xt.k != "int" {
				p.die(e, "- on %v", xt)
			}
			return "-" + parenImp(xs), tyInt
		case token.AND:
			if cl, ok := v.X.(*ast.CompositeLit); ok { // fresh object: by value
				if t := p.goType(cl.Type); t.k == "struct" && p.listNext[t.name] != "" {
					f.inAddr = true
				}
				return f.expr(cl, nil, c)
			}
			id, ok := v.X.(*ast.Ident)
			if !ok {
				p.die(e, "& of something that is not a local variable or a composite literal")
			}
			t := f.lookup(id.Name)
			if t == nil || t.k != "struct" || id.Name == f.recv {
				p.die(e, "& of %s", id.Name)
			}
			f.checkAddrOf(v, id.Name, c)
			return "some " + lname(id.Name), &ity{k: "ptr", elem: t}
		}
		p.die(e, "unary operator %s", v.Op)
	case *ast.BinaryExpr:
		return f.binary(v, want, c)
	case *ast.CompositeLit:
		t := p.goType(v.Type)
		if t.k == "slice" && t.elem.k == "byte" {
			var els []string
			for _, el := range v.Elts {
				if _, ok := el.(*ast.KeyValueExpr); ok {
					p.die(el, "keyed slice literal")
				}
				es, et := f.expr(el, tyByte, c)
				if et.k != "byte" {
					p.die(el, "byte expected, %v given", et)
				}
				els = append(els, es)
			}
			return "[" + strings.Join(els, ", ") + "]", t
		}
		if t.k != "struct" {
			p.die(e, "composite literal of %v", t)
		}
		isNode, nextS := p.listNext[t.name] != "", "[]"
		if isNode && !f.inAddr {
			p.die(e, "list node %s by value (only `&%s{…}`)", t.name, t.name)
		}
		f.inAddr = false
		var parts []string
		for _, el := range v.Elts {
			kv, ok := el.(*ast.KeyValueExpr)
			if !ok {
				p.die(el, "unkeyed composite literal")
			}
			fname := kv.Key.(*ast.Ident).Name
			if isNode && fname == p.listNext[t.name] { // the new node in front of the chain it points to
				lt := &ity{k: "lptr", elem: t}
				vs, vt := f.expr(kv.Value, lt, c)
				if !vt.eq(lt) {
					p.die(el, "field %s: %v expected, %v given", fname, lt, vt)
				}
				nextS = vs
				continue
			}
			var ft *ity
			for _, fl := range p.structs[t.name] {
				if fl.name == fname {
					ft = fl.ty
				}
			}
			if ft == nil {
				p.die(el, "no field %s", fname)
			}
			vs, vt := f.expr(kv.Value, ft, c)
			if !vt.eq(ft) {
				p.die(el, "field %s: %v expected, %v given", fname, ft, vt)
			}
			parts = append(parts, fname+" := "+vs)
		}
		if isNode {
			return "(({ " + strings.Join(parts, ", ") + " } : " + p.lty(t, true) + ") :: " + parenImp(nextS) + ")", &ity{k: "lptr", elem: t}
		}
		if len(parts) == 0 {
			return "({} : " + p.lty(t, true) + ")", t
		}
		return "({ " + strings.Join(parts, ", ") + " } : " + p.lty(t, true) + ")", t
	case *ast.CallExpr:
		return f.call(v, want, c)
	}
	p.die(e, "expression outside the subset (%T)", e)
	return "", nil
}

func (f *impFn) binary(v *ast.BinaryExpr, want *ity, c *ictx) (string, *ity) {
	p := f.p
	switch v.Op {
	case token.LOR, token.LAND:
		xs, xt := f.expr(v.X, tyBool, c)
		var gs []string
		if v.Op == token.LOR {
			nilTests(v.X, token.LOR, token.EQL, &gs)
		} else {
			nilTests(v.X, token.LAND, token.NEQ, &gs)
		}
		saved := copySet(f.nonNil)
		for _, g := range gs {
			f.nonNil[g] = true
		}
		ys, yt := f.expr(v.Y, tyBool, c)
		f.nonNil = saved
		if xt.k != "bool" || yt.k != "bool" {
			p.die(v, "%s on %v, %v", v.Op, xt, yt)
		}
		op := "||"
		if v.Op == token.LAND {
			op = "&&"
		}
		return parenImp(xs) + " " + op + " " + parenImp(ys), tyBool
	case token.EQL, token.NEQ:
		if id, ok := v.Y.(*ast.Ident); ok && id.Name == "nil" {
			sv := f.saveFresh()
			xs, xt := f.expr(v.X, nil, c)
			f.restoreFresh(sv)
			switch xt.k {
			case "lptr":
				if v.Op == token.EQL {
					return parenImp(xs) + ".isEmpty", tyBool
				}
				return "!" + parenImp(xs) + ".isEmpty", tyBool
			case "ptr", "nslice":
				if v.Op == token.EQL {
					return parenImp(xs) + ".isNone", tyBool
				}
				return parenImp(xs) + ".isSome", tyBool
			case "error":
				if v.Op == token.EQL {
					return parenImp(xs) + " == Err.nil", tyBool
				}
				return parenImp(xs) + " != Err.nil", tyBool
			}
			p.die(v, "comparison of %v with nil (slices / maps: not in the by-value subset)", xt)
		}
		xs, xt, ys, yt := f.operands(v, nil, c)
		if !xt.eq(yt) || !(xt.k == "int" || xt.k == "uint64" || xt.k == "bool" || xt.k == "string" || xt.k == "error" || xt.k == "byte" || xt.k == "int64") {
			p.die(v, "comparison of %v and %v", xt, yt)
		}
		op := "=="
		if v.Op == token.NEQ {
			op = "!="
		}
		return parenImp(xs) + " " + op + " " + parenImp(ys), tyBool
	case token.LSS, token.LEQ, token.GTR, token.GEQ:
		xs, xt, ys, yt := f.operands(v, nil, c)
		if !(xt.k == "int" && yt.k == "int") && !(xt.k == "uint64" && yt.k == "uint64") {
			p.die(v, "%s on %v, %v", v.Op, xt, yt)
		}
		op := map[token.Token]string{token.LSS: "<", token.LEQ: "≤", token.GTR: ">", token.GEQ: "≥"}[v.Op]
		return "decide (" + xs + " " + op + " " + ys + ")", tyBool
	case token.XOR:
		xs, xt := f.expr(v.X, tyByte, c)
		ys, yt := f.expr(v.Y, tyByte, c)
		if xt.k == "int64" && yt.k == "int64" { // bitwise xor of the two's complement representations
			return "xorS64 " + parenImp(xs) + " " + parenImp(ys), xt
		}
		if xt.k != "byte" || yt.k != "byte" {
			p.die(v, "^ on %v, %v (only bytes)", xt, yt)
		}
		return parenImp(xs) + " ^^^ " + parenImp(ys), tyByte
	case token.AND, token.OR:
		xs, xt, ys, yt := f.operands(v, want, c)
		if !xt.eq(yt) || !(xt.k == "byte" || xt.k == "uint64") {
			p.die(v, "%s on %v, %v (only bytes / uint64)", v.Op, xt, yt)
		}
		return parenImp(xs) + map[token.Token]string{token.AND: " &&& ", token.OR: " ||| "}[v.Op] + parenImp(ys), xt
	case token.SHR:
		xs, xt := f.expr(v.X, tyInt, c)
		if xt.k == "byte" || xt.k == "uint64" {
			// x >> n with a signed count n (a negative count panics in Go: not modelled); the value is computed on the naturals
			ns, nt := f.expr(v.Y, tyInt, c)
			if nt.k != "int" {
				p.die(v, ">> count of type %v", nt)
			}
			return map[string]string{"byte": "shrByte ", "uint64": "shr64 "}[xt.k] + parenImp(xs) + " " + parenImp(ns), xt
		}
		n := litInt(v.Y)
		if xt.k == "int64" && n != nil { // arithmetic shift of an int64: floor division by 2^n, no wrap-around possible
			return "Int.shiftRight " + parenImp(xs) + " " + n.String(), xt
		}
		if xt.k != "int" || n == nil {
			p.die(v, ">> form (only int >> literal: arithmetic shift = floor division by 2^n)")
		}
		return "Int.shiftRight " + parenImp(xs) + " " + n.String(), tyInt
	case token.SHL:
		// x << s on uint64 (an untyped constant x takes its type from the context); s must be unsigned
		xs, xt := f.expr(v.X, want, c)
		ss, st := f.expr(v.Y, tyU64, c)
		if xt.k != "uint64" || st.k != "uint64" {
			p.die(v, "<< on %v, %v (only uint64 << uint)", xt, st)
		}
		return "shl64 " + parenImp(xs) + " " + parenImp(ss), tyU64
	case token.ADD, token.SUB, token.MUL, token.QUO, token.REM:
		xs, xt, ys, yt := f.operands(v, want, c)
		if xt.k == "uint64" && yt.k == "uint64" {
			switch v.Op {
			case token.ADD:
				return "(" + xs + " + " + ys + ") % 2^64", tyU64
			case token.SUB:
				return "(" + xs + " + 2^64 - " + ys + ") % 2^64", tyU64
			case token.MUL:
				return "(" + parenImp(xs) + " * " + parenImp(ys) + ") % 2^64", tyU64
			case token.QUO: // division by zero panics in Go: not modelled (Lean: 0)
				return parenImp(xs) + " / " + parenImp(ys), tyU64
			case token.REM:
				return parenImp(xs) + " % " + parenImp(ys), tyU64
			}
		}
		if xt.k == "int64" && yt.k == "int64" && (v.Op == token.ADD || v.Op == token.SUB) { // int64: wraps around
			return "wrapS64 (" + parenImp(xs) + " " + v.Op.String() + " " + parenImp(ys) + ")", xt
		}
		if xt.k == "byte" && yt.k == "byte" && (v.Op == token.SUB || v.Op == token.ADD) { // UInt8 arithmetic wraps, as in Go
			return parenImp(xs) + " " + v.Op.String() + " " + parenImp(ys), tyByte
		}
		if xt.k != "int" || yt.k != "int" {
			p.die(v, "%s on %v, %v", v.Op, xt, yt)
		}
		if v.Op == token.QUO { // Go truncates toward zero (division by zero panics: not modelled)
			return "Int.tdiv " + parenImp(xs) + " " + parenImp(ys), tyInt
		}
		if v.Op == token.REM {
			return "Int.tmod " + parenImp(xs) + " " + parenImp(ys), tyInt
		}
		return parenImp(xs) + " " + v.Op.String() + " " + parenImp(ys), tyInt
	}
	p.die(v, "binary operator %s", v.Op)
	return "", nil
}

func untypedConst(e ast.Expr) bool {
	switch v := e.(type) {
	case *ast.BasicLit:
		return true
	case *ast.ParenExpr:
		return untypedConst(v.X)
	case *ast.BinaryExpr:
		if v.Op == token.SHL {
			return untypedConst(v.X)
		}
		return untypedConst(v.X) && untypedConst(v.Y)
	}
	return false
}

// both operands of a binary operator; an untyped constant operand takes the type of the other one (or of the context)
func (f *impFn) operands(v *ast.BinaryExpr, want *ity, c *ictx) (string, *ity, string, *ity) {
	if untypedConst(v.X) && !untypedConst(v.Y) {
		ys, yt := f.expr(v.Y, want, c)
		xs, xt := f.expr(v.X, yt, c)
		return xs, xt, ys, yt
	}
	w := want
	if w == nil || !(w.k == "int" || w.k == "uint64") {
		w = nil
	}
	xs, xt := f.expr(v.X, w, c)
	ys, yt := f.expr(v.Y, xt, c)
	return xs, xt, ys, yt
}

// a slice VALUE: a nil-able slice parameter must be known to be non-nil here
func (f *impFn) sliceVal(e ast.Expr, want *ity, c *ictx) (string, *ity) {
	xs, xt := f.expr(e, want, c)
	if xt.k == "nslice" {
		if !f.nonNil[exprText(e)] {
			f.p.die(e, "use of the nil-able slice %s is not guarded by a nil test", exprText(e))
		}
		return "(deref " + parenImp(xs) + ")", xt.elem
	}
	return xs, xt
}

// hash method call X.M(args) ?
func (f *impFn) hashCall(v *ast.CallExpr, c *ictx) (recvE ast.Expr, method string, ok bool) {
	se, isSel := v.Fun.(*ast.SelectorExpr)
	if !isSel {
		return nil, "", false
	}
	if id, isId := se.X.(*ast.Ident); isId && f.lookup(id.Name) == nil {
		return nil, "", false // package-qualified call
	}
	_, xt := f.expr(se.X, nil, c)
	if xt.k != "hash" {
		return nil, "", false
	}
	return se.X, se.Sel.Name, true
}

func (f *impFn) call(v *ast.CallExpr, want *ity, c *ictx) (string, *ity) {
	p := f.p
	// conversion []byte(s)
	if at, ok := v.Fun.(*ast.ArrayType); ok && len(v.Args) == 1 {
		t := p.goType(at)
		xs, xt := f.expr(v.Args[0], nil, c)
		if t.eq(tyBytes) && xt.k == "string" {
			return "bytesOfString " + parenImp(xs), tyBytes
		}
		p.die(v, "conversion %v(%v)", t, xt)
	}
	if se, ok := v.Fun.(*ast.SelectorExpr); ok && p.tg.ext {
		if ix, ok := se.X.(*ast.IndexExpr); ok {
			if id, ok := ix.X.(*ast.Ident); ok && f.lookup(id.Name) != nil && f.lookup(id.Name).k == "bigpair" && se.Sel.Name == "Sign" && len(v.Args) == 0 {
				xs, _ := f.expr(ix, nil, c)
				return "bigSign " + parenImp(xs), tyInt
			}
		}
		if id, ok := se.X.(*ast.Ident); ok {
			if t := f.lookup(id.Name); t != nil && t.k == "frel" && se.Sel.Name == "BitLen" && len(v.Args) == 0 {
				return "elBitLen " + lname(id.Name), tyInt // (*fr.Element).BitLen on the raw words (parameter)
			}
		}
		if exprText(v.Fun) == "ecc.SplitScalar" && len(v.Args) == 2 && f.lookup("ecc") == nil {
			// the lattice basis (second argument, a package-level variable) is part of the parameter `split`
			u, ok := v.Args[1].(*ast.UnaryExpr)
			if !ok || u.Op != token.AND || exprText(u.X) != "glvBasis" || f.lookup("glvBasis") != nil {
				p.die(v, "ecc.SplitScalar form (only SplitScalar(s, &glvBasis))")
			}
			as, at := f.expr(v.Args[0], nil, c)
			if at.k != "bigint" {
				p.die(v, "SplitScalar argument")
			}
			return "split " + parenImp(as), &ity{k: "bigpair"}
		}
	}
	if se, ok := v.Fun.(*ast.SelectorExpr); ok {
		if id, ok := se.X.(*ast.Ident); ok {
			if t := f.lookup(id.Name); t != nil && t.k == "bigint" {
				xs, _ := f.expr(id, nil, c)
				switch {
				case se.Sel.Name == "IsUint64" && len(v.Args) == 0:
					return "bigIsUint64 " + xs, tyBool
				case se.Sel.Name == "Uint64" && len(v.Args) == 0:
					return "bigUint64 " + xs, tyU64
				case se.Sel.Name == "Sign" && len(v.Args) == 0:
					return "bigSign " + xs, tyInt
				case se.Sel.Name == "BitLen" && len(v.Args) == 0:
					return "bigBitLen " + xs, tyInt
				case se.Sel.Name == "Cmp" && len(v.Args) == 1 && p.tg.mode == "h2f":
					return "bigCmp " + xs + " " + parenImp(f.h2fBigArg(v.Args[0], c)), tyInt
				case se.Sel.Name == "Bytes" && len(v.Args) == 0 && p.tg.grp != "":
					return "bigBytes " + xs, tyBytes // big-endian bytes of |x|, no leading zero ([] for 0)
				case se.Sel.Name == "Bits" && len(v.Args) == 0 && p.tg.grp != "":
					return "bigWords " + xs, &ity{k: "slice", elem: tyU64} // little-endian 64-bit words of |x|, normalised (64-bit platform)
				case se.Sel.Name == "Bit" && len(v.Args) == 1:
					is, it := f.expr(v.Args[0], tyInt, c)
					if it.k != "int" {
						p.die(v, "Bit argument")
					}
					return "bigBit " + xs + " " + parenImp(is), tyU64
				}
				p.die(v, "big.Int method %s in expression position", se.Sel.Name)
			}
		}
	}
	if x, m, ok := f.hashCall(v, c); ok {
		if m == "Sum" && len(v.Args) == 1 {
			xs, _ := f.expr(x, nil, c)
			as, at := f.expr(v.Args[0], tyBytes, c)
			if !at.eq(tyBytes) {
				p.die(v, "Sum argument")
			}
			c.uses.H = true
			return "Hash.Sum H " + parenImp(xs) + " " + parenImp(as), tyBytes
		}
		if m == "Size" && len(v.Args) == 0 {
			c.uses.S = true
			return "hSize", tyInt
		}
		if m == "BlockSize" && len(v.Args) == 0 {
			c.uses.B = true
			return "hBlockSize", tyInt
		}
		p.die(v, "hash method %s in expression position", m)
	}
	if id, ok := v.Fun.(*ast.Ident); ok && p.absDecl[id.Name] != nil && f.lookup(id.Name) == nil {
		_, tys, rt := p.absSig(id.Name)
		if len(tys) != len(v.Args) || v.Ellipsis.IsValid() {
			p.die(v, "call of the abstract function %s: arity", id.Name)
		}
		out := id.Name
		for i, a := range v.Args {
			if tys[i].k == "hash" { // the hasher is Reset by the callee before use: its state does not influence the result
				if _, at := f.expr(a, nil, c); at.k != "hash" {
					p.die(a, "hash argument expected")
				}
				continue
			}
			as, at := f.sliceVal(a, tys[i], c)
			if !at.eq(tys[i]) {
				p.die(a, "argument %d of %s: %v expected, %v given", i, id.Name, tys[i], at)
			}
			out += " " + parenImp(as)
		}
		return out, rt
	}
	if se, ok := v.Fun.(*ast.SelectorExpr); ok && f.recv != "" && !f.evRecv && exprText(se.X) == f.recv {
		if m := p.recvMeths[se.Sel.Name]; m != nil {
			if m.mutates || len(m.results) != 1 {
				p.die(v, "call of the method %s in expression position (only methods that leave the receiver unchanged and have one result)", se.Sel.Name)
			}
			return f.recvMethodCall(v, se.Sel.Name, m, c), m.results[0]
		}
	}
	if id, ok := v.Fun.(*ast.Ident); ok && f.lookup(id.Name) == nil && p.translated[id.Name] != nil {
		// call of a package-local function translated before (pure: no receiver, one result)
		sig := p.translated[id.Name]
		if len(sig.params) != len(v.Args) || v.Ellipsis.IsValid() {
			p.die(v, "call of %s: arity", id.Name)
		}
		out := lname(id.Name) + impAbsArgs
		for _, g := range p.tg.pre[id.Name] {
			for i, pn := range sig.pnames {
				if pn == g && !f.nonNil[exprText(v.Args[i])] {
					p.die(v.Args[i], "call of %s: its entry condition %s != nil is not established for this argument", id.Name, g)
				}
			}
		}
		for i, a := range v.Args {
			as, at := f.expr(a, sig.params[i], c)
			if !at.eq(sig.params[i]) {
				p.die(a, "argument %d of %s: %v expected, %v given", i, id.Name, sig.params[i], at)
			}
			out += " " + parenImp(as)
		}
		return out, sig.result
	}
	switch exprText(v.Fun) {
	case "sha256.New":
		if len(v.Args) == 0 { // a fresh hasher; which hash it is = the parameters W / H / hSize / hBlockSize
			return "({} : Hash)", tyHash
		}
	case "errors.New":
		if len(v.Args) == 1 {
			if bl, ok := v.Args[0].(*ast.BasicLit); ok && bl.Kind == token.STRING {
				return "Err.sentinel " + bl.Value, tyErr
			}
			if be, ok := v.Args[0].(*ast.BinaryExpr); ok && be.Op == token.ADD && p.tg.mode == "h2f" {
				// errors.New("literal" + s): a sentinel named by its message
				if bl, ok := be.X.(*ast.BasicLit); ok && bl.Kind == token.STRING {
					if ss, st := f.expr(be.Y, tyString, c); st.k == "string" {
						return "Err.sentinel (" + bl.Value + " ++ strOf " + parenImp(ss) + ")", tyErr
					}
				}
			}
		}
		p.die(v, "errors.New form")
	case "uint8", "byte":
		if len(v.Args) == 1 && f.lookup(exprText(v.Fun)) == nil {
			xs, xt := f.expr(v.Args[0], nil, c)
			switch xt.k {
			case "int":
				return "byteOfInt " + parenImp(xs), tyByte
			case "byte":
				return xs, tyByte
			}
			p.die(v, "conversion to uint8 of %v", xt)
		}
	case "uint", "uint64":
		if len(v.Args) == 1 && f.lookup(exprText(v.Fun)) == nil {
			var w *ity
			if _, isLit := v.Args[0].(*ast.BasicLit); untypedConst(v.Args[0]) && !isLit { // `uint64(1 << s)`: the untyped constant takes the type of the conversion, the shift is a uint64 shift
				w = tyU64
			}
			xs, xt := f.expr(v.Args[0], w, c)
			switch xt.k {
			case "int", "int64":
				return "uintOfInt " + parenImp(xs), tyU64
			case "uint64":
				return xs, tyU64
			}
			p.die(v, "conversion to uint64 of %v", xt)
		}
	case "bytes.Equal":
		if len(v.Args) == 2 {
			xs, xt := f.sliceVal(v.Args[0], tyBytes, c)
			ys, yt := f.sliceVal(v.Args[1], tyBytes, c)
			if xt.eq(tyBytes) && yt.eq(tyBytes) {
				return parenImp(xs) + " == " + parenImp(ys), tyBool
			}
		}
		p.die(v, "bytes.Equal form")
	case "runtime.NumCPU":
		if len(v.Args) == 0 {
			f.usesNumCPU = true
			return "numCPU", tyInt
		}
	case "len":
		xs, xt := f.expr(v.Args[0], nil, c)
		if xt.k != "slice" && xt.k != "string" {
			p.die(v, "len of %v", xt)
		}
		return "len " + parenImp(xs), tyInt
	case "make":
		t := p.goType(v.Args[0])
		if t.k == "map" && len(v.Args) == 1 {
			return "(GoMap.empty : " + p.lty(t, true) + ")", t
		}
		if t.eq(tyBytes) && len(v.Args) == 2 {
			ns, nt := f.expr(v.Args[1], tyInt, c)
			if nt.k != "int" {
				p.die(v, "make length")
			}
			return "makeBytes " + parenImp(ns), t
		}
		if t.k == "slice" && (len(v.Args) == 2 || len(v.Args) == 3) && p.tg.methodCalls {
			// make([]T, n, cap): n zero values (the capacity has no meaning for a slice VALUE; it is translated for its guards only)
			ns, nt := f.expr(v.Args[1], tyInt, c)
			if nt.k != "int" {
				p.die(v, "make length")
			}
			if len(v.Args) == 3 {
				if _, ct := f.expr(v.Args[2], tyInt, c); ct.k != "int" {
					p.die(v, "make capacity")
				}
			}
			if t.eq(tyBytes) {
				return "makeBytes " + parenImp(ns), t
			}
			return "(List.replicate " + parenImp(ns) + ".toNat " + p.zero(t.elem) + " : " + p.lty(t, true) + ")", t
		}
		if t.k == "slice" && t.elem.k == "elem" && len(v.Args) == 2 && p.tg.mode == "h2f" {
			// make([]Element, n): n zero values of the element type (`default`; a negative n panics in Go: not modelled)
			ns, nt := f.expr(v.Args[1], tyInt, c)
			if nt.k != "int" {
				p.die(v, "make length")
			}
			return "(makeSlice " + parenImp(ns) + " : List F)", t
		}
		p.die(v, "make(%v, …)", t)
	case "append":
		if v.Ellipsis.IsValid() && len(v.Args) == 2 {
			// append(x[:0:0], x...): a copy of x (same value)
			isZero := func(e ast.Expr) bool { b, ok := e.(*ast.BasicLit); return e == nil || (ok && b.Value == "0") }
			if se, ok := v.Args[0].(*ast.SliceExpr); ok && se.Slice3 && isZero(se.Low) && se.High != nil && isZero(se.High) && se.Max != nil && isZero(se.Max) && exprText(se.X) == exprText(v.Args[1]) {
				xs, xt := f.expr(v.Args[1], want, c)
				if xt.k != "slice" {
					p.die(v, "append(x[:0:0], x...) on %v", xt)
				}
				return xs, xt
			}
		}
		if v.Ellipsis.IsValid() || len(v.Args) < 2 {
			p.die(v, "append form")
		}
		xs, xt := f.expr(v.Args[0], want, c)
		if xt.k != "slice" {
			p.die(v, "append to %v", xt)
		}
		var els []string
		for _, a := range v.Args[1:] {
			as, at := f.expr(a, xt.elem, c)
			if !at.eq(xt.elem) {
				p.die(a, "append element type")
			}
			els = append(els, as)
		}
		return parenImp(xs) + " ++ [" + strings.Join(els, ", ") + "]", xt
	case "fmt.Errorf":
		if len(v.Args) >= 1 {
			if bl, ok := v.Args[0].(*ast.BasicLit); ok && bl.Kind == token.STRING && !strings.Contains(bl.Value, "%w") && p.tg.methodCalls {
				// an error identified by its format string; the formatted values are not part of the model (they are still translated:
				// their dereferences must be guarded)
				for _, a := range v.Args[1:] {
					f.expr(a, nil, c)
				}
				return "Err.sentinel " + bl.Value, tyErr
			}
		}
		if len(v.Args) == 2 {
			if bl, ok := v.Args[0].(*ast.BasicLit); ok && bl.Kind == token.STRING && strings.Count(bl.Value, "%") == 1 && strings.Contains(bl.Value, "%w") {
				es, et := f.expr(v.Args[1], tyErr, c)
				if et.k == "error" {
					return "Err.wrapf " + bl.Value + " " + parenImp(es), tyErr
				}
			}
		}
		p.die(v, "fmt.Errorf form (only a literal format with a single %%w)")
	}
	p.die(v, "call of %s outside the subset", exprText(v.Fun))
	return "", nil
}

// `&x`: x must not be assigned afterwards
func (f *impFn) checkAddrOf(at *ast.UnaryExpr, x string, c *ictx) {
	if c.inLoop {
		f.p.die(at, "&%s inside a loop", x)
	}
	f.checkNotAssignedAfter(at, x)
}

// x must not be assigned by any statement that comes later in the function text
func (f *impFn) checkNotAssignedAfter(at ast.Node, x string) {
	root := func(e ast.Expr) string {
		for {
			switch v := e.(type) {
			case *ast.SelectorExpr:
				e = v.X
			case *ast.IndexExpr:
				e = v.X
			case *ast.ParenExpr:
				e = v.X
			case *ast.SliceExpr:
				e = v.X
			case *ast.StarExpr:
				e = v.X
			case *ast.Ident:
				return v.Name
			default:
				return ""
			}
		}
	}
	ast.Inspect(f.fd.Body, func(n ast.Node) bool {
		if n == nil || n.Pos() <= at.Pos() {
			if n != nil && n.End() <= at.Pos() {
				return false
			}
			return true
		}
		switch s := n.(type) {
		case *ast.AssignStmt:
			for _, l := range s.Lhs {
				if root(l) == x {
					f.p.die(s, "%s is assigned after its address was taken / after it was captured (value abstraction would be unsound)", x)
				}
			}
		case *ast.IncDecStmt:
			if root(s.X) == x {
				f.p.die(s, "%s is modified after its address was taken", x)
			}
		case *ast.CallExpr:
			if exprText(s.Fun) == "copy" && len(s.Args) > 0 && root(s.Args[0]) == x {
				f.p.die(s, "%s is copied into after its address was taken", x)
			}
		case *ast.RangeStmt:
			if (s.Key != nil && root(s.Key) == x) || (s.Value != nil && root(s.Value) == x) {
				f.p.die(s, "%s is a range variable after its address was taken", x)
			}
		}
		return true
	})
}

var _ = fmt.Sprintf
