// Part 6c (slpgperm.go): the permutation argument's verifier in the group-level mode of slpgroup.go (C17 tie T):
//
//	ecc/<curve>/fr/permutation/permutation.go   Verify(vk, proof)   ->  Gen/Verifier/Permutation_<curve>.lean
//
// `deriveRandomness` is executed in place (its variadic points are the pointers written at the call site; `range` over them is unrolled),
// `kzg.BatchVerifySinglePoint` (4 digests) and `kzg.Verify` are calls of the kzg defs re-translated from kzg.go on this run and emitted into
// the same file with the prefix `kzg_` (Props/C17_gen_perm_* prove them identical to the defs of Gen/Verifier/Kzg_<curve>.lean by rfl).
//
// PRIMITIVES / PARAMETERS added here:
//
//	sha256.New()                     a non-nil hash.Hash (its state is not modelled: it is only handed to NewTranscript and to kzg's deriveGamma)
//	G.RawBytes()                     PARAMETER rawBytesG : G → List UInt8   (uncompressed encoding; `buf = p.RawBytes(); buf[:]`)
//	S.Exp(x, k)  (k a *big.Int)      PARAMETER expS : S → Int → S           (fr.Element.Exp; C01's subject)
//	S.Div(x, y)                      x * y⁻¹   (element.go Div: Inverse then Mul; Inverse(0) = 0 is the instance's business)
//	S.Square(x)                      x * x
//	Go `int` at run time (proof.size): an exact Lean Int parameter assumed to be an int64 value; a - b = GV.Gen.Verifier.i64sub a b (wraps),
//	                                 a & b = GV.Gen.Verifier.i64and a b (two's complement and), a / b = GV.Gen.Verifier.i64quo a b (truncated
//	                                 quotient, wraps; b must be a non-zero literal), ==, != exact;  int64(x) of an int = x;
//	                                 big.NewInt(int64(x)) = x
//	Go `uint64` at run time (plookup's proof.size): an exact Int assumed in [0, 2^64); -, &, / are u64sub (wraps), u64and, u64quo; int64(x) = wrap64 x
//
//	ecc/<curve>/fr/plookup/vector.go (deriveRandomness: table.go)   VerifyLookupVector(vk, proof)   ->  Gen/Verifier/Plookup_<curve>.lean
//	with 6 + 4 claimed values; the two kzg.BatchVerifySinglePoint calls (6 and 4 digests) re-translated from kzg.go into the same file
package main

import (
	"fmt"
	"go/ast"
	"go/token"
	"strings"
)

const permClasses = shClasses + " [_root_.BEq S]"

func runGroupPerm(guard func(string, func())) {
	for _, c := range groupCurves {
		lc := strings.ReplaceAll(c, "-", "_")
		guard("permutation "+c, func() {
			p := loadGroupPkg("permutation_"+lc, "ecc/"+c+"/fr/permutation", "permutation.go")
			p.classes = permClasses
			p.permMode = true
			p.lensNames = map[string]string{"Verify" + lensKey([]int{4}): "Verify"}
			p.translate("Verify", []int{4})
			p.emit("permutation_"+lc, "Permutation_"+lc+".lean", "")
		})
		guard("plookup "+c, func() {
			p := loadGroupPkg("plookup_"+lc, "ecc/"+c+"/fr/plookup", "vector.go,table.go")
			p.classes = permClasses
			p.permMode = true
			p.lensNames = map[string]string{"VerifyLookupVector" + lensKey([]int{6, 4}): "VerifyLookupVector"}
			p.translate("VerifyLookupVector", []int{6, 4})
			p.emit("plookup_"+lc, "Plookup_"+lc+".lean", "")
		})
	}
}

func (x *gtr) permIntOp(op token.Token, a, b *gv) *gv {
	if !x.p.permMode {
		return nil
	}
	fn := map[token.Token]string{token.SUB: "i64sub", token.AND: "i64and", token.QUO: "i64quo"}[op]
	if fn == "" {
		return nil
	}
	t := &gtype{k: gInt}
	if a.t.name == "uint64" || b.t.name == "uint64" {
		// uint64 operands (an untyped constant takes the type of the other operand)
		if (a.t.name != "uint64" && !a.static) || (b.t.name != "uint64" && !b.static) {
			reject("%s: mixed int / uint64 operands", x.fname)
		}
		fn = "u" + fn[1:]
		t = &gtype{k: gInt, name: "uint64"}
	}
	if op == token.QUO && !(b.static && b.n != 0) {
		reject("%s: run-time integer division by a non-literal or by zero", x.fname)
	}
	return &gv{t: t, term: fmt.Sprintf("(GV.Gen.Verifier.%s %s %s)", fn, intTerm(a), intTerm(b))}
}

func (x *gtr) permCall(s *gscope, c *ast.CallExpr) ([]*gv, bool) {
	if !x.p.permMode {
		return nil, false
	}
	name := gexpr(c.Fun)
	switch name {
	case "sha256.New":
		x.nargs(c, 0)
		if x.p.imports["sha256"] != "crypto/sha256" {
			reject("%s: sha256 is not crypto/sha256", x.fname)
		}
		return []*gv{{t: &gtype{k: gHash}, static: true, n: 1}}, true
	case "int64":
		x.nargs(c, 1)
		v := x.eval(s, c.Args[0])
		if v.t.k != gInt {
			reject("%s: int64 of a non-int", x.fname)
		}
		if v.t.name == "uint64" {
			if v.static {
				reject("%s: int64 of a uint64 constant", x.fname)
			}
			return []*gv{{t: &gtype{k: gInt}, term: fmt.Sprintf("(GV.Gen.Verifier.wrap64 %s)", v.term)}}, true
		}
		return []*gv{v}, true
	case "big.NewInt":
		x.nargs(c, 1)
		v := x.eval(s, c.Args[0])
		if v.t.k != gInt {
			reject("%s: big.NewInt argument", x.fname)
		}
		if v.static {
			return nil, false
		}
		cell := x.newCell("bigOfInt", &gv{t: &gtype{k: gZ}, term: v.term})
		return []*gv{x.ptrTo(cell)}, true
	case "kzg.BatchVerifySinglePoint", "kzg.Verify":
		sub := x.p.subPkg("kzg", "kzg.go")
		sub.classes, sub.typeArgs, sub.fixedParams, sub.fixedArgs = x.p.classes, x.p.typeArgs, x.p.fixedParams, x.p.fixedArgs
		sub.namePrefix = "kzg_"
		key := strings.TrimPrefix(name, "kzg.")
		fd, ok := sub.funcs[key]
		if !ok {
			reject("%s: %s not found", x.fname, name)
		}
		x.calleePkg = sub
		rs := x.callFn(s, fd, key, nil, c)
		x.calleePkg = nil
		return rs, true
	case "deriveRandomness":
		fd, ok := x.p.funcs["deriveRandomness"]
		if !ok {
			reject("%s: deriveRandomness not found", x.fname)
		}
		return x.permInlineVariadic(s, fd, "deriveRandomness", c), true
	}
	return nil, false
}

// permInlineVariadic: a function of the package executed in place whose last parameter is variadic and receives the remaining
// arguments one by one (deriveRandomness(fs, name, &p1, &p2)): the variadic parameter is a slice of exactly those values.
func (x *gtr) permInlineVariadic(s *gscope, fd *ast.FuncDecl, name string, c *ast.CallExpr) []*gv {
	if c.Ellipsis.IsValid() {
		reject("%s: %s called with a spread slice", x.fname, name)
	}
	sc := &gscope{vars: map[string]cellID{}}
	var ptypes []*gtype
	var pnames []string
	for i, fl := range fd.Type.Params.List {
		var t *gtype
		if el, ok := fl.Type.(*ast.Ellipsis); ok {
			if i != len(fd.Type.Params.List)-1 || len(fl.Names) != 1 {
				reject("%s: %s: variadic parameter", x.fname, name)
			}
			t = &gtype{k: gSlice, elem: x.p.typeOf(el.Elt)}
		} else {
			t = x.p.typeOf(fl.Type)
		}
		for _, nm := range fl.Names {
			ptypes = append(ptypes, t)
			pnames = append(pnames, nm.Name)
		}
	}
	np := len(pnames)
	if np == 0 || ptypes[np-1].k != gSlice || len(c.Args) < np-1 {
		reject("%s: call of %s", x.fname, name)
	}
	for i := 0; i < np-1; i++ {
		v := x.eval(s, c.Args[i])
		if v.t.k != ptypes[i].k {
			reject("%s: argument %d of %s has an unexpected kind", x.fname, i, name)
		}
		if v.t.k == gStruct || v.t.k == gArray {
			reject("%s: argument %d of %s by value", x.fname, i, name)
		}
		sc.vars[pnames[i]] = x.newCell(pnames[i], v)
	}
	vs := &gv{t: ptypes[np-1]}
	for i := np - 1; i < len(c.Args); i++ {
		v := x.eval(s, c.Args[i])
		if v.t.k != ptypes[np-1].elem.k || (v.t.k == gPtr && (v.ptr == 0 || x.store[v.ptr].t.k != ptypes[np-1].elem.elem.k)) {
			reject("%s: variadic argument %d of %s has an unexpected kind", x.fname, i, name)
		}
		vs.elems = append(vs.elems, x.newCell(fmt.Sprintf("%s_%d", pnames[np-1], i-np+1), v))
	}
	sc.vars[pnames[np-1]] = x.newCell(pnames[np-1], vs)
	var out []*gv
	got := false
	savedHook, savedName := x.retHook, x.fname
	x.retHook = func(vals []*gv) {
		if got {
			reject("%s: two returns reached in %s", savedName, name)
		}
		got, out = true, vals
	}
	x.inlineDepth++
	x.exec(sc, fd.Body.List, func() string {
		reject("%s: %s ends without return", savedName, name)
		return ""
	})
	x.inlineDepth--
	x.retHook = savedHook
	if !got {
		reject("%s: no return reached in %s", savedName, name)
	}
	return out
}

func (x *gtr) permMethod(s *gscope, recv cellID, name string, c *ast.CallExpr) ([]*gv, bool) {
	if !x.p.permMode {
		return nil, false
	}
	rv := x.store[recv]
	self := func() ([]*gv, bool) { return []*gv{x.ptrTo(recv)}, true }
	switch rv.t.k {
	case gS:
		switch name {
		case "Exp":
			x.nargs(c, 2)
			b := x.eval(s, c.Args[0]) // by value
			if b.t.k != gS {
				reject("%s: Exp base", x.fname)
			}
			k := x.eval(s, c.Args[1])
			if k.t.k != gPtr || k.ptr == 0 || x.store[k.ptr].t.k != gZ {
				reject("%s: Exp exponent", x.fname)
			}
			x.need("expS", "S → Int → S", false)
			x.setLeaf(recv, fmt.Sprintf("expS %s %s", gparen(b.term), gparen(x.store[k.ptr].term)))
			return self()
		case "Div":
			x.nargs(c, 2)
			x.setLeaf(recv, x.ptrArg(s, c.Args[0], gS).term+" * "+gparen(x.ptrArg(s, c.Args[1], gS).term)+"⁻¹")
			return self()
		case "Square":
			x.nargs(c, 1)
			a := x.ptrArg(s, c.Args[0], gS).term
			x.setLeaf(recv, a+" * "+a)
			return self()
		}
	case gG:
		if name == "RawBytes" {
			x.nargs(c, 0)
			x.useG(rv)
			x.need("rawBytesG", "G → List UInt8", false)
			return []*gv{{t: &gtype{k: gBytes, n: -1}, term: "(rawBytesG " + gparen(rv.term) + ")"}}, true
		}
	}
	return nil, false
}
