// Part 4 (this file): literal constants of the curve packages -> Gen/CurveConsts.lean.
//
// Re-reads, on every run, from the CURRENT Go text
//
//	(1) `init()` of ecc/<curve>/<curve>.go : curve coefficients, twist, generators, thirdRootOne, lambdaGLV, seed,
//	    LoopCounter tables (literal, or the literal scalar handed to ecc.NafDecomposition), endo.u / endo.v;
//	(2) multiexp.go / multiexp_affine.go / multiexp_jacobian.go / g1.go / g2.go : implementedCs, the case labels of
//	    getChunkProcessorG1/G2 with batch sizes and bucket-array lengths, the NbTasks bound, the digit width of
//	    partitionScalars, the window search of BatchScalarMultiplication, the text of lastC / computeNbChunks;
//	(3) initCurveParams() of the twisted-Edwards packages (A, D, Cofactor, Order, Base, bandersnatch endo / lambda).
//
// The interpreter of init() is deliberately strict: a statement it does not understand, a missing identifier or an
// unparsable literal is a non-zero exit naming the file, the line and the identifier. Values are emitted exactly as
// written (signed integers, regular form); nothing is reduced or recomputed here, the relations are Lean theorems
// (Props/C03_gen, Props/C04_gen).
package main

import (
	"bytes"
	"fmt"
	"go/ast"
	"go/parser"
	"go/printer"
	"go/token"
	"math/big"
	"os"
	"path/filepath"
	"regexp"
	"sort"
	"strconv"
	"strings"
)

var swCurves = []string{"bn254", "bls12-377", "bls12-381", "bls24-315", "bls24-317", "bw6-633", "bw6-761", "grumpkin", "secp256k1", "stark-curve"}

// curves whose package must contain an MSM
var msmCurves = map[string]bool{"bn254": true, "bls12-377": true, "bls12-381": true, "bls24-315": true, "bls24-317": true,
	"bw6-633": true, "bw6-761": true, "grumpkin": true, "secp256k1": true}

// curves with a second group
var g2Curves = map[string]bool{"bn254": true, "bls12-377": true, "bls12-381": true, "bls24-315": true, "bls24-317": true,
	"bw6-633": true, "bw6-761": true}

var teDirs = []string{"ecc/bn254/twistededwards", "ecc/bls12-377/twistededwards", "ecc/bls12-381/twistededwards",
	"ecc/bls12-381/bandersnatch", "ecc/bls24-315/twistededwards", "ecc/bls24-317/twistededwards",
	"ecc/bw6-633/twistededwards", "ecc/bw6-761/twistededwards"}

// ---------------------------------------------------------------------------------------------------------------------

type ccPkg struct {
	dir   string
	fset  *token.FileSet
	files map[string]*ast.File // base name -> file
}

func ccLoad(dir string) *ccPkg {
	p := &ccPkg{dir: dir, fset: token.NewFileSet(), files: map[string]*ast.File{}}
	names, _ := filepath.Glob(filepath.Join(repo, dir, "*.go"))
	if len(names) == 0 {
		die("curveconsts: %s: no Go files", dir)
	}
	for _, fn := range names {
		if strings.HasSuffix(fn, "_test.go") {
			continue
		}
		f, err := parser.ParseFile(p.fset, fn, nil, parser.ParseComments)
		if err != nil {
			die("curveconsts: parse %s: %v", fn, err)
		}
		p.files[filepath.Base(fn)] = f
	}
	return p
}

func (p *ccPkg) pos(n ast.Node) string {
	ps := p.fset.Position(n.Pos())
	rel, err := filepath.Rel(repo, ps.Filename)
	if err != nil {
		rel = ps.Filename
	}
	return fmt.Sprintf("%s:%d", rel, ps.Line)
}

func (p *ccPkg) sortedFiles() []string {
	var ns []string
	for n := range p.files {
		ns = append(ns, n)
	}
	sort.Strings(ns)
	return ns
}

// top-level function (no receiver unless recv != "") by name
func (p *ccPkg) fn(name, recv string) *ast.FuncDecl {
	for _, n := range p.sortedFiles() {
		for _, d := range p.files[n].Decls {
			fd, ok := d.(*ast.FuncDecl)
			if !ok || fd.Name.Name != name || fd.Body == nil {
				continue
			}
			if recv == "" && fd.Recv == nil {
				return fd
			}
			if recv != "" && fd.Recv != nil && len(fd.Recv.List) == 1 && ccExprText(fd.Recv.List[0].Type) == recv {
				return fd
			}
		}
	}
	return nil
}

// the `init` that sets the curve constants (a package may have several init functions)
func (p *ccPkg) initWith(ident string) *ast.FuncDecl {
	var found *ast.FuncDecl
	for _, n := range p.sortedFiles() {
		for _, d := range p.files[n].Decls {
			fd, ok := d.(*ast.FuncDecl)
			if !ok || fd.Name.Name != "init" || fd.Recv != nil || fd.Body == nil {
				continue
			}
			has := false
			ast.Inspect(fd.Body, func(n ast.Node) bool {
				if id, ok := n.(*ast.Ident); ok && id.Name == ident {
					has = true
				}
				return !has
			})
			if has {
				if found != nil {
					die("curveconsts: %s: two init() functions mention %s (%s and %s)", p.dir, ident, p.pos(found), p.pos(fd))
				}
				found = fd
			}
		}
	}
	if found == nil {
		die("curveconsts: %s: no init() mentioning %s", p.dir, ident)
	}
	return found
}

// package comment of the file that declares fd
func (p *ccPkg) docOf(fd *ast.FuncDecl) string {
	for _, n := range p.sortedFiles() {
		f := p.files[n]
		for _, d := range f.Decls {
			if d == ast.Decl(fd) {
				if f.Doc == nil {
					return ""
				}
				return f.Doc.Text()
			}
		}
	}
	return ""
}

var (
	ccDocSeed = regexp.MustCompile(`seed x₀=(-?[0-9]+)`)
	ccDocR    = regexp.MustCompile(`𝔽r: r=(0x[0-9a-fA-F]+|[0-9]+)`)
	ccDocP    = regexp.MustCompile(`𝔽p: p=(0x[0-9a-fA-F]+|[0-9]+)`)
)

// type of a package-level `var name T`
func (p *ccPkg) varType(name string) ast.Expr {
	for _, n := range p.sortedFiles() {
		for _, d := range p.files[n].Decls {
			gd, ok := d.(*ast.GenDecl)
			if !ok || gd.Tok != token.VAR {
				continue
			}
			for _, sp := range gd.Specs {
				vs := sp.(*ast.ValueSpec)
				for _, nm := range vs.Names {
					if nm.Name == name {
						return vs.Type
					}
				}
			}
		}
	}
	return nil
}

// length of `type name [N]T`
func (p *ccPkg) arrayTypeLen(name string) (int64, bool) {
	for _, n := range p.sortedFiles() {
		for _, d := range p.files[n].Decls {
			gd, ok := d.(*ast.GenDecl)
			if !ok || gd.Tok != token.TYPE {
				continue
			}
			for _, sp := range gd.Specs {
				ts := sp.(*ast.TypeSpec)
				if ts.Name.Name != name {
					continue
				}
				if at, ok := ts.Type.(*ast.ArrayType); ok && at.Len != nil {
					if v := litInt(at.Len); v != nil {
						return v.Int64(), true
					}
				}
				return 0, false
			}
		}
	}
	return 0, false
}

func ccExprText(e ast.Expr) string {
	var b bytes.Buffer
	printer.Fprint(&b, token.NewFileSet(), e)
	return b.String()
}

// source of a function, comments dropped, gofmt-normalised, one line per statement
func ccFuncText(fd *ast.FuncDecl) string {
	cp := *fd
	cp.Doc = nil
	var b bytes.Buffer
	cfg := printer.Config{Mode: printer.RawFormat, Tabwidth: 1}
	// printing without the file's comment map drops interior comments
	cfg.Fprint(&b, token.NewFileSet(), &cp)
	lines := strings.Split(b.String(), "\n")
	for i := range lines {
		lines[i] = strings.Join(strings.Fields(lines[i]), " ")
	}
	return strings.Join(lines, "\n")
}

func leanStr(s string) string {
	s = strings.ReplaceAll(s, "\\", "\\\\")
	s = strings.ReplaceAll(s, "\"", "\\\"")
	s = strings.ReplaceAll(s, "\n", "\\n")
	s = strings.ReplaceAll(s, "\t", "\\t")
	return "\"" + s + "\""
}

func leanInt(v *big.Int) string {
	if v.Sign() < 0 {
		return "(" + v.String() + ")"
	}
	return v.String()
}

func leanIntList(xs []*big.Int) string {
	ss := make([]string, len(xs))
	for i, x := range xs {
		ss[i] = x.String()
	}
	return "[" + strings.Join(ss, ", ") + "]"
}

func leanPairs(xs [][2]int64) string {
	ss := make([]string, len(xs))
	for i, x := range xs {
		ss[i] = fmt.Sprintf("(%d, %d)", x[0], x[1])
	}
	return "[" + strings.Join(ss, ", ") + "]"
}

func leanNats(xs []int64) string {
	ss := make([]string, len(xs))
	for i, x := range xs {
		ss[i] = strconv.FormatInt(x, 10)
	}
	return "[" + strings.Join(ss, ", ") + "]"
}

// string literal -> integer as Element.SetString / big.Int.SetString(s, base) read it (base 0: prefix decides)
func ccParseNum(p *ccPkg, e ast.Expr, base int, what string) *big.Int {
	bl, ok := e.(*ast.BasicLit)
	if !ok || bl.Kind != token.STRING {
		die("curveconsts: %s: %s: argument of SetString is not a string literal", p.pos(e), what)
	}
	s, err := strconv.Unquote(bl.Value)
	if err != nil {
		die("curveconsts: %s: %s: bad string literal %s", p.pos(e), what, bl.Value)
	}
	v, ok := new(big.Int).SetString(s, base)
	if !ok {
		die("curveconsts: %s: %s: cannot parse %q as an integer (base %d)", p.pos(e), what, s, base)
	}
	return v
}

// signed integer literal (`-1`, `+3`, `0x10`)
func ccSignedLit(e ast.Expr) *big.Int {
	switch v := e.(type) {
	case *ast.UnaryExpr:
		x := ccSignedLit(v.X)
		if x == nil {
			return nil
		}
		switch v.Op {
		case token.SUB:
			return new(big.Int).Neg(x)
		case token.ADD:
			return x
		}
		return nil
	}
	return litInt(e)
}

// `a.b.c` -> ["a","b","c"]; `a.b[1]` -> ["a","b[1]"]
func ccPath(e ast.Expr) []string {
	switch v := e.(type) {
	case *ast.Ident:
		return []string{v.Name}
	case *ast.SelectorExpr:
		p := ccPath(v.X)
		if p == nil {
			return nil
		}
		return append(p, v.Sel.Name)
	case *ast.IndexExpr:
		p := ccPath(v.X)
		i := litInt(v.Index)
		if p == nil || i == nil {
			return nil
		}
		p[len(p)-1] = fmt.Sprintf("%s[%s]", p[len(p)-1], i)
		return p
	case *ast.UnaryExpr:
		if v.Op == token.AND {
			return ccPath(v.X)
		}
	case *ast.ParenExpr:
		return ccPath(v.X)
	}
	return nil
}

type ccCall struct {
	name string
	args []ast.Expr
}

// `recv.M1(a).M2(b)` -> (path of recv, [M1(a), M2(b)])
func ccChain(e ast.Expr) ([]string, []ccCall) {
	ce, ok := e.(*ast.CallExpr)
	if !ok {
		return nil, nil
	}
	se, ok := ce.Fun.(*ast.SelectorExpr)
	if !ok {
		return nil, nil
	}
	if inner, ok := se.X.(*ast.CallExpr); ok {
		p, cs := ccChain(inner)
		if p == nil {
			return nil, nil
		}
		return p, append(cs, ccCall{se.Sel.Name, ce.Args})
	}
	p := ccPath(se.X)
	if p == nil {
		return nil, nil
	}
	return p, []ccCall{{se.Sel.Name, ce.Args}}
}

// ---------------------------------------------------------------------------------------------------------------------
// tower elements: flat coefficient lists in the order of the Go struct fields
//   degree 1: fp.Element            [x]
//   degree 2: E2{A0,A1}             [A0, A1]
//   degree 4: E4{B0,B1 E2}          [B0.A0, B0.A1, B1.A0, B1.A1]

func ccSlot(deg int, sub []string) (off, width int, ok bool) {
	off, width = 0, deg
	for _, s := range sub {
		switch {
		case width == 4 && s == "B0":
			width = 2
		case width == 4 && s == "B1":
			off, width = off+2, 2
		case width == 2 && s == "A0":
			width = 1
		case width == 2 && s == "A1":
			off, width = off+1, 1
		default:
			return 0, 0, false
		}
	}
	return off, width, true
}

type ccElem struct {
	deg  int
	v    []*big.Int
	set  bool
	expr string // non-empty: computed by library arithmetic from other constants (Go expression, canonical text)
}

func newElem(deg int) *ccElem {
	e := &ccElem{deg: deg, v: make([]*big.Int, deg)}
	for i := range e.v {
		e.v[i] = new(big.Int)
	}
	return e
}

type ccCurve struct {
	name    string // lean namespace
	dir     string
	pkg     *ccPkg
	degT    int // degree of the twist field over Fp (1: bw6 / none, 2, 4)
	hasG2   bool
	elems   map[string]*ccElem // by root path ("g2Gen.X", "endo.u", "twist", ...)
	order   []string
	bigs    map[string]*big.Int // lambdaGLV, xGen and the locals of init()
	loops   map[string][]*big.Int
	loopNaf map[string]*big.Int // LoopCounter := NafDecomposition(literal)
	loopLen map[string]int64
	lattice bool // ecc.PrecomputeLattice(fr.Modulus(), &lambdaGLV, &glvBasis) present
	out     []string
}

func (c *ccCurve) elem(root string, deg int) *ccElem {
	if e, ok := c.elems[root]; ok {
		return e
	}
	e := newElem(deg)
	c.elems[root] = e
	c.order = append(c.order, root)
	return e
}

func towerDeg(p *ccPkg, t ast.Expr, what string) int {
	switch ccExprText(t) {
	case "fp.Element":
		return 1
	case "fptower.E2", "E2":
		return 2
	case "fptower.E4", "E4":
		return 4
	}
	die("curveconsts: %s: %s has type %s; expected fp.Element, fptower.E2 or fptower.E4", p.pos(t), what, ccExprText(t))
	return 0
}

// roots of the constants we follow, with the degree of their carrier (0 = twist field)
var ccRoots = map[string]int{
	"aCurveCoeff": 1, "bCurveCoeff": 1, "thirdRootOneG1": 1, "thirdRootOneG2": 1,
	"g1Gen.X": 1, "g1Gen.Y": 1, "g1Gen.Z": 1,
	"twist": 0, "bTwistCurveCoeff": 0, "g2Gen.X": 0, "g2Gen.Y": 0, "g2Gen.Z": 0, "endo.u": 0, "endo.v": 0,
}

// assignments of init() that carry no constant of interest: `X.SetOne()` of the infinity points, FromJacobian of the generators
var ccIgnoreRoots = map[string]bool{"g1Infinity.X": true, "g1Infinity.Y": true, "g2Infinity.X": true, "g2Infinity.Y": true,
	"g1GenAff": true, "g2GenAff": true}

func (c *ccCurve) splitRoot(path []string) (root string, sub []string, ok bool) {
	for n := len(path); n >= 1; n-- {
		r := strings.Join(path[:n], ".")
		if _, ok := ccRoots[r]; ok {
			return r, path[n:], true
		}
	}
	return "", nil, false
}

func (c *ccCurve) refName(p *ccPkg, e ast.Expr) string {
	pt := ccPath(e)
	if pt == nil {
		die("curveconsts: %s: operand %s is not a variable path", p.pos(e), ccExprText(e))
	}
	return strings.Join(pt, ".")
}

func (c *ccCurve) interpInit(fd *ast.FuncDecl) {
	p := c.pkg
	for _, st := range fd.Body.List {
		switch s := st.(type) {
		case *ast.ExprStmt:
			c.interpCall(s.X)
		case *ast.AssignStmt:
			c.interpAssign(s)
		default:
			die("curveconsts: %s: unsupported statement in init(): %s", p.pos(st), ccNodeText(p, st))
		}
	}
}

func ccNodeText(p *ccPkg, n ast.Node) string {
	var b bytes.Buffer
	printer.Fprint(&b, p.fset, n)
	s := b.String()
	if len(s) > 120 {
		s = s[:120] + "…"
	}
	return s
}

func (c *ccCurve) interpAssign(s *ast.AssignStmt) {
	p := c.pkg
	// LoopCounter = [N]int8{...}
	if s.Tok == token.ASSIGN && len(s.Lhs) == 1 && len(s.Rhs) == 1 {
		if id, ok := s.Lhs[0].(*ast.Ident); ok && strings.HasPrefix(id.Name, "LoopCounter") {
			cl, ok := s.Rhs[0].(*ast.CompositeLit)
			if !ok {
				die("curveconsts: %s: %s is not assigned a composite literal", p.pos(s), id.Name)
			}
			at, ok := cl.Type.(*ast.ArrayType)
			if !ok || ccExprText(at.Elt) != "int8" || at.Len == nil || litInt(at.Len) == nil {
				die("curveconsts: %s: %s: expected a [N]int8 literal, found %s", p.pos(s), id.Name, ccExprText(cl.Type))
			}
			var xs []*big.Int
			for _, e := range cl.Elts {
				v := ccSignedLit(e)
				if v == nil {
					die("curveconsts: %s: %s: element %s is not an integer literal", p.pos(e), id.Name, ccExprText(e))
				}
				xs = append(xs, v)
			}
			n := litInt(at.Len).Int64()
			if int64(len(xs)) > n {
				die("curveconsts: %s: %s: %d elements in a [%d]int8", p.pos(s), id.Name, len(xs), n)
			}
			for int64(len(xs)) < n { // Go zero-fills
				xs = append(xs, new(big.Int))
			}
			c.loops[id.Name] = xs
			return
		}
	}
	// T, _ := new(big.Int).SetString("…", 10)
	if s.Tok == token.DEFINE && len(s.Lhs) == 2 && len(s.Rhs) == 1 {
		id, ok := s.Lhs[0].(*ast.Ident)
		_, calls := ccChainNew(s.Rhs[0])
		if ok && len(calls) == 1 && calls[0].name == "SetString" && len(calls[0].args) == 2 {
			base := litInt(calls[0].args[1])
			if base == nil {
				die("curveconsts: %s: %s: base of SetString is not a literal", p.pos(s), id.Name)
			}
			c.bigs[id.Name] = ccParseNum(p, calls[0].args[0], int(base.Int64()), id.Name)
			return
		}
	}
	// _r := fr.Modulus()
	if s.Tok == token.DEFINE && len(s.Lhs) == 1 && len(s.Rhs) == 1 && ccExprText(s.Rhs[0]) == "fr.Modulus()" {
		if id, ok := s.Lhs[0].(*ast.Ident); ok {
			c.bigs["@frModulus"] = new(big.Int) // marker: id names the scalar-field modulus
			c.bigs["@frModulus:"+id.Name] = new(big.Int)
			return
		}
	}
	die("curveconsts: %s: unsupported assignment in init(): %s", p.pos(s), ccNodeText(p, s))
}

// `new(big.Int).M(args)` -> ("new(big.Int)", [M(args)])
func ccChainNew(e ast.Expr) (string, []ccCall) {
	ce, ok := e.(*ast.CallExpr)
	if !ok {
		return "", nil
	}
	se, ok := ce.Fun.(*ast.SelectorExpr)
	if !ok {
		return "", nil
	}
	if ccExprText(se.X) == "new(big.Int)" {
		return "new(big.Int)", []ccCall{{se.Sel.Name, ce.Args}}
	}
	return "", nil
}

func (c *ccCurve) interpCall(e ast.Expr) {
	p := c.pkg
	ce, ok := e.(*ast.CallExpr)
	if !ok {
		die("curveconsts: %s: unsupported expression statement in init(): %s", p.pos(e), ccNodeText(p, e))
	}
	// package-level helpers
	switch ccExprText(ce.Fun) {
	case "ecc.PrecomputeLattice":
		if len(ce.Args) != 3 || c.bigs["@frModulus:"+ccExprText(ce.Args[0])] == nil ||
			ccExprText(ce.Args[1]) != "&lambdaGLV" || ccExprText(ce.Args[2]) != "&glvBasis" {
			die("curveconsts: %s: expected ecc.PrecomputeLattice(<fr.Modulus()>, &lambdaGLV, &glvBasis), found %s", p.pos(e), ccNodeText(p, e))
		}
		c.lattice = true
		return
	case "ecc.NafDecomposition":
		if len(ce.Args) != 2 {
			die("curveconsts: %s: ecc.NafDecomposition: 2 arguments expected", p.pos(e))
		}
		src, ok := c.bigs[ccExprText(ce.Args[0])]
		dst := strings.TrimSuffix(ccExprText(ce.Args[1]), "[:]")
		if !ok || !strings.HasPrefix(dst, "LoopCounter") || dst == ccExprText(ce.Args[1]) {
			die("curveconsts: %s: expected ecc.NafDecomposition(<literal big.Int>, LoopCounter…[:]), found %s", p.pos(e), ccNodeText(p, e))
		}
		c.loopNaf[dst] = src
		return
	}
	path, calls := ccChain(e)
	if path == nil {
		die("curveconsts: %s: unsupported call in init(): %s", p.pos(e), ccNodeText(p, e))
	}
	full := strings.Join(path, ".")
	if ccIgnoreRoots[full] {
		// only SetOne / FromJacobian are harmless here
		for _, cl := range calls {
			if cl.name != "SetOne" && cl.name != "FromJacobian" {
				die("curveconsts: %s: unexpected %s.%s in init()", p.pos(e), full, cl.name)
			}
		}
		return
	}
	// big.Int constants
	if full == "lambdaGLV" || full == "xGen" {
		if len(calls) != 1 || calls[0].name != "SetString" || len(calls[0].args) != 2 || litInt(calls[0].args[1]) == nil {
			die("curveconsts: %s: %s: expected SetString(\"…\", base)", p.pos(e), full)
		}
		c.bigs[full] = ccParseNum(p, calls[0].args[0], int(litInt(calls[0].args[1]).Int64()), full)
		return
	}
	root, sub, ok := c.splitRoot(path)
	if !ok {
		die("curveconsts: %s: init() assigns %s, which this extraction does not know: %s", p.pos(e), full, ccNodeText(p, e))
	}
	deg := ccRoots[root]
	if deg == 0 {
		deg = c.degT
	}
	el := c.elem(root, deg)
	off, width, ok := ccSlot(deg, sub)
	if !ok {
		die("curveconsts: %s: %s: field path %v does not exist in an extension of degree %d", p.pos(e), full, sub, deg)
	}
	setConst := func(vals []*big.Int) {
		for i := 0; i < width; i++ {
			if i < len(vals) {
				el.v[off+i] = vals[i]
			} else {
				el.v[off+i] = new(big.Int)
			}
		}
		el.set = true
	}
	var exprParts []string
	for i, cl := range calls {
		switch cl.name {
		case "SetUint64":
			if i != 0 || len(cl.args) != 1 || litInt(cl.args[0]) == nil {
				die("curveconsts: %s: %s.SetUint64: literal argument expected", p.pos(e), full)
			}
			if width != 1 {
				die("curveconsts: %s: %s.SetUint64 on an extension element", p.pos(e), full)
			}
			setConst([]*big.Int{litInt(cl.args[0])})
		case "SetOne":
			if i != 0 || len(cl.args) != 0 {
				die("curveconsts: %s: %s.SetOne: unexpected form", p.pos(e), full)
			}
			setConst([]*big.Int{big.NewInt(1)})
		case "SetString":
			if i != 0 || len(cl.args) != width {
				die("curveconsts: %s: %s.SetString: %d arguments for an element of degree %d", p.pos(e), full, len(cl.args), width)
			}
			var vs []*big.Int
			for _, a := range cl.args {
				vs = append(vs, ccParseNum(p, a, 0, full))
			}
			setConst(vs)
		case "Neg":
			// x.Set…(…).Neg(&x) : sign flip of the literal just written
			if i == 0 || len(cl.args) != 1 || c.refName(p, cl.args[0]) != full || width != 1 || len(exprParts) != 0 {
				die("curveconsts: %s: %s.Neg: only `x.Set…(lit).Neg(&x)` on a base-field element is supported", p.pos(e), full)
			}
			el.v[off] = new(big.Int).Neg(el.v[off])
		case "Square", "Inverse", "MulByElement":
			if len(sub) != 0 {
				die("curveconsts: %s: %s.%s on a sub-coordinate", p.pos(e), full, cl.name)
			}
			var as []string
			for _, a := range cl.args {
				as = append(as, c.refName(p, a))
			}
			exprParts = append(exprParts, cl.name+"("+strings.Join(as, ",")+")")
		default:
			die("curveconsts: %s: %s: unsupported method %s in init()", p.pos(e), full, cl.name)
		}
	}
	if len(exprParts) > 0 {
		if el.set {
			die("curveconsts: %s: %s is both a literal and computed", p.pos(e), full)
		}
		el.expr = strings.Join(exprParts, ".")
	}
}

// the computed constants we know how to re-derive on the Lean side
var ccKnownExprs = map[string]map[string]bool{
	"thirdRootOneG2":   {"Square(thirdRootOneG1)": true},
	"bTwistCurveCoeff": {"Inverse(twist)": true, "Inverse(twist).MulByElement(bTwistCurveCoeff,bCurveCoeff)": true, "MulByElement(twist,bCurveCoeff)": true},
}

func (c *ccCurve) emitf(f string, a ...any) { c.out = append(c.out, fmt.Sprintf(f, a...)) }

func ccLeanIdent(root string) string { return strings.ReplaceAll(root, ".", "_") }

func (c *ccCurve) need(root string) *ccElem {
	e, ok := c.elems[root]
	if !ok || (!e.set && e.expr == "") {
		die("curveconsts: %s: init() does not set %s", c.dir, root)
	}
	return e
}

func extractSW(curve string) *ccCurve {
	dir := "ecc/" + curve
	p := ccLoad(dir)
	c := &ccCurve{name: leanName(dir), dir: dir, pkg: p, elems: map[string]*ccElem{}, bigs: map[string]*big.Int{},
		loops: map[string][]*big.Int{}, loopNaf: map[string]*big.Int{}, loopLen: map[string]int64{}, hasG2: g2Curves[curve]}
	c.degT = 1
	if c.hasG2 {
		t := p.varType("bTwistCurveCoeff")
		if t == nil {
			die("curveconsts: %s: package-level var bTwistCurveCoeff not found", dir)
		}
		c.degT = towerDeg(p, t, "bTwistCurveCoeff")
		for _, v := range []string{"g2Gen"} {
			if p.varType(v) == nil {
				die("curveconsts: %s: package-level var %s not found", dir, v)
			}
		}
	}
	// declared lengths of the loop counters
	for _, n := range p.sortedFiles() {
		for _, d := range p.files[n].Decls {
			gd, ok := d.(*ast.GenDecl)
			if !ok || gd.Tok != token.VAR {
				continue
			}
			for _, sp := range gd.Specs {
				vs := sp.(*ast.ValueSpec)
				for _, nm := range vs.Names {
					if strings.HasPrefix(nm.Name, "LoopCounter") {
						at, ok := vs.Type.(*ast.ArrayType)
						if !ok || at.Len == nil || litInt(at.Len) == nil || ccExprText(at.Elt) != "int8" {
							die("curveconsts: %s: var %s is not a [N]int8", p.pos(vs), nm.Name)
						}
						c.loopLen[nm.Name] = litInt(at.Len).Int64()
					}
				}
			}
		}
	}
	initFd := p.initWith("bCurveCoeff")
	c.interpInit(initFd)
	// documented values of the package comment: `seed x₀=…`, `𝔽r: r=…`, `𝔽p: p=…`
	doc := p.docOf(initFd)
	docNum := func(re *regexp.Regexp, what string, required bool) {
		ms := re.FindAllStringSubmatch(doc, -1)
		if len(ms) == 0 {
			if required {
				die("curveconsts: %s: package comment of %s has no `%s` line (pattern %s)", dir, p.pos(initFd), what, re.String())
			}
			return
		}
		if len(ms) > 1 {
			die("curveconsts: %s: package comment has %d `%s` lines", dir, len(ms), what)
		}
		v, ok := new(big.Int).SetString(ms[0][1], 0)
		if !ok {
			die("curveconsts: %s: package comment: cannot parse %q (%s)", dir, ms[0][1], what)
		}
		c.emitf("def %s : Int := %s", what, leanInt(v))
	}
	docNum(ccDocP, "docP", true)
	docNum(ccDocR, "docR", true)
	docNum(ccDocSeed, "docSeed", g2Curves[curve])

	// ---- emission (every identifier below is REQUIRED for this curve: absence is fatal)
	c.emitf("def degTwist : Nat := %d", c.degT)
	one := func(root string) {
		e := c.need(root)
		if e.expr != "" {
			die("curveconsts: %s: %s is computed (%s); a literal was expected", dir, root, e.expr)
		}
		if e.deg == 1 && ccRoots[root] == 1 {
			c.emitf("def %s : Int := %s", ccLeanIdent(root), leanInt(e.v[0]))
		} else {
			c.emitf("def %s : List Int := %s", ccLeanIdent(root), leanIntList(e.v))
		}
	}
	one("aCurveCoeff")
	one("bCurveCoeff")
	one("g1Gen.X")
	one("g1Gen.Y")
	one("g1Gen.Z")
	if c.hasG2 {
		if c.degT > 1 {
			one("twist")
		}
		bt := c.need("bTwistCurveCoeff")
		if bt.expr != "" {
			if !ccKnownExprs["bTwistCurveCoeff"][bt.expr] {
				die("curveconsts: %s: bTwistCurveCoeff is computed by %q, a form this extraction does not know", dir, bt.expr)
			}
			c.emitf("def bTwistCurveCoeff : List Int := []")
			c.emitf("def bTwistCurveCoeffExpr : String := %s", leanStr(bt.expr))
		} else {
			c.emitf("def bTwistCurveCoeff : List Int := %s", leanIntList(bt.v))
			c.emitf("def bTwistCurveCoeffExpr : String := \"literal\"")
		}
		one("g2Gen.X")
		one("g2Gen.Y")
		one("g2Gen.Z")
	}
	if curve != "stark-curve" {
		one("thirdRootOneG1")
		v, ok := c.bigs["lambdaGLV"]
		if !ok {
			die("curveconsts: %s: init() does not set lambdaGLV", dir)
		}
		c.emitf("def lambdaGLV : Int := %s", leanInt(v))
		if !c.lattice {
			die("curveconsts: %s: init() does not call ecc.PrecomputeLattice(fr.Modulus(), &lambdaGLV, &glvBasis)", dir)
		}
		c.emitf("def glvBasisFromLambda : Bool := true")
	}
	if c.hasG2 {
		t := c.need("thirdRootOneG2")
		if !ccKnownExprs["thirdRootOneG2"][t.expr] {
			die("curveconsts: %s: thirdRootOneG2 is not `Square(&thirdRootOneG1)` (found literal=%v expr=%q)", dir, t.set, t.expr)
		}
		c.emitf("def thirdRootOneG2Expr : String := %s", leanStr(t.expr))
	}
	if curve != "stark-curve" && curve != "secp256k1" {
		v, ok := c.bigs["xGen"]
		if !ok {
			die("curveconsts: %s: init() does not set xGen", dir)
		}
		c.emitf("def xGen : Int := %s", leanInt(v))
	}
	if c.hasG2 && c.degT > 1 {
		one("endo.u")
		one("endo.v")
	}
	// loop counters
	var lcs []string
	for n := range c.loopLen {
		lcs = append(lcs, n)
	}
	sort.Strings(lcs)
	if c.hasG2 && len(lcs) == 0 {
		die("curveconsts: %s: no LoopCounter variable declared", dir)
	}
	for _, n := range lcs {
		c.emitf("def %sLen : Nat := %d", n, c.loopLen[n])
		lit, isLit := c.loops[n]
		src, isNaf := c.loopNaf[n]
		switch {
		case isLit && isNaf:
			die("curveconsts: %s: %s is both a literal and a NafDecomposition", dir, n)
		case isLit:
			if int64(len(lit)) != c.loopLen[n] {
				die("curveconsts: %s: %s: literal of %d entries for a declared length %d", dir, n, len(lit), c.loopLen[n])
			}
			c.emitf("def %sIsNaf : Bool := false", n)
			c.emitf("def %sNafOf : Int := 0", n)
			c.emitf("def %s : List Int := %s", n, leanIntList(lit))
		case isNaf:
			c.emitf("def %sIsNaf : Bool := true", n)
			c.emitf("def %sNafOf : Int := %s", n, leanInt(src))
			c.emitf("def %s : List Int := []", n)
		default:
			die("curveconsts: %s: init() does not set %s", dir, n)
		}
	}
	for n := range c.loops {
		if _, ok := c.loopLen[n]; !ok {
			die("curveconsts: %s: init() assigns %s but no such package-level array is declared", dir, n)
		}
	}
	for n := range c.loopNaf {
		if _, ok := c.loopLen[n]; !ok {
			die("curveconsts: %s: init() fills %s but no such package-level array is declared", dir, n)
		}
	}
	if msmCurves[curve] {
		c.extractMSM()
	}
	return c
}

// ---------------------------------------------------------------------------------------------------------------------
// MSM dispatch

func (c *ccCurve) extractMSM() {
	p := c.pkg
	dir := c.dir
	groups := []string{"G1"}
	if c.hasG2 {
		groups = append(groups, "G2")
	}
	for _, g := range groups {
		// implementedCs of (*GxJac).MultiExp
		fd := p.fn("MultiExp", "*"+g+"Jac")
		if fd == nil {
			die("curveconsts: %s: method (*%sJac).MultiExp not found", dir, g)
		}
		var cs []int64
		found := 0
		var nbTasksMax *big.Int
		ast.Inspect(fd.Body, func(n ast.Node) bool {
			switch s := n.(type) {
			case *ast.AssignStmt:
				if len(s.Lhs) == 1 && len(s.Rhs) == 1 && ccExprText(s.Lhs[0]) == "implementedCs" {
					cl, ok := s.Rhs[0].(*ast.CompositeLit)
					if !ok || ccExprText(cl.Type) != "[]uint64" {
						die("curveconsts: %s: implementedCs is not a []uint64 literal", p.pos(s))
					}
					found++
					cs = nil
					for _, e := range cl.Elts {
						v := litInt(e)
						if v == nil {
							die("curveconsts: %s: implementedCs: element %s is not an integer literal", p.pos(e), ccExprText(e))
						}
						cs = append(cs, v.Int64())
					}
				}
			case *ast.BinaryExpr:
				if s.Op == token.GTR && ccExprText(s.X) == "config.NbTasks" {
					if v := litInt(s.Y); v != nil {
						nbTasksMax = v
					}
				}
			}
			return true
		})
		if found != 1 {
			die("curveconsts: %s: (*%sJac).MultiExp: %d assignments `implementedCs := []uint64{…}` (1 expected)", dir, g, found)
		}
		if nbTasksMax == nil {
			die("curveconsts: %s: (*%sJac).MultiExp: bound `config.NbTasks > <literal>` not found", dir, g)
		}
		c.emitf("def implementedCs%s : List Nat := %s", g, leanNats(cs))
		c.emitf("def nbTasksMax%s : Nat := %s", g, nbTasksMax)

		// getChunkProcessorGx
		name := "getChunkProcessor" + g
		gd := p.fn(name, "")
		if gd == nil {
			die("curveconsts: %s: function %s not found", dir, name)
		}
		var sw *ast.SwitchStmt
		for _, st := range gd.Body.List {
			if s, ok := st.(*ast.SwitchStmt); ok {
				if sw != nil {
					die("curveconsts: %s: %s has two switch statements", p.pos(s), name)
				}
				sw = s
			}
		}
		if sw == nil || sw.Tag == nil || ccExprText(sw.Tag) != "c" {
			die("curveconsts: %s: %s: `switch c` not found", p.pos(gd), name)
		}
		var labels []int64
		var batch, jac, aff [][2]int64
		dfltLen := int64(-1)
		dfltSeen := false
		for _, st := range sw.Body.List {
			cc := st.(*ast.CaseClause)
			// bucket types named in the returns of this clause
			var jacT, affT []string
			var bsz *big.Int
			ast.Inspect(cc, func(n ast.Node) bool {
				switch s := n.(type) {
				case *ast.ValueSpec:
					for i, nm := range s.Names {
						if nm.Name == "batchSize" && i < len(s.Values) {
							bsz = litInt(s.Values[i])
							if bsz == nil {
								die("curveconsts: %s: %s: batchSize is not an integer literal", p.pos(s), name)
							}
						}
					}
				case *ast.ReturnStmt:
					for _, r := range s.Results {
						var fun ast.Expr
						var targs []ast.Expr
						switch ix := r.(type) {
						case *ast.IndexExpr:
							fun, targs = ix.X, []ast.Expr{ix.Index}
						case *ast.IndexListExpr:
							fun, targs = ix.X, ix.Indices
						default:
							die("curveconsts: %s: %s: return value %s is not a generic instantiation", p.pos(r), name, ccExprText(r))
						}
						switch ccExprText(fun) {
						case "processChunk" + g + "Jacobian":
							if len(targs) != 1 {
								die("curveconsts: %s: %s: %s expects 1 type argument", p.pos(r), name, ccExprText(fun))
							}
							jacT = append(jacT, ccExprText(targs[0]))
						case "processChunk" + g + "BatchAffine":
							if len(targs) < 2 {
								die("curveconsts: %s: %s: %s expects ≥ 2 type arguments", p.pos(r), name, ccExprText(fun))
							}
							jacT = append(jacT, ccExprText(targs[0]))
							affT = append(affT, ccExprText(targs[1]))
						default:
							die("curveconsts: %s: %s: unknown chunk processor %s", p.pos(r), name, ccExprText(fun))
						}
					}
				}
				return true
			})
			bucketLen := func(ts []string, what string) int64 {
				if len(ts) == 0 {
					die("curveconsts: %s: %s: clause without a %s processor", p.pos(cc), name, what)
				}
				l0 := int64(-1)
				for _, t := range ts {
					l, ok := p.arrayTypeLen(t)
					if !ok {
						die("curveconsts: %s: %s: bucket type %s is not declared as an array type in %s", p.pos(cc), name, t, dir)
					}
					if l0 >= 0 && l != l0 {
						die("curveconsts: %s: %s: one clause uses %s bucket arrays of different lengths (%d, %d)", p.pos(cc), name, what, l0, l)
					}
					l0 = l
				}
				return l0
			}
			if cc.List == nil { // default
				dfltSeen = true
				dfltLen = bucketLen(jacT, "Jacobian")
				if len(affT) != 0 || bsz != nil {
					die("curveconsts: %s: %s: default clause has a batch-affine branch", p.pos(cc), name)
				}
				continue
			}
			if len(cc.List) != 1 || litInt(cc.List[0]) == nil {
				die("curveconsts: %s: %s: case label is not a single integer literal", p.pos(cc), name)
			}
			lab := litInt(cc.List[0]).Int64()
			labels = append(labels, lab)
			jac = append(jac, [2]int64{lab, bucketLen(jacT, "Jacobian")})
			if (bsz != nil) != (len(affT) != 0) {
				die("curveconsts: %s: %s: case %d: batchSize and the batch-affine processor must come together", p.pos(cc), name, lab)
			}
			if bsz != nil {
				batch = append(batch, [2]int64{lab, bsz.Int64()})
				aff = append(aff, [2]int64{lab, bucketLen(affT, "affine")})
			}
		}
		if !dfltSeen {
			die("curveconsts: %s: %s: no default clause", p.pos(sw), name)
		}
		c.emitf("def switchLabels%s : List Nat := %s", g, leanNats(labels))
		c.emitf("def batchSizes%s : List (Nat × Nat) := %s", g, leanPairs(batch))
		c.emitf("def jacBuckets%s : List (Nat × Nat) := %s", g, leanPairs(jac))
		c.emitf("def affBuckets%s : List (Nat × Nat) := %s", g, leanPairs(aff))
		c.emitf("def defaultBuckets%s : Nat := %d", g, dfltLen)

		// window search of BatchScalarMultiplicationGx
		bn := "BatchScalarMultiplication" + g
		bd := p.fn(bn, "")
		if bd == nil {
			die("curveconsts: %s: function %s not found", dir, bn)
		}
		var lo, hi, guard *big.Int
		ast.Inspect(bd.Body, func(n ast.Node) bool {
			fs, ok := n.(*ast.ForStmt)
			if !ok || lo != nil {
				return true
			}
			as, ok1 := fs.Init.(*ast.AssignStmt)
			be, ok2 := fs.Cond.(*ast.BinaryExpr)
			if !ok1 || !ok2 || len(as.Lhs) != 1 || ccExprText(as.Lhs[0]) != "c" || be.Op != token.LEQ || ccExprText(be.X) != "c" {
				return true
			}
			lo, hi = litInt(as.Rhs[0]), litInt(be.Y)
			ast.Inspect(fs.Body, func(m ast.Node) bool {
				if is, ok := m.(*ast.IfStmt); ok {
					if b, ok := is.Cond.(*ast.BinaryExpr); ok && b.Op == token.GTR && ccExprText(b.X) == "lastC(uint64(c))" {
						guard = litInt(b.Y)
					}
				}
				return true
			})
			return false
		})
		if lo == nil || hi == nil {
			die("curveconsts: %s: %s: window search `for c := <lit>; c <= <lit>; c++` not found", dir, bn)
		}
		if guard == nil {
			guard = new(big.Int) // 0: no `lastC(c) > N` guard in the loop
		}
		c.emitf("def bsmCMin%s : Nat := %s", g, lo)
		c.emitf("def bsmCMax%s : Nat := %s", g, hi)
		c.emitf("def bsmLastCGuard%s : Nat := %s", g, guard)
	}
	// partitionScalars: digit width
	ps := p.fn("partitionScalars", "")
	if ps == nil || ps.Type.Results == nil || len(ps.Type.Results.List) < 1 {
		die("curveconsts: %s: function partitionScalars not found", dir)
	}
	rt := ccExprText(ps.Type.Results.List[0].Type)
	var w int
	if _, err := fmt.Sscanf(rt, "[]uint%d", &w); err != nil {
		die("curveconsts: %s: partitionScalars returns %s; []uintN expected", p.pos(ps), rt)
	}
	c.emitf("def digitBits : Nat := %d", w)
	for _, fnm := range []string{"computeNbChunks", "lastC"} {
		fd := p.fn(fnm, "")
		if fd == nil {
			die("curveconsts: %s: function %s not found", dir, fnm)
		}
		c.emitf("def %sSrc : String := %s", fnm, leanStr(ccFuncText(fd)))
	}
}

// ---------------------------------------------------------------------------------------------------------------------
// twisted Edwards

func extractTE(dir string) *ccCurve {
	p := ccLoad(dir)
	name := "te_" + leanName(strings.TrimSuffix(dir, "/twistededwards"))
	if strings.HasSuffix(dir, "/bandersnatch") {
		name = "te_bandersnatch"
	}
	c := &ccCurve{name: name, dir: dir, pkg: p}
	fd := p.fn("initCurveParams", "")
	if fd == nil {
		die("curveconsts: %s: function initCurveParams not found", dir)
	}
	vals := map[string]*big.Int{}
	lattice := false
	for _, st := range fd.Body.List {
		es, ok := st.(*ast.ExprStmt)
		if !ok {
			die("curveconsts: %s: unsupported statement in initCurveParams: %s", p.pos(st), ccNodeText(p, st))
		}
		if ce, ok := es.X.(*ast.CallExpr); ok && ccExprText(ce.Fun) == "ecc.PrecomputeLattice" {
			if len(ce.Args) != 3 || ccExprText(ce.Args[0]) != "&curveParams.Order" || ccExprText(ce.Args[1]) != "&curveParams.lambda" ||
				ccExprText(ce.Args[2]) != "&curveParams.glvBasis" {
				die("curveconsts: %s: expected ecc.PrecomputeLattice(&curveParams.Order, &curveParams.lambda, &curveParams.glvBasis)", p.pos(st))
			}
			lattice = true
			continue
		}
		path, calls := ccChain(es.X)
		if path == nil || path[0] != "curveParams" || len(calls) != 1 || calls[0].name != "SetString" {
			die("curveconsts: %s: unsupported statement in initCurveParams: %s", p.pos(st), ccNodeText(p, st))
		}
		key := strings.Join(path[1:], ".")
		base := 0
		switch len(calls[0].args) {
		case 1:
		case 2:
			b := litInt(calls[0].args[1])
			if b == nil {
				die("curveconsts: %s: %s: base of SetString is not a literal", p.pos(st), key)
			}
			base = int(b.Int64())
		default:
			die("curveconsts: %s: %s.SetString: 1 or 2 arguments expected", p.pos(st), key)
		}
		if _, dup := vals[key]; dup {
			die("curveconsts: %s: %s assigned twice", p.pos(st), key)
		}
		vals[key] = ccParseNum(p, calls[0].args[0], base, "curveParams."+key)
	}
	want := []string{"A", "D", "Cofactor", "Order", "Base.X", "Base.Y"}
	if name == "te_bandersnatch" {
		want = append(want, "endo[0]", "endo[1]", "lambda")
		if !lattice {
			die("curveconsts: %s: initCurveParams does not call ecc.PrecomputeLattice", dir)
		}
	}
	for _, k := range want {
		v, ok := vals[k]
		if !ok {
			die("curveconsts: %s: initCurveParams does not set curveParams.%s", dir, k)
		}
		id := strings.NewReplacer(".", "", "[", "", "]", "").Replace(k)
		c.emitf("def %s : Int := %s", id, leanInt(v))
		delete(vals, k)
	}
	for k := range vals {
		die("curveconsts: %s: initCurveParams sets curveParams.%s, which this extraction does not know", dir, k)
	}
	if name == "te_bandersnatch" {
		c.emitf("def glvBasisFromLambda : Bool := true")
	}
	return c
}

// ---------------------------------------------------------------------------------------------------------------------

func runCurveConsts() {
	var b strings.Builder
	b.WriteString("/- GENERATED by tools/goslp (curveconsts.go) from /repo on every run. DO NOT EDIT.\n" +
		"Literal constants of the curve packages, exactly as written in the Go source (signed, regular form, not reduced):\n" +
		"init() of ecc/<curve>/<curve>.go, the MSM dispatch of multiexp*.go / g1.go / g2.go, initCurveParams() of the\n" +
		"twisted-Edwards packages. Tower elements are flat coefficient lists in Go field order\n" +
		"(E2: [A0, A1]; E4: [B0.A0, B0.A1, B1.A0, B1.A1]). A constant that the Go code computes with library arithmetic is\n" +
		"given by the canonical text of its Go expression (`…Expr`); a LoopCounter filled by ecc.NafDecomposition by the\n" +
		"literal scalar (`…NafOf`, `…IsNaf = true`). Relations between these values are theorems of Props/C03_gen, C04_gen. -/\n" +
		"namespace GV.Gen.CurveConsts\n\n")
	var names []string
	for _, cv := range swCurves {
		if _, err := os.Stat(filepath.Join(repo, "ecc", cv)); err != nil {
			die("curveconsts: curve package ecc/%s not found under %s", cv, repo)
		}
		c := extractSW(cv)
		fmt.Fprintf(&b, "/-! ### %s -/\nnamespace %s\n%s\nend %s\n\n", c.dir, c.name, strings.Join(c.out, "\n"), c.name)
		names = append(names, c.name)
	}
	for _, d := range teDirs {
		if _, err := os.Stat(filepath.Join(repo, d)); err != nil {
			die("curveconsts: package %s not found under %s", d, repo)
		}
		c := extractTE(d)
		fmt.Fprintf(&b, "/-! ### %s -/\nnamespace %s\n%s\nend %s\n\n", c.dir, c.name, strings.Join(c.out, "\n"), c.name)
		names = append(names, c.name)
	}
	fmt.Fprintf(&b, "def extracted : List String := [%s]\n\nend GV.Gen.CurveConsts\n", "\""+strings.Join(names, "\", \"")+"\"")
	writeFile("CurveConsts.lean", b.String())
}
