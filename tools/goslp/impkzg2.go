// impkzg2.go — second part of the sub-pass "KzgOpen" (see impkzg.go): statements as `let` lines, loops (descending `i >= 0; i--`, ascending `i < B; i++`,
// `for _, x := range xs` with early return), and the three CONCURRENCY shapes of `BatchOpenSinglePoint`, each read as the sequential program it is
// equivalent to, under side conditions CHECKED here:
//
//	(G1) `for i := a; i < B; i++ { go func(_i int) { …; wg.Done() }(i) }` directly followed by `wg.Wait()`: the closure writes only cells `X[_i]` (and its own
//	     locals) and reads X only at `[_i]`; distinct iterations touch distinct cells and nothing runs between the loop and Wait, so every interleaving
//	     equals the sequential loop.
//	(G2) `go func() { …; close(ch) }()` … `<-ch`: what the goroutine writes is neither read nor written by the statements between `go` and `<-ch`, and
//	     what it reads is not written by them; so it equals running the body at the `go` statement.
//	(G3) `parallel.Execute(n, func(start, end int) { var locals; for j := start; j < end; j++ { … } })`: the loop body writes only cells `X[j]` and the
//	     closure's locals, reads X only at `[j]`, and every local is written before it is read in each iteration; Execute calls `work` on ranges that
//	     tile [0, n) (Props/C04_execgen, about the translated Execute), so every schedule equals the single call work(0, n), which is what is emitted.
package main

import (
	"fmt"
	"go/ast"
	"go/token"
	"strings"
)

var kzAbstract = map[string]bool{"deriveGamma": true}

func kzEmit(lines []string, ind string) string {
	out := ""
	for _, l := range lines {
		out += ind + l + "\n"
	}
	return out
}

func (f *kzFn) isWgCall(s ast.Stmt, m string) bool {
	es, ok := s.(*ast.ExprStmt)
	if !ok {
		return false
	}
	c, ok := es.X.(*ast.CallExpr)
	if !ok {
		return false
	}
	se, ok := c.Fun.(*ast.SelectorExpr)
	if !ok || se.Sel.Name != m {
		return false
	}
	id, ok := se.X.(*ast.Ident)
	return ok && f.vars[id.Name] != nil && f.vars[id.Name].k == "waitgroup"
}

func (f *kzFn) retVals(v *ast.ReturnStmt) string {
	p := f.p
	if len(v.Results) != len(f.sig.results) {
		p.die(v, "return arity")
	}
	var vals []string
	for _, w := range f.sig.writes {
		vals = append(vals, kzName(f.sig.pnames[w]))
	}
	for i, r := range v.Results {
		rs, rt := f.expr(r, f.sig.results[i])
		if !rt.eq(f.sig.results[i]) {
			p.die(r, "result %d type", i)
		}
		if rt.k == "slice" {
			root := rootOf(r)
			if pi, ok := f.isParam[root]; ok {
				if old, had := f.sig.alias[i]; had && old != pi {
					p.die(r, "result aliases different parameters on different paths")
				}
				f.sig.alias[i] = pi
			} else if !f.owned[root] || f.frozen[root] {
				p.die(r, "returned slice %s is neither cut from a parameter nor a fresh local", root)
			}
		}
		vals = append(vals, rs)
	}
	return kzTuple(vals)
}

// `x = nil` on a local slice variable; `x.f = make(..)` on a local struct
func (f *kzFn) sliceAssign(v *ast.AssignStmt) []string {
	p := f.p
	if id, ok := v.Rhs[0].(*ast.Ident); ok && id.Name == "nil" {
		if lid, ok := v.Lhs[0].(*ast.Ident); ok {
			if t := f.vars[lid.Name]; t != nil && t.k == "slice" {
				if _, isP := f.isParam[lid.Name]; isP {
					p.die(v, "assignment to the slice parameter %s", lid.Name)
				}
				delete(f.owned, lid.Name)
				return []string{"let " + kzName(lid.Name) + " : " + p.lty(t) + " := []"}
			}
		}
	}
	if c, ok := v.Rhs[0].(*ast.CallExpr); ok && exprText(c.Fun) == "make" {
		if se, ok := v.Lhs[0].(*ast.SelectorExpr); ok {
			id, ok := se.X.(*ast.Ident)
			if !ok || f.vars[id.Name] == nil {
				p.die(v, "field assignment target")
			}
			if _, isP := f.isParam[id.Name]; isP {
				p.die(v, "write to a field of the parameter %s", id.Name)
			}
			_, ft := f.expr(se, nil)
			es, et := f.expr(c, nil)
			if !et.eq(ft) {
				p.die(v, "field assignment types")
			}
			f.owned[exprText(se)] = true
			n := kzName(id.Name)
			return []string{"let " + n + " := { " + n + " with " + se.Sel.Name + " := " + es + " }"}
		}
	}
	return nil
}

// `a, b = g(args)` for a translated function g without overwritten parameters
func (f *kzFn) tupleAssign(v *ast.AssignStmt) []string {
	p := f.p
	call, ok := v.Rhs[0].(*ast.CallExpr)
	if !ok {
		p.die(v, "tuple assignment outside the subset")
	}
	id, ok := call.Fun.(*ast.Ident)
	if !ok || p.sigs[id.Name] == nil {
		p.die(v, "tuple assignment outside the subset")
	}
	sig := p.sigs[id.Name]
	if len(sig.writes) != 0 || len(sig.alias) != 0 || len(sig.results) != 2 {
		p.die(v, "tuple assignment from %s", id.Name)
	}
	lines := []string{"let (r0_, r1_) := " + f.callTxt(call, sig)}
	for i, l := range v.Lhs {
		_, lt, wb := f.place(l)
		if !lt.eq(sig.results[i]) || lt.k == "slice" {
			p.die(l, "tuple assignment types")
		}
		lines = append(lines, wb(fmt.Sprintf("r%d_", i)))
	}
	return lines
}

// `i := i`, `ch := make(chan struct{}, 1)`, `x, err := abstractFn(args…)`
func (f *kzFn) defineSpecial(v *ast.AssignStmt) ([]string, bool) {
	p := f.p
	if len(v.Lhs) == 1 {
		if rid, ok := v.Rhs[0].(*ast.Ident); ok && exprText(v.Lhs[0]) == rid.Name && f.vars[rid.Name] != nil && f.vars[rid.Name].k == "int" {
			return nil, true // per-iteration copy of an int for closure capture: same value
		}
		if c, ok := v.Rhs[0].(*ast.CallExpr); ok && exprText(c.Fun) == "make" && len(c.Args) >= 1 {
			if _, isChan := c.Args[0].(*ast.ChanType); isChan {
				f.declare(v, exprText(v.Lhs[0]), &kzTy{k: "chan"})
				return nil, true
			}
		}
	}
	call, ok := v.Rhs[0].(*ast.CallExpr)
	if !ok {
		return nil, false
	}
	id, ok := call.Fun.(*ast.Ident)
	if !ok || !kzAbstract[id.Name] || p.funcs[id.Name] == nil {
		return nil, false
	}
	if f.inLoop > 0 {
		p.die(v, "call of the abstract function %s inside a loop", id.Name)
	}
	fd := p.funcs[id.Name]
	var ptys []*kzTy
	variadic := false
	for _, fl := range fd.Type.Params.List {
		t := p.goType(fl.Type)
		if _, ok := fl.Type.(*ast.Ellipsis); ok {
			variadic = true
		}
		for range fl.Names {
			ptys = append(ptys, t)
		}
	}
	var rtys []*kzTy
	for _, fl := range fd.Type.Results.List {
		rtys = append(rtys, p.goType(fl.Type))
	}
	if len(call.Args) != len(ptys) || variadic != call.Ellipsis.IsValid() || len(rtys) != len(v.Lhs) {
		p.die(v, "call of the abstract function %s: arity (a variadic tail must be passed as `xs...`)", id.Name)
	}
	var tys []string
	out := id.Name
	for i, a := range call.Args {
		as, at := f.expr(a, ptys[i])
		if !at.eq(ptys[i]) {
			p.die(a, "argument %d of %s: type", i, id.Name)
		}
		out += " " + kzParen(as)
		tys = append(tys, p.ltyA(ptys[i]))
	}
	var rs, pats []string
	for i, l := range v.Lhs {
		rs = append(rs, p.ltyA(rtys[i]))
		n := exprText(l)
		f.declare(v, n, rtys[i])
		if rtys[i].k == "slice" {
			p.die(v, "abstract function returning a slice")
		}
		if n == "_" {
			pats = append(pats, "_")
		} else {
			pats = append(pats, kzName(n))
		}
	}
	ex := " (" + id.Name + " : " + strings.Join(tys, " → ") + " → " + strings.Join(rs, " × ") + ")"
	if !strings.Contains(f.extra, ex) {
		f.extra += ex
	}
	return []string{"let " + kzTuple(pats) + " := " + out}, true
}

// a statement without `return` as let-lines (relative indentation inside the lines)
func (f *kzFn) stmtLines(s ast.Stmt, prev ast.Stmt) []string {
	p := f.p
	switch v := s.(type) {
	case *ast.IfStmt:
		if v.Else != nil || kzHasReturn(v.Body.List) {
			p.die(s, "if statement form here")
		}
		mark := len(f.order)
		var out []string
		if v.Init != nil {
			out = append(out, f.simple(v.Init, nil)...)
		}
		cs, ct := f.expr(v.Cond, nil)
		if ct.k != "prop" {
			p.die(s, "condition type")
		}
		S := f.assignedIn(v.Body.List)
		if len(S) == 0 {
			p.die(s, "if without effect")
		}
		var ns []string
		for _, x := range S {
			ns = append(ns, kzName(x))
		}
		out = append(out, "let "+kzTuple(ns)+" :=", "  if "+cs+" then")
		for _, l := range f.bodyLines(v.Body.List) {
			out = append(out, "    "+l)
		}
		out = append(out, "    "+kzTuple(ns), "  else", "    "+kzTuple(ns))
		f.dropScope(f.declaredSince(mark))
		return out
	case *ast.ForStmt:
		return f.forLines(v)
	case *ast.GoStmt:
		p.die(s, "go statement here (only as the whole body of a counting loop, or `go func() {…; close(ch)}()` at the top level)")
	case *ast.ExprStmt:
		if c, ok := v.X.(*ast.CallExpr); ok && exprText(c.Fun) == "parallel.Execute" {
			return f.executeLines(c)
		}
	case *ast.ReturnStmt, *ast.RangeStmt, *ast.BlockStmt, *ast.SwitchStmt, *ast.DeferStmt, *ast.BranchStmt, *ast.SelectStmt, *ast.SendStmt, *ast.LabeledStmt, *ast.TypeSwitchStmt:
		p.die(s, "statement outside the subset here (%T)", s)
	}
	return f.simple(s, prev)
}

func (f *kzFn) bodyLines(list []ast.Stmt) []string {
	m := len(f.order)
	var out []string
	var prevS ast.Stmt
	for _, bs := range list {
		out = append(out, f.stmtLines(bs, prevS)...)
		prevS = bs
	}
	f.dropScope(f.declaredSince(m))
	return out
}

// `for i := e; i >= 0; i-- { … }` and `for i := e; i < B; i++ { … }` (B not changed by the body)
func (f *kzFn) forLines(v *ast.ForStmt) []string {
	p := f.p
	init, ok := v.Init.(*ast.AssignStmt)
	if !ok || init.Tok != token.DEFINE || len(init.Lhs) != 1 || len(init.Rhs) != 1 {
		p.die(v, "loop init form")
	}
	iv := exprText(init.Lhs[0])
	cond, ok := v.Cond.(*ast.BinaryExpr)
	post, ok2 := v.Post.(*ast.IncDecStmt)
	if !ok || !ok2 || exprText(cond.X) != iv || exprText(post.X) != iv {
		p.die(v, "loop condition form (only `%s >= 0` with `%s--`, or `%s < bound` with `%s++`)", iv, iv, iv, iv)
	}
	down := cond.Op == token.GEQ && exprText(cond.Y) == "0" && post.Tok == token.DEC
	up := cond.Op == token.LSS && post.Tok == token.INC
	if !down && !up {
		p.die(v, "loop condition form (only `%s >= 0` with `%s--`, or `%s < bound` with `%s++`)", iv, iv, iv, iv)
	}
	mark := len(f.order)
	es, et := f.expr(init.Rhs[0], nil)
	if et.k != "int" {
		p.die(v, "loop variable type")
	}
	f.declare(v, iv, et)
	// a loop whose whole body starts one goroutine per iteration (G1)
	goLoop := false
	if len(v.Body.List) == 1 {
		_, goLoop = v.Body.List[0].(*ast.GoStmt)
	}
	S := f.assignedIn(v.Body.List)
	for _, x := range S {
		if x == iv {
			p.die(v, "loop variable assigned in the body")
		}
	}
	if len(S) == 0 {
		p.die(v, "loop without effect")
	}
	bound := ""
	if up {
		bs, bt := f.expr(cond.Y, nil)
		if bt.k != "int" {
			p.die(v, "loop bound type")
		}
		for x := range f.freeIn(cond.Y) {
			for _, a := range S {
				if a == x {
					p.die(v, "loop bound depends on %s, which the body changes", x)
				}
			}
		}
		bound = bs
	}
	S = append(S, iv)
	inS := map[string]bool{}
	for _, x := range S {
		inS[x] = true
	}
	free := f.freeIn(v.Body, v.Cond)
	var ro []string
	for _, n := range f.order {
		if t, live := f.vars[n]; live && free[n] && !inS[n] && t.k != "waitgroup" && t.k != "chan" {
			dup := false
			for _, o := range ro {
				dup = dup || o == n
			}
			if !dup {
				ro = append(ro, n)
			}
		}
	}
	f.nloop++
	name := fmt.Sprintf("%s.loop%d", f.name, f.nloop)
	f.inLoop++
	var bl []string
	if goLoop {
		bl = f.goLoopLines(v.Body.List[0].(*ast.GoStmt), iv)
	} else {
		bl = f.bodyLines(v.Body.List)
	}
	f.inLoop--
	body := kzEmit(bl, "      ")
	var sN, sT, roP, roA []string
	for _, x := range S {
		sN = append(sN, kzName(x))
		sT = append(sT, p.ltyA(f.vars[x]))
	}
	for _, x := range ro {
		roP = append(roP, "("+kzName(x)+" : "+p.lty(f.vars[x])+")")
		roA = append(roA, kzName(x))
	}
	roPs, roAs := "", ""
	if len(ro) > 0 {
		roPs, roAs = " "+strings.Join(roP, " "), " "+strings.Join(roA, " ")
	}
	pats := strings.Join(sN, ", ")
	k := kzName(iv)
	var def string
	var out []string
	if down {
		def = fmt.Sprintf("/-- %s, line %d: `for %s := %s; %s >= 0; %s-- { … }`; the first argument bounds the number of iterations -/\ndef %s%s%s : Nat → %s → %s\n  | 0, %s => (%s)\n  | fuel_ + 1, %s =>\n    if %s ≥ 0 then\n%s      let %s := %s - 1\n      %s%s%s fuel_ %s\n    else\n      (%s)\n",
			f.name, p.fset.Position(v.Pos()).Line, iv, exprText(init.Rhs[0]), iv, iv, name, kzParams, roPs, strings.Join(sT, " → "), strings.Join(sT, " × "),
			pats, pats, pats, k, body, k, k, name, kzArgs, roAs, strings.Join(sN, " "), pats)
		out = []string{"let " + k + " : Int := " + es, "let (" + pats + ") := " + name + kzArgs + roAs + " (" + k + " + 1).toNat " + strings.Join(sN, " ")}
	} else {
		def = fmt.Sprintf("/-- %s, line %d: `for %s := %s; %s < %s; %s++ { … }`; the first argument bounds the number of iterations -/\ndef %s%s%s : Nat → %s → %s\n  | 0, %s => (%s)\n  | fuel_ + 1, %s =>\n    if %s < %s then\n%s      let %s := %s + 1\n      %s%s%s fuel_ %s\n    else\n      (%s)\n",
			f.name, p.fset.Position(v.Pos()).Line, iv, exprText(init.Rhs[0]), iv, exprText(cond.Y), iv, name, kzParams, roPs, strings.Join(sT, " → "), strings.Join(sT, " × "),
			pats, pats, pats, k, kzParen(bound), body, k, k, name, kzArgs, roAs, strings.Join(sN, " "), pats)
		out = []string{"let " + k + " : Int := " + es, "let (" + pats + ") := " + name + kzArgs + roAs + " (" + kzParen(bound) + " - " + k + ").toNat " + strings.Join(sN, " ")}
	}
	f.helpers = append(f.helpers, def)
	f.dropScope(f.declaredSince(mark))
	if goLoop {
		f.needWait = true
	}
	return out
}

// every place written in the statements is a cell `X[idx]` or a variable in `locals`; every written X is read only as `X[idx]`
func (f *kzFn) checkCellWrites(list []ast.Stmt, idx string, locals map[string]bool, what string) {
	p := f.p
	bases := map[string]bool{}
	note := func(e ast.Expr) {
		if u, ok := e.(*ast.UnaryExpr); ok && u.Op == token.AND {
			e = u.X
		}
		if id, ok := e.(*ast.Ident); ok && (locals[id.Name] || id.Name == "_") {
			return
		}
		ix, ok := e.(*ast.IndexExpr)
		if !ok || exprText(ix.Index) != idx {
			p.die(e, "%s: write to %s, which is not a cell [%s] nor a local of the closure", what, exprText(e), idx)
		}
		bases[exprText(ix.X)] = true
	}
	for _, s := range list {
		ast.Inspect(s, func(n ast.Node) bool {
			switch v := n.(type) {
			case *ast.AssignStmt:
				if v.Tok == token.ASSIGN {
					for _, l := range v.Lhs {
						note(l)
					}
				} else {
					for _, l := range v.Lhs {
						if id, ok := l.(*ast.Ident); ok {
							locals[id.Name] = true
						}
					}
				}
				if c, ok := v.Rhs[0].(*ast.CallExpr); ok {
					if id, ok := c.Fun.(*ast.Ident); ok && (p.sigs[id.Name] != nil && len(p.sigs[id.Name].writes) > 0) {
						p.die(v, "%s: call of a function that overwrites a parameter", what)
					}
					if _, ok := c.Fun.(*ast.SelectorExpr); ok && v.Tok == token.DEFINE {
						p.die(v, "%s: method call with results", what)
					}
				}
			case *ast.IncDecStmt:
				note(v.X)
			case *ast.ExprStmt:
				c, ok := v.X.(*ast.CallExpr)
				if !ok {
					break
				}
				if exprText(c.Fun) == "copy" || exprText(c.Fun) == "parallel.Execute" {
					p.die(v, "%s: %s", what, exprText(c.Fun))
				}
				for {
					se, ok := c.Fun.(*ast.SelectorExpr)
					if !ok {
						break
					}
					if c2, ok := se.X.(*ast.CallExpr); ok {
						c = c2
						continue
					}
					if id, ok := se.X.(*ast.Ident); !ok || f.vars[id.Name] == nil || f.vars[id.Name].k != "waitgroup" {
						note(se.X)
					}
					break
				}
			case *ast.GoStmt, *ast.ForStmt, *ast.RangeStmt:
				p.die(n, "%s: nested control statement", what)
			}
			return true
		})
	}
	for _, s := range list {
		var walk func(n ast.Node) bool
		walk = func(n ast.Node) bool {
			if ix, ok := n.(*ast.IndexExpr); ok && bases[exprText(ix.X)] && exprText(ix.Index) == idx {
				return false
			}
			if e, ok := n.(ast.Expr); ok && bases[exprText(e)] {
				p.die(n, "%s: %s is written at [%s] and used elsewhere in another form", what, exprText(e), idx)
			}
			return true
		}
		ast.Inspect(s, walk)
	}
}

// (G1) the body of a counting loop: `go func(_i int) { …; wg.Done() }(i)`
func (f *kzFn) goLoopLines(g *ast.GoStmt, iv string) []string {
	p := f.p
	fl, ok := g.Call.Fun.(*ast.FuncLit)
	if !ok || len(g.Call.Args) != 1 || exprText(g.Call.Args[0]) != iv || len(fl.Type.Params.List) != 1 || len(fl.Type.Params.List[0].Names) != 1 ||
		exprText(fl.Type.Params.List[0].Type) != "int" || fl.Type.Results != nil {
		p.die(g, "go statement form (only `go func(_i int) {…}(%s)`)", iv)
	}
	pn := fl.Type.Params.List[0].Names[0].Name
	body := fl.Body.List
	if len(body) < 2 || !f.isWgCall(body[len(body)-1], "Done") {
		p.die(g, "the goroutine must end with wg.Done()")
	}
	body = body[:len(body)-1]
	f.checkCellWrites(body, pn, map[string]bool{}, "goroutine per iteration")
	m := len(f.order)
	f.declare(g, pn, &kzTy{k: "int"})
	out := []string{"let " + kzName(pn) + " : Int := " + kzName(iv)}
	out = append(out, f.bodyLines(body)...)
	f.dropScope(f.declaredSince(m))
	return out
}

// (G3) parallel.Execute(n, func(start, end int) { var locals; for j := start; j < end; j++ { … } })
func (f *kzFn) executeLines(c *ast.CallExpr) []string {
	p := f.p
	if len(c.Args) != 2 {
		p.die(c, "parallel.Execute form (two arguments)")
	}
	fl, ok := c.Args[1].(*ast.FuncLit)
	if !ok || len(fl.Type.Params.List) != 1 || len(fl.Type.Params.List[0].Names) != 2 || exprText(fl.Type.Params.List[0].Type) != "int" || fl.Type.Results != nil {
		p.die(c, "parallel.Execute callback form (only `func(start, end int)`)")
	}
	sn, en := fl.Type.Params.List[0].Names[0].Name, fl.Type.Params.List[0].Names[1].Name
	ns, nt := f.expr(c.Args[0], nil)
	if nt.k != "int" {
		p.die(c, "parallel.Execute size type")
	}
	body := fl.Body.List
	if len(body) == 0 {
		p.die(c, "empty callback")
	}
	loop, ok := body[len(body)-1].(*ast.ForStmt)
	if !ok {
		p.die(c, "the callback must end with its loop")
	}
	locals := map[string]bool{}
	for _, d := range body[:len(body)-1] {
		ds, ok := d.(*ast.DeclStmt)
		if !ok {
			p.die(d, "callback statement before the loop (only var declarations)")
		}
		for _, sp := range ds.Decl.(*ast.GenDecl).Specs {
			for _, n := range sp.(*ast.ValueSpec).Names {
				locals[n.Name] = true
			}
		}
	}
	init, ok := loop.Init.(*ast.AssignStmt)
	cond, ok2 := loop.Cond.(*ast.BinaryExpr)
	if !ok || !ok2 || len(init.Rhs) != 1 || exprText(init.Rhs[0]) != sn || cond.Op != token.LSS || exprText(cond.Y) != en {
		p.die(loop, "callback loop form (only `for j := %s; j < %s; j++`)", sn, en)
	}
	jv := exprText(init.Lhs[0])
	f.checkCellWrites(loop.Body.List, jv, locals, "parallel.Execute callback")
	// every local of the callback is written before it is read in each iteration
	for x := range locals {
		okFirst := false
		for _, s := range loop.Body.List {
			if !f.freeIn(s)[x] {
				continue
			}
			if es, ok := s.(*ast.ExprStmt); ok {
				if mc, ok := es.X.(*ast.CallExpr); ok {
					if se, ok := mc.Fun.(*ast.SelectorExpr); ok && exprText(se.X) == x {
						okFirst = true
						for _, a := range mc.Args {
							if f.freeIn(a)[x] {
								okFirst = false
							}
						}
					}
				}
			}
			break
		}
		if !okFirst {
			p.die(loop, "callback local %s is not written before it is read in each iteration", x)
		}
	}
	m := len(f.order)
	f.declare(c, sn, &kzTy{k: "int"})
	f.declare(c, en, &kzTy{k: "int"})
	out := []string{"let " + kzName(sn) + " : Int := 0  -- parallel.Execute: the single call work(0, n)", "let " + kzName(en) + " : Int := " + ns}
	out = append(out, f.bodyLines(body)...)
	f.dropScope(f.declaredSince(m))
	return out
}

// `for _, x := range xs { if c { return … } …; simple statements }` as structural recursion with an early result
func (f *kzFn) rangeStmt(v *ast.RangeStmt, rest []ast.Stmt, ind string) string {
	p := f.p
	if k, ok := v.Key.(*ast.Ident); !ok || k.Name != "_" || v.Tok != token.DEFINE || v.Value == nil {
		p.die(v, "range form (only `for _, x := range xs`)")
	}
	if len(f.sig.writes) != 0 {
		p.die(v, "range loop in a function that overwrites a slice parameter")
	}
	xn := exprText(v.Value)
	xs, xt := f.expr(v.X, nil)
	if xt.k != "slice" {
		p.die(v, "range over %v", xt.k)
	}
	S := f.assignedIn(v.Body.List)
	if len(S) == 0 {
		p.die(v, "range loop without effect")
	}
	for _, a := range S {
		if a == rootOf(v.X) {
			p.die(v, "range loop changes the slice it ranges over")
		}
	}
	inS := map[string]bool{}
	for _, x := range S {
		inS[x] = true
	}
	free := f.freeIn(v.Body)
	var ro []string
	for _, n := range f.order {
		if t, live := f.vars[n]; live && free[n] && !inS[n] && t.k != "waitgroup" && t.k != "chan" {
			ro = append(ro, n)
		}
	}
	f.nloop++
	name := fmt.Sprintf("%s.loop%d", f.name, f.nloop)
	var sN, sT, roP, roA []string
	for _, x := range S {
		sN = append(sN, kzName(x))
		sT = append(sT, p.ltyA(f.vars[x]))
	}
	for _, x := range ro {
		roP = append(roP, "("+kzName(x)+" : "+p.lty(f.vars[x])+")")
		roA = append(roA, kzName(x))
	}
	roPs, roAs := "", ""
	if len(ro) > 0 {
		roPs, roAs = " "+strings.Join(roP, " "), " "+strings.Join(roA, " ")
	}
	st := kzTuple(sN)
	m := len(f.order)
	f.declare(v, xn, xt.elem)
	f.inLoop++
	body := ""
	var prevS ast.Stmt
	for _, bs := range v.Body.List {
		if is, ok := bs.(*ast.IfStmt); ok && kzHasReturn(is.Body.List) {
			rs, isRet := is.Body.List[0].(*ast.ReturnStmt)
			if len(is.Body.List) != 1 || !isRet || is.Init != nil || is.Else != nil {
				p.die(bs, "early return form inside a range loop (only `if c { return … }`)")
			}
			cs, ct := f.expr(is.Cond, nil)
			if ct.k != "prop" {
				p.die(bs, "condition type")
			}
			body += "    if " + cs + " then (" + st + ", some " + kzParen(f.retVals(rs)) + ") else\n"
		} else {
			body += kzEmit(f.stmtLines(bs, prevS), "    ")
		}
		prevS = bs
	}
	f.inLoop--
	f.dropScope(f.declaredSince(m))
	stTy := strings.Join(sT, " × ")
	if len(sT) > 1 {
		stTy = "(" + stTy + ")"
	}
	def := fmt.Sprintf("/-- %s, line %d: `for _, %s := range %s { … }` (structural recursion; `some r` = the loop returned r) -/\ndef %s%s%s : %s → %s → %s × Option (%s)\n  | [], %s => (%s, none)\n  | %s :: rest_, %s =>\n%s    %s%s%s rest_ %s\n",
		f.name, p.fset.Position(v.Pos()).Line, xn, exprText(v.X), name, kzParams, roPs, p.ltyA(xt), strings.Join(sT, " → "), stTy, f.retTy(),
		strings.Join(sN, ", "), st, kzName(xn), strings.Join(sN, ", "), body, name, kzArgs, roAs, strings.Join(sN, " "))
	f.helpers = append(f.helpers, def)
	out := ind + "match " + name + kzArgs + roAs + " " + kzParen(xs) + " " + strings.Join(sN, " ") + " with\n"
	out += ind + "| (" + st + ", some ret_) => ret_\n" + ind + "| (" + st + ", none) =>\n"
	return out + f.seq(rest, ind, v)
}

// (G2) `go func() { …; close(ch) }()` … `<-ch`
func (f *kzFn) goChan(g *ast.GoStmt, rest []ast.Stmt, ind string) string {
	p := f.p
	fl, ok := g.Call.Fun.(*ast.FuncLit)
	if !ok || len(g.Call.Args) != 0 || len(fl.Type.Params.List) != 0 || fl.Type.Results != nil || len(fl.Body.List) < 2 {
		p.die(g, "go statement form (only `go func() {…; close(ch)}()`)")
	}
	body := fl.Body.List
	last, ok := body[len(body)-1].(*ast.ExprStmt)
	var ch string
	if ok {
		if c, ok := last.X.(*ast.CallExpr); ok && exprText(c.Fun) == "close" && len(c.Args) == 1 {
			ch = exprText(c.Args[0])
		}
	}
	if ch == "" || f.vars[ch] == nil || f.vars[ch].k != "chan" {
		p.die(g, "the goroutine must end with close(ch) of a channel created in this function")
	}
	body = body[:len(body)-1]
	k := -1
	for i, s := range rest {
		if es, ok := s.(*ast.ExprStmt); ok {
			if u, ok := es.X.(*ast.UnaryExpr); ok && u.Op == token.ARROW && exprText(u.X) == ch {
				k = i
				break
			}
		}
		if kzHasReturn([]ast.Stmt{s}) {
			p.die(s, "return between `go` and `<-%s`", ch)
		}
	}
	if k < 0 {
		p.die(g, "no `<-%s` after the go statement", ch)
	}
	for _, s := range append(append([]ast.Stmt{}, body...), rest[:k]...) {
		if f.freeIn(s)[ch] {
			p.die(s, "other use of the channel %s", ch)
		}
	}
	for _, s := range rest[k+1:] {
		if f.freeIn(s)[ch] {
			p.die(s, "other use of the channel %s", ch)
		}
	}
	live := func(set map[string]bool) map[string]bool {
		o := map[string]bool{}
		for n := range set {
			if _, ok := f.vars[n]; ok {
				o[n] = true
			}
		}
		return o
	}
	toSet := func(xs []string) map[string]bool {
		o := map[string]bool{}
		for _, x := range xs {
			o[x] = true
		}
		return o
	}
	var bn, mn []ast.Node
	for _, s := range body {
		bn = append(bn, s)
	}
	for _, s := range rest[:k] {
		mn = append(mn, s)
	}
	W, R := toSet(f.assignedIn(body)), live(f.freeIn(bn...))
	W2, R2 := toSet(f.assignedIn(rest[:k])), live(f.freeIn(mn...))
	for x := range W {
		if R2[x] || W2[x] {
			p.die(g, "the goroutine writes %s, which the statements before `<-%s` use", x, ch)
		}
	}
	for x := range W2 {
		if R[x] {
			p.die(g, "the statements before `<-%s` write %s, which the goroutine reads", ch, x)
		}
	}
	out := kzEmit(f.bodyLines(body), ind)
	rest2 := append(append([]ast.Stmt{}, rest[:k]...), rest[k+1:]...)
	return out + f.seq(rest2, ind, g)
}
