// imp_h2f.go — mode "imp", target kind "h2f": `(*Element).SetBigInt` and `Hash` (hash_to_field) of a field package.
//
// Additional subset (everything else stays a fatal error):
//
//	package-level   integer constants `Name = literal` (emitted as `def Name : Int`), `var _modulus big.Int` whose ONLY mutation in the
//	                package is `_modulus.SetString("<hex>", 16)` in init() (emitted as `def modulus : Int := 0x…`; every other occurrence
//	                must be `&_modulus` as a (read-only) argument of a big.Int method)
//	statements      `const X = e` (local), `var x big.Int` (= 0), `x := pool.BigInt.Get()` … `pool.BigInt.Put(x)` (a scratch object:
//	                a fresh exact integer; checked: Put is in the same statement list, x does not occur after Put, x is never aliased /
//	                returned / stored / handed to anything but the big.Int methods below and Element.SetBigInt / setBigInt),
//	                `x.SetBytes(s[a:b])` (big-endian value of the window), `x.Mod(v, &m)` (Euclidean remainder), `c := v.Cmp(&m)`,
//	                `z.SetZero()`, `z.setBigInt(v)` (PARAMETER setBigIntF), `res[i].SetBigInt(v)` on a local slice that is only ever
//	                created by make (value update), `make([]Element, n)`, `bs, err := hash.ExpandMsgXmd(a, b, n)` (PARAMETER; the import
//	                path of `hash` is checked)
//
// Pass "Set" (Gen/Imp/Set_<pkg>.lean: SetBigInt, SetString, SetInt64; C08) adds:
//
//	types           int64 (an Int in [-2^63, 2^63): `>> literal` = floor division, `^` = xorS64 (two's complement), `+ -` wrap
//	                explicitly (wrapS64), `uint64(x)` = uintOfInt), results `(*Element, error)` of a method (the pointer is `some z` / `none`)
//	statements      `_, ok := x.SetString(s, 0)` on a live scratch big.Int (PARAMETER bigSetString : value × ok; x is unspecified when !ok and
//	                the text may not read it then: the uninitialised-read check does not apply, the value is whatever the parameter says),
//	                `z.SetUint64(u)` (PARAMETER setUint64F), `z.Neg(z)` (PARAMETER negF), `z.M(v)` for a method M of the same target
//	                translated before, `errors.New("literal" + s)` (a sentinel named by its message)
//
// Every package is translated on its own; Gen/Imp/H2F_generic.lean / Set_generic.lean are the text of ecc/bn254/fr with `Bits` and `modulus`
// as parameters, and H2FAll.lean / SetAll.lean contain regenerated lemmas "translation of package P = generic text at P's constants"
// (rfl / induction on the loop fuel), so that the property theorems are proved once for the generic text.
package main

import (
	"fmt"
	"go/ast"
	"go/parser"
	"go/token"
	"math/big"
	"path/filepath"
	"sort"
	"strings"
)

const h2fBase = " {F : Type} [Inhabited F] (zeroF : F) (setBigIntF : Int → F)"

// h2fGeneric: the current target is the GENERIC copy (Gen/Imp/H2F_generic.lean): the package constants Bits / modulus are parameters
var h2fGeneric bool

func h2fParams(fn string) (string, string) {
	pp, aa := h2fBase, " zeroF setBigIntF"
	if h2fGeneric {
		pp, aa = " (Bits : Int) (modulus : Int)"+pp, " Bits modulus"+aa
	}
	switch fn {
	case "Hash":
		return pp + " (ExpandMsgXmd : Bytes → Bytes → Int → Bytes × Err)", aa + " ExpandMsgXmd"
	case "SetString": // big.Int.SetString(s, 0): (value, ok)
		return pp + " (bigSetString : GoString → Int × Bool)", aa + " bigSetString"
	case "SetInt64":
		return pp + " (setUint64F : Nat → F) (negF : F → F)", aa + " setUint64F negF"
	}
	return pp, aa
}

func (p *impPkg) loadH2F(f *ast.File) {
	for _, im := range f.Imports {
		path := strings.Trim(im.Path.Value, "\"")
		name := path[strings.LastIndex(path, "/")+1:]
		if im.Name != nil {
			name = im.Name.Name
		}
		p.imports[name] = path
	}
	for _, d := range f.Decls {
		gd, ok := d.(*ast.GenDecl)
		if !ok || gd.Tok != token.CONST {
			continue
		}
		for _, s := range gd.Specs {
			vs := s.(*ast.ValueSpec)
			for i, n := range vs.Names {
				if i < len(vs.Values) && vs.Type == nil {
					if bl, ok := vs.Values[i].(*ast.BasicLit); ok && bl.Kind == token.INT {
						p.consts[n.Name] = bl.Value
					}
				}
			}
		}
	}
	// _modulus: one SetString in init(), read-only everywhere else in the package
	files, _ := filepath.Glob(filepath.Join(repo, p.tg.dir, "*.go"))
	sort.Strings(files)
	nset := 0
	for _, fn := range files {
		if strings.HasSuffix(fn, "_test.go") {
			continue
		}
		af := f
		if filepath.Base(fn) != p.tg.file {
			var err error
			af, err = parser.ParseFile(p.fset, fn, nil, 0)
			if err != nil {
				die("imp: parse: %v", err)
			}
		}
		ok := map[*ast.Ident]bool{}
		for _, d := range af.Decls {
			switch v := d.(type) {
			case *ast.GenDecl:
				if v.Tok == token.VAR {
					for _, s := range v.Specs {
						vs := s.(*ast.ValueSpec)
						for _, n := range vs.Names {
							if n.Name == "_modulus" {
								if len(vs.Values) != 0 || vs.Type == nil || exprText(vs.Type) != "big.Int" {
									p.die(vs, "_modulus declaration form")
								}
								ok[n] = true
							}
						}
					}
				}
			case *ast.FuncDecl:
				if v.Body == nil {
					continue
				}
				ast.Inspect(v.Body, func(n ast.Node) bool {
					c, isCall := n.(*ast.CallExpr)
					if !isCall {
						return true
					}
					se, isSel := c.Fun.(*ast.SelectorExpr)
					if !isSel {
						return true
					}
					if id, isId := se.X.(*ast.Ident); isId && id.Name == "_modulus" {
						if v.Name.Name == "init" && v.Recv == nil && se.Sel.Name == "SetString" && len(c.Args) == 2 {
							bl, ok1 := c.Args[0].(*ast.BasicLit)
							b2, ok2 := c.Args[1].(*ast.BasicLit)
							if ok1 && ok2 && bl.Kind == token.STRING && b2.Value == "16" {
								x, good := new(big.Int).SetString(strings.Trim(bl.Value, "\""), 16)
								if !good || x.Sign() <= 0 {
									p.die(c, "_modulus literal")
								}
								p.modulus = "0x" + x.Text(16)
								nset++
								ok[id] = true
								return true
							}
						}
						p.die(c, "_modulus is the receiver of %s (only one `_modulus.SetString(\"…\", 16)` in init() is accepted)", se.Sel.Name)
					}
					// `&_modulus` as an argument of a method of big.Int (arguments are only read)
					for _, a := range c.Args {
						if u, isU := a.(*ast.UnaryExpr); isU && u.Op == token.AND {
							if id, isId := u.X.(*ast.Ident); isId && id.Name == "_modulus" {
								switch se.Sel.Name {
								case "Cmp", "Mod", "Set", "Sub", "Add", "CmpAbs":
									ok[id] = true
								}
							}
						}
					}
					return true
				})
			}
		}
		ast.Inspect(af, func(n ast.Node) bool {
			if id, isId := n.(*ast.Ident); isId && id.Name == "_modulus" && !ok[id] {
				p.die(id, "occurrence of _modulus that is not a read-only method argument")
			}
			return true
		})
	}
	if nset != 1 {
		die("imp: %s: %d `_modulus.SetString` in init() (exactly one expected)", p.tg.dir, nset)
	}
}

func (p *impPkg) useConst(n string) {
	if n != "Bits" {
		die("imp: %s: package constant %s read by a translated function (mode h2f knows Bits only)", p.tg.dir, n)
	}
	for _, c := range p.constsUsed {
		if c == n {
			return
		}
	}
	p.constsUsed = append(p.constsUsed, n)
}

func (p *impPkg) h2fHeader() string {
	var b strings.Builder
	if h2fGeneric {
		return "/-! GENERIC copy: the text of " + p.tg.dir + " with the package constants `Bits` and `_modulus` as parameters; Gen/Imp/H2FAll.lean checks\nthat the translation of every field package is this text at its own constants. -/\n\n"
	}
	if p.consts["Bits"] == "" {
		die("imp: %s: constant Bits not found", p.tg.dir)
	}
	for _, c := range []string{"Bits"} {
		fmt.Fprintf(&b, "/-- package constant `%s = %s` -/\ndef %s : Int := %s\n", c, p.consts[c], lname(c), p.consts[c])
	}
	fmt.Fprintf(&b, "/-- `var _modulus big.Int`, set once by `_modulus.SetString(\"…\", 16)` in init() and only read afterwards (checked) -/\ndef modulus : Int := %s\n\n", p.modulus)
	return b.String()
}

// the argument `&x` / `x` of a big.Int method: a local *big.Int / big.Int variable or the package modulus, read as its value
func (f *impFn) h2fBigArg(a ast.Expr, c *ictx) string {
	if u, ok := a.(*ast.UnaryExpr); ok && u.Op == token.AND {
		if id, ok := u.X.(*ast.Ident); ok {
			if id.Name == "_modulus" && f.lookup(id.Name) == nil && f.p.modulus != "" {
				return "modulus"
			}
			if t := f.lookup(id.Name); t != nil && t.k == "bigint" {
				s, _ := f.expr(id, nil, c)
				return s
			}
		}
		f.p.die(a, "big.Int argument (only &local or &_modulus)")
	}
	s, t := f.expr(a, nil, c)
	if t.k != "bigint" {
		f.p.die(a, "big.Int argument expected, %v given", t)
	}
	return s
}

// x := pool.BigInt.Get(): the matching Put is in the same statement list, x does not occur after it, and between the two x is only
// the receiver / an argument of big.Int methods and an argument of Element.SetBigInt / setBigInt (so the object cannot escape)
func (f *impFn) checkBigScratch(get *ast.AssignStmt, x string) {
	p := f.p
	var list []ast.Stmt
	ast.Inspect(f.fd.Body, func(n ast.Node) bool {
		var l []ast.Stmt
		switch v := n.(type) {
		case *ast.BlockStmt:
			l = v.List
		case *ast.CaseClause:
			l = v.Body
		}
		for _, s := range l {
			if s == ast.Stmt(get) {
				list = l
			}
		}
		return true
	})
	var put *ast.ExprStmt
	nput := 0
	ast.Inspect(f.fd.Body, func(n ast.Node) bool {
		if c, ok := n.(*ast.CallExpr); ok && exprText(c.Fun) == "pool.BigInt.Put" && len(c.Args) == 1 && exprText(c.Args[0]) == x {
			nput++
		}
		return true
	})
	for _, s := range list {
		if es, ok := s.(*ast.ExprStmt); ok && s.Pos() > get.End() {
			if c, ok := es.X.(*ast.CallExpr); ok && exprText(c.Fun) == "pool.BigInt.Put" && len(c.Args) == 1 && exprText(c.Args[0]) == x {
				put = es
			}
		}
	}
	if put == nil || nput != 1 {
		p.die(get, "scratch big.Int %s: exactly one `pool.BigInt.Put(%s)` later in the same statement list is required", x, x)
	}
	allowed := map[*ast.Ident]bool{get.Lhs[0].(*ast.Ident): true, put.X.(*ast.CallExpr).Args[0].(*ast.Ident): true}
	ast.Inspect(f.fd.Body, func(n ast.Node) bool {
		c, ok := n.(*ast.CallExpr)
		if !ok {
			return true
		}
		se, ok := c.Fun.(*ast.SelectorExpr)
		if !ok {
			return true
		}
		if id, ok := se.X.(*ast.Ident); ok && id.Name == x {
			switch se.Sel.Name {
			case "SetBytes", "Mod", "Neg", "Cmp", "Sign", "BitLen", "Bit", "IsUint64", "Uint64", "SetString":
				allowed[id] = true
			}
		}
		switch se.Sel.Name {
		case "SetBigInt", "setBigInt", "Cmp", "Mod", "Neg":
			for _, a := range c.Args {
				if u, ok := a.(*ast.UnaryExpr); ok && u.Op == token.AND {
					a = u.X
				}
				if id, ok := a.(*ast.Ident); ok && id.Name == x {
					allowed[id] = true
				}
			}
		}
		return true
	})
	ast.Inspect(f.fd.Body, func(n ast.Node) bool {
		if id, ok := n.(*ast.Ident); ok && id.Name == x {
			if !allowed[id] {
				p.die(id, "scratch big.Int %s escapes / is used outside the big.Int method subset here", x)
			}
			if id.Pos() > put.End() || (id.Pos() < get.Pos()) {
				p.die(id, "scratch big.Int %s occurs outside its Get … Put window", x)
			}
		}
		return true
	})
}

func writeH2FAll(names []string) {
	var b strings.Builder
	b.WriteString("/- GENERATED by tools/goslp (imp_h2f.go) on every run. DO NOT EDIT.\n   SetBigInt / Hash of the 23 field packages: every translation is the GENERIC text (H2F_generic, the text of ecc/bn254/fr with Bits and\n   the modulus as parameters) at the package's own constants. -/\nimport GnarkVerif.Gen.Imp.H2F_generic\n")
	for _, n := range names {
		b.WriteString("import GnarkVerif.Gen.Imp.H2F_" + n + "\n")
	}
	b.WriteString("\nnamespace GV.Gen.Imp.H2FAll\nopen GV.GoImp\n\n")
	for _, n := range names {
		fmt.Fprintf(&b, "theorem %s_SetBigInt_same : @H2F_%s.SetBigInt = @H2F_generic.SetBigInt H2F_%s.Bits H2F_%s.modulus := rfl\n", n, n, n, n)
		fmt.Fprintf(&b, "theorem %s_loop_same : @H2F_%s.Hash.loop1 = @H2F_generic.Hash.loop1 H2F_%s.Bits H2F_%s.modulus := by\n  funext F inst zeroF setBigIntF X count L prb fuel vv res i\n  induction fuel generalizing vv res i with\n  | zero => rfl\n  | succ n ih => simp only [H2F_%s.Hash.loop1, H2F_generic.Hash.loop1, ih, %s_SetBigInt_same]\n", n, n, n, n, n, n)
		fmt.Fprintf(&b, "theorem %s_Hash_same : @H2F_%s.Hash = @H2F_generic.Hash H2F_%s.Bits H2F_%s.modulus := by\n  funext F inst zeroF setBigIntF X msg dst count\n  simp only [H2F_%s.Hash, H2F_generic.Hash, %s_loop_same]\n\n", n, n, n, n, n, n)
	}
	b.WriteString("/-- one field package: name, the constants its functions read, its translated functions -/\nstructure Pkg where\n  name : String\n  bits : Int\n  modulus : Int\n  setBigInt : {F : Type} → [Inhabited F] → F → (Int → F) → F → Int → F\n  hash : {F : Type} → [Inhabited F] → F → (Int → F) → (Bytes → Bytes → Int → Bytes × Err) → Bytes → Bytes → Int → List F × Err\n\n")
	b.WriteString("def allPkgs : List Pkg := [\n")
	for i, n := range names {
		sep := ","
		if i == len(names)-1 {
			sep = ""
		}
		fmt.Fprintf(&b, "  ⟨%q, H2F_%s.Bits, H2F_%s.modulus, @H2F_%s.SetBigInt, @H2F_%s.Hash⟩%s\n", n, n, n, n, n, sep)
	}
	b.WriteString("]\n\n/-- every package's translation is the generic text at the package's constants -/\ntheorem allPkgs_same : ∀ P ∈ allPkgs, @P.setBigInt = @H2F_generic.SetBigInt P.bits P.modulus ∧ @P.hash = @H2F_generic.Hash P.bits P.modulus := by\n  intro P hP\n  simp only [allPkgs, List.mem_cons, List.not_mem_nil, or_false] at hP\n  rcases hP with " + strings.TrimSuffix(strings.Repeat("rfl | ", len(names)), " | ") + "\n")
	for _, n := range names {
		fmt.Fprintf(&b, "  · exact ⟨%s_SetBigInt_same, %s_Hash_same⟩\n", n, n)
	}
	b.WriteString("\nend GV.Gen.Imp.H2FAll\n")
	writeFile("Imp/H2FAll.lean", b.String())
}

func writeSetAll(names []string) {
	var b strings.Builder
	b.WriteString("/- GENERATED by tools/goslp (imp_h2f.go) on every run. DO NOT EDIT.\n   SetBigInt / SetString / SetInt64 of the 23 field packages: every translation is the GENERIC text (Set_generic, the text of ecc/bn254/fr\n   with Bits and the modulus as parameters) at the package's own constants. -/\nimport GnarkVerif.Gen.Imp.Set_generic\n")
	for _, n := range names {
		b.WriteString("import GnarkVerif.Gen.Imp.Set_" + n + "\n")
	}
	b.WriteString("\nnamespace GV.Gen.Imp.SetAll\nopen GV.GoImp\n\n")
	for _, n := range names {
		for _, fn := range []string{"SetBigInt", "SetString", "SetInt64"} {
			fmt.Fprintf(&b, "theorem %s_%s_same : @Set_%s.%s = @Set_generic.%s Set_%s.Bits Set_%s.modulus := rfl\n", n, fn, n, fn, fn, n, n)
		}
	}
	b.WriteString("\n/-- one field package: name, the constants its functions read, its translated functions -/\nstructure Pkg where\n  name : String\n  bits : Int\n  modulus : Int\n  setBigInt : {F : Type} → [Inhabited F] → F → (Int → F) → F → Int → F\n  setString : {F : Type} → [Inhabited F] → F → (Int → F) → (GoString → Int × Bool) → F → GoString → F × Option F × Err\n  setInt64 : {F : Type} → [Inhabited F] → F → (Int → F) → (Nat → F) → (F → F) → F → Int → F\n\n")
	b.WriteString("def allPkgs : List Pkg := [\n")
	for i, n := range names {
		sep := ","
		if i == len(names)-1 {
			sep = ""
		}
		fmt.Fprintf(&b, "  ⟨%q, Set_%s.Bits, Set_%s.modulus, @Set_%s.SetBigInt, @Set_%s.SetString, @Set_%s.SetInt64⟩%s\n", n, n, n, n, n, n, sep)
	}
	b.WriteString("]\n\n/-- every package's translation is the generic text at the package's constants -/\ntheorem allPkgs_same : ∀ P ∈ allPkgs, @P.setBigInt = @Set_generic.SetBigInt P.bits P.modulus ∧ @P.setString = @Set_generic.SetString P.bits P.modulus ∧\n    @P.setInt64 = @Set_generic.SetInt64 P.bits P.modulus := by\n  intro P hP\n  simp only [allPkgs, List.mem_cons, List.not_mem_nil, or_false] at hP\n  rcases hP with " + strings.TrimSuffix(strings.Repeat("rfl | ", len(names)), " | ") + "\n")
	for _, n := range names {
		fmt.Fprintf(&b, "  · exact ⟨%s_SetBigInt_same, %s_SetString_same, %s_SetInt64_same⟩\n", n, n, n)
	}
	b.WriteString("\nend GV.Gen.Imp.SetAll\n")
	writeFile("Imp/SetAll.lean", b.String())
}
