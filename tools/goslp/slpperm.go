// Part 3b of gvgoslp (extended mode "hash", built on slpx.go): the COMPOSITION of the Poseidon2 layers,
// `(*Permutation).Permutation(input []fr.Element) error` of the 11 Poseidon2 packages -> Gen/Hash/P2_<pkg>.lean   (C14)
//
// One def per (width, rf, rp): `Permutation.Permutation_t<w>_rf<rf>_rp<rp>_n<w> (input : Arr<w> F) (rc : Nat → Nat → F) : Arr<w> F`.
//   - `h.params.Width`, `h.params.NbFullRounds`, `h.params.NbPartialRounds` are translation-time constants: the three round loops
//     (bounds as written in the Go source) are unrolled by the loop rule of slpx.go; the body is a chain of calls of the layer defs
//     (`matMulExternalInPlace_t<w>_n<w>`, `addRoundKeyInPlace_…`, `sBox_t<w>_<j>_n<w>`, `matMulInternalInPlace_t<w>_n<w>`).
//   - the round KEYS are abstract: `rc i j` stands for `h.params.RoundKeys[i][j]`. A callee parameter that only selects the row
//     (`round` of addRoundKeyInPlace) stays opaque in the callee, which receives the row `RoundKeys[i]` as an array whose LENGTH is
//     read from `(*Parameters).initRC` (the only writer of `RoundKeys`: `roundKeys[i] = make([]fr.Element, n)` inside its loops,
//     evaluated for the same (width, rf, rp)); `len(h.params.RoundKeys[round])` is that length (suffix _k<n> when it is not the width).
//   - result `error`: only `return nil` may be reachable. `len(input) != h.params.Width` is decided by the translator (the buffer is
//     the array of the specialised width), so the def describes the calls with `len(input) == Width`; for every other length the Go
//     function returns ErrInvalidSizebuffer before touching `input` (first statement; recorded in summary.json as `lengthGuard`).
//   - small fields: `h.params.hasFast…` (AVX-512 fast paths, set by NewParameters from the predicate recorded in summary.json under
//     `fastPath`) is taken to be FALSE: the def is the generic path. The assembly paths are tied by K only.
//
// Parameter sets: the registered default `NewParameters(t, rf, rp)` of hash.go (read from the source) at every accepted width, the
// (rf, rp) of every fast-path predicate whose width matches, and the small sets the harness runs ((2,1), (3,2), (0,0), (4,0), (0,3)).
package main

import (
	"fmt"
	"go/ast"
	"go/printer"
	"go/token"
	"sort"
	"strings"
)

var rcT = &typ{prim: "(Nat → Nat → F)"}

var permSmallSets = [][2]int{{2, 1}, {3, 2}, {0, 0}, {4, 0}, {0, 3}}

type permInfo struct {
	Default     [3]int            `json:"defaultParameters"`
	FastPath    map[string]string `json:"fastPath,omitempty"`
	LengthGuard string            `json:"lengthGuard"`
	Instances   []string          `json:"instances"`
	RowLens     map[string]string `json:"roundKeyRowLengths"`
	Triples     [][3]int          `json:"triples"`
}

func srcStr(n ast.Node) string {
	var b strings.Builder
	printer.Fprint(&b, token.NewFileSet(), n)
	return strings.Join(strings.Fields(b.String()), " ")
}

// ---------------------------------------------------------------- what the package says about its parameters

func (p *pkgCtx) declNamed(name, recv string) *ast.FuncDecl {
	var out *ast.FuncDecl
	for d := range p.fileOf {
		if d.Name.Name != name {
			continue
		}
		r := ""
		if d.Recv != nil && len(d.Recv.List) == 1 {
			r = exprStr(d.Recv.List[0].Type)
		}
		if r == recv {
			if out != nil {
				die("%s: two declarations of %s", p.cfg.name, name)
			}
			out = d
		}
	}
	return out
}

// integer expression over an environment (loop variables, p.Width / p.NbFullRounds / p.NbPartialRounds)
func evalEnv(env map[string]int64, e ast.Expr) (int64, bool) {
	switch e := e.(type) {
	case *ast.BasicLit:
		if n := litInt(e); n != nil && n.IsInt64() {
			return n.Int64(), true
		}
	case *ast.ParenExpr:
		return evalEnv(env, e.X)
	case *ast.Ident:
		n, ok := env[e.Name]
		return n, ok
	case *ast.SelectorExpr:
		n, ok := env[exprStr(e)]
		return n, ok
	case *ast.BinaryExpr:
		a, ok1 := evalEnv(env, e.X)
		b, ok2 := evalEnv(env, e.Y)
		if !ok1 || !ok2 {
			return 0, false
		}
		switch e.Op {
		case token.ADD:
			return a + b, true
		case token.SUB:
			return a - b, true
		case token.MUL:
			return a * b, true
		case token.QUO:
			if b != 0 {
				return a / b, true
			}
		}
	}
	return 0, false
}

func condEnv(env map[string]int64, e ast.Expr) (bool, bool) {
	b, ok := e.(*ast.BinaryExpr)
	if !ok {
		return false, false
	}
	x, ok1 := evalEnv(env, b.X)
	y, ok2 := evalEnv(env, b.Y)
	if !ok1 || !ok2 {
		return false, false
	}
	switch b.Op {
	case token.LSS:
		return x < y, true
	case token.LEQ:
		return x <= y, true
	case token.GTR:
		return x > y, true
	case token.GEQ:
		return x >= y, true
	case token.NEQ:
		return x != y, true
	}
	return false, false
}

func mentions(n ast.Node, names ...string) bool {
	found := false
	ast.Inspect(n, func(m ast.Node) bool {
		switch m := m.(type) {
		case *ast.Ident:
			for _, nm := range names {
				found = found || m.Name == nm
			}
		}
		return !found
	})
	return found
}

// rowLens runs the part of `(*Parameters).initRC` that shapes the key table, for (width, rf, rp):
//
//	tab := make([][]fr.Element, N); for i := lo; i < hi; i++ { tab[i] = make([]fr.Element, n); … tab[i][j].SetBytes(..) … }; p.RoundKeys = tab
//
// Every other statement must not mention the table. Result: the length of every row.
func (p *pkgCtx) rowLens(w, rf, rp int) ([]int, string) {
	key := fmt.Sprintf("%d,%d,%d", w, rf, rp)
	if r, ok := p.rowCache[key]; ok {
		return r, ""
	}
	d := p.declNamed("initRC", "*Parameters")
	if d == nil || len(d.Recv.List[0].Names) != 1 {
		return nil, "(*Parameters).initRC not found"
	}
	recv := d.Recv.List[0].Names[0].Name
	env := map[string]int64{recv + ".Width": int64(w), recv + ".NbFullRounds": int64(rf), recv + ".NbPartialRounds": int64(rp)}
	tabName := ""
	var tab []int
	stored := false
	steps := 0
	var bad string
	fail := func(f string, a ...any) {
		if bad == "" {
			bad = "initRC: " + fmt.Sprintf(f, a...)
		}
	}
	var run func(list []ast.Stmt)
	run = func(list []ast.Stmt) {
		for _, st := range list {
			if bad != "" {
				return
			}
			switch st := st.(type) {
			case *ast.ForStmt:
				as, ok := st.Init.(*ast.AssignStmt)
				inc, ok2 := st.Post.(*ast.IncDecStmt)
				if !ok || !ok2 || as.Tok != token.DEFINE || len(as.Lhs) != 1 || len(as.Rhs) != 1 || inc.Tok != token.INC || exprStr(inc.X) != exprStr(as.Lhs[0]) {
					fail("unsupported loop header")
					return
				}
				v := exprStr(as.Lhs[0])
				if _, dup := env[v]; dup {
					fail("loop variable %s shadows", v)
					return
				}
				lo, ok := evalEnv(env, as.Rhs[0])
				if !ok {
					fail("loop start %s", srcStr(as.Rhs[0]))
					return
				}
				for env[v] = lo; ; env[v]++ {
					c, ok := condEnv(env, st.Cond)
					if !ok {
						fail("loop condition %s", srcStr(st.Cond))
						return
					}
					if !c {
						break
					}
					if steps++; steps > 1<<16 {
						fail("too many iterations")
						return
					}
					run(st.Body.List)
					if bad != "" {
						return
					}
				}
				delete(env, v)
				continue
			case *ast.AssignStmt:
				if len(st.Lhs) == 1 && len(st.Rhs) == 1 {
					if c, ok := st.Rhs[0].(*ast.CallExpr); ok && exprStr(c.Fun) == "make" && len(c.Args) == 2 {
						if at, ok := c.Args[0].(*ast.ArrayType); ok && at.Len == nil {
							n, okn := evalEnv(env, c.Args[1])
							if _, two := at.Elt.(*ast.ArrayType); two {
								id, isId := st.Lhs[0].(*ast.Ident)
								if !isId || st.Tok != token.DEFINE || tabName != "" || !okn || n < 0 || n > 1<<16 {
									fail("unsupported table allocation %s", srcStr(st))
									return
								}
								tabName = id.Name
								tab = make([]int, n)
								for i := range tab {
									tab[i] = -1
								}
								continue
							}
							if ix, ok := st.Lhs[0].(*ast.IndexExpr); ok && tabName != "" && exprStr(ix.X) == tabName && st.Tok == token.ASSIGN {
								i, oki := evalEnv(env, ix.Index)
								if !oki || !okn || i < 0 || i >= int64(len(tab)) || n < 0 || n > 1<<16 {
									fail("row allocation %s out of range", srcStr(st))
									return
								}
								tab[i] = int(n)
								continue
							}
						}
					}
					if tabName != "" && exprStr(st.Lhs[0]) == recv+".RoundKeys" && exprStr(st.Rhs[0]) == tabName && st.Tok == token.ASSIGN {
						stored = true
						continue
					}
				}
			case *ast.ExprStmt:
				// tab[i][j].SetBytes(rnd): writes one entry of an allocated row
				if c, ok := st.X.(*ast.CallExpr); ok && tabName != "" {
					if se, ok := c.Fun.(*ast.SelectorExpr); ok {
						if jx, ok := se.X.(*ast.IndexExpr); ok {
							if ix, ok := jx.X.(*ast.IndexExpr); ok && exprStr(ix.X) == tabName {
								i, oki := evalEnv(env, ix.Index)
								j, okj := evalEnv(env, jx.Index)
								if !oki || !okj || i < 0 || i >= int64(len(tab)) || j < 0 || j >= int64(tab[i]) {
									fail("entry %s outside its row", srcStr(jx))
									return
								}
								args := false
								for _, a := range c.Args {
									args = args || mentions(a, tabName)
								}
								if !args {
									continue
								}
							}
						}
					}
				}
			}
			if tabName != "" && mentions(st, tabName) || mentions(st, "RoundKeys") {
				fail("unsupported statement on the key table: %s", srcStr(st))
				return
			}
			if _, ok := st.(*ast.ReturnStmt); ok {
				fail("return")
				return
			}
		}
	}
	run(d.Body.List)
	if bad == "" && !stored {
		bad = "initRC: the table is not stored in RoundKeys"
	}
	for i, n := range tab {
		if bad == "" && n < 0 {
			bad = fmt.Sprintf("initRC: row %d is never allocated", i)
		}
	}
	if bad != "" {
		return nil, bad
	}
	if p.rowCache == nil {
		p.rowCache = map[string][]int{}
	}
	p.rowCache[key] = tab
	return tab, ""
}

// NewParameters(t, rf, rp) inside `var GetDefaultParameters = …` (hash.go)
func (p *pkgCtx) defaultParams() ([3]int, bool) {
	var out [3]int
	n := 0
	for _, f := range p.allFiles() {
		for _, d := range f.Decls {
			gd, ok := d.(*ast.GenDecl)
			if !ok || gd.Tok != token.VAR {
				continue
			}
			for _, sp := range gd.Specs {
				vs := sp.(*ast.ValueSpec)
				if len(vs.Names) != 1 || vs.Names[0].Name != "GetDefaultParameters" || len(vs.Values) != 1 {
					continue
				}
				ast.Inspect(vs.Values[0], func(m ast.Node) bool {
					if c, ok := m.(*ast.CallExpr); ok && exprStr(c.Fun) == "NewParameters" && len(c.Args) == 3 {
						okAll := true
						for i, a := range c.Args {
							v := litInt(a)
							if v == nil || !v.IsInt64() {
								okAll = false
							} else {
								out[i] = int(v.Int64())
							}
						}
						if okAll {
							n++
						}
					}
					return true
				})
			}
		}
	}
	return out, n == 1
}

func (p *pkgCtx) allFiles() []*ast.File {
	seen := map[*ast.File]bool{}
	var fs []*ast.File
	for f := range p.relOf {
		if !seen[f] {
			seen[f] = true
			fs = append(fs, f)
		}
	}
	sort.Slice(fs, func(i, j int) bool { return fs[i].Pos() < fs[j].Pos() })
	return fs
}

// `p.hasFast… = <predicate>` in NewParameters / NewParametersWithSeed: name -> text of the predicate (all assignments must agree)
func (p *pkgCtx) fastPredicates() map[string]string {
	out := map[string]string{}
	for _, f := range p.allFiles() {
		ast.Inspect(f, func(m ast.Node) bool {
			as, ok := m.(*ast.AssignStmt)
			if !ok || len(as.Lhs) != 1 || len(as.Rhs) != 1 {
				return true
			}
			se, ok := as.Lhs[0].(*ast.SelectorExpr)
			if !ok || !strings.HasPrefix(se.Sel.Name, "hasFast") {
				return true
			}
			t := srcStr(as.Rhs[0])
			if old, dup := out[se.Sel.Name]; dup && old != t {
				t = old + "  |  " + t
			}
			out[se.Sel.Name] = t
			return true
		})
	}
	return out
}

// (width, rf, rp) named by a predicate `width == 16 && nbFullRounds == 6 && nbPartialRounds == 21 && cpu.SupportAVX512`
func fastTriple(pred string) ([3]int, bool) {
	var out [3]int
	got := 0
	for _, c := range strings.Split(pred, "&&") {
		var nm string
		var v int
		c = strings.TrimSpace(c)
		if i := strings.Index(c, "=="); i > 0 {
			nm = strings.TrimSpace(c[:i])
			if _, err := fmt.Sscanf(strings.TrimSpace(c[i+2:]), "%d", &v); err != nil {
				continue
			}
			switch nm {
			case "width":
				out[0] = v
				got |= 1
			case "nbFullRounds":
				out[1] = v
				got |= 2
			case "nbPartialRounds":
				out[2] = v
				got |= 4
			}
		}
	}
	return out, got == 7
}

// ---------------------------------------------------------------- hooks of the translator

// h.params.hasFast… under a (width, rf, rp) specialisation: FALSE (generic path)
func (x *tr) fastFlag(e *ast.SelectorExpr) (bool, bool) {
	h := x.specRecvName()
	if h == "" || x.v.spec == nil || !x.v.spec.rounds || exprStr(e.X) != h+".params" || !strings.HasPrefix(e.Sel.Name, "hasFast") {
		return false, false
	}
	if x.p.fastSeen == nil {
		x.p.fastSeen = map[string]bool{}
	}
	x.p.fastSeen[e.Sel.Name] = true
	return false, true
}

// the int parameter q of the spec-receiver method f is only used as `h.params.RoundKeys[q]`: at a call with the known value n the
// callee gets the row (term, length) instead
func (x *tr) roundRow(f *fn, q *param, n int64) (string, int, bool) {
	sp := x.v.spec
	if sp == nil || !sp.rounds || len(f.pos) == 0 || !f.pos[0].spec || f.decl.Body == nil {
		return "", 0, false
	}
	h := f.pos[0].name
	uses, other := 0, 0
	var walk func(n ast.Node) bool
	walk = func(m ast.Node) bool {
		switch m := m.(type) {
		case *ast.IndexExpr:
			if id, ok := m.Index.(*ast.Ident); ok && id.Name == q.name && exprStr(m.X) == h+".params.RoundKeys" {
				uses++
				return false
			}
		case *ast.Ident:
			if m.Name == q.name {
				other++
			}
		}
		return true
	}
	ast.Inspect(f.decl.Body, walk)
	if uses == 0 || other != 0 {
		return "", 0, false
	}
	lens, err := x.p.rowLens(sp.width, sp.rf, sp.rp)
	if err != "" {
		reject("%s", err)
	}
	if n < 0 || n >= int64(len(lens)) {
		reject("round %d outside the key table of %d rows", n, len(lens))
	}
	k := lens[n]
	if k < 1 {
		reject("round-key row %d is empty", n)
	}
	t := x.p.arrType(k, baseT)
	if t.fun {
		reject("round-key row of %d entries", k)
	}
	es := make([]string, k)
	for j := range es {
		es[j] = fmt.Sprintf("(rc %d %d)", n, j)
	}
	if k == sp.width {
		k = 0 // same def as the stand-alone translation of the callee
	}
	return "(" + t.name + ".mk " + strings.Join(es, " ") + ")", k, true
}

// ---------------------------------------------------------------- driver (called by runExt for every Poseidon2 package)

func (p *pkgCtx) translatePermutations(cfg towerPkg, rec func(key string, v *variant)) *permInfo {
	info := &permInfo{RowLens: map[string]string{}}
	f := p.funcs[cfg.specRecv+".Permutation"]
	if f == nil {
		die("%s: (*Permutation).Permutation not found", cfg.dir)
	}
	dflt, ok := p.defaultParams()
	if !ok {
		die("%s: default parameters (NewParameters(t, rf, rp) in GetDefaultParameters) not found", cfg.dir)
	}
	info.Default = dflt
	info.FastPath = p.fastPredicates()
	if len(f.decl.Body.List) > 0 {
		info.LengthGuard = srcStr(f.decl.Body.List[0])
	}
	nret := 0
	ast.Inspect(f.decl.Body, func(m ast.Node) bool {
		if r, ok := m.(*ast.ReturnStmt); ok && !(len(r.Results) == 1 && exprStr(r.Results[0]) == "nil") {
			nret++
		}
		return true
	})
	if g, ok := firstStmt(f.decl.Body).(*ast.IfStmt); !ok || nret != 1 || g.Else != nil || g.Init != nil || len(g.Body.List) != 1 || !isErrReturn(g.Body.List[0]) {
		die("%s: Permutation does not start with the only error return", cfg.dir)
	}
	for _, w := range cfg.widths {
		sets := [][2]int{{dflt[1], dflt[2]}}
		var fn []string
		for k := range info.FastPath {
			fn = append(fn, k)
		}
		sort.Strings(fn)
		for _, k := range fn {
			if tr, ok := fastTriple(info.FastPath[k]); ok && tr[0] == w {
				sets = append(sets, [2]int{tr[1], tr[2]})
			}
		}
		sets = append(sets, permSmallSets...)
		done := map[[2]int]bool{}
		for _, rr := range sets {
			if done[rr] {
				continue
			}
			done[rr] = true
			sp := newSpec()
			sp.width, sp.rounds, sp.rf, sp.rp = w, true, rr[0], rr[1]
			for i, q := range f.pos {
				if q.slice {
					sp.arrs[i] = p.arrType(w, q.t)
				}
			}
			v := p.translateSpec(f, identityPat(f), sp)
			rec(v.name, v)
			if v.err == "" {
				info.Instances = append(info.Instances, v.name)
				info.Triples = append(info.Triples, [3]int{w, rr[0], rr[1]})
				if lens, e := p.rowLens(w, rr[0], rr[1]); e == "" {
					info.RowLens[fmt.Sprintf("t%d_rf%d_rp%d", w, rr[0], rr[1])] = strings.Trim(fmt.Sprint(lens), "[]")
				}
			}
		}
	}
	for k := range info.FastPath {
		if !p.fastSeen[k] {
			delete(info.FastPath, k) // not read by Permutation
		}
	}
	// what the translator decided, as Lean data (Props/C14_perm_* state it)
	var fp, inst []string
	var fk []string
	for k := range info.FastPath {
		fk = append(fk, k)
	}
	sort.Strings(fk)
	for _, k := range fk {
		fp = append(fp, fmt.Sprintf("(%q, %q)", k, info.FastPath[k]))
	}
	for _, tr := range info.Triples {
		inst = append(inst, fmt.Sprintf("(%d, %d, %d)", tr[0], tr[1], tr[2]))
	}
	p.consts = append(p.consts,
		fmt.Sprintf("/-- first statement of `Permutation` (source text): the only reachable `return` of an error -/\ndef Permutation.lengthGuard : String := %q\n", info.LengthGuard),
		fmt.Sprintf("/-- `NewParameters(t, rf, rp)` of `GetDefaultParameters` (hash.go) -/\ndef Permutation.defaultParameters : Nat × Nat × Nat := (%d, %d, %d)\n", dflt[0], dflt[1], dflt[2]),
		fmt.Sprintf("/-- fast-path flags read by `Permutation` and the predicates NewParameters sets them from; the defs below are the path with every flag false -/\ndef Permutation.fastPath : List (String × String) := [%s]\n", strings.Join(fp, ", ")),
		fmt.Sprintf("/-- the (width, rf, rp) at which `Permutation` is translated below -/\ndef Permutation.instances : List (Nat × Nat × Nat) := [%s]\n", strings.Join(inst, ", ")))
	return info
}

func firstStmt(b *ast.BlockStmt) ast.Stmt {
	if len(b.List) == 0 {
		return nil
	}
	return b.List[0]
}

func isErrReturn(st ast.Stmt) bool {
	r, ok := st.(*ast.ReturnStmt)
	return ok && len(r.Results) == 1 && exprStr(r.Results[0]) != "nil"
}
