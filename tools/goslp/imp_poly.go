// imp_poly.go — sub-pass "PolyEval" of the imperative mode: the ARITHMETIC of ecc/<curve>/fr/iop/polynomial.go
// (`(*Polynomial).Evaluate`, `(*polynomial).evaluate` incl. its closure `evalLagrange`, `(*Polynomial).GetCoeff`) and utils.go
// (`exp0` … `exp5`, `smallExp`) of the 7 iop packages, statement by statement, over an ABSTRACT element type F
// → Gen/Imp/PolyEval.lean (C20; theorems in Props/C20_eval_gen.lean).
//
// ONE Lean file for the 7 packages: every package is translated, and the pass is FATAL unless the 7 translations are the same text
// (the text carries no package name and no line number), so the definitions of Gen/Imp/PolyEval.lean are those of every package.
//
// Value vocabulary (Model/GoImp.lean, Model/GoImpSlice.lean): `int`, `int64` = Int (unbounded: overflow of Go's 64-bit int is NOT modelled);
// `uint`, `uint64` = Int, a conversion `uint64(e)` / `uint(e)` is `toU64 e = e mod 2^64` (uint is taken as 64 bits wide), the only operation on
// them is `>>` (`shrU64`); Go's `/` and `%` on int are the TRUNCATED ones (`Int.tdiv`, `Int.tmod`); `[]fr.Element` / `*fr.Vector` = List F BY VALUE;
// `fr.Element` = F; `Basis`, `Layout` = Int (the constants are read from the const blocks, iota evaluated); `polynomial` / `Polynomial` = Lean
// structures (the embedded `Form` is flattened, the embedded `*polynomial` is a field).
// PARAMETERS of every generated def (pvParams): `fzero` (zero value of fr.Element), `fone` (SetOne), `fadd fsub fmul fdiv` (Add/Sub/Mul/Div),
// `fsquare` (Square), `finv` (Inverse), `fofU64` (SetUint64), `fexp` (`z.Exp(x, big.NewInt(int64(k)))` as a function of x and k),
// `fisZero` (IsZero), `batchInvert` (fr.BatchInvert: assumed to return a fresh slice and not to write its argument), `generator`
// (fft.Generator: value and error), `rev64` (bits.Reverse64), `tz` (bits.TrailingZeros), and `panicked : F`: a `panic(..)` statement ends
// the function with the UNINTERPRETED value `panicked` (the theorems assume the generator returns no error, so it never shows).
//
// CHECKED here (fatal otherwise):
//   - every statement / expression is in the subset below; no variable shadows a live one; struct fields are never assigned;
//   - an element write `x[i].M(..)` only on a local created by `make` in the same function body; a slice-typed variable is only ever bound to
//     `make(..)` or `fr.BatchInvert(..)` (no aliasing); the coefficient vector is only read;
//   - every fr.Element method used as a statement or in a chain returns its receiver in every declaration with a body;
//   - `(Vector).Len` is `return len(vector)`;
//   - loops are `for i := a; i < b; i++` (fuel (b-a).toNat, b a variable not assigned in the body) or `for i := a; i >= 0; i--` (fuel (a+1).toNat),
//     the body never assigns i; a `return` inside a loop is only allowed in a closure without results (the loop then reports it with a flag);
//   - a closure is `name := func() { … }` called as a statement `name()`: it becomes a def whose result is the tuple of captured variables it assigns.
//
// Not modelled: panics of out-of-range reads (an out-of-range read yields `fzero`, as in Model/GoImp.lean), integer overflow.
package main

import (
	"fmt"
	"go/ast"
	"go/parser"
	"go/token"
	"os"
	"path/filepath"
	"strconv"
	"strings"
)

const pvParams = " {F : Type} (fzero fone panicked : F) (fadd fsub fmul fdiv : F → F → F) (fsquare finv : F → F) (fofU64 : Int → F) (fexp : F → Int → F) (fisZero : F → Bool) (batchInvert : List F → List F) (generator : Int → F × Err) (rev64 tz : Int → Int)"
const pvArgs = " fzero fone panicked fadd fsub fmul fdiv fsquare finv fofU64 fexp fisZero batchInvert generator rev64 tz"

var pvReserved = map[string]bool{"fzero": true, "fone": true, "panicked": true, "fadd": true, "fsub": true, "fmul": true, "fdiv": true, "fsquare": true, "finv": true,
	"fofU64": true, "fexp": true, "fisZero": true, "batchInvert": true, "generator": true, "rev64": true, "tz": true, "F": true, "fuel_": true, "ret_": true,
	"toU64": true, "shrU64": true, "idxD": true, "setAt": true, "len": true}

type pvField struct{ name, kind string }

type pvPkg struct {
	curve, dir  string
	fset        *token.FileSet
	funcs       map[string]*ast.FuncDecl // "Polynomial.Evaluate", "smallExp", …
	structs     map[string][]pvField     // flattened
	consts      map[string]int64
	constOrd    []string
	usedMethods map[string]bool
	done        map[string]bool
	out         []string
}

func (p *pvPkg) die(n ast.Node, f string, a ...any) {
	pos := ""
	if n != nil {
		pos = p.fset.Position(n.Pos()).String() + ": "
	}
	die("imp/polyeval %s: %s%s", p.curve, pos, fmt.Sprintf(f, a...))
}

type pvScope struct {
	parent     *pvScope
	name, kind string
}

func (s *pvScope) lookup(n string) string {
	for ; s != nil; s = s.parent {
		if s.name == n {
			return s.kind
		}
	}
	return ""
}
func (s *pvScope) list() []pvField {
	var r []pvField
	for ; s != nil; s = s.parent {
		r = append([]pvField{{s.name, s.kind}}, r...)
	}
	return r
}

func pvLeanTy(k string) string {
	switch k {
	case "int", "toU64", "code":
		return "Int"
	case "elem":
		return "F"
	case "list":
		return "(List F)"
	case "err":
		return "Err"
	case "bool":
		return "Bool"
	case "polynomial", "Polynomial":
		return "(" + k + " F)"
	}
	die("imp/polyeval: no Lean type for kind %q", k)
	return ""
}

type pvCtx struct {
	ret    func(n ast.Node, results []ast.Expr, sc *pvScope, ind string) string
	panicV func(n ast.Node) string
	inLoop bool
}

type pvFn struct {
	p        *pvPkg
	name     string
	closures map[string]*pvClosure
	made     map[string]bool
	nloop    int
}

type pvClosure struct {
	def     string
	written []pvField
	free    []pvField
}

func (f *pvFn) declare(n ast.Node, sc *pvScope, name, kind string) *pvScope {
	// `one`, `mul`, `inv` are reserved by other sub-passes only (their parameter names); here the parameters are fone, fmul, finv
	if (leanReserved[name] && name != "one" && name != "mul" && name != "inv") || pvReserved[name] {
		f.p.die(n, "variable name %q collides with the generated vocabulary", name)
	}
	if sc.lookup(name) != "" {
		f.p.die(n, "variable %q shadows a live variable", name)
	}
	return &pvScope{parent: sc, name: name, kind: kind}
}

// ---- expressions ----

func (f *pvFn) selector(e *ast.SelectorExpr, sc *pvScope) (string, string) {
	base, kind := f.expr(e.X, sc)
	fields, ok := f.p.structs[kind]
	if !ok {
		f.p.die(e, "selector on a value of kind %q", kind)
	}
	if e.Sel.Name == "Form" && kind == "polynomial" {
		return base, kind // the embedded Form is flattened into polynomial
	}
	for _, fl := range fields {
		if fl.name == e.Sel.Name {
			return base + "." + fl.name, fl.kind
		}
	}
	if kind == "Polynomial" { // promoted through the embedded *polynomial
		if e.Sel.Name == "Form" {
			return base + ".polynomial", "polynomial"
		}
		for _, fl := range f.p.structs["polynomial"] {
			if fl.name == e.Sel.Name {
				return base + ".polynomial." + fl.name, fl.kind
			}
		}
	}
	f.p.die(e, "unknown field %s of %s", e.Sel.Name, kind)
	return "", ""
}

func (f *pvFn) intArg(e ast.Expr, sc *pvScope, kinds ...string) string {
	t, k := f.expr(e, sc)
	for _, w := range kinds {
		if k == w {
			return t
		}
	}
	f.p.die(e, "operand of kind %q, expected %v", k, kinds)
	return ""
}

func (f *pvFn) expr(e ast.Expr, sc *pvScope) (string, string) {
	switch v := e.(type) {
	case *ast.ParenExpr:
		return f.expr(v.X, sc)
	case *ast.BasicLit:
		if v.Kind != token.INT {
			f.p.die(e, "literal %s", v.Value)
		}
		return v.Value, "int"
	case *ast.Ident:
		if k := sc.lookup(v.Name); k != "" {
			return v.Name, k
		}
		if _, ok := f.p.consts[v.Name]; ok {
			return v.Name, "code"
		}
		if v.Name == "nil" {
			return "Err.nil", "err"
		}
		f.p.die(e, "unknown identifier %s", v.Name)
	case *ast.UnaryExpr:
		if v.Op == token.AND {
			t, k := f.expr(v.X, sc)
			if k != "elem" {
				f.p.die(e, "& of a value of kind %q", k)
			}
			return t, k
		}
		f.p.die(e, "unary operator %s", v.Op)
	case *ast.StarExpr:
		t, k := f.expr(v.X, sc)
		if k != "list" {
			f.p.die(e, "* of a value of kind %q", k)
		}
		return t, k
	case *ast.SelectorExpr:
		return f.selector(v, sc)
	case *ast.CompositeLit:
		if exprText(v.Type) == "fr.Element" && len(v.Elts) == 0 {
			return "fzero", "elem"
		}
		f.p.die(e, "composite literal")
	case *ast.IndexExpr:
		l, k := f.expr(v.X, sc)
		if k != "list" {
			f.p.die(e, "index of a value of kind %q", k)
		}
		i := f.intArg(v.Index, sc, "int", "toU64")
		return "idxD fzero " + l + " " + pvAtom(i), "elem"
	case *ast.BinaryExpr:
		switch v.Op {
		case token.LAND, token.LOR:
			a, ka := f.expr(v.X, sc)
			b, kb := f.expr(v.Y, sc)
			if ka != "bool" || kb != "bool" {
				f.p.die(e, "logical operator on %q, %q", ka, kb)
			}
			op := " ∧ "
			if v.Op == token.LOR {
				op = " ∨ "
			}
			return "(" + a + op + b + ")", "bool"
		case token.EQL, token.NEQ, token.LSS, token.LEQ, token.GTR, token.GEQ:
			a, ka := f.expr(v.X, sc)
			b, kb := f.expr(v.Y, sc)
			okKinds := ka == kb || (ka == "int" && kb == "code") || (ka == "code" && kb == "int")
			if !okKinds || (ka != "int" && ka != "code" && ka != "toU64" && ka != "err") {
				f.p.die(e, "comparison of %q with %q", ka, kb)
			}
			if ka == "err" && v.Op != token.EQL && v.Op != token.NEQ {
				f.p.die(e, "ordering of errors")
			}
			op := map[token.Token]string{token.EQL: "=", token.NEQ: "≠", token.LSS: "<", token.LEQ: "≤", token.GTR: ">", token.GEQ: "≥"}[v.Op]
			return "(" + a + " " + op + " " + b + ")", "bool"
		case token.ADD, token.SUB, token.MUL:
			a := f.intArg(v.X, sc, "int")
			b := f.intArg(v.Y, sc, "int")
			return "(" + a + " " + v.Op.String() + " " + b + ")", "int"
		case token.QUO:
			return "(Int.tdiv " + pvAtom(f.intArg(v.X, sc, "int")) + " " + pvAtom(f.intArg(v.Y, sc, "int")) + ")", "int"
		case token.REM:
			return "(Int.tmod " + pvAtom(f.intArg(v.X, sc, "int")) + " " + pvAtom(f.intArg(v.Y, sc, "int")) + ")", "int"
		case token.SHR:
			return "(shrU64 " + pvAtom(f.intArg(v.X, sc, "toU64")) + " " + pvAtom(f.intArg(v.Y, sc, "toU64")) + ")", "toU64"
		}
		f.p.die(e, "binary operator %s", v.Op)
	case *ast.CallExpr:
		return f.call(v, sc)
	}
	f.p.die(e, "expression %T outside the subset", e)
	return "", ""
}

func pvAtom(s string) string {
	if strings.ContainsAny(s, " ") && !(strings.HasPrefix(s, "(") && pvBalanced(s)) {
		return "(" + s + ")"
	}
	return s
}

// the outer parentheses of s match each other
func pvBalanced(s string) bool {
	d := 0
	for i, c := range s {
		if c == '(' {
			d++
		} else if c == ')' {
			d--
			if d == 0 && i != len(s)-1 {
				return false
			}
		}
	}
	return d == 0
}

func (f *pvFn) call(c *ast.CallExpr, sc *pvScope) (string, string) {
	fun := exprText(c.Fun)
	switch fun {
	case "uint64", "uint":
		if len(c.Args) == 1 {
			return "(toU64 " + pvAtom(f.intArg(c.Args[0], sc, "int", "toU64")) + ")", "toU64"
		}
	case "int64":
		if len(c.Args) == 1 {
			return f.intArg(c.Args[0], sc, "int"), "int"
		}
	case "bits.TrailingZeros":
		if len(c.Args) == 1 {
			return "(tz " + pvAtom(f.intArg(c.Args[0], sc, "toU64")) + ")", "int"
		}
	case "bits.Reverse64":
		if len(c.Args) == 1 {
			return "(rev64 " + pvAtom(f.intArg(c.Args[0], sc, "toU64")) + ")", "toU64"
		}
	case "len":
		if len(c.Args) == 1 {
			t, k := f.expr(c.Args[0], sc)
			if k == "list" {
				return "(len " + pvAtom(t) + ")", "int"
			}
		}
	case "make":
		if at, ok := c.Args[0].(*ast.ArrayType); ok && len(c.Args) == 2 && at.Len == nil && exprText(at.Elt) == "fr.Element" {
			return "(List.replicate (Int.toNat " + pvAtom(f.intArg(c.Args[1], sc, "int")) + ") fzero)", "list"
		}
	case "fr.BatchInvert":
		if len(c.Args) == 1 {
			t, k := f.expr(c.Args[0], sc)
			if k == "list" {
				return "(batchInvert " + pvAtom(t) + ")", "list"
			}
		}
	}
	if id, ok := c.Fun.(*ast.Ident); ok {
		if fd, ok := f.p.funcs[id.Name]; ok && fd.Recv == nil {
			f.p.translate(id.Name)
			kinds := f.p.paramKinds(fd)
			if len(kinds) != len(c.Args) {
				f.p.die(c, "arity of %s", id.Name)
			}
			var args []string
			for i, a := range c.Args {
				t, k := f.expr(a, sc)
				if k != kinds[i].kind {
					f.p.die(a, "argument of kind %q, expected %q", k, kinds[i].kind)
				}
				args = append(args, pvAtom(t))
			}
			return "(" + id.Name + pvArgs + " " + strings.Join(args, " ") + ")", "elem"
		}
	}
	if sel, ok := c.Fun.(*ast.SelectorExpr); ok {
		switch sel.Sel.Name {
		case "Len":
			if t, k := f.expr(sel.X, sc); k == "list" && len(c.Args) == 0 {
				f.p.checkVectorLen()
				return "(len " + pvAtom(t) + ")", "int"
			}
		case "IsZero":
			if t, k := f.expr(sel.X, sc); k == "elem" && len(c.Args) == 0 {
				return "(fisZero " + pvAtom(t) + ")", "bool"
			}
		default:
			if t, k := f.expr(sel.X, sc); k == "polynomial" {
				key := "polynomial." + sel.Sel.Name
				if fd, ok := f.p.funcs[key]; ok {
					f.p.translate(key)
					kinds := f.p.paramKinds(fd)
					if len(kinds) != len(c.Args) {
						f.p.die(c, "arity of %s", key)
					}
					var args []string
					for i, a := range c.Args {
						at, ak := f.expr(a, sc)
						if ak != kinds[i].kind {
							f.p.die(a, "argument of kind %q, expected %q", ak, kinds[i].kind)
						}
						args = append(args, pvAtom(at))
					}
					return "(" + sel.Sel.Name + pvArgs + " " + pvAtom(t) + " " + strings.Join(args, " ") + ")", "elem"
				}
			}
		}
	}
	f.p.die(c, "call of %s outside the subset", fun)
	return "", ""
}

// ---- element method chains ----

// chain flattens `recv.M1(..).M2(..)` into its receiver expression and the method calls in execution order
func (f *pvFn) chain(e ast.Expr) (ast.Expr, []*ast.CallExpr) {
	c, ok := e.(*ast.CallExpr)
	if !ok {
		return e, nil
	}
	sel, ok := c.Fun.(*ast.SelectorExpr)
	if !ok {
		return e, nil
	}
	base, calls := f.chain(sel.X)
	return base, append(calls, c)
}

// methodValue: the new value of the receiver (whose current value is `cur`)
func (f *pvFn) methodValue(c *ast.CallExpr, cur string, sc *pvScope) string {
	m := c.Fun.(*ast.SelectorExpr).Sel.Name
	arg := func(i int) string {
		t, k := f.expr(c.Args[i], sc)
		if k != "elem" {
			f.p.die(c.Args[i], "operand of kind %q, expected an element", k)
		}
		return pvAtom(t)
	}
	f.p.usedMethods[m] = true
	switch {
	case (m == "Add" || m == "Sub" || m == "Mul" || m == "Div") && len(c.Args) == 2:
		return "f" + strings.ToLower(m) + " " + arg(0) + " " + arg(1)
	case m == "Square" && len(c.Args) == 1:
		return "fsquare " + arg(0)
	case m == "Inverse" && len(c.Args) == 1:
		return "finv " + arg(0)
	case m == "SetOne" && len(c.Args) == 0:
		return "fone"
	case m == "SetUint64" && len(c.Args) == 1:
		return "fofU64 " + pvAtom(f.intArg(c.Args[0], sc, "toU64"))
	case m == "Exp" && len(c.Args) == 2:
		if _, isAddr := c.Args[0].(*ast.UnaryExpr); isAddr {
			f.p.die(c, "Exp takes its base by value")
		}
		b, ok := c.Args[1].(*ast.CallExpr)
		if !ok || exprText(b.Fun) != "big.NewInt" || len(b.Args) != 1 {
			f.p.die(c, "exponent of Exp is not big.NewInt(..)")
		}
		return "fexp " + arg(0) + " " + pvAtom(f.intArg(b.Args[0], sc, "int"))
	}
	f.p.die(c, "element method %s/%d outside the subset", m, len(c.Args))
	return ""
}

// chainStmt emits the lets of a chain statement and returns (text, receiver text)
func (f *pvFn) chainStmt(e ast.Expr, sc *pvScope, ind string) (string, string) {
	base, calls := f.chain(e)
	if len(calls) == 0 {
		f.p.die(e, "not a method chain")
	}
	var b strings.Builder
	switch r := base.(type) {
	case *ast.Ident:
		if sc.lookup(r.Name) != "elem" {
			f.p.die(e, "receiver %s is not an element variable", r.Name)
		}
		for _, c := range calls {
			fmt.Fprintf(&b, "%slet %s := %s\n", ind, r.Name, f.methodValue(c, r.Name, sc))
		}
		return b.String(), r.Name
	case *ast.IndexExpr:
		id, ok := r.X.(*ast.Ident)
		if !ok || sc.lookup(id.Name) != "list" || !f.made[id.Name] {
			f.p.die(e, "element write on a slice that is not a local created by make")
		}
		i := pvAtom(f.intArg(r.Index, sc, "int", "toU64"))
		for _, c := range calls {
			fmt.Fprintf(&b, "%slet %s := setAt %s %s (%s)\n", ind, id.Name, id.Name, i, f.methodValue(c, "idxD fzero "+id.Name+" "+i, sc))
		}
		return b.String(), "idxD fzero " + id.Name + " " + i
	}
	f.p.die(e, "receiver of a method chain outside the subset")
	return "", ""
}

// ---- statements ----

func pvHasExit(n ast.Node) bool {
	found := false
	ast.Inspect(n, func(x ast.Node) bool {
		switch v := x.(type) {
		case *ast.FuncLit:
			return false
		case *ast.ReturnStmt:
			found = true
		case *ast.CallExpr:
			if id, ok := v.Fun.(*ast.Ident); ok && id.Name == "panic" {
				found = true
			}
		}
		return true
	})
	return found
}

// assigned: variables of sc assigned somewhere in n (in the order of sc)
func (f *pvFn) assigned(n ast.Node, sc *pvScope) []pvField {
	set := map[string]bool{}
	mark := func(e ast.Expr) {
		switch v := e.(type) {
		case *ast.Ident:
			set[v.Name] = true
		case *ast.IndexExpr:
			if id, ok := v.X.(*ast.Ident); ok {
				set[id.Name] = true
			}
		}
	}
	ast.Inspect(n, func(x ast.Node) bool {
		switch v := x.(type) {
		case *ast.AssignStmt:
			for _, l := range v.Lhs {
				mark(l)
			}
		case *ast.IncDecStmt:
			mark(v.X)
		case *ast.ExprStmt:
			if base, calls := f.chain(v.X); len(calls) > 0 {
				mark(base)
			} else if c, ok := v.X.(*ast.CallExpr); ok {
				if id, ok := c.Fun.(*ast.Ident); ok {
					if cl, ok := f.closures[id.Name]; ok {
						for _, w := range cl.written {
							set[w.name] = true
						}
					}
				}
			}
		case *ast.ReturnStmt:
			for _, r := range v.Results {
				if st, ok := r.(*ast.StarExpr); ok {
					if base, calls := f.chain(st.X); len(calls) > 0 {
						mark(base)
					}
				}
			}
		}
		return true
	})
	var res []pvField
	for _, v := range sc.list() {
		if set[v.name] {
			res = append(res, v)
		}
	}
	return res
}

func (f *pvFn) used(n ast.Node, sc *pvScope, except []pvField) []pvField {
	set := map[string]bool{}
	ast.Inspect(n, func(x ast.Node) bool {
		if id, ok := x.(*ast.Ident); ok {
			set[id.Name] = true
			if cl, ok := f.closures[id.Name]; ok {
				for _, w := range cl.free {
					set[w.name] = true
				}
			}
		}
		return true
	})
	ex := map[string]bool{}
	for _, e := range except {
		ex[e.name] = true
	}
	var res []pvField
	for _, v := range sc.list() {
		if set[v.name] && !ex[v.name] {
			res = append(res, v)
		}
	}
	return res
}

func pvTuple(vs []pvField) string {
	var n []string
	for _, v := range vs {
		n = append(n, v.name)
	}
	if len(n) == 1 {
		return n[0]
	}
	return "(" + strings.Join(n, ", ") + ")"
}

func pvTupleTy(vs []pvField) string {
	var n []string
	for _, v := range vs {
		n = append(n, pvLeanTy(v.kind))
	}
	return strings.Join(n, " × ")
}

func (f *pvFn) seq(stmts []ast.Stmt, sc *pvScope, ind string, k func(sc *pvScope, ind string) string, ctx *pvCtx) string {
	if len(stmts) == 0 {
		return k(sc, ind)
	}
	s := stmts[0]
	rest := func(sc2 *pvScope) string { return f.seq(stmts[1:], sc2, ind, k, ctx) }
	switch v := s.(type) {
	case *ast.DeclStmt:
		gd, ok := v.Decl.(*ast.GenDecl)
		if !ok || gd.Tok != token.VAR || len(gd.Specs) != 1 {
			f.p.die(s, "declaration outside the subset")
		}
		vs := gd.Specs[0].(*ast.ValueSpec)
		if len(vs.Names) != 1 || len(vs.Values) != 0 || exprText(vs.Type) != "fr.Element" {
			f.p.die(s, "only `var x fr.Element`")
		}
		sc2 := f.declare(s, sc, vs.Names[0].Name, "elem")
		return fmt.Sprintf("%slet %s : F := fzero\n", ind, vs.Names[0].Name) + rest(sc2)
	case *ast.AssignStmt:
		return f.assign(v, sc, ind, rest)
	case *ast.ExprStmt:
		if c, ok := v.X.(*ast.CallExpr); ok {
			if id, ok := c.Fun.(*ast.Ident); ok {
				if id.Name == "panic" {
					return ind + ctx.panicV(s) + "\n"
				}
				if cl, ok := f.closures[id.Name]; ok && len(c.Args) == 0 {
					return fmt.Sprintf("%slet %s := %s%s%s\n", ind, pvTuple(cl.written), cl.def, pvArgs, pvArgNames(cl.free)) + rest(sc)
				}
			}
		}
		t, _ := f.chainStmt(v.X, sc, ind)
		return t + rest(sc)
	case *ast.ReturnStmt:
		if len(stmts) != 1 {
			f.p.die(s, "statements after return")
		}
		return ctx.ret(s, v.Results, sc, ind)
	case *ast.IfStmt:
		if v.Init != nil {
			f.p.die(s, "if with an init statement")
		}
		cond, ck := f.expr(v.Cond, sc)
		if ck != "bool" {
			f.p.die(v.Cond, "condition of kind %q", ck)
		}
		var elseStmts []ast.Stmt
		switch e := v.Else.(type) {
		case nil:
		case *ast.BlockStmt:
			elseStmts = e.List
		default:
			f.p.die(s, "else-if outside the subset")
		}
		if pvHasExit(v) { // tail form: the continuation is repeated in the branches that fall through
			kr := func(_ *pvScope, ind2 string) string { return f.seq(stmts[1:], sc, ind2, k, ctx) }
			return fmt.Sprintf("%sif %s then\n", ind, cond) + f.seq(v.Body.List, sc, ind+"  ", kr, ctx) + ind + "else\n" + f.seq(elseStmts, sc, ind, kr, ctx)
		}
		as := f.assigned(v, sc)
		if len(as) == 0 {
			f.p.die(s, "if statement without effect")
		}
		kt := func(_ *pvScope, ind2 string) string { return ind2 + pvTuple(as) + "\n" }
		return fmt.Sprintf("%slet %s :=\n%s  if %s then\n", ind, pvTuple(as), ind, cond) + f.seq(v.Body.List, sc, ind+"    ", kt, ctx) +
			ind + "  else\n" + f.seq(elseStmts, sc, ind+"    ", kt, ctx) + rest(sc)
	case *ast.ForStmt:
		return f.loop(v, sc, ind, rest, ctx)
	}
	f.p.die(s, "statement %T outside the subset", s)
	return ""
}

func pvArgNames(vs []pvField) string {
	var b strings.Builder
	for _, v := range vs {
		b.WriteString(" " + v.name)
	}
	return b.String()
}

func pvBinders(vs []pvField) string {
	var b strings.Builder
	for _, v := range vs {
		fmt.Fprintf(&b, " (%s : %s)", v.name, pvLeanTy(v.kind))
	}
	return b.String()
}

func (f *pvFn) assign(a *ast.AssignStmt, sc *pvScope, ind string, rest func(*pvScope) string) string {
	// closure definition
	if len(a.Lhs) == 1 && len(a.Rhs) == 1 && a.Tok == token.DEFINE {
		if fl, ok := a.Rhs[0].(*ast.FuncLit); ok {
			name := a.Lhs[0].(*ast.Ident).Name
			if len(fl.Type.Params.List) != 0 || fl.Type.Results != nil {
				f.p.die(a, "closure with parameters or results")
			}
			if sc.lookup(name) != "" || f.closures[name] != nil {
				f.p.die(a, "closure name %s shadows", name)
			}
			wr := f.assigned(fl.Body, sc)
			if len(wr) == 0 {
				f.p.die(a, "closure without effect")
			}
			for _, w := range wr {
				if w.kind != "elem" {
					f.p.die(a, "closure assigns the captured non-element variable %s", w.name)
				}
			}
			free := f.used(fl.Body, sc, nil)
			cl := &pvClosure{def: f.name + "." + name, written: wr, free: free}
			cctx := &pvCtx{
				ret: func(n ast.Node, rs []ast.Expr, _ *pvScope, ind2 string) string {
					if len(rs) != 0 {
						f.p.die(n, "closure returns a value")
					}
					return ind2 + pvTuple(wr) + "\n"
				},
				panicV: func(ast.Node) string {
					var ps []string
					for range wr {
						ps = append(ps, "panicked")
					}
					if len(ps) == 1 {
						return ps[0]
					}
					return "(" + strings.Join(ps, ", ") + ")"
				},
			}
			body := f.seq(fl.Body.List, sc, "  ", func(_ *pvScope, ind2 string) string { return ind2 + pvTuple(wr) + "\n" }, cctx)
			f.p.out = append(f.p.out, fmt.Sprintf("/-- closure `%s := func() { … }` of `%s`; result: the captured variables it assigns (%s) -/\ndef %s%s%s : %s :=\n%s",
				name, f.name, pvTuple(wr), cl.def, pvParams, pvBinders(free), pvTupleTy(wr), body))
			f.closures[name] = cl
			return rest(sc)
		}
	}
	// x, err := fft.Generator(uint64(e))
	if len(a.Lhs) == 2 && len(a.Rhs) == 1 && a.Tok == token.DEFINE {
		c, ok := a.Rhs[0].(*ast.CallExpr)
		if ok && exprText(c.Fun) == "fft.Generator" && len(c.Args) == 1 {
			x, e := a.Lhs[0].(*ast.Ident).Name, a.Lhs[1].(*ast.Ident).Name
			arg := pvAtom(f.intArg(c.Args[0], sc, "toU64"))
			sc2 := f.declare(a, f.declare(a, sc, x, "elem"), e, "err")
			return fmt.Sprintf("%slet (%s, %s) := generator %s\n", ind, x, e, arg) + rest(sc2)
		}
	}
	if len(a.Lhs) != 1 || len(a.Rhs) != 1 || (a.Tok != token.DEFINE && a.Tok != token.ASSIGN) {
		f.p.die(a, "assignment outside the subset")
	}
	id, ok := a.Lhs[0].(*ast.Ident)
	if !ok {
		f.p.die(a, "assignment to something that is not a variable")
	}
	t, k := f.expr(a.Rhs[0], sc)
	if k == "list" {
		c, isCall := a.Rhs[0].(*ast.CallExpr)
		fn := ""
		if isCall {
			fn = exprText(c.Fun)
		}
		if fn != "make" && fn != "fr.BatchInvert" {
			f.p.die(a, "a slice variable may only be bound to make(..) or fr.BatchInvert(..) (no aliasing)")
		}
		if a.Tok != token.DEFINE {
			f.p.die(a, "re-assignment of a slice variable")
		}
		if fn == "make" {
			f.made[id.Name] = true
		}
	}
	if a.Tok == token.DEFINE {
		sc2 := f.declare(a, sc, id.Name, k)
		return fmt.Sprintf("%slet %s : %s := %s\n", ind, id.Name, pvLeanTy(k), t) + rest(sc2)
	}
	if have := sc.lookup(id.Name); have != k || (k != "elem" && k != "int" && k != "toU64") {
		f.p.die(a, "assignment of kind %q to %s of kind %q", k, id.Name, have)
	}
	return fmt.Sprintf("%slet %s := %s\n", ind, id.Name, t) + rest(sc)
}

func (f *pvFn) loop(l *ast.ForStmt, sc *pvScope, ind string, rest func(*pvScope) string, ctx *pvCtx) string {
	init, ok := l.Init.(*ast.AssignStmt)
	if !ok || init.Tok != token.DEFINE || len(init.Lhs) != 1 || len(init.Rhs) != 1 {
		f.p.die(l, "loop init outside the subset")
	}
	iv := init.Lhs[0].(*ast.Ident).Name
	start := f.intArg(init.Rhs[0], sc, "int")
	scI := f.declare(l, sc, iv, "int")
	cond, ok := l.Cond.(*ast.BinaryExpr)
	post, ok2 := l.Post.(*ast.IncDecStmt)
	if !ok || !ok2 || exprText(cond.X) != iv || exprText(post.X) != iv {
		f.p.die(l, "loop header outside the subset")
	}
	as := f.assigned(l.Body, sc)
	for _, a := range f.assigned(l.Body, scI) {
		if a.name == iv {
			f.p.die(l, "the loop body assigns the loop variable")
		}
	}
	var fuel, step, condT string
	switch {
	case cond.Op == token.LSS && post.Tok == token.INC:
		b, isId := cond.Y.(*ast.Ident)
		if !isId || sc.lookup(b.Name) != "int" {
			f.p.die(l, "loop bound is not an int variable")
		}
		for _, a := range as {
			if a.name == b.Name {
				f.p.die(l, "the loop body assigns the loop bound")
			}
		}
		fuel, step, condT = fmt.Sprintf("(%s - %s).toNat", b.Name, iv), iv+" + 1", iv+" < "+b.Name
	case cond.Op == token.GEQ && post.Tok == token.DEC && exprText(cond.Y) == "0":
		fuel, step, condT = fmt.Sprintf("(%s + 1).toNat", iv), iv+" - 1", iv+" ≥ 0"
	default:
		f.p.die(l, "loop form outside the subset")
	}
	state := append(append([]pvField{}, as...), pvField{iv, "int"})
	hasRet := pvHasExit(l.Body)
	if hasRet && ctx.inLoop {
		f.p.die(l, "early exit from a nested loop")
	}
	free := f.used(l, scI, state)
	f.nloop++
	name := fmt.Sprintf("%s.loop%d", f.name, f.nloop)
	resTy := pvTupleTy(state)
	tup := func(flag string) string {
		var n []string
		for _, v := range state {
			n = append(n, v.name)
		}
		if hasRet {
			n = append(n, flag)
		}
		return "(" + strings.Join(n, ", ") + ")"
	}
	if hasRet {
		resTy += " × Bool"
	}
	var stTys, stNames []string
	for _, v := range state {
		stTys = append(stTys, pvLeanTy(v.kind))
		stNames = append(stNames, v.name)
	}
	call := name + pvArgs + pvArgNames(free)
	lctx := &pvCtx{inLoop: true,
		ret: func(n ast.Node, rs []ast.Expr, _ *pvScope, ind2 string) string {
			if len(rs) != 0 {
				f.p.die(n, "return of a value inside a loop")
			}
			return ind2 + tup("true") + "\n"
		},
		panicV: func(n ast.Node) string { f.p.die(n, "panic inside a loop"); return "" },
	}
	body := f.seq(l.Body.List, scI, "      ", func(_ *pvScope, ind2 string) string {
		return fmt.Sprintf("%slet %s := %s\n%s%s fuel_ %s\n", ind2, iv, step, ind2, call, strings.Join(stNames, " "))
	}, lctx)
	f.p.out = append(f.p.out, fmt.Sprintf("/-- loop %d of `%s`: `for %s; %s; %s { … }`; the first argument bounds the number of iterations%s -/\ndef %s%s%s : Nat → %s → %s\n  | 0, %s => %s\n  | fuel_ + 1, %s =>\n    if %s then\n%s    else\n      %s\n",
		f.nloop, f.name, pvSrc(f.p.fset, l.Init), pvSrc(f.p.fset, l.Cond), pvSrc(f.p.fset, l.Post), map[bool]string{true: "; the last component says that the body executed `return`", false: ""}[hasRet],
		name, pvParams, pvBinders(free), strings.Join(stTys, " → "), resTy, strings.Join(stNames, ", "), tup("false"), strings.Join(stNames, ", "), condT, body, tup("false")))
	t := fmt.Sprintf("%slet %s : Int := %s\n%slet %s := %s %s %s\n", ind, iv, start, ind, tup("ret_"), call, fuel, strings.Join(stNames, " "))
	if hasRet {
		return t + ind + "if ret_ = true then\n" + ctx.ret(l, nil, sc, ind+"  ") + ind + "else\n" + rest(sc)
	}
	return t + rest(sc)
}

func pvSrc(fset *token.FileSet, n ast.Node) string {
	switch v := n.(type) {
	case *ast.AssignStmt:
		return exprText(v.Lhs[0]) + " " + v.Tok.String() + " " + pvExprSrc(v.Rhs[0])
	case *ast.IncDecStmt:
		return exprText(v.X) + v.Tok.String()
	case ast.Expr:
		return pvExprSrc(v)
	}
	return "…"
}

func pvExprSrc(e ast.Expr) string {
	switch v := e.(type) {
	case *ast.BinaryExpr:
		return pvExprSrc(v.X) + " " + v.Op.String() + " " + pvExprSrc(v.Y)
	case *ast.BasicLit:
		return v.Value
	case *ast.CallExpr:
		return exprText(v.Fun) + "(…)"
	}
	return exprText(e)
}

// ---- functions ----

func (p *pvPkg) kindOfType(e ast.Expr) string {
	switch exprText(e) {
	case "int":
		return "int"
	case "fr.Element":
		return "elem"
	}
	p.die(e, "parameter / result type outside the subset")
	return ""
}

func (p *pvPkg) paramKinds(fd *ast.FuncDecl) []pvField {
	var res []pvField
	for _, fl := range fd.Type.Params.List {
		for _, n := range fl.Names {
			res = append(res, pvField{n.Name, p.kindOfType(fl.Type)})
		}
	}
	return res
}

func (p *pvPkg) translate(key string) {
	if p.done[key] {
		return
	}
	p.done[key] = true
	fd, ok := p.funcs[key]
	if !ok {
		die("imp/polyeval %s: function %s not found", p.curve, key)
	}
	name := fd.Name.Name
	f := &pvFn{p: p, name: name, closures: map[string]*pvClosure{}, made: map[string]bool{}}
	var sc *pvScope
	var binders []pvField
	if fd.Recv != nil {
		st, ok := fd.Recv.List[0].Type.(*ast.StarExpr)
		if !ok || len(fd.Recv.List[0].Names) != 1 {
			p.die(fd, "receiver outside the subset")
		}
		rk := exprText(st.X)
		if _, ok := p.structs[rk]; !ok {
			p.die(fd, "receiver type %s", rk)
		}
		// the receiver is only read: no assignment through it (checked by `assign`: the left-hand side must be a variable, and a method-chain
		// receiver must be an element variable or an element of a make-local)
		sc = f.declare(fd, sc, fd.Recv.List[0].Names[0].Name, rk)
		binders = append(binders, pvField{fd.Recv.List[0].Names[0].Name, rk})
	}
	for _, pk := range p.paramKinds(fd) {
		sc = f.declare(fd, sc, pk.name, pk.kind)
		binders = append(binders, pk)
	}
	if fd.Type.Results == nil || len(fd.Type.Results.List) != 1 || len(fd.Type.Results.List[0].Names) != 0 || p.kindOfType(fd.Type.Results.List[0].Type) != "elem" {
		p.die(fd, "result type outside the subset")
	}
	ctx := &pvCtx{
		ret: func(n ast.Node, rs []ast.Expr, sc2 *pvScope, ind string) string {
			if len(rs) != 1 {
				p.die(n, "return without a value")
			}
			if st, ok := rs[0].(*ast.StarExpr); ok { // `return *x.Square(&x)`
				if _, calls := f.chain(st.X); len(calls) > 0 {
					t, recv := f.chainStmt(st.X, sc2, ind)
					return t + ind + recv + "\n"
				}
			}
			t, k := f.expr(rs[0], sc2)
			if k != "elem" {
				p.die(n, "return of kind %q", k)
			}
			return ind + t + "\n"
		},
		panicV: func(ast.Node) string { return "panicked" },
	}
	body := f.seq(fd.Body.List, sc, "  ", func(_ *pvScope, _ string) string { p.die(fd, "control reaches the end of the function"); return "" }, ctx)
	recv := ""
	if fd.Recv != nil {
		recv = "(*" + binders[0].kind + ")."
	}
	p.out = append(p.out, fmt.Sprintf("/-- `func %s%s` -/\ndef %s%s%s : F :=\n%s", recv, name, name, pvParams, pvBinders(binders), body))
}

// ---- package loading ----

func (p *pvPkg) checkVectorLen() {
	if p.done["#Len"] {
		return
	}
	p.done["#Len"] = true
	path := filepath.Join(repo, "ecc", p.curve, "fr", "vector.go")
	af, err := parser.ParseFile(p.fset, path, nil, 0)
	if err != nil {
		die("imp/polyeval: parse %s: %v", path, err)
	}
	for _, d := range af.Decls {
		fd, ok := d.(*ast.FuncDecl)
		if !ok || fd.Recv == nil || fd.Name.Name != "Len" || exprText(fd.Recv.List[0].Type) != "Vector" {
			continue
		}
		if len(fd.Body.List) == 1 {
			if r, ok := fd.Body.List[0].(*ast.ReturnStmt); ok && len(r.Results) == 1 {
				if c, ok := r.Results[0].(*ast.CallExpr); ok && exprText(c.Fun) == "len" && len(c.Args) == 1 && exprText(c.Args[0]) == fd.Recv.List[0].Names[0].Name {
					return
				}
			}
		}
		p.die(fd, "(Vector).Len is not `return len(vector)`")
	}
	die("imp/polyeval %s: (Vector).Len not found", p.curve)
}

// every declaration WITH A BODY of every element method used must have a pointer receiver and only return it
func (p *pvPkg) checkReturnsReceiver() {
	files, _ := filepath.Glob(filepath.Join(repo, "ecc", p.curve, "fr", "*.go"))
	checked := map[string]bool{}
	var work []string
	for m := range p.usedMethods {
		work = append(work, m)
	}
	for len(work) > 0 {
		m := work[0]
		work = work[1:]
		if checked[m] {
			continue
		}
		checked[m] = true
		found := 0
		for _, fn := range files {
			if strings.HasSuffix(fn, "_test.go") {
				continue
			}
			af, err := parser.ParseFile(p.fset, fn, nil, 0)
			if err != nil {
				die("imp/polyeval: parse: %v", err)
			}
			for _, d := range af.Decls {
				fd, ok := d.(*ast.FuncDecl)
				if !ok || fd.Recv == nil || fd.Name.Name != m || fd.Body == nil || len(fd.Recv.List) != 1 {
					continue
				}
				st, ok := fd.Recv.List[0].Type.(*ast.StarExpr)
				if !ok || exprText(st.X) != "Element" || len(fd.Recv.List[0].Names) != 1 {
					continue
				}
				rn := fd.Recv.List[0].Names[0].Name
				found++
				nret := 0
				ast.Inspect(fd.Body, func(n ast.Node) bool {
					if _, isLit := n.(*ast.FuncLit); isLit {
						return false
					}
					if r, ok := n.(*ast.ReturnStmt); ok {
						nret++
						if len(r.Results) == 1 { // `return z.SetOne()`: the receiver again when SetOne returns its receiver (checked in turn)
							if c, ok := r.Results[0].(*ast.CallExpr); ok {
								if sel, ok := c.Fun.(*ast.SelectorExpr); ok && exprText(sel.X) == rn {
									work = append(work, sel.Sel.Name)
									return true
								}
							}
						}
						if len(r.Results) != 1 || exprText(r.Results[0]) != rn {
							p.die(r, "method Element.%s does not return its receiver", m)
						}
					}
					return true
				})
				if nret == 0 {
					p.die(fd, "method Element.%s has no return", m)
				}
			}
		}
		if found == 0 {
			die("imp/polyeval %s: no declaration with a body of method Element.%s", p.curve, m)
		}
	}
}

func loadPolyEval(curve string) *pvPkg {
	p := &pvPkg{curve: curve, dir: filepath.Join("ecc", curve, "fr", "iop"), fset: token.NewFileSet(), funcs: map[string]*ast.FuncDecl{},
		structs: map[string][]pvField{}, consts: map[string]int64{}, usedMethods: map[string]bool{}, done: map[string]bool{}}
	structDecl := map[string]*ast.StructType{}
	typeOf := map[string]string{}
	for _, fn := range []string{"polynomial.go", "utils.go"} {
		path := filepath.Join(repo, p.dir, fn)
		af, err := parser.ParseFile(p.fset, path, nil, 0)
		if err != nil {
			die("imp/polyeval: parse %s: %v", path, err)
		}
		for _, d := range af.Decls {
			switch v := d.(type) {
			case *ast.FuncDecl:
				key := v.Name.Name
				if v.Recv != nil {
					key = strings.TrimPrefix(exprText(v.Recv.List[0].Type), "*") + "." + key
					if st, ok := v.Recv.List[0].Type.(*ast.StarExpr); ok {
						key = exprText(st.X) + "." + v.Name.Name
					}
				}
				p.funcs[key] = v
			case *ast.GenDecl:
				if v.Tok == token.TYPE {
					for _, s := range v.Specs {
						ts := s.(*ast.TypeSpec)
						if st, ok := ts.Type.(*ast.StructType); ok {
							structDecl[ts.Name.Name] = st
						} else {
							typeOf[ts.Name.Name] = exprText(ts.Type)
						}
					}
				}
				if v.Tok == token.CONST {
					p.constBlock(v, typeOf)
				}
			}
		}
	}
	form, ok := structDecl["Form"]
	if !ok {
		die("imp/polyeval %s: type Form not found", curve)
	}
	var formFields []pvField
	for _, fl := range form.Fields.List {
		ty := exprText(fl.Type)
		if (ty != "Basis" && ty != "Layout") || typeOf[ty] != "uint32" || len(fl.Names) != 1 {
			p.die(fl, "field of Form outside the subset")
		}
		formFields = append(formFields, pvField{fl.Names[0].Name, "code"})
	}
	for _, sn := range []string{"polynomial", "Polynomial"} {
		st, ok := structDecl[sn]
		if !ok {
			die("imp/polyeval %s: type %s not found", curve, sn)
		}
		var fs []pvField
		for _, fl := range st.Fields.List {
			ty := exprText(fl.Type)
			if _, isStar := fl.Type.(*ast.StarExpr); isStar {
				ty = "*" + exprText(fl.Type.(*ast.StarExpr).X)
			}
			switch {
			case len(fl.Names) == 0 && ty == "Form":
				fs = append(fs, formFields...)
			case len(fl.Names) == 0 && ty == "*polynomial" && sn == "Polynomial":
				fs = append(fs, pvField{"polynomial", "polynomial"})
			case len(fl.Names) >= 1 && ty == "int":
				for _, n := range fl.Names {
					fs = append(fs, pvField{n.Name, "int"})
				}
			case len(fl.Names) == 1 && ty == "fr.Element":
				fs = append(fs, pvField{fl.Names[0].Name, "elem"})
			case len(fl.Names) == 1 && ty == "*fr.Vector":
				fs = append(fs, pvField{fl.Names[0].Name, "list"})
			default:
				p.die(fl, "field of %s outside the subset (%s)", sn, ty)
			}
		}
		p.structs[sn] = fs
	}
	return p
}

// const blocks `X T = c << iota` followed by implicit repetitions
func (p *pvPkg) constBlock(gd *ast.GenDecl, typeOf map[string]string) {
	var base int64 = -1
	for i, s := range gd.Specs {
		vs := s.(*ast.ValueSpec)
		if len(vs.Names) != 1 {
			return
		}
		if i == 0 {
			ty := exprText(vs.Type)
			if ty != "Basis" && ty != "Layout" {
				return
			}
			be, ok := vs.Values[0].(*ast.BinaryExpr)
			if len(vs.Values) != 1 || !ok || be.Op != token.SHL || exprText(be.Y) != "iota" {
				p.die(vs, "const block of %s is not `c << iota`", ty)
			}
			lit, ok := be.X.(*ast.BasicLit)
			if !ok {
				p.die(vs, "const block of %s is not `c << iota`", ty)
			}
			base, _ = strconv.ParseInt(lit.Value, 0, 64)
		} else if len(vs.Values) != 0 || vs.Type != nil {
			p.die(vs, "const block: explicit value after the first line")
		}
		p.consts[vs.Names[0].Name] = base << uint(i)
		p.constOrd = append(p.constOrd, vs.Names[0].Name)
	}
}

var polyEvalFuncs = []string{"smallExp", "polynomial.evaluate", "Polynomial.Evaluate", "Polynomial.GetCoeff"}

func (p *pvPkg) text() string {
	for _, fn := range polyEvalFuncs {
		p.translate(fn)
	}
	p.checkReturnsReceiver()
	var b strings.Builder
	for _, c := range p.constOrd {
		fmt.Fprintf(&b, "/-- const `%s` (iota evaluated) -/\n@[reducible] def %s : Int := %d\n", c, c, p.consts[c])
	}
	b.WriteString("\n")
	for _, sn := range []string{"polynomial", "Polynomial"} {
		fmt.Fprintf(&b, "/-- `type %s struct` (embedded Form flattened) -/\nstructure %s (F : Type) where\n", sn, sn)
		for _, fl := range p.structs[sn] {
			fmt.Fprintf(&b, "  %s : %s\n", fl.name, strings.Trim(pvLeanTy(fl.kind), "()"))
		}
		b.WriteString("\n")
	}
	b.WriteString(strings.Join(p.out, "\n"))
	return b.String()
}

func runPolyEval() {
	outName := "Imp/PolyEval.lean"
	dieHook = func() { os.Remove(filepath.Join(outDir, outName)) }
	var ref string
	var dirs []string
	for i, c := range groupCurves {
		p := loadPolyEval(c)
		t := p.text()
		dirs = append(dirs, p.dir)
		if i == 0 {
			ref = t
		} else if t != ref {
			die("imp/polyeval: the translation of %s differs from the one of %s (the 7 iop packages must translate to the same text)", p.dir, dirs[0])
		}
	}
	var b strings.Builder
	b.WriteString("/- GENERATED by tools/goslp (imp_poly.go) on every run. DO NOT EDIT.\n")
	fmt.Fprintf(&b, "   Statement-by-statement translation of Evaluate / evaluate / GetCoeff (polynomial.go) and exp0..exp5 / smallExp (utils.go) of\n   /repo/{%s}; the translator checked that the 7 packages give this same text.\n", strings.Join(dirs, ", "))
	b.WriteString("   Vocabulary: Model/GoImp.lean, Model/GoImpSlice.lean; parameters and checked side conditions: header of tools/goslp/imp_poly.go. -/\n")
	b.WriteString("import GnarkVerif.Model.GoImpSlice\n\nset_option linter.unusedVariables false\n\nnamespace GV.Gen.Imp.PolyEval\nopen GV.GoImp\n\n")
	b.WriteString(ref)
	b.WriteString("\nend GV.Gen.Imp.PolyEval\n")
	writeFile(outName, b.String())
	dieHook = nil
}
