// Part 3 of gvgoslp: extended mode of the straight-line translator (slp.go) for
//   - the hash-to-curve maps (ecc/<curve>/hash_to_g1.go + ecc/<curve>/hash_to_curve/g1.go) -> Gen/H2C/<Pkg>.lean   (C13)
//   - the pieces of the algebraic hashes (Poseidon2 layers, MiMC encrypt)                    -> Gen/Hash/<Pkg>.lean  (C14)
//   - (slpfft.go, built on this mode) FFT kernels and small complete transforms of the fft packages -> Gen/FFT/<Pkg>.lean   (C10)
//
// Additional Go subset and its semantics (trusted, like slp.go):
//   - values known at translation time: int variables / constants / `len` of fixed-length data, bool parameters, big.Int locals
//     (SetBytes of a byte literal, Lsh(big.NewInt(k), n), Rsh(&x, n)). `if` / `switch` / `for` over such values are decided by the
//     translator: only the taken branch exists, loops are unrolled (the loop variable may index arrays); `panic` must be unreachable.
//   - a slice `[]Element` whose length is fixed by the call site (literal table, make([]Element, n), buffer of the specialised
//     width) is an array of that length passed by reference; functions with slice / bool / int parameters are SPECIALISED per
//     call site (suffix _n12, _true, _3 of the def name), methods of `*Permutation` per width (suffix _t16).
//   - run-time flags: Go `uint64` -> Lean `Nat` with `|` `^` `&` `% k`, Go `int` -> Lean `Int` with `>> k`, `|`, unary `^`
//     (GV.GoInt, Model/GoInt.lean). `int(u)` is only accepted as the condition of `Select`, which tests `c == 0`
//     (and `int(u) == 0` iff `u == 0` for every uint64).
//   - base-field primitives that are not straight-line code are PARAMETERS of the generated def (nothing is assumed about them;
//     their specifications are hypotheses of the theorems):
//     legendre : F → Int        z.Legendre()
//     sqrt     : F → Option F   z.Sqrt(x): z := r when sqrt x = some r, z unchanged (and nil returned) otherwise
//     toNat    : F → Nat        canonical representative; z.Bits()[i] = toNat z / 2^(64 i) % 2^64
//     notEqual : F → F → Nat    z.NotEqual(x) (an OR of limb differences: some value that is 0 iff z = x)
//     limbOr   : F → Nat        x[0] | x[1] | ... | x[Limbs-1], the OR of ALL limbs of the Montgomery form (G1NotZero); the
//     translator checks that every limb occurs exactly once and rejects any other limb access
//     and: z.Select(c, x0, x1) = if c = 0 then x0 else x1;  z.Exp(x, k) = x ^ k for a big.Int k known at translation time;
//     fp.BatchInvert(a) = element-wise inverse with 0⁻¹ = 0; z.Mul2ExpNegN(x, n) = x · (2^n)⁻¹.
//   - `h.params.Width` is the specialised width, `h.params.RoundKeys[round]` a parameter `roundKey`; in the stand-alone translation of
//     a layer it has Width elements (the rows of the full rounds); under `Permutation` (slpperm.go) its length is the length initRC
//     gives to that row (1 in the partial rounds, def suffix _k1); `len(input) = Width` as Permutation() checks on entry.
package main

import (
	"encoding/json"
	"fmt"
	"go/ast"
	"go/token"
	"math/big"
	"os"
	"path/filepath"
	"regexp"
	"sort"
	"strings"
)

var natT = &typ{prim: "Nat"}
var intT = &typ{prim: "Int"}
var limbsT = &typ{prim: "Nat", limbs: true}

var primOrder = []string{"legendre", "sqrt", "toNat", "notEqual", "limbOr"}
var primType = map[string]string{"legendre": "F → Int", "sqrt": "F → Option F", "toNat": "F → Nat", "notEqual": "F → F → Nat", "limbOr": "F → Nat"}

var leanIdentRe = regexp.MustCompile(`^[A-Za-z_][A-Za-z0-9_]*$`)

func isLeanIdent(s string) bool { return leanIdentRe.MatchString(s) }

// ---------------------------------------------------------------- specialisation

type spec struct {
	top    string // fft mode (slpffttop.go): name suffix of a top-level target (FFT / FFTInverse / BitReverse)
	coset  bool   // ... the option record: OnCoset given or not (nbTasks is always 1)
	pre    bool   // ... domain.withPrecompute
	card   int64  // ... domain.Cardinality
	width  int
	rounds bool // slpperm.go: NbFullRounds / NbPartialRounds are the translation-time constants rf / rp
	rf, rp int
	rowLen int // slpperm.go: length of the round-key row `RoundKeys[round]` when it differs from the width (0 = width)
	ints   map[int]int64
	opaque map[int]bool
	bools  map[int]bool
	arrs   map[int]*typ
}

func newSpec() *spec {
	return &spec{ints: map[int]int64{}, opaque: map[int]bool{}, bools: map[int]bool{}, arrs: map[int]*typ{}}
}

func (sp *spec) suffix(f *fn) string {
	if sp == nil {
		return ""
	}
	if sp.top != "" {
		return sp.top
	}
	var parts []string
	for i, q := range f.pos {
		switch {
		case q.spec && sp.width > 0:
			parts = append(parts, fmt.Sprintf("t%d", sp.width))
			if sp.rounds {
				parts = append(parts, fmt.Sprintf("rf%d", sp.rf), fmt.Sprintf("rp%d", sp.rp))
			}
			if sp.rowLen > 0 {
				parts = append(parts, fmt.Sprintf("k%d", sp.rowLen))
			}
		case q.isBool:
			parts = append(parts, fmt.Sprint(sp.bools[i]))
		case q.isInt:
			if n, ok := sp.ints[i]; ok && n < 0 {
				parts = append(parts, fmt.Sprintf("m%d", -n)) // a Lean identifier cannot contain '-'
			} else if ok {
				parts = append(parts, fmt.Sprint(n))
			}
		case q.jag:
			if t := sp.arrs[i]; t != nil {
				parts = append(parts, strings.ToLower(t.name))
			}
		case q.slice:
			if t := sp.arrs[i]; t != nil {
				parts = append(parts, fmt.Sprintf("n%d", len(t.fields)))
			}
		}
	}
	if len(parts) == 0 {
		return ""
	}
	return "_" + strings.Join(parts, "_")
}

func (v *variant) primList() []string {
	var out []string
	for _, k := range primOrder {
		if v.prims[k] {
			out = append(out, k)
		}
	}
	return out
}

// ---------------------------------------------------------------- declarations

func (p *pkgCtx) scanConsts(d *ast.GenDecl) {
	if p.cfg.ext == "fft" {
		p.scanIota(d)
	}
	for _, sp := range d.Specs {
		vs := sp.(*ast.ValueSpec)
		for i, nm := range vs.Names {
			if i < len(vs.Values) {
				if n := litInt(vs.Values[i]); n != nil && n.IsInt64() {
					p.iconsts[nm.Name] = n.Int64()
				}
			}
		}
	}
}

func primOf(e ast.Expr) *typ {
	if id, ok := e.(*ast.Ident); ok {
		switch id.Name {
		case "uint64":
			return natT
		case "int":
			return intT
		}
	}
	return nil
}

// results of a function in extended mode: a flag (uint64 / int) or several field-like values (possibly named)
func (p *pkgCtx) extResults(f *ast.File, inBase bool, fnv *fn, r *ast.FieldList) bool {
	var types []ast.Expr
	var names []string
	for _, fl := range r.List {
		if len(fl.Names) == 0 {
			types = append(types, fl.Type)
		}
		for _, nm := range fl.Names {
			types = append(types, fl.Type)
			names = append(names, nm.Name)
		}
	}
	if len(types) == 1 {
		if t := primOf(types[0]); t != nil && len(names) == 0 {
			fnv.kind, fnv.ret = kFlag, t
			return true
		}
		return false
	}
	var rets []*typ
	for _, te := range types {
		t, ptr, _ := p.typeOf(f, inBase, te)
		if t == nil || ptr {
			return false
		}
		rets = append(rets, t)
	}
	if len(names) != 0 && len(names) != len(types) {
		return false
	}
	fnv.kind, fnv.rets, fnv.resNames = kMulti, rets, names
	return true
}

func (x *tr) extNamedResults(s *state) {
	for i, n := range x.v.f.resNames {
		if n != "_" {
			x.newRoot(s, n, zeroVal(x.v.f.rets[i]))
		}
	}
}

// ---------------------------------------------------------------- values known at translation time

// try runs f and reports whether it completed without leaving the subset
func try(f func()) (ok bool) {
	defer func() {
		if r := recover(); r != nil {
			if _, is := r.(slpErr); !is {
				panic(r)
			}
			ok = false
		}
	}()
	f()
	return true
}

func (x *tr) specRecvName() string {
	if len(x.v.f.pos) > 0 && x.v.f.pos[0] != nil && x.v.f.pos[0].spec {
		return x.v.f.pos[0].name
	}
	return ""
}

func (x *tr) isRoundKeys(e ast.Expr) bool {
	h := x.specRecvName()
	return h != "" && exprStr(e) == h+".params.RoundKeys"
}

func (x *tr) evalInt(s *state, e ast.Expr) (int64, bool) {
	if x.p.cfg.ext == "fft" {
		if n, ok := x.topEvalInt(s, e); ok {
			return n, true
		}
	}
	switch e := e.(type) {
	case *ast.BasicLit:
		if n := litInt(e); n != nil && n.IsInt64() {
			return n.Int64(), true
		}
	case *ast.ParenExpr:
		return x.evalInt(s, e.X)
	case *ast.Ident:
		if n, ok := s.sints[e.Name]; ok {
			return n, true
		}
		if x.p.cfg.ext == "fft" && e.Name == "nil" {
			return 0, true // only ever compared with a channel parameter, which is statically nil (= 0)
		}
		_, isCell := s.cells[e.Name]
		_, isPtr := s.ptrs[e.Name]
		if n, ok := x.p.iconsts[e.Name]; ok && !isCell && !isPtr {
			return n, true
		}
	case *ast.UnaryExpr:
		if e.Op == token.SUB {
			n, ok := x.evalInt(s, e.X)
			return -n, ok
		}
	case *ast.BinaryExpr:
		a, ok1 := x.evalInt(s, e.X)
		b, ok2 := x.evalInt(s, e.Y)
		if !ok1 || !ok2 {
			return 0, false
		}
		switch e.Op {
		case token.ADD:
			return a + b, true
		case token.SUB:
			return a - b, true
		case token.MUL:
			return a * b, true
		case token.QUO:
			if b != 0 {
				return a / b, true
			}
		case token.REM:
			if b != 0 {
				return a % b, true
			}
		case token.SHL, token.SHR:
			if x.p.cfg.ext == "fft" && b >= 0 && b < 62 && a >= 0 && a < 1<<31 {
				if e.Op == token.SHL {
					return a << uint(b), true
				}
				return a >> uint(b), true
			}
		}
	case *ast.SelectorExpr:
		if h := x.specRecvName(); h != "" && x.v.spec != nil && x.v.spec.width > 0 && exprStr(e) == h+".params.Width" {
			return int64(x.v.spec.width), true
		}
		if h := x.specRecvName(); h != "" && x.v.spec != nil && x.v.spec.rounds {
			switch exprStr(e) {
			case h + ".params.NbFullRounds":
				return int64(x.v.spec.rf), true
			case h + ".params.NbPartialRounds":
				return int64(x.v.spec.rp), true
			}
		}
	case *ast.CallExpr:
		if id, ok := e.Fun.(*ast.Ident); ok && id.Name == "len" && len(e.Args) == 1 && s.cells["len"] == nil {
			if ix, ok := e.Args[0].(*ast.IndexExpr); ok && x.isRoundKeys(ix.X) && x.v.spec != nil && x.v.spec.width > 0 {
				if x.v.spec.rowLen > 0 {
					return int64(x.v.spec.rowLen), true
				}
				return int64(x.v.spec.width), true
			}
			n := int64(-1)
			if try(func() {
				l := x.evalLoc(s, e.Args[0])
				if t := x.typeAt(s, l); t.arr {
					n = int64(len(t.fields))
				}
			}) && n >= 0 {
				return n, true
			}
		}
	}
	return 0, false
}

func (x *tr) staticCond(s *state, e ast.Expr) (bool, bool) {
	switch e := e.(type) {
	case *ast.SelectorExpr:
		if b, ok := s.sbools[exprStr(e)]; ok && x.p.cfg.ext == "fft" {
			return b, true
		}
		if b, ok := x.fastFlag(e); ok {
			return b, true
		}
	case *ast.ParenExpr:
		return x.staticCond(s, e.X)
	case *ast.Ident:
		if e.Name == "true" || e.Name == "false" {
			return e.Name == "true", true
		}
		if b, ok := s.sbools[e.Name]; ok {
			return b, true
		}
	case *ast.UnaryExpr:
		if e.Op == token.NOT {
			b, ok := x.staticCond(s, e.X)
			return !b, ok
		}
	case *ast.BinaryExpr:
		switch e.Op {
		case token.LAND, token.LOR:
			a, ok1 := x.staticCond(s, e.X)
			b, ok2 := x.staticCond(s, e.Y)
			if ok1 && ok2 {
				if e.Op == token.LAND {
					return a && b, true
				}
				return a || b, true
			}
		case token.EQL, token.NEQ, token.LSS, token.LEQ, token.GTR, token.GEQ:
			a, ok1 := x.evalInt(s, e.X)
			b, ok2 := x.evalInt(s, e.Y)
			if ok1 && ok2 {
				switch e.Op {
				case token.EQL:
					return a == b, true
				case token.NEQ:
					return a != b, true
				case token.LSS:
					return a < b, true
				case token.LEQ:
					return a <= b, true
				case token.GTR:
					return a > b, true
				case token.GEQ:
					return a >= b, true
				}
			}
		}
	}
	return false, false
}

// static big.Int operand: &v / v (a big.Int local) or big.NewInt(k)
func (x *tr) bigArg(s *state, e ast.Expr) *big.Int {
	switch e := e.(type) {
	case *ast.ParenExpr:
		return x.bigArg(s, e.X)
	case *ast.UnaryExpr:
		if e.Op == token.AND {
			return x.bigArg(s, e.X)
		}
	case *ast.Ident:
		if b, ok := s.bigs[e.Name]; ok {
			return b
		}
	case *ast.CallExpr:
		if exprStr(e.Fun) == "big.NewInt" && len(e.Args) == 1 {
			if n, ok := x.evalInt(s, e.Args[0]); ok {
				return big.NewInt(n)
			}
		}
	}
	return nil
}

// ---------------------------------------------------------------- locations

func (x *tr) extLoc(s *state, e ast.Expr) (loc, bool) {
	switch e := e.(type) {
	case *ast.IndexExpr:
		if x.isRoundKeys(e.X) {
			// h.params.RoundKeys[round]: the round-th row of the key table, a parameter of Width elements
			id, ok := e.Index.(*ast.Ident)
			if !ok || x.v.spec == nil || x.v.spec.width == 0 {
				reject("unsupported use of RoundKeys")
			}
			if _, static := s.sints[id.Name]; static {
				reject("RoundKeys indexed by a known round")
			}
			t := x.p.arrType(x.v.spec.width, baseT)
			if x.v.spec.rowLen > 0 {
				t = x.p.arrType(x.v.spec.rowLen, baseT)
			}
			if _, ok := s.cells["spec:roundKey"]; !ok {
				s.cells["spec:roundKey"] = &val{t: t, term: "roundKey"}
				x.gp["spec:roundKey"] = true
				x.v.sparams["roundKey"] = t
			}
			return loc{root: "spec:roundKey"}, true
		}
	case *ast.SelectorExpr:
		// d.h for the specialisation receiver d: one element of state that the def takes as a parameter
		if id, ok := e.X.(*ast.Ident); ok && id.Name == x.specRecvName() && id.Name != "" {
			if x.p.cfg.ext == "fft" {
				return x.topField(s, id.Name, e.Sel.Name), true
			}
			for _, fld := range x.p.cfg.specElem {
				if fld == e.Sel.Name {
					if _, ok := s.cells["spec:"+fld]; !ok {
						s.cells["spec:"+fld] = &val{t: baseT, term: fld}
						x.gp["spec:"+fld] = true
						x.v.sparams[fld] = baseT
					}
					return loc{root: "spec:" + fld}, true
				}
			}
		}
	case *ast.SliceExpr:
		if e.Low == nil && e.High == nil && e.Max == nil {
			return x.evalLoc(s, e.X), true
		}
		if x.p.cfg.ext == "fft" {
			if v := x.evalView(s, e); v.whole(x, s) {
				return v.l, true
			}
			reject("sub-slice %s used as a location (only as a call argument or under Vector(..))", exprStr(e))
		}
		reject("sub-slice %s", exprStr(e))
	}
	if x.p.cfg.ext == "fft" {
		return x.fftLoc(s, e)
	}
	return loc{}, false
}

func (x *tr) sliceLoc(s *state, e ast.Expr) loc {
	if x.p.cfg.ext == "fft" {
		return x.viewArg(s, e)
	}
	return x.evalLoc(s, e)
}

// ---------------------------------------------------------------- flag expressions

func (x *tr) flagOperand(s *state, e ast.Expr) *val {
	v := x.evalVal(s, e)
	if v.t.prim == "" || v.t.limbs {
		reject("operand %s is not a flag", exprStr(e))
	}
	return v
}

// x[0] | x[1] | ... | x[Limbs-1] over one base-field location: the OR of all limbs
func (x *tr) limbOrChain(s *state, e ast.Expr) *val {
	var leaves []ast.Expr
	var flat func(e ast.Expr)
	flat = func(e ast.Expr) {
		if p, ok := e.(*ast.ParenExpr); ok {
			flat(p.X)
			return
		}
		if b, ok := e.(*ast.BinaryExpr); ok && b.Op == token.OR {
			flat(b.X)
			flat(b.Y)
			return
		}
		leaves = append(leaves, e)
	}
	flat(e)
	limbs := int(x.p.fc.consts["Limbs"].Int64())
	if len(leaves) != limbs {
		return nil
	}
	seen := map[int64]bool{}
	var base *loc
	for _, lf := range leaves {
		ix, ok := lf.(*ast.IndexExpr)
		if !ok {
			return nil
		}
		i := litInt(ix.Index)
		if i == nil || !i.IsInt64() || i.Int64() < 0 || i.Int64() >= int64(limbs) || seen[i.Int64()] {
			return nil
		}
		var l loc
		if !try(func() { l = x.evalLoc(s, ix.X) }) || !x.typeAt(s, l).base {
			return nil
		}
		if base != nil && !base.eq(l) {
			return nil
		}
		base = &l
		seen[i.Int64()] = true
	}
	x.prm["limbOr"] = true
	return &val{t: natT, term: "(limbOr " + x.read(get(s.cells[base.root], base.path)) + ")"}
}

// extVal: flag-valued expressions (nil = not one of them)
func (x *tr) extVal(s *state, e ast.Expr) *val {
	switch e := e.(type) {
	case *ast.BinaryExpr:
		if e.Op == token.OR {
			if v := x.limbOrChain(s, e); v != nil {
				return v
			}
		}
		a := x.flagOperand(s, e.X)
		switch e.Op {
		case token.SHR, token.REM:
			n, ok := x.evalInt(s, e.Y)
			if !ok || n < 0 {
				reject("flag %s by a non-constant", e.Op)
			}
			if e.Op == token.REM {
				if a.t != natT || n == 0 {
					reject("%% on a signed flag")
				}
				return &val{t: natT, term: fmt.Sprintf("(%s %% %d)", a.term, n)}
			}
			if a.t != intT {
				reject(">> on an unsigned flag") // would need the 64-bit bound
			}
			return &val{t: intT, term: fmt.Sprintf("(%s >>> %d)", a.term, n)}
		case token.OR, token.XOR, token.AND:
			b := x.flagOperand(s, e.Y)
			if a.t != b.t {
				reject("mixed flag types in %s", exprStr(e))
			}
			if a.t == natT {
				op := map[token.Token]string{token.OR: "|||", token.XOR: "^^^", token.AND: "&&&"}[e.Op]
				return &val{t: natT, term: fmt.Sprintf("(%s %s %s)", a.term, op, b.term)}
			}
			if e.Op == token.OR {
				return &val{t: intT, term: fmt.Sprintf("(GV.GoInt.or %s %s)", a.term, b.term)}
			}
		}
		reject("unsupported flag operation %s", e.Op)
	case *ast.UnaryExpr:
		if e.Op == token.XOR {
			a := x.flagOperand(s, e.X)
			if a.t != intT {
				reject("complement of an unsigned flag") // would need the 64-bit bound
			}
			return &val{t: intT, term: "(~~~" + a.term + ")"}
		}
	case *ast.IndexExpr:
		// nonMont[i] for nonMont := z.Bits()
		var v *val
		if id, ok := e.X.(*ast.Ident); ok {
			if c, ok := s.cells[id.Name]; ok && c.t.limbs {
				v = c
			}
		}
		if v != nil {
			i := litInt(e.Index)
			if i == nil || !i.IsInt64() || i.Int64() < 0 || i.Int64() >= x.p.fc.consts["Limbs"].Int64() {
				reject("limb index %s", exprStr(e))
			}
			w := new(big.Int).Lsh(big.NewInt(1), uint(x.p.fc.word))
			if i.Sign() == 0 {
				return &val{t: natT, term: fmt.Sprintf("(%s %% %s)", v.term, w)}
			}
			sh := new(big.Int).Lsh(big.NewInt(1), uint(int64(x.p.fc.word)*i.Int64()))
			return &val{t: natT, term: fmt.Sprintf("(%s / %s %% %s)", v.term, sh, w)}
		}
		// a limb of a Montgomery-form element outside the all-limbs OR: not expressible
		var l loc
		if try(func() { l = x.evalLoc(s, e.X) }) && x.typeAt(s, l).base {
			reject("access to limb %s of a field element (only the OR of all limbs is supported)", exprStr(e))
		}
	}
	return nil
}

// ---------------------------------------------------------------- calls

func (x *tr) extCall(s *state, c *ast.CallExpr) (*loc, *val, bool) {
	if x.p.cfg.ext == "fft" {
		if x.fftCall(s, c) {
			return nil, nil, true
		}
	}
	switch f := c.Fun.(type) {
	case *ast.Ident:
		_, shadow := s.cells[f.Name]
		switch {
		case shadow:
		case f.Name == "panic":
			reject("reaches panic(%s)", exprStr(firstExpr(c.Args)))
		case f.Name == "make" && len(c.Args) == 2:
			at, ok := c.Args[0].(*ast.ArrayType)
			n, okn := x.evalInt(s, c.Args[1])
			if ok && at.Len == nil && okn && n >= 1 && n <= 4096 {
				if et, ptr, _ := x.p.typeOf(x.file, x.v.f.inBase, at.Elt); et != nil && !ptr {
					return nil, zeroVal(x.p.arrType(int(n), et)), true
				}
			}
			reject("unsupported make")
		case f.Name == "int" || f.Name == "uint64":
			reject("conversion %s outside the condition of Select", exprStr(c))
		}
	case *ast.SelectorExpr:
		id, ok := f.X.(*ast.Ident)
		if !ok {
			return nil, nil, false
		}
		if b, isBig := s.bigs[id.Name]; isBig {
			switch {
			case f.Sel.Name == "SetBytes" && len(c.Args) == 1:
				cl, ok := c.Args[0].(*ast.CompositeLit)
				if !ok {
					reject("big.Int.SetBytes of a non-literal")
				}
				n := new(big.Int)
				for _, el := range cl.Elts {
					v := litInt(el)
					if v == nil || v.Sign() < 0 || v.Cmp(big.NewInt(255)) > 0 {
						reject("big.Int.SetBytes of a non-literal")
					}
					n.Lsh(n, 8).Add(n, v)
				}
				b.Set(n)
				return nil, nil, true
			case (f.Sel.Name == "Lsh" || f.Sel.Name == "Rsh") && len(c.Args) == 2:
				a := x.bigArg(s, c.Args[0])
				n, ok := x.evalInt(s, c.Args[1])
				if a == nil || !ok || n < 0 || n > 4096 {
					reject("unsupported big.Int shift")
				}
				if f.Sel.Name == "Lsh" {
					b.Lsh(a, uint(n))
				} else {
					b.Rsh(a, uint(n))
				}
				return nil, nil, true
			}
			reject("unsupported big.Int method %s", f.Sel.Name)
		}
		if id.Name == x.p.baseQual[x.file] && !x.v.f.inBase && s.cells[id.Name] == nil && f.Sel.Name == "BatchInvert" && len(c.Args) == 1 {
			// element-wise inverse, zeros stay zero (Lean's 0⁻¹ = 0)
			l := x.sliceLoc(s, c.Args[0])
			t := x.typeAt(s, l)
			if !t.arr || !t.ftypes[0].base {
				reject("BatchInvert of something that is not a slice of elements")
			}
			x.need("Inv")
			src := get(s.cells[l.root], l.path)
			res := &val{t: t}
			for i := range t.fields {
				n := x.fresh("inv")
				x.emit(n, x.read(kid(src, i))+"⁻¹")
				res.kids = append(res.kids, &val{t: baseT, term: n})
			}
			return nil, res, true
		}
	}
	return nil, nil, false
}

func (x *tr) extBaseCall(s *state, dst loc, op string, c *ast.CallExpr) (baseRes, bool) {
	cur := func() string { return x.read(get(s.cells[dst.root], dst.path)) }
	argp := func(i int) string {
		l := x.evalPtr(s, c.Args[i])
		if !x.typeAt(s, l).base {
			reject("argument %d of %s is not a base-field pointer", i, op)
		}
		return x.read(get(s.cells[l.root], l.path))
	}
	switch {
	case op == "Select" && len(c.Args) == 3:
		var cnd *val
		if cv, ok := c.Args[0].(*ast.CallExpr); ok && exprStr(cv.Fun) == "int" && len(cv.Args) == 1 && s.cells["int"] == nil {
			cnd = x.evalVal(s, cv.Args[0]) // int(u) == 0 iff u == 0
			if cnd.t != natT {
				reject("int(..) of something that is not a uint64 flag")
			}
		} else {
			cnd = x.evalVal(s, c.Args[0])
			if cnd.t != intT {
				reject("condition of Select is not an int flag")
			}
		}
		a, b := argp(1), argp(2)
		x.def(s, dst, "if "+cnd.term+" = 0 then "+a+" else "+b)
		return baseRes{l: &dst}, true
	case op == "Sqrt" && len(c.Args) == 1:
		x.prm["sqrt"] = true
		x.def(s, dst, "(sqrt "+argp(0)+").getD "+cur())
		return baseRes{l: &dst}, true
	case op == "Legendre" && len(c.Args) == 0:
		x.prm["legendre"] = true
		return baseRes{v: &val{t: intT, term: "(legendre " + cur() + ")"}}, true
	case op == "NotEqual" && len(c.Args) == 1:
		x.prm["notEqual"] = true
		return baseRes{v: &val{t: natT, term: "(notEqual " + cur() + " " + argp(0) + ")"}}, true
	case op == "Bits" && len(c.Args) == 0:
		x.prm["toNat"] = true
		return baseRes{v: &val{t: limbsT, term: "(toNat " + cur() + ")"}}, true
	case op == "Exp" && len(c.Args) == 2:
		k := x.bigArg(s, c.Args[1])
		if k == nil || k.Sign() < 0 {
			reject("Exp with an exponent that is not known")
		}
		a := x.evalVal(s, c.Args[0])
		if !a.t.base {
			reject("Exp of something that is not an element")
		}
		x.need("HPow")
		x.def(s, dst, fmt.Sprintf("%s ^ (%s : Nat)", x.read(a), k))
		return baseRes{l: &dst}, true
	case op == "Mul2ExpNegN" && len(c.Args) == 2:
		n, ok := x.evalInt(s, c.Args[1])
		if !ok || n < 0 || n > 4096 {
			reject("Mul2ExpNegN by a non-constant")
		}
		x.need("Mul", "Inv", "NatCast")
		x.def(s, dst, fmt.Sprintf("%s * ((%s : Nat) : F)⁻¹", argp(0), new(big.Int).Lsh(big.NewInt(1), uint(n))))
		return baseRes{l: &dst}, true
	}
	return baseRes{}, false
}

// ---------------------------------------------------------------- statements

var anonRootRe = regexp.MustCompile(`^(new|lit|blk)[0-9]+$`)

func scopeNames(s *state) map[string]bool {
	m := map[string]bool{}
	for k := range s.cells {
		m[k] = true
	}
	for k := range s.ptrs {
		m[k] = true
	}
	for k := range s.sints {
		m[k] = true
	}
	for k := range s.sbools {
		m[k] = true
	}
	for k := range s.bigs {
		m[k] = true
	}
	for k := range s.views {
		m[k] = true
	}
	return m
}

func pruneScope(s *state, keep map[string]bool) {
	drop := func(k string) bool { return !keep[k] && !strings.Contains(k, ":") && !anonRootRe.MatchString(k) }
	for k := range s.cells {
		if drop(k) {
			delete(s.cells, k)
		}
	}
	for k := range s.ptrs {
		if drop(k) {
			delete(s.ptrs, k)
		}
	}
	for k := range s.sints {
		if drop(k) {
			delete(s.sints, k)
		}
	}
	for k := range s.sbools {
		if drop(k) {
			delete(s.sbools, k)
		}
	}
	for k := range s.bigs {
		if drop(k) {
			delete(s.bigs, k)
		}
	}
	for k := range s.views {
		if drop(k) {
			delete(s.views, k)
		}
	}
}

const maxUnroll = 8192

// extStmt: 0 = not handled, 1 = handled (go on with the next statement), 2 = handled together with the continuation
func (x *tr) extStmt(s *state, st ast.Stmt, rest []ast.Stmt) int {
	if x.p.cfg.ext == "fft" {
		if r := x.topStmt(s, st, rest); r != 0 {
			return r
		}
	}
	switch st := st.(type) {
	case *ast.DeclStmt:
		gd, ok := st.Decl.(*ast.GenDecl)
		if !ok || gd.Tok != token.VAR {
			return 0
		}
		for _, sp := range gd.Specs {
			vs := sp.(*ast.ValueSpec)
			if vs.Type == nil || len(vs.Values) != 0 || (primOf(vs.Type) == nil && exprStr(vs.Type) != "big.Int") {
				return 0
			}
		}
		for _, sp := range gd.Specs {
			vs := sp.(*ast.ValueSpec)
			for _, nm := range vs.Names {
				if t := primOf(vs.Type); t != nil {
					x.newRoot(s, nm.Name, zeroVal(t))
				} else {
					s.bigs[nm.Name] = new(big.Int)
				}
			}
		}
		return 1
	case *ast.IncDecStmt:
		id, ok := st.X.(*ast.Ident)
		if !ok {
			reject("unsupported %s", st.Tok)
		}
		n, ok := s.sints[id.Name]
		if !ok {
			reject("%s of a variable that is not known at translation time", st.Tok)
		}
		if st.Tok == token.INC {
			s.sints[id.Name] = n + 1
		} else {
			s.sints[id.Name] = n - 1
		}
		return 1
	case *ast.SwitchStmt:
		if st.Init != nil || st.Tag == nil {
			reject("unsupported switch")
		}
		tag, ok := x.evalInt(s, st.Tag)
		if !ok {
			reject("switch on a value that is not known at translation time")
		}
		var body []ast.Stmt
		found := false
		for _, cs := range st.Body.List {
			cc := cs.(*ast.CaseClause)
			if cc.List == nil && !found {
				body = cc.Body // default, unless a case matches
			}
			for _, e := range cc.List {
				n, ok := x.evalInt(s, e)
				if !ok {
					reject("case label that is not a constant")
				}
				if n == tag && !found {
					body, found = cc.Body, true
				}
			}
		}
		for _, b := range body {
			ast.Inspect(b, func(n ast.Node) bool {
				if br, ok := n.(*ast.BranchStmt); ok {
					reject("%s inside switch", br.Tok)
				}
				return true
			})
		}
		x.block(s, append(append([]ast.Stmt(nil), body...), rest...))
		return 2
	case *ast.ForStmt:
		keep, again := x.loopSnap[st]
		re := st
		if !again {
			// first entry: remember the scope, run the initialiser, continue with the re-entry statement
			outer := scopeNames(s)
			re = &ast.ForStmt{Cond: st.Cond, Post: st.Post, Body: st.Body}
			if st.Init != nil {
				as, ok := st.Init.(*ast.AssignStmt)
				if !ok || as.Tok != token.DEFINE {
					reject("unsupported loop initialiser")
				}
				x.assign(s, as)
			}
			x.loopSnap[re] = scopeNames(s) // scope of one iteration = outer scope + loop variable
			x.loopOuter(re, outer)
			keep = x.loopSnap[re]
		}
		pruneScope(s, keep) // variables declared in the previous iteration go out of scope
		if re.Cond == nil {
			reject("loop without condition")
		}
		go_on, ok := x.staticCond(s, re.Cond)
		if !ok {
			reject("loop condition %s is not known at translation time", exprStr(re.Cond))
		}
		if !go_on {
			pruneScope(s, x.outer[re])
			return 1
		}
		x.unrolled++
		if x.unrolled > maxUnroll {
			reject("more than %d unrolled iterations", maxUnroll)
		}
		ast.Inspect(re.Body, func(n ast.Node) bool {
			switch n := n.(type) {
			case *ast.BranchStmt:
				reject("%s inside a loop", n.Tok)
			case *ast.ReturnStmt:
				reject("return inside a loop")
			}
			return true
		})
		next := append([]ast.Stmt(nil), re.Body.List...)
		if re.Post != nil {
			next = append(next, re.Post)
		}
		next = append(next, re)
		x.block(s, append(next, rest...))
		return 2
	}
	return 0
}

func (x *tr) loopOuter(re *ast.ForStmt, outer map[string]bool) {
	if x.outer == nil {
		x.outer = map[*ast.ForStmt]map[string]bool{}
	}
	x.outer[re] = outer
}

func (x *tr) extAssign(s *state, st *ast.AssignStmt) bool {
	if x.p.cfg.ext == "fft" && x.fftAssign(s, st) {
		return true
	}
	switch st.Tok {
	case token.DEFINE:
		if len(st.Lhs) > 1 && len(st.Rhs) == 1 {
			// a, b := f()
			c, ok := st.Rhs[0].(*ast.CallExpr)
			if !ok {
				reject("unsupported multi-define")
			}
			x.multi = nil
			x.call(s, c)
			if len(x.multi) != len(st.Lhs) {
				reject("call %s does not return %d values", exprStr(c), len(st.Lhs))
			}
			vs := x.multi
			for i, l := range st.Lhs {
				id, ok := l.(*ast.Ident)
				if !ok {
					reject("unsupported define")
				}
				if id.Name != "_" {
					x.newRoot(s, id.Name, vs[i])
				}
			}
			return true
		}
		if len(st.Lhs) == 1 && len(st.Rhs) == 1 {
			id, ok := st.Lhs[0].(*ast.Ident)
			if !ok {
				return false
			}
			if n, ok := x.evalInt(s, st.Rhs[0]); ok {
				if _, dup := s.cells[id.Name]; dup {
					reject("redeclaration of %s", id.Name)
				}
				s.sints[id.Name] = n
				return true
			}
		}
	case token.ASSIGN:
		if len(st.Lhs) == 1 && len(st.Rhs) == 1 {
			id, ok := st.Lhs[0].(*ast.Ident)
			if !ok {
				return false
			}
			if c, ok := s.cells[id.Name]; ok && c.t.prim != "" && !c.t.limbs {
				v := x.evalVal(s, st.Rhs[0])
				if !v.t.same(c.t) || v.t.limbs {
					reject("type mismatch in assignment to %s", id.Name)
				}
				if !isLeanIdent(v.term) {
					n := x.fresh(id.Name)
					x.emit(n, v.term)
					v = &val{t: v.t, term: n}
				}
				s.cells[id.Name] = v
				return true
			}
			if _, ok := s.sints[id.Name]; ok {
				n, ok := x.evalInt(s, st.Rhs[0])
				if !ok {
					reject("assignment of an unknown value to %s", id.Name)
				}
				s.sints[id.Name] = n
				return true
			}
		}
	}
	return false
}

// ---------------------------------------------------------------- driver

func h2cPkg(name, dir string) towerPkg {
	us := strings.ReplaceAll(dir, "-", "_")
	return towerPkg{name: name, dir: "ecc/" + dir, baseDir: "ecc/" + dir + "/fp", ext: "h2c", extraDir: "ecc/" + dir + "/hash_to_curve",
		files:   []string{"g1.go", us + ".go", dir + ".go", "hash_to_g1.go"},
		fnFiles: []string{"hash_to_g1.go", "hash_to_curve/g1.go"}}
}

var h2cPkgs = []towerPkg{
	h2cPkg("bn254", "bn254"),
	h2cPkg("bls12_381", "bls12-381"),
	h2cPkg("bls12_377", "bls12-377"),
	h2cPkg("bls24_315", "bls24-315"),
	h2cPkg("bls24_317", "bls24-317"),
	h2cPkg("bw6_761", "bw6-761"),
	h2cPkg("bw6_633", "bw6-633"),
	h2cPkg("grumpkin", "grumpkin"),
	h2cPkg("secp256k1", "secp256k1"),
	h2cPkg("stark_curve", "stark-curve"),
}

func p2Pkg(name, dir, base string, widths ...int) towerPkg {
	return towerPkg{name: name, dir: dir, baseDir: base, ext: "hash", files: []string{"poseidon2.go", "hash.go"}, fnFiles: []string{"poseidon2.go"}, specRecv: "Permutation", widths: widths}
}

var hashPkgs = []towerPkg{
	p2Pkg("p2_bn254", "ecc/bn254/fr/poseidon2", "ecc/bn254/fr", 2, 3),
	p2Pkg("p2_bls12_381", "ecc/bls12-381/fr/poseidon2", "ecc/bls12-381/fr", 2, 3),
	p2Pkg("p2_bls12_377", "ecc/bls12-377/fr/poseidon2", "ecc/bls12-377/fr", 2, 3),
	p2Pkg("p2_bls24_315", "ecc/bls24-315/fr/poseidon2", "ecc/bls24-315/fr", 2, 3),
	p2Pkg("p2_bls24_317", "ecc/bls24-317/fr/poseidon2", "ecc/bls24-317/fr", 2, 3),
	p2Pkg("p2_bw6_761", "ecc/bw6-761/fr/poseidon2", "ecc/bw6-761/fr", 2, 3),
	p2Pkg("p2_bw6_633", "ecc/bw6-633/fr/poseidon2", "ecc/bw6-633/fr", 2, 3),
	p2Pkg("p2_grumpkin", "ecc/grumpkin/fr/poseidon2", "ecc/grumpkin/fr", 2, 3),
	p2Pkg("p2_koalabear", "field/koalabear/poseidon2", "field/koalabear", 16, 24),
	p2Pkg("p2_babybear", "field/babybear/poseidon2", "field/babybear", 16, 24),
	p2Pkg("p2_goldilocks", "field/goldilocks/poseidon2", "field/goldilocks", 8, 12),
}

func mimcPkg(name, curve string) towerPkg {
	return towerPkg{name: name, dir: "ecc/" + curve + "/fr/mimc", baseDir: "ecc/" + curve + "/fr", ext: "hash", files: []string{"mimc.go"},
		specRecv: "digest", specElem: []string{"h"}}
}

var mimcPkgs = []towerPkg{
	mimcPkg("mimc_bn254", "bn254"),
	mimcPkg("mimc_bls12_381", "bls12-381"),
	mimcPkg("mimc_bls12_377", "bls12-377"),
	mimcPkg("mimc_bls24_315", "bls24-315"),
	mimcPkg("mimc_bls24_317", "bls24-317"),
	mimcPkg("mimc_bw6_761", "bw6-761"),
	mimcPkg("mimc_bw6_633", "bw6-633"),
	mimcPkg("mimc_grumpkin", "grumpkin"),
}

var p2Targets = []string{"sBox", "matMulM4InPlace", "matMulExternalInPlace", "matMulInternalInPlace", "addRoundKeyInPlace"}

type extSummary struct {
	Translated   []string          `json:"translated"`
	Untranslated map[string]string `json:"untranslated"`
	Permutation  *permInfo         `json:"permutation,omitempty"` // slpperm.go
}

func identityPat(f *fn) []int {
	pat := make([]int, len(f.pos))
	for i := range pat {
		pat[i] = i
	}
	return pat
}

// runExt translates the extended-mode packages; returns the labels of everything translated and the failures
func runExt(want map[string]bool) (all, failures []string) {
	sums := map[string]map[string]*extSummary{"H2C": {}, "Hash": {}}
	record := func(ps *extSummary, label, key string, v *variant) {
		if v.err != "" {
			ps.Untranslated[key] = v.err
			if want[label+" "+key] {
				failures = append(failures, fmt.Sprintf("%s %s: %s", label, key, v.err))
			}
			return
		}
		ps.Translated = append(ps.Translated, key)
		all = append(all, label+" "+key)
	}
	for _, cfg := range h2cPkgs {
		if _, err := os.Stat(filepath.Join(repo, cfg.dir, "hash_to_g1.go")); err != nil {
			die("h2c package %s not found", cfg.dir)
		}
		p := loadPkg(cfg, nil)
		label := "h2c/" + cfg.name
		ps := &extSummary{Untranslated: map[string]string{}}
		for _, k := range p.fnOrder {
			f := p.funcs[k]
			skip := false
			for _, q := range f.pos {
				skip = skip || q.slice || q.isBool || q.spec || q.isInt
			}
			if skip {
				continue // specialised at the call sites
			}
			record(ps, label, k, p.translateSpec(f, identityPat(f), newSpec()))
		}
		p.emit()
		sums["H2C"][cfg.name] = ps
		fmt.Fprintf(os.Stderr, "gvgoslp: %-22s %3d functions translated (%d defs), %d untranslatable\n", label, len(ps.Translated), len(p.order), len(ps.Untranslated))
	}
	for _, cfg := range append(append([]towerPkg(nil), hashPkgs...), mimcPkgs...) {
		if _, err := os.Stat(filepath.Join(repo, cfg.dir)); err != nil {
			die("hash package %s not found", cfg.dir)
		}
		p := loadPkg(cfg, nil)
		label := "hash/" + cfg.name
		ps := &extSummary{Untranslated: map[string]string{}}
		if cfg.widths == nil {
			// MiMC: the block cipher of the digest
			if f := p.funcs[cfg.specRecv+".encrypt"]; f != nil {
				v := p.translateSpec(f, identityPat(f), newSpec())
				record(ps, label, v.name, v)
			}
		}
		for _, w := range cfg.widths {
			for _, tn := range p2Targets {
				f := p.funcs[cfg.specRecv+"."+tn]
				if f == nil {
					continue
				}
				sp := newSpec()
				sp.width = w
				idx := -1
				for i, q := range f.pos {
					switch {
					case q.slice:
						sp.arrs[i] = p.arrType(w, q.t)
					case q.isInt && q.name == "index":
						idx = i
					case q.isInt:
						sp.opaque[i] = true
					}
				}
				if idx < 0 {
					v := p.translateSpec(f, identityPat(f), sp)
					record(ps, label, v.name, v)
					continue
				}
				for k := 0; k < w; k++ {
					sk := newSpec()
					*sk = *sp
					sk.ints = map[int]int64{idx: int64(k)}
					v := p.translateSpec(f, identityPat(f), sk)
					record(ps, label, v.name, v)
				}
			}
		}
		if cfg.widths != nil {
			ps.Permutation = p.translatePermutations(cfg, func(key string, v *variant) { record(ps, label, key, v) })
		}
		p.emit()
		sums["Hash"][cfg.name] = ps
		fmt.Fprintf(os.Stderr, "gvgoslp: %-22s %3d functions translated (%d defs), %d untranslatable\n", label, len(ps.Translated), len(p.order), len(ps.Untranslated))
	}
	for sub, m := range sums {
		js, _ := json.MarshalIndent(m, "", " ")
		writeFile(sub+"/summary.json", string(js)+"\n")
	}
	sort.Strings(failures)
	return
}
