// Part 6c (slpsign.go): C12 tie T for the EdDSA signature codec: `(*Signature).SetBytes` of the 8 eddsa packages
// (ecc/<curve>/twistededwards/eddsa/marshal.go + bandersnatch), on top of slpgroup.go / slpsig.go → Gen/Verifier/EddsaSig_<curve>.lean.
//
// Additions of this file (everything else is the subset of slpsig.go):
//
//	[]byte   dst[k] = src[i]     both indices known at translation time:  dst.set k (src.getD i 0)
//	         dst[k] &= m         k, m known at translation time:          dst.set k (dst.getD k 0 &&& m)
//	         SIDE CONDITIONS CHECKED HERE (Go panics on an index out of range, List.set / getD do not): the length of dst must be known
//	         syntactically (it is `make([]byte, N)` with a constant N, updated by these two statements only); the length of src must be
//	         known the same way or from a test `len(src) != N` whose then-branch returned (x.falseConds). Otherwise: fatal.
//	points   P.SetBytes(b)       PARAMETERS pointSetBytes : List UInt8 → G (the receiver after the call) and
//	                             pointSetBytesErr : List UInt8 → Res (nil or the error). NOT looked into (decompression: C07 / hand model).
//	                             The receiver after a FAILED call is not modelled separately (twistededwards SetBytes fails only on a short
//	                             buffer, before writing anything; the callers translated here pass exactly sizeFr bytes).
package main

import (
	"fmt"
	"go/ast"
	"go/token"
	"regexp"
	"strconv"
	"strings"
)

// known lengths of the let-bound byte strings made by the statements of this file (key: package label + function + Lean name)
var sigByteLen = map[string]int{}

var reReplicate = regexp.MustCompile(`^\(List\.replicate (\d+) \(0 : UInt8\)\)$`)

func (x *gtr) lenKey(term string) string { return x.p.label + "\x00" + x.fname + "\x00" + term }

// knownLen: the length of the byte string `term`, when it is known at translation time
func (x *gtr) knownLen(v *gv) (int, bool) {
	if v.t.n >= 0 {
		return v.t.n, true
	}
	if m := reReplicate.FindStringSubmatch(v.term); m != nil {
		n, _ := strconv.Atoi(m[1])
		return n, true
	}
	if n, ok := sigByteLen[x.lenKey(v.term)]; ok {
		return n, true
	}
	// let-bound to a make([]byte, N) in the straight-line code emitted so far
	pre := "let " + v.term + " : List UInt8 := "
	for _, l := range x.lines {
		if strings.HasPrefix(l, pre) {
			if m := reReplicate.FindStringSubmatch(strings.TrimPrefix(l, pre)); m != nil {
				n, _ := strconv.Atoi(m[1])
				return n, true
			}
		}
	}
	// a test `len(v) != N` failed on the way here
	pre = "((Int.ofNat " + v.term + ".length) != ("
	for c := range x.falseConds {
		if strings.HasPrefix(c, pre) && strings.HasSuffix(c, " : Int))") {
			if n, err := strconv.Atoi(strings.TrimSuffix(strings.TrimPrefix(c, pre), " : Int))")); err == nil {
				return n, true
			}
		}
	}
	return 0, false
}

// bytesIndex: e = b[i] with b a byte string, i known at translation time and in range: (b, i)
func (x *gtr) bytesIndex(s *gscope, e ast.Expr, write bool) (cellID, *gv, int, bool) {
	ie, ok := e.(*ast.IndexExpr)
	if !ok {
		return 0, nil, 0, false
	}
	id, ok := ie.X.(*ast.Ident)
	if !ok {
		return 0, nil, 0, false
	}
	c, ok := s.lookup(id.Name)
	if !ok || x.store[c].t.k != gBytes {
		return 0, nil, 0, false
	}
	v := x.store[c]
	i := x.staticInt(s, ie.Index)
	n, ok := x.knownLen(v)
	if !ok {
		reject("%s: %s: the length of %s is not known at translation time (an index out of range panics in Go)", x.fname, gexpr(e), id.Name)
	}
	if i < 0 || i >= n {
		reject("%s: index out of range in %s (i = %d, len = %d): the Go code panics here", x.fname, gexpr(e), i, n)
	}
	return c, v, i, true
}

// sigAssign: dst[k] = src[i] and dst[k] &= m on byte strings (see the head of this file)
func (x *gtr) sigAssign(s *gscope, st *ast.AssignStmt) bool {
	if len(st.Lhs) != 1 || len(st.Rhs) != 1 || (st.Tok != token.ASSIGN && st.Tok != token.AND_ASSIGN) {
		return false
	}
	dc, dv, k, ok := x.bytesIndex(s, st.Lhs[0], true)
	if !ok {
		return false
	}
	n, _ := x.knownLen(dv)
	var rhs string
	if st.Tok == token.ASSIGN {
		_, sv, i, ok := x.bytesIndex(s, st.Rhs[0], false)
		if !ok {
			reject("%s: %s = %s: only a byte of a byte string may be stored", x.fname, gexpr(st.Lhs[0]), gexpr(st.Rhs[0]))
		}
		rhs = fmt.Sprintf("%s.set %d (%s.getD %d (0 : UInt8))", gparen(dv.term), k, gparen(sv.term), i)
	} else {
		m := x.staticInt(s, st.Rhs[0])
		if m < 0 || m > 255 {
			reject("%s: %s: mask out of the byte range", x.fname, gexpr(st.Rhs[0]))
		}
		rhs = fmt.Sprintf("%s.set %d (%s.getD %d (0 : UInt8) &&& (%d : UInt8))", gparen(dv.term), k, gparen(dv.term), k, m)
	}
	x.setLeaf(dc, rhs)
	sigByteLen[x.lenKey(x.store[dc].term)] = n
	return true
}

// signMethod: P.SetBytes(b) on a point (PARAMETERS pointSetBytes / pointSetBytesErr)
func (x *gtr) signMethod(s *gscope, recv cellID, name string, c *ast.CallExpr) ([]*gv, bool) {
	rv := x.store[recv]
	if rv.t.k != gG || name != "SetBytes" || !x.p.pointSetBytes {
		return nil, false
	}
	x.nargs(c, 1)
	b := x.bytesArg(s, c.Args[0])
	x.need("pointSetBytes", "List UInt8 → G", false)
	x.need("pointSetBytesErr", "List UInt8 → Res", false)
	x.setLeaf(recv, "pointSetBytes "+gparen(b.term))
	return []*gv{{t: &gtype{k: gInt}, term: "(0 : Int)"}, {t: &gtype{k: gErr}, term: fmt.Sprintf("(pointSetBytesErr %s)", gparen(b.term))}}, true
}

// runGroupSign: the EdDSA signature codec of the 8 packages
func runGroupSign(guard func(string, func())) {
	for _, d := range eddsaDirs {
		guard("eddsa sig "+d[0], func() {
			p := newSigPkg("eddsasig_"+d[0], d[1], "eddsa.go,marshal.go")
			p.frIsCoord = true
			p.pointSetBytes = true
			p.translate("Signature.SetBytes", nil)
			p.emit("eddsasig_"+d[0], "EddsaSig_"+d[0]+".lean", "")
		})
	}
}
