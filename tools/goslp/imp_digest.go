// imp_digest.go — extension of mode "imp" for the MiMC digest state machine (ecc/<curve>/fr/mimc/mimc.go, C14):
// methods Reset, checksum, Sum, Write, SetState, State, WriteString of *digest and the package-level Sum.
//
// The struct `digest` is translated over an ABSTRACT element type F and an abstract byte-order type BO; everything the methods
// call that is not translated here is an explicit PARAMETER of every generated def:
//
//	fZero              fr.Element{0, …, 0} (every limb literal must be 0) and the zero value of an omitted element field
//	fAdd a b           z.Add(&a, &b)   (the receiver z gets the value; operands are read before z is written — alias safety: C01 / C19)
//	encrypt k m        d.encrypt(m) with k = d.h at the time of the call (translated by the SLP pass: Gen/Hash, C14_gen);
//	                   CHECKED here: the body of encrypt assigns nothing reachable from d and calls no method on d or its fields
//	boElement bo blk   d.byteOrder.Element((*[BlockSize]byte)(blk)) : (fr.Element, error)
//	fBytes x           x.Bytes() (the [Bytes]byte array as a byte string; `a[:]` is the identity)
//	fSetBytesCanonical z buf   the pair (value of z after z.SetBytesCanonical(buf), its error)
//	frHash msg dst n   fr.Hash(msg, dst, n) : ([]fr.Element, error)
//	frBigEndian        fr.BigEndian
//	BlockSize          the package constant; CHECKED here: it is declared as `BlockSize = fr.Bytes`
//
// Added to the subset for this target only: `x[lo:hi]` as the value `subslice x lo hi` (beyond len(x) Go reads the capacity: not
// modelled), `(*[N]byte)(s)` as `arrayPtr N s`, `make([]T, 0, cap)` = empty, `append(x, y...)`, `x += e` on int, `[]byte("literal")`,
// counting loops `for i := a; i < N; i += K` (K not assigned in the loop) with fuel N - i (exact for K ≥ 1; for K ≤ 0 the Go loop does
// not terminate), calls `x.M(args)` of an already translated method of the digest on a struct variable x (x passed and returned by value),
// chained element methods on field paths `d.h.Add(&r, &d.h).Add(&d.h, &d.data[i])` (left to right, each assigning the receiver path),
// a local buffer written in place may be assigned to another variable AFTER its last in-place write (outside loops).
package main

import (
	"fmt"
	"go/ast"
	"go/token"
	"path/filepath"
	"sort"
	"strconv"
	"strings"
)

const digestAbsParams = " {F BO : Type} [Inhabited F] (fZero : F) (fAdd : F → F → F) (encrypt : F → F → F) (boElement : BO → Bytes → F × Err) (fBytes : F → Bytes) (fSetBytesCanonical : F → Bytes → F × Err) (frHash : Bytes → Bytes → Int → List F × Err) (frBigEndian : BO) (BlockSize : Int)"
const digestAbsArgs = " fZero fAdd encrypt boElement fBytes fSetBytesCanonical frHash frBigEndian BlockSize"

var digestReserved = map[string]bool{"fZero": true, "fAdd": true, "encrypt": true, "boElement": true, "fBytes": true, "fSetBytesCanonical": true,
	"frHash": true, "frBigEndian": true, "BlockSize": true, "subslice": true, "arrayPtr": true, "digest": true, "BO": true}

func mimcPkgName(dir string) string { // ecc/bls12-377/fr/mimc -> bls12_377
	parts := strings.Split(filepath.ToSlash(dir), "/")
	return strings.ReplaceAll(parts[1], "-", "_")
}

func digestDirs() []string {
	files, _ := filepath.Glob(filepath.Join(repo, "ecc", "*", "fr", "mimc", "mimc.go"))
	sort.Strings(files)
	var out []string
	for _, f := range files {
		rel, _ := filepath.Rel(repo, filepath.Dir(f))
		out = append(out, filepath.ToSlash(rel))
	}
	return out
}

// the mimc packages other than ecc/bn254 (which is the static entry of impTargets)
func digestTargets() []impTarget {
	var out []impTarget
	for _, d := range digestDirs() {
		n := mimcPkgName(d)
		if n == "bn254" {
			continue
		}
		out = append(out, impTarget{dir: d, file: "mimc.go", ns: "Mimc_" + n, out: "Imp/Mimc_" + n + ".lean", funcs: digestFuncs, digest: true})
	}
	return out
}

func digestImports(tg impTarget) string {
	s := "import GnarkVerif.Model.GoImpDigest\n"
	if tg.ns != "Mimc_bn254" {
		s += "import GnarkVerif.Gen.Imp.Mimc_bn254\n"
	}
	return s
}

var digestStructText string // field list of the struct of ecc/bn254 (the other packages must declare the same one)

// checked side conditions + the struct declaration
func (p *impPkg) digestPrelude() string {
	f := p.file
	p.recordStateLen()
	// BlockSize = fr.Bytes
	found := false
	for _, d := range f.Decls {
		gd, ok := d.(*ast.GenDecl)
		if !ok || gd.Tok != token.CONST {
			continue
		}
		for _, s := range gd.Specs {
			vs := s.(*ast.ValueSpec)
			for i, n := range vs.Names {
				if n.Name == "BlockSize" {
					if i >= len(vs.Values) || exprText(vs.Values[i]) != "fr.Bytes" {
						p.die(vs, "BlockSize is not declared as fr.Bytes")
					}
					found = true
				}
			}
		}
	}
	if !found {
		die("imp: %s: constant BlockSize not found", p.tg.dir)
	}
	// encrypt reads d.h only
	enc := p.funcs["encrypt"]
	if enc == nil || enc.Recv == nil || len(enc.Recv.List) != 1 || len(enc.Recv.List[0].Names) != 1 {
		die("imp: %s: method encrypt not found", p.tg.dir)
	}
	if _, ok := enc.Recv.List[0].Type.(*ast.StarExpr); !ok {
		p.die(enc, "encrypt: receiver form")
	}
	if len(enc.Type.Params.List) != 1 || len(enc.Type.Params.List[0].Names) != 1 || exprText(enc.Type.Params.List[0].Type) != "fr.Element" ||
		enc.Type.Results == nil || len(enc.Type.Results.List) != 1 || exprText(enc.Type.Results.List[0].Type) != "fr.Element" {
		p.die(enc, "encrypt: signature is not func (d *digest) encrypt(m fr.Element) fr.Element")
	}
	rv := enc.Recv.List[0].Names[0].Name
	ast.Inspect(enc.Body, func(n ast.Node) bool {
		switch s := n.(type) {
		case *ast.AssignStmt:
			for _, l := range s.Lhs {
				if chainRoot(l) == rv {
					p.die(s, "encrypt assigns to its receiver (it is called as a pure function of d.h)")
				}
			}
		case *ast.IncDecStmt:
			if chainRoot(s.X) == rv {
				p.die(s, "encrypt modifies its receiver")
			}
		case *ast.CallExpr:
			if se, ok := s.Fun.(*ast.SelectorExpr); ok && chainRoot(se.X) == rv {
				p.die(s, "encrypt calls a method on its receiver or one of its fields (it is called as a pure function of d.h)")
			}
		case *ast.SelectorExpr:
			if id, ok := s.X.(*ast.Ident); ok && id.Name == rv && s.Sel.Name != "h" {
				p.die(s, "encrypt reads the field %s of its receiver (only h is passed)", s.Sel.Name)
			}
		case *ast.UnaryExpr:
			if id, ok := s.X.(*ast.Ident); ok && s.Op == token.AND && id.Name == rv {
				p.die(s, "encrypt takes the address of its receiver")
			}
		}
		return true
	})
	if len(p.order) != 1 || p.order[0] != "digest" {
		die("imp: %s: exactly one struct `digest` expected, found %v", p.tg.dir, p.order)
	}
	var fs []string
	for _, fl := range p.structs["digest"] {
		fs = append(fs, fmt.Sprintf("  %s : %s\n", fl.name, p.lty(fl.ty, false)))
	}
	txt := strings.Join(fs, "")
	if p.tg.ns == "Mimc_bn254" {
		digestStructText = txt
		return "/-- `type digest struct` over the abstract element type F and the abstract byte order BO -/\nstructure digest (F BO : Type) where\n" + txt + "\n"
	}
	// the other packages: same struct (checked), shared type
	base := loadImp(impTarget{dir: "ecc/bn254/fr/mimc", file: "mimc.go", ns: "Mimc_bn254", digest: true})
	var bs []string
	for _, fl := range base.structs["digest"] {
		bs = append(bs, fmt.Sprintf("  %s : %s\n", fl.name, base.lty(fl.ty, false)))
	}
	if strings.Join(bs, "") != txt {
		die("imp: %s: struct digest differs from the one of ecc/bn254/fr/mimc", p.tg.dir)
	}
	return "/-- `type digest struct`: the same field list as in ecc/bn254/fr/mimc (checked by the translator), so the same Lean type -/\nabbrev digest (F BO : Type) := GV.Gen.Imp.Mimc_bn254.digest F BO\n\n"
}

// root variable of a path, looking through method-call chains `x.f.M(…).N(…)`
func chainRoot(e ast.Expr) string {
	for {
		switch v := e.(type) {
		case *ast.SelectorExpr:
			e = v.X
		case *ast.IndexExpr:
			e = v.X
		case *ast.ParenExpr:
			e = v.X
		case *ast.SliceExpr:
			e = v.X
		case *ast.StarExpr:
			e = v.X
		case *ast.CallExpr:
			se, ok := v.Fun.(*ast.SelectorExpr)
			if !ok {
				return ""
			}
			e = se.X
		case *ast.Ident:
			return v.Name
		default:
			return ""
		}
	}
}

// variables modified by a call (digest mode): element mutators on a path, translated methods on a struct variable
func (f *impFn) digestAssigned(s *ast.CallExpr, set map[string]bool) {
	se, ok := s.Fun.(*ast.SelectorExpr)
	if !ok {
		return
	}
	switch se.Sel.Name {
	case "Add", "SetBytesCanonical":
		if r := chainRoot(se.X); r != "" && f.lookup(r) != nil {
			set[r] = true
		}
		return
	}
	if id, ok := se.X.(*ast.Ident); ok {
		if t := f.lookup(id.Name); t != nil && t.k == "struct" && se.Sel.Name != "encrypt" {
			set[id.Name] = true
		}
	}
}

func (f *impFn) isLocal(e ast.Expr) bool {
	id, ok := e.(*ast.Ident)
	return ok && f.lookup(id.Name) != nil
}

// call X.M(args) of a translated digest method on a struct variable X?
func (f *impFn) methodCall(v *ast.CallExpr) (x *ast.Ident, sig *impSig, name string, ok bool) {
	se, isSel := v.Fun.(*ast.SelectorExpr)
	if !isSel {
		return nil, nil, "", false
	}
	id, isId := se.X.(*ast.Ident)
	if !isId {
		return nil, nil, "", false
	}
	t := f.lookup(id.Name)
	if t == nil || t.k != "struct" || se.Sel.Name == "encrypt" {
		return nil, nil, "", false
	}
	sig = f.p.digMethods[se.Sel.Name]
	if sig == nil {
		f.p.die(v, "call of the method %s, which is not (yet) translated", se.Sel.Name)
	}
	return id, sig, se.Sel.Name, true
}

func (f *impFn) methodCallText(v *ast.CallExpr, x *ast.Ident, sig *impSig, name string, c *ictx) string {
	p := f.p
	if len(sig.params) != len(v.Args) || v.Ellipsis.IsValid() {
		p.die(v, "call of %s: arity", name)
	}
	out := lname(name) + digestAbsArgs + " " + lname(x.Name)
	for i, a := range v.Args {
		as, at := f.expr(a, sig.params[i], c)
		if !at.eq(sig.params[i]) {
			p.die(a, "argument %d of %s: %v expected, %v given", i, name, sig.params[i], at)
		}
		out += " " + parenImp(as)
	}
	return out
}

// expressions added by the digest mode; ok = false: not one of them
func (f *impFn) digestExpr(e ast.Expr, want *ity, c *ictx) (string, *ity, bool) {
	p := f.p
	switch v := e.(type) {
	case *ast.Ident:
		if v.Name == "BlockSize" && f.lookup(v.Name) == nil {
			return "BlockSize", tyInt, true
		}
	case *ast.SelectorExpr:
		if id, ok := v.X.(*ast.Ident); ok && id.Name == "fr" && f.lookup("fr") == nil {
			if v.Sel.Name == "BigEndian" {
				return "frBigEndian", &ity{k: "abs", name: "BO"}, true
			}
			p.die(e, "fr.%s outside the subset", v.Sel.Name)
		}
	case *ast.SliceExpr:
		if v.Low == nil && v.High == nil && v.Max == nil {
			return "", nil, false
		}
		if v.Max != nil {
			p.die(e, "3-index slice expression")
		}
		xs, xt := f.expr(v.X, nil, c)
		if xt.k != "slice" {
			p.die(e, "slice expression on %v", xt)
		}
		lo, hi := "0", "len "+parenImp(xs)
		if v.Low != nil {
			ls, lt := f.expr(v.Low, tyInt, c)
			if lt.k != "int" {
				p.die(e, "slice bound type")
			}
			lo = ls
		}
		if v.High != nil {
			hs, ht := f.expr(v.High, tyInt, c)
			if ht.k != "int" {
				p.die(e, "slice bound type")
			}
			hi = hs
		}
		return "subslice " + parenImp(xs) + " " + parenImp(lo) + " " + parenImp(hi), xt, true
	case *ast.CompositeLit:
		t := p.goType(v.Type)
		if t.k == "elem" {
			for _, el := range v.Elts {
				if bl, ok := el.(*ast.BasicLit); !ok || bl.Kind != token.INT || bl.Value != "0" {
					p.die(el, "element literal with a limb that is not the literal 0")
				}
			}
			return "fZero", t, true
		}
		if t.k == "struct" {
			given := map[string]string{}
			for _, el := range v.Elts {
				kv, ok := el.(*ast.KeyValueExpr)
				if !ok {
					p.die(el, "unkeyed composite literal")
				}
				fname := kv.Key.(*ast.Ident).Name
				var ft *ity
				for _, fl := range p.structs[t.name] {
					if fl.name == fname {
						ft = fl.ty
					}
				}
				if ft == nil {
					p.die(el, "no field %s", fname)
				}
				vs, vt := f.expr(kv.Value, ft, c)
				if !vt.eq(ft) {
					p.die(el, "field %s: %v expected, %v given", fname, ft, vt)
				}
				given[fname] = vs
			}
			var parts []string
			for _, fl := range p.structs[t.name] {
				if g, ok := given[fl.name]; ok {
					parts = append(parts, fl.name+" := "+g)
				} else {
					if fl.ty.k == "abs" {
						p.die(e, "composite literal leaves the interface field %s nil", fl.name)
					}
					parts = append(parts, fl.name+" := "+p.zero(fl.ty))
				}
			}
			return "({ " + strings.Join(parts, ", ") + " } : " + p.lty(t, true) + ")", t, true
		}
	case *ast.CallExpr:
		return f.digestCall(v, want, c)
	}
	return "", nil, false
}

func (f *impFn) digestCall(v *ast.CallExpr, want *ity, c *ictx) (string, *ity, bool) {
	p := f.p
	// []byte("literal")
	if at, ok := v.Fun.(*ast.ArrayType); ok && len(v.Args) == 1 && at.Len == nil {
		if bl, ok := v.Args[0].(*ast.BasicLit); ok && bl.Kind == token.STRING && exprText(at.Elt) == "byte" {
			s, err := strconv.Unquote(bl.Value)
			if err != nil {
				p.die(v, "string literal")
			}
			var bs []string
			for _, b := range []byte(s) {
				bs = append(bs, strconv.Itoa(int(b)))
			}
			return "(([" + strings.Join(bs, ", ") + "] : Bytes) /- []byte(" + strings.ReplaceAll(bl.Value, "-/", "- /") + ") -/)", tyBytes, true
		}
	}
	// (*[N]byte)(s)
	if pe, ok := v.Fun.(*ast.ParenExpr); ok && len(v.Args) == 1 {
		if st, ok := pe.X.(*ast.StarExpr); ok {
			if at, ok := st.X.(*ast.ArrayType); ok && at.Len != nil && exprText(at.Elt) == "byte" {
				ns, nt := f.expr(at.Len, tyInt, c)
				xs, xt := f.expr(v.Args[0], tyBytes, c)
				if nt.k != "int" || !xt.eq(tyBytes) {
					p.die(v, "array-pointer conversion form")
				}
				return "arrayPtr " + parenImp(ns) + " " + parenImp(xs), tyBytes, true
			}
		}
	}
	switch exprText(v.Fun) {
	case "make":
		if len(v.Args) == 3 && f.lookup("make") == nil {
			t := p.goType(v.Args[0])
			if bl, ok := v.Args[1].(*ast.BasicLit); !ok || bl.Value != "0" || t.k != "slice" {
				p.die(v, "make with a capacity: only make([]T, 0, cap)")
			}
			if _, ct := f.expr(v.Args[2], tyInt, c); ct.k != "int" {
				p.die(v, "make capacity type")
			}
			return "([] : " + p.lty(t, true) + ")", t, true
		}
	case "append":
		if v.Ellipsis.IsValid() && f.lookup("append") == nil {
			if len(v.Args) != 2 {
				p.die(v, "append(x, y...) form")
			}
			xs, xt := f.expr(v.Args[0], want, c)
			ys, yt := f.expr(v.Args[1], xt, c)
			if xt.k != "slice" || !yt.eq(xt) {
				p.die(v, "append(%v, %v...)", xt, yt)
			}
			return parenImp(xs) + " ++ " + parenImp(ys), xt, true
		}
	case "fr.Hash":
		p.die(v, "fr.Hash outside a `x, err := fr.Hash(…)` statement")
	}
	se, ok := v.Fun.(*ast.SelectorExpr)
	if !ok {
		return "", nil, false
	}
	if id, ok := se.X.(*ast.Ident); ok && f.lookup(id.Name) == nil {
		return "", nil, false // package-qualified
	}
	if se.Sel.Name == "encrypt" && len(v.Args) == 1 {
		xs, xt := f.expr(se.X, nil, c)
		if _, isId := se.X.(*ast.Ident); !isId || xt.k != "struct" {
			p.die(v, "encrypt on something else than a digest variable")
		}
		as, at := f.expr(v.Args[0], nil, c)
		if at.k != "elem" {
			p.die(v, "encrypt argument")
		}
		return "encrypt " + parenImp(xs) + ".h " + parenImp(as), &ity{k: "elem"}, true
	}
	if _, _, name, ok := f.methodCall(v); ok {
		p.die(v, "call of the state-changing method %s inside an expression (only as `x := d.%s(…)` / `_ = …` / a statement)", name, name)
	}
	if se.Sel.Name == "Bytes" && len(v.Args) == 0 {
		xs, xt := f.expr(se.X, nil, c)
		if xt.k == "elem" {
			return "fBytes " + parenImp(xs), tyBytes, true
		}
	}
	return "", nil, false
}

// bind the results of a call to the left-hand sides (identifiers or _)
func (f *impFn) digestBind(s *ast.AssignStmt, tys []*ity) []string {
	p := f.p
	if len(s.Lhs) != len(tys) {
		p.die(s, "assignment arity: %d results", len(tys))
	}
	var ns []string
	for i, l := range s.Lhs {
		id, ok := l.(*ast.Ident)
		if !ok {
			p.die(l, "result assigned to a non-variable")
		}
		if id.Name == "_" {
			ns = append(ns, "_")
			continue
		}
		if s.Tok == token.DEFINE {
			f.declare(l, id.Name, tys[i])
		} else if t := f.lookup(id.Name); t == nil || !t.eq(tys[i]) {
			p.die(l, "assignment type")
		} else {
			f.killGuards(id.Name)
		}
		ns = append(ns, lname(id.Name))
	}
	return ns
}

func tuplePat(ns []string) string {
	if len(ns) == 1 {
		return ns[0]
	}
	return "(" + strings.Join(ns, ", ") + ")"
}

// an element-typed operand `&path` / `path`
func (f *impFn) elemArg(a ast.Expr, c *ictx) string {
	if u, ok := a.(*ast.UnaryExpr); ok && u.Op == token.AND {
		a = u.X
	}
	as, at := f.expr(a, nil, c)
	if at.k != "elem" {
		f.p.die(a, "element operand expected, %v given", at)
	}
	return parenImp(as)
}

// X.M(args) with X an element path or another such call: the lets, left to right, and the receiver path
func (f *impFn) elemChain(call *ast.CallExpr, c *ictx) ([]string, ast.Expr) {
	p := f.p
	se, ok := call.Fun.(*ast.SelectorExpr)
	if !ok {
		p.die(call, "element method chain form")
	}
	var lines []string
	recv := se.X
	if inner, ok := se.X.(*ast.CallExpr); ok {
		lines, recv = f.elemChain(inner, c)
	}
	switch recv.(type) {
	case *ast.Ident, *ast.SelectorExpr:
	default:
		p.die(call, "receiver of an element method that is neither a variable nor a field path")
	}
	if _, rt := f.expr(recv, nil, c); rt.k != "elem" {
		p.die(call, "method %s on %v", se.Sel.Name, rt)
	}
	var val string
	switch {
	case se.Sel.Name == "Add" && len(call.Args) == 2:
		val = "fAdd " + f.elemArg(call.Args[0], c) + " " + f.elemArg(call.Args[1], c)
	default:
		p.die(call, "element method %s outside the subset", se.Sel.Name)
	}
	root, nv := f.upd(recv, val, c)
	lines = append(lines, "let "+lname(root)+" := "+nv)
	return lines, recv
}

// statements added by the digest mode; ok = false: not one of them
func (f *impFn) digestSimple(s ast.Stmt, c *ictx) ([]string, bool) {
	p := f.p
	switch v := s.(type) {
	case *ast.AssignStmt:
		if v.Tok == token.ADD_ASSIGN && len(v.Lhs) == 1 && len(v.Rhs) == 1 {
			xs, xt := f.expr(v.Lhs[0], nil, c)
			es, et := f.expr(v.Rhs[0], tyInt, c)
			if xt.k != "int" || et.k != "int" {
				p.die(s, "+= on %v, %v", xt, et)
			}
			root, nv := f.upd(v.Lhs[0], xs+" + "+parenImp(es), c)
			return []string{"let " + lname(root) + " := " + nv}, true
		}
		if (v.Tok != token.DEFINE && v.Tok != token.ASSIGN) || len(v.Rhs) != 1 {
			return nil, false
		}
		call, ok := v.Rhs[0].(*ast.CallExpr)
		if !ok {
			return nil, false
		}
		if exprText(call.Fun) == "fr.Hash" && f.lookup("fr") == nil {
			if len(call.Args) != 3 || call.Ellipsis.IsValid() {
				p.die(s, "fr.Hash arity")
			}
			a0, t0 := f.expr(call.Args[0], tyBytes, c)
			a1, t1 := f.expr(call.Args[1], tyBytes, c)
			a2, t2 := f.expr(call.Args[2], tyInt, c)
			if !t0.eq(tyBytes) || !t1.eq(tyBytes) || t2.k != "int" {
				p.die(s, "fr.Hash argument types")
			}
			ns := f.digestBind(v, []*ity{{k: "slice", elem: &ity{k: "elem"}}, tyErr})
			return []string{"let " + tuplePat(ns) + " := frHash " + parenImp(a0) + " " + parenImp(a1) + " " + parenImp(a2)}, true
		}
		se, ok := call.Fun.(*ast.SelectorExpr)
		if !ok {
			return nil, false
		}
		if id, ok := se.X.(*ast.Ident); ok && f.lookup(id.Name) == nil {
			return nil, false
		}
		if x, sig, name, ok := f.methodCall(call); ok {
			txt := f.methodCallText(call, x, sig, name, c)
			if len(sig.results) == 0 {
				p.die(s, "method %s has no result", name)
			}
			ns := f.digestBind(v, sig.results)
			f.killGuards(x.Name)
			return []string{"let (" + lname(x.Name) + ", " + tuplePat(ns) + ") := " + txt}, true
		}
		if se.Sel.Name == "Element" && len(call.Args) == 1 {
			bs, bt := f.expr(se.X, nil, c)
			if bt.k == "abs" {
				as, at := f.expr(call.Args[0], tyBytes, c)
				if !at.eq(tyBytes) {
					p.die(s, "ByteOrder.Element argument")
				}
				ns := f.digestBind(v, []*ity{{k: "elem"}, tyErr})
				return []string{"let " + tuplePat(ns) + " := boElement " + parenImp(bs) + " " + parenImp(as)}, true
			}
		}
		if se.Sel.Name == "SetBytesCanonical" && len(call.Args) == 1 {
			switch se.X.(type) {
			case *ast.Ident, *ast.SelectorExpr:
			default:
				p.die(s, "SetBytesCanonical receiver form")
			}
			zs, zt := f.expr(se.X, nil, c)
			as, at := f.expr(call.Args[0], tyBytes, c)
			if zt.k != "elem" || !at.eq(tyBytes) {
				p.die(s, "SetBytesCanonical form")
			}
			tmp := strings.NewReplacer(".", "_", "(", "", ")", "").Replace(exprText(se.X)) + "_"
			root, nv := f.upd(se.X, tmp, c)
			ns := f.digestBind(v, []*ity{tyErr})
			return []string{"let (" + tmp + ", " + ns[0] + ") := fSetBytesCanonical " + parenImp(zs) + " " + parenImp(as),
				"let " + lname(root) + " := " + nv}, true
		}
	case *ast.ExprStmt:
		call, ok := v.X.(*ast.CallExpr)
		if !ok {
			return nil, false
		}
		se, ok := call.Fun.(*ast.SelectorExpr)
		if !ok {
			return nil, false
		}
		if id, ok := se.X.(*ast.Ident); ok && f.lookup(id.Name) == nil {
			return nil, false
		}
		if x, sig, name, ok := f.methodCall(call); ok {
			txt := f.methodCallText(call, x, sig, name, c)
			f.killGuards(x.Name)
			if len(sig.results) == 0 {
				return []string{"let " + lname(x.Name) + " := " + txt}, true
			}
			return []string{"let (" + lname(x.Name) + ", _) := " + txt}, true
		}
		if se.Sel.Name == "Add" {
			lines, _ := f.elemChain(call, c)
			return lines, true
		}
	}
	return nil, false
}

// Gen/Imp/MimcAll.lean: the translations of all mimc packages are the same Lean terms as the ones of ecc/bn254 (SetState up to its
// length literal, which is exposed as `stateLen`)
func emitMimcAll() {
	var names []string
	for _, d := range digestDirs() {
		names = append(names, mimcPkgName(d))
	}
	var b strings.Builder
	b.WriteString("/- GENERATED by tools/goslp (imp_digest.go) on every run. DO NOT EDIT.\n   The digest methods of the mimc packages: every translation is the same Lean term as the one of ecc/bn254/fr/mimc\n   (SetState: up to the length literal of its first test, recorded here as `stateLen`). -/\n")
	for _, n := range names {
		b.WriteString("import GnarkVerif.Gen.Imp.Mimc_" + n + "\n")
	}
	b.WriteString("\nset_option linter.unusedSimpArgs false\n\nnamespace GV.Gen.Imp.MimcAll\nopen GV.GoImp\n\n")
	b.WriteString("/-- (package, the literal n of `if len(newState) != n` in SetState) -/\ndef stateLen : List (String × Int) := [\n")
	for i, n := range names {
		sep := ","
		if i == len(names)-1 {
			sep = ""
		}
		fmt.Fprintf(&b, "  (%q, %s)%s\n", n, digestStateLen[n], sep)
	}
	b.WriteString("]\n\n")
	args := "F BO inst fZero fAdd encrypt boElement fBytes fSetBytesCanonical frHash frBigEndian BlockSize"
	for _, n := range names {
		if n == "bn254" {
			continue
		}
		fmt.Fprintf(&b, "theorem %s_checksum_loop_same : @Mimc_%s.checksum.loop1 = @Mimc_bn254.checksum.loop1 := by\n  funext %s l d\n  induction l generalizing d with\n  | nil => rfl\n  | cons i l ih => simp only [Mimc_%s.checksum.loop1, Mimc_bn254.checksum.loop1, ih]\n", n, n, args, n)
		fmt.Fprintf(&b, "theorem %s_Write_loop_same : @Mimc_%s.Write.loop1 = @Mimc_bn254.Write.loop1 := by\n  funext %s d p fuel elems start\n  induction fuel generalizing elems start with\n  | zero => rfl\n  | succ k ih => simp only [Mimc_%s.Write.loop1, Mimc_bn254.Write.loop1, ih]\n", n, n, args, n)
		for _, fn := range digestFuncs {
			if fn == "SetState" && digestStateLen[n] != digestStateLen["bn254"] {
				continue
			}
			fmt.Fprintf(&b, "theorem %s_%s_same : @Mimc_%s.%s = @Mimc_bn254.%s := by\n  first | rfl | (funext %s%s; simp only [Mimc_%s.%s, Mimc_bn254.%s, %s_checksum_loop_same, %s_Write_loop_same, %s] <;> rfl)\n",
				n, fn, n, fn, fn, args, digestArgNames[fn], n, fn, fn, n, n, sameDeps(n, fn))
		}
		b.WriteString("\n")
	}
	b.WriteString("end GV.Gen.Imp.MimcAll\n")
	writeFile("Imp/MimcAll.lean", b.String())
}

func sameDeps(n, fn string) string {
	var ds []string
	for _, g := range digestFuncs {
		if g == fn {
			break
		}
		if g == "SetState" && digestStateLen[n] != digestStateLen["bn254"] {
			continue
		}
		ds = append(ds, n+"_"+g+"_same")
	}
	if len(ds) == 0 {
		return "true_and"
	}
	return strings.Join(ds, ", ")
}

var digestStateLen = map[string]string{}
var digestArgNames = map[string]string{} // explicit parameters of each translated function (" d p"), for the funext of MimcAll

// the literal of `if len(newState) != <n>` (first statement of SetState), recorded for MimcAll
func (p *impPkg) recordStateLen() {
	fd := p.funcs["SetState"]
	n := ""
	if fd != nil && fd.Body != nil && len(fd.Body.List) > 0 {
		if is, ok := fd.Body.List[0].(*ast.IfStmt); ok {
			if be, ok := is.Cond.(*ast.BinaryExpr); ok && be.Op == token.NEQ && strings.HasPrefix(exprText(be.X), "len(") {
				if bl, ok := be.Y.(*ast.BasicLit); ok && bl.Kind == token.INT {
					n = bl.Value
				}
			}
		}
	}
	if n == "" {
		die("imp: %s: SetState does not start with `if len(newState) != <literal>`", p.tg.dir)
	}
	digestStateLen[mimcPkgName(p.tg.dir)] = n
}
