// Part 6 (slpgroup.go): the GROUP-LEVEL straight-line code of the pairing-based verifiers (C11 / C17 tie T).
//
// A small dedicated go/ast symbolic executor (it shares nothing but `reject` with slp.go: the values here are abstract
// group elements, scalars, big.Int, errors and slices of them, not towers of field elements). It re-reads, on every run,
//
//	ecc/<curve>/kzg/kzg.go            Verify, fold, FoldProof, BatchVerifySinglePoint (k = 1..4), BatchVerifyMultiPoints (k = 1..3)
//	ecc/<curve>/fr/pedersen/pedersen.go  (*VerifyingKey).Verify, BatchVerifyMultiVk (k = 1..3 verifying keys; pok of length k and folded pok of length 1)
//
// of the 7 pairing curves and writes Gen/Verifier/{Kzg,Pedersen}_<curve>.lean: one Lean def per (function, slice lengths),
// polymorphic over abstract types  G (G1Affine / G1Jac / Digest), G2 (G2Affine), S (fr.Element), L (the precomputed line
// table of a kzg VerifyingKey) with core classes only.
//
// PRIMITIVES (their meaning is what C03 / C04 / C05 prove or test about the curve packages; nothing of them is read here):
//
//	G:  FromAffine / FromJacobian / Set            x
//	    AddAssign a, SubAssign a, Add a b, Sub a b, Neg a     recv + a, recv - a, a + b, a - b, -a
//	    ScalarMultiplication a s                   s • a                    (s : Int, a big.Int)
//	    JointScalarMultiplication a b s t          s • a + t • b
//	    MultiExp points scalars cfg                toInt c0 • p0 + (toInt c1 • p1 + (… + 0)); the error result is nil:
//	                                               the two lengths are known at translation time and must be equal
//	    Fold points coeff cfg                      MultiExp with the scalars 1, c, c·c, … (multiexp.go G1Jac.Fold; its text is not re-read)
//	    IsInSubGroup                               PARAMETER isInSubGroup : G → Bool
//	S:  Neg Add Sub Mul Set SetOne SetZero         ring operations;  BigInt: PARAMETER toInt : S → Int (canonical representative)
//	    SetRandom                                  per call site a PARAMETER random_i : S and random_i_err : Bool
//	    fr.NewElement(n)                           the literal n
//	PairingCheckFixedQ P lines                     PARAMETER pairingCheckFixedQ : List G → L → Bool   (∏ e(Pᵢ, Qᵢ) = 1 where
//	                                               lines = vk.Lines = [PrecomputeLines(vk.G2[0]), PrecomputeLines(vk.G2[1])] – the
//	                                               translator CHECKS that NewSRS fills Lines exactly so); error result nil: len(P) = 2 = len(lines)
//	PairingCheck P Q                               PARAMETER pairingCheck : List G → List G2 → Bool; error nil: lengths equal and non-zero
//	deriveGamma point digests values hf data…      PARAMETER deriveGamma : S → List G → List S → S  and deriveGamma_err : Bool
//
// Everything else must be in the statement subset below or the run fails (gvgoslp exits non-zero):
// var declarations, := / = (tuple results too), method-call statements and chains, composite literals of the known types,
// make / new / len, `for` loops whose bounds are known at translation time (unrolled; slices have the lengths fixed by the
// specialisation), `if` decided at translation time, `if` on a run-time Bool / error whose then-branch returns, return.
// Calls to other functions of the same package are calls to their own generated defs (specialised to the lengths at
// the call site). A function may not write through a pointer / slice parameter.
package main

import (
	"bytes"
	"fmt"
	"go/ast"
	"go/parser"
	"go/printer"
	"go/token"
	"os"
	"path/filepath"
	"sort"
	"strconv"
	"strings"
)

// gexpr: the Go text of an expression
func gexpr(e ast.Expr) string {
	var b bytes.Buffer
	printer.Fprint(&b, token.NewFileSet(), e)
	return b.String()
}

type gkind int

const (
	gG gkind = iota
	gG2
	gS
	gZ
	gL
	gBool
	gErr
	gInt
	gStruct
	gSlice
	gArray
	gPtr
	gOpaque
	gLineElt
	gBytes // []byte and [N]byte: a Lean `List UInt8`
	gFp    // base-field element (a coordinate of a point)
	gHash  // hash.Hash object: nil-ness known at translation time, state = the list of Writes since Reset
	gByteT // the element type `byte` (only inside array / slice types)
	gStr   // a string literal (challenge names), known at translation time
	gFS    // *fiatshamir.Transcript: the data bound to each challenge so far, the challenges computed so far
)

type gfield struct {
	name string
	t    *gtype
}

type gtype struct {
	k      gkind
	name   string
	fields []gfield
	elem   *gtype
	n      int
}

func (t *gtype) leaf() bool {
	switch t.k {
	case gG, gG2, gS, gZ, gL, gBool, gErr, gBytes, gFp:
		return true
	}
	return false
}

func (t *gtype) lean() string {
	switch t.k {
	case gG:
		return "G"
	case gG2:
		return "G2"
	case gS:
		return "S"
	case gZ:
		return "Int"
	case gL:
		return "L"
	case gBool:
		return "Bool"
	case gErr:
		return "Res"
	case gBytes:
		return "List UInt8"
	case gFp:
		return "Fp"
	case gInt:
		return "Int"
	}
	reject("type %v has no Lean leaf type", t.k)
	return ""
}

type cellID int

// gv: a value. Leaves carry a Lean term; composite values refer to cells.
type gv struct {
	t      *gtype
	term   string // leaf term; gErr: the error when non-nil
	cond   string // gErr: non-nil iff this Bool term is true ("" : `term` is a Res term to be compared with Res.ok)
	static bool   // gInt / gBool / gErr(nil or a known error) known at translation time
	n      int    // static int, static bool (0/1), static err: 0 = nil, 1 = `term`
	fields []cellID
	elems  []cellID
	ptr    cellID   // gPtr: 0 = nil
	nat    string   // run-time gInt that is a length: the same value as a Lean Nat term
	strs   []string // gHash: the byte strings written since Reset
	dirty  bool     // gG: a coordinate was overwritten, the value is no longer a group element
	spare  []cellID // gSlice: the cells between len and cap (append within the capacity writes them: aliasing as in Go)
	strs2  []string // gFS: the challenges computed so far (byte-string terms)
}

type uparam struct {
	name, typ string
	site      bool // belongs to one call site (SetRandom)
}

type gvariant struct {
	name    string
	binders []string // "(x : G)"
	uparams []uparam
	ptypes  []*gtype // parameter types (receiver first)
	rtypes  []*gtype
	body    string
	doc     string
	inout   []int    // indices (in pointer-parameter order) of the pointer targets the function writes: returned after the results
	inoutT  []*gtype // their types
}

type gpkg struct {
	label, dir, file string
	fset             *token.FileSet
	f                *ast.File
	funcs            map[string]*ast.FuncDecl // "Verify", "VerifyingKey.Verify"
	types            map[string]ast.Expr
	aliases          map[string]bool
	errVars          map[string]bool
	imports          map[string]string
	variants         map[string]*gvariant
	order            []string
	inProgress       map[string]bool
	files            []*ast.File
	constExprs       map[string]ast.Expr
	varInits         map[string]ast.Expr
	uninterp         map[string]string // local functions NOT looked into: name -> Lean type of the parameter
	classes          string            // implicit type arguments and classes of every generated def
	typeArgs         string            // explicit type arguments at calls of generated defs
	fixedParams      string            // parameters every def takes first
	fixedArgs        string
	frIsCoord        bool              // fr.Element is the coordinate field of the points (eddsa)
	pointSetBytes    bool              // slpsign.go: P.SetBytes(b) on a point is the PARAMETER pair pointSetBytes / pointSetBytesErr
	inline           map[string]bool   // functions of the package that are executed in place (they return / write slices)
	opaqueLenZero    bool              // the variadic dataTranscript is specialised to no data
	lensNames        map[string]string // readable names of specialisations
	namePrefix       string            // prefix of the def names (defs of another package emitted into this file)
	permMode         bool              // slpgperm.go: the additional primitives of permutation.Verify are allowed
	subPkgs          map[string]*gpkg
	hashNil          bool // this translation run: hash.Hash parameters are nil
	nameSuffix       string
	header           []string // extra defs at the head of the file (constants)
	headerSeen       map[string]bool
}

func loadGroupPkg(label, dir, file string) *gpkg {
	p := &gpkg{label: label, dir: dir, file: file, fset: token.NewFileSet(), funcs: map[string]*ast.FuncDecl{}, types: map[string]ast.Expr{},
		aliases: map[string]bool{}, errVars: map[string]bool{}, imports: map[string]string{}, variants: map[string]*gvariant{}, inProgress: map[string]bool{},
		constExprs: map[string]ast.Expr{}, varInits: map[string]ast.Expr{}, uninterp: map[string]string{}, headerSeen: map[string]bool{},
		classes: groupClasses, typeArgs: "(G := G) (G2 := G2) (S := S) (L := L)", fixedParams: "(toInt : S → Int)", fixedArgs: "toInt"}
	for _, one := range strings.Split(file, ",") {
		fn := filepath.Join(repo, dir, one)
		f, err := parser.ParseFile(p.fset, fn, nil, 0)
		if err != nil {
			die("slpgroup: parse %s: %v", fn, err)
		}
		p.files = append(p.files, f)
		if p.f == nil {
			p.f = f
		}
		p.loadFile(f)
	}
	return p
}

func (p *gpkg) loadFile(f *ast.File) {
	for _, im := range f.Imports {
		path := strings.Trim(im.Path.Value, "\"")
		name := strings.ReplaceAll(path[strings.LastIndex(path, "/")+1:], "-", "") // package names: bls12377, fiatshamir
		if im.Name != nil {
			name = im.Name.Name
		}
		if old, ok := p.imports[name]; ok && old != path {
			die("slpgroup: %s: import name %s used for two packages", p.label, name)
		}
		p.imports[name] = path
	}
	for _, d := range f.Decls {
		switch d := d.(type) {
		case *ast.FuncDecl:
			key := d.Name.Name
			if d.Recv != nil && len(d.Recv.List) == 1 {
				rt := d.Recv.List[0].Type
				if st, ok := rt.(*ast.StarExpr); ok {
					rt = st.X
				}
				if id, ok := rt.(*ast.Ident); ok {
					key = id.Name + "." + key
				}
			}
			p.funcs[key] = d
		case *ast.GenDecl:
			for _, sp := range d.Specs {
				switch sp := sp.(type) {
				case *ast.TypeSpec:
					p.types[sp.Name.Name] = sp.Type
					if sp.Assign.IsValid() {
						p.aliases[sp.Name.Name] = true
					}
				case *ast.ValueSpec:
					for i, nm := range sp.Names {
						if i < len(sp.Values) {
							if c, ok := sp.Values[i].(*ast.CallExpr); ok && gexpr(c.Fun) == "errors.New" {
								p.errVars[nm.Name] = true
							} else if d.Tok == token.CONST {
								p.constExprs[nm.Name] = sp.Values[i]
							} else {
								p.varInits[nm.Name] = sp.Values[i]
							}
						}
					}
				}
			}
		}
	}
}

// subPkg: another gnark-crypto package whose types are used here (kzg.Digest, kzg.VerifyingKey)
func (p *gpkg) subPkg(name, file string) *gpkg {
	if p.subPkgs == nil {
		p.subPkgs = map[string]*gpkg{}
	}
	if q, ok := p.subPkgs[name]; ok {
		return q
	}
	dir, ok := p.importDir(name)
	if !ok {
		reject("%s: package %s is not imported", p.label, name)
	}
	q := loadGroupPkg(p.label+"/"+name, dir, file)
	p.subPkgs[name] = q
	return q
}

// importDir: the repository directory of an imported gnark-crypto package
func (p *gpkg) importDir(name string) (string, bool) {
	path, ok := p.imports[name]
	if !ok || !strings.HasPrefix(path, "github.com/consensys/gnark-crypto/") {
		return "", false
	}
	return strings.TrimPrefix(path, "github.com/consensys/gnark-crypto/"), true
}

var fieldConstCache = map[string]*fieldConsts{}

func fieldOf(dir string) *fieldConsts {
	if fc, ok := fieldConstCache[dir]; ok {
		return fc
	}
	fc := extractField(dir)
	fieldConstCache[dir] = fc
	return fc
}

// constInt: an integer constant expression of the package (sizeFr = fr.Bytes, sizeSignature = 2 * sizeFr, …)
func (p *gpkg) constInt(e ast.Expr) (int, bool) {
	switch e := e.(type) {
	case *ast.BasicLit:
		if e.Kind == token.INT {
			n, err := strconv.ParseInt(e.Value, 0, 64)
			if err == nil {
				return int(n), true
			}
		}
	case *ast.ParenExpr:
		return p.constInt(e.X)
	case *ast.Ident:
		if ce, ok := p.constExprs[e.Name]; ok {
			return p.constInt(ce)
		}
	case *ast.SelectorExpr:
		if id, ok := e.X.(*ast.Ident); ok && (id.Name == "fr" || id.Name == "fp") && (e.Sel.Name == "Bytes" || e.Sel.Name == "Bits" || e.Sel.Name == "Limbs") {
			if dir, ok := p.importDir(id.Name); ok {
				if v, ok := fieldOf(dir).consts[e.Sel.Name]; ok {
					return int(v.Int64()), true
				}
			}
		}
	case *ast.BinaryExpr:
		a, ok1 := p.constInt(e.X)
		b, ok2 := p.constInt(e.Y)
		if ok1 && ok2 {
			switch e.Op {
			case token.ADD:
				return a + b, true
			case token.SUB:
				return a - b, true
			case token.MUL:
				return a * b, true
			}
		}
	}
	return 0, false
}

// curvePkgName: the import name of the curve package (bn254 / curve …): the one import whose path is ecc/<curve>
func (p *gpkg) isCurveImport(name string) bool {
	path, ok := p.imports[name]
	return ok && strings.HasPrefix(path, "github.com/consensys/gnark-crypto/ecc/") && strings.Count(strings.TrimPrefix(path, "github.com/consensys/gnark-crypto/ecc/"), "/") == 0
}

func (p *gpkg) typeOf(e ast.Expr) *gtype {
	switch e := e.(type) {
	case *ast.Ident:
		switch e.Name {
		case "error":
			return &gtype{k: gErr}
		case "int":
			return &gtype{k: gInt}
		case "uint64":
			if p.permMode { // slpgperm.go: plookup's ProofLookupVector.size; an exact Int in [0, 2^64) with the u64 operations
				return &gtype{k: gInt, name: "uint64"}
			}
		case "bool":
			return &gtype{k: gBool}
		case "byte":
			return &gtype{k: gByteT}
		case "string":
			return &gtype{k: gStr}
		}
		te, ok := p.types[e.Name]
		if !ok {
			reject("unknown type %s", e.Name)
		}
		if st, ok := te.(*ast.StructType); ok {
			t := &gtype{k: gStruct, name: e.Name}
			for _, fl := range st.Fields.List {
				ft := p.typeOf(fl.Type)
				if len(fl.Names) == 0 {
					reject("embedded field in %s", e.Name)
				}
				for _, nm := range fl.Names {
					t.fields = append(t.fields, gfield{nm.Name, ft})
				}
			}
			return t
		}
		return p.typeOf(te)
	case *ast.SelectorExpr:
		x, ok := e.X.(*ast.Ident)
		if !ok {
			reject("type %s", gexpr(e))
		}
		switch {
		case p.isCurveImport(x.Name) && (e.Sel.Name == "G1Affine" || e.Sel.Name == "G1Jac"):
			return &gtype{k: gG, name: e.Sel.Name}
		case (x.Name == "twistededwards" || x.Name == "bandersnatch") && e.Sel.Name == "PointAffine":
			return &gtype{k: gG, name: "PointAffine"}
		case x.Name == "fp" && e.Sel.Name == "Element":
			return &gtype{k: gFp}
		case p.isCurveImport(x.Name) && e.Sel.Name == "G2Affine":
			return &gtype{k: gG2}
		case p.isCurveImport(x.Name) && e.Sel.Name == "LineEvaluationAff":
			return &gtype{k: gLineElt}
		case x.Name == "kzg":
			return p.subPkg("kzg", "kzg.go").typeOf(e.Sel)
		case x.Name == "shplonk":
			return p.subPkg("shplonk", "shplonk.go").typeOf(e.Sel)
		case x.Name == "fiatshamir" && e.Sel.Name == "Transcript":
			return &gtype{k: gFS}
		case x.Name == "fr" && e.Sel.Name == "Element" && p.frIsCoord:
			return &gtype{k: gFp} // eddsa packages: fr is the field the twisted Edwards curve is defined over
		case x.Name == "fr" && e.Sel.Name == "Element":
			return &gtype{k: gS}
		case x.Name == "big" && e.Sel.Name == "Int":
			return &gtype{k: gZ}
		case x.Name == "hash" && e.Sel.Name == "Hash":
			return &gtype{k: gHash}
		case x.Name == "ecc" && e.Sel.Name == "MultiExpConfig":
			return &gtype{k: gOpaque}
		}
		reject("unknown type %s", gexpr(e))
	case *ast.StarExpr:
		return &gtype{k: gPtr, elem: p.typeOf(e.X)}
	case *ast.Ellipsis:
		et := p.typeOf(e.Elt)
		if et.k == gOpaque || et.k == gBytes {
			return &gtype{k: gOpaque} // dataTranscript ...[]byte: only ever handed to an uninterpreted callee
		}
		return &gtype{k: gSlice, elem: et}
	case *ast.ArrayType:
		et := p.typeOf(e.Elt)
		if et.k == gLineElt || et.k == gL {
			// [2][2][len(LoopCounter)]LineEvaluationAff : the precomputed line table, opaque as a whole
			if e.Len == nil {
				reject("slice type over line evaluations")
			}
			return &gtype{k: gL}
		}
		if et.k == gOpaque {
			return et
		}
		if et.k == gByteT {
			if e.Len == nil {
				return &gtype{k: gBytes, n: -1}
			}
			n, ok := p.constInt(e.Len)
			if se, isSel := e.Len.(*ast.SelectorExpr); !ok && p.permMode && isSel && p.isCurveImport(gexpr(se.X)) && se.Sel.Name == "SizeOfG1AffineUncompressed" {
				// slpgperm.go: the buffer of deriveRandomness; it is overwritten as a whole by RawBytes() before it is read
				return &gtype{k: gBytes, n: -1}
			}
			if !ok {
				reject("byte array length %s", gexpr(e.Len))
			}
			return &gtype{k: gBytes, n: n}
		}
		if e.Len == nil {
			return &gtype{k: gSlice, elem: et}
		}
		n, ok := p.constInt(e.Len)
		if !ok {
			reject("array length %s", gexpr(e.Len))
		}
		return &gtype{k: gArray, elem: et, n: n}
	}
	reject("unsupported type expression %s", gexpr(e))
	return nil
}

// ---------------------------------------------------------------- translation of one function variant

type gscope struct {
	vars   map[string]cellID
	parent *gscope
}

func (s *gscope) lookup(n string) (cellID, bool) {
	for ; s != nil; s = s.parent {
		if c, ok := s.vars[n]; ok {
			return c, true
		}
	}
	return 0, false
}

type gtr struct {
	p           *gpkg
	v           *gvariant
	store       map[cellID]*gv
	names       map[cellID]string
	ro          map[cellID]bool
	next        cellID
	lines       []string
	counter     map[string]int
	nSite       int
	fname       string
	ptrTargets  []cellID                     // targets of the pointer parameters, in parameter order
	ptrOwner    map[cellID]int               // cell (any depth below a pointer target) -> index in ptrTargets
	written     map[int]bool                 // pointer targets written by the body
	inout       []int                        // second pass: the targets returned after the results
	coords      map[cellID]map[string]cellID // coordinate cells of a point variable
	coordOf     map[cellID]cellID            // coordinate cell -> its point
	calleePkg   *gpkg                        // set while a function of another package is called
	falseConds  map[string]bool              // run-time conditions known to be false here (we are in the else-branch of a test of them)
	retHook     func([]*gv)                  // non-nil while a function is executed in place
	inlineDepth int
}

func (x *gtr) markOwner(c cellID, idx int) {
	x.ptrOwner[c] = idx
	v := x.store[c]
	for _, f := range v.fields {
		x.markOwner(f, idx)
	}
	for _, e := range v.elems {
		x.markOwner(e, idx)
	}
}

// noteWrite: bookkeeping of a write to cell c
func (x *gtr) noteWrite(c cellID) {
	if i, ok := x.ptrOwner[c]; ok {
		x.written[i] = true
	}
	if o, ok := x.coordOf[c]; ok {
		// a coordinate of a point is overwritten: the point variable no longer holds a group element
		ov := *x.store[o]
		ov.dirty = true
		x.store[o] = &ov
	} else {
		delete(x.coords, c) // the point is re-assigned: its coordinate cells are stale
	}
}

func (x *gtr) cloneStore() map[cellID]*gv {
	m := make(map[cellID]*gv, len(x.store))
	for k, v := range x.store {
		m[k] = v
	}
	return m
}

func (x *gtr) newCell(name string, v *gv) cellID {
	x.next++
	x.store[x.next] = v
	x.names[x.next] = name
	return x.next
}

func zeroTerm(t *gtype) string {
	switch t.k {
	case gG:
		return "(0 : G)"
	case gG2:
		return "(0 : G2)"
	case gS:
		return "(0 : S)"
	case gZ:
		return "(0 : Int)"
	case gFp:
		return "(0 : Fp)"
	case gBytes:
		if t.n < 0 {
			return "([] : List UInt8)"
		}
		return fmt.Sprintf("(List.replicate %d (0 : UInt8))", t.n)
	}
	reject("no zero value for a variable of this type (%v)", t.k)
	return ""
}

// zero: a fresh cell holding the zero value of t (slices: nil slice of length 0)
func (x *gtr) zero(name string, t *gtype) cellID {
	switch t.k {
	case gG, gS, gZ, gFp, gBytes:
		return x.newCell(name, &gv{t: t, term: zeroTerm(t)})
	case gG2:
		return x.newCell(name, &gv{t: t, term: zeroTerm(t)})
	case gErr:
		return x.newCell(name, &gv{t: t, static: true, n: 0})
	case gInt, gBool:
		return x.newCell(name, &gv{t: t, static: true, n: 0})
	case gOpaque:
		return x.newCell(name, &gv{t: t})
	case gStruct:
		v := &gv{t: t}
		for _, f := range t.fields {
			v.fields = append(v.fields, x.zero(name+"_"+f.name, f.t))
		}
		return x.newCell(name, v)
	case gArray:
		v := &gv{t: t}
		for i := 0; i < t.n; i++ {
			v.elems = append(v.elems, x.zero(fmt.Sprintf("%s_%d", name, i), t.elem))
		}
		return x.newCell(name, v)
	case gSlice:
		return x.newCell(name, &gv{t: t})
	case gPtr:
		return x.newCell(name, &gv{t: t})
	}
	reject("zero value of type kind %v", t.k)
	return 0
}

// param: a cell holding a symbolic parameter of type t; leaves become binders; slice lengths are taken from lens
func (x *gtr) param(name string, t *gtype, lens *[]int, ro bool) cellID {
	var c cellID
	switch t.k {
	case gG, gG2, gS, gZ, gL, gBool, gBytes, gFp, gInt:
		// gInt: a run-time Go `int` (permutation.Proof.size), an exact Lean Int; see slpgperm.go for the operations allowed on it
		x.v.binders = append(x.v.binders, fmt.Sprintf("(%s : %s)", name, t.lean()))
		c = x.newCell(name, &gv{t: t, term: name})
	case gOpaque:
		c = x.newCell(name, &gv{t: t})
	case gHash:
		n := 1
		if x.p.hashNil {
			n = 0
		}
		c = x.newCell(name, &gv{t: t, static: true, n: n})
	case gStruct:
		v := &gv{t: t}
		for _, f := range t.fields {
			v.fields = append(v.fields, x.param(name+"_"+f.name, f.t, lens, ro))
		}
		c = x.newCell(name, v)
	case gArray:
		v := &gv{t: t}
		for i := 0; i < t.n; i++ {
			v.elems = append(v.elems, x.param(fmt.Sprintf("%s_%d", name, i), t.elem, lens, ro))
		}
		c = x.newCell(name, v)
	case gSlice:
		if len(*lens) == 0 {
			reject("no length given for slice parameter %s", name)
		}
		n := (*lens)[0]
		*lens = (*lens)[1:]
		v := &gv{t: t}
		for i := 0; i < n; i++ {
			v.elems = append(v.elems, x.param(fmt.Sprintf("%s_%d", name, i), t.elem, lens, true))
		}
		c = x.newCell(name, v)
	case gPtr:
		// the target may be written: the translation is run twice, the second time returning the written targets (gvariant.inout)
		tgt := x.param(name, t.elem, lens, false)
		x.ptrTargets = append(x.ptrTargets, tgt)
		x.markOwner(tgt, len(x.ptrTargets)-1)
		c = x.newCell(name, &gv{t: t, ptr: tgt})
	default:
		reject("parameter %s of unsupported type", name)
	}
	if ro {
		x.ro[c] = true
	}
	return c
}

func (x *gtr) renameCell(c cellID, name string) {
	old := x.names[c]
	x.names[c] = name
	v := x.store[c]
	for i, f := range v.fields {
		x.renameCell(f, name+strings.TrimPrefix(x.names[f], old))
		_ = i
	}
	for _, e := range v.elems {
		x.renameCell(e, name+strings.TrimPrefix(x.names[e], old))
	}
}

func (x *gtr) fresh(base string) string {
	x.counter[base]++
	return fmt.Sprintf("%s_v%d", base, x.counter[base])
}

func (x *gtr) need(name, typ string, site bool) {
	for _, u := range x.v.uparams {
		if u.name == name {
			if u.typ != typ {
				reject("parameter %s used at two types", name)
			}
			return
		}
	}
	x.v.uparams = append(x.v.uparams, uparam{name, typ, site})
}

// setLeaf: dst := rhs (one atomic update, one `let`)
func (x *gtr) setLeaf(c cellID, rhs string) {
	if x.ro[c] {
		reject("%s: write through a pointer / slice parameter (%s)", x.fname, x.names[c])
	}
	old := x.store[c]
	if !old.t.leaf() || old.t.k == gErr || old.t.k == gBool {
		reject("setLeaf on a non-leaf cell %s", x.names[c])
	}
	x.noteWrite(c)
	n := x.fresh(x.names[c])
	x.lines = append(x.lines, fmt.Sprintf("let %s : %s := %s", n, old.t.lean(), rhs))
	x.store[c] = &gv{t: old.t, term: n}
}

// useG: a point value is read as a group element
func (x *gtr) useG(v *gv) {
	if v.dirty {
		reject("%s: a point is used after one of its coordinates was overwritten", x.fname)
	}
}

// assign: Go assignment of the value v to the cell dst (deep copy of structs / arrays, headers of slices / pointers)
func (x *gtr) assign(dst cellID, v *gv) {
	if x.ro[dst] {
		reject("%s: write through a pointer / slice parameter (%s)", x.fname, x.names[dst])
	}
	d := x.store[dst]
	if d.t.k != v.t.k {
		reject("assignment between different kinds (%s)", x.names[dst])
	}
	switch d.t.k {
	case gG, gG2, gS, gZ, gBytes, gFp:
		x.useG(v)
		x.setLeaf(dst, v.term)
	case gL, gBool, gErr, gInt, gOpaque, gSlice, gPtr, gHash:
		x.noteWrite(dst)
		x.store[dst] = v
	case gStruct:
		if len(d.fields) != len(v.fields) {
			reject("struct assignment of different types")
		}
		for i := range d.fields {
			x.assign(d.fields[i], x.store[v.fields[i]])
		}
	case gArray:
		if len(d.elems) != len(v.elems) {
			reject("array assignment of different lengths")
		}
		for i := range d.elems {
			x.assign(d.elems[i], x.store[v.elems[i]])
		}
	default:
		reject("assignment of kind %v", d.t.k)
	}
}

func (x *gtr) staticInt(s *gscope, e ast.Expr) int {
	v := x.eval(s, e)
	if v.t.k != gInt || !v.static {
		reject("%s: %s is not an integer known at translation time", x.fname, gexpr(e))
	}
	return v.n
}

func mkInt(n int) *gv { return &gv{t: &gtype{k: gInt}, static: true, n: n} }
func mkBool(b bool) *gv {
	n := 0
	if b {
		n = 1
	}
	return &gv{t: &gtype{k: gBool}, static: true, n: n}
}

// lval: the cell an addressable expression denotes
func (x *gtr) lval(s *gscope, e ast.Expr) cellID {
	switch e := e.(type) {
	case *ast.ParenExpr:
		return x.lval(s, e.X)
	case *ast.Ident:
		c, ok := s.lookup(e.Name)
		if !ok {
			reject("%s: unknown variable %s", x.fname, e.Name)
		}
		return c
	case *ast.StarExpr:
		v := x.eval(s, e.X)
		if v.t.k != gPtr || v.ptr == 0 {
			reject("%s: dereference of %s", x.fname, gexpr(e.X))
		}
		return v.ptr
	case *ast.SelectorExpr:
		base := x.lval(s, e.X)
		bv := x.store[base]
		if bv.t.k == gPtr {
			if bv.ptr == 0 {
				reject("nil dereference %s", gexpr(e))
			}
			base = bv.ptr
			bv = x.store[base]
		}
		if bv.t.k == gG && (e.Sel.Name == "X" || e.Sel.Name == "Y" || e.Sel.Name == "Z") {
			return x.coordCell(base, e.Sel.Name)
		}
		if bv.t.k != gStruct {
			reject("%s: field %s of a non-struct", x.fname, gexpr(e))
		}
		for i, f := range bv.t.fields {
			if f.name == e.Sel.Name {
				return bv.fields[i]
			}
		}
		reject("%s: no field %s", x.fname, gexpr(e))
	case *ast.IndexExpr:
		i := x.staticInt(s, e.Index)
		var bv *gv
		if _, isCall := e.X.(*ast.CallExpr); isCall {
			bv = x.eval(s, e.X)
		} else {
			bv = x.store[x.lval(s, e.X)]
		}
		if bv.t.k != gSlice && bv.t.k != gArray {
			reject("%s: index of a non-slice %s", x.fname, gexpr(e))
		}
		if i < 0 || i >= len(bv.elems) {
			reject("%s: index out of range in %s (i = %d, len = %d): the Go code panics here", x.fname, gexpr(e), i, len(bv.elems))
		}
		return bv.elems[i]
	}
	reject("%s: not addressable: %s", x.fname, gexpr(e))
	return 0
}

// coordCell: the cell of a coordinate of the point held in cell c. Reading it is an uninterpreted PARAMETER function
// (jacX / jacZ : G → Fp for a Jacobian point, affX / affY for an affine one) of the current value of the point.
func (x *gtr) coordCell(c cellID, coord string) cellID {
	if m, ok := x.coords[c]; ok {
		if cc, ok := m[coord]; ok {
			return cc
		}
	}
	pv := x.store[c]
	// (a coordinate that was not overwritten still holds the coordinate of the last group-element value: pv.term)
	var fn string
	switch pv.t.name {
	case "G1Jac":
		fn = "jac" + coord
	case "G1Affine", "PointAffine":
		if coord == "Z" {
			reject("%s: Z coordinate of an affine point", x.fname)
		}
		fn = "aff" + coord
	default:
		reject("%s: coordinate of a point of unknown representation", x.fname)
	}
	x.need(fn, "G → Fp", false)
	cc := x.newCell(x.names[c]+"_"+coord, &gv{t: &gtype{k: gFp}, term: fmt.Sprintf("%s %s", fn, gparen(pv.term))})
	if _, ok := x.ptrOwner[c]; ok {
		x.ptrOwner[cc] = x.ptrOwner[c]
	}
	if x.coords[c] == nil {
		x.coords[c] = map[string]cellID{}
	}
	x.coords[c][coord] = cc
	x.coordOf[cc] = c
	return cc
}

func intTerm(v *gv) string {
	if v.static {
		return fmt.Sprintf("(%d : Int)", v.n)
	}
	return v.term
}

func (x *gtr) errTerm(v *gv) string {
	if v.static {
		if v.n == 0 {
			return "Res.ok"
		}
		return v.term
	}
	if v.cond != "" {
		return fmt.Sprintf("(if %s then %s else Res.ok)", v.cond, v.term)
	}
	return v.term
}

// eval: r-value of an expression (single value)
func (x *gtr) eval(s *gscope, e ast.Expr) *gv {
	switch e := e.(type) {
	case *ast.ParenExpr:
		return x.eval(s, e.X)
	case *ast.BasicLit:
		if e.Kind == token.INT {
			n, err := strconv.Atoi(e.Value)
			if err == nil {
				return mkInt(n)
			}
		}
		if e.Kind == token.STRING {
			return &gv{t: &gtype{k: gStr}, static: true, term: e.Value}
		}
		reject("%s: literal %s", x.fname, e.Value)
	case *ast.Ident:
		switch e.Name {
		case "nil":
			return &gv{t: &gtype{k: gErr}, static: true, n: 0}
		case "true":
			return mkBool(true)
		case "false":
			return mkBool(false)
		}
		if c, ok := s.lookup(e.Name); ok {
			return x.store[c]
		}
		if x.p.errVars[e.Name] {
			return &gv{t: &gtype{k: gErr}, static: true, n: 1, term: fmt.Sprintf("(Res.err %q)", e.Name)}
		}
		if _, ok := x.p.constExprs[e.Name]; ok {
			if n, ok := x.p.constInt(e); ok {
				return mkInt(n)
			}
		}
		if init, ok := x.p.varInits[e.Name]; ok {
			// package-level variable: its initialiser is evaluated here (only `fr.Modulus()` is known); read-only
			if c, ok := init.(*ast.CallExpr); ok && gexpr(c.Fun) == "fr.Modulus" {
				v := x.eval(&gscope{vars: map[string]cellID{}}, init)
				x.ro[v.ptr] = true
				return v
			}
		}
		reject("%s: unknown identifier %s", x.fname, e.Name)
	case *ast.SelectorExpr, *ast.IndexExpr, *ast.StarExpr:
		if se, ok := e.(*ast.SelectorExpr); ok {
			// a constant of the field package (fr.Bytes, …), when `fr` is not a variable
			if id, ok := se.X.(*ast.Ident); ok {
				if _, isVar := s.lookup(id.Name); !isVar {
					if n, ok := x.p.constInt(se); ok {
						return mkInt(n)
					}
				}
			}
		}
		return x.store[x.lval(s, e)]
	case *ast.UnaryExpr:
		switch e.Op {
		case token.AND:
			if cl, ok := e.X.(*ast.CompositeLit); ok {
				c := x.newCell("lit", x.composite(s, cl))
				return &gv{t: &gtype{k: gPtr, elem: x.store[c].t}, ptr: c}
			}
			c := x.lval(s, e.X)
			return &gv{t: &gtype{k: gPtr, elem: x.store[c].t}, ptr: c}
		case token.NOT:
			v := x.eval(s, e.X)
			if v.t.k != gBool {
				reject("%s: ! of a non-bool", x.fname)
			}
			if v.static {
				return mkBool(v.n == 0)
			}
			return &gv{t: v.t, term: "(!" + v.term + ")"}
		case token.SUB:
			return mkInt(-x.staticInt(s, e.X))
		}
	case *ast.BinaryExpr:
		return x.binary(s, e)
	case *ast.CompositeLit:
		return x.composite(s, e)
	case *ast.SliceExpr:
		// x[:] of an opaque line table; x[lo:hi] of a byte string with bounds known at translation time
		v := x.eval(s, e.X)
		if e.Low == nil && e.High == nil && e.Max == nil && (v.t.k == gL || v.t.k == gBytes) {
			return v
		}
		if v.t.k == gSlice && e.Max == nil {
			lo, hi := 0, len(v.elems)
			if e.Low != nil {
				lo = x.staticInt(s, e.Low)
			}
			if e.High != nil {
				hi = x.staticInt(s, e.High)
			}
			if lo < 0 || hi < lo || hi > len(v.elems)+len(v.spare) {
				reject("%s: slice bounds out of range in %s: the Go code panics here", x.fname, gexpr(e))
			}
			all := append(append([]cellID(nil), v.elems...), v.spare...)
			return &gv{t: v.t, elems: all[lo:hi], spare: all[hi:]}
		}
		if v.t.k == gBytes && e.Max == nil {
			// NOTE: Go panics when hi > cap; List.take / List.drop truncate. The callers establish the length first.
			t := gparen(v.term)
			lo, hi := -1, -1
			if e.Low != nil {
				lo = x.staticInt(s, e.Low)
			}
			if e.High != nil {
				hi = x.staticInt(s, e.High)
			}
			if v.t.n >= 0 && lo <= 0 && hi == v.t.n {
				return v // the whole array
			}
			switch {
			case lo > 0 && hi >= 0:
				t = fmt.Sprintf("((%s.drop %d).take %d)", t, lo, hi-lo)
			case lo > 0:
				t = fmt.Sprintf("(%s.drop %d)", t, lo)
			case hi >= 0:
				t = fmt.Sprintf("(%s.take %d)", t, hi)
			}
			return &gv{t: &gtype{k: gBytes, n: -1}, term: t}
		}
		reject("%s: slice expression %s", x.fname, gexpr(e))
	case *ast.CallExpr:
		rs := x.call(s, e)
		if len(rs) != 1 {
			reject("%s: call %s used as a single value has %d results", x.fname, gexpr(e.Fun), len(rs))
		}
		return rs[0]
	}
	reject("%s: unsupported expression %s", x.fname, gexpr(e))
	return nil
}

func (x *gtr) binary(s *gscope, e *ast.BinaryExpr) *gv {
	switch e.Op {
	case token.LOR, token.LAND:
		a := x.eval(s, e.X)
		if a.t.k != gBool {
			reject("%s: %s of non-bool", x.fname, e.Op)
		}
		if a.static {
			if (e.Op == token.LOR) == (a.n == 1) {
				return a // short circuit: the right operand is not evaluated
			}
			b := x.eval(s, e.Y)
			if b.t.k != gBool {
				reject("%s: %s of non-bool", x.fname, e.Op)
			}
			return b
		}
		b := x.eval(s, e.Y)
		if b.t.k != gBool {
			reject("%s: %s of non-bool", x.fname, e.Op)
		}
		if b.static {
			// a OP const: a || true = true needs a to have no effect (it has none: conditions are pure terms)
			if (e.Op == token.LOR) == (b.n == 1) {
				return b
			}
			return a
		}
		op := "||"
		if e.Op == token.LAND {
			op = "&&"
		}
		return &gv{t: a.t, term: fmt.Sprintf("(%s %s %s)", a.term, op, b.term)}
	}
	a := x.eval(s, e.X)
	b := x.eval(s, e.Y)
	if a.t.k == gHash && b.t.k == gErr && b.static && b.n == 0 && (e.Op == token.EQL || e.Op == token.NEQ) {
		// hFunc == nil / hFunc != nil: decided by the specialisation
		return mkBool((a.n == 0) == (e.Op == token.EQL))
	}
	if a.t.k == gInt && b.t.k == gInt && (!a.static || !b.static) {
		// run-time integers (len of a byte string, big.Int.Cmp): exact Int arithmetic
		ops := map[token.Token]string{token.EQL: "==", token.NEQ: "!="}
		if op, ok := ops[e.Op]; ok {
			return &gv{t: &gtype{k: gBool}, term: fmt.Sprintf("(%s %s %s)", intTerm(a), op, intTerm(b))}
		}
		cmp := map[token.Token]string{token.LSS: "<", token.LEQ: "≤", token.GTR: ">", token.GEQ: "≥"}
		if op, ok := cmp[e.Op]; ok {
			return &gv{t: &gtype{k: gBool}, term: fmt.Sprintf("(decide (%s %s %s))", intTerm(a), op, intTerm(b))}
		}
		if r := x.permIntOp(e.Op, a, b); r != nil { // slpgperm.go: -, &, / on a run-time Go int (64-bit two's complement)
			return r
		}
		reject("%s: run-time integer expression %s", x.fname, gexpr(e))
	}
	if a.t.k == gInt && b.t.k == gInt {
		if !a.static || !b.static {
			reject("%s: integer expression %s not known at translation time", x.fname, gexpr(e))
		}
		switch e.Op {
		case token.ADD:
			return mkInt(a.n + b.n)
		case token.SUB:
			return mkInt(a.n - b.n)
		case token.MUL:
			return mkInt(a.n * b.n)
		case token.EQL:
			return mkBool(a.n == b.n)
		case token.NEQ:
			return mkBool(a.n != b.n)
		case token.LSS:
			return mkBool(a.n < b.n)
		case token.LEQ:
			return mkBool(a.n <= b.n)
		case token.GTR:
			return mkBool(a.n > b.n)
		case token.GEQ:
			return mkBool(a.n >= b.n)
		}
	}
	if a.t.k == gErr && b.t.k == gErr && (e.Op == token.EQL || e.Op == token.NEQ) {
		// err != nil / err == nil
		var v *gv
		switch {
		case b.static && b.n == 0:
			v = a
		case a.static && a.n == 0:
			v = b
		default:
			reject("%s: comparison of two errors", x.fname)
		}
		if v.static {
			return mkBool((v.n != 0) == (e.Op == token.NEQ))
		}
		c := v.cond
		if c == "" {
			c = fmt.Sprintf("(%s != Res.ok)", v.term)
		}
		if x.falseConds[c] && e.Op == token.NEQ {
			return mkBool(false) // this very error was tested before and we are on the path where it is nil
		}
		if e.Op == token.EQL {
			c = "(!" + c + ")"
		}
		return &gv{t: &gtype{k: gBool}, term: c}
	}
	if a.t.k == gG2 && b.t.k == gG2 && (e.Op == token.EQL || e.Op == token.NEQ) {
		op := "=="
		if e.Op == token.NEQ {
			op = "!="
		}
		return &gv{t: &gtype{k: gBool}, term: fmt.Sprintf("(%s %s %s)", a.term, op, b.term)}
	}
	reject("%s: unsupported binary expression %s", x.fname, gexpr(e))
	return nil
}

func (x *gtr) composite(s *gscope, cl *ast.CompositeLit) *gv {
	t := x.p.typeOf(cl.Type)
	switch t.k {
	case gOpaque:
		return &gv{t: t}
	case gG, gS, gG2:
		if len(cl.Elts) != 0 {
			reject("%s: non-empty literal of a group / field type", x.fname)
		}
		return &gv{t: t, term: zeroTerm(t)}
	case gStruct:
		c := x.zero("lit", t)
		v := x.store[c]
		for _, el := range cl.Elts {
			kv, ok := el.(*ast.KeyValueExpr)
			if !ok {
				reject("%s: positional struct literal", x.fname)
			}
			found := false
			for i, f := range t.fields {
				if f.name == gexpr(kv.Key) {
					x.assign(v.fields[i], x.eval(s, kv.Value))
					found = true
				}
			}
			if !found {
				reject("%s: unknown field in literal", x.fname)
			}
		}
		return v
	case gSlice:
		v := &gv{t: t}
		for i, el := range cl.Elts {
			if _, ok := el.(*ast.KeyValueExpr); ok {
				reject("%s: keyed slice literal", x.fname)
			}
			c := x.zero(fmt.Sprintf("lit_%d", i), t.elem)
			x.assignQuiet(c, x.eval(s, el))
			v.elems = append(v.elems, c)
		}
		return v
	}
	reject("%s: composite literal of type %s", x.fname, gexpr(cl.Type))
	return nil
}

// assignQuiet: like assign, but leaves are aliased to the source term instead of re-bound by a `let` (literal elements)
func (x *gtr) assignQuiet(dst cellID, v *gv) {
	d := x.store[dst]
	if d.t.k != v.t.k {
		reject("literal element of a different kind")
	}
	if d.t.leaf() {
		x.store[dst] = v
		return
	}
	x.assign(dst, v)
}

// ptrArg: the cell a pointer-typed argument points to
func (x *gtr) ptrArg(s *gscope, e ast.Expr, want gkind) *gv {
	v := x.eval(s, e)
	if v.t.k != gPtr || v.ptr == 0 {
		reject("%s: argument %s is not a (non-nil) pointer", x.fname, gexpr(e))
	}
	t := x.store[v.ptr]
	if t.t.k != want {
		reject("%s: argument %s has the wrong type", x.fname, gexpr(e))
	}
	x.useG(t)
	return t
}

func (x *gtr) sliceArg(s *gscope, e ast.Expr, want gkind) []*gv {
	v := x.eval(s, e)
	if v.t.k != gSlice || v.t.elem.k != want {
		reject("%s: argument %s is not a slice of the expected type", x.fname, gexpr(e))
	}
	var r []*gv
	for _, c := range v.elems {
		r = append(r, x.store[c])
	}
	return r
}

func leanListOf(vs []*gv) string {
	ts := make([]string, len(vs))
	for i, v := range vs {
		ts[i] = v.term
	}
	return "[" + strings.Join(ts, ", ") + "]"
}

func (x *gtr) nargs(c *ast.CallExpr, n int) {
	if len(c.Args) != n {
		reject("%s: %s expects %d arguments", x.fname, gexpr(c.Fun), n)
	}
}

func (x *gtr) ptrTo(c cellID) *gv { return &gv{t: &gtype{k: gPtr, elem: x.store[c].t}, ptr: c} }

// method: a primitive method on a G or S receiver
func (x *gtr) method(s *gscope, recv cellID, name string, c *ast.CallExpr) []*gv {
	rv := x.store[recv]
	self := func() []*gv { return []*gv{x.ptrTo(recv)} }
	nilErr := &gv{t: &gtype{k: gErr}, static: true, n: 0}
	if rs, ok := x.permMethod(s, recv, name, c); ok { // slpgperm.go
		return rs
	}
	if rs, ok := x.sigMethod(s, recv, name, c); ok {
		return rs
	}
	if rs, ok := x.signMethod(s, recv, name, c); ok { // slpsign.go
		return rs
	}
	x.useG(rv)
	switch rv.t.k {
	case gG:
		switch name {
		case "FromAffine", "FromJacobian", "Set":
			x.nargs(c, 1)
			x.setLeaf(recv, x.ptrArg(s, c.Args[0], gG).term)
			return self()
		case "AddAssign", "SubAssign":
			x.nargs(c, 1)
			op := " + "
			if name == "SubAssign" {
				op = " - "
			}
			x.setLeaf(recv, rv.term+op+x.ptrArg(s, c.Args[0], gG).term)
			return self()
		case "Neg":
			x.nargs(c, 1)
			x.setLeaf(recv, "-"+x.ptrArg(s, c.Args[0], gG).term)
			return self()
		case "Add", "Sub":
			x.nargs(c, 2)
			op := " + "
			if name == "Sub" {
				op = " - "
			}
			x.setLeaf(recv, x.ptrArg(s, c.Args[0], gG).term+op+x.ptrArg(s, c.Args[1], gG).term)
			return self()
		case "ScalarMultiplication":
			x.nargs(c, 2)
			a := x.ptrArg(s, c.Args[0], gG)
			k := x.ptrArg(s, c.Args[1], gZ)
			x.setLeaf(recv, fmt.Sprintf("%s • %s", k.term, a.term))
			return self()
		case "JointScalarMultiplication":
			x.nargs(c, 4)
			a := x.ptrArg(s, c.Args[0], gG)
			b := x.ptrArg(s, c.Args[1], gG)
			k := x.ptrArg(s, c.Args[2], gZ)
			l := x.ptrArg(s, c.Args[3], gZ)
			x.setLeaf(recv, fmt.Sprintf("%s • %s + %s • %s", k.term, a.term, l.term, b.term))
			return self()
		case "MultiExp":
			x.nargs(c, 3)
			ps := x.sliceArg(s, c.Args[0], gG)
			cs := x.sliceArg(s, c.Args[1], gS)
			if cfg := x.eval(s, c.Args[2]); cfg.t.k != gOpaque {
				reject("%s: MultiExp config", x.fname)
			}
			if len(ps) != len(cs) {
				reject("%s: MultiExp on %d points and %d scalars (the error path of MultiExp is not modelled)", x.fname, len(ps), len(cs))
			}
			t := "(0 : G)"
			for i := len(ps) - 1; i >= 0; i-- {
				t = fmt.Sprintf("toInt %s • %s + %s", cs[i].term, ps[i].term, t)
				if i > 0 {
					t = "(" + t + ")"
				}
			}
			x.setLeaf(recv, t)
			return []*gv{x.ptrTo(recv), nilErr}
		case "Fold":
			// G1Affine.Fold(points, coeff, cfg) = Σ coeffⁱ • pointsᵢ (multiexp.go: scalars 1, c, c², … then MultiExp)
			x.nargs(c, 3)
			ps := x.sliceArg(s, c.Args[0], gG)
			co := x.eval(s, c.Args[1])
			if co.t.k != gS {
				reject("%s: Fold coefficient", x.fname)
			}
			if cfg := x.eval(s, c.Args[2]); cfg.t.k != gOpaque {
				reject("%s: Fold config", x.fname)
			}
			// scalar := 1; for i { scalars[i] = scalar; scalar = scalar * coeff }
			sc := "(1 : S)"
			var scs []string
			for i := range ps {
				n := x.fresh("foldScalar")
				x.lines = append(x.lines, fmt.Sprintf("let %s : S := %s", n, sc))
				scs = append(scs, n)
				_ = i
				sc = fmt.Sprintf("%s * %s", n, co.term)
			}
			t := "(0 : G)"
			for i := len(ps) - 1; i >= 0; i-- {
				t = fmt.Sprintf("toInt %s • %s + %s", scs[i], ps[i].term, t)
				if i > 0 {
					t = "(" + t + ")"
				}
			}
			x.setLeaf(recv, t)
			return []*gv{x.ptrTo(recv), nilErr}
		case "IsInSubGroup":
			x.nargs(c, 0)
			x.need("isInSubGroup", "G → Bool", false)
			return []*gv{{t: &gtype{k: gBool}, term: "isInSubGroup " + rv.term}}
		}
	case gS:
		switch name {
		case "Set":
			x.nargs(c, 1)
			x.setLeaf(recv, x.ptrArg(s, c.Args[0], gS).term)
			return self()
		case "SetOne":
			x.nargs(c, 0)
			x.setLeaf(recv, "(1 : S)")
			return self()
		case "SetZero":
			x.nargs(c, 0)
			x.setLeaf(recv, "(0 : S)")
			return self()
		case "Neg":
			x.nargs(c, 1)
			x.setLeaf(recv, "-"+x.ptrArg(s, c.Args[0], gS).term)
			return self()
		case "Add", "Sub", "Mul":
			x.nargs(c, 2)
			op := map[string]string{"Add": " + ", "Sub": " - ", "Mul": " * "}[name]
			x.setLeaf(recv, x.ptrArg(s, c.Args[0], gS).term+op+x.ptrArg(s, c.Args[1], gS).term)
			return self()
		case "BigInt":
			x.nargs(c, 1)
			pv := x.eval(s, c.Args[0])
			if pv.t.k != gPtr || pv.ptr == 0 || x.store[pv.ptr].t.k != gZ {
				reject("%s: BigInt destination", x.fname)
			}
			x.setLeaf(pv.ptr, "toInt "+rv.term)
			return []*gv{x.ptrTo(pv.ptr)}
		case "SetRandom":
			x.nargs(c, 0)
			x.nSite++
			n := fmt.Sprintf("random_%d", x.nSite)
			x.need(n, "S", true)
			x.need(n+"_err", "Bool", true)
			x.setLeaf(recv, n)
			return []*gv{x.ptrTo(recv), {t: &gtype{k: gErr}, cond: n + "_err", term: "(Res.err \"SetRandom\")"}}
		}
	}
	reject("%s: method %s on a receiver of kind %v is not a known primitive", x.fname, name, rv.t.k)
	return nil
}

func (x *gtr) call(s *gscope, c *ast.CallExpr) []*gv {
	nilErr := &gv{t: &gtype{k: gErr}, static: true, n: 0}
	if c.Ellipsis.IsValid() && gexpr(c.Fun) != "append" {
		// f(a, b, rest...) : only with an opaque variadic tail
		last := x.eval(s, c.Args[len(c.Args)-1])
		if last.t.k != gOpaque {
			reject("%s: variadic call with a non-opaque tail", x.fname)
		}
	}
	if rs, ok := x.permCall(s, c); ok { // slpgperm.go
		return rs
	}
	if rs, ok := x.sigCall(s, c); ok {
		return rs
	}
	switch f := c.Fun.(type) {
	case *ast.Ident:
		switch f.Name {
		case "len":
			x.nargs(c, 1)
			v := x.eval(s, c.Args[0])
			if v.t.k == gBytes {
				if v.t.n >= 0 {
					return []*gv{mkInt(v.t.n)}
				}
				return []*gv{{t: &gtype{k: gInt}, term: fmt.Sprintf("(Int.ofNat %s.length)", gparen(v.term)), nat: gparen(v.term) + ".length"}}
			}
			if v.t.k == gOpaque && x.p.opaqueLenZero {
				return []*gv{mkInt(0)} // dataTranscript: this specialisation passes no extra data
			}
			if v.t.k != gSlice && v.t.k != gArray {
				reject("%s: len of %s", x.fname, gexpr(c.Args[0]))
			}
			return []*gv{mkInt(len(v.elems))}
		case "append":
			return []*gv{x.appendCall(s, c)}
		case "make":
			if len(c.Args) == 3 {
				t := x.p.typeOf(c.Args[0])
				if t.k != gSlice {
					reject("%s: make with a capacity of a non-slice", x.fname)
				}
				n, cp := x.staticInt(s, c.Args[1]), x.staticInt(s, c.Args[2])
				if cp < n {
					reject("%s: make: cap < len", x.fname)
				}
				v := &gv{t: t}
				for i := 0; i < cp; i++ {
					cell := x.zero(fmt.Sprintf("mk_%d", i), t.elem)
					if i < n {
						v.elems = append(v.elems, cell)
					} else {
						v.spare = append(v.spare, cell)
					}
				}
				return []*gv{v}
			}
			x.nargs(c, 2)
			t := x.p.typeOf(c.Args[0])
			if t.k == gBytes {
				nv := x.eval(s, c.Args[1])
				if nv.t.k != gInt {
					reject("%s: make length", x.fname)
				}
				if nv.static {
					return []*gv{{t: &gtype{k: gBytes, n: -1}, term: fmt.Sprintf("(List.replicate %d (0 : UInt8))", nv.n)}}
				}
				if nv.nat == "" {
					reject("%s: make([]byte, n) with n not a length", x.fname)
				}
				return []*gv{{t: &gtype{k: gBytes, n: -1}, term: fmt.Sprintf("(List.replicate %s (0 : UInt8))", nv.nat)}}
			}
			if t.k != gSlice {
				reject("%s: make of a non-slice", x.fname)
			}
			n := x.staticInt(s, c.Args[1])
			v := &gv{t: t}
			for i := 0; i < n; i++ {
				v.elems = append(v.elems, x.zero(fmt.Sprintf("mk_%d", i), t.elem))
			}
			return []*gv{v}
		case "new":
			x.nargs(c, 1)
			t := x.p.typeOf(c.Args[0])
			return []*gv{x.ptrTo(x.zero("new", t))}
		case "deriveGamma":
			// uninterpreted: γ = deriveGamma(point, digests, claimedValues) (hash, transcript data: opaque)
			if len(c.Args) < 4 {
				reject("%s: deriveGamma arguments", x.fname)
			}
			pt := x.eval(s, c.Args[0])
			if pt.t.k != gS {
				reject("%s: deriveGamma point", x.fname)
			}
			ds := x.sliceArg(s, c.Args[1], gG)
			vs := x.sliceArg(s, c.Args[2], gS)
			for _, a := range c.Args[3:] {
				if k := x.eval(s, a).t.k; k != gOpaque && k != gHash {
					reject("%s: deriveGamma extra argument", x.fname)
				}
			}
			x.need("deriveGamma", "S → List G → List S → S", false)
			x.need("deriveGamma_err", "Bool", false)
			n := x.fresh("gamma")
			x.lines = append(x.lines, fmt.Sprintf("let %s : S := deriveGamma %s %s %s", n, pt.term, leanListOf(ds), leanListOf(vs)))
			return []*gv{{t: &gtype{k: gS}, term: n}, {t: &gtype{k: gErr}, cond: "deriveGamma_err", term: "(Res.err \"deriveGamma\")"}}
		}
		if _, ok := s.lookup(f.Name); ok {
			reject("%s: call of a function value %s", x.fname, f.Name)
		}
		if fd, ok := x.p.funcs[f.Name]; ok && x.p.inline[f.Name] {
			return x.inlineFn(s, fd, f.Name, c)
		}
		if fd, ok := x.p.funcs[f.Name]; ok {
			return x.callFn(s, fd, f.Name, nil, c)
		}
		// conversion T(x)?
		reject("%s: call of unknown function %s", x.fname, f.Name)
	case *ast.SelectorExpr:
		if id, ok := f.X.(*ast.Ident); ok {
			if _, isVar := s.lookup(id.Name); !isVar {
				if _, isImp := x.p.imports[id.Name]; isImp {
					switch {
					case id.Name == "errors" && f.Sel.Name == "New":
						x.nargs(c, 1)
						bl, ok := c.Args[0].(*ast.BasicLit)
						if !ok || bl.Kind != token.STRING {
							reject("%s: errors.New of a non-literal", x.fname)
						}
						return []*gv{{t: &gtype{k: gErr}, static: true, n: 1, term: fmt.Sprintf("(Res.err %s)", bl.Value)}}
					case id.Name == "fr" && f.Sel.Name == "NewElement":
						x.nargs(c, 1)
						n := x.staticInt(s, c.Args[0])
						if n != 0 && n != 1 {
							reject("%s: fr.NewElement(%d)", x.fname, n)
						}
						return []*gv{{t: &gtype{k: gS}, term: fmt.Sprintf("(%d : S)", n)}}
					case x.p.isCurveImport(id.Name) && f.Sel.Name == "PairingCheckFixedQ":
						x.nargs(c, 2)
						ps := x.sliceArg(s, c.Args[0], gG)
						ls := x.eval(s, c.Args[1])
						if ls.t.k != gL {
							reject("%s: PairingCheckFixedQ lines argument", x.fname)
						}
						if len(ps) != 2 {
							reject("%s: PairingCheckFixedQ on %d points against the 2 line tables of a verifying key", x.fname, len(ps))
						}
						x.need("pairingCheckFixedQ", "List G → L → Bool", false)
						n := x.fresh("check")
						x.lines = append(x.lines, fmt.Sprintf("let %s : Bool := pairingCheckFixedQ %s %s", n, leanListOf(ps), ls.term))
						return []*gv{{t: &gtype{k: gBool}, term: n}, nilErr}
					case x.p.isCurveImport(id.Name) && f.Sel.Name == "PairingCheck":
						x.nargs(c, 2)
						ps := x.sliceArg(s, c.Args[0], gG)
						qs := x.sliceArg(s, c.Args[1], gG2)
						if len(ps) != len(qs) || len(ps) == 0 {
							reject("%s: PairingCheck on %d / %d points (error path not modelled)", x.fname, len(ps), len(qs))
						}
						x.need("pairingCheck", "List G → List G2 → Bool", false)
						n := x.fresh("check")
						x.lines = append(x.lines, fmt.Sprintf("let %s : Bool := pairingCheck %s %s", n, leanListOf(ps), leanListOf(qs)))
						return []*gv{{t: &gtype{k: gBool}, term: n}, nilErr}
					}
					if id.Name == "shplonk" && f.Sel.Name == "BatchVerify" {
						sub := x.p.subPkg("shplonk", "shplonk.go")
						sub.classes, sub.typeArgs, sub.fixedParams, sub.fixedArgs = x.p.classes, x.p.typeArgs, x.p.fixedParams, x.p.fixedArgs
						sub.opaqueLenZero, sub.namePrefix, sub.inline = true, "shplonk_", shplonkInline
						fd, ok := sub.funcs["BatchVerify"]
						if !ok {
							reject("%s: shplonk.BatchVerify not found", x.fname)
						}
						x.calleePkg = sub
						rs := x.callFn(s, fd, "BatchVerify", nil, c)
						x.calleePkg = nil
						return rs
					}
					reject("%s: call of %s is outside the supported subset", x.fname, gexpr(f))
				}
			}
		}
		// method call: receiver is a pointer value (chain / new(T)) or an addressable variable
		var recv cellID
		isPtrExpr := false
		switch f.X.(type) {
		case *ast.CallExpr:
			isPtrExpr = true
		}
		if isPtrExpr {
			pv := x.eval(s, f.X)
			if pv.t.k != gPtr || pv.ptr == 0 {
				reject("%s: method call on a non-pointer result", x.fname)
			}
			recv = pv.ptr
		} else {
			recv = x.lval(s, f.X)
			if rv := x.store[recv]; rv.t.k == gPtr {
				if rv.ptr == 0 {
					reject("%s: method call on nil", x.fname)
				}
				recv = rv.ptr
			}
		}
		rv := x.store[recv]
		if rv.t.k == gStruct {
			if rs, ok := x.uninterpMethod(s, recv, rv.t.name+"."+f.Sel.Name, c); ok {
				return rs
			}
			if fd, ok := x.p.funcs[rv.t.name+"."+f.Sel.Name]; ok {
				return x.callFn(s, fd, rv.t.name+"."+f.Sel.Name, &recv, c)
			}
		}
		return x.method(s, recv, f.Sel.Name, c)
	}
	reject("%s: unsupported call %s", x.fname, gexpr(c.Fun))
	return nil
}

// flatten: the leaf terms of a value, and the slice lengths met on the way (the specialisation key)
func (x *gtr) flatten(v *gv, terms *[]string, lens *[]int) {
	switch v.t.k {
	case gG, gG2, gS, gZ, gL, gBool, gBytes, gFp:
		x.useG(v)
		if v.t.k == gBool && v.static {
			*terms = append(*terms, map[int]string{0: "false", 1: "true"}[v.n])
			return
		}
		*terms = append(*terms, v.term)
	case gInt:
		*terms = append(*terms, intTerm(v))
	case gErr:
		*terms = append(*terms, x.errTerm(v))
	case gOpaque, gHash:
	case gStruct:
		for _, c := range v.fields {
			x.flatten(x.store[c], terms, lens)
		}
	case gArray:
		for _, c := range v.elems {
			x.flatten(x.store[c], terms, lens)
		}
	case gSlice:
		*lens = append(*lens, len(v.elems))
		for _, c := range v.elems {
			x.flatten(x.store[c], terms, lens)
		}
	case gPtr:
		if v.ptr == 0 {
			reject("nil pointer passed to a function")
		}
		x.flatten(x.store[v.ptr], terms, lens)
	default:
		reject("cannot pass a value of kind %v", v.t.k)
	}
}

func needParens(t string) bool {
	return strings.ContainsAny(t, " ") && !(strings.HasPrefix(t, "(") && balancedOuter(t))
}

func balancedOuter(t string) bool {
	d := 0
	for i, r := range t {
		if r == '(' {
			d++
		} else if r == ')' {
			d--
			if d == 0 && i != len(t)-1 {
				return false
			}
		}
	}
	return d == 0
}

func gparen(t string) string {
	if needParens(t) {
		return "(" + t + ")"
	}
	return t
}

func projN(i, n int) string {
	if n == 1 {
		return ""
	}
	s := strings.Repeat(".2", i)
	if i < n-1 {
		s += ".1"
	}
	return s
}

func countLeaves(t *gtype) int {
	switch t.k {
	case gOpaque:
		return 0
	case gStruct:
		n := 0
		for _, f := range t.fields {
			n += countLeaves(f.t)
		}
		return n
	case gArray:
		return t.n * countLeaves(t.elem)
	case gSlice, gPtr:
		reject("slice / pointer result of a translated function")
	}
	return 1
}

// fromLeaves: rebuild a value of type t from the leaf terms of a call result
func (x *gtr) fromLeaves(name string, t *gtype, terms *[]string) *gv {
	switch t.k {
	case gStruct:
		v := &gv{t: t}
		for _, f := range t.fields {
			fv := x.fromLeaves(name+"_"+f.name, f.t, terms)
			v.fields = append(v.fields, x.newCell(name+"_"+f.name, fv))
		}
		return v
	case gArray:
		v := &gv{t: t}
		for i := 0; i < t.n; i++ {
			ev := x.fromLeaves(fmt.Sprintf("%s_%d", name, i), t.elem, terms)
			v.elems = append(v.elems, x.newCell(fmt.Sprintf("%s_%d", name, i), ev))
		}
		return v
	case gOpaque:
		return &gv{t: t}
	}
	tm := (*terms)[0]
	*terms = (*terms)[1:]
	return &gv{t: t, term: tm}
}

// callFn: a call of another function of the package = a call of its generated def, specialised to the slice lengths here
func (x *gtr) callFn(s *gscope, fd *ast.FuncDecl, key string, recv *cellID, c *ast.CallExpr) []*gv {
	var terms []string
	var lens []int
	var ptrCells []cellID // targets of the pointer arguments, in parameter order (receiver first)
	if recv != nil {
		x.flatten(x.store[*recv], &terms, &lens)
		if fd.Recv != nil {
			if _, isPtr := fd.Recv.List[0].Type.(*ast.StarExpr); isPtr {
				ptrCells = append(ptrCells, *recv)
			}
		}
	}
	np := 0
	for _, fl := range fd.Type.Params.List {
		np += len(fl.Names)
	}
	variadic := false
	if n := len(fd.Type.Params.List); n > 0 {
		_, variadic = fd.Type.Params.List[n-1].Type.(*ast.Ellipsis)
	}
	if !variadic && len(c.Args) != np {
		reject("%s: call of %s with %d arguments", x.fname, key, len(c.Args))
	}
	for i, a := range c.Args {
		v := x.eval(s, a)
		if variadic && i >= np-1 && v.t.k != gOpaque {
			reject("%s: non-opaque variadic argument in the call of %s", x.fname, key)
		}
		if v.t.k == gPtr {
			ptrCells = append(ptrCells, v.ptr)
		}
		x.flatten(v, &terms, &lens)
	}
	pk := x.p
	if x.calleePkg != nil {
		pk = x.calleePkg
	}
	cv := pk.translate(key, lens)
	for _, u := range cv.uparams {
		if u.site {
			reject("%s: callee %s has per-call-site parameters", x.fname, key)
		}
		x.need(u.name, u.typ, false)
	}
	var args []string
	if x.p.fixedArgs != "" {
		args = append(args, x.p.fixedArgs)
	}
	for _, u := range cv.uparams {
		args = append(args, u.name)
	}
	for _, t := range terms {
		args = append(args, gparen(t))
	}
	r := x.fresh("r")
	x.lines = append(x.lines, fmt.Sprintf("let %s := %s %s %s", r, cv.name, x.p.typeArgs, strings.Join(args, " ")))
	nl := 0
	for _, rt := range cv.rtypes {
		nl += countLeaves(rt)
	}
	for _, rt := range cv.inoutT {
		nl += countLeaves(rt)
	}
	var leafTerms []string
	for i := 0; i < nl; i++ {
		leafTerms = append(leafTerms, r+projN(i, nl))
	}
	var out []*gv
	for i, rt := range cv.rtypes {
		out = append(out, x.fromLeaves(fmt.Sprintf("%s_%d", r, i), rt, &leafTerms))
	}
	// the pointer targets the callee writes come back after the results: store them into the caller's cells
	for j, idx := range cv.inout {
		if idx >= len(ptrCells) {
			reject("%s: callee %s writes a pointer target this call site cannot name", x.fname, key)
		}
		x.assign(ptrCells[idx], x.fromLeaves(fmt.Sprintf("%s_w%d", r, j), cv.inoutT[j], &leafTerms))
	}
	return out
}

// ---------------------------------------------------------------- statements (continuation-passing: `k` is the rest of the function)

func indentLines(s, ind string) string {
	ls := strings.Split(s, "\n")
	for i := range ls {
		ls[i] = ind + ls[i]
	}
	return strings.Join(ls, "\n")
}

// capture: run f with an empty `let` buffer; result = its lets followed by its final term
func (x *gtr) capture(f func() string) string {
	old := x.lines
	x.lines = nil
	t := f()
	res := strings.Join(append(x.lines, t), "\n")
	x.lines = old
	return res
}

func (x *gtr) exec(s *gscope, stmts []ast.Stmt, k func() string) string {
	if len(stmts) == 0 {
		return k()
	}
	st := stmts[0]
	rest := func() string { return x.exec(s, stmts[1:], k) }
	switch st := st.(type) {
	case *ast.EmptyStmt:
		return rest()
	case *ast.DeclStmt:
		gd, ok := st.Decl.(*ast.GenDecl)
		if !ok || gd.Tok != token.VAR {
			reject("%s: declaration statement", x.fname)
		}
		for _, sp := range gd.Specs {
			vs := sp.(*ast.ValueSpec)
			if vs.Type == nil || len(vs.Values) != 0 {
				reject("%s: var declaration with initialiser", x.fname)
			}
			t := x.p.typeOf(vs.Type)
			for _, nm := range vs.Names {
				s.vars[nm.Name] = x.zero(nm.Name, t)
			}
		}
		return rest()
	case *ast.ExprStmt:
		c, ok := st.X.(*ast.CallExpr)
		if !ok {
			reject("%s: expression statement", x.fname)
		}
		x.call(s, c)
		return rest()
	case *ast.AssignStmt:
		x.assignStmt(s, st)
		return rest()
	case *ast.BlockStmt:
		inner := &gscope{vars: map[string]cellID{}, parent: s}
		return x.exec(inner, st.List, rest)
	case *ast.ReturnStmt:
		return x.ret(s, st)
	case *ast.IfStmt:
		return x.ifStmt(s, st, rest)
	case *ast.ForStmt:
		return x.forStmt(s, st, rest)
	case *ast.RangeStmt:
		return x.rangeStmt(s, st, rest)
	}
	reject("%s: unsupported statement %T", x.fname, st)
	return ""
}

func (x *gtr) ifStmt(s *gscope, st *ast.IfStmt, rest func() string) string {
	inner := &gscope{vars: map[string]cellID{}, parent: s}
	if st.Init != nil {
		as, ok := st.Init.(*ast.AssignStmt)
		if !ok {
			reject("%s: if initialiser", x.fname)
		}
		x.assignStmt(inner, as)
	}
	cv := x.eval(inner, st.Cond)
	if cv.t.k != gBool {
		reject("%s: if condition is not a bool", x.fname)
	}
	elseStmts := func() []ast.Stmt {
		switch e := st.Else.(type) {
		case nil:
			return nil
		case *ast.BlockStmt:
			return e.List
		case *ast.IfStmt:
			return []ast.Stmt{e}
		}
		reject("%s: else form", x.fname)
		return nil
	}
	if cv.static {
		if cv.n == 1 {
			return x.exec(&gscope{vars: map[string]cellID{}, parent: inner}, st.Body.List, rest)
		}
		return x.exec(&gscope{vars: map[string]cellID{}, parent: inner}, elseStmts(), rest)
	}
	// run-time condition: the then-branch must return
	if x.retHook != nil {
		reject("%s: run-time `if %s` inside a function executed in place", x.fname, gexpr(st.Cond))
	}
	saved := x.cloneStore()
	savedFalse := map[string]bool{}
	for k := range x.falseConds {
		savedFalse[k] = true
	}
	thenS := x.capture(func() string {
		return x.exec(&gscope{vars: map[string]cellID{}, parent: inner}, st.Body.List, func() string {
			reject("%s: the then-branch of a run-time `if %s` falls through (only early returns are supported)", x.fname, gexpr(st.Cond))
			return ""
		})
	})
	x.store = saved
	savedFalse[cv.term] = true // from here on (the else-branch and everything after it) the condition is known to be false
	x.falseConds = savedFalse
	elseS := x.capture(func() string {
		return x.exec(&gscope{vars: map[string]cellID{}, parent: inner}, elseStmts(), rest)
	})
	return fmt.Sprintf("if %s then\n%s\nelse\n%s", cv.term, indentLines(thenS, "  "), indentLines(elseS, "  "))
}

func (x *gtr) forStmt(s *gscope, st *ast.ForStmt, rest func() string) string {
	inner := &gscope{vars: map[string]cellID{}, parent: s}
	if st.Init != nil {
		as, ok := st.Init.(*ast.AssignStmt)
		if !ok {
			reject("%s: for initialiser", x.fname)
		}
		x.assignStmt(inner, as)
	}
	if st.Cond == nil {
		reject("%s: for without condition", x.fname)
	}
	iter := 0
	var loop func() string
	loop = func() string {
		cv := x.eval(inner, st.Cond)
		if cv.t.k != gBool || !cv.static {
			reject("%s: loop condition %s is not known at translation time", x.fname, gexpr(st.Cond))
		}
		if cv.n == 0 {
			return rest()
		}
		iter++
		if iter > 64 {
			reject("%s: loop runs more than 64 times", x.fname)
		}
		body := &gscope{vars: map[string]cellID{}, parent: inner}
		return x.exec(body, st.Body.List, func() string {
			if st.Post != nil {
				switch p := st.Post.(type) {
				case *ast.IncDecStmt:
					c := x.lval(inner, p.X)
					v := x.store[c]
					if v.t.k != gInt || !v.static {
						reject("%s: loop counter", x.fname)
					}
					d := 1
					if p.Tok == token.DEC {
						d = -1
					}
					x.store[c] = mkInt(v.n + d)
				default:
					reject("%s: loop post statement", x.fname)
				}
			}
			return loop()
		})
	}
	return loop()
}

func (x *gtr) rangeStmt(s *gscope, st *ast.RangeStmt, rest func() string) string {
	if st.Tok != token.DEFINE {
		reject("%s: range without :=", x.fname)
	}
	valName := ""
	if st.Value != nil {
		id, ok := st.Value.(*ast.Ident)
		if !ok {
			reject("%s: range value", x.fname)
		}
		valName = id.Name
	}
	key, ok := st.Key.(*ast.Ident)
	if !ok {
		reject("%s: range key", x.fname)
	}
	v := x.eval(s, st.X)
	if v.t.k != gSlice && v.t.k != gArray {
		reject("%s: range over %s", x.fname, gexpr(st.X))
	}
	n := len(v.elems)
	var loop func(i int) string
	loop = func(i int) string {
		if i >= n {
			return rest()
		}
		body := &gscope{vars: map[string]cellID{}, parent: s}
		if key.Name != "_" {
			body.vars[key.Name] = x.newCell(key.Name, mkInt(i))
		}
		if valName != "" && valName != "_" {
			ev := x.store[v.elems[i]]
			if !ev.t.leaf() && ev.t.k != gPtr { // a pointer element: the copy of the pointer refers to the same target
				reject("%s: range value of a composite type", x.fname)
			}
			body.vars[valName] = x.newCell(valName, ev) // a copy of the element
		}
		return x.exec(body, st.Body.List, func() string { return loop(i + 1) })
	}
	return loop(0)
}

func (x *gtr) assignStmt(s *gscope, st *ast.AssignStmt) {
	if x.sigAssign(s, st) { // slpsign.go: dst[k] = src[i], dst[k] &= m on byte strings
		return
	}
	if st.Tok == token.ADD_ASSIGN && len(st.Lhs) == 1 && len(st.Rhs) == 1 {
		// n += k on integers known at translation time
		c := x.lval(s, st.Lhs[0])
		v := x.store[c]
		if v.t.k != gInt || !v.static {
			reject("%s: += on %s", x.fname, gexpr(st.Lhs[0]))
		}
		x.noteWrite(c)
		x.store[c] = mkInt(v.n + x.staticInt(s, st.Rhs[0]))
		return
	}
	if st.Tok != token.DEFINE && st.Tok != token.ASSIGN {
		reject("%s: assignment operator %s", x.fname, st.Tok)
	}
	var vals []*gv
	if len(st.Rhs) == 1 && len(st.Lhs) > 1 {
		c, ok := st.Rhs[0].(*ast.CallExpr)
		if !ok {
			reject("%s: tuple assignment from a non-call", x.fname)
		}
		vals = x.call(s, c)
		if len(vals) != len(st.Lhs) {
			reject("%s: %d results assigned to %d variables", x.fname, len(vals), len(st.Lhs))
		}
	} else {
		if len(st.Rhs) != len(st.Lhs) {
			reject("%s: assignment count", x.fname)
		}
		for _, r := range st.Rhs {
			vals = append(vals, x.eval(s, r))
		}
	}
	for i, l := range st.Lhs {
		v := vals[i]
		if id, ok := l.(*ast.Ident); ok {
			if id.Name == "_" {
				continue
			}
			if st.Tok == token.DEFINE {
				if _, here := s.vars[id.Name]; !here {
					// new variable: a fresh cell of the value's type holding a copy
					var c cellID
					switch v.t.k {
					case gInt, gBool, gErr, gSlice, gPtr, gOpaque, gL, gHash:
						c = x.newCell(id.Name, v)
						if v.t.k == gPtr && v.ptr != 0 && (x.names[v.ptr] == "new" || x.names[v.ptr] == "bigLit" || x.names[v.ptr] == "frMod") {
							x.renameCell(v.ptr, id.Name) // x := new(T): the cell is named after the variable
						}
						if v.t.k == gSlice {
							for i, e := range v.elems { // a slice made here: its cells are named after the variable
								if strings.HasPrefix(x.names[e], "mk_") {
									x.renameCell(e, fmt.Sprintf("%s_%d", id.Name, i))
								}
							}
						}
					default:
						c = x.zero(id.Name, v.t)
						x.assign(c, v)
					}
					s.vars[id.Name] = c
					continue
				}
			}
		}
		x.assign(x.lval(s, l), v)
	}
}

func (x *gtr) ret(s *gscope, st *ast.ReturnStmt) string {
	if x.retHook != nil {
		// inside a function executed in place: hand the values to the call site, the statements after the call go on
		var vals []*gv
		if len(st.Results) == 1 {
			if c, ok := st.Results[0].(*ast.CallExpr); ok {
				vals = x.call(s, c)
			}
		}
		if vals == nil {
			for _, r := range st.Results {
				vals = append(vals, x.eval(s, r))
			}
		}
		x.retHook(vals)
		return ""
	}
	var vals []*gv
	if len(st.Results) == 1 && len(x.v.rtypes) > 1 {
		c, ok := st.Results[0].(*ast.CallExpr)
		if !ok {
			reject("%s: return of a tuple from a non-call", x.fname)
		}
		vals = x.call(s, c)
	} else {
		for _, r := range st.Results {
			vals = append(vals, x.eval(s, r))
		}
	}
	if len(vals) != len(x.v.rtypes) {
		reject("%s: return with %d values (named results are not supported)", x.fname, len(vals))
	}
	var terms []string
	var lens []int
	for i, v := range vals {
		if v.t.k != x.v.rtypes[i].k {
			// `return nil` for an error result is typed gErr already; anything else is a mismatch
			reject("%s: result %d has an unexpected kind", x.fname, i)
		}
		x.flatten(v, &terms, &lens)
	}
	for _, i := range x.inout {
		x.flatten(x.store[x.ptrTargets[i]], &terms, &lens)
	}
	if len(lens) != 0 {
		reject("%s: slice result", x.fname)
	}
	if len(terms) == 1 {
		return terms[0]
	}
	return "(" + strings.Join(terms, ", ") + ")"
}

func lensKey(lens []int) string {
	if len(lens) == 0 {
		return ""
	}
	same := true
	for _, l := range lens {
		if l != lens[0] {
			same = false
		}
	}
	if same {
		return fmt.Sprintf("_k%d", lens[0])
	}
	ss := make([]string, len(lens))
	for i, l := range lens {
		ss[i] = strconv.Itoa(l)
	}
	return "_n" + strings.Join(ss, "_")
}

func (p *gpkg) translate(key string, lens []int) *gvariant {
	name := p.namePrefix + strings.ReplaceAll(key, ".", "_") + lensKey(lens)
	if n, ok := p.lensNames[name]; ok {
		name = n
	}
	if fd, ok := p.funcs[key]; ok && p.nameSuffix != "" {
		// the hash / no-hash specialisation only concerns functions that take a hash.Hash
		for _, fl := range fd.Type.Params.List {
			if gexpr(fl.Type) == "hash.Hash" {
				name += p.nameSuffix
				break
			}
		}
	}
	if v, ok := p.variants[name]; ok {
		return v
	}
	if p.inProgress[name] {
		reject("recursive call of %s", name)
	}
	p.inProgress[name] = true
	defer delete(p.inProgress, name)
	// first pass: which pointer targets does the body write? second pass (if any): they are returned after the results
	v, written := p.translateOnce(key, name, lens, nil)
	if len(written) > 0 {
		var inout []int
		for i := range written {
			inout = append(inout, i)
		}
		sort.Ints(inout)
		v, _ = p.translateOnce(key, name, lens, inout)
	}
	p.variants[name] = v
	p.order = append(p.order, name)
	return v
}

func (p *gpkg) translateOnce(key, name string, lens []int, inout []int) (*gvariant, map[int]bool) {
	fd, ok := p.funcs[key]
	if !ok || fd.Body == nil {
		reject("function %s not found in %s/%s", key, p.dir, p.file)
	}
	v := &gvariant{name: name, inout: inout}
	x := &gtr{p: p, v: v, store: map[cellID]*gv{}, names: map[cellID]string{}, ro: map[cellID]bool{}, counter: map[string]int{}, fname: p.label + "." + name,
		ptrOwner: map[cellID]int{}, written: map[int]bool{}, inout: inout, coords: map[cellID]map[string]cellID{}, coordOf: map[cellID]cellID{}}
	top := &gscope{vars: map[string]cellID{}}
	rem := append([]int(nil), lens...)
	if fd.Recv != nil {
		fl := fd.Recv.List[0]
		t := p.typeOf(fl.Type)
		if len(fl.Names) != 1 {
			reject("%s: unnamed receiver", x.fname)
		}
		top.vars[fl.Names[0].Name] = x.param(fl.Names[0].Name, t, &rem, false)
		v.ptypes = append(v.ptypes, t)
	}
	for _, fl := range fd.Type.Params.List {
		t := p.typeOf(fl.Type)
		for _, nm := range fl.Names {
			top.vars[nm.Name] = x.param(nm.Name, t, &rem, false)
			v.ptypes = append(v.ptypes, t)
		}
	}
	if len(rem) != 0 {
		reject("%s: %d slice lengths too many", x.fname, len(rem))
	}
	if fd.Type.Results == nil {
		reject("%s: no result", x.fname)
	}
	for _, fl := range fd.Type.Results.List {
		if len(fl.Names) != 0 {
			reject("%s: named results", x.fname)
		}
		v.rtypes = append(v.rtypes, p.typeOf(fl.Type))
	}
	for _, i := range inout {
		v.inoutT = append(v.inoutT, x.store[x.ptrTargets[i]].t)
	}
	v.body = x.capture(func() string {
		return x.exec(top, fd.Body.List, func() string {
			reject("%s: function body ends without return", x.fname)
			return ""
		})
	})
	pos := p.fset.Position(fd.Pos())
	v.doc = fmt.Sprintf("%s/%s:%d  %s", p.dir, filepath.Base(pos.Filename), pos.Line, key)
	if len(lens) > 0 {
		v.doc += fmt.Sprintf("  with slice lengths %v (in parameter order)", lens)
	}
	if strings.HasSuffix(name, p.nameSuffix) && p.nameSuffix != "" {
		v.doc += fmt.Sprintf("  [specialisation %s]", strings.TrimPrefix(p.nameSuffix, "_"))
	}
	if len(inout) > 0 {
		v.doc += fmt.Sprintf("; after the results: the final value of the pointer parameter(s) #%v it writes", inout)
	}
	return v, x.written
}

func (v *gvariant) resultType() string {
	var ts []string
	var walk func(t *gtype)
	walk = func(t *gtype) {
		switch t.k {
		case gStruct:
			for _, f := range t.fields {
				walk(f.t)
			}
		case gArray:
			for i := 0; i < t.n; i++ {
				walk(t.elem)
			}
		case gOpaque:
		default:
			ts = append(ts, t.lean())
		}
	}
	for _, t := range v.rtypes {
		walk(t)
	}
	for _, t := range v.inoutT {
		walk(t)
	}
	return strings.Join(ts, " × ")
}

const groupClasses = "{G G2 S L : Type} [_root_.Add G] [_root_.Sub G] [_root_.Neg G] [_root_.Zero G] [_root_.SMul Int G] [_root_.Add S] [_root_.Sub S] [_root_.Mul S] [_root_.Neg S] [_root_.Zero S] [_root_.One S] [_root_.BEq G2]"

func (p *gpkg) emit(ns, fileName, extra string) {
	var b strings.Builder
	b.WriteString("import GnarkVerif.Model.VerifierRes\n")
	if p.permMode {
		b.WriteString("import GnarkVerif.Model.VerifierInt\n") // i64sub / i64and / i64quo (slpgperm.go)
	}
	fmt.Fprintf(&b, "/- GENERATED by tools/goslp (slpgroup.go) from /repo/%s/%s on every run. DO NOT EDIT.\n   Group-level straight-line code of the verifier; primitives and parameters are documented at the head of slpgroup.go. -/\n", p.dir, p.file)
	b.WriteString("set_option linter.unusedVariables false\n")
	fmt.Fprintf(&b, "namespace GV.Gen.Verifier.%s\nopen GV.Gen.Verifier\n\n", ns)
	b.WriteString(extra)
	for _, h := range p.header {
		b.WriteString(h + "\n")
	}
	var all []*gvariant
	var subNames []string
	for k := range p.subPkgs {
		subNames = append(subNames, k)
	}
	sort.Strings(subNames)
	for _, k := range subNames {
		q := p.subPkgs[k]
		for _, n := range q.order {
			all = append(all, q.variants[n])
		}
	}
	for _, n := range p.order {
		all = append(all, p.variants[n])
	}
	for _, v := range all {
		var ps []string
		if p.fixedParams != "" {
			ps = append(ps, p.fixedParams)
		}
		for _, u := range v.uparams {
			ps = append(ps, fmt.Sprintf("(%s : %s)", u.name, u.typ))
		}
		ps = append(ps, v.binders...)
		fmt.Fprintf(&b, "/-- %s -/\ndef %s %s\n    %s : %s :=\n%s\n\n", v.doc, v.name, p.classes, strings.Join(ps, " "), v.resultType(), indentLines(v.body, "  "))
	}
	fmt.Fprintf(&b, "end GV.Gen.Verifier.%s\n", ns)
	writeFile(filepath.Join("Verifier", fileName), b.String())
}

// checkNewSRSLines: every assignment to srs.Vk.Lines[i] in NewSRS is  <curve>.PrecomputeLines(srs.Vk.G2[i]), both i = 0, 1 occur
func (p *gpkg) checkNewSRSLines() string {
	fd, ok := p.funcs["NewSRS"]
	if !ok {
		reject("%s: NewSRS not found", p.label)
	}
	seen := map[int]int{}
	ast.Inspect(fd.Body, func(n ast.Node) bool {
		as, ok := n.(*ast.AssignStmt)
		if !ok || len(as.Lhs) != 1 {
			return true
		}
		l := gexpr(as.Lhs[0])
		if !strings.Contains(l, "Lines") {
			return true
		}
		var i int
		if _, err := fmt.Sscanf(l, "srs.Vk.Lines[%d]", &i); err != nil || l != fmt.Sprintf("srs.Vk.Lines[%d]", i) {
			reject("%s: NewSRS writes the line table in an unexpected way: %s", p.label, l)
		}
		c, ok := as.Rhs[0].(*ast.CallExpr)
		if !ok || len(c.Args) != 1 {
			reject("%s: NewSRS: %s = %s", p.label, l, gexpr(as.Rhs[0]))
		}
		se, ok := c.Fun.(*ast.SelectorExpr)
		if !ok || se.Sel.Name != "PrecomputeLines" || !p.isCurveImport(gexpr(se.X)) || gexpr(c.Args[0]) != fmt.Sprintf("srs.Vk.G2[%d]", i) {
			reject("%s: NewSRS: %s = %s is not PrecomputeLines(srs.Vk.G2[%d])", p.label, l, gexpr(as.Rhs[0]), i)
		}
		seen[i]++
		return true
	})
	if seen[0] == 0 || seen[1] == 0 || len(seen) != 2 {
		reject("%s: NewSRS does not fill Lines[0] and Lines[1]", p.label)
	}
	return fmt.Sprintf("/-- NewSRS: every one of the %d assignments to `srs.Vk.Lines[i]` is `PrecomputeLines(srs.Vk.G2[i])` (checked by the translator on this run),\nso `pairingCheckFixedQ [A, B] vk.Lines` stands for  e(A, vk.G2[0]) · e(B, vk.G2[1]) = 1,  vk.G2 = [G₂, [α]G₂]. -/\ndef NewSRS_lines_from_G2 : List Nat := %v\n\n",
		seen[0]+seen[1], strings.ReplaceAll(fmt.Sprint([]int{seen[0], seen[1]}), " ", ", "))
}

var shplonkInline = map[string]bool{"deriveChallenge": true, "flatten": true, "eval": true, "mulByConstant": true, "multiplyLinearFactor": true,
	"buildZtMinusSi": true, "buildVanishingPoly": true, "interpolate": true, "buildLagrangeFromDomain": true}

const shClasses = groupClasses + " [_root_.Inv S]"

// shplonk shapes: points per polynomial
var shShapes = [][]int{{1}, {2}, {1, 1}, {2, 1}, {2, 2}}

func shapeName(sh []int) string {
	ss := make([]string, len(sh))
	for i, n := range sh {
		ss[i] = strconv.Itoa(n)
	}
	return "_s" + strings.Join(ss, "")
}

const sigClasses = "{G Fp : Type} [_root_.Add G] [_root_.Sub G] [_root_.Neg G] [_root_.Zero G] [_root_.SMul Int G] [_root_.Add Fp] [_root_.Sub Fp] [_root_.Mul Fp] [_root_.Inv Fp] [_root_.Zero Fp] [_root_.BEq Fp]"

var ecdsaCurves = []string{"bn254", "bls12-377", "bls12-381", "bls24-315", "bls24-317", "bw6-633", "bw6-761", "secp256k1", "stark-curve", "grumpkin"}

func newSigPkg(label, dir, files string) *gpkg {
	p := loadGroupPkg(label, dir, files)
	p.classes = sigClasses
	p.typeArgs = "(G := G) (Fp := Fp)"
	p.fixedParams = ""
	p.fixedArgs = ""
	return p
}

var eddsaDirs = [][2]string{{"bn254", "ecc/bn254/twistededwards/eddsa"}, {"bls12_377", "ecc/bls12-377/twistededwards/eddsa"},
	{"bls12_381", "ecc/bls12-381/twistededwards/eddsa"}, {"bandersnatch", "ecc/bls12-381/bandersnatch/eddsa"},
	{"bls24_315", "ecc/bls24-315/twistededwards/eddsa"}, {"bls24_317", "ecc/bls24-317/twistededwards/eddsa"},
	{"bw6_633", "ecc/bw6-633/twistededwards/eddsa"}, {"bw6_761", "ecc/bw6-761/twistededwards/eddsa"}}

var groupCurves = []string{"bn254", "bls12-377", "bls12-381", "bls24-315", "bls24-317", "bw6-633", "bw6-761"}

func runGroup() {
	var failures []string
	var names []string
	guard := func(label string, f func()) {
		defer func() {
			if r := recover(); r != nil {
				if e, ok := r.(slpErr); ok {
					failures = append(failures, label+": "+string(e))
					return
				}
				panic(r)
			}
		}()
		f()
	}
	for _, c := range groupCurves {
		lc := strings.ReplaceAll(c, "-", "_")
		guard("kzg "+c, func() {
			p := loadGroupPkg("kzg_"+lc, "ecc/"+c+"/kzg", "kzg.go")
			extra := p.checkNewSRSLines()
			p.translate("Verify", nil)
			// the empty batch: both batch verifiers answer ErrZeroNbDigests before anything is computed
			p.translate("FoldProof", []int{0, 0})
			p.translate("BatchVerifySinglePoint", []int{0, 0})
			p.translate("BatchVerifyMultiPoints", []int{0, 0, 0})
			for k := 1; k <= 4; k++ {
				p.translate("fold", []int{k, k, k})
				p.translate("FoldProof", []int{k, k})
				p.translate("BatchVerifySinglePoint", []int{k, k})
			}
			for k := 1; k <= 3; k++ {
				p.translate("BatchVerifyMultiPoints", []int{k, k, k})
			}
			p.emit("kzg_"+lc, "Kzg_"+lc+".lean", extra)
			names = append(names, "Kzg_"+lc)
		})
		guard("pedersen "+c, func() {
			p := loadGroupPkg("pedersen_"+lc, "ecc/"+c+"/fr/pedersen", "pedersen.go")
			p.translate("VerifyingKey.Verify", nil)
			for k := 1; k <= 3; k++ {
				p.translate("BatchVerifyMultiVk", []int{k, k, k})
				if k > 1 {
					p.translate("BatchVerifyMultiVk", []int{k, k, 1})
				}
			}
			p.emit("pedersen_"+lc, "Pedersen_"+lc+".lean", "")
			names = append(names, "Pedersen_"+lc)
		})
	}
	for _, c := range ecdsaCurves {
		lc := strings.ReplaceAll(c, "-", "_")
		guard("ecdsa "+c, func() {
			p := newSigPkg("ecdsa_"+lc, "ecc/"+c+"/ecdsa", "ecdsa.go,marshal.go")
			p.uninterp["HashToInt"] = "List UInt8 → Int"
			p.translate("Signature.SetBytes", nil)
			p.nameSuffix = "_hash"
			p.translate("PublicKey.Verify", nil)
			p.hashNil, p.nameSuffix = true, "_nohash"
			p.translate("PublicKey.Verify", nil)
			p.emit("ecdsa_"+lc, "Ecdsa_"+lc+".lean", "")
		})
	}
	for _, c := range groupCurves {
		lc := strings.ReplaceAll(c, "-", "_")
		guard("shplonk "+c, func() {
			p := loadGroupPkg("shplonk_"+lc, "ecc/"+c+"/shplonk", "shplonk.go")
			p.classes = shClasses
			p.opaqueLenZero = true
			p.inline = map[string]bool{"deriveChallenge": true, "flatten": true, "eval": true, "mulByConstant": true, "multiplyLinearFactor": true,
				"buildZtMinusSi": true, "buildVanishingPoly": true, "interpolate": true, "buildLagrangeFromDomain": true}
			for _, sh := range shShapes {
				// parameter order: proof.ClaimedValues [][] , digests [], points [][]
				lens := []int{len(sh)}
				lens = append(lens, sh...)
				lens = append(lens, len(sh), len(sh))
				lens = append(lens, sh...)
				p.lensNames = map[string]string{"BatchVerify" + lensKey(lens): "BatchVerify" + shapeName(sh)}
				p.translate("BatchVerify", lens)
			}
			p.emit("shplonk_"+lc, "Shplonk_"+lc+".lean", "")
		})
	}
	for _, c := range groupCurves {
		lc := strings.ReplaceAll(c, "-", "_")
		guard("fflonk "+c, func() {
			p := loadGroupPkg("fflonk_"+lc, "ecc/"+c+"/fflonk", "fflonk.go")
			p.classes = shClasses + " [_root_.BEq S]"
			p.opaqueLenZero = true
			p.inline = map[string]bool{"eval": true, "extendSet": true}
			p.uninterp["getIthRootOne"] = "root"
			// (packs, polynomials per pack t, points per pack): proof.SOpeningProof.ClaimedValues [][], proof.ClaimedValues [][][], digests, points
			p.lensNames = map[string]string{}
			for _, sh := range [][2]int{{1, 1}, {2, 1}} {
				t, m := sh[0], sh[1]
				lens := []int{1, t * m, 1, t}
				for i := 0; i < t; i++ {
					lens = append(lens, m)
				}
				lens = append(lens, 1, 1, m)
				p.lensNames["BatchVerify"+lensKey(lens)] = fmt.Sprintf("BatchVerify_t%d_m%d", t, m)
				p.translate("BatchVerify", lens)
			}
			p.emit("fflonk_"+lc, "Fflonk_"+lc+".lean", "")
		})
	}
	runGroupPerm(guard) // slpgperm.go: permutation.Verify (C17 tie T)
	for _, d := range eddsaDirs {
		guard("eddsa "+d[0], func() {
			p := newSigPkg("eddsa_"+d[0], d[1], "eddsa.go")
			p.frIsCoord = true
			p.uninterp["Signature.SetBytes"] = "parse"
			p.nameSuffix = "_hash"
			p.translate("PublicKey.Verify", nil)
			p.hashNil, p.nameSuffix = true, "_nohash"
			p.translate("PublicKey.Verify", nil)
			p.emit("eddsa_"+d[0], "Eddsa_"+d[0]+".lean", "")
		})
	}
	runGroupSign(guard) // slpsign.go: eddsa Signature.SetBytes (C12 tie T)
	if len(failures) > 0 {
		sort.Strings(failures)
		fmt.Fprintf(os.Stderr, "gvgoslp: group-level verifier code left the supported subset:\n  %s\n", strings.Join(failures, "\n  "))
		os.Exit(1)
	}
	_ = names
}
