// Part 5 (imp.go, mode "imp"): small IMPERATIVE, STATEFUL Go functions (fiat-shamir/transcript.go) are translated,
// statement by statement, into core-only Lean defs over the value vocabulary of lean/GnarkVerif/Model/GoImp.lean.
//
// Supported subset (anything else is a fatal error = broken tie T, never a silent skip):
//
//	types       int, bool, string, []byte, []T, map[string]T, struct, *struct (as a struct FIELD: Option; as receiver /
//	            fresh `&T{…}` / result: the struct value, passed and returned by value), hash.Hash (abstract), error
//	statements  x := e, x = e, x.f = e, m[k] = e, `v, ok := m[k]`, `_, err := h.Write(p)`, h.Reset(), copy(dst, src)
//	            (dst must have been `make`d by the statement just before), if / else (with init), return,
//	            `for i := range xs`, `for _, x := range xs` (slices only), `defer <stmt>` at the top level of a function
//	expressions literals, variables, fields, xs[i], x[:], len, make([]byte, n), make(map[string]T), append(s, x…),
//	            []byte(s), fmt.Errorf(format, err), h.Sum(nil), &local, &T{…}, T{…}, ! - == != < <= > >= + - * && ||
//
// Side conditions that are CHECKED here (see Model/GoImp.lean for the semantics they justify):
//   - `&x` of a local: not inside a loop and x is not assigned (nor any field of it, nor copy()'d into) by any statement
//     that comes later in the function; no assignment / copy ever goes through a pointer-typed field;
//   - every `p.f` through an Option pointer p is guarded by `p == nil ||` to its left or by an earlier
//     `if p == nil || … { return }` of the same or an enclosing block, with no assignment to p in between;
//   - `x = append(y, …)` only with x ≡ y; a local may not shadow a live local; no break / continue / goto / switch.
//
// Targets with `methodCalls` (accumulator/merkletree tree.go + readers.go) additionally get:
//   - SINGLY LINKED LISTS: `*S` for a struct S with one field `next *S` is the VALUE `List S` of the chain (nil = [], `p.next` = tail,
//     `&S{next: q, …}` = cons; the link is not a field of the Lean structure).  CHECKED: every dereference is nil-guarded (guards flow
//     through `x := p`, through `&S{…}` / functions all of whose returns are `&S{…}`, through loop conditions, and survive a loop only
//     if every assignment of the loop re-establishes them; both branches of an if are joined) or covered by an ENTRY CONDITION
//     (impTarget.pre) that is assumed in the callee and checked at every call site, every mention of the callee in the package being
//     inside a translated function; a field of a node is written only through a path that was assigned `&S{…}` and has not been read
//     as a value since (so no other pointer to the node exists), never its link;
//   - calls of methods translated before on the receiver (a method whose text never assigns the receiver returns its results only;
//     the callee's loops get fresh fuel parameters of the caller), named results (locals at their zero value; no bare return),
//     a slice result for which some return gives the literal nil as an Option, `if c { panic(lit) }` as FIRST statement as the
//     predicate `<fn>.panics` (the def describes the other calls), `uint64(1 << s)`, `append(x[:0:0], x...)` = x,
//     `make([]T, n, cap)`, `x[:n]`, `x[j] = v` on a local only ever assigned make / append to itself, fmt.Errorf without %w
//     (identified by its format), else-if chains with break inside a loop (the continuation is translated once per branch);
//   - io.Reader as a finite byte stream that never fails: `n, err := io.ReadFull(r, buf)` = `readFull` (emitted in the generated
//     file), buf CHECKED to be the `make` of the statement just before; io.EOF / io.ErrUnexpectedEOF.
package main

import (
	"bytes"
	"fmt"
	"go/ast"
	"go/parser"
	"go/printer"
	"go/token"
	"os"
	"path/filepath"
	"sort"
	"strings"
)

type impTarget struct {
	dir, file, ns, out string
	funcs              []string
	elem               string   // name of a type treated as an ABSTRACT element type F with operations mul / one / inv (field level)
	abstract           []string // package-local functions called as ABSTRACT parameters (hash arguments dropped); their source text is
	// emitted as `abstractSrc` so that an edit of them breaks the proofs that pin it
	more        []string // further files of the package whose functions may be named in funcs
	methodCalls bool     // methods may call the methods translated before them on their receiver; a method that never assigns its
	// receiver returns its results only; a slice result for which some return gives the literal nil is an Option
	pre map[string][]string // unexported function -> pointer paths (receiver paths / parameter names) that must be non-nil at entry:
	// assumed inside the function, CHECKED at every call site; every caller in the package must be a translated function
	mode   string     // "h2f": Hash / SetBigInt of a field package (imp_h2f.go): parameters zeroF / setBigIntF / ExpandMsgXmd instead of mul / one / inv
	grp    string     // name of a point type treated as an ABSTRACT group element type G with operations add / dbl / neg / zero (imp_grp.go)
	inf    string     // name of the package-level variable holding the point at infinity (read as `zero`)
	ext    bool       // extended parameter set (JointScalarMultiplication / mulGLV): fromAffine, phi, split, limbs, frBits, elBitLen
	aff    string     // name of the affine point type (abstract type A, only converted by FromAffine)
	digest bool       // the MiMC digest state machine (imp_digest.go): struct over the abstract element type, field primitives / codecs as parameters
	guards []impGuard // accepted alternative layout: exported function = panic guard around an unexported body
}

// impGuard: when the file declares `inner`, the function `name` must have EXACTLY the text `text` (a wrapper that calls
// `inner` with its own arguments and turns a panic into the result false: panics are not modelled, so the wrapper is the
// identity on every run the translation speaks about) and `inner` is translated under the name `name`. Anything else: exit.
type impGuard struct{ name, inner, text string }

var impTargets = []impTarget{
	{dir: "fiat-shamir", file: "transcript.go", ns: "FiatShamir", out: "Imp/Transcript.lean",
		funcs: []string{"NewTranscript", "Bind", "ComputeChallenge"}},
	{dir: "internal/parallel", file: "execute.go", ns: "Parallel", out: "Imp/Execute.lean", funcs: []string{"Execute"}},
	{dir: "ecc/bn254/fr", file: "element.go", ns: "Exp_bn254_fr", out: "Imp/Exp_bn254_fr.lean", funcs: []string{"Exp"}, elem: "Element"},
	{dir: "field/hash", file: "hashutils.go", ns: "HashUtils", out: "Imp/ExpandMsgXmd.lean", funcs: []string{"min", "ExpandMsgXmd"}},
	{dir: "accumulator/merkletree", file: "verify.go", ns: "MerkleVerify", out: "Imp/MerkleVerify.lean", funcs: []string{"VerifyProof"},
		abstract: []string{"leafSum", "nodeSum", "sum"},
		guards:   []impGuard{{"VerifyProof", "verifyProof", "func VerifyProof(h hash.Hash, merkleRoot []byte, proofSet [][]byte, proofIndex uint64, numLeaves uint64) (ok bool) { defer func() { if r := recover(); r != nil { ok = false } }() return verifyProof(h, merkleRoot, proofSet, proofIndex, numLeaves) }"}}},
	{dir: "ecc/bn254/fr/mimc", file: "mimc.go", ns: "Mimc_bn254", out: "Imp/Mimc_bn254.lean", funcs: digestFuncs, digest: true},
	{dir: "accumulator/merkletree", file: "tree.go", ns: "MerkleTree", out: "Imp/MerkleTree.lean",
		funcs:    []string{"New", "joinSubTrees", "joinAllSubTrees", "Root", "Push", "Prove", "SetIndex", "PushSubTree", "ReadAll"},
		more:     []string{"readers.go"},
		abstract: []string{"leafSum", "nodeSum", "sum"}, methodCalls: true,
		pre: map[string][]string{"joinSubTrees": {"a", "b"}, "joinAllSubTrees": {"t.head"}}},
}

// methods of the MiMC digest (and the package-level Sum), in dependency order
var digestFuncs = []string{"Reset", "checksum", "Sum", "Write", "SetState", "State", "WriteString", "pkgSum"}

// ---------------------------------------------------------------------------------------------- types

type ity struct {
	k    string // int bool string byte slice map struct ptr hash error events (func(int,…) parameter) waitgroup
	n    int    // events: number of int arguments
	elem *ity
	name string
}

var (
	tyU64    = &ity{k: "uint64"}
	tyInt    = &ity{k: "int"}
	tyBool   = &ity{k: "bool"}
	tyString = &ity{k: "string"}
	tyByte   = &ity{k: "byte"}
	tyHash   = &ity{k: "hash"}
	tyErr    = &ity{k: "error"}
	tyBytes  = &ity{k: "slice", elem: tyByte}
)

func (t *ity) eq(u *ity) bool {
	if t == nil || u == nil {
		return t == u
	}
	if t.k != u.k || t.name != u.name || t.n != u.n {
		return false
	}
	if t.elem != nil || u.elem != nil {
		return t.elem.eq(u.elem)
	}
	return true
}

func (t *ity) String() string {
	switch t.k {
	case "slice":
		return "[]" + t.elem.String()
	case "map":
		return "map[string]" + t.elem.String()
	case "ptr":
		return "*" + t.elem.String()
	case "struct":
		return t.name
	}
	return t.k
}

type impField struct {
	name string
	ty   *ity
}

type impPkg struct {
	tg            impTarget
	fset          *token.FileSet
	structs       map[string][]impField
	order         []string          // struct names in source order
	errVars       map[string]string // sentinel name -> message
	errOrd        []string
	funcs         map[string]*ast.FuncDecl
	methods       map[string]*ast.FuncDecl // "RecvType.Name" -> declaration (functions of the target file)
	absDecl       map[string]*ast.FuncDecl
	absCalled     []string
	loopInfos     []impLoopInfo
	grpTranslated map[string]*impSig // methods of the point type translated so far (receiver by value, result = new receiver)
	translated    map[string]*impSig // pure package-local functions translated so far (callable from later ones)
	file          *ast.File
	digMethods    map[string]*impSig // digest mode: methods of the receiver struct translated so far (receiver passed and returned by value)
	consts        map[string]string  // package-level integer constants `Name = literal` (mode h2f)
	constsUsed    []string
	modulus       string              // mode h2f: the literal of `_modulus.SetString("…", 16)` in init(), as a Lean hexadecimal numeral
	imports       map[string]string   // local package name -> import path
	elemMeth      map[string]*impSig  // methods `func (z *Element) M(…) *Element` of this target translated so far (callable as X.M(…))
	usesReader    bool                // some translated function has an io.Reader parameter
	listNext      map[string]string   // struct S with a field `next *S`: name of that field (S is the node type of a singly linked list)
	recvMeths     map[string]*impMeth // methods translated so far (callable on the receiver from later ones; targets with methodCalls)
	callers       map[string][]string // function / method name -> names of the package functions whose body calls it
}

// helper defs of loops in generation order (inner loops first): what the all-packages-equal proofs need
type impLoopInfo struct {
	name, kind string // kind: "range" (structural recursion on the list) / "for" (fuel recursion)
	ro, S      []string
}

type impSig struct {
	params   []*ity
	result   *ity
	results  []*ity // methods: all results
	pnames   []string
	nonNilRe bool // every return statement returns a fresh `&T{…}`
}

type impMeth struct {
	mutates bool // the def returns the new receiver value (first component)
	params  []*ity
	results []*ity
	nfuel   int
}

var impAbsParams, impAbsArgs string // abstract function parameters carried by every def of the current target

func comparedWithNil(body ast.Node, x string) bool {
	r := false
	ast.Inspect(body, func(n ast.Node) bool {
		if b, ok := n.(*ast.BinaryExpr); ok && (b.Op == token.EQL || b.Op == token.NEQ) {
			if id, ok := b.Y.(*ast.Ident); ok && id.Name == "nil" && exprText(b.X) == x {
				r = true
			}
		}
		return true
	})
	return r
}

func (p *impPkg) die(n ast.Node, f string, a ...any) {
	pos := ""
	if n != nil {
		pos = p.fset.Position(n.Pos()).String() + ": "
	}
	die("imp: %s%s", pos, fmt.Sprintf(f, a...))
}

func (p *impPkg) goType(e ast.Expr) *ity {
	switch v := e.(type) {
	case *ast.Ident:
		switch v.Name {
		case "int":
			return tyInt
		case "uint64", "uint": // 64-bit platforms; values are Nat < 2^64, every operation reduces explicitly
			return tyU64
		case "bool":
			return tyBool
		case "string":
			return tyString
		case "byte", "uint8":
			return tyByte
		case "error":
			return tyErr
		case "int64": // mode h2f only: an Int in [-2^63, 2^63), every operation wraps explicitly
			if p.tg.mode == "h2f" {
				return &ity{k: "int64"}
			}
		}
		if _, ok := p.structs[v.Name]; ok {
			return &ity{k: "struct", name: v.Name}
		}
		if p.tg.elem != "" && v.Name == p.tg.elem {
			return &ity{k: "elem"}
		}
		if p.tg.grp != "" && v.Name == p.tg.grp {
			return &ity{k: "grp"}
		}
		if p.tg.aff != "" && v.Name == p.tg.aff {
			return &ity{k: "aff"}
		}
	case *ast.SelectorExpr:
		if id, ok := v.X.(*ast.Ident); ok && p.tg.digest && id.Name == "fr" && v.Sel.Name == "Element" {
			return &ity{k: "elem"}
		}
		if id, ok := v.X.(*ast.Ident); ok && p.tg.digest && id.Name == "fr" && v.Sel.Name == "ByteOrder" {
			return &ity{k: "abs", name: "BO"}
		}
		if id, ok := v.X.(*ast.Ident); ok && id.Name == "hash" && v.Sel.Name == "Hash" {
			return tyHash
		}
		if id, ok := v.X.(*ast.Ident); ok && id.Name == "io" && v.Sel.Name == "Reader" {
			// a reader is read as a finite byte stream that never fails: the value is the part not yet read (see `readFull`)
			p.usesReader = true
			return &ity{k: "reader"}
		}
		if id, ok := v.X.(*ast.Ident); ok && id.Name == "big" && v.Sel.Name == "Int" {
			return &ity{k: "bigint"}
		}
		if id, ok := v.X.(*ast.Ident); ok && id.Name == "fr" && v.Sel.Name == "Element" && p.tg.ext {
			return &ity{k: "frel"} // the raw words of an fr.Element ([Limbs]uint64) as a list of naturals
		}
		if id, ok := v.X.(*ast.Ident); ok && id.Name == "sync" && v.Sel.Name == "WaitGroup" {
			return &ity{k: "waitgroup"}
		}
	case *ast.FuncType:
		// a callback `func(int, …, int)` without results: its calls are recorded as events
		if v.Results == nil || len(v.Results.List) == 0 {
			n := 0
			for _, fl := range v.Params.List {
				if id, ok := fl.Type.(*ast.Ident); !ok || id.Name != "int" {
					n = -1
					break
				}
				if len(fl.Names) == 0 {
					n++
				} else {
					n += len(fl.Names)
				}
			}
			if n >= 1 {
				return &ity{k: "events", n: n}
			}
		}
	case *ast.ArrayType:
		if v.Len == nil {
			return &ity{k: "slice", elem: p.goType(v.Elt)}
		}
		if n := litInt(v.Len); n != nil && p.tg.grp != "" && n.IsInt64() && n.Int64() > 0 && n.Int64() < 1024 {
			// fixed-size array of group elements: a list of that length (a value; element writes are value updates)
			if t := p.goType(v.Elt); t.k == "grp" || t.k == "frel" {
				return &ity{k: "array", n: int(n.Int64()), elem: t}
			}
		}
	case *ast.MapType:
		if k := p.goType(v.Key); k.k == "string" {
			return &ity{k: "map", elem: p.goType(v.Value)}
		}
	case *ast.StarExpr:
		if t := p.goType(v.X); t.k == "struct" && p.listNext[t.name] != "" {
			// pointer to a list node: the VALUE is the chain of nodes reachable through `next` (nil = []); sound because nodes are
			// immutable once shared (field writes only to a node that is fresh and referenced by one path, checked)
			return &ity{k: "lptr", elem: t}
		} else if t.k == "struct" || t.k == "elem" || t.k == "grp" || t.k == "aff" {
			return &ity{k: "ptr", elem: t}
		} else if t.k == "bigint" { // *big.Int is read as an exact integer VALUE (mutating methods only on fresh objects)
			return t
		}
	case *ast.Ellipsis:
		return &ity{k: "slice", elem: p.goType(v.Elt)}
	}
	p.die(e, "type outside the subset")
	return nil
}

// Lean rendering of a type; qual = inside a function body (a local may shadow a struct name)
func (p *impPkg) lty(t *ity, qual bool) string {
	switch t.k {
	case "int":
		return "Int"
	case "uint64":
		return "Nat"
	case "nslice":
		return "Option " + p.ltyA(t.elem, qual)
	case "absfn", "abs":
		return t.name
	case "elem":
		return "F"
	case "grp":
		return "G"
	case "aff":
		return "A"
	case "frel":
		return "List Nat"
	case "bigpair":
		return "Int × Int"
	case "array":
		return "List " + p.ltyA(t.elem, qual)
	case "bigint", "int64":
		return "Int"
	case "bool":
		return "Bool"
	case "string":
		return "GoString"
	case "byte":
		return "UInt8"
	case "hash":
		return "Hash"
	case "reader":
		return "Bytes"
	case "error":
		return "Err"
	case "events":
		return "List (" + strings.TrimSuffix(strings.Repeat("Int × ", t.n), " × ") + ")"
	case "waitgroup":
		return "Unit"
	case "slice":
		if t.elem.k == "byte" {
			return "Bytes"
		}
		return "List " + p.ltyA(t.elem, qual)
	case "map":
		return "GoMap " + p.ltyA(t.elem, qual)
	case "ptr":
		return "Option " + p.ltyA(t.elem, qual)
	case "lptr":
		return "List " + p.ltyA(t.elem, qual)
	case "struct":
		if p.tg.digest {
			return t.name + " F BO"
		}
		if qual {
			return p.tg.ns + "." + t.name
		}
		return t.name
	}
	die("imp: lty %v", t)
	return ""
}

func (p *impPkg) ltyA(t *ity, qual bool) string {
	s := p.lty(t, qual)
	if strings.Contains(s, " ") {
		return "(" + s + ")"
	}
	return s
}

func (p *impPkg) zero(t *ity) string {
	switch t.k {
	case "int", "byte", "uint64", "int64":
		return "0"
	case "bool":
		return "false"
	case "string", "slice", "events", "lptr", "reader":
		return "[]"
	case "nslice":
		return "none"
	case "waitgroup":
		return "()"
	case "hash":
		return "{}"
	case "error":
		return "Err.nil"
	case "map":
		return "GoMap.empty"
	case "ptr":
		return "none"
	case "struct":
		if p.tg.digest {
			var parts []string
			for _, fl := range p.structs[t.name] {
				if fl.ty.k == "abs" {
					die("imp: zero value of %s: the field %s has an abstract (interface) type", t.name, fl.name)
				}
				parts = append(parts, fl.name+" := "+p.zero(fl.ty))
			}
			return "{ " + strings.Join(parts, ", ") + " }"
		}
		return "{}"
	case "grp":
		return "uninit"
	case "frel":
		return "(List.replicate limbs.toNat 0)"
	case "array":
		return fmt.Sprintf("List.replicate %d %s", t.n, p.zero(t.elem))
	case "bigint":
		return "0"
	case "elem":
		if p.tg.digest {
			return "fZero"
		}
	}
	return "default"
}

// ---------------------------------------------------------------------------------------------- loading

func loadImp(tg impTarget) *impPkg {
	p := &impPkg{tg: tg, fset: token.NewFileSet(), structs: map[string][]impField{}, errVars: map[string]string{}, funcs: map[string]*ast.FuncDecl{}, methods: map[string]*ast.FuncDecl{}, absDecl: map[string]*ast.FuncDecl{}, translated: map[string]*impSig{}, grpTranslated: map[string]*impSig{}, digMethods: map[string]*impSig{},
		listNext: map[string]string{}, recvMeths: map[string]*impMeth{}, callers: map[string][]string{},
		consts: map[string]string{}, imports: map[string]string{}, elemMeth: map[string]*impSig{}}
	f, err := parser.ParseFile(p.fset, filepath.Join(repo, tg.dir, tg.file), nil, parser.ParseComments)
	if err != nil {
		die("imp: parse: %v", err)
	}
	if tg.mode == "h2f" {
		p.loadH2F(f)
	}
	p.file = f
	// pass 1: struct names (so that field types can refer to structs declared later)
	var specs []*ast.TypeSpec
	for _, d := range f.Decls {
		if gd, ok := d.(*ast.GenDecl); ok && gd.Tok == token.TYPE {
			for _, s := range gd.Specs {
				ts := s.(*ast.TypeSpec)
				if _, ok := ts.Type.(*ast.StructType); ok && tg.grp == "" {
					p.structs[ts.Name.Name] = nil
					p.order = append(p.order, ts.Name.Name)
					specs = append(specs, ts)
				}
			}
		}
	}
	for _, ts := range specs { // self-pointer fields first: `next *S` inside S makes *S a list-node pointer
		for _, fl := range ts.Type.(*ast.StructType).Fields.List {
			if st, ok := fl.Type.(*ast.StarExpr); ok {
				if id, ok := st.X.(*ast.Ident); ok && id.Name == ts.Name.Name {
					if len(fl.Names) != 1 || p.listNext[ts.Name.Name] != "" {
						p.die(fl, "more than one self-pointer field (only singly linked lists)")
					}
					p.listNext[ts.Name.Name] = fl.Names[0].Name
				}
			}
		}
	}
	for _, ts := range specs {
		var fs []impField
		for _, fl := range ts.Type.(*ast.StructType).Fields.List {
			if len(fl.Names) == 0 {
				p.die(fl, "embedded field")
			}
			if st, ok := fl.Type.(*ast.StarExpr); ok {
				if id, ok := st.X.(*ast.Ident); ok && id.Name == ts.Name.Name {
					continue // the `next` pointer is the tail of the list value
				}
			}
			for _, n := range fl.Names {
				fs = append(fs, impField{n.Name, p.goType(fl.Type)})
			}
		}
		p.structs[ts.Name.Name] = fs
	}
	for _, d := range f.Decls {
		switch v := d.(type) {
		case *ast.GenDecl:
			if v.Tok != token.VAR {
				continue
			}
			for _, s := range v.Specs {
				vs := s.(*ast.ValueSpec)
				for i, n := range vs.Names {
					if i < len(vs.Values) {
						if c, ok := vs.Values[i].(*ast.CallExpr); ok && exprText(c.Fun) == "errors.New" && len(c.Args) == 1 {
							if bl, ok := c.Args[0].(*ast.BasicLit); ok && bl.Kind == token.STRING {
								p.errVars[n.Name] = bl.Value
								p.errOrd = append(p.errOrd, n.Name)
							}
						}
					}
				}
			}
		case *ast.FuncDecl:
			if v.Recv != nil && len(v.Recv.List) == 1 {
				p.methods[strings.TrimPrefix(exprText(v.Recv.List[0].Type), "*")+"."+v.Name.Name] = v
			}
			if tg.grp != "" && (v.Recv == nil || len(v.Recv.List) != 1 || exprText(v.Recv.List[0].Type) != "*"+tg.grp) {
				continue // a point-type target: only the methods of that type are targets
			}
			if tg.digest && v.Recv == nil { // a method and a package-level function may share their name (Sum)
				p.funcs["pkg"+v.Name.Name] = v
			} else {
				p.funcs[v.Name.Name] = v
			}
		}
	}
	for _, gd := range tg.guards {
		in := p.funcs[gd.inner]
		if in == nil {
			continue
		}
		out := p.funcs[gd.name]
		if out == nil {
			die("imp: %s: %s without %s", tg.file, gd.inner, gd.name)
		}
		var buf bytes.Buffer
		doc := out.Doc
		out.Doc = nil
		printer.Fprint(&buf, p.fset, out)
		out.Doc = doc
		if got := strings.Join(strings.Fields(buf.String()), " "); got != gd.text {
			die("imp: %s: %s is not the accepted panic guard around %s:\n  %s", tg.file, gd.name, gd.inner, got)
		}
		in.Name = ast.NewIdent(gd.name)
		p.funcs[gd.name] = in
		delete(p.funcs, gd.inner)
	}
	for _, m := range tg.more {
		mf, err := parser.ParseFile(p.fset, filepath.Join(repo, tg.dir, m), nil, parser.ParseComments)
		if err != nil {
			die("imp: parse: %v", err)
		}
		for _, d := range mf.Decls {
			if fd, ok := d.(*ast.FuncDecl); ok {
				if p.funcs[fd.Name.Name] != nil {
					die("imp: %s: %s declared twice", tg.dir, fd.Name.Name)
				}
				p.funcs[fd.Name.Name] = fd
			}
		}
	}
	if len(tg.pre) > 0 {
		files, _ := filepath.Glob(filepath.Join(repo, tg.dir, "*.go"))
		sort.Strings(files)
		for _, fn := range files {
			if strings.HasSuffix(fn, "_test.go") {
				continue
			}
			af, err := parser.ParseFile(token.NewFileSet(), fn, nil, 0)
			if err != nil {
				die("imp: parse: %v", err)
			}
			for _, d := range af.Decls {
				fd, ok := d.(*ast.FuncDecl)
				if !ok || fd.Body == nil {
					continue
				}
				ast.Inspect(fd.Body, func(n ast.Node) bool {
					switch c := n.(type) {
					case *ast.Ident: // also catches a function used as a value
						p.callers[c.Name] = append(p.callers[c.Name], fd.Name.Name)
					}
					return true
				})
			}
		}
		for name := range tg.pre {
			if ast.IsExported(name) {
				die("imp: %s: entry condition declared for the exported function %s", tg.dir, name)
			}
			for _, c := range p.callers[name] {
				ok := false
				for _, fn := range tg.funcs {
					ok = ok || fn == c
				}
				if !ok {
					die("imp: %s: %s (which has an entry condition) is mentioned in %s, which is not translated", tg.dir, name, c)
				}
			}
		}
	}
	// abstract package-local functions: found in any non-test file of the package
	if len(tg.abstract) > 0 {
		files, _ := filepath.Glob(filepath.Join(repo, tg.dir, "*.go"))
		sort.Strings(files)
		for _, fn := range files {
			if strings.HasSuffix(fn, "_test.go") {
				continue
			}
			af, err := parser.ParseFile(p.fset, fn, nil, 0)
			if err != nil {
				die("imp: parse: %v", err)
			}
			for _, d := range af.Decls {
				if fd, ok := d.(*ast.FuncDecl); ok && fd.Recv == nil {
					for _, a := range tg.abstract {
						if fd.Name.Name == a {
							p.absDecl[a] = fd
						}
					}
				}
			}
		}
		for _, a := range tg.abstract {
			if p.absDecl[a] == nil {
				die("imp: %s: abstract function %s not found", tg.dir, a)
			}
		}
	}
	return p
}

// Lean type of an abstract function (hash.Hash parameters dropped, variadic = list) and the indices of its kept parameters
func (p *impPkg) absSig(name string) (string, []*ity, *ity) {
	fd := p.absDecl[name]
	var ts []string
	var tys []*ity
	for _, fl := range fd.Type.Params.List {
		t := p.paramType(fl.Type)
		n := len(fl.Names)
		if n == 0 {
			n = 1
		}
		for i := 0; i < n; i++ {
			tys = append(tys, t)
			if t.k != "hash" {
				ts = append(ts, p.ltyA(t, false))
			}
		}
	}
	if fd.Type.Results == nil || len(fd.Type.Results.List) != 1 {
		p.die(fd, "abstract function must have one result")
	}
	rt := p.paramType(fd.Type.Results.List[0].Type)
	ts = append(ts, p.ltyA(rt, false))
	return strings.Join(ts, " → "), tys, rt
}

func exprText(e ast.Expr) string {
	switch v := e.(type) {
	case *ast.Ident:
		return v.Name
	case *ast.SelectorExpr:
		return exprText(v.X) + "." + v.Sel.Name
	case *ast.ParenExpr:
		return exprText(v.X)
	case *ast.StarExpr:
		return "*" + exprText(v.X)
	case *ast.IndexExpr:
		return exprText(v.X) + "[" + exprText(v.Index) + "]"
	case *ast.BasicLit:
		return v.Value
	case *ast.BinaryExpr:
		return exprText(v.X) + " " + v.Op.String() + " " + exprText(v.Y)
	case *ast.CallExpr:
		var as []string
		for _, a := range v.Args {
			as = append(as, exprText(a))
		}
		return exprText(v.Fun) + "(" + strings.Join(as, ", ") + ")"
	}
	return fmt.Sprintf("<%T>", e)
}

// struct declarations in dependency order
func (p *impPkg) structOrder() []string {
	var out []string
	done := map[string]bool{}
	var visit func(n string, stack map[string]bool)
	var deps func(t *ity, f func(string))
	deps = func(t *ity, f func(string)) {
		if t.k == "struct" {
			f(t.name)
		}
		if t.elem != nil {
			deps(t.elem, f)
		}
	}
	visit = func(n string, stack map[string]bool) {
		if done[n] {
			return
		}
		if stack[n] {
			die("imp: recursive struct %s", n)
		}
		stack[n] = true
		for _, f := range p.structs[n] {
			deps(f.ty, func(m string) { visit(m, stack) })
		}
		done[n] = true
		out = append(out, n)
	}
	for _, n := range p.order {
		visit(n, map[string]bool{})
	}
	return out
}

// ---------------------------------------------------------------------------------------------- functions and files

func (p *impPkg) paramType(e ast.Expr) *ity {
	t := p.goType(e)
	if t.k == "ptr" { // receiver / result / parameter objects are passed and returned by value
		return t.elem
	}
	return t
}

func (p *impPkg) translateFunc(name string) string {
	fd := p.funcs[name]
	if fd == nil || fd.Body == nil {
		die("imp: %s/%s: function %s not found", p.tg.dir, p.tg.file, name)
	}
	if p.tg.grp != "" {
		renameShadowing(fd)
	}
	f := &impFn{p: p, fd: fd, name: name, nonNil: map[string]bool{}}
	f.push()
	var params []string
	if fd.Recv != nil {
		if len(fd.Recv.List) != 1 || len(fd.Recv.List[0].Names) != 1 {
			p.die(fd, "receiver form")
		}
		if _, ok := fd.Recv.List[0].Type.(*ast.StarExpr); !ok {
			p.die(fd, "value receiver (outside the subset)")
		}
		f.recv = fd.Recv.List[0].Names[0].Name
		t := p.paramType(fd.Recv.List[0].Type)
		f.declare(fd, f.recv, t)
		f.recvTy = t
		params = append(params, "("+lname(f.recv)+" : "+p.lty(t, false)+")")
	}
	for _, fl := range fd.Type.Params.List {
		if _, ok := fl.Type.(*ast.StarExpr); ok && p.goType(fl.Type).k != "bigint" && p.goType(fl.Type).k != "lptr" && !(p.goType(fl.Type).k == "ptr" && (p.goType(fl.Type).elem.k == "grp" || p.goType(fl.Type).elem.k == "aff")) {
			p.die(fl, "pointer parameter (outside the subset: only the receiver is passed by reference)")
		}
		t0 := p.paramType(fl.Type)
		for _, n := range fl.Names {
			t := t0
			if t.k == "slice" && comparedWithNil(fd.Body, n.Name) {
				// the one place where nil and empty differ: the parameter is an Option, every other use must be guarded
				t = &ity{k: "nslice", elem: t0}
				for _, a := range f.assignedAnywhere(fd.Body) {
					if a == n.Name {
						p.die(fl, "parameter %s is compared with nil and assigned", n.Name)
					}
				}
			}
			f.declare(fl, n.Name, t)
			if t.k == "events" {
				// the callback is not a Lean parameter: the list of its calls is threaded like a receiver and returned
				if f.recv != "" {
					p.die(fl, "callback parameter in a method / second callback")
				}
				f.recv, f.recvTy, f.evRecv = n.Name, t, true
				continue
			}
			params = append(params, "("+lname(n.Name)+" : "+p.lty(t, false)+")")
		}
	}
	var namedRes []string
	if fd.Type.Results != nil {
		for _, fl := range fd.Type.Results.List {
			if len(fl.Names) > 0 {
				// named results are locals that start at their zero value (a bare `return` is refused: every return lists its values)
				for _, n := range fl.Names {
					t := p.paramType(fl.Type)
					f.declare(fl, n.Name, t)
					namedRes = append(namedRes, "  let "+lname(n.Name)+" : "+p.lty(t, false)+" := "+p.zero(t)+"  -- named result")
					f.results = append(f.results, t)
				}
				continue
			}
			if _, isPtr := fl.Type.(*ast.StarExpr); isPtr && p.tg.mode == "h2f" && f.recvTy != nil && f.recvTy.k == "elem" && len(fd.Type.Results.List) == 2 {
				// `func (z *Element) M(…) (*Element, error)`: the returned pointer is z or nil: Option F
				f.results = append(f.results, p.goType(fl.Type))
				continue
			}
			f.results = append(f.results, p.paramType(fl.Type))
		}
	}
	// a slice result for which some return statement gives the literal nil (or the nil-able result of a method): the result is an
	// Option (nil = none), every other returned value v is `some v`
	ast.Inspect(fd.Body, func(n ast.Node) bool {
		if _, ok := n.(*ast.FuncLit); ok {
			return false
		}
		if r, ok := n.(*ast.ReturnStmt); ok && len(r.Results) == len(f.results) && p.tg.methodCalls {
			for i, e := range r.Results {
				if f.results[i].k != "slice" {
					continue
				}
				if id, ok := e.(*ast.Ident); ok && id.Name == "nil" {
					f.results[i] = &ity{k: "nslice", elem: f.results[i]}
				} else if c, ok := e.(*ast.CallExpr); ok {
					if se, ok := c.Fun.(*ast.SelectorExpr); ok && exprText(se.X) == f.recv {
						if m := p.recvMeths[se.Sel.Name]; m != nil && len(m.results) == 1 && m.results[0].k == "nslice" {
							f.results[i] = m.results[0]
						}
					}
				}
			}
		}
		return true
	})
	for _, g := range p.tg.pre[name] { // entry condition: assumed here, checked at every call site
		f.nonNil[g] = true
	}
	if f.recv != "" && (f.recvTy.k == "elem" || f.recvTy.k == "grp") && len(f.results) == 1 && f.results[0].k == f.recvTy.k {
		// `func (z *Element) M(…) *Element`: the methods of the element type return their receiver; the def returns the new value of z
		f.retSelf = true
		f.results = nil
		if p.tg.mode == "h2f" {
			sig := &impSig{}
			for _, fl := range fd.Type.Params.List {
				for range fl.Names {
					sig.params = append(sig.params, p.paramType(fl.Type))
				}
			}
			defer func() { p.elemMeth[name] = sig }()
		}
	}
	if f.recv != "" && !f.evRecv && f.recvTy.k == "struct" && p.tg.methodCalls {
		// a method that never assigns its receiver (nor calls a method that does) returns its results only
		f.recvRO = true
		for _, a := range f.assigned(fd.Body) {
			if a == f.recv {
				f.recvRO = false
			}
		}
	}
	u := &iuses{}
	c := &ictx{uses: u,
		ret: func(vals string) string {
			if f.recv == "" || f.recvRO {
				return vals
			}
			if len(f.results) == 0 {
				return lname(f.recv)
			}
			return "(" + lname(f.recv) + ", " + vals + ")"
		}}
	c.fall = func() string {
		if len(f.results) != 0 {
			p.die(fd, "control reaches the end of a function with results")
		}
		return c.ret("()")
	}
	f.push()
	if p.tg.grp != "" {
		f.checkRecvAlias()
	}
	body := f.seq(fd.Body.List, nil, c, "  ", nil, true)
	if len(namedRes) > 0 {
		body = strings.Join(namedRes, "\n") + "\n" + body
	}
	if f.evRecv {
		body = "  let " + lname(f.recv) + " : " + p.lty(f.recvTy, false) + " := []  -- calls of the callback, in order\n" + body
	}
	if f.usesNumCPU {
		params = append([]string{"(numCPU : Int)"}, params...)
	}
	for _, fu := range f.fuels {
		params = append(params, "("+fu+" : Nat)")
	}
	if f.recv == "" && len(f.results) == 1 && !u.W && !u.H && !u.S && !u.B && len(f.fuels) == 0 && !f.usesNumCPU {
		sig := &impSig{result: f.results[0], nonNilRe: true}
		for _, fl := range fd.Type.Params.List {
			for _, n := range fl.Names {
				sig.params = append(sig.params, p.paramType(fl.Type))
				sig.pnames = append(sig.pnames, n.Name)
			}
		}
		ast.Inspect(fd.Body, func(n ast.Node) bool {
			if r, ok := n.(*ast.ReturnStmt); ok {
				if ue, ok := r.Results[0].(*ast.UnaryExpr); !ok || ue.Op != token.AND {
					sig.nonNilRe = false
				} else if _, ok := ue.X.(*ast.CompositeLit); !ok {
					sig.nonNilRe = false
				}
			}
			return true
		})
		p.translated[name] = sig
	} else if len(p.tg.pre[name]) > 0 && f.recv == "" {
		p.die(fd, "entry condition on a function that cannot be called from translated code")
	}
	if f.recv != "" && !f.evRecv && f.recvTy.k == "struct" && p.tg.methodCalls {
		if u.W || u.H || u.S || u.B || f.usesNumCPU {
			// such a method is translated but cannot be called from another translated one
		} else {
			m := &impMeth{mutates: !f.recvRO, results: f.results, nfuel: len(f.fuels)}
			for _, fl := range fd.Type.Params.List {
				for range fl.Names {
					m.params = append(m.params, p.paramType(fl.Type))
				}
			}
			p.recvMeths[name] = m
		}
	}
	if f.retSelf && f.recvTy.k == "grp" && len(f.fuels) == 0 && !u.W && !u.H && !u.S && !u.B && !f.usesNumCPU {
		sig := &impSig{result: f.recvTy}
		for _, fl := range fd.Type.Params.List {
			for range fl.Names {
				sig.params = append(sig.params, p.paramType(fl.Type))
			}
		}
		p.grpTranslated[name] = sig
	}
	if p.tg.digest && f.recv == "" {
		digestArgNames[name] = ""
		for _, fl := range fd.Type.Params.List {
			for _, n := range fl.Names {
				digestArgNames[name] += " " + lname(n.Name)
			}
		}
	}
	if p.tg.digest && f.recv != "" && !f.evRecv {
		if len(f.fuels) != 0 || u.W || u.H || u.S || u.B || f.usesNumCPU {
			p.die(fd, "digest method with fuel / hash parameters")
		}
		sig := &impSig{results: f.results}
		digestArgNames[name] = " " + lname(f.recv)
		for _, fl := range fd.Type.Params.List {
			for _, n := range fl.Names {
				digestArgNames[name] += " " + lname(n.Name)
			}
		}
		for _, fl := range fd.Type.Params.List {
			for range fl.Names {
				sig.params = append(sig.params, p.paramType(fl.Type))
			}
		}
		p.digMethods[name] = sig
	}
	var b strings.Builder
	for _, h := range f.helpers {
		b.WriteString(h + "\n")
	}
	pos := p.fset.Position(fd.Pos())
	fmt.Fprintf(&b, "/-- %s/%s line %d: `func %s` -/\ndef %s%s %s : %s :=\n%s\n\n", p.tg.dir, filepath.Base(pos.Filename), pos.Line, name, lname(name), whParams(*u), strings.Join(params, " "), f.retTy(), body)
	return b.String()
}

var famSigs = map[string]string{} // "<ns>.<fn>" -> Lean type of the translated method of a group-level target

// impOnly restricts runImp to one sub-pass (the basename of the output file; all Exp_<pkg> files form the sub-pass "Exp")
var impOnly string

func impPassOf(out string) string {
	// a family of per-package files <Fam>_<pkg>.lean + <Fam>All.lean is ONE sub-pass <Fam> (same rule in bin/check)
	b := strings.TrimSuffix(filepath.Base(out), ".lean")
	if i := strings.Index(b, "_"); i > 0 {
		return b[:i]
	}
	if strings.HasSuffix(b, "All") && len(b) > 3 {
		return b[:len(b)-3]
	}
	for _, fam := range grpFamilies {
		if strings.HasPrefix(b, fam.name+"_") || b == fam.name+"All" {
			return fam.name
		}
	}
	return b
}

// impPasses lists the sub-passes of the imperative mode in a fixed order
func impPasses() []string {
	var res []string
	seen := map[string]bool{}
	for _, tg := range impTargets {
		if p := impPassOf(tg.out); !seen[p] {
			seen[p] = true
			res = append(res, p)
		}
	}
	for _, fam := range grpFamilies {
		res = append(res, fam.name)
	}
	return append(res, "H2F", "Set", "KzgOpen", "PolyEval", "FieldLoops", "InverseTail", "Recode") // imp_fieldloops.go; imp_recode.go; imp_h2f.go; impkzg.go; imp_poly.go
}

func runImp() {
	if impOnly == "" || impOnly == "InverseTail" {
		runInverseTail() // imp_fieldloops.go
		if impOnly != "" {
			return
		}
	}
	if impOnly == "" || impOnly == "FieldLoops" {
		runFieldLoops() // imp_fieldloops.go
		if impOnly != "" {
			return
		}
	}
	if impOnly == "" || impOnly == "Recode" {
		runRecode() // imp_recode.go: Gen/Imp/Recode.lean
		if impOnly != "" {
			return
		}
	}
	if impOnly == "" || impOnly == "PolyEval" {
		runPolyEval() // imp_poly.go
		if impOnly != "" {
			return
		}
	}
	if impOnly == "" || impOnly == "KzgOpen" {
		runKzgOpen() // impkzg.go
		if impOnly != "" {
			return
		}
	}
	// Element.Exp of every field package (template-generated: the texts must be identical up to the package name, which the
	// generated `rfl` lemmas of Gen/Imp/ExpAll.lean check)
	targets := append([]impTarget{}, impTargets...)
	var expNames []string
	for _, d := range fieldDirs {
		n := leanName(d)
		expNames = append(expNames, n)
		if n == "bn254_fr" {
			continue
		}
		targets = append(targets, impTarget{dir: d, file: "element.go", ns: "Exp_" + n, out: "Imp/Exp_" + n + ".lean", funcs: []string{"Exp"}, elem: "Element"})
	}
	// Hash (hash_to_field) and SetBigInt of every field package (imp_h2f.go)
	for _, d := range fieldDirs {
		n := leanName(d)
		targets = append(targets, impTarget{dir: d, file: "element.go", ns: "H2F_" + n, out: "Imp/H2F_" + n + ".lean", funcs: []string{"SetBigInt", "Hash"}, elem: "Element", mode: "h2f"})
	}
	targets = append(targets, impTarget{dir: "ecc/bn254/fr", file: "element.go", ns: "H2F_generic", out: "Imp/H2F_generic.lean", funcs: []string{"SetBigInt", "Hash"}, elem: "Element", mode: "h2f"})
	// the lenient setters SetBigInt / SetString / SetInt64 of every field package (C08; a pass of its own: Gen/Imp/Set_<pkg>.lean)
	setFuncs := []string{"SetBigInt", "SetString", "SetInt64"}
	for _, d := range fieldDirs {
		n := leanName(d)
		targets = append(targets, impTarget{dir: d, file: "element.go", ns: "Set_" + n, out: "Imp/Set_" + n + ".lean", funcs: setFuncs, elem: "Element", mode: "h2f"})
	}
	targets = append(targets, impTarget{dir: "ecc/bn254/fr", file: "element.go", ns: "Set_generic", out: "Imp/Set_generic.lean", funcs: setFuncs, elem: "Element", mode: "h2f"})
	defer func() {
		if impOnly == "" || impOnly == "Set" {
			writeSetAll(expNames)
		}
	}()
	defer func() {
		if impOnly == "" || impOnly == "H2F" {
			writeH2FAll(expNames)
		}
	}()
	targets = append(targets, digestTargets()...)
	defer func() {
		if impOnly == "" || impOnly == "Mimc" {
			emitMimcAll()
		}
	}()
	defer func() {
		if impOnly != "" && impOnly != "Exp" {
			return
		}
		var b strings.Builder
		b.WriteString("/- GENERATED by tools/goslp (imp.go) on every run. DO NOT EDIT.\n   Element.Exp of the 23 field packages: every translation is the same Lean term as the one of ecc/bn254/fr (match lemmas by rfl). -/\n")
		for _, n := range expNames {
			b.WriteString("import GnarkVerif.Gen.Imp.Exp_" + n + "\n")
		}
		b.WriteString("\nnamespace GV.Gen.Imp.ExpAll\n\n")
		for _, n := range expNames {
			if n == "bn254_fr" {
				continue
			}
			fmt.Fprintf(&b, "theorem %s_loop_same : @Exp_%s.Exp.loop1 = @Exp_bn254_fr.Exp.loop1 := by\n  funext F mul one inv x e fuel z i\n  induction fuel generalizing z i with\n  | zero => rfl\n  | succ n ih => simp only [Exp_%s.Exp.loop1, Exp_bn254_fr.Exp.loop1, ih]\n", n, n, n)
			fmt.Fprintf(&b, "theorem %s_same : @Exp_%s.Exp = @Exp_bn254_fr.Exp := by\n  funext F mul one inv z x k\n  simp only [Exp_%s.Exp, Exp_bn254_fr.Exp, %s_loop_same]\n\n", n, n, n, n)
		}
		b.WriteString("\n/-- the translated Exp of every field package, by package name -/\ndef allExp : List (String × ({F : Type} → (F → F → F) → F → (F → F) → F → F → Int → F)) := [\n")
		for i, n := range expNames {
			sep := ","
			if i == len(expNames)-1 {
				sep = ""
			}
			fmt.Fprintf(&b, "  (%q, @Exp_%s.Exp)%s\n", n, n, sep)
		}
		b.WriteString("]\n\ntheorem allExp_same : ∀ e ∈ allExp, @e.2 = @Exp_bn254_fr.Exp := by\n  intro e he\n  simp only [allExp, List.mem_cons, List.not_mem_nil, or_false] at he\n  rcases he with " + strings.TrimSuffix(strings.Repeat("rfl | ", len(expNames)), " | ") + " <;> first | rfl | (simp only []; first | " + strings.Join(sameNames(expNames), " | ") + ")\n\nend GV.Gen.Imp.ExpAll\n")
		writeFile("Imp/ExpAll.lean", b.String())
	}()
	famInfos := map[string][]impLoopInfo{} // target ns -> loops
	for _, fam := range grpFamilies {
		fam := fam
		targets = append(targets, fam.targets()...)
		defer func() {
			if impOnly != "" && impOnly != fam.name {
				return
			}
			writeFile("Imp/"+fam.name+"All.lean", fam.allFile(famInfos))
		}()
	}
	for _, tg := range targets {
		if impOnly != "" && impPassOf(tg.out) != impOnly {
			continue
		}
		impAbsParams, impAbsArgs = "", ""
		h2fGeneric = strings.HasSuffix(tg.ns, "_generic")
		impExtraReserved = nil
		if tg.grp != "" {
			impAbsParams, impAbsArgs = grpAbsParams, grpAbsArgs
			impExtraReserved = grpReserved
			if tg.ext {
				impAbsParams, impAbsArgs = grpExtParams, grpExtArgs
				impExtraReserved = grpExtReserved
			}
		}
		if tg.elem != "" && tg.mode == "" {
			impAbsParams, impAbsArgs = " {F : Type} (mul : F → F → F) (one : F) (inv : F → F)", " mul one inv"
		}
		if tg.digest {
			impAbsParams, impAbsArgs = digestAbsParams, digestAbsArgs
		}
		out := filepath.Join(outDir, tg.out)
		dieHook = func() { os.Remove(out) } // a failed translation must not leave the previous run's file behind
		p := loadImp(tg)
		var b strings.Builder
		fmt.Fprintf(&b, "/- GENERATED by tools/goslp (imp.go) from /repo/%s/%s on every run. DO NOT EDIT.\n", tg.dir, tg.file)
		b.WriteString("   Statement-by-statement translation of imperative Go; the value vocabulary and its semantics: Model/GoImp.lean. -/\n")
		if tg.grp != "" {
			b.WriteString("import GnarkVerif.Model.GoImpGrp\n")
		} else {
			b.WriteString("import GnarkVerif.Model.GoImp\n")
		}
		if tg.digest {
			b.WriteString(digestImports(tg))
		}
		b.WriteString("\nset_option linter.unusedVariables false\n\n")
		fmt.Fprintf(&b, "namespace GV.Gen.Imp.%s\nopen GV.GoImp\n\n", tg.ns)
		if tg.elem != "" || tg.grp != "" { // a field / curve package: only the targeted functions matter
			p.errOrd, p.order = nil, nil
		}
		for _, e := range p.errOrd {
			fmt.Fprintf(&b, "/-- `var %s = errors.New(%s)` -/\n@[reducible] def %s : Err := Err.sentinel %q\n", e, strings.ReplaceAll(p.errVars[e], "-/", "- /"), e, e)
		}
		b.WriteString("\n")
		if tg.digest {
			b.WriteString(p.digestPrelude())
			p.order = nil
		}
		for _, sn := range p.structOrder() {
			fmt.Fprintf(&b, "structure %s where\n", sn)
			for _, fl := range p.structs[sn] {
				fmt.Fprintf(&b, "  %s : %s := %s\n", fl.name, p.lty(fl.ty, false), p.zero(fl.ty))
			}
			fmt.Fprintf(&b, "deriving Repr, DecidableEq\ninstance : Inhabited %s := ⟨{}⟩\n\n", sn)
		}
		if len(p.listNext) > 0 {
			b.WriteString("/-- `*p` for a non-nil pointer `p` to a list node.  A pointer to a struct `S` that has a field `next *S` is translated to the VALUE\n`List S` of the chain of nodes reachable through `next` (nil = `[]`, `p.next` = `p.tail`, `&S{next: q, …}` = `{…} :: q`, the `next` field is\nnot a field of the Lean structure); the translator checks that every dereference is nil-guarded (or covered by a checked entry\ncondition) and that fields are only written through a pointer that is fresh and unaliased. -/\n")
			b.WriteString("def nodeOf {α : Type} [Inhabited α] (p : List α) : α := p.headD default\n\n")
		}
		if len(tg.abstract) > 0 {
			// only the functions that the translated ones call directly become parameters; the others are pinned by their text
			b.WriteString("/-- source text of the package-local functions that are NOT translated (called as abstract parameters, or reached from\nthose): pinned by a theorem of the property file, so that an edit of them breaks the tie -/\ndef abstractSrc : List (String × String) := [\n")
			for i, a := range tg.abstract {
				var buf bytes.Buffer
				printer.Fprint(&buf, p.fset, p.absDecl[a].Body)
				sep := ","
				if i == len(tg.abstract)-1 {
					sep = ""
				}
				fmt.Fprintf(&b, "  (%q, %q)%s\n", a, strings.Join(strings.Fields(buf.String()), " "), sep)
			}
			b.WriteString("]\n\n")
			called := map[string]bool{}
			for _, fn := range tg.funcs {
				ast.Inspect(p.funcs[fn].Body, func(n ast.Node) bool {
					if c, ok := n.(*ast.CallExpr); ok {
						if id, ok := c.Fun.(*ast.Ident); ok && p.absDecl[id.Name] != nil {
							called[id.Name] = true
						}
					}
					return true
				})
			}
			for _, a := range tg.abstract {
				if called[a] {
					sig, _, _ := p.absSig(a)
					impAbsParams += " (" + a + " : " + sig + ")"
					impAbsArgs += " " + a
					p.absCalled = append(p.absCalled, a)
				}
			}
		}
		var bodies strings.Builder
		for _, fn := range tg.funcs {
			if tg.mode == "h2f" {
				impAbsParams, impAbsArgs = h2fParams(fn)
			}
			bodies.WriteString(p.translateFunc(fn))
		}
		if tg.mode == "h2f" {
			b.WriteString(p.h2fHeader())
		}
		if p.usesReader {
			b.WriteString("/-- `n, err := io.ReadFull(r, buf)` for a reader that is a FINITE BYTE STREAM WHICH NEVER FAILS (a bytes.Reader; a reader that returns\nother errors or blocks is outside the model): `r` is the part of the stream not yet read; result = (rest of the stream, contents of\nbuf afterwards, n, err).  An empty buffer reads nothing and succeeds; at the end of the stream io.EOF; fewer bytes left than the\nbuffer holds: they are read and the error is io.ErrUnexpectedEOF. -/\n")
			b.WriteString("def readFull (r : Bytes) (buf : Bytes) : Bytes × Bytes × Int × Err :=\n  if buf.length = 0 then (r, buf, 0, Err.nil)\n  else if r.length = 0 then (r, buf, 0, Err.sentinel \"io.EOF\")\n  else if r.length < buf.length then ([], r ++ buf.drop r.length, len r, Err.sentinel \"io.ErrUnexpectedEOF\")\n  else (r.drop buf.length, r.take buf.length, len buf, Err.nil)\n\n")
		}
		b.WriteString(bodies.String())
		fmt.Fprintf(&b, "end GV.Gen.Imp.%s\n", tg.ns)
		famInfos[tg.ns] = p.loopInfos
		for _, fn := range tg.funcs {
			if sig := p.grpTranslated[fn]; sig != nil && tg.grp != "" {
				ty := "{G : Type} → (G → G → G) → (G → G) → (G → G) → G → G → G"
				if tg.ext {
					ty = "{G : Type} → {A : Type} → (G → G → G) → (G → G) → (G → G) → G → G → (A → G) → (G → G) → (Int → Int × Int) → Int → (Int → List Nat) → (List Nat → Int) → G"
				}
				for _, t := range sig.params {
					ty += " → " + p.ltyA(t, false)
				}
				famSigs[tg.ns+"."+fn] = ty + " → G"
			}
		}
		writeFile(tg.out, b.String())
		dieHook = nil
	}
}

func sameNames(ns []string) []string {
	var o []string
	for _, n := range ns {
		if n != "bn254_fr" {
			o = append(o, "exact "+n+"_same")
		}
	}
	return o
}
