// Part 4b of gvgoslp: the TOP-LEVEL transform functions of the fft packages, (*Domain).FFT / (*Domain).FFTInverse (and
// bitReverseNaive), specialised per (size, decimation, coset option, withPrecompute) with nbTasks = 1
// -> Gen/FFT/<Pkg>Top.lean (C10, Props/C10_top*).
//
// Built on slpfft.go / slpx.go. Additional Go subset and its semantics (trusted, like the rest of the translator):
//   - the receiver `domain *Domain` carries no run-time cell of its own: `domain.Cardinality` = the specialised size (= len(a):
//     the functions never compare the two, the theorems are about domains of the size of the vector), `domain.withPrecompute` = the
//     specialised flag, the element fields (`Generator`, `GeneratorInv`, `FrMultiplicativeGen`, `FrMultiplicativeGenInv`,
//     `CardinalityInv`) and the tables (`cosetTable`, `cosetTableInv`: arrays of Cardinality elements, `twiddles`, `twiddlesInv`: the
//     rows buildTwiddles allocates) are read-only INPUT PARAMETERS of the def (nothing is assumed about their values; the theorems
//     state the defining equations as hypotheses). Without precompute the four tables are nil: a nil `[]Element` may only be
//     bound to a local and overwritten (`cosetTable = make(..)`), a nil `[][]Element` is the table with no rows (Tw1). The field
//     list of `Domain` in domain.go is compared with the expected list on every run.
//   - `opts ...Option` is a translation-time record: `opt := fftOptions(opts)` binds `opt.coset` (specialised) and
//     `opt.nbTasks = 1` (the TEXT of fftOptions / fftConfig / OnCoset / WithNbTasks in options.go is compared with the expected text:
//     the record has exactly these two fields and WithNbTasks(1) yields nbTasks = 1).
//   - `parallel.Execute(n, func(start, end int) { body }, 1)` is ONE execution of body with start = 0, end = n (the text of the
//     beginning of Execute in internal/parallel/execute.go, up to and including the `nbTasks == 1` branch, is compared with the
//     expected text: with one task it calls work(0, nbIterations) directly and returns). The closure must not contain `return`.
//     Any other task count is a rejection.
//   - `bits.TrailingZeros64`, `bits.Reverse64(..) >> k`, `bits.OnesCount64`, `ecc.NextPowerOfTwo` (text compared), `uint64(..)` /
//     `int(..)` / `int64(..)` of values known at translation time are evaluated by the translator; `DIT` / `DIF` = 0 / 1 (iota).
//   - `x = make([]Element, n)` rebinds a local slice name to a fresh zero array; `t = make([][]Element, k)` to a table of k rows.
//   - primitives of the fft package whose TEXT (domain.go) is compared with the expected text on every run:
//     BuildExpTable(w, table)      table := [1, w^1, w^1·w, (w^1·w)·w, …]   (len(table) ≤ 352: the sequential branch
//     precomputeExpTableChunk(w, 1, table[1:]) is taken whatever runtime.NumCPU() is, since
//     interval ≤ len(table)-1 < ratioExpMul = 352)
//     buildTwiddles(t, w, k)       t[0] := BuildExpTable(w, 1 + 2^(k-1) entries), t[i][j] := t[0][j·2^i] for j ≤ 2^(k-1-i)
//     and of the base package: Vector.ScalarMul(a, b) = element-wise a[i]·b   [scalarMulVecGeneric]
package main

import (
	"fmt"
	"go/ast"
	"go/parser"
	"go/token"
	"math/bits"
	"os"
	"path/filepath"
	"strings"
)

// ---------------------------------------------------------------- constants

// `const ( DIT Decimation = iota; DIF )`
func (p *pkgCtx) scanIota(d *ast.GenDecl) {
	if len(d.Specs) == 0 {
		return
	}
	first := d.Specs[0].(*ast.ValueSpec)
	if len(first.Values) != 1 || len(first.Names) != 1 {
		return
	}
	if id, ok := first.Values[0].(*ast.Ident); !ok || id.Name != "iota" {
		return
	}
	for i, sp := range d.Specs {
		vs := sp.(*ast.ValueSpec)
		if len(vs.Names) != 1 || (i > 0 && (len(vs.Values) != 0 || vs.Type != nil)) {
			return
		}
	}
	for i, sp := range d.Specs {
		p.iconsts[sp.(*ast.ValueSpec).Names[0].Name] = int64(i)
	}
}

// ---------------------------------------------------------------- values known at translation time

func (x *tr) isPkgIdent(s *state, e ast.Expr, path string) bool {
	id, ok := e.(*ast.Ident)
	if !ok || s.cells[id.Name] != nil {
		return false
	}
	if _, shadow := s.sints[id.Name]; shadow {
		return false
	}
	for _, im := range x.file.Imports {
		if strings.Trim(im.Path.Value, "\"") == path {
			name := filepath.Base(path)
			if im.Name != nil {
				name = im.Name.Name
			}
			return name == id.Name
		}
	}
	return false
}

const gcPath = "github.com/consensys/gnark-crypto/"

func (x *tr) topEvalInt(s *state, e ast.Expr) (int64, bool) {
	switch e := e.(type) {
	case *ast.SelectorExpr:
		if n, ok := s.sints[exprStr(e)]; ok {
			return n, true
		}
	case *ast.BinaryExpr:
		// bits.Reverse64(u) >> k: the only place where a value above 2^62 occurs
		if c, ok := e.X.(*ast.CallExpr); ok && e.Op == token.SHR && len(c.Args) == 1 {
			if se, ok := c.Fun.(*ast.SelectorExpr); ok && se.Sel.Name == "Reverse64" && x.isPkgIdent(s, se.X, "math/bits") {
				u, ok1 := x.evalInt(s, c.Args[0])
				k, ok2 := x.evalInt(s, e.Y)
				if ok1 && ok2 && u >= 0 && k >= 2 && k < 64 {
					return int64(bits.Reverse64(uint64(u)) >> uint(k)), true
				}
			}
		}
	case *ast.CallExpr:
		if len(e.Args) != 1 {
			return 0, false
		}
		switch f := e.Fun.(type) {
		case *ast.Ident:
			if (f.Name == "uint64" || f.Name == "int" || f.Name == "int64") && s.cells[f.Name] == nil {
				// value-preserving for 0 ≤ n < 2^62 (negative values are only converted between int and int64)
				if n, ok := x.evalInt(s, e.Args[0]); ok && n < 1<<62 && (n >= 0 || f.Name != "uint64") {
					return n, true
				}
			}
		case *ast.SelectorExpr:
			switch {
			case x.isPkgIdent(s, f.X, "math/bits") && f.Sel.Name == "TrailingZeros64":
				if n, ok := x.evalInt(s, e.Args[0]); ok && n >= 0 {
					return int64(bits.TrailingZeros64(uint64(n))), true
				}
			case x.isPkgIdent(s, f.X, "math/bits") && f.Sel.Name == "OnesCount64":
				if n, ok := x.evalInt(s, e.Args[0]); ok && n >= 0 {
					return int64(bits.OnesCount64(uint64(n))), true
				}
			case x.isPkgIdent(s, f.X, gcPath+"ecc") && f.Sel.Name == "NextPowerOfTwo":
				// text compared by checkTopText
				if n, ok := x.evalInt(s, e.Args[0]); ok && n >= 0 && n < 1<<61 {
					r := int64(1)
					for r < n {
						r <<= 1
					}
					return r, true
				}
			}
		}
	}
	return 0, false
}

// ---------------------------------------------------------------- the Domain receiver

var domainElemFields = []string{"CardinalityInv", "Generator", "GeneratorInv", "FrMultiplicativeGen", "FrMultiplicativeGenInv"}

func (x *tr) topField(s *state, recv, fld string) loc {
	sp := x.v.spec
	if sp == nil || sp.top == "" {
		reject("field %s of the Domain receiver outside a top-level target", fld)
	}
	var t *typ
	switch fld {
	case "cosetTable", "cosetTableInv":
		if !sp.pre {
			reject("%s.%s is nil (domain without precomputed tables)", recv, fld)
		}
		t = x.p.arrType(int(sp.card), baseT)
	case "twiddles", "twiddlesInv":
		if sp.pre {
			t = x.p.twType(int(sp.card))
		} else {
			t = x.p.twType(1) // nil: no rows
		}
	default:
		for _, f := range domainElemFields {
			if f == fld {
				t = baseT
			}
		}
	}
	if t == nil {
		reject("unsupported use of %s.%s", recv, fld)
	}
	key := "spec:" + fld
	if _, ok := s.cells[key]; !ok {
		s.cells[key] = &val{t: t, term: fld}
		x.gp[key] = true
		x.v.sparams[fld] = t
	}
	return loc{root: key}
}

func (x *tr) isSpecField(e ast.Expr, names ...string) bool {
	se, ok := e.(*ast.SelectorExpr)
	if !ok {
		return false
	}
	id, ok := se.X.(*ast.Ident)
	if !ok || id.Name == "" || id.Name != x.specRecvName() {
		return false
	}
	for _, n := range names {
		if n == se.Sel.Name {
			return true
		}
	}
	return false
}

func isMakeOf(e ast.Expr, depth int) (*ast.CallExpr, bool) {
	c, ok := e.(*ast.CallExpr)
	if !ok || len(c.Args) != 2 {
		return nil, false
	}
	if id, ok := c.Fun.(*ast.Ident); !ok || id.Name != "make" {
		return nil, false
	}
	t := c.Args[0]
	for i := 0; i < depth; i++ {
		at, ok := t.(*ast.ArrayType)
		if !ok || at.Len != nil {
			return nil, false
		}
		t = at.Elt
	}
	if _, more := t.(*ast.ArrayType); more {
		return nil, false
	}
	return c, true
}

func (x *tr) topAssign(s *state, st *ast.AssignStmt) bool {
	id, ok := st.Lhs[0].(*ast.Ident)
	if !ok {
		return false
	}
	top := x.v.spec != nil && x.v.spec.top != ""
	switch st.Tok {
	case token.DEFINE:
		if !top {
			return false
		}
		// opt := fftOptions(opts)
		if c, ok := st.Rhs[0].(*ast.CallExpr); ok && len(c.Args) == 1 {
			if f, ok := c.Fun.(*ast.Ident); ok && f.Name == "fftOptions" && s.cells[f.Name] == nil {
				a, ok := c.Args[0].(*ast.Ident)
				isOpts := false
				for _, q := range x.v.f.pos {
					isOpts = isOpts || (ok && q.isOpts && q.name == a.Name)
				}
				if !isOpts {
					reject("fftOptions of something that is not the option list")
				}
				s.sbools[id.Name+".coset"] = x.v.spec.coset
				s.sints[id.Name+".nbTasks"] = 1
				return true
			}
		}
		// cosetTable := domain.cosetTable on a domain without tables: a nil slice
		if x.isSpecField(st.Rhs[0], "cosetTable", "cosetTableInv") && !x.v.spec.pre {
			if _, dup := s.cells[id.Name]; dup {
				reject("redeclaration of %s", id.Name)
			}
			s.sbools["nil:"+id.Name] = true
			return true
		}
	case token.ASSIGN:
		// x = make([]Element, n) for a local slice name
		if c, ok := isMakeOf(st.Rhs[0], 1); ok {
			_, isCell := s.cells[id.Name]
			isNil := s.sbools["nil:"+id.Name]
			if !isCell && !isNil {
				return false
			}
			_, v, _ := x.call(s, c)
			if v == nil || !v.t.arr || !v.t.ftypes[0].base {
				reject("unsupported make")
			}
			if isCell && (!s.cells[id.Name].t.arr || x.paramRoot[id.Name] || strings.Contains(id.Name, ":")) {
				reject("rebinding of %s", id.Name)
			}
			delete(s.sbools, "nil:"+id.Name)
			s.cells[id.Name] = v
			return true
		}
		// t = make([][]Element, k) for a local table name
		if c, ok := isMakeOf(st.Rhs[0], 2); ok {
			cur, isCell := s.cells[id.Name]
			if !isCell || !cur.t.jag || x.paramRoot[id.Name] {
				return false
			}
			k, ok := x.evalInt(s, c.Args[1])
			if !ok || k < 1 || k > 8 {
				reject("make of a table with an unknown number of rows")
			}
			s.cells[id.Name] = zeroVal(x.p.twType(1 << uint(k)))
			return true
		}
	}
	return false
}

// ---------------------------------------------------------------- statements: parallel.Execute with one task

type scopeEnd struct {
	ast.EmptyStmt
	keep map[string]bool
}

func (x *tr) topStmt(s *state, st ast.Stmt, rest []ast.Stmt) int {
	if se, ok := st.(*scopeEnd); ok {
		pruneScope(s, se.keep)
		for k := range s.sbools {
			if strings.HasPrefix(k, "nil:") && !se.keep[k] {
				delete(s.sbools, k)
			}
		}
		return 1
	}
	es, ok := st.(*ast.ExprStmt)
	if !ok {
		return 0
	}
	c, ok := es.X.(*ast.CallExpr)
	if !ok {
		return 0
	}
	f, ok := c.Fun.(*ast.SelectorExpr)
	if !ok || f.Sel.Name != "Execute" || !x.isPkgIdent(s, f.X, gcPath+"internal/parallel") {
		return 0
	}
	if len(c.Args) != 3 || c.Ellipsis.IsValid() {
		reject("parallel.Execute without an explicit task count (runtime.NumCPU() tasks)")
	}
	nb, ok := x.evalInt(s, c.Args[2])
	if !ok || nb != 1 {
		reject("parallel.Execute with a task count other than 1")
	}
	n, ok := x.evalInt(s, c.Args[0])
	if !ok || n < 0 {
		reject("parallel.Execute over a range that is not known at translation time")
	}
	fl, ok := c.Args[1].(*ast.FuncLit)
	if !ok || fl.Type.Results != nil || len(fl.Type.Params.List) != 1 || len(fl.Type.Params.List[0].Names) != 2 || exprStr(fl.Type.Params.List[0].Type) != "int" {
		reject("the work function of parallel.Execute is not a literal func(start, end int)")
	}
	ast.Inspect(fl.Body, func(nd ast.Node) bool {
		switch nd.(type) {
		case *ast.ReturnStmt:
			reject("return inside the work function of parallel.Execute")
		case *ast.FuncLit, *ast.GoStmt, *ast.DeferStmt:
			reject("closure / go / defer inside the work function of parallel.Execute")
		}
		return true
	})
	keep := scopeNames(s)
	for k := range s.sbools {
		keep[k] = true
	}
	names := fl.Type.Params.List[0].Names
	for _, nm := range names {
		if keep[nm.Name] {
			reject("parameter %s of the work function shadows a variable", nm.Name)
		}
	}
	// work(0, nbIterations)
	s.sints[names[0].Name] = 0
	s.sints[names[1].Name] = n
	next := append([]ast.Stmt(nil), fl.Body.List...)
	next = append(next, &scopeEnd{keep: keep})
	x.block(s, append(next, rest...))
	return 2
}

// ---------------------------------------------------------------- primitives of the fft package

// entries [1, w^1, w^1·w, …] as BuildExpTable / precomputeExpTableChunk compute them
func (x *tr) expTable(w string, n int, base string) []*val {
	var out []*val
	x.need("One")
	out = append(out, &val{t: baseT, term: "(1 : F)"})
	for i := 1; i < n; i++ {
		nm := x.fresh(base)
		if i == 1 {
			x.need("HPow")
			x.emit(nm, fmt.Sprintf("%s ^ (1 : Nat)", w))
		} else {
			x.need("Mul")
			x.emit(nm, out[i-1].term+" * "+w)
		}
		out = append(out, &val{t: baseT, term: nm})
	}
	return out
}

func (x *tr) topCall(s *state, c *ast.CallExpr) bool {
	switch f := c.Fun.(type) {
	case *ast.Ident:
		if s.cells[f.Name] != nil {
			return false
		}
		switch {
		case f.Name == "BuildExpTable" && len(c.Args) == 2 && !x.v.f.inBase:
			w := x.evalVal(s, c.Args[0])
			if !w.t.base {
				reject("BuildExpTable of something that is not an element")
			}
			v := x.evalView(s, c.Args[1])
			if !v.whole(x, s) || v.n < 1 || v.n > 352 {
				reject("BuildExpTable into a sub-slice or a table of more than 352 entries (parallel variant)")
			}
			if strings.HasPrefix(v.l.root, "spec:") {
				reject("BuildExpTable into a table of the domain")
			}
			wt := x.read(w)
			res := &val{t: x.typeAt(s, v.l), kids: x.expTable(wt, v.n, x.locName(s, v.l))}
			x.write(s, v.l, res)
			return true
		case f.Name == "buildTwiddles" && len(c.Args) == 3 && !x.v.f.inBase:
			id, ok := c.Args[0].(*ast.Ident)
			if !ok {
				reject("buildTwiddles into something that is not a local table")
			}
			cur, isCell := s.cells[id.Name]
			if !isCell || !cur.t.jag || x.paramRoot[id.Name] || cur.kids == nil {
				reject("buildTwiddles into something that is not a table made in this function")
			}
			w := x.evalVal(s, c.Args[1])
			k, okk := x.evalInt(s, c.Args[2])
			if !w.t.base || !okk || k < 1 {
				reject("unsupported buildTwiddles call")
			}
			if len(cur.t.fields) != int(k) {
				reject("buildTwiddles: len(t) != nbStages (panics)")
			}
			row0 := x.expTable(x.read(w), 1+(1<<uint(k-1)), "tw")
			res := &val{t: cur.t}
			for i := 0; i < int(k); i++ {
				rt := cur.t.ftypes[i]
				if len(rt.fields) != 1+(1<<uint(int(k)-i-1)) {
					reject("buildTwiddles: unexpected row length")
				}
				row := &val{t: rt}
				for j := range rt.fields {
					row.kids = append(row.kids, row0[j<<uint(i)])
				}
				res.kids = append(res.kids, row)
			}
			s.cells[id.Name] = res
			return true
		}
	case *ast.SelectorExpr:
		id, ok := f.X.(*ast.Ident)
		if !ok {
			return false
		}
		if dst, ok := s.views[id.Name]; ok && f.Sel.Name == "ScalarMul" && len(c.Args) == 2 {
			a := x.evalView(s, c.Args[0])
			if a.n != dst.n {
				reject("Vector.ScalarMul on slices of different lengths (panics)")
			}
			if !(a.l.eq(dst.l) && a.off == dst.off) && a.overlaps(dst) {
				reject("Vector.ScalarMul: the result overlaps the operand at a different offset")
			}
			lb := x.evalPtr(s, c.Args[1])
			if !x.typeAt(s, lb).base {
				reject("Vector.ScalarMul by something that is not an element")
			}
			if lb.overlaps(dst.l) {
				reject("Vector.ScalarMul by an element of the result")
			}
			x.need("Mul")
			tb := x.read(get(s.cells[lb.root], lb.path))
			for i := 0; i < dst.n; i++ {
				la := x.elemLoc(a, i)
				x.def(s, x.elemLoc(dst, i), x.read(get(s.cells[la.root], la.path))+" * "+tb)
			}
			return true
		}
	}
	return false
}

// ---------------------------------------------------------------- text of everything treated as a primitive

func funcTexts(path string, must bool) map[string][2]string {
	out := map[string][2]string{}
	fset := token.NewFileSet()
	f, err := parser.ParseFile(fset, path, nil, 0)
	if err != nil {
		if must {
			die("parse %s: %v", path, err)
		}
		return out
	}
	for _, d := range f.Decls {
		switch d := d.(type) {
		case *ast.FuncDecl:
			if d.Body == nil {
				continue
			}
			key := d.Name.Name
			if d.Recv != nil {
				key = strings.TrimPrefix(exprStr(d.Recv.List[0].Type), "*") + "." + key
			}
			out[key] = [2]string{normSrc(fset, d.Type), normSrc(fset, d.Body)}
		case *ast.GenDecl:
			if d.Tok == token.TYPE {
				for _, sp := range d.Specs {
					ts := sp.(*ast.TypeSpec)
					out["type "+ts.Name.Name] = [2]string{"", normSrc(fset, ts.Type)}
				}
			}
		}
	}
	return out
}

func checkTopText(cfg towerPkg) {
	q := filepath.Base(cfg.baseDir) // import name of the base package: fr / koalabear / …
	E := q + ".Element"
	sub := func(s string) string { return strings.ReplaceAll(s, "ELEM", E) }
	type want struct{ sig, body string }
	check := func(path string, got map[string][2]string, w map[string]want) {
		for k, e := range w {
			g, ok := got[k]
			if !ok {
				die("%s: %s not found", path, k)
			}
			if e.sig != "" && g[0] != sub(e.sig) {
				die("%s: the signature of %s changed: %s", path, k, g[0])
			}
			if g[1] != sub(e.body) {
				die("%s: the text of %s changed; the semantics assumed by slpffttop.go was read from\n  %s\nfound\n  %s", path, k, sub(e.body), g[1])
			}
		}
	}
	// domain.go
	path := filepath.Join(repo, cfg.dir, "domain.go")
	check(path, funcTexts(path, true), map[string]want{
		"type Domain":             {"", "struct { Cardinality uint64 CardinalityInv ELEM Generator ELEM GeneratorInv ELEM FrMultiplicativeGen ELEM FrMultiplicativeGenInv ELEM withPrecompute bool twiddles [][]ELEM twiddlesInv [][]ELEM cosetTable []ELEM cosetTableInv []ELEM }"},
		"BuildExpTable":           {"func(w ELEM, table []ELEM)", "{ table[0].SetOne() n := len(table) interval := 0 if runtime.NumCPU() >= 4 { interval = (n - 1) / (runtime.NumCPU() / 4) } const ratioExpMul = 6000 / 17 if interval < ratioExpMul { precomputeExpTableChunk(w, 1, table[1:]) return } var wg sync.WaitGroup for i := 1; i < n; i += interval { start := i end := i + interval if end > n { end = n } wg.Add(1) go func() { precomputeExpTableChunk(w, uint64(start), table[start:end]) wg.Done() }() } wg.Wait() }"},
		"precomputeExpTableChunk": {"func(w ELEM, power uint64, table []ELEM)", "{ if len(table) > 0 { table[0].Exp(w, new(big.Int).SetUint64(power)) for i := 1; i < len(table); i++ { table[i].Mul(&table[i-1], &w) } } }"},
		"buildTwiddles":           {"func(t [][]ELEM, omega ELEM, nbStages uint64)", "{ if nbStages == 0 { return } if len(t) != int(nbStages) { panic(\"invalid twiddle table\") } t[0] = make([]ELEM, 1+(1<<(nbStages-1))) BuildExpTable(omega, t[0]) for i := uint64(1); i < nbStages; i++ { t[i] = make([]ELEM, 1+(1<<(nbStages-i-1))) k := 0 for j := 0; j < len(t[i]); j++ { t[i][j] = t[0][k] k += 1 << i } } }"},
	})
	// bitreverse.go: BitReverse reaches bitReverseNaive directly or through bitReverseCobra
	path = filepath.Join(repo, cfg.dir, "bitreverse.go")
	br := funcTexts(path, true)
	const brSig = "func(v []ELEM)"
	brA := "{ n := uint64(len(v)) if bits.OnesCount64(n) != 1 { panic(\"len(a) must be a power of 2\") } if runtime.GOARCH == \"arm64\" { bitReverseNaive(v) } else { bitReverseCobra(v) } }"
	brB := "{ n := uint64(len(v)) if bits.OnesCount64(n) != 1 { panic(\"len(a) must be a power of 2\") } bitReverseNaive(v) }"
	if g, ok := br["BitReverse"]; !ok || g[0] != sub(brSig) || (g[1] != brA && g[1] != brB) || (g[1] == brA) != (br["bitReverseCobra"][1] != "") {
		die("%s: the text of BitReverse changed; slpffttop.go assumes that it calls bitReverseNaive or bitReverseCobra on a power-of-two length:\n  %s\nfound\n  %s", path, brA, g[1])
	}
	// options.go
	path = filepath.Join(repo, cfg.dir, "options.go")
	check(path, funcTexts(path, true), map[string]want{
		"type Option":    {"", "func(fftConfig) fftConfig"},
		"type fftConfig": {"", "struct { coset bool nbTasks int }"},
		"OnCoset":        {"func() Option", "{ return func(opt fftConfig) fftConfig { opt.coset = true return opt } }"},
		"WithNbTasks":    {"func(nbTasks int) Option", "{ if nbTasks < 1 { nbTasks = 1 } else if nbTasks > 512 { nbTasks = 512 } return func(opt fftConfig) fftConfig { opt.nbTasks = nbTasks return opt } }"},
		"fftOptions":     {"func(opts []Option) fftConfig", "{ opt := fftConfig{ coset: false, nbTasks: runtime.NumCPU(), } for _, option := range opts { opt = option(opt) } return opt }"},
	})
	// ecc.NextPowerOfTwo
	path = filepath.Join(repo, "ecc", "utils.go")
	check(path, funcTexts(path, true), map[string]want{
		"NextPowerOfTwo": {"func(n uint64) uint64", "{ c := bits.OnesCount64(n) if c == 0 { return 1 } if c == 1 { return n } t := bits.LeadingZeros64(n) if t == 0 { panic(\"next power of 2 overflows uint64\") } return uint64(1) << (64 - t) }"},
	})
	// parallel.Execute: everything up to and including the single-task branch
	path = filepath.Join(repo, "internal", "parallel", "execute.go")
	ex, ok := funcTexts(path, true)["Execute"]
	const exSig = "func(nbIterations int, work func(int, int), maxCpus ...int)"
	const exHead = "{ nbTasks := runtime.NumCPU() if len(maxCpus) == 1 { nbTasks = maxCpus[0] if nbTasks < 1 { nbTasks = 1 } else if nbTasks > 512 { nbTasks = 512 } } if nbTasks == 1 { work(0, nbIterations) return } "
	if !ok || ex[0] != exSig || !strings.HasPrefix(ex[1], exHead) {
		die("%s: the single-task branch of parallel.Execute changed; slpffttop.go assumes that Execute(n, work, 1) is work(0, n):\n  %s%s\nfound\n  %s%s", path, exSig, exHead, ex[0], ex[1])
	}
	// Vector.ScalarMul (purego)
	found := map[string]bool{}
	for _, fn := range []string{"vector.go", "vector_purego.go"} {
		path = filepath.Join(repo, cfg.baseDir, fn)
		got := funcTexts(path, true)
		w := map[string]want{}
		if _, ok := got["scalarMulVecGeneric"]; ok {
			w["scalarMulVecGeneric"] = want{"func(res, a Vector, b *Element)", "{ if len(a) != len(res) { panic(\"vector.ScalarMul: vectors don't have the same length\") } for i := 0; i < len(a); i++ { res[i].Mul(&a[i], b) } }"}
		}
		if _, ok := got["Vector.ScalarMul"]; ok {
			w["Vector.ScalarMul"] = want{"func(a Vector, b *Element)", "{ scalarMulVecGeneric(*vector, a, b) }"}
		}
		check(path, got, w)
		for k := range w {
			found[k] = true
		}
	}
	if !found["scalarMulVecGeneric"] || !found["Vector.ScalarMul"] {
		die("%s: Vector.ScalarMul / scalarMulVecGeneric not found (purego)", cfg.baseDir)
	}
}

// ---------------------------------------------------------------- targets and output

var topSizes = []int{2, 4, 8, 16, 32}

func boolWord(b bool, yes, no string) string {
	if b {
		return yes
	}
	return no
}

// runTop translates the top-level targets of one loaded fft package; everything translated from here on goes to <Pkg>Top.lean
func (p *pkgCtx) runTop(label string, ps *extSummary, want map[string]bool, all, failures *[]string) {
	p.topFrom = len(p.order)
	if p.topFrom == 0 {
		die("%s: no base target translated", label)
	}
	nArr, nStruct := len(p.arrays), len(p.structs)
	for _, fname := range []string{"FFT", "FFTInverse"} {
		f := p.funcs["Domain."+fname]
		if f == nil {
			ps.Untranslated["Domain."+fname] = "not found"
			continue
		}
		for _, n := range topSizes {
			for _, dec := range []int64{1, 0} {
				for _, coset := range []bool{false, true} {
					for _, pre := range []bool{true, false} {
						sp := newSpec()
						sp.top = fmt.Sprintf("_n%d_%s_%s_%s", n, boolWord(dec == 1, "DIF", "DIT"), boolWord(coset, "coset", "plain"), boolWord(pre, "pre", "nopre"))
						sp.coset, sp.pre, sp.card = coset, pre, int64(n)
						for i, q := range f.pos {
							switch {
							case q.slice:
								sp.arrs[i] = p.arrType(n, q.t)
							case q.isInt:
								sp.ints[i] = dec
							}
						}
						v := p.translateSpec(f, identityPat(f), sp)
						if v.err != "" {
							ps.Untranslated[v.name] = v.err
							if want[label+" "+v.name] {
								*failures = append(*failures, fmt.Sprintf("%s %s: %s", label, v.name, v.err))
							}
							continue
						}
						ps.Translated = append(ps.Translated, v.name)
						*all = append(*all, label+" "+v.name)
					}
				}
			}
		}
	}
	// BitReverse on 2..32 elements: bitReverseNaive (reached on every architecture below 2^21 elements) and, where it exists,
	// the dispatcher bitReverseCobra (its `switch len(v)` is decided at translation time: default branch, bitReverseNaive)
	for _, key := range []string{"bitReverseNaive", "bitReverseCobra"} {
		f := p.funcs[key]
		if f == nil {
			if key == "bitReverseNaive" {
				ps.Untranslated[key] = "not found"
			}
			continue
		}
		for _, n := range topSizes {
			sp := newSpec()
			for i, q := range f.pos {
				if q.slice {
					sp.arrs[i] = p.arrType(n, q.t)
				}
			}
			v := p.translateSpec(f, identityPat(f), sp)
			if v.err != "" {
				ps.Untranslated[v.name] = v.err
				if want[label+" "+v.name] {
					*failures = append(*failures, fmt.Sprintf("%s %s: %s", label, v.name, v.err))
				}
				continue
			}
			ps.Translated = append(ps.Translated, v.name)
			*all = append(*all, label+" "+v.name)
		}
	}
	if len(p.arrays) != nArr || len(p.structs) != nStruct {
		die("%s: the top-level targets need a structure that the base targets do not declare", label)
	}
}

func (p *pkgCtx) emitTop(vs []*variant) {
	var b strings.Builder
	fmt.Fprintf(&b, "import GnarkVerif.Gen.%s.%s\n/- GENERATED by tools/goslp (slpffttop.go) from /repo/%s on every run. DO NOT EDIT.\n   (*Domain).FFT / (*Domain).FFTInverse specialised per size, decimation, coset option and withPrecompute, nbTasks = 1:\n   parallel.Execute with one task = one call of the closure on (0, n); the fields and tables of the domain are parameters. -/\nset_option linter.unusedVariables false\nnamespace %s\nset_option maxRecDepth 16384\n\n", p.cfg.sub(), modName(p.cfg.name), p.cfg.dir, p.cfg.ns())
	for _, v := range vs {
		fmt.Fprintf(&b, "def %s %s%s : %s :=\n", v.name, v.instBinders(), v.binders(p), v.resultType())
		writeCode(&b, v.body, "  ")
		b.WriteString("\n")
	}
	fmt.Fprintf(&b, "end %s\n", p.cfg.ns())
	writeFile(p.cfg.sub()+"/"+modName(p.cfg.name)+"Top.lean", b.String())
}

var _ = os.Stat
