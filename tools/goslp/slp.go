// Part 2 of gvgoslp: straight-line programs over field-like receivers (tower formulas) -> Lean defs.
//
// Semantics implemented here (this file is part of the trusted base, keep it small):
//   - the state is a finite set of root cells: one per alias block of pointer positions (receiver +
//     pointer parameters), one per by-value parameter, one per local `var`/`:=`; a cell holds a tree of
//     base-field values shaped like its Go type (struct fields / fixed arrays).
//   - a primitive base-field call `dst.Op(&a,&b)` is ONE atomic update `dst := op a b` (all reads first);
//   - a call of another translated function is a call of its Lean def for the alias pattern observed at the
//     call site (equal locations of same-typed pointer arguments); the cells the callee may write are
//     replaced by the callee's results; partial overlap of two pointer arguments is rejected;
//   - `if c {..} else {..}` duplicates the continuation; early `return` ends a path;
//   - for every set partition of the same-typed pointer positions the aliased cells are merged BEFORE
//     the symbolic execution and one Lean def is emitted (f, f_z_eq_x, f_x_eq_y, f_all, ...). A def takes
//     the initial value of every root whose initial value is read and returns the final value of ALL
//     pointer-reachable roots (plus the Go return value when that is a field-like value or a bool).
//
// Curve packages (curvePkgs, output Gen/Curve/<Pkg>{,Alias}.lean): the point formulas of g1.go / g2.go / point.go.
//   - a curve package may reuse ONE tower package (`parent`): `fptower.E2` / `fptower.E4` denote the parent's structures,
//     method calls on them are calls of the parent's Lean defs (fully qualified), so G2 formulas are over the translated
//     E2 / E4; the curve packages over a tower are translated before the tower's files are emitted;
//   - package-level variables without a literal initialiser (bCurveCoeff, bTwistCurveCoeff, thirdRootOneG1, g1Infinity,
//     the fields of the struct variables `curveParams`, `endo`) are PARAMETERS of the defs that read them: nothing is
//     assumed about their value; `initOnce.Do(init…)` on a package-level sync.Once is skipped for the same reason;
//   - `new(T)` is a pointer to a fresh zero cell; `fp.Element{}` is 0.
package main

import (
	_ "embed"
	"encoding/json"
	"flag"
	"fmt"
	"go/ast"
	"go/build/constraint"
	"go/parser"
	"go/token"
	"math/big"
	"os"
	"path/filepath"
	"sort"
	"strconv"
	"strings"
)

// ---------------------------------------------------------------- configuration

type towerPkg struct {
	name      string   // Lean namespace component
	dir       string   // tower package (relative to repo)
	baseDir   string   // base field package
	baseFiles []string // files of the base package that contain translatable helpers
	// curve packages (point formulas, Gen/Curve): coordinates in the base field or in a structure of the tower package
	curve    bool
	tower    string   // name of the tower package whose translated structures / methods are reused ("" = none)
	towerDir string   // its directory (import path suffix)
	files    []string // only these files of dir (nil = all)
	// extended mode (slpx.go): hash-to-curve maps ("h2c", Gen/H2C) and algebraic-hash pieces ("hash", Gen/Hash)
	ext      string
	extraDir string   // second package translated together with dir (ecc/<curve>/hash_to_curve)
	fnFiles  []string // only functions of these files (paths relative to dir / "<base of extraDir>/file") are translated
	specRecv string   // receiver type whose fields are fixed by the specialisation (Permutation)
	widths   []int    // hash: the widths to specialise for
	specElem []string // fields of the specialisation receiver that hold one base-field element (digest.h): parameters
	// pairing packages (step functions / final exponentiation of pairing.go, Gen/Pairing): same Go package as the curve
	// package `name` (its parent), which in turn may reuse the tower package `tower`
	pairing bool
}

func (c towerPkg) sub() string {
	switch {
	case c.ext == "h2c":
		return "H2C"
	case c.ext == "hash":
		return "Hash"
	case c.ext == "fft":
		return "FFT"
	case c.pairing:
		return "Pairing"
	case c.curve:
		return "Curve"
	}
	return "Tower"
}
func (c towerPkg) ns() string { return "GV.Gen." + c.sub() + "." + c.name }

func swCurve(name, dir, tower string, g2 bool) towerPkg {
	c := towerPkg{name: name, dir: "ecc/" + dir, baseDir: "ecc/" + dir + "/fp", curve: true, tower: tower,
		files: []string{"g1.go", strings.ReplaceAll(dir, "-", "_") + ".go", dir + ".go"}}
	if g2 {
		c.files = append(c.files, "g2.go")
	}
	if tower != "" {
		c.towerDir = "ecc/" + dir + "/internal/fptower"
	}
	return c
}

func teCurve(name, dir string) towerPkg {
	return towerPkg{name: name, dir: "ecc/" + dir, baseDir: "ecc/" + filepath.Dir(dir) + "/fr", curve: true, files: []string{"point.go", "curve.go"}}
}

// point formulas: short Weierstrass G1/G2 (affine, Jacobian, extended Jacobian) and twisted Edwards
var curvePkgs = []towerPkg{
	swCurve("bn254", "bn254", "bn254", true),
	swCurve("bls12_381", "bls12-381", "bls12_381", true),
	swCurve("bls12_377", "bls12-377", "bls12_377", true),
	swCurve("bls24_315", "bls24-315", "bls24_315", true),
	swCurve("bls24_317", "bls24-317", "bls24_317", true),
	swCurve("bw6_761", "bw6-761", "", true),
	swCurve("bw6_633", "bw6-633", "", true),
	swCurve("grumpkin", "grumpkin", "", false),
	swCurve("secp256k1", "secp256k1", "", false),
	swCurve("stark_curve", "stark-curve", "", false),
	teCurve("te_bn254", "bn254/twistededwards"),
	teCurve("te_bls12_381", "bls12-381/twistededwards"),
	teCurve("te_bandersnatch", "bls12-381/bandersnatch"),
	teCurve("te_bls12_377", "bls12-377/twistededwards"),
	teCurve("te_bls24_315", "bls24-315/twistededwards"),
	teCurve("te_bls24_317", "bls24-317/twistededwards"),
	teCurve("te_bw6_761", "bw6-761/twistededwards"),
	teCurve("te_bw6_633", "bw6-633/twistededwards"),
}

// pairing step functions and final exponentiation (pairing.go of the curve package of the same name)
func pairingPkg(name, dir, tower string) towerPkg {
	c := towerPkg{name: name, dir: "ecc/" + dir, baseDir: "ecc/" + dir + "/fp", curve: true, pairing: true, tower: tower, files: []string{"pairing.go"}}
	if tower != "" {
		c.towerDir = "ecc/" + dir + "/internal/fptower"
	}
	return c
}

var pairingPkgs = []towerPkg{
	pairingPkg("bn254", "bn254", "bn254"),
	pairingPkg("bls12_381", "bls12-381", "bls12_381"),
	pairingPkg("bls12_377", "bls12-377", "bls12_377"),
	pairingPkg("bls24_315", "bls24-315", "bls24_315"),
	pairingPkg("bls24_317", "bls24-317", "bls24_317"),
}

var towerPkgs = []towerPkg{
	{name: "bn254", dir: "ecc/bn254/internal/fptower", baseDir: "ecc/bn254/fp", baseFiles: nil},
	{name: "bls12_381", dir: "ecc/bls12-381/internal/fptower", baseDir: "ecc/bls12-381/fp", baseFiles: nil},
	{name: "bls12_377", dir: "ecc/bls12-377/internal/fptower", baseDir: "ecc/bls12-377/fp", baseFiles: []string{"element_utils.go"}},
	{name: "bls24_315", dir: "ecc/bls24-315/internal/fptower", baseDir: "ecc/bls24-315/fp", baseFiles: nil},
	{name: "bls24_317", dir: "ecc/bls24-317/internal/fptower", baseDir: "ecc/bls24-317/fp", baseFiles: nil},
	{name: "bw6_761", dir: "ecc/bw6-761/internal/fptower", baseDir: "ecc/bw6-761/fp", baseFiles: []string{"bw6_utils.go"}},
	{name: "bw6_633", dir: "ecc/bw6-633/internal/fptower", baseDir: "ecc/bw6-633/fp", baseFiles: []string{"bw6_utils.go"}},
	{name: "koalabear", dir: "field/koalabear/extensions", baseDir: "field/koalabear", baseFiles: nil},
	{name: "babybear", dir: "field/babybear/extensions", baseDir: "field/babybear", baseFiles: nil},
	{name: "goldilocks", dir: "field/goldilocks/extensions", baseDir: "field/goldilocks", baseFiles: nil},
}

// functions that must translate (hand-maintained expectation; `-slp-print-targets` prints the current set)
//
//go:embed slp_targets.txt
var slpTargets string

// alias theorems that are known to fail on the unchanged tree (findings): emitted as comments
//
//go:embed slp_known.txt
var slpKnown string

func knownAliasFinding(pkg, def string) bool {
	for _, l := range strings.Split(slpKnown, "\n") {
		if strings.TrimSpace(l) == pkg+" "+def {
			return true
		}
	}
	return false
}

const maxPatterns = 15 // above this only partitions whose merged blocks contain a written position

// ---------------------------------------------------------------- types, values, locations

type typ struct {
	prim   string // "Nat" (Go uint64) / "Int" (Go int): run-time flags (extended mode)
	limbs  bool   // result of Element.Bits(): the term is the canonical representative (a Nat)
	fun    bool   // long array (extended mode, more than maxStructArr elements): a function of the index, `Nat → elem`
	base   bool
	name   string // Lean structure name (E2, Arr5)
	arr    bool
	list   bool // variadic / slice parameter of pointers to ftypes[0] (read-only): a Lean List
	jag    bool // fft mode (slpfft.go): a `[][]Element` table whose row lengths are fixed by the specialisation (read-only structure of arrays)
	fields []string
	ftypes []*typ
}

func (t *typ) lean() string {
	switch {
	case t.prim != "":
		return t.prim
	case t.base:
		return "F"
	case t.arr && t.fun:
		return "(Nat → " + t.ftypes[0].lean() + ")"
	case t.list:
		return "(List " + t.ftypes[0].lean() + ")"
	case t.arr:
		return "(" + t.name + " " + t.ftypes[0].lean() + ")"
	}
	return "(" + t.name + " F)"
}

func (t *typ) same(u *typ) bool { return t.lean() == u.lean() }

type val struct {
	t      *typ
	term   string // atomic Lean term when kids == nil
	kids   []*val
	origin string // root whose INITIAL value this term denotes ("" for computed terms)
}

type loc struct {
	root string
	path []int
}

func (l loc) eq(m loc) bool { return l.root == m.root && fmt.Sprint(l.path) == fmt.Sprint(m.path) }
func (l loc) overlaps(m loc) bool {
	if l.root != m.root {
		return false
	}
	n := min(len(l.path), len(m.path))
	return fmt.Sprint(l.path[:n]) == fmt.Sprint(m.path[:n])
}

type slpErr string

func reject(f string, a ...any) { panic(slpErr(fmt.Sprintf(f, a...))) }

// ---------------------------------------------------------------- package context

type param struct {
	name   string
	t      *typ
	ptr    bool
	isInt  bool
	slice  bool // []Element: a pointer to an array whose length is fixed by the specialisation
	isBool bool // static bool
	spec   bool // receiver of the specialisation struct (h *Permutation)
	jag    bool // fft mode: [][]Element, a read-only table of rows of fixed lengths (passed by value)
	isChan bool // fft mode: chan struct{}, statically nil (no goroutine is ever started on a translated path)
	isOpts bool // fft mode (slpffttop.go): `opts ...Option`, a translation-time record (coset, nbTasks = 1)
}

type fn struct {
	key      string // "E2.Mul", "mulGenericE2", "Element.MulByNonResidue"
	decl     *ast.FuncDecl
	inBase   bool
	pos      []*param // receiver (if any) followed by the parameters
	kind     int      // kProc (nothing / pointer returned), kValue (field-like value), kBool
	ret      *typ
	rets     []*typ   // kMulti
	resNames []string // named results (extended mode): zero-initialised locals
	errRes   bool     // hash mode (slpperm.go): the only result is `error`; every reachable return must be `return nil`
	err      string
}

const (
	kProc = iota
	kValue
	kBool
	kFlag  // uint64 / int result (extended mode)
	kMulti // several field-like values
)

type global struct {
	name    string
	t       *typ
	lit     ast.Expr         // literal initialiser (composite literal) or nil
	elems   map[int]ast.Expr // array elements assigned literally in init()
	uelems  map[int]*big.Int // array elements set by g[i].SetUint64(k) in init() (extended mode)
	mutated bool             // assigned outside init(): never a constant
	inBase  bool
}

type pkgCtx struct {
	parent     *pkgCtx // tower package reused by a curve package
	towerQual  map[*ast.File]string
	onceVars   map[string]bool // package-level sync.Once variables (their .Do(init) calls are skipped)
	cfg        towerPkg
	fc         *fieldConsts
	baseQual   map[*ast.File]string
	fileOf     map[*ast.FuncDecl]*ast.File
	structs    map[string]*typ
	aliases    map[string]ast.Expr // type aliases `type GT = fptower.E12`
	aliasFile  map[string]*ast.File
	arrays     map[string]*typ
	funcs      map[string]*fn
	fnOrder    []string
	globals    map[string]*global
	variants   map[string]*variant
	order      []*variant
	consts     []string // emitted Lean constant defs
	constSet   map[string]bool
	known      []string // alias theorems suppressed as known findings
	nBoolAlias int
	extraQual  map[*ast.File]string // import name of cfg.extraDir
	relOf      map[*ast.File]string // path relative to cfg.dir
	iconsts    map[string]int64     // integer constants of the package (extended mode)
	topFrom    int                  // fft mode: p.order[topFrom:] goes to <Pkg>Top.lean (0 = no second file)
	rowCache   map[string][]int     // slpperm.go: row lengths of the round-key table per (width, rf, rp)
	fastSeen   map[string]bool      // slpperm.go: fast-path flags read (and taken to be false) by a translated Permutation
}

type variant struct {
	f        *fn
	pat      []int // block id per position (non-pointer positions get their own block)
	name     string
	roots    []string // one per block, order of first occurrence
	rtypes   []*typ
	isPtr    []bool // root is reachable through a pointer (part of the result)
	inUsed   []bool
	written  []bool
	gparams  []string        // globals that are parameters (not literal), transitive
	spec     *spec           // specialisation (extended mode)
	sparams  map[string]*typ // parameters standing for data of the specialisation receiver (round key)
	prims    map[string]bool
	oparams  []string // opaque functions (pairing packages only): untranslatable callees that are parameters of the def
	otypes   map[string]string
	retRoot  int  // index into roots of the returned pointer, -1 if none
	fresh    bool // returns a pointer to a fresh cell: modelled as a value result of type ret
	ret      *typ
	classes  map[string]bool
	body     *code
	err      string
	busy     bool
	nPtrRoot int
}

type code struct {
	lines    []string
	cond     string
	thn, els *code
	result   string
}

// ---------------------------------------------------------------- loading a package

func buildOK(f *ast.File, fname string) bool {
	for _, suf := range []string{"_amd64.go", "_arm64.go", "_test.go"} {
		if strings.HasSuffix(fname, suf) {
			return false
		}
	}
	for _, cg := range f.Comments {
		if cg.Pos() > f.Package {
			break
		}
		for _, c := range cg.List {
			if constraint.IsGoBuild(c.Text) {
				x, err := constraint.Parse(c.Text)
				if err != nil {
					die("bad build constraint in %s", fname)
				}
				return x.Eval(func(tag string) bool { return tag == "purego" })
			}
		}
	}
	return true
}

func loadPkg(cfg towerPkg, parent *pkgCtx) *pkgCtx {
	p := &pkgCtx{cfg: cfg, parent: parent, towerQual: map[*ast.File]string{}, onceVars: map[string]bool{}, fc: extractField(cfg.baseDir), baseQual: map[*ast.File]string{}, fileOf: map[*ast.FuncDecl]*ast.File{},
		structs: map[string]*typ{}, arrays: map[string]*typ{}, funcs: map[string]*fn{}, globals: map[string]*global{},
		variants: map[string]*variant{}, constSet: map[string]bool{}, aliases: map[string]ast.Expr{}, aliasFile: map[string]*ast.File{},
		extraQual: map[*ast.File]string{}, relOf: map[*ast.File]string{}, iconsts: map[string]int64{}}
	fset := token.NewFileSet()
	var files []*ast.File
	inBase := map[*ast.File]bool{}
	load := func(path string, base bool) {
		f, err := parser.ParseFile(fset, path, nil, parser.ParseComments)
		if err != nil {
			die("parse %s: %v", path, err)
		}
		if !buildOK(f, filepath.Base(path)) {
			return
		}
		for _, im := range f.Imports {
			ip := strings.Trim(im.Path.Value, "\"")
			if strings.HasSuffix(ip, "/"+cfg.baseDir) {
				p.baseQual[f] = filepath.Base(ip)
				if im.Name != nil {
					p.baseQual[f] = im.Name.Name
				}
			}
			if cfg.towerDir != "" && strings.HasSuffix(ip, "/"+cfg.towerDir) {
				p.towerQual[f] = filepath.Base(ip)
				if im.Name != nil {
					p.towerQual[f] = im.Name.Name
				}
			}
			if cfg.extraDir != "" && strings.HasSuffix(ip, "/"+cfg.extraDir) {
				p.extraQual[f] = filepath.Base(ip)
				if im.Name != nil {
					p.extraQual[f] = im.Name.Name
				}
			}
		}
		files = append(files, f)
		inBase[f] = base
		if rel, err := filepath.Rel(filepath.Join(repo, cfg.dir), path); err == nil {
			p.relOf[f] = filepath.ToSlash(rel)
		}
	}
	for _, bf := range cfg.baseFiles {
		load(filepath.Join(repo, cfg.baseDir, bf), true)
	}
	names, _ := filepath.Glob(filepath.Join(repo, cfg.dir, "*.go"))
	sort.Strings(names)
	for _, n := range names {
		keep := cfg.files == nil
		for _, w := range cfg.files {
			keep = keep || filepath.Base(n) == w
		}
		if keep {
			load(n, false)
		}
	}
	// pass 0: type aliases (`type GT = fptower.E12`)
	for _, f := range files {
		if inBase[f] {
			continue
		}
		for _, d := range f.Decls {
			if gd, ok := d.(*ast.GenDecl); ok && gd.Tok == token.TYPE {
				for _, sp := range gd.Specs {
					if ts := sp.(*ast.TypeSpec); ts.Assign.IsValid() {
						p.aliases[ts.Name.Name] = ts.Type
						p.aliasFile[ts.Name.Name] = f
					}
				}
			}
		}
	}
	if cfg.extraDir != "" {
		xn, _ := filepath.Glob(filepath.Join(repo, cfg.extraDir, "*.go"))
		sort.Strings(xn)
		for _, n := range xn {
			for _, w := range cfg.fnFiles {
				if w == filepath.Base(cfg.extraDir)+"/"+filepath.Base(n) {
					load(n, false)
				}
			}
		}
	}
	if cfg.ext != "" {
		for _, f := range files {
			for _, d := range f.Decls {
				if gd, ok := d.(*ast.GenDecl); ok && gd.Tok == token.CONST && !inBase[f] {
					p.scanConsts(gd)
				}
			}
		}
	}
	// pass 1: struct types whose fields are all field-like (iterate to a fixed point: order of declaration is free)
	for changed := true; changed; {
		changed = false
		for _, f := range files {
			if inBase[f] {
				continue
			}
			for _, d := range f.Decls {
				gd, ok := d.(*ast.GenDecl)
				if !ok || gd.Tok != token.TYPE {
					continue
				}
				for _, sp := range gd.Specs {
					ts := sp.(*ast.TypeSpec)
					st, ok := ts.Type.(*ast.StructType)
					if !ok || p.structs[ts.Name.Name] != nil {
						continue
					}
					t := &typ{name: ts.Name.Name}
					good := len(st.Fields.List) > 0
					for _, fl := range st.Fields.List {
						ft, _, _ := p.typeOf(f, false, fl.Type)
						if ft == nil || len(fl.Names) == 0 {
							good = false
							break
						}
						for _, nm := range fl.Names {
							t.fields = append(t.fields, nm.Name)
							t.ftypes = append(t.ftypes, ft)
						}
					}
					if good {
						p.structs[t.name] = t
						changed = true
					}
				}
			}
		}
	}
	// struct types with SOME field-like fields (only used for package-level variables such as curveParams)
	type pfield struct {
		name string
		t    *typ
	}
	partial := map[string][]pfield{}
	for _, f := range files {
		if inBase[f] {
			continue
		}
		for _, d := range f.Decls {
			gd, ok := d.(*ast.GenDecl)
			if !ok || gd.Tok != token.TYPE {
				continue
			}
			for _, sp := range gd.Specs {
				ts := sp.(*ast.TypeSpec)
				st, ok := ts.Type.(*ast.StructType)
				if !ok || p.structs[ts.Name.Name] != nil {
					continue
				}
				for _, fl := range st.Fields.List {
					if ft, ptr, _ := p.typeOf(f, false, fl.Type); ft != nil && !ptr {
						for _, nm := range fl.Names {
							partial[ts.Name.Name] = append(partial[ts.Name.Name], pfield{nm.Name, ft})
						}
					}
				}
			}
		}
	}
	// pass 2: functions and globals
	for _, f := range files {
		for _, d := range f.Decls {
			switch d := d.(type) {
			case *ast.FuncDecl:
				if d.Body == nil {
					continue
				}
				if d.Name.Name == "init" && d.Recv == nil {
					p.scanInit(f, d)
					continue
				}
				if cfg.fnFiles != nil && !inBase[f] {
					keep := false
					for _, w := range cfg.fnFiles {
						keep = keep || w == p.relOf[f]
					}
					if !keep {
						continue
					}
				}
				p.addFunc(f, inBase[f], d)
			case *ast.GenDecl:
				if d.Tok != token.VAR {
					continue
				}
				for _, sp := range d.Specs {
					vs := sp.(*ast.ValueSpec)
					te := vs.Type
					if cl, ok := firstExpr(vs.Values).(*ast.CompositeLit); ok && te == nil {
						te = cl.Type
					}
					if te == nil {
						continue
					}
					if se, ok := te.(*ast.SelectorExpr); ok && exprStr(se) == "sync.Once" {
						for _, nm := range vs.Names {
							p.onceVars[nm.Name] = true
						}
						continue
					}
					if st, ok := te.(*ast.StructType); ok && len(vs.Values) == 0 && !inBase[f] {
						// variable of an anonymous struct type (endo): one parameter per field-like field
						for _, nm := range vs.Names {
							for _, fl := range st.Fields.List {
								if ft, ptr, _ := p.typeOf(f, false, fl.Type); ft != nil && !ptr {
									for _, fn := range fl.Names {
										n := nm.Name + "_" + fn.Name
										p.globals[n] = &global{name: n, t: ft, elems: map[int]ast.Expr{}}
									}
								}
							}
						}
						continue
					}
					if id, ok := te.(*ast.Ident); ok && partial[id.Name] != nil && len(vs.Values) == 0 && !inBase[f] {
						// variable of a struct type with some field-like fields (curveParams): one parameter per such field
						for _, nm := range vs.Names {
							for _, pf := range partial[id.Name] {
								n := nm.Name + "_" + pf.name
								p.globals[n] = &global{name: n, t: pf.t, elems: map[int]ast.Expr{}}
							}
						}
						continue
					}
					t, ptr, _ := p.typeOf(f, inBase[f], te)
					made := false
					if at, ok := te.(*ast.ArrayType); ok && at.Len == nil && cfg.ext != "" {
						// slice variable with a literal initialiser: an array of that many elements
						if cl, ok := firstExpr(vs.Values).(*ast.CompositeLit); ok && len(cl.Elts) > 0 {
							if et, eptr, _ := p.typeOf(f, inBase[f], at.Elt); et != nil && !eptr {
								t, ptr = p.arrType(len(cl.Elts), et), false
							}
						}
						// var g []T = make([]T, n): n zero elements, filled by init()
						if c, ok := firstExpr(vs.Values).(*ast.CallExpr); ok && exprStr(c.Fun) == "make" && len(c.Args) == 2 && len(vs.Names) == 1 {
							if n := litInt(c.Args[1]); n != nil && n.IsInt64() && n.Int64() >= 1 && n.Int64() <= 4096 && exprStr(c.Args[0]) == exprStr(te) {
								if et, eptr, _ := p.typeOf(f, inBase[f], at.Elt); et != nil && !eptr {
									t, ptr, made = p.arrType(int(n.Int64()), et), false, true
								}
							}
						}
					}
					if t == nil || ptr {
						continue
					}
					for i, nm := range vs.Names {
						g := &global{name: nm.Name, t: t, elems: map[int]ast.Expr{}, inBase: inBase[f]}
						if i < len(vs.Values) && !made {
							g.lit = vs.Values[i]
						}
						p.globals[nm.Name] = g
					}
				}
			}
		}
	}
	// globals assigned outside init() (and not shadowed by a local of the same name) are not constants
	for _, k := range p.fnOrder {
		d := p.funcs[k].decl
		local := map[string]bool{}
		ast.Inspect(d, func(n ast.Node) bool {
			switch n := n.(type) {
			case *ast.Field:
				for _, nm := range n.Names {
					local[nm.Name] = true
				}
			case *ast.ValueSpec:
				for _, nm := range n.Names {
					local[nm.Name] = true
				}
			case *ast.AssignStmt:
				if n.Tok == token.DEFINE {
					for _, l := range n.Lhs {
						if id, ok := l.(*ast.Ident); ok {
							local[id.Name] = true
						}
					}
				}
			}
			return true
		})
		ast.Inspect(d.Body, func(n ast.Node) bool {
			if as, ok := n.(*ast.AssignStmt); ok && as.Tok != token.DEFINE {
				for _, l := range as.Lhs {
					if id := rootIdent(l); id != nil && !local[id.Name] && p.globals[id.Name] != nil {
						p.globals[id.Name].mutated = true
					}
				}
			}
			return true
		})
	}
	return p
}

func firstExpr(es []ast.Expr) ast.Expr {
	if len(es) == 1 {
		return es[0]
	}
	return nil
}

func rootIdent(e ast.Expr) *ast.Ident {
	for {
		switch x := e.(type) {
		case *ast.Ident:
			return x
		case *ast.SelectorExpr:
			e = x.X
		case *ast.IndexExpr:
			e = x.X
		case *ast.ParenExpr:
			e = x.X
		case *ast.StarExpr:
			e = x.X
		default:
			return nil
		}
	}
}

// scanInit records `g[i] = <composite literal>` / `g = <composite literal>` statements of init().
func (p *pkgCtx) scanInit(f *ast.File, d *ast.FuncDecl) {
	for _, s := range d.Body.List {
		if es, ok := s.(*ast.ExprStmt); ok && p.cfg.ext != "" {
			// g[i].SetUint64(k)
			if c, ok := es.X.(*ast.CallExpr); ok && len(c.Args) == 1 {
				if se, ok := c.Fun.(*ast.SelectorExpr); ok && se.Sel.Name == "SetUint64" {
					if ix, ok := se.X.(*ast.IndexExpr); ok {
						if id, ok := ix.X.(*ast.Ident); ok {
							g, i, k := p.globals[id.Name], litInt(ix.Index), litInt(c.Args[0])
							if g != nil && g.t.arr && g.t.ftypes[0].base && i != nil && k != nil && i.IsInt64() {
								if g.uelems == nil {
									g.uelems = map[int]*big.Int{}
								}
								if _, dup := g.uelems[int(i.Int64())]; dup {
									g.mutated = true // set twice: not a constant we understand
								}
								g.uelems[int(i.Int64())] = k
							}
						}
					}
				}
			}
			continue
		}
		as, ok := s.(*ast.AssignStmt)
		if !ok || len(as.Lhs) != 1 || as.Tok != token.ASSIGN {
			continue
		}
		if _, ok := as.Rhs[0].(*ast.CompositeLit); !ok {
			continue
		}
		switch l := as.Lhs[0].(type) {
		case *ast.Ident:
			if g := p.globals[l.Name]; g != nil {
				g.lit = as.Rhs[0]
			}
		case *ast.IndexExpr:
			if id, ok := l.X.(*ast.Ident); ok {
				if g := p.globals[id.Name]; g != nil {
					if i := litInt(l.Index); i != nil {
						g.elems[int(i.Int64())] = as.Rhs[0]
					}
				}
			}
		}
	}
}

// typeOf: Go type expression -> (field-like type, isPointer, isInt); nil when not field-like.
func (p *pkgCtx) typeOf(f *ast.File, inBase bool, e ast.Expr) (*typ, bool, bool) {
	switch x := e.(type) {
	case *ast.StarExpr:
		t, ptr, _ := p.typeOf(f, inBase, x.X)
		if t == nil || ptr {
			return nil, false, false
		}
		return t, true, false
	case *ast.Ident:
		if x.Name == "int" {
			return nil, false, true
		}
		if inBase && x.Name == "Element" {
			return baseT, false, false
		}
		if t := p.structs[x.Name]; t != nil && !inBase {
			return t, false, false
		}
		if !inBase {
			// structures / aliases of an ancestor that is the SAME Go package (pairing.go over g2.go), own aliases
			for q := p; q != nil && q.cfg.dir == p.cfg.dir; q = q.parent {
				if t := q.structs[x.Name]; t != nil {
					return t, false, false
				}
				if a := q.aliases[x.Name]; a != nil {
					return q.typeOf(q.aliasFile[x.Name], false, a)
				}
			}
		}
	case *ast.Ellipsis:
		et, ptr, _ := p.typeOf(f, inBase, x.Elt)
		if et == nil || !ptr || inBase {
			return nil, false, false
		}
		return &typ{list: true, name: "List", ftypes: []*typ{et}}, false, false
	case *ast.SelectorExpr:
		if id, ok := x.X.(*ast.Ident); ok && id.Name == p.baseQual[f] && x.Sel.Name == "Element" && !inBase {
			return baseT, false, false
		}
		if id, ok := x.X.(*ast.Ident); ok && p.parent != nil && p.towerQual[f] != "" && id.Name == p.towerQual[f] && !inBase {
			for q := p.parent; q != nil; q = q.parent {
				if q.cfg.dir != p.cfg.towerDir {
					continue
				}
				if t := q.structs[x.Sel.Name]; t != nil {
					return t, false, false
				}
			}
		}
	case *ast.ArrayType:
		n := litInt(x.Len)
		lim := int64(32)
		if p.cfg.ext != "" {
			lim = 4096
			if id, ok := x.Len.(*ast.Ident); ok && n == nil {
				if k, ok := p.iconsts[id.Name]; ok {
					n = big.NewInt(k)
				}
			}
		}
		et, ptr, _ := p.typeOf(f, inBase, x.Elt)
		if n == nil || et == nil || ptr || n.Int64() < 1 || n.Int64() > lim {
			return nil, false, false
		}
		return p.arrType(int(n.Int64()), et), false, false
	case *ast.ParenExpr:
		return p.typeOf(f, inBase, x.X)
	}
	return nil, false, false
}

var baseT = &typ{base: true, name: "F"}

// arrays longer than this are functions of the index (a structure with that many fields is too slow to elaborate)
const maxStructArr = 32

func (p *pkgCtx) arrType(n int, et *typ) *typ {
	key := fmt.Sprintf("[%d]%s", n, et.lean())
	if t := p.arrays[key]; t != nil {
		return t
	}
	t := &typ{arr: true, name: fmt.Sprintf("Arr%d", n), fun: n > maxStructArr}
	for i := 0; i < n; i++ {
		t.fields = append(t.fields, fmt.Sprintf("e%d", i))
		t.ftypes = append(t.ftypes, et)
	}
	p.arrays[key] = t
	return t
}

func (p *pkgCtx) addFunc(f *ast.File, inBase bool, d *ast.FuncDecl) {
	fnv := &fn{decl: d, inBase: inBase, key: d.Name.Name}
	p.fileOf[d] = f
	bad := func(s string) { fnv.err = s }
	if d.Type.TypeParams != nil {
		bad("generic function")
	}
	if d.Recv != nil {
		fl := d.Recv.List[0]
		t, ptr, _ := p.typeOf(f, inBase, fl.Type)
		if t == nil && p.cfg.specRecv != "" && exprStr(fl.Type) == "*"+p.cfg.specRecv && len(fl.Names) == 1 {
			fnv.key = p.cfg.specRecv + "." + d.Name.Name
			fnv.pos = append(fnv.pos, &param{name: fl.Names[0].Name, spec: true})
		} else {
			if t == nil {
				return // receiver is not field-like: not our business
			}
			rn := t.name
			if t.base {
				rn = "Element"
			}
			fnv.key = rn + "." + d.Name.Name
			if !ptr || len(fl.Names) != 1 {
				bad("value receiver")
			} else {
				fnv.pos = append(fnv.pos, &param{name: fl.Names[0].Name, t: t, ptr: true})
			}
		}
	}
	for _, fl := range d.Type.Params.List {
		t, ptr, isInt := p.typeOf(f, inBase, fl.Type)
		q := param{t: t, ptr: ptr, isInt: isInt}
		if t == nil && !isInt && p.cfg.ext != "" {
			if at, ok := fl.Type.(*ast.ArrayType); ok && at.Len == nil {
				if et, eptr, _ := p.typeOf(f, inBase, at.Elt); et != nil && !eptr {
					q.slice, q.ptr, q.t = true, true, et // t = element type until the specialisation fixes the length
				}
			}
			if id, ok := fl.Type.(*ast.Ident); ok && id.Name == "bool" {
				q.isBool = true
			}
			if p.cfg.ext == "fft" {
				p.fftParam(f, inBase, fl.Type, &q)
			}
		}
		if t == nil && !q.isInt && !q.slice && !q.isBool && !q.jag && !q.isChan && !q.isOpts {
			bad("parameter of unsupported type " + exprStr(fl.Type))
		}
		for _, nm := range fl.Names {
			qq := q
			qq.name = nm.Name
			fnv.pos = append(fnv.pos, &qq)
		}
	}
	if r := d.Type.Results; r != nil && p.cfg.ext == "hash" && len(fnv.pos) > 0 && fnv.pos[0].spec && len(r.List) == 1 && len(r.List[0].Names) == 0 && exprStr(r.List[0].Type) == "error" {
		fnv.errRes = true // a procedure; slpperm.go
	} else if r := d.Type.Results; r != nil && p.cfg.ext != "" && p.extResults(f, inBase, fnv, r) {
		// handled by slpx.go (flag / several values / named results)
	} else if r != nil {
		if len(r.List) != 1 || len(r.List[0].Names) > 1 {
			bad("multiple results")
		} else if id, ok := r.List[0].Type.(*ast.Ident); ok && id.Name == "bool" {
			fnv.kind = kBool
		} else {
			t, ptr, _ := p.typeOf(f, inBase, r.List[0].Type)
			switch {
			case t == nil:
				bad("result of unsupported type " + exprStr(r.List[0].Type))
			case !ptr:
				fnv.kind, fnv.ret = kValue, t
			}
			if len(r.List[0].Names) == 1 {
				bad("named result")
			}
		}
	}
	if d.Recv == nil {
		// plain functions are only interesting when they touch field-like data
		any := fnv.ret != nil || fnv.rets != nil
		for _, q := range fnv.pos {
			any = any || q.t != nil
		}
		if !any {
			return
		}
	}
	if _, dup := p.funcs[fnv.key]; dup {
		die("%s: duplicate function %s under the selected build tags", p.cfg.name, fnv.key)
	}
	p.funcs[fnv.key] = fnv
	p.fnOrder = append(p.fnOrder, fnv.key)
}

func exprStr(e ast.Expr) string {
	switch x := e.(type) {
	case *ast.Ident:
		return x.Name
	case *ast.SelectorExpr:
		return exprStr(x.X) + "." + x.Sel.Name
	case *ast.StarExpr:
		return "*" + exprStr(x.X)
	case *ast.ArrayType:
		return "[]" + exprStr(x.Elt)
	case *ast.IndexExpr:
		return exprStr(x.X) + "[..]"
	case *ast.CallExpr:
		return exprStr(x.Fun) + "(..)"
	case *ast.UnaryExpr:
		return x.Op.String() + exprStr(x.X)
	case *ast.ParenExpr:
		return exprStr(x.X)
	}
	return fmt.Sprintf("%T", e)
}

// ---------------------------------------------------------------- alias patterns

// partitions of the positions of f: same-typed pointer positions may share a block.
func (f *fn) partitions() [][]int {
	n := len(f.pos)
	var out [][]int
	cur := make([]int, n)
	var rec func(i, nb int)
	rec = func(i, nb int) {
		if i == n {
			out = append(out, append([]int(nil), cur...))
			return
		}
		if f.pos[i].ptr {
			seen := map[int]bool{}
			for j := 0; j < i; j++ {
				if f.pos[j].ptr && f.pos[j].t.same(f.pos[i].t) && !seen[cur[j]] {
					seen[cur[j]] = true
					cur[i] = cur[j]
					rec(i+1, nb)
				}
			}
		}
		cur[i] = nb
		rec(i+1, nb+1)
	}
	rec(0, 0)
	// base pattern (all distinct) first
	sort.SliceStable(out, func(a, b int) bool { return maxOf(out[a]) > maxOf(out[b]) })
	return out
}

func maxOf(xs []int) int {
	m := -1
	for _, x := range xs {
		m = max(m, x)
	}
	return m
}

func (f *fn) patName(pat []int) string {
	blocks := map[int][]string{}
	var ids []int
	nptr := 0
	for i, b := range pat {
		if f.pos[i].ptr {
			nptr++
		}
		if _, ok := blocks[b]; !ok {
			ids = append(ids, b)
		}
		blocks[b] = append(blocks[b], f.pos[i].name)
	}
	var parts []string
	for _, b := range ids {
		if len(blocks[b]) > 1 {
			if len(blocks[b]) == nptr && nptr > 2 {
				return "_all"
			}
			parts = append(parts, strings.Join(blocks[b], "_eq_"))
		}
	}
	if len(parts) == 0 {
		return ""
	}
	return "_" + strings.Join(parts, "__")
}

func leanFn(key string) string {
	if strings.HasPrefix(key, "Element.") {
		return "Fp." + strings.TrimPrefix(key, "Element.")
	}
	return key
}

// ---------------------------------------------------------------- symbolic execution

type state struct {
	cells map[string]*val
	ptrs  map[string]loc
	// extended mode: values known at translation time
	sints  map[string]int64
	sbools map[string]bool
	bigs   map[string]*big.Int
	views  map[string]view // fft mode: local names bound to a sub-slice of an array cell
}

func (s *state) clone() *state {
	c := &state{cells: map[string]*val{}, ptrs: map[string]loc{}}
	for k, v := range s.cells {
		c.cells[k] = v
	}
	for k, v := range s.ptrs {
		c.ptrs[k] = v
	}
	if s.sints != nil {
		c.sints, c.sbools, c.bigs = map[string]int64{}, map[string]bool{}, map[string]*big.Int{}
		for k, v := range s.sints {
			c.sints[k] = v
		}
		for k, v := range s.sbools {
			c.sbools[k] = v
		}
		for k, v := range s.bigs {
			c.bigs[k] = new(big.Int).Set(v)
		}
	}
	if s.views != nil {
		c.views = map[string]view{}
		for k, v := range s.views {
			c.views[k] = v
		}
	}
	return c
}

type tr struct {
	p         *pkgCtx
	v         *variant
	file      *ast.File
	ctr       map[string]int
	used      map[string]bool // roots whose initial value is read
	wr        map[string]bool // roots written
	out       *code           // block under construction
	gp        map[string]bool
	anon      int
	op        map[string]string // opaque function parameters used: Lean name -> Lean type
	ints      map[string]bool   // int parameters (loop bounds)
	paramRoot map[string]bool
	loop      int // > 0 inside a loop body
	// extended mode
	prm      map[string]bool                  // primitive parameters used (legendre, sqrt, ...)
	multi    []*val                           // values of the last kMulti call
	loopSnap map[*ast.ForStmt]map[string]bool // names in scope before an unrolled loop
	outer    map[*ast.ForStmt]map[string]bool // names in scope outside an unrolled loop
	unrolled int
	pviews   []pview // fft mode: sub-slice arguments of the call being built (copied back after the call)
}

func zeroVal(t *typ) *val {
	if t.prim != "" {
		return &val{t: t, term: "((0) : " + t.prim + ")"}
	}
	if t.base {
		return &val{t: t, term: "(0 : F)"}
	}
	v := &val{t: t}
	for _, ft := range t.ftypes {
		v.kids = append(v.kids, zeroVal(ft))
	}
	return v
}

func (x *tr) need(cs ...string) {
	for _, c := range cs {
		x.v.classes[c] = true
	}
}

// read materialises a value as a Lean term (and records the use of initial values).
func (x *tr) read(v *val) string {
	if v.kids == nil {
		if v.origin != "" {
			x.used[v.origin] = true
		}
		if strings.HasPrefix(v.term, "(0 :") {
			x.need("Zero")
		}
		return v.term
	}
	if v.t.fun && x.p.cfg.ext == "fft" {
		return x.readLong(v)
	}
	if v.t.fun {
		reject("a long array is built element by element")
	}
	parts := []string{v.t.name + ".mk"}
	for _, k := range v.kids {
		parts = append(parts, x.read(k))
	}
	return "(" + strings.Join(parts, " ") + ")"
}

func kid(v *val, i int) *val {
	if v.kids != nil {
		return v.kids[i]
	}
	if v.t.fun {
		return &val{t: v.t.ftypes[i], term: fmt.Sprintf("(%s %d)", v.term, i), origin: v.origin}
	}
	return &val{t: v.t.ftypes[i], term: v.term + "." + v.t.fields[i], origin: v.origin}
}

func get(v *val, path []int) *val {
	for _, i := range path {
		v = kid(v, i)
	}
	return v
}

func set(v *val, path []int, nv *val) *val {
	if len(path) == 0 {
		return nv
	}
	c := &val{t: v.t}
	for i := range v.t.fields {
		c.kids = append(c.kids, kid(v, i))
	}
	c.kids[path[0]] = set(c.kids[path[0]], path[1:], nv)
	return c
}

func (x *tr) typeAt(s *state, l loc) *typ {
	t := s.cells[l.root].t
	for _, i := range l.path {
		t = t.ftypes[i]
	}
	return t
}

func (x *tr) write(s *state, l loc, nv *val) {
	if strings.HasPrefix(l.root, "g:") {
		reject("write to package-level variable %s", l.root[2:])
	}
	if strings.HasPrefix(l.root, "spec:") {
		reject("write to data of the specialisation receiver (%s)", l.root[5:])
	}
	if s.cells[l.root].t.jag {
		reject("write to the table %s", l.root)
	}
	if !x.typeAt(s, l).same(nv.t) {
		reject("type mismatch in assignment to %s", x.locName(s, l))
	}
	s.cells[l.root] = set(s.cells[l.root], l.path, nv)
	x.wr[l.root] = true
}

func (x *tr) locName(s *state, l loc) string {
	n := strings.TrimPrefix(l.root, "g:")
	t := s.cells[l.root].t
	for _, i := range l.path {
		f := t.fields[i]
		if t.arr {
			f = f[1:]
		}
		n += f
		t = t.ftypes[i]
	}
	return n
}

// Go identifiers may contain letters that are Lean keywords or not identifier characters (λ)
func leanIdent(n string) string {
	var b strings.Builder
	for _, r := range n {
		switch {
		case r == 'λ':
			b.WriteString("lam")
		case r < 128:
			b.WriteRune(r)
		default:
			fmt.Fprintf(&b, "u%x", r)
		}
	}
	return b.String()
}

// a Go parameter name that is a Lean keyword (fft.go: `at`); no def emitted before had one, the Lean file would not have compiled
func leanParam(n string) string {
	if n == "at" {
		return "at'"
	}
	return n
}

func (x *tr) fresh(base string) string {
	base = leanIdent(base)
	x.ctr[base]++
	return fmt.Sprintf("%s_%d", base, x.ctr[base])
}

func (x *tr) emit(name, rhs string) { x.out.lines = append(x.out.lines, "let "+name+" := "+rhs) }

// assign a freshly computed base/struct term to a location
func (x *tr) def(s *state, l loc, rhs string) {
	n := x.fresh(x.locName(s, l))
	x.emit(n, rhs)
	x.write(s, l, &val{t: x.typeAt(s, l), term: n})
}

func (x *tr) newRoot(s *state, name string, v *val) {
	if _, dup := s.cells[name]; dup {
		reject("redeclaration of %s", name)
	}
	if _, dup := s.ptrs[name]; dup {
		reject("redeclaration of %s", name)
	}
	if v.t != nil && v.t.prim != "" && v.kids == nil && !isLeanIdent(v.term) && !strings.HasPrefix(v.term, "((0)") {
		n := x.fresh(name)
		x.emit(n, v.term)
		v = &val{t: v.t, term: n}
	}
	s.cells[name] = v
}

// global root, created on first use
func (x *tr) globalRoot(s *state, name string) bool {
	g, owner := x.p.global(name)
	if g == nil {
		return false
	}
	if _, ok := s.cells["g:"+name]; !ok {
		if owner.constOf(g) {
			x.need("NatCast")
			s.cells["g:"+name] = &val{t: g.t, term: "(" + x.p.qual(owner, leanGlobal(g)) + " (F := F))"}
		} else {
			x.gp[name] = true
			s.cells["g:"+name] = &val{t: g.t, term: name}
		}
	}
	return true
}

func leanGlobal(g *global) string { return "const_" + g.name }

// package-level variable / function by name: own package first, then the reused tower package
func (p *pkgCtx) global(name string) (*global, *pkgCtx) {
	if g := p.globals[name]; g != nil {
		return g, p
	}
	if p.parent != nil {
		return p.parent.global(name)
	}
	return nil, nil
}

func (p *pkgCtx) lookupFn(key string) (*fn, *pkgCtx) {
	if f := p.funcs[key]; f != nil {
		return f, p
	}
	if p.parent != nil {
		return p.parent.lookupFn(key)
	}
	return nil, p
}

// Lean name of a def of package `owner` as seen from package p
func (p *pkgCtx) qual(owner *pkgCtx, name string) string {
	if owner == p {
		return name
	}
	return owner.cfg.ns() + "." + name
}

func (x *tr) fieldIndex(t *typ, name string) int {
	for i, f := range t.fields {
		if f == name && !t.arr {
			return i
		}
	}
	reject("no field %s in %s", name, t.name)
	return -1
}

// evalLoc: addressable expression -> location (pointer variables are dereferenced implicitly)
func (x *tr) evalLoc(s *state, e ast.Expr) loc {
	if x.p.cfg.ext != "" {
		if l, ok := x.extLoc(s, e); ok {
			return l
		}
	}
	switch e := e.(type) {
	case *ast.Ident:
		if l, ok := s.ptrs[e.Name]; ok {
			return l
		}
		if _, ok := s.cells[e.Name]; ok {
			return loc{root: e.Name}
		}
		if x.globalRoot(s, e.Name) {
			return loc{root: "g:" + e.Name}
		}
		reject("unknown identifier %s", e.Name)
	case *ast.ParenExpr:
		return x.evalLoc(s, e.X)
	case *ast.StarExpr:
		return x.evalPtr(s, e.X)
	case *ast.SelectorExpr:
		var l loc
		if c, ok := e.X.(*ast.CallExpr); ok {
			l = x.evalPtr(s, c)
		} else {
			if id, ok := e.X.(*ast.Ident); ok {
				_, isPtr := s.ptrs[id.Name]
				_, isCell := s.cells[id.Name]
				if n := id.Name + "_" + e.Sel.Name; !isPtr && !isCell && x.p.globals[id.Name] == nil && x.globalRoot(s, n) {
					return loc{root: "g:" + n}
				}
			}
			l = x.evalLoc(s, e.X)
		}
		t := x.typeAt(s, l)
		return loc{l.root, append(append([]int(nil), l.path...), x.fieldIndex(t, e.Sel.Name))}
	case *ast.IndexExpr:
		l := x.evalLoc(s, e.X)
		t := x.typeAt(s, l)
		i := litInt(e.Index)
		if i == nil && x.p.cfg.ext != "" {
			if n, ok := x.evalInt(s, e.Index); ok && n >= 0 {
				i = big.NewInt(n)
			}
		}
		if !t.arr || i == nil || int(i.Int64()) >= len(t.fields) {
			reject("unsupported index expression %s", exprStr(e))
		}
		return loc{l.root, append(append([]int(nil), l.path...), int(i.Int64()))}
	}
	reject("unsupported addressable expression %s", exprStr(e))
	return loc{}
}

// evalPtr: expression of pointer type -> location pointed to
func (x *tr) evalPtr(s *state, e ast.Expr) loc {
	switch e := e.(type) {
	case *ast.Ident:
		if l, ok := s.ptrs[e.Name]; ok {
			return l
		}
		reject("%s is not a pointer variable", e.Name)
	case *ast.ParenExpr:
		return x.evalPtr(s, e.X)
	case *ast.UnaryExpr:
		if e.Op == token.AND {
			if cl, ok := e.X.(*ast.CompositeLit); ok {
				x.anon++
				n := fmt.Sprintf("lit%d", x.anon)
				x.newRoot(s, n, x.composite(s, cl))
				return loc{root: n}
			}
			return x.evalLoc(s, e.X)
		}
	case *ast.CallExpr:
		if id, ok := e.Fun.(*ast.Ident); ok && id.Name == "new" && len(e.Args) == 1 && x.p.funcs["new"] == nil {
			t, ptr, _ := x.p.typeOf(x.file, x.v.f.inBase, e.Args[0])
			if t == nil || ptr {
				reject("new of unsupported type %s", exprStr(e.Args[0]))
			}
			x.anon++
			n := fmt.Sprintf("new%d", x.anon)
			x.newRoot(s, n, zeroVal(t))
			return loc{root: n}
		}
		l, v, _ := x.call(s, e)
		if v != nil || l == nil {
			reject("call %s does not return a pointer", exprStr(e))
		}
		return *l
	}
	reject("unsupported pointer expression %s", exprStr(e))
	return loc{}
}

// evalVal: expression of field-like value type -> value
func (x *tr) evalVal(s *state, e ast.Expr) *val {
	if x.p.cfg.ext != "" {
		if v := x.extVal(s, e); v != nil {
			return v
		}
	}
	switch e := e.(type) {
	case *ast.ParenExpr:
		return x.evalVal(s, e.X)
	case *ast.CompositeLit:
		return x.composite(s, e)
	case *ast.CallExpr:
		_, v, _ := x.call(s, e)
		if v == nil {
			reject("call %s does not return a value", exprStr(e))
		}
		return v
	case *ast.Ident:
		if _, ok := s.ptrs[e.Name]; ok {
			reject("pointer %s used as a value", e.Name)
		}
	}
	l := x.evalLoc(s, e)
	return get(s.cells[l.root], l.path)
}

// montgomery literal -> canonical value
func (x *tr) baseLit(cl *ast.CompositeLit) *val {
	fc := x.p.fc
	n := new(big.Int)
	for i, el := range cl.Elts {
		v := litInt(el)
		if v == nil {
			reject("non-literal limb in base-field literal")
		}
		n.Add(n, new(big.Int).Lsh(v, uint(i*fc.word)))
	}
	limbs := int(fc.consts["Limbs"].Int64())
	if len(cl.Elts) == 0 {
		return zeroVal(baseT)
	}
	if len(cl.Elts) != limbs && !(x.p.cfg.ext != "" && len(cl.Elts) < limbs) { // a shorter array literal is padded with zero limbs
		reject("base-field literal with %d limbs", len(cl.Elts))
	}
	r := new(big.Int).Lsh(big.NewInt(1), uint(limbs*fc.word))
	rinv := new(big.Int).ModInverse(r, fc.modulus)
	n.Mul(n, rinv).Mod(n, fc.modulus)
	x.need("NatCast")
	return &val{t: baseT, term: fmt.Sprintf("((%s : Nat) : F)", n)}
}

func (x *tr) composite(s *state, cl *ast.CompositeLit) *val {
	t, ptr, _ := x.p.typeOf(x.file, x.v.f.inBase, cl.Type)
	if t == nil || ptr {
		reject("composite literal of unsupported type %s", exprStr(cl.Type))
	}
	return x.compositeOf(s, t, cl)
}

func (x *tr) compositeOf(s *state, t *typ, cl *ast.CompositeLit) *val {
	if t.base {
		return x.baseLit(cl)
	}
	v := zeroVal(t)
	for i, el := range cl.Elts {
		idx := i
		if kv, ok := el.(*ast.KeyValueExpr); ok {
			if t.arr {
				k := litInt(kv.Key)
				if k == nil {
					reject("array literal key")
				}
				idx = int(k.Int64())
			} else {
				idx = x.fieldIndex(t, kv.Key.(*ast.Ident).Name)
			}
			el = kv.Value
		}
		if idx >= len(t.fields) {
			reject("too many elements in literal")
		}
		var ev *val
		if c2, ok := el.(*ast.CompositeLit); ok && c2.Type == nil {
			ev = x.compositeOf(s, t.ftypes[idx], c2)
		} else {
			ev = x.evalVal(s, el)
		}
		if !ev.t.same(t.ftypes[idx]) {
			reject("literal element type mismatch")
		}
		v.kids[idx] = ev
	}
	return v
}

// ---- conditions

func (x *tr) cond(s *state, e ast.Expr) string {
	if x.p.cfg.ext != "" {
		if b, ok := x.staticCond(s, e); ok {
			return strconv.FormatBool(b)
		}
	}
	switch e := e.(type) {
	case *ast.ParenExpr:
		return x.cond(s, e.X)
	case *ast.UnaryExpr:
		if e.Op == token.NOT {
			return "(!" + x.cond(s, e.X) + ")"
		}
	case *ast.BinaryExpr:
		if e.Op == token.LAND {
			return "(" + x.cond(s, e.X) + " && " + x.cond(s, e.Y) + ")"
		}
		if e.Op == token.LOR {
			return "(" + x.cond(s, e.X) + " || " + x.cond(s, e.Y) + ")"
		}
	case *ast.CallExpr:
		_, _, b := x.call(s, e)
		if b != "" {
			return b
		}
	case *ast.Ident:
		if e.Name == "true" || e.Name == "false" {
			return e.Name
		}
	}
	reject("unsupported condition %s", exprStr(e))
	return ""
}

// ---- calls

// primitive operations of the base field: name -> arity and Lean term
func (x *tr) prim(op string, a []string) (string, bool) {
	switch {
	case op == "Add" && len(a) == 2:
		x.need("Add")
		return a[0] + " + " + a[1], true
	case op == "Sub" && len(a) == 2:
		x.need("Sub")
		return a[0] + " - " + a[1], true
	case op == "Mul" && len(a) == 2:
		x.need("Mul")
		return a[0] + " * " + a[1], true
	case op == "Div" && len(a) == 2:
		x.need("Mul", "Inv")
		return a[0] + " * " + a[1] + "⁻¹", true
	case op == "Square" && len(a) == 1:
		x.need("Mul")
		return a[0] + " * " + a[0], true
	case op == "Double" && len(a) == 1:
		x.need("Add")
		return a[0] + " + " + a[0], true
	case op == "Neg" && len(a) == 1:
		x.need("Neg")
		return "-" + a[0], true
	case op == "Inverse" && len(a) == 1:
		x.need("Inv")
		return a[0] + "⁻¹", true
	}
	return "", false
}

var primArity = map[string]int{"Add": 2, "Sub": 2, "Mul": 2, "Div": 2, "Square": 1, "Double": 1, "Neg": 1, "Inverse": 1}

func nTimes(n int, a string) string {
	parts := make([]string, n)
	for i := range parts {
		parts[i] = a
	}
	return strings.Join(parts, " + ")
}

// call executes a call expression. Result: location (pointer result), value (value result) or Bool term.
func (x *tr) call(s *state, c *ast.CallExpr) (*loc, *val, string) {
	var recv *loc
	var name string
	if x.p.cfg.ext != "" {
		if l, v, done := x.extCall(s, c); done {
			return l, v, ""
		}
	}
	switch f := c.Fun.(type) {
	case *ast.Ident:
		name = f.Name
	case *ast.SelectorExpr:
		name = f.Sel.Name
		if id, ok := f.X.(*ast.Ident); ok && x.p.cfg.ext != "" && id.Name == x.p.extraQual[x.file] && s.cells[id.Name] == nil {
			// function of the second package (hash_to_curve.G1Sgn0): both packages are translated together
			fn, owner := x.p.lookupFn(name)
			return x.callFn(s, fn, owner, name, nil, c)
		}
		if id, ok := f.X.(*ast.Ident); ok && x.p.cfg.specRecv != "" && len(x.v.f.pos) > 0 && x.v.f.pos[0].spec && id.Name == x.v.f.pos[0].name {
			// method of the specialisation receiver: h.matMulM4InPlace(input)
			key := x.p.cfg.specRecv + "." + name
			fn, owner := x.p.lookupFn(key)
			return x.callFn(s, fn, owner, key, &loc{root: "spec:"}, c)
		}
		if id, ok := f.X.(*ast.Ident); ok && id.Name == x.p.baseQual[x.file] && !x.v.f.inBase && s.cells[id.Name] == nil {
			// helper of the base package applied in place: fp.MulBy3(&x)
			if strings.HasPrefix(name, "MulBy") && len(c.Args) == 1 {
				if k, err := strconv.Atoi(name[5:]); err == nil && k >= 2 {
					l := x.evalPtr(s, c.Args[0])
					a := x.read(get(s.cells[l.root], l.path))
					if k <= 5 {
						x.need("Add")
						x.def(s, l, nTimes(k, a))
					} else {
						x.need("NatCast", "Mul")
						x.def(s, l, fmt.Sprintf("((%d : Nat) : F) * %s", k, a))
					}
					return nil, nil, ""
				}
			}
			reject("unsupported base-package function %s.%s", id.Name, name)
		}
		var l loc
		if cx, ok := f.X.(*ast.CallExpr); ok {
			l = x.evalPtr(s, cx)
		} else {
			l = x.evalLoc(s, f.X)
		}
		recv = &l
	default:
		reject("unsupported call %s", exprStr(c))
	}
	if recv != nil && x.typeAt(s, *recv).base {
		if r, done := x.baseCall(s, *recv, name, c); done {
			return r.l, r.v, r.b
		}
		f, owner := x.p.lookupFn("Element." + name)
		return x.callFn(s, f, owner, "Element."+name, recv, c)
	}
	key := name
	if recv != nil {
		key = x.typeAt(s, *recv).name + "." + name
	}
	if recv != nil && name == "mulWindowed" && len(c.Args) == 2 && x.p.cfg.ext == "" && !x.p.cfg.pairing {
		// `p.mulWindowed(q, &K)` with K a package-level *big.Int (the seed): a PRIMITIVE. The loop over the bits of a big.Int
		// leaves the subset (hand model + K: C03); the call is modelled as `p := mulWindowed_<T>_<K> q` with
		// `mulWindowed_<T>_<K> : T → T` a PARAMETER of the def (threaded through the callers like a package variable) whose
		// specification "represents K • Q" is a hypothesis of the theorems (Props/C02_subgroup*). Assumed, not checked here:
		// the callee writes only its receiver and the new value is a function of *q alone.
		if u, ok := c.Args[1].(*ast.UnaryExpr); ok && u.Op == token.AND {
			if kid, ok := u.X.(*ast.Ident); ok && s.cells[kid.Name] == nil {
				if _, isPtr := s.ptrs[kid.Name]; !isPtr && x.p.globals[kid.Name] == nil {
					rt := x.typeAt(s, *recv)
					ql := x.evalPtr(s, c.Args[0])
					if !x.typeAt(s, ql).same(rt) {
						reject("mulWindowed: argument type differs from the receiver type")
					}
					gname := "mulWindowed_" + rt.name + "_" + kid.Name
					if x.p.globals[gname] == nil {
						x.p.globals[gname] = &global{name: gname, t: &typ{prim: "(" + rt.lean() + " → " + rt.lean() + ")"}, elems: map[int]ast.Expr{}, mutated: true}
					}
					x.globalRoot(s, gname)
					x.def(s, *recv, gname+" "+x.read(get(s.cells[ql.root], ql.path)))
					return recv, nil, ""
				}
			}
		}
	}
	f, owner := x.p.lookupFn(key)
	return x.callFn(s, f, owner, key, recv, c)
}

type baseRes struct {
	l *loc
	b string
	v *val // flag result (extended mode)
}

func (x *tr) baseCall(s *state, dst loc, op string, c *ast.CallExpr) (baseRes, bool) {
	cur := func() string { return x.read(get(s.cells[dst.root], dst.path)) }
	argv := func(i int) string {
		l := x.evalPtr(s, c.Args[i])
		if !x.typeAt(s, l).base {
			reject("argument %d of %s is not a base-field pointer", i, op)
		}
		return x.read(get(s.cells[l.root], l.path))
	}
	if x.p.cfg.ext != "" {
		if r, done := x.extBaseCall(s, dst, op, c); done {
			return r, true
		}
	}
	switch {
	case op == "IsZero" && len(c.Args) == 0:
		x.need("Zero", "DecidableEq")
		return baseRes{b: "decide (" + cur() + " = 0)"}, true
	case op == "IsOne" && len(c.Args) == 0:
		x.need("One", "DecidableEq")
		return baseRes{b: "decide (" + cur() + " = 1)"}, true
	case op == "Equal" && len(c.Args) == 1:
		x.need("DecidableEq")
		return baseRes{b: "decide (" + cur() + " = " + argv(0) + ")"}, true
	case op == "Set" && len(c.Args) == 1:
		l := x.evalPtr(s, c.Args[0])
		x.write(s, dst, get(s.cells[l.root], l.path))
		return baseRes{l: &dst}, true
	case op == "SetZero" && len(c.Args) == 0:
		x.write(s, dst, zeroVal(baseT))
		return baseRes{l: &dst}, true
	case op == "SetOne" && len(c.Args) == 0:
		x.need("One")
		x.write(s, dst, &val{t: baseT, term: "(1 : F)"})
		return baseRes{l: &dst}, true
	case op == "SetUint64" && len(c.Args) == 1 && litInt(c.Args[0]) != nil:
		x.need("NatCast")
		x.write(s, dst, &val{t: baseT, term: fmt.Sprintf("((%s : Nat) : F)", litInt(c.Args[0]))})
		return baseRes{l: &dst}, true
	case op == "Halve" && len(c.Args) == 0:
		x.need("Mul", "Inv", "Add", "One")
		x.def(s, dst, cur()+" * ((1 : F) + 1)⁻¹")
		return baseRes{}, true
	}
	if primArity[op] != len(c.Args) || len(c.Args) == 0 {
		return baseRes{}, false
	}
	var a []string
	for i := range c.Args {
		a = append(a, argv(i))
	}
	rhs, _ := x.prim(op, a)
	x.def(s, dst, rhs)
	return baseRes{l: &dst}, true
}

func proj(i, n int) string {
	switch {
	case n == 1:
		return ""
	case i < n-1:
		return strings.Repeat(".2", i) + ".1"
	}
	return strings.Repeat(".2", n-1)
}

func (x *tr) callFn(s *state, f *fn, owner *pkgCtx, key string, recv *loc, c *ast.CallExpr) (*loc, *val, string) {
	if f == nil {
		reject("call of %s, which is not a function of the package over field-like data", key)
	}
	if f.err != "" {
		reject("call of untranslatable %s (%s)", key, f.err)
	}
	args := c.Args
	np := len(f.pos)
	if recv != nil {
		np--
	}
	if len(args) != np || c.Ellipsis.IsValid() {
		reject("argument count mismatch calling %s", key)
	}
	// evaluate the arguments left to right
	locs := make([]*loc, len(f.pos))
	vals := make([]string, len(f.pos))
	pvMark := len(x.pviews)
	var sp *spec
	roundArg := ""
	if x.p.cfg.ext != "" {
		sp = newSpec()
		if x.v.spec != nil {
			sp.width = x.v.spec.width
		}
	}
	ai := 0
	for i, q := range f.pos {
		switch {
		case i == 0 && recv != nil && q.spec:
			// the specialisation receiver carries no run-time data
		case i == 0 && recv != nil:
			locs[i] = recv
		case q.isBool:
			b, ok := x.staticCond(s, args[ai])
			if !ok {
				reject("non-static bool argument calling %s", key)
			}
			sp.bools[i] = b
			ai++
		case q.isInt && sp != nil:
			if n, ok := x.evalInt(s, args[ai]); ok {
				if row, k, is := x.roundRow(f, q, n); is {
					// slpperm.go: the parameter only selects the round-key row; the callee keeps it opaque and receives the row
					sp.opaque[i], sp.rowLen, roundArg = true, k, row
				} else {
					sp.ints[i] = n
				}
			} else {
				sp.opaque[i] = true
			}
			ai++
		case q.jag:
			v := x.evalVal(s, args[ai])
			if !v.t.jag {
				reject("argument %d of %s is not a table of rows", ai, key)
			}
			sp.arrs[i] = v.t
			vals[i] = x.read(v)
			ai++
		case q.isChan:
			if n, ok := x.evalInt(s, args[ai]); !ok || n != 0 {
				reject("channel argument of %s is not nil", key)
			}
			ai++
		case q.slice:
			l := x.sliceLoc(s, args[ai])
			t := x.typeAt(s, l)
			if !t.arr || !t.ftypes[0].same(q.t) {
				reject("slice argument %d of %s is not an array of the element type", ai, key)
			}
			locs[i] = &l
			sp.arrs[i] = t
			ai++
		case q.isInt:
			n := litInt(args[ai])
			if n == nil {
				if id, ok := args[ai].(*ast.Ident); ok && x.ints[id.Name] {
					vals[i] = id.Name
					x.used[id.Name] = true
				} else {
					reject("non-literal int argument calling %s", key)
				}
			} else {
				vals[i] = n.String()
			}
			ai++
		case q.ptr:
			l := x.evalPtr(s, args[ai])
			locs[i] = &l
			ai++
		default:
			vals[i] = x.read(x.evalVal(s, args[ai]))
			ai++
		}
		if locs[i] != nil && !q.slice && !x.typeAt(s, *locs[i]).same(q.t) {
			reject("argument type mismatch calling %s", key)
		}
	}
	// alias pattern at the call site
	pat := make([]int, len(f.pos))
	nb := 0
	for i := range f.pos {
		pat[i] = -1
		for j := 0; j < i && locs[i] != nil; j++ {
			if locs[j] == nil {
				continue
			}
			if locs[i].eq(*locs[j]) && x.typeAt(s, *locs[i]).same(x.typeAt(s, *locs[j])) {
				pat[i] = pat[j]
				break
			}
			if locs[i].overlaps(*locs[j]) {
				reject("partially overlapping pointer arguments calling %s", key)
			}
		}
		if pat[i] < 0 {
			pat[i] = nb
			nb++
		}
	}
	x.checkViews(pvMark, locs)
	cv := owner.translateSpec(f, pat, sp)
	if cv.err != "" && x.p.cfg.pairing && opaqueName(key) && recv != nil && f.kind == kProc {
		// OPAQUE callee (pairing packages only, fixed exponentiations `Expt*` of the tower whose body leaves the subset:
		// Karabina batch decompression): `z.Expt(&x)` is modelled as `z := opq_E12_Expt x` with `opq_E12_Expt` a PARAMETER
		// of the def. Assumed, not checked: the callee writes only its receiver and the new value is a function of the
		// pointed-to arguments alone (K: C06 `exp` ops, C18/C19 purity).
		name := "opq_" + strings.ReplaceAll(key, ".", "_")
		var at []string
		parts := []string{name}
		for i := 1; i < len(f.pos); i++ {
			if locs[i] == nil {
				reject("call of %s: %s (opaque calls take pointer arguments only)", cv.name, cv.err)
			}
			at = append(at, f.pos[i].t.lean())
			parts = append(parts, x.read(get(s.cells[locs[i].root], locs[i].path)))
		}
		if len(at) == 0 {
			reject("call of %s: %s", cv.name, cv.err)
		}
		x.op[name] = strings.Join(append(at, f.pos[0].t.lean()), " → ")
		x.def(s, *recv, strings.Join(parts, " "))
		return recv, nil, ""
	}
	if cv.err != "" {
		reject("call of %s: %s", cv.name, cv.err)
	}
	if len(cv.oparams) > 0 {
		reject("call of %s, which has opaque function parameters", cv.name)
	}
	for k := range cv.classes {
		x.need(k)
	}
	for k := range cv.prims {
		x.prm[k] = true
	}
	// build the call
	parts := []string{x.p.qual(owner, cv.name)}
	rootLoc := make([]*loc, len(cv.roots))
	for i := range f.pos {
		b := pat[i]
		if rootLoc[b] == nil && locs[i] != nil {
			rootLoc[b] = locs[i]
		}
	}
	for b := range cv.roots {
		if !cv.inUsed[b] {
			continue
		}
		if rootLoc[b] != nil {
			parts = append(parts, x.read(get(s.cells[rootLoc[b].root], rootLoc[b].path)))
		} else {
			for i := range f.pos {
				if pat[i] == b {
					parts = append(parts, vals[i])
				}
			}
		}
	}
	for _, g := range cv.gparams {
		if g == "spec:roundKey" && roundArg != "" {
			x.gp["spec:rc"] = true
			x.v.sparams["rc"] = rcT
			parts = append(parts, roundArg)
			continue
		}
		if strings.HasPrefix(g, "spec:") {
			x.gp[g] = true
			parts = append(parts, g[5:])
			continue
		}
		x.globalRoot(s, g)
		parts = append(parts, x.read(s.cells["g:"+g]))
	}
	for k, t := range cv.sparams {
		x.v.sparams[k] = t
	}
	parts = append(parts, cv.primList()...)
	if len(parts) == 1 {
		parts = append(parts, "(F := F)")
	}
	callTerm := strings.Join(parts, " ")
	if f.kind == kBool {
		return nil, nil, "(" + callTerm + ")"
	}
	// result components: [value] ++ pointer roots
	type comp struct {
		idx int
		l   *loc
	}
	var consumed []comp
	off := cv.nVals()
	for j := 0; j < off; j++ {
		consumed = append(consumed, comp{j, nil})
	}
	k := off
	for b := range cv.roots {
		if !cv.isPtr[b] {
			continue
		}
		if cv.written[b] {
			consumed = append(consumed, comp{k, rootLoc[b]})
		}
		k++
	}
	n := k
	var ret *val
	x.multi = nil
	bind := func(cm comp, term string) {
		if cm.l == nil && f.kind == kMulti {
			x.multi = append(x.multi, &val{t: f.rets[cm.idx], term: term})
		} else if cm.l == nil {
			ret = &val{t: cv.ret, term: term}
		} else {
			x.write(s, *cm.l, &val{t: x.typeAt(s, *cm.l), term: term})
		}
	}
	switch len(consumed) {
	case 0:
	case 1:
		base := "ret"
		if consumed[0].l != nil {
			base = x.locName(s, *consumed[0].l)
		}
		nm := x.fresh(base)
		if p := proj(consumed[0].idx, n); p == "" {
			x.emit(nm, callTerm)
		} else {
			x.emit(nm, "("+callTerm+")"+p)
		}
		bind(consumed[0], nm)
	default:
		nm := x.fresh("r")
		x.emit(nm, callTerm)
		for _, cm := range consumed {
			bind(cm, nm+proj(cm.idx, n))
		}
	}
	x.flushViews(s, pvMark)
	if f.kind == kValue || f.kind == kFlag {
		return nil, ret, ""
	}
	if f.kind == kMulti {
		return nil, nil, ""
	}
	if cv.fresh {
		x.anon++
		n := fmt.Sprintf("new%d", x.anon)
		x.newRoot(s, n, ret)
		return &loc{root: n}, nil, ""
	}
	if cv.retRoot >= 0 {
		return rootLoc[cv.retRoot], nil, ""
	}
	return nil, nil, ""
}

// callees that a pairing package may treat as opaque functions (see callFn)
func opaqueName(key string) bool {
	i := strings.Index(key, ".")
	return i > 0 && strings.HasPrefix(key[:i], "E") && strings.HasPrefix(key[i+1:], "Expt")
}

// ---- statements

func (x *tr) block(s *state, stmts []ast.Stmt) {
	for i, st := range stmts {
		if x.p.cfg.ext != "" {
			switch x.extStmt(s, st, stmts[i+1:]) {
			case 1:
				continue
			case 2:
				return
			}
		}
		switch st := st.(type) {
		case *ast.EmptyStmt:
		case *ast.BlockStmt:
			x.block(s, append(append([]ast.Stmt(nil), st.List...), stmts[i+1:]...))
			return
		case *ast.DeclStmt:
			gd := st.Decl.(*ast.GenDecl)
			if gd.Tok != token.VAR {
				reject("unsupported declaration")
			}
			for _, sp := range gd.Specs {
				vs := sp.(*ast.ValueSpec)
				if vs.Type == nil && len(vs.Names) == 1 && len(vs.Values) == 1 {
					x.newRoot(s, vs.Names[0].Name, x.evalVal(s, vs.Values[0]))
					continue
				}
				if vs.Type == nil || len(vs.Values) != 0 {
					reject("unsupported var declaration")
				}
				t, ptr, _ := x.p.typeOf(x.file, x.v.f.inBase, vs.Type)
				if t == nil || ptr {
					reject("local variable of unsupported type %s", exprStr(vs.Type))
				}
				for _, nm := range vs.Names {
					x.newRoot(s, nm.Name, zeroVal(t))
				}
			}
		case *ast.ExprStmt:
			c, ok := st.X.(*ast.CallExpr)
			if !ok {
				reject("unsupported expression statement")
			}
			if se, ok := c.Fun.(*ast.SelectorExpr); ok && se.Sel.Name == "Do" && len(c.Args) == 1 {
				if id, ok := se.X.(*ast.Ident); ok && x.p.onceVars[id.Name] && s.cells[id.Name] == nil {
					// initOnce.Do(initCurveParams): lazy initialisation of package-level parameters, which are
					// parameters of the Lean defs
					continue
				}
			}
			x.call(s, c)
		case *ast.AssignStmt:
			x.assign(s, st)
		case *ast.ReturnStmt:
			if x.loop > 0 {
				reject("return inside a loop")
			}
			x.ret(s, st)
			return
		case *ast.IfStmt:
			if x.loop > 0 {
				reject("if inside a loop")
			}
			if st.Init != nil {
				reject("if statement with initialiser")
			}
			cnd := x.cond(s, st.Cond)
			if x.p.cfg.ext != "" && (cnd == "true" || cnd == "false") {
				// decided at translation time: only the taken branch exists
				var br []ast.Stmt
				switch e := st.Else.(type) {
				case nil:
				case *ast.BlockStmt:
					br = e.List
				default:
					br = []ast.Stmt{e}
				}
				if cnd == "true" {
					br = st.Body.List
				}
				x.block(s, append(append([]ast.Stmt(nil), br...), stmts[i+1:]...))
				return
			}
			x.out.cond = cnd
			rest := stmts[i+1:]
			outer := x.out
			s2 := s.clone()
			outer.thn = &code{}
			x.out = outer.thn
			x.block(s, append(append([]ast.Stmt(nil), st.Body.List...), rest...))
			outer.els = &code{}
			x.out = outer.els
			var eb []ast.Stmt
			switch e := st.Else.(type) {
			case nil:
			case *ast.BlockStmt:
				eb = e.List
			default:
				eb = []ast.Stmt{e}
			}
			x.block(s2, append(append([]ast.Stmt(nil), eb...), rest...))
			return
		case *ast.ForStmt:
			x.loopStmt(s, st, nil)
		case *ast.RangeStmt:
			x.loopStmt(s, nil, st)
		default:
			reject("unsupported statement %T", st)
		}
	}
	if x.loop == 0 {
		x.ret(s, nil)
	}
}

// `for i := 0; i < N; i++ { straight-line body not mentioning i }` with N a literal or an int parameter:
// Nat.repeat of the body over the tuple of the roots the body writes.
//
// `for _, e := range zs { straight-line body reading *e }` with zs a list parameter (variadic `...*T`): List.foldl of the
// body over the tuple of the roots the body writes; the element cell `e` is read-only.
func (x *tr) loopStmt(s *state, st *ast.ForStmt, rs *ast.RangeStmt) {
	var bound, elem, listTerm string
	var bodyStmt *ast.BlockStmt
	if rs != nil {
		bodyStmt = rs.Body
		if k, ok := rs.Key.(*ast.Ident); rs.Key != nil && (!ok || k.Name != "_") {
			reject("range loop with an index variable")
		}
		ev, ok := rs.Value.(*ast.Ident)
		lid, ok2 := rs.X.(*ast.Ident)
		if !ok || !ok2 || rs.Tok != token.DEFINE || ev.Name == "_" {
			reject("unsupported range loop header")
		}
		lc, isCell := s.cells[lid.Name]
		if !isCell || !lc.t.list || lc.origin != lid.Name {
			reject("range over %s, which is not a list parameter", lid.Name)
		}
		x.used[lid.Name] = true
		elem, listTerm = ev.Name, lid.Name
		// the element: a pointer to a read-only cell named after the loop variable
		x.newRoot(s, "elem:"+elem, &val{t: lc.t.ftypes[0], term: elem})
		if _, dup := s.cells[elem]; dup {
			reject("redeclaration of %s", elem)
		}
		s.ptrs[elem] = loc{root: "elem:" + elem}
		defer func() {
			delete(s.ptrs, elem)
			delete(s.cells, "elem:"+elem)
		}()
	} else {
		bodyStmt = st.Body
		var iv string
		start := new(big.Int) // `for i := a; i < b; i++` with literals a ≤ b runs b − a times (addchain emits `for i := 1; i < 2; i++`)
		if as, ok := st.Init.(*ast.AssignStmt); ok && as.Tok == token.DEFINE && len(as.Lhs) == 1 && litInt(as.Rhs[0]) != nil && litInt(as.Rhs[0]).Sign() >= 0 {
			iv = as.Lhs[0].(*ast.Ident).Name
			start = litInt(as.Rhs[0])
		}
		cnd, _ := st.Cond.(*ast.BinaryExpr)
		inc, _ := st.Post.(*ast.IncDecStmt)
		if iv == "" || cnd == nil || cnd.Op != token.LSS || exprStr(cnd.X) != iv || inc == nil || inc.Tok != token.INC || exprStr(inc.X) != iv {
			reject("unsupported loop header")
		}
		if n := litInt(cnd.Y); n != nil {
			if n.Cmp(start) < 0 {
				reject("loop bound below the start value")
			}
			bound = new(big.Int).Sub(n, start).String()
		} else if id, ok := cnd.Y.(*ast.Ident); ok && x.ints[id.Name] && start.Sign() == 0 {
			bound = id.Name
			x.used[id.Name] = true
		} else {
			reject("loop bound is neither a literal nor an int parameter")
		}
		ast.Inspect(st.Body, func(n ast.Node) bool {
			if id, ok := n.(*ast.Ident); ok && id.Name == iv {
				reject("loop body uses the loop variable")
			}
			return true
		})
	}
	run := func(s0 *state) *code {
		saved := x.out
		x.out = &code{}
		x.loop++
		x.block(s0, bodyStmt.List)
		x.loop--
		c := x.out
		x.out = saved
		return c
	}
	// pass 1 (discarded): which roots does the body write?
	before := s.clone()
	probe := s.clone()
	savedCtr := map[string]int{}
	for k, v := range x.ctr {
		savedCtr[k] = v
	}
	run(probe)
	x.ctr = savedCtr
	var w []string
	for r, v := range probe.cells {
		if old, ok := before.cells[r]; ok && old != v {
			w = append(w, r)
		} else if !ok {
			reject("declaration inside a loop body")
		}
	}
	sort.Strings(w)
	for _, r := range w {
		if strings.HasPrefix(r, "elem:") {
			reject("range loop body writes through the element pointer")
		}
	}
	if len(w) == 0 {
		return
	}
	// pass 2: body as a function of the tuple `st` of those roots
	var init []string
	for i, r := range w {
		init = append(init, x.read(s.cells[r]))
		s.cells[r] = &val{t: s.cells[r].t, term: "st" + proj(i, len(w))}
	}
	body := run(s)
	var res []string
	for _, r := range w {
		res = append(res, x.read(s.cells[r]))
	}
	tuple := func(xs []string) string {
		if len(xs) == 1 {
			return xs[0]
		}
		return "(" + strings.Join(xs, ", ") + ")"
	}
	name := x.fresh("loop")
	if rs != nil {
		x.emit(name, "List.foldl (fun st "+elem+" =>\n    "+strings.Join(append(body.lines, tuple(res)), "\n    ")+") "+tuple(init)+" "+listTerm)
	} else {
		x.emit(name, "Nat.repeat (fun st =>\n    "+strings.Join(append(body.lines, tuple(res)), "\n    ")+") "+bound+" "+tuple(init))
	}
	for i, r := range w {
		s.cells[r] = &val{t: s.cells[r].t, term: name + proj(i, len(w))}
		x.wr[r] = true
	}
}

func (x *tr) assign(s *state, st *ast.AssignStmt) {
	if x.p.cfg.ext != "" && x.extAssign(s, st) {
		return
	}
	if len(st.Lhs) != len(st.Rhs) {
		reject("unsupported assignment")
	}
	switch st.Tok {
	case token.DEFINE:
		if len(st.Lhs) != 1 {
			reject("unsupported multi-define")
		}
		id, ok := st.Lhs[0].(*ast.Ident)
		if !ok {
			reject("unsupported define")
		}
		rhs := st.Rhs[0]
		if u, ok := rhs.(*ast.UnaryExpr); ok && u.Op == token.AND {
			l := x.evalPtr(s, rhs)
			if _, dup := s.cells[id.Name]; dup {
				reject("redeclaration of %s", id.Name)
			}
			s.ptrs[id.Name] = l
			return
		}
		if c, ok := rhs.(*ast.CallExpr); ok {
			if fid, ok := c.Fun.(*ast.Ident); ok && fid.Name == "new" && x.p.funcs["new"] == nil {
				l := x.evalPtr(s, c)
				if _, dup := s.cells[id.Name]; dup {
					reject("redeclaration of %s", id.Name)
				}
				s.ptrs[id.Name] = l
				return
			}
			l, v, _ := x.call(s, c)
			switch {
			case l != nil:
				s.ptrs[id.Name] = *l
			case v != nil:
				x.newRoot(s, id.Name, v)
			default:
				reject("unsupported define from call %s", exprStr(c))
			}
			return
		}
		x.newRoot(s, id.Name, x.evalVal(s, rhs))
	case token.ASSIGN:
		var vs []*val
		for _, r := range st.Rhs {
			vs = append(vs, x.evalVal(s, r))
		}
		var ls []loc
		for _, l := range st.Lhs {
			if id, ok := l.(*ast.Ident); ok {
				if _, isPtr := s.ptrs[id.Name]; isPtr {
					reject("assignment to pointer variable %s", id.Name)
				}
			}
			ls = append(ls, x.evalLoc(s, l))
		}
		for i := range ls {
			x.write(s, ls[i], vs[i])
		}
	default:
		reject("unsupported assignment operator %s", st.Tok)
	}
}

func (x *tr) ret(s *state, st *ast.ReturnStmt) {
	f := x.v.f
	var first string
	switch {
	case f.errRes:
		// the error result: only `return nil` may be reachable (the def has no error component; the theorem states when the
		// Go function returns an error, from the conditions the translator decided)
		if st == nil || len(st.Results) != 1 {
			reject("missing return value")
		}
		if id, ok := st.Results[0].(*ast.Ident); !ok || id.Name != "nil" || s.cells["nil"] != nil {
			reject("reaches return %s (an error)", exprStr(st.Results[0]))
		}
	case st == nil || len(st.Results) == 0:
		if f.decl.Type.Results != nil {
			reject("missing return value")
		}
	case f.kind == kBool:
		x.out.result = x.cond(s, st.Results[0])
		for r := range x.paramRoot {
			if x.wr[r] {
				reject("bool function writes through a pointer parameter")
			}
		}
		return
	case f.kind == kMulti:
		if len(st.Results) != len(f.rets) {
			reject("return count mismatch")
		}
		var ps []string
		for i, r := range st.Results {
			v := x.evalVal(s, r)
			if !v.t.same(f.rets[i]) {
				reject("return type mismatch")
			}
			ps = append(ps, x.read(v))
		}
		first = strings.Join(ps, ", ")
	case f.kind == kValue || f.kind == kFlag:
		v := x.evalVal(s, st.Results[0])
		if !v.t.same(f.ret) {
			reject("return type mismatch")
		}
		first = x.read(v)
	default:
		l := x.evalPtr(s, st.Results[0])
		if _, isParam := x.paramRoot[l.root]; !isParam && len(l.path) == 0 && !strings.HasPrefix(l.root, "g:") && x.v.retRoot < 0 {
			// pointer to a fresh local / literal: the function allocates its result
			x.v.fresh, x.v.ret = true, s.cells[l.root].t
			first = x.read(s.cells[l.root])
			break
		}
		if x.v.fresh {
			reject("returns sometimes a fresh and sometimes a parameter pointer")
		}
		ri := -1
		for i, r := range x.v.roots {
			if r == l.root && len(l.path) == 0 && x.v.isPtr[i] {
				ri = i
			}
		}
		if ri < 0 || (x.v.retRoot >= 0 && x.v.retRoot != ri) {
			reject("returned pointer is not one fixed parameter")
		}
		x.v.retRoot = ri
	}
	var parts []string
	if first != "" {
		parts = append(parts, first)
	}
	for i, r := range x.v.roots {
		if x.v.isPtr[i] {
			parts = append(parts, x.read(s.cells[r]))
		}
	}
	switch len(parts) {
	case 0:
		reject("function has no field-like result")
	case 1:
		x.out.result = parts[0]
		if f.kind == kMulti {
			x.out.result = "(" + parts[0] + ")"
		}
	default:
		x.out.result = "(" + strings.Join(parts, ", ") + ")"
	}
}

// ---------------------------------------------------------------- translating one (function, pattern)

func (p *pkgCtx) translate(f *fn, pat []int) *variant { return p.translateSpec(f, pat, nil) }

func (p *pkgCtx) translateSpec(f *fn, pat []int, sp *spec) *variant {
	name := leanFn(f.key) + sp.suffix(f) + f.patName(pat)
	if v := p.variants[name]; v != nil {
		if v.busy {
			v.err = "recursive call"
		}
		return v
	}
	v := &variant{f: f, pat: pat, name: name, classes: map[string]bool{}, retRoot: -1, busy: true, ret: f.ret, spec: sp, prims: map[string]bool{}, sparams: map[string]*typ{}}
	p.variants[name] = v
	blockName := map[int]string{}
	for i, q := range f.pos {
		blockName[pat[i]] += q.name
	}
	seen := map[int]bool{}
	for i, q := range f.pos {
		if seen[pat[i]] {
			continue
		}
		seen[pat[i]] = true
		v.roots = append(v.roots, blockName[pat[i]])
		if q.slice || q.jag {
			v.rtypes = append(v.rtypes, sp.arrs[i])
		} else {
			v.rtypes = append(v.rtypes, q.t)
		}
		v.isPtr = append(v.isPtr, q.ptr)
	}
	x := &tr{p: p, v: v, file: p.fileOf[f.decl], ints: map[string]bool{}, paramRoot: map[string]bool{}, ctr: map[string]int{}, used: map[string]bool{}, wr: map[string]bool{}, gp: map[string]bool{}, op: map[string]string{}, out: &code{},
		prm: v.prims, loopSnap: map[*ast.ForStmt]map[string]bool{}}
	v.body = x.out
	func() {
		defer func() {
			if r := recover(); r != nil {
				e, ok := r.(slpErr)
				if !ok {
					panic(r)
				}
				v.err = string(e)
			}
		}()
		if f.err != "" {
			reject("%s", f.err)
		}
		s := &state{cells: map[string]*val{}, ptrs: map[string]loc{}}
		if p.cfg.ext != "" {
			s.sints, s.sbools, s.bigs = map[string]int64{}, map[string]bool{}, map[string]*big.Int{}
			x.extNamedResults(s)
		}
		if p.cfg.ext == "fft" {
			s.views = map[string]view{}
		}
		for i, q := range f.pos {
			r := blockName[pat[i]]
			x.paramRoot[r] = true
			switch {
			case q.spec:
				if p.cfg.ext == "fft" && sp != nil && sp.top != "" {
					// the Domain receiver of FFT / FFTInverse: size and precompute flag are fixed by the specialisation
					s.sbools[q.name+".withPrecompute"] = sp.pre
					s.sints[q.name+".Cardinality"] = sp.card
				}
			case q.isOpts:
			case q.isBool:
				s.sbools[q.name] = sp.bools[i]
			case q.isInt && sp != nil:
				if n, ok := sp.ints[i]; ok {
					s.sints[q.name] = n
				}
			case q.isChan:
				s.sints[q.name] = 0 // nil
			case q.jag:
				s.cells[r] = &val{t: sp.arrs[i], term: leanParam(r), origin: r}
			case q.slice:
				if _, ok := s.cells[r]; !ok {
					s.cells[r] = &val{t: sp.arrs[i], term: leanParam(r), origin: r}
				}
				s.ptrs[q.name] = loc{root: r}
			case q.isInt:
				x.ints[q.name] = true
			case q.ptr:
				if _, ok := s.cells[r]; !ok {
					s.cells[r] = &val{t: q.t, term: leanParam(r), origin: r}
				}
				s.ptrs[q.name] = loc{root: r}
			default:
				s.cells[r] = &val{t: q.t, term: leanParam(r), origin: r}
			}
		}
		x.block(s, f.decl.Body.List)
	}()
	for _, r := range v.roots {
		v.inUsed = append(v.inUsed, x.used[r])
		v.written = append(v.written, x.wr[r])
	}
	for g := range x.gp {
		v.gparams = append(v.gparams, g)
	}
	sort.Strings(v.gparams)
	v.otypes = x.op
	for o := range x.op {
		v.oparams = append(v.oparams, o)
	}
	sort.Strings(v.oparams)
	v.busy = false
	if v.err == "" {
		p.order = append(p.order, v)
	}
	return v
}

// ---------------------------------------------------------------- constants

func (p *pkgCtx) constOf(g *global) bool {
	if g.mutated {
		return false
	}
	if p.constSet[g.name] {
		return true
	}
	// evaluate the literal with a throw-away translator (only literals are allowed inside)
	x := &tr{p: p, v: &variant{f: &fn{inBase: g.inBase}, classes: map[string]bool{}}, ctr: map[string]int{}, used: map[string]bool{}, wr: map[string]bool{}, gp: map[string]bool{}, out: &code{}}
	for f, q := range p.baseQual {
		if q != "" {
			x.file = f
		}
	}
	ok := true
	var term string
	func() {
		defer func() {
			if r := recover(); r != nil {
				if _, is := r.(slpErr); !is {
					panic(r)
				}
				ok = false
			}
		}()
		s := &state{cells: map[string]*val{}, ptrs: map[string]loc{}}
		var v *val
		switch {
		case g.lit != nil:
			cl, is := g.lit.(*ast.CompositeLit)
			if !is {
				reject("not a literal")
			}
			v = x.compositeOf(s, g.t, cl)
		case g.t.arr && g.lit == nil && len(g.elems) == 0 && len(g.uelems) == len(g.t.fields) && len(g.uelems) > 0:
			v = &val{t: g.t}
			for i := range g.t.fields {
				k, ok := g.uelems[i]
				if !ok {
					reject("element %d not set", i)
				}
				x.need("NatCast")
				v.kids = append(v.kids, &val{t: baseT, term: fmt.Sprintf("((%s : Nat) : F)", k)})
			}
		case g.t.arr && len(g.elems) == len(g.t.fields):
			v = &val{t: g.t}
			for i := range g.t.fields {
				v.kids = append(v.kids, x.compositeOf(s, g.t.ftypes[i], g.elems[i].(*ast.CompositeLit)))
			}
		default:
			reject("no literal initialiser")
		}
		term = x.read(v)
	}()
	if !ok || len(x.out.lines) > 0 || len(x.gp) > 0 {
		return false
	}
	p.constSet[g.name] = true
	p.consts = append(p.consts, fmt.Sprintf("def %s {F : Type} [NatCast F]%s : %s :=\n  %s\n", leanGlobal(g), zeroInst(term), g.t.lean(), term))
	return true
}

func zeroInst(term string) string {
	if strings.Contains(term, "(0 : F)") {
		return " [Zero F]"
	}
	return ""
}

// ---------------------------------------------------------------- Lean output

var classOrder = []string{"Add", "Sub", "Mul", "Neg", "Zero", "One", "Inv", "NatCast", "DecidableEq"}

// classes whose binder is not `[_root_.C F]`
var classBinder = map[string]string{"HPow": " [_root_.HPow F Nat F]"}

func (v *variant) resultType() string {
	var parts []string
	if v.f.kind == kBool {
		return "Bool"
	}
	if v.f.kind == kMulti {
		for _, t := range v.f.rets {
			parts = append(parts, t.lean())
		}
	} else if v.hasVal() || v.f.kind == kFlag {
		parts = append(parts, v.ret.lean())
	}
	for i := range v.roots {
		if v.isPtr[i] {
			parts = append(parts, v.rtypes[i].lean())
		}
	}
	return strings.Join(parts, " × ")
}

func (v *variant) binders(p *pkgCtx) string {
	var b strings.Builder
	for i, r := range v.roots {
		if v.inUsed[i] && v.rtypes[i] == nil {
			fmt.Fprintf(&b, " (%s : Nat)", r)
		} else if v.inUsed[i] {
			fmt.Fprintf(&b, " (%s : %s)", leanParam(r), v.rtypes[i].lean())
		}
	}
	for _, g := range v.gparams {
		if strings.HasPrefix(g, "spec:") {
			fmt.Fprintf(&b, " (%s : %s)", g[5:], v.sparams[g[5:]].lean())
			continue
		}
		gl, _ := p.global(g)
		fmt.Fprintf(&b, " (%s : %s)", g, gl.t.lean())
	}
	for _, o := range v.oparams {
		fmt.Fprintf(&b, " (%s : %s)", o, v.otypes[o])
	}
	for _, k := range primOrder {
		if v.prims[k] {
			fmt.Fprintf(&b, " (%s : %s)", k, primType[k])
		}
	}
	return b.String()
}

func (v *variant) instBinders(more ...*variant) string {
	s := "{F : Type}"
	for _, c := range classOrder {
		need := v.classes[c]
		for _, m := range more {
			need = need || m.classes[c]
		}
		if need {
			s += " [_root_." + c + " F]" // _root_: inside `def E2.Add` the bare name `Add` would be E2.Add itself
		}
	}
	if v.classes["HPow"] {
		s += classBinder["HPow"]
	}
	return s
}

func writeCode(b *strings.Builder, c *code, ind string) {
	for _, l := range c.lines {
		b.WriteString(ind + strings.ReplaceAll(l, "\n", "\n"+ind) + "\n")
	}
	if c.cond != "" {
		b.WriteString(ind + "if " + c.cond + " then\n")
		writeCode(b, c.thn, ind+"  ")
		b.WriteString(ind + "else\n")
		writeCode(b, c.els, ind+"  ")
		return
	}
	b.WriteString(ind + c.result + "\n")
}

func modName(n string) string { return strings.ToUpper(n[:1]) + n[1:] }

func (p *pkgCtx) emit() {
	var b strings.Builder
	imp, open := "", ""
	if p.parent != nil {
		imp = "import GnarkVerif.Gen." + p.parent.cfg.sub() + "." + modName(p.parent.cfg.name) + "\n"
		for q := p.parent; q != nil; q = q.parent {
			open += "open " + q.cfg.ns() + "\n"
		}
	}
	if p.cfg.ext != "" {
		imp += "import GnarkVerif.Model.GoInt\n"
		open += "set_option maxRecDepth 16384\n"
	}
	fmt.Fprintf(&b, "%s/- GENERATED by tools/goslp (slp.go) from /repo/%s on every run. DO NOT EDIT.\n   One def per (function, alias pattern); see Gen/%s/summary.json for what was not translatable. -/\nset_option linter.unusedVariables false\nnamespace %s\n%s\n", imp, p.cfg.dir, p.cfg.sub(), p.cfg.ns(), open)
	// array structures, then the package's structures in dependency order
	var ak []string
	sizes := map[string]bool{}
	for q := p.parent; q != nil && p.cfg.pairing; q = q.parent {
		// array structures declared by an ancestor are reused (the ancestors' namespaces are open)
		for _, t := range q.arrays {
			sizes[t.name] = true
		}
	}
	for _, t := range p.arrays {
		if !sizes[t.name] && !t.fun {
			sizes[t.name] = true
			ak = append(ak, t.name)
		}
	}
	sort.Slice(ak, func(i, j int) bool { return len(ak[i]) < len(ak[j]) || len(ak[i]) == len(ak[j]) && ak[i] < ak[j] })
	for _, n := range ak {
		k, _ := strconv.Atoi(n[3:])
		fmt.Fprintf(&b, "@[ext] structure %s (α : Type) where\n", n)
		for i := 0; i < k; i++ {
			fmt.Fprintf(&b, "  e%d : α\n", i)
		}
		b.WriteString("deriving DecidableEq\n\n")
		if p.cfg.ext != "" {
			es := make([]string, k)
			for i := range es {
				es[i] = fmt.Sprintf("a.e%d", i)
			}
			fmt.Fprintf(&b, "def %s.toList {α : Type} (a : %s α) : List α := [%s]\n\n", n, n, strings.Join(es, ", "))
		}
	}
	done := map[string]bool{}
	var emitT func(t *typ)
	emitT = func(t *typ) {
		for q := p.parent; q != nil; q = q.parent {
			if q.structs[t.name] == t {
				return
			}
		}
		if t.base || done[t.name] {
			return
		}
		for _, ft := range t.ftypes {
			emitT(ft)
		}
		if t.arr || t.list {
			return
		}
		done[t.name] = true
		fmt.Fprintf(&b, "@[ext] structure %s (F : Type) where\n", t.name)
		for i, f := range t.fields {
			fmt.Fprintf(&b, "  %s : %s\n", f, t.ftypes[i].lean())
		}
		if t.jag {
			b.WriteString("\n") // rows may be functions of the index
			return
		}
		b.WriteString("deriving DecidableEq\n\n")
	}
	var sn []string
	for n := range p.structs {
		sn = append(sn, n)
	}
	sort.Strings(sn)
	for _, n := range sn {
		emitT(p.structs[n])
	}
	for _, c := range p.consts {
		b.WriteString(c + "\n")
	}
	main := p.order
	if p.topFrom > 0 {
		main = p.order[:p.topFrom]
	}
	for _, v := range main {
		fmt.Fprintf(&b, "def %s %s%s : %s :=\n", v.name, v.instBinders(), v.binders(p), v.resultType())
		writeCode(&b, v.body, "  ")
		b.WriteString("\n")
	}
	fmt.Fprintf(&b, "end %s\n", p.cfg.ns())
	writeFile(p.cfg.sub()+"/"+modName(p.cfg.name)+".lean", b.String())
	if p.topFrom > 0 {
		p.emitTop(p.order[p.topFrom:])
	}
}

// alias + frame theorems (C19 material); proved by the tactics of Proofs/AliasTac.lean
func (p *pkgCtx) emitAlias() (nAlias, nFrame, nAmbiguous int) {
	var b strings.Builder
	open := ""
	if p.parent != nil {
		open = "open " + p.parent.cfg.ns() + "\n"
		fmt.Fprintf(&b, "import GnarkVerif.Gen.%s.%sAlias\n", p.parent.cfg.sub(), modName(p.parent.cfg.name))
	}
	fmt.Fprintf(&b, "/- GENERATED by tools/goslp (slp.go). DO NOT EDIT. Alias / frame theorems for Gen/%s/%s.lean:\n   f_π on merged values = the non-aliased f on equal values; cells never written keep their value. -/\nimport GnarkVerif.Gen.%s.%s\nimport GnarkVerif.Proofs.AliasTac\nset_option linter.unusedVariables false\nset_option linter.style.nameCheck false\nnamespace %s\n%s\n", p.cfg.sub(), modName(p.cfg.name), p.cfg.sub(), modName(p.cfg.name), p.cfg.ns(), open)
	for _, v := range p.order {
		base := p.variants[leanFn(v.f.key)]
		if v.f.kind == kBool {
			// Bool-valued functions write nothing: the aliased variant is the base def on duplicated arguments
			if v != base && base != nil && base.err == "" {
				bcall := base.callOn(p, func(bi int) string {
					for i := range v.f.pos {
						if base.pat[i] == base.patOfRoot(bi) {
							return v.roots[v.blockIndex(i)]
						}
					}
					return "?"
				})
				fmt.Fprintf(&b, "@[gv_alias] theorem %s_alias %s %s : %s = %s := by gv_alias %s %s\n", v.name, v.instBinders(base), strings.TrimSpace(v.binders(p)), v.callOn(p, nil), bcall, v.name, base.name)
				p.nBoolAlias++
			}
			continue
		}
		n := v.nComp()
		off := 0
		if v.hasVal() {
			off = 1
		}
		args := strings.TrimSpace(v.binders(p))
		call := v.callOn(p, nil)
		// frame: roots never written
		k := off
		for i, r := range v.roots {
			if !v.isPtr[i] {
				continue
			}
			if !v.written[i] {
				fmt.Fprintf(&b, "@[gv_alias] theorem %s_keeps_%s %s %s : (%s)%s = %s := by gv_frame %s\n", v.name, r, v.instBinders(), args, call, proj(k, n), r, v.name)
				nFrame++
			}
			k++
		}
		if v == base || base == nil || base.err != "" {
			continue
		}
		// alias: compare with the base pattern applied to duplicated arguments
		bn := base.nComp()
		posRoot := func(i int) string { return v.roots[v.blockIndex(i)] }
		bcall := base.callOn(p, func(bi int) string {
			for i := range v.f.pos {
				if base.pat[i] == base.patOfRoot(bi) {
					return posRoot(i)
				}
			}
			return "?"
		})
		var comps []string
		if off == 1 {
			comps = append(comps, "("+bcall+")"+proj(0, bn))
		}
		ambiguous := false
		for bi := range v.roots {
			if !v.isPtr[bi] {
				continue
			}
			var wpos []int
			for i := range v.f.pos {
				if v.blockIndex(i) == bi && base.written[base.blockIndex(i)] {
					wpos = append(wpos, i)
				}
			}
			switch len(wpos) {
			case 0:
				comps = append(comps, v.roots[bi])
			case 1:
				comps = append(comps, "("+bcall+")"+proj(off+base.ptrIndex(base.blockIndex(wpos[0])), bn))
			default:
				ambiguous = true
			}
		}
		if ambiguous {
			fmt.Fprintf(&b, "-- %s: two written positions are merged, no reference value\n", v.name)
			nAmbiguous++
			continue
		}
		rhs := comps[0]
		if len(comps) > 1 {
			rhs = "(" + strings.Join(comps, ", ") + ")"
		}
		if knownAliasFinding(p.cfg.name, v.name) {
			fmt.Fprintf(&b, "-- KNOWN-FINDING (slp_known.txt), does NOT hold: theorem %s_alias %s : %s = %s\n", v.name, args, call, rhs)
			p.known = append(p.known, v.name)
			continue
		}
		fmt.Fprintf(&b, "@[gv_alias] theorem %s_alias %s %s : %s = %s := by gv_alias %s %s\n", v.name, v.instBinders(base), args, call, rhs, v.name, base.name)
		nAlias++
	}
	fmt.Fprintf(&b, "\nend %s\n", p.cfg.ns())
	writeFile(p.cfg.sub()+"/"+modName(p.cfg.name)+"Alias.lean", b.String())
	return
}

func (v *variant) hasVal() bool { return v.f.kind == kValue || v.fresh }

// number of value components in front of the pointer roots
func (v *variant) nVals() int {
	switch {
	case v.f.kind == kMulti:
		return len(v.f.rets)
	case v.hasVal() || v.f.kind == kFlag:
		return 1
	}
	return 0
}

func (v *variant) nComp() int {
	n := 0
	if v.hasVal() {
		n = 1
	}
	for i := range v.roots {
		if v.isPtr[i] {
			n++
		}
	}
	return n
}

// index of the root that position i belongs to
func (v *variant) blockIndex(i int) int {
	seen := map[int]int{}
	for j := range v.pat {
		if _, ok := seen[v.pat[j]]; !ok {
			seen[v.pat[j]] = len(seen)
		}
	}
	return seen[v.pat[i]]
}

func (v *variant) patOfRoot(bi int) int {
	for i := range v.pat {
		if v.blockIndex(i) == bi {
			return v.pat[i]
		}
	}
	return -1
}

// index of root bi among the pointer roots (= component index without the value offset)
func (v *variant) ptrIndex(bi int) int {
	k := 0
	for i := 0; i < bi; i++ {
		if v.isPtr[i] {
			k++
		}
	}
	return k
}

func (v *variant) callOn(p *pkgCtx, arg func(bi int) string) string {
	parts := []string{v.name}
	for i, r := range v.roots {
		if v.inUsed[i] {
			if arg != nil {
				parts = append(parts, arg(i))
			} else {
				parts = append(parts, r)
			}
		}
	}
	parts = append(parts, v.gparams...)
	return strings.Join(parts, " ")
}

// executable table (search step / correspondence of the translator itself): every def instantiated at the
// core-only field `ZModQ q`, arguments and results flattened to lists of base-field values.
// Input layout : every root (alias block) in order of first occurrence, flattened in Go field order.
// Output layout: the value result (if any) followed by every pointer-reachable root.
func (p *pkgCtx) emitExec(ops *strings.Builder) {
	var b strings.Builder
	m := modName(p.cfg.name)
	fmt.Fprintf(&b, "/- GENERATED by tools/goslp (slp.go). DO NOT EDIT. Gen/Tower/%s.lean evaluated on numbers (core-only). -/\nimport GnarkVerif.Model.ZModQ\nimport GnarkVerif.Gen.Tower.%s\nset_option linter.unusedVariables false\nnamespace GV.Gen.Tower.%s\nopen GV\n\n", m, m, p.cfg.name)
	flat := func(t *typ, binder string) {
		var to, take, mk []string
		for i, f := range t.fields {
			to = append(to, "Flat.toL x."+f)
			take = append(take, fmt.Sprintf("let (a%d, xs) := Flat.take xs", i))
			mk = append(mk, fmt.Sprintf("a%d", i))
		}
		fmt.Fprintf(&b, "instance %s : Flat %s where\n  toL x := %s\n  take xs :=\n    %s\n    (⟨%s⟩, xs)\n\n", binder, t.lean(), strings.Join(to, " ++ "), strings.Join(take, "\n    "), strings.Join(mk, ", "))
	}
	doneArr := map[string]bool{}
	var arrs []*typ
	for _, t := range p.arrays {
		if !doneArr[t.name] {
			doneArr[t.name] = true
			arrs = append(arrs, &typ{arr: true, name: t.name, fields: t.fields, ftypes: []*typ{{name: "α"}}})
		}
	}
	sort.Slice(arrs, func(i, j int) bool { return len(arrs[i].fields) < len(arrs[j].fields) })
	for _, t := range arrs {
		to := make([]string, len(t.fields))
		for i, f := range t.fields {
			to[i] = "Flat.toL x." + f
		}
		var take, mk []string
		for i := range t.fields {
			take = append(take, fmt.Sprintf("let (a%d, xs) := Flat.take xs", i))
			mk = append(mk, fmt.Sprintf("a%d", i))
		}
		fmt.Fprintf(&b, "instance {α : Type} [Flat α] : Flat (%s α) where\n  toL x := %s\n  take xs :=\n    %s\n    (⟨%s⟩, xs)\n\n", t.name, strings.Join(to, " ++ "), strings.Join(take, "\n    "), strings.Join(mk, ", "))
	}
	done := map[string]bool{}
	var rec func(t *typ)
	rec = func(t *typ) {
		if t.base || done[t.name] {
			return
		}
		for _, ft := range t.ftypes {
			rec(ft)
		}
		if t.arr {
			return
		}
		done[t.name] = true
		flat(t, "{F : Type} [Flat F]")
	}
	var sn []string
	for n := range p.structs {
		sn = append(sn, n)
	}
	sort.Strings(sn)
	for _, n := range sn {
		rec(p.structs[n])
	}
	fmt.Fprintf(&b, "/-- the base field of %s -/\nabbrev K := ZModQ %s\n\n", p.cfg.baseDir, p.fc.modulus)
	var table []string
	for _, v := range p.order {
		if len(v.gparams) > 0 {
			continue
		}
		var lets, args []string
		var types []string
		for i, r := range v.roots {
			ty := "Nat"
			if v.rtypes[i] != nil {
				ty = strings.ReplaceAll(v.rtypes[i].lean(), " F", " K")
				if v.rtypes[i].base {
					ty = "K"
				}
				types = append(types, v.rtypes[i].goName())
			} else {
				types = append(types, "int")
			}
			lets = append(lets, fmt.Sprintf("let (%s, xs) := Flat.take (α := %s) xs", r, ty))
			if v.inUsed[i] {
				args = append(args, r)
			}
		}
		call := v.name
		if len(args) == 0 {
			call += " (F := K)"
		} else {
			call += " " + strings.Join(args, " ")
		}
		// one def per entry (a single big table makes the code generator time out)
		xn := "x_" + strings.ReplaceAll(v.name, ".", "_")
		fmt.Fprintf(&b, "@[noinline] def %s (xs : List Nat) : List Nat :=\n  %s\n  Flat.toL (%s)\n\n", xn, strings.Join(append(lets, "let _ := xs"), "\n  "), call)
		table = append(table, fmt.Sprintf("  (\"%s\", %s)", v.name, xn))
		// op description for the harness: only exported methods of exported types are reachable by reflection
		if d := v.f.decl; d.Recv != nil && d.Name.IsExported() && !v.f.inBase && !v.f.pos[0].t.base {
			pat := make([]string, len(v.pat))
			seen := map[int]int{}
			for i, q := range v.pat {
				if _, ok := seen[q]; !ok {
					seen[q] = len(seen)
				}
				pat[i] = strconv.Itoa(seen[q])
			}
			fmt.Fprintf(ops, "%s %s %s %s %s\n", p.cfg.name, v.name, v.f.key, strings.Join(pat, ","), strings.Join(types, ","))
		}
	}
	fmt.Fprintf(&b, "def execTable : List (String × (List Nat → List Nat)) := [\n%s]\n\n", strings.Join(table, ",\n"))
	fmt.Fprintf(&b, "def exec (name : String) (xs : List Nat) : Option (List Nat) := (execTable.lookup name).map (· xs)\n\nend GV.Gen.Tower.%s\n", p.cfg.name)
	writeFile("Tower/"+m+"Exec.lean", b.String())
}

func (t *typ) goName() string {
	switch {
	case t.base:
		return "Element"
	case t.arr:
		return fmt.Sprintf("[%d]%s", len(t.fields), t.ftypes[0].goName())
	}
	return t.name
}

// ---------------------------------------------------------------- driver

var slpPrintTargets = false

func init() {
	flag.BoolVar(&slpPrintTargets, "slp-print-targets", false, "print the list of translated functions (to refresh slp_targets.txt)")
}

// translated methods that read the prior value of a receiver they also write (see process)
var receiverReads []string

func emitReceiverReads() {
	sort.Strings(receiverReads)
	var b strings.Builder
	b.WriteString("/- GENERATED by tools/goslp (slp.go). DO NOT EDIT. Translated methods (non-aliased pattern) whose body reads the prior value of\n   the receiver it writes: for every OTHER translated method the regenerated def has no receiver parameter, i.e. the result is a\n   function of the operands alone. Compared with the committed expectation by Props/C19_recv.lean. -/\nnamespace GV.Gen\ndef receiverReads : List String := [\n")
	for i, r := range receiverReads {
		sep := ","
		if i == len(receiverReads)-1 {
			sep = ""
		}
		fmt.Fprintf(&b, "  %q%s\n", r, sep)
	}
	b.WriteString("]\nend GV.Gen\n")
	if err := os.WriteFile(filepath.Join(outDir, "ReceiverReads.lean"), []byte(b.String()), 0o644); err != nil {
		die("%v", err)
	}
}

func runSLP() {
	type pkgSummary struct {
		Translated   []string          `json:"translated"`
		Variants     int               `json:"variants"`
		Untranslated map[string]string `json:"untranslated"`
		AliasThms    int               `json:"alias_theorems"`
		FrameThms    int               `json:"frame_theorems"`
		Ambiguous    int               `json:"alias_ambiguous"`
		BoolAlias    int               `json:"bool_alias_theorems"`
		ReducedAlias []string          `json:"alias_patterns_reduced"`
		Opaque       map[string]string `json:"opaque_callees,omitempty"`
		KnownAlias   []string          `json:"alias_known_findings"`
	}
	summary := map[string]*pkgSummary{}
	want := map[string]bool{}
	for _, l := range strings.Split(slpTargets, "\n") {
		if l = strings.TrimSpace(l); l != "" && !strings.HasPrefix(l, "#") {
			want[l] = true
		}
	}
	var all []string
	var failures []string
	var ops strings.Builder
	curveSummary := map[string]*pkgSummary{}
	// translate every function of a loaded package under every alias pattern
	pairingSummary := map[string]*pkgSummary{}
	process := func(p *pkgCtx, label string) *pkgSummary {
		ps := &pkgSummary{Untranslated: map[string]string{}}
		for _, k := range p.fnOrder {
			f := p.funcs[k]
			parts := f.partitions()
			base := p.translate(f, parts[0])
			if base.err != "" {
				ps.Untranslated[k] = base.err
				if want[label+" "+k] {
					failures = append(failures, fmt.Sprintf("%s %s: %s", label, k, base.err))
				}
				continue
			}
			ps.Translated = append(ps.Translated, k)
			all = append(all, label+" "+k)
			// methods whose result depends on the PRIOR value of the receiver (non-aliased pattern): reported to Lean
			// (Gen/ReceiverReads.lean) and compared there with the committed expectation (Props/C19_recv.lean)
			if f.decl.Recv != nil && len(f.pos) > 0 && f.pos[0].ptr && !f.pos[0].spec && len(base.inUsed) > 0 && base.inUsed[0] && base.written[0] {
				receiverReads = append(receiverReads, label+" "+k)
			}
			reduced := len(parts) > maxPatterns
			if reduced {
				ps.ReducedAlias = append(ps.ReducedAlias, k)
			}
			if p.cfg.pairing {
				continue // step functions: the non-aliased pattern only
			}
			for _, pat := range parts[1:] {
				if reduced && !mergesWritten(base, pat) {
					continue
				}
				if v := p.translate(f, pat); v.err != "" {
					ps.Untranslated[v.name] = v.err
				}
			}
		}
		return ps
	}
	finish := func(p *pkgCtx, ps *pkgSummary, label string) {
		p.emit()
		if !p.cfg.pairing {
			ps.AliasThms, ps.FrameThms, ps.Ambiguous = p.emitAlias()
		}
		if !p.cfg.curve {
			p.emitExec(&ops)
		}
		ps.Variants = len(p.order)
		for _, v := range p.order {
			for _, o := range v.oparams {
				if ps.Opaque == nil {
					ps.Opaque = map[string]string{}
				}
				ps.Opaque[v.name+": "+o] = v.otypes[o]
			}
		}
		ps.BoolAlias = p.nBoolAlias
		ps.KnownAlias = p.known
		fmt.Fprintf(os.Stderr, "gvgoslp: %-22s %3d functions translated (%d defs), %d untranslatable\n", label, len(ps.Translated), ps.Variants, len(ps.Untranslated))
	}
	curvesOf := func(tower string, parent *pkgCtx) {
		for _, cc := range curvePkgs {
			if cc.tower != tower {
				continue
			}
			if _, err := os.Stat(filepath.Join(repo, cc.dir)); err != nil {
				die("curve package %s not found", cc.dir)
			}
			cp := loadPkg(cc, parent)
			label := "curve/" + cc.name
			cs := process(cp, label)
			curveSummary[cc.name] = cs
			// the pairing package over this curve package first: it may instantiate further alias patterns
			for _, pc := range pairingPkgs {
				if pc.name != cc.name {
					continue
				}
				pp := loadPkg(pc, cp)
				plabel := "pairing/" + pc.name
				pps := process(pp, plabel)
				pairingSummary[pc.name] = pps
				finish(pp, pps, plabel)
			}
			finish(cp, cs, label)
		}
	}
	for _, cfg := range towerPkgs {
		if _, err := os.Stat(filepath.Join(repo, cfg.dir)); err != nil {
			die("tower package %s not found", cfg.dir)
		}
		p := loadPkg(cfg, nil)
		ps := process(p, cfg.name)
		summary[cfg.name] = ps
		// the curve packages over this tower first: they may instantiate further alias patterns of tower methods
		curvesOf(cfg.name, p)
		finish(p, ps, cfg.name)
	}
	curvesOf("", nil)
	xall, xfail := runExt(want)
	all = append(all, xall...)
	failures = append(failures, xfail...)
	fall, ffail := runFFT(want)
	all = append(all, fall...)
	failures = append(failures, ffail...)
	if slpPrintTargets {
		fmt.Println(strings.Join(all, "\n"))
	}
	writeFile("Tower/exec_ops.txt", ops.String())
	js, _ := json.MarshalIndent(summary, "", " ")
	writeFile("Tower/summary.json", string(js)+"\n")
	js, _ = json.MarshalIndent(curveSummary, "", " ")
	writeFile("Curve/summary.json", string(js)+"\n")
	js, _ = json.MarshalIndent(pairingSummary, "", " ")
	writeFile("Pairing/summary.json", string(js)+"\n")
	emitReceiverReads()
	un := map[string]map[string]string{}
	for k, v := range summary {
		un[k] = v.Untranslated
	}
	js, _ = json.MarshalIndent(un, "", " ")
	writeFile("untranslated.json", string(js)+"\n")
	if len(failures) > 0 {
		die("targeted functions no longer fit the translatable subset:\n  %s", strings.Join(failures, "\n  "))
	}
	for w := range want {
		found := false
		for _, a := range all {
			found = found || a == w
		}
		if !found {
			failures = append(failures, w)
		}
	}
	if len(failures) > 0 {
		sort.Strings(failures)
		die("targeted functions not found in /repo any more:\n  %s", strings.Join(failures, "\n  "))
	}
}

// every merged block of pat contains a position written by the base pattern
func mergesWritten(base *variant, pat []int) bool {
	cnt := map[int]int{}
	wr := map[int]bool{}
	for i, b := range pat {
		cnt[b]++
		if base.written[base.blockIndex(i)] {
			wr[b] = true
		}
	}
	for b, c := range cnt {
		if c > 1 && !wr[b] {
			return false
		}
	}
	return true
}
