package main

func runSLP() {}
