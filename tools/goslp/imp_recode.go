// imp_recode.go (mode "imp", sub-pass "Recode"): the signed-digit recoding `partitionScalars` of ecc/<curve>/multiexp.go of the
// 9 MSM packages -> ONE file Gen/Imp/Recode.lean (fatal unless the 9 packages give the same text).
//
// Translated statement by statement (any statement / expression outside the subset below is a fatal error):
//   - the prelude `mask := …`, `max := …`, `cDivides64 := …`                                  -> defs maskOf / maxOf / cDivides64Of
//   - the body of the selector loop `for chunk := uint64(0); chunk < nbChunks; chunk++`        -> def mkSelector
//   - the body of the chunk loop `for chunk := uint64(0); chunk < nbChunks-1; chunk++`         -> def digitStep (Option = `continue`)
//   - the statements of the last chunk                                                         -> def lastStep
//
// The FRAME around them is pattern-checked against its exact text (framePins below) and emitted from a template: the chunk loop as
// recursion on fuel (chunkLoop), the zero-scalar `continue`, and the column of digits[chunk*len(scalars)+i] of scalar i (scalarDigits).
// Chunk statistics (after the first parallel.Execute): the body of `for _, digit := range chunkDigits` is translated (statStep; the bit
// set b as a function Nat -> Bool, b[k] = true as a point update, uint16 - and & and >>, x++ on int), its frame pattern-checked and
// emitted from a template (statLoop); the float32 statements are NOT translated: the text of the whole part is emitted as `statsSrc`.
//
// Semantics (Model/GoImp.lean conventions): uint64 = Nat with explicit % 2^64 on + - *, << as shl64, >> as >>>, & as &&&;
// int = unbounded Int (no wrap), int(u) = Int.ofNat u, `x << s` on int = x * 2^s; uint16(x) of an int = (x % 65536).toNat, uint16
// + and << with % 65536; untyped constants take the type of their context (conversion / other operand / assignment target);
// `scalar[k]` = the parameter `scalar k` (the words of scalars[i].Bits(): regular form; FromMont is inside Bits, a parameter);
// fr.Limbs = the parameter frLimbs (assumed >= 1); computeNbChunks(c) = the parameter nbChunks.
// CHECKED: the struct `selector` has exactly the six fields of the emitted structure; the only variable assigned in the chunk loop
// and declared outside it is `carry`; `digits` is written only at `int(chunk)*len(scalars)+i`; no shadowing inside a body.
package main

import (
	"fmt"
	"go/ast"
	"go/parser"
	"go/printer"
	"go/token"
	"os"
	"path/filepath"
	"regexp"
	"strings"
)

var recodeCurves = []string{"bn254", "bls12-377", "bls12-381", "bls24-315", "bls24-317", "bw6-633", "bw6-761", "grumpkin", "secp256k1"}

type rcFn struct {
	dir  string
	fset *token.FileSet
	tail string // value of a body whose last statement is an ordinary one (statistics loop)
}

func (f *rcFn) die(n ast.Node, m string, a ...any) {
	die("imp/recode %s:%d: %s", f.dir, f.fset.Position(n.Pos()).Line, fmt.Sprintf(m, a...))
}

func rcNorm(s string) string { return strings.Join(strings.Fields(s), " ") }

func (f *rcFn) pin(n ast.Node, want string) {
	if got := rcNorm(exprTextNode(f.fset, n)); got != want {
		f.die(n, "frame statement changed:\n  got  %s\n  want %s", got, want)
	}
}

func exprTextNode(fset *token.FileSet, n ast.Node) string {
	var b strings.Builder
	if err := printer.Fprint(&b, fset, n); err != nil {
		return "?"
	}
	return b.String()
}

type rcEnv map[string]string // variable -> kind: u64 int u16 bool sel limbs

var rcSelFields = map[string]string{"index": "u64", "mask": "u64", "shift": "u64", "multiWordSelect": "bool", "maskHigh": "u64", "shiftHigh": "u64"}
var rcSelOrder = []string{"index", "mask", "shift", "multiWordSelect", "maskHigh", "shiftHigh"}

func rcUntyped(e ast.Expr) bool {
	switch v := e.(type) {
	case *ast.BasicLit:
		return v.Kind == token.INT
	case *ast.ParenExpr:
		return rcUntyped(v.X)
	case *ast.BinaryExpr:
		if v.Op == token.SHL || v.Op == token.SHR {
			return rcUntyped(v.X)
		}
		return rcUntyped(v.X) && rcUntyped(v.Y)
	}
	return false
}

// expr translates e; want is the kind an untyped constant takes here ("" = none available)
func (f *rcFn) expr(e ast.Expr, env rcEnv, want string) (string, string) {
	switch v := e.(type) {
	case *ast.ParenExpr:
		s, k := f.expr(v.X, env, want)
		return s, k
	case *ast.BasicLit:
		if v.Kind != token.INT || want == "" || want == "bool" {
			f.die(e, "literal %s without a numeric context", v.Value)
		}
		if want == "int" {
			return "(" + v.Value + " : Int)", "int"
		}
		return v.Value, want
	case *ast.Ident:
		if v.Name == "true" || v.Name == "false" {
			return v.Name, "bool"
		}
		if k, ok := env[v.Name]; ok {
			return v.Name, k
		}
		f.die(e, "unknown variable %s", v.Name)
	case *ast.SelectorExpr:
		x, ok := v.X.(*ast.Ident)
		if !ok {
			f.die(e, "unsupported selector")
		}
		if x.Name == "fr" && v.Sel.Name == "Limbs" {
			return "frLimbs", "u64"
		}
		if env[x.Name] == "sel" {
			k, ok := rcSelFields[v.Sel.Name]
			if !ok {
				f.die(e, "unknown field %s", v.Sel.Name)
			}
			return x.Name + "." + v.Sel.Name, k
		}
		f.die(e, "unsupported selector %s.%s", x.Name, v.Sel.Name)
	case *ast.IndexExpr:
		x, ok := v.X.(*ast.Ident)
		if ok && env[x.Name] == "bitset" {
			i, k := f.expr(v.Index, env, "u16")
			if k != "u16" {
				f.die(e, "bit-set index of kind %s", k)
			}
			return "(" + x.Name + " " + rcAtom(i) + ")", "bool"
		}
		if !ok || env[x.Name] != "limbs" {
			f.die(e, "unsupported index expression")
		}
		i, k := f.expr(v.Index, env, "u64")
		if k != "u64" {
			f.die(e, "index of kind %s", k)
		}
		return "(" + x.Name + " (" + i + "))", "u64"
	case *ast.UnaryExpr:
		switch v.Op {
		case token.NOT:
			s, k := f.expr(v.X, env, "bool")
			if k != "bool" {
				f.die(e, "! on %s", k)
			}
			return "(!" + s + ")", "bool"
		case token.SUB:
			s, k := f.expr(v.X, env, want)
			if k != "int" {
				f.die(e, "unary - on %s", k)
			}
			return "(-" + s + ")", "int"
		}
		f.die(e, "unsupported unary operator %s", v.Op)
	case *ast.CallExpr:
		fn, ok := v.Fun.(*ast.Ident)
		if !ok || len(v.Args) != 1 {
			f.die(e, "unsupported call")
		}
		a := v.Args[0]
		switch fn.Name {
		case "uint64":
			if rcUntyped(a) {
				return f.expr(a, env, "u64")
			}
			s, k := f.expr(a, env, "")
			if k == "u64" {
				return s, k
			}
			f.die(e, "uint64(%s)", k)
		case "int":
			if rcUntyped(a) {
				return f.expr(a, env, "int")
			}
			s, k := f.expr(a, env, "")
			if k == "u64" {
				return "(Int.ofNat " + s + ")", "int"
			}
			if k == "int" {
				return s, k
			}
			f.die(e, "int(%s)", k)
		case "uint16":
			s, k := f.expr(a, env, "")
			if k == "int" {
				return "((" + s + ") % 65536).toNat", "u16"
			}
			f.die(e, "uint16(%s)", k)
		}
		f.die(e, "unsupported call of %s", fn.Name)
	case *ast.BinaryExpr:
		return f.binary(v, env, want)
	}
	f.die(e, "unsupported expression %T", e)
	return "", ""
}

func (f *rcFn) binary(v *ast.BinaryExpr, env rcEnv, want string) (string, string) {
	switch v.Op {
	case token.LAND, token.LOR:
		a, ka := f.expr(v.X, env, "bool")
		b, kb := f.expr(v.Y, env, "bool")
		if ka != "bool" || kb != "bool" {
			f.die(v, "%s on %s, %s", v.Op, ka, kb)
		}
		op := "&&"
		if v.Op == token.LOR {
			op = "||"
		}
		return "(" + a + " " + op + " " + b + ")", "bool"
	case token.SHL, token.SHR:
		a, ka := f.expr(v.X, env, want)
		var b string
		if lit, ok := v.Y.(*ast.BasicLit); ok && lit.Kind == token.INT {
			b = lit.Value
		} else {
			var kb string
			b, kb = f.expr(v.Y, env, "u64")
			if kb != "u64" {
				f.die(v, "shift count of kind %s", kb)
			}
		}
		switch {
		case ka == "u64" && v.Op == token.SHL:
			return "(shl64 " + rcAtom(a) + " " + rcAtom(b) + ")", "u64"
		case ka == "u64" && v.Op == token.SHR:
			return "(" + a + " >>> " + rcAtom(b) + ")", "u64"
		case ka == "int" && v.Op == token.SHL:
			return "(" + a + " * 2 ^ " + rcAtom(b) + ")", "int"
		case ka == "u16" && v.Op == token.SHR:
			return "(" + a + " >>> " + rcAtom(b) + ")", "u16"
		case ka == "u16" && v.Op == token.SHL:
			return "((" + a + " * 2 ^ " + rcAtom(b) + ") % 65536)", "u16"
		}
		f.die(v, "unsupported shift %s on %s", v.Op, ka)
	}
	// arithmetic / comparison: an untyped side takes the kind of the other
	var a, b, ka, kb string
	switch {
	case rcUntyped(v.X) && !rcUntyped(v.Y):
		b, kb = f.expr(v.Y, env, want)
		a, ka = f.expr(v.X, env, kb)
	case rcUntyped(v.X) && rcUntyped(v.Y):
		a, ka = f.expr(v.X, env, want)
		b, kb = f.expr(v.Y, env, want)
	default:
		a, ka = f.expr(v.X, env, want)
		b, kb = f.expr(v.Y, env, ka)
	}
	if ka != kb {
		f.die(v, "operands of %s have kinds %s, %s", v.Op, ka, kb)
	}
	switch v.Op {
	case token.LSS, token.GTR, token.LEQ, token.GEQ, token.EQL, token.NEQ:
		if ka == "bool" {
			f.die(v, "comparison of bools")
		}
		op := map[token.Token]string{token.LSS: "<", token.GTR: ">", token.LEQ: "≤", token.GEQ: "≥", token.EQL: "=", token.NEQ: "≠"}[v.Op]
		return "decide (" + a + " " + op + " " + b + ")", "bool"
	}
	switch ka {
	case "u64":
		switch v.Op {
		case token.ADD:
			return "((" + a + " + " + b + ") % 2^64)", "u64"
		case token.SUB:
			return "((" + a + " + 2^64 - " + b + ") % 2^64)", "u64"
		case token.MUL:
			return "((" + a + " * " + b + ") % 2^64)", "u64"
		case token.QUO:
			return "(" + a + " / " + b + ")", "u64"
		case token.REM:
			return "(" + a + " % " + b + ")", "u64"
		case token.AND:
			return "(" + a + " &&& " + b + ")", "u64"
		}
	case "int":
		switch v.Op {
		case token.ADD:
			return "(" + a + " + " + b + ")", "int"
		case token.SUB:
			return "(" + a + " - " + b + ")", "int"
		}
	case "u16":
		switch v.Op {
		case token.ADD:
			return "((" + a + " + " + b + ") % 65536)", "u16"
		case token.SUB:
			return "((" + a + " + 65536 - " + b + ") % 65536)", "u16"
		case token.AND:
			return "(" + a + " &&& " + b + ")", "u16"
		}
	}
	f.die(v, "unsupported operator %s on %s", v.Op, ka)
	return "", ""
}

func rcAtom(s string) string {
	if strings.ContainsAny(s, " ") && !(strings.HasPrefix(s, "(") && strings.HasSuffix(s, ")")) {
		return "(" + s + ")"
	}
	return s
}

func rcKindOfType(e ast.Expr) string {
	if id, ok := e.(*ast.Ident); ok {
		switch id.Name {
		case "int":
			return "int"
		case "uint64":
			return "u64"
		case "uint16":
			return "u16"
		case "bool":
			return "bool"
		}
	}
	return ""
}

func rcZero(k string) string {
	switch k {
	case "int":
		return "(0 : Int)"
	case "bool":
		return "false"
	}
	return "0"
}

// assignedIn lists (in order of first appearance) the base variables assigned by the statements
func (f *rcFn) assignedIn(stmts []ast.Stmt) []string {
	var res []string
	seen := map[string]bool{}
	add := func(e ast.Expr) {
		switch v := e.(type) {
		case *ast.Ident:
			if !seen[v.Name] {
				seen[v.Name] = true
				res = append(res, v.Name)
			}
		case *ast.SelectorExpr:
			if x, ok := v.X.(*ast.Ident); ok && !seen[x.Name] {
				seen[x.Name] = true
				res = append(res, x.Name)
			}
		case *ast.IndexExpr:
			if x, ok := v.X.(*ast.Ident); ok && !seen[x.Name] {
				seen[x.Name] = true
				res = append(res, x.Name)
			}
		}
	}
	for _, s := range stmts {
		if a, ok := s.(*ast.AssignStmt); ok && a.Tok != token.DEFINE {
			add(a.Lhs[0])
		}
		if a, ok := s.(*ast.IncDecStmt); ok {
			add(a.X)
		}
	}
	return res
}

// stmts translates a statement list into a chain of lets ending in fin(env); `exit` is the value of `continue` ("" = not allowed);
// store: the final statement `digits[idx] = e` is translated by storeFn
func (f *rcFn) stmts(list []ast.Stmt, env rcEnv, ind string, exit string, fin func(env rcEnv, last ast.Stmt) string, outer rcEnv) string {
	var b strings.Builder
	for n, s := range list {
		if n == len(list)-1 && fin != nil {
			if r := fin(env, s); r != "" {
				b.WriteString(ind + r + "\n")
				return b.String()
			}
		}
		switch v := s.(type) {
		case *ast.AssignStmt:
			if len(v.Lhs) != 1 || len(v.Rhs) != 1 {
				f.die(s, "multiple assignment")
			}
			switch lhs := v.Lhs[0].(type) {
			case *ast.Ident:
				if v.Tok == token.DEFINE {
					if _, dup := env[lhs.Name]; dup {
						f.die(s, "%s shadows a live variable", lhs.Name)
					}
					if cl, ok := v.Rhs[0].(*ast.CompositeLit); ok {
						if exprText(cl.Type) != "selector" || len(cl.Elts) != 0 {
							f.die(s, "unsupported composite literal")
						}
						env[lhs.Name] = "sel"
						b.WriteString(ind + "let " + lhs.Name + " : Selector := ⟨0, 0, 0, false, 0, 0⟩\n")
						continue
					}
					if ix, ok := v.Rhs[0].(*ast.IndexExpr); ok && exprText(ix.X) == "selectors" {
						i, k := f.expr(ix.Index, env, "u64")
						if k != "u64" {
							f.die(s, "selectors index of kind %s", k)
						}
						env[lhs.Name] = "sel"
						b.WriteString(ind + "let " + lhs.Name + " : Selector := selectors " + rcAtom(i) + "\n")
						continue
					}
					e, k := f.expr(v.Rhs[0], env, "")
					env[lhs.Name] = k
					b.WriteString(ind + "let " + lhs.Name + " := " + e + "\n")
					continue
				}
				k, ok := env[lhs.Name]
				if !ok || k == "sel" || k == "limbs" {
					f.die(s, "assignment to %s", lhs.Name)
				}
				rhs := v.Rhs[0]
				var e, ke string
				switch v.Tok {
				case token.ASSIGN:
					e, ke = f.expr(rhs, env, k)
				case token.ADD_ASSIGN, token.SUB_ASSIGN:
					op := token.ADD
					if v.Tok == token.SUB_ASSIGN {
						op = token.SUB
					}
					e, ke = f.expr(&ast.BinaryExpr{X: lhs, Op: op, Y: rhs, OpPos: v.TokPos}, env, k)
				default:
					f.die(s, "unsupported assignment operator %s", v.Tok)
				}
				if ke != k {
					f.die(s, "assignment of %s to %s %s", ke, k, lhs.Name)
				}
				b.WriteString(ind + "let " + lhs.Name + " := " + e + "\n")
			case *ast.SelectorExpr:
				x, ok := lhs.X.(*ast.Ident)
				if !ok || env[x.Name] != "sel" || v.Tok != token.ASSIGN {
					f.die(s, "unsupported field assignment")
				}
				if _, isOuter := outer[x.Name]; isOuter {
					f.die(s, "field assignment to a variable of an enclosing scope")
				}
				k, ok := rcSelFields[lhs.Sel.Name]
				if !ok {
					f.die(s, "unknown field %s", lhs.Sel.Name)
				}
				e, ke := f.expr(v.Rhs[0], env, k)
				if ke != k {
					f.die(s, "assignment of %s to field %s", ke, lhs.Sel.Name)
				}
				b.WriteString(ind + "let " + x.Name + " : Selector := { " + x.Name + " with " + lhs.Sel.Name + " := " + e + " }\n")
			case *ast.IndexExpr:
				x, ok := lhs.X.(*ast.Ident)
				if !ok || env[x.Name] != "bitset" || v.Tok != token.ASSIGN {
					f.die(s, "unsupported indexed assignment")
				}
				i, ki := f.expr(lhs.Index, env, "u16")
				e, ke := f.expr(v.Rhs[0], env, "bool")
				if ki != "u16" || ke != "bool" {
					f.die(s, "bit-set store of kinds %s, %s", ki, ke)
				}
				b.WriteString(ind + "let " + x.Name + " := (fun k_ => if k_ = " + i + " then " + e + " else " + x.Name + " k_)\n")
			default:
				f.die(s, "unsupported assignment target")
			}
		case *ast.IncDecStmt:
			id, ok := v.X.(*ast.Ident)
			if !ok || env[id.Name] != "int" || v.Tok != token.INC {
				f.die(s, "unsupported increment")
			}
			b.WriteString(ind + "let " + id.Name + " := (" + id.Name + " + (1 : Int))\n")
		case *ast.DeclStmt:
			gd, ok := v.Decl.(*ast.GenDecl)
			if !ok || gd.Tok != token.VAR || len(gd.Specs) != 1 {
				f.die(s, "unsupported declaration")
			}
			vs := gd.Specs[0].(*ast.ValueSpec)
			k := rcKindOfType(vs.Type)
			if len(vs.Names) != 1 || len(vs.Values) != 0 || k == "" {
				f.die(s, "unsupported var declaration")
			}
			if _, dup := env[vs.Names[0].Name]; dup {
				f.die(s, "%s shadows a live variable", vs.Names[0].Name)
			}
			env[vs.Names[0].Name] = k
			b.WriteString(ind + "let " + vs.Names[0].Name + " := " + rcZero(k) + "\n")
		case *ast.IfStmt:
			if v.Init != nil {
				f.die(s, "if with init")
			}
			c, kc := f.expr(v.Cond, env, "bool")
			if kc != "bool" {
				f.die(s, "condition of kind %s", kc)
			}
			if len(v.Body.List) == 1 {
				if br, ok := v.Body.List[0].(*ast.BranchStmt); ok {
					if br.Tok != token.CONTINUE || br.Label != nil || v.Else != nil || exit == "" {
						f.die(s, "unsupported branch statement")
					}
					b.WriteString(ind + "if " + c + " then " + exit + " else\n")
					continue
				}
			}
			all := append([]ast.Stmt{}, v.Body.List...)
			var els []ast.Stmt
			if v.Else != nil {
				eb, ok := v.Else.(*ast.BlockStmt)
				if !ok {
					f.die(s, "else if")
				}
				els = eb.List
				all = append(all, els...)
			}
			as := f.assignedIn(all)
			if len(as) == 0 {
				f.die(s, "if without effect")
			}
			for _, a := range as {
				if _, ok := env[a]; !ok {
					f.die(s, "if assigns the unknown variable %s", a)
				}
			}
			tup := strings.Join(as, ", ")
			if len(as) > 1 {
				tup = "(" + tup + ")"
			}
			branch := func(l []ast.Stmt) string {
				e2 := rcEnv{}
				for k, v := range env {
					e2[k] = v
				}
				for _, st := range l {
					_, isInc := st.(*ast.IncDecStmt)
					if _, ok := st.(*ast.AssignStmt); !ok && !isInc {
						f.die(st, "only assignments are supported inside an if")
					}
				}
				return f.stmts(l, e2, ind+"    ", "", nil, outer) + ind + "    " + tup + "\n"
			}
			b.WriteString(ind + "let " + tup + " :=\n" + ind + "  if " + c + " then\n" + branch(v.Body.List) + ind + "  else\n" + branch(els))
		default:
			f.die(s, "unsupported statement %T", s)
		}
	}
	if fin != nil {
		if f.tail == "" {
			f.die(list[len(list)-1], "the final statement has not the expected shape")
		}
		b.WriteString(ind + f.tail + "\n")
	}
	return b.String()
}

const rcStoreIdx = "int(chunk)*len(scalars) + i"

func (f *rcFn) storeOf(s ast.Stmt, env rcEnv) (string, bool) {
	a, ok := s.(*ast.AssignStmt)
	if !ok || a.Tok != token.ASSIGN || len(a.Lhs) != 1 {
		return "", false
	}
	ix, ok := a.Lhs[0].(*ast.IndexExpr)
	if !ok || exprText(ix.X) != "digits" {
		return "", false
	}
	if got := rcNorm(exprTextNode(f.fset, ix.Index)); got != rcStoreIdx {
		f.die(s, "digits is written at %s, expected %s", got, rcStoreIdx)
	}
	e, k := f.expr(a.Rhs[0], env, "u16")
	if k != "u16" {
		f.die(s, "digits entry of kind %s", k)
	}
	return e, true
}

// mentionsDigits: digits may only occur as the target of the final store
func (f *rcFn) checkNoDigits(list []ast.Stmt) {
	for _, s := range list {
		ast.Inspect(s, func(n ast.Node) bool {
			if id, ok := n.(*ast.Ident); ok && (id.Name == "digits" || id.Name == "scalars" || id.Name == "i") {
				f.die(id, "%s is mentioned outside the final store of the body", id.Name)
			}
			return true
		})
	}
}

func (f *rcFn) forHeader(l *ast.ForStmt, want string) {
	got := rcNorm(exprTextNode(f.fset, l.Init)) + "; " + rcNorm(exprTextNode(f.fset, l.Cond)) + "; " + rcNorm(exprTextNode(f.fset, l.Post))
	if got != want {
		f.die(l, "loop header changed: got `%s`, want `%s`", got, want)
	}
}

func recodeText(curve string) (string, string) {
	dir := "ecc/" + curve
	f := &rcFn{dir: dir + "/multiexp.go", fset: token.NewFileSet()}
	file, err := parser.ParseFile(f.fset, filepath.Join(repo, dir, "multiexp.go"), nil, 0)
	if err != nil {
		die("imp/recode: %v", err)
	}
	var fd *ast.FuncDecl
	selOK := false
	for _, d := range file.Decls {
		switch v := d.(type) {
		case *ast.FuncDecl:
			if v.Name.Name == "partitionScalars" && v.Recv == nil {
				fd = v
			}
		case *ast.GenDecl:
			for _, sp := range v.Specs {
				ts, ok := sp.(*ast.TypeSpec)
				if !ok || ts.Name.Name != "selector" {
					continue
				}
				st, ok := ts.Type.(*ast.StructType)
				if !ok {
					f.die(ts, "selector is not a struct")
				}
				var names []string
				for _, fl := range st.Fields.List {
					for _, n := range fl.Names {
						k := rcKindOfType(fl.Type)
						if rcSelFields[n.Name] != k || k == "" {
							f.die(fl, "field %s of selector has an unexpected type", n.Name)
						}
						names = append(names, n.Name)
					}
				}
				if strings.Join(names, ",") != strings.Join(rcSelOrder, ",") {
					f.die(ts, "fields of selector: %v", names)
				}
				selOK = true
			}
		}
	}
	if fd == nil || !selOK {
		die("imp/recode %s: partitionScalars / selector not found", dir)
	}
	f.pin(fd.Type, "func(scalars []fr.Element, c uint64, nbTasks int) ([]uint16, []chunkStat)")
	body := fd.Body.List
	if len(body) < 10 {
		f.die(fd, "unexpected shape of partitionScalars")
	}
	f.pin(body[0], "if nbTasks > runtime.NumCPU() { nbTasks = runtime.NumCPU() }")
	f.pin(body[1], "nbChunks := computeNbChunks(c)")
	f.pin(body[2], "digits := make([]uint16, len(scalars)*int(nbChunks))")
	var out strings.Builder
	// prelude
	env0 := rcEnv{"c": "u64"}
	names := []string{"mask", "max", "cDivides64"}
	kinds := []string{"u64", "int", "bool"}
	tys := []string{"Nat", "Int", "Bool"}
	for j, nm := range names {
		a, ok := body[3+j].(*ast.AssignStmt)
		if !ok || a.Tok != token.DEFINE || exprText(a.Lhs[0]) != nm {
			f.die(body[3+j], "expected `%s := …`", nm)
		}
		e, k := f.expr(a.Rhs[0], env0, "")
		if k != kinds[j] {
			f.die(a, "%s has kind %s", nm, k)
		}
		fmt.Fprintf(&out, "/-- `%s` -/\ndef %sOf (c : Nat) : %s := %s\n\n", rcNorm(exprTextNode(f.fset, a)), nm, tys[j], e)
	}
	f.pin(body[6], "selectors := make([]selector, nbChunks)")
	// selector loop
	sl, ok := body[7].(*ast.ForStmt)
	if !ok {
		f.die(body[7], "expected the selector loop")
	}
	f.forHeader(sl, "chunk := uint64(0); chunk < nbChunks; chunk++")
	envS := rcEnv{"c": "u64", "mask": "u64", "cDivides64": "bool", "chunk": "u64"}
	outerS := rcEnv{}
	for k, v := range envS {
		outerS[k] = v
	}
	selBody := f.stmts(sl.Body.List, envS, "  ", "", func(env rcEnv, last ast.Stmt) string {
		if rcNorm(exprTextNode(f.fset, last)) != "selectors[chunk] = d" || env["d"] != "sel" {
			return ""
		}
		return "d"
	}, outerS)
	out.WriteString("/-- body of `for chunk := uint64(0); chunk < nbChunks; chunk++` (line " + fmt.Sprint(f.fset.Position(sl.Pos()).Line-f.fset.Position(fd.Pos()).Line) + " of the function): the value stored in `selectors[chunk]` -/\n")
	out.WriteString("def mkSelector (frLimbs c mask : Nat) (cDivides64 : Bool) (chunk : Nat) : Selector :=\n" + selBody + "\n")
	// parallel.Execute(len(scalars), func(start, end int) { for i := start; i < end; i++ { … } }, nbTasks)
	es, ok := body[8].(*ast.ExprStmt)
	var call *ast.CallExpr
	if ok {
		call, ok = es.X.(*ast.CallExpr)
	}
	if !ok || exprText(call.Fun) != "parallel.Execute" || len(call.Args) != 3 || exprText(call.Args[0]) != "len(scalars)" || exprText(call.Args[2]) != "nbTasks" {
		f.die(body[8], "expected parallel.Execute(len(scalars), func…, nbTasks)")
	}
	fl, ok := call.Args[1].(*ast.FuncLit)
	if !ok || len(fl.Body.List) != 1 {
		f.die(body[8], "expected a function literal with one loop")
	}
	f.pin(fl.Type, "func(start, end int)")
	il, ok := fl.Body.List[0].(*ast.ForStmt)
	if !ok {
		f.die(fl, "expected the loop over the scalars")
	}
	f.forHeader(il, "i := start; i < end; i++")
	ib := il.Body.List
	if len(ib) < 6 {
		f.die(il, "unexpected shape of the per-scalar body")
	}
	f.pin(ib[0], "if scalars[i].IsZero() { continue }")
	f.pin(ib[1], "scalar := scalars[i].Bits()")
	f.pin(ib[2], "var carry int")
	cl, ok := ib[3].(*ast.ForStmt)
	if !ok {
		f.die(ib[3], "expected the chunk loop")
	}
	f.forHeader(cl, "chunk := uint64(0); chunk < nbChunks-1; chunk++")
	envC := rcEnv{"c": "u64", "max": "int", "chunk": "u64", "carry": "int", "scalar": "limbs"}
	outerC := rcEnv{"carry": "int"}
	// the only outer variable assigned in the loop is carry
	ast.Inspect(cl.Body, func(n ast.Node) bool {
		switch v := n.(type) {
		case *ast.AssignStmt:
			if id, ok := v.Lhs[0].(*ast.Ident); ok && v.Tok != token.DEFINE {
				switch id.Name {
				case "c", "max", "chunk", "scalar", "nbChunks", "selectors", "mask", "cDivides64", "i", "scalars":
					f.die(v, "the chunk loop assigns %s", id.Name)
				}
			}
		case *ast.IncDecStmt:
			f.die(v, "increment inside the chunk loop")
		}
		return true
	})
	f.checkNoDigits(cl.Body.List[:len(cl.Body.List)-1])
	stepBody := f.stmts(cl.Body.List, envC, "  ", "(none, carry)", func(env rcEnv, last ast.Stmt) string {
		e, ok := f.storeOf(last, env)
		if !ok {
			return ""
		}
		return "(some " + rcAtom(e) + ", carry)"
	}, outerC)
	out.WriteString("/-- body of `for chunk := uint64(0); chunk < nbChunks-1; chunk++`: (value stored at digits[int(chunk)*len(scalars)+i], or none when the\nbody `continue`s and the entry keeps the zero of `make`; carry after the body) -/\n")
	out.WriteString("def digitStep (c : Nat) (max : Int) (selectors : Nat → Selector) (scalar : Nat → Nat) (chunk : Nat) (carry : Int) : Option Nat × Int :=\n" + stepBody + "\n")
	// last chunk
	rest := ib[4:]
	f.pin(rest[0], "chunk := nbChunks - 1")
	f.checkNoDigits(rest[1 : len(rest)-1])
	envL := rcEnv{"c": "u64", "max": "int", "chunk": "u64", "carry": "int", "scalar": "limbs"}
	lastBody := f.stmts(rest[1:], envL, "  ", "", func(env rcEnv, last ast.Stmt) string {
		e, ok := f.storeOf(last, env)
		if !ok {
			return ""
		}
		return e
	}, rcEnv{"carry": "int"})
	out.WriteString("/-- the statements after the chunk loop (`chunk := nbChunks - 1` …): the value stored at digits[int(chunk)*len(scalars)+i] -/\n")
	out.WriteString("def lastStep (c : Nat) (max : Int) (selectors : Nat → Selector) (scalar : Nat → Nat) (chunk : Nat) (carry : Int) : Nat :=\n" + lastBody + "\n")
	// statistics: the body of the range loop over one chunk's digits is translated (statStep), its frame pattern-checked
	f.pin(body[9], "chunkStats := make([]chunkStat, nbChunks)")
	f.pin(body[10], "if c <= 9 { return digits, chunkStats }")
	es2, ok := body[11].(*ast.ExprStmt)
	var call2 *ast.CallExpr
	if ok {
		call2, ok = es2.X.(*ast.CallExpr)
	}
	if !ok || exprText(call2.Fun) != "parallel.Execute" || len(call2.Args) != 3 || exprText(call2.Args[0]) != "len(chunkStats)" || exprText(call2.Args[2]) != "nbTasks" {
		f.die(body[11], "expected parallel.Execute(len(chunkStats), func…, nbTasks)")
	}
	fl2, ok := call2.Args[1].(*ast.FuncLit)
	if !ok || len(fl2.Body.List) != 1 {
		f.die(body[11], "expected a function literal with one loop")
	}
	sl2, ok := fl2.Body.List[0].(*ast.ForStmt)
	if !ok {
		f.die(fl2, "expected the loop over the chunks")
	}
	f.forHeader(sl2, "chunkID := start; chunkID < end; chunkID++")
	sb := sl2.Body.List
	if len(sb) != 8 {
		f.die(sl2, "unexpected shape of the statistics body")
	}
	if got := regexp.MustCompile(`bitSetC[0-9]+`).ReplaceAllString(rcNorm(exprTextNode(f.fset, sb[0])), "bitSetC<N>"); got != "var b bitSetC<N>" {
		f.die(sb[0], "frame statement changed: %s", got)
	}
	f.pin(sb[1], "chunkDigits := digits[chunkID*len(scalars) : (chunkID+1)*len(scalars)]")
	f.pin(sb[2], "totalOps := 0")
	f.pin(sb[3], "nz := 0")
	rl, ok := sb[4].(*ast.RangeStmt)
	if !ok || exprText(rl.Key) != "_" || exprText(rl.Value) != "digit" || exprText(rl.X) != "chunkDigits" || rl.Tok != token.DEFINE {
		f.die(sb[4], "expected `for _, digit := range chunkDigits`")
	}
	f.pin(sb[5], "chunkStats[chunkID].weight = float32(totalOps)")
	f.pin(sb[6], "chunkStats[chunkID].ppBucketFilled = (float32(nz) * 100.0) / float32(int(1<<(c-1)))")
	f.pin(sb[7], "chunkStats[chunkID].nbBucketFilled = nz")
	envT := rcEnv{"b": "bitset", "totalOps": "int", "nz": "int", "digit": "u16"}
	f.tail = "(b, totalOps, nz)"
	statBody := f.stmts(rl.Body.List, envT, "  ", "(b, totalOps, nz)", func(rcEnv, ast.Stmt) string { return "" }, rcEnv{})
	f.tail = ""
	out.WriteString("/-- body of `for _, digit := range chunkDigits` of the chunk statistics: (bit set b, totalOps, nz) after the body -/\n")
	out.WriteString("def statStep (b : Nat → Bool) (totalOps : Int) (nz : Int) (digit : Nat) : (Nat → Bool) × Int × Int :=\n" + statBody + "\n")
	// statistics: text recorded as well
	var st []string
	for _, s := range body[9:] {
		st = append(st, rcNorm(exprTextNode(f.fset, s)))
	}
	// the bit-set type of the statistics is bitSetC<max window> (15 for secp256k1, 16 elsewhere): the number is masked
	return out.String(), regexp.MustCompile(`bitSetC[0-9]+`).ReplaceAllString(strings.Join(st, " ; "), "bitSetC<N>")
}

const rcFrame = `/-- the statistics of one chunk: ` + "`var b bitSetC<N>`" + ` (all false), ` + "`totalOps := 0`, `nz := 0`" + `, then the range loop over
chunkDigits = digits[chunkID*len(scalars) : (chunkID+1)*len(scalars)]; (totalOps, nz) are what weight / nbBucketFilled / ppBucketFilled are computed from -/
def statLoop (chunkDigits : List Nat) : (Nat → Bool) × Int × Int :=
  chunkDigits.foldl (fun st digit => statStep st.1 st.2.1 st.2.2 digit) (fun _ => false, 0, 0)

/-- the chunk loop ` + "`for chunk := uint64(0); chunk < nbChunks-1; chunk++`" + ` as recursion on fuel: the entries of the column of one scalar written so far
(entry ` + "`chunk`" + ` of the column is digits[int(chunk)*len(scalars)+i]; a ` + "`continue`" + `d entry keeps the 0 of make) and the carry -/
def chunkLoop (c : Nat) (max : Int) (selectors : Nat → Selector) (scalar : Nat → Nat) (nbChunks : Nat) : Nat → Nat → Int → List Nat → List Nat × Int
  | 0, chunk, carry, col => (col, carry)
  | fuel_ + 1, chunk, carry, col =>
    if decide (chunk < (nbChunks + 2^64 - 1) % 2^64) then
      let r := digitStep c max selectors scalar chunk carry
      chunkLoop c max selectors scalar nbChunks fuel_ ((chunk + 1) % 2^64) r.2 (col ++ [r.1.getD 0])
    else (col, carry)

/-- the per-scalar body of the first parallel.Execute: the column (digits[chunk*len(scalars)+i])_{chunk < nbChunks} of scalar i;
` + "`isZero`" + ` = scalars[i].IsZero(), ` + "`scalar`" + ` = the words of scalars[i].Bits() -/
def scalarDigits (frLimbs c nbChunks : Nat) (isZero : Bool) (scalar : Nat → Nat) : List Nat :=
  let mask := maskOf c
  let max := maxOf c
  let cDivides64 := cDivides64Of c
  let selectors := mkSelector frLimbs c mask cDivides64
  if isZero then List.replicate nbChunks 0 else
  let r := chunkLoop c max selectors scalar nbChunks (nbChunks - 1) 0 0 []
  let chunk := (nbChunks + 2^64 - 1) % 2^64
  r.1 ++ [lastStep c max selectors scalar chunk r.2]
`

func runRecode() {
	outName := "Imp/Recode.lean"
	dieHook = func() { os.Remove(filepath.Join(outDir, outName)) }
	var ref, refStats string
	for i, c := range recodeCurves {
		t, st := recodeText(c)
		if i == 0 {
			ref, refStats = t, st
		} else if t != ref || st != refStats {
			die("imp/recode: the translation of ecc/%s/multiexp.go differs from the one of ecc/%s (the 9 MSM packages must translate to the same text)", c, recodeCurves[0])
		}
	}
	var b strings.Builder
	b.WriteString("/- GENERATED by tools/goslp (imp_recode.go) on every run. DO NOT EDIT.\n")
	fmt.Fprintf(&b, "   Statement-by-statement translation of the recoding part of partitionScalars (multiexp.go) of /repo/ecc/{%s};\n   the translator checked that the 9 packages give this same text. Semantics and checked side conditions: header of tools/goslp/imp_recode.go. -/\n", strings.Join(recodeCurves, ", "))
	b.WriteString("import GnarkVerif.Model.GoImp\n\nset_option linter.unusedVariables false\n\nnamespace GV.Gen.Imp.Recode\nopen GV.GoImp\n\n")
	b.WriteString("/-- the Go struct `selector` (field names and types checked) -/\nstructure Selector where\n  index : Nat\n  mask : Nat\n  shift : Nat\n  multiWordSelect : Bool\n  maskHigh : Nat\n  shiftHigh : Nat\nderiving Repr, DecidableEq\n\n")
	b.WriteString(ref)
	b.WriteString(rcFrame)
	fmt.Fprintf(&b, "\n/-- the statements of partitionScalars after the first parallel.Execute (chunk statistics): NOT translated, text recorded -/\ndef statsSrc : String := %q\n", refStats)
	b.WriteString("\n/-- the 9 packages whose text is the above -/\ndef packages : List String := [" + `"` + strings.Join(recodeCurves, `", "`) + `"` + "]\n")
	b.WriteString("\nend GV.Gen.Imp.Recode\n")
	writeFile(outName, b.String())
	dieHook = nil
}
