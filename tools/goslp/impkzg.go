// impkzg.go — sub-pass "KzgOpen" of the imperative mode: the PROVER side of ecc/<curve>/kzg/kzg.go (`eval`, `dividePolyByXminusA`, `Commit`, `Open`)
// of the 7 pairing curves, statement by statement, over an ABSTRACT scalar type F and an ABSTRACT group-element type G
// → Gen/Imp/KzgOpen_<curve>.lean (C11; theorems in Props/C11_open_gen_<curve>.lean).
//
// Value vocabulary (Model/GoImp.lean, Model/GoImpSlice.lean): `int` = Int, `[]T` = List T BY VALUE, `error` = Err, `fr.Element` = F, `<curve>.G1Affine` (and its alias
// `Digest`) = G, structs of the package = Lean structures over (F, G), `ecc.MultiExpConfig` = a structure read from ecc/ecc.go.
// PARAMETERS of every generated def: `zero : F` (zero value of fr.Element), `add sub mul : F → F → F` (fr.Element.Add/Sub/Mul: the receiver gets the
// value of the operation on the operands, which are read before the receiver is written; the methods return their receiver, so a chain
// `z.Mul(..).Add(..)` is a sequence), `gzero : G` (zero value of G1Affine = the encoding of the point at infinity),
// `multiExp : G → List G → List F → MultiExpConfig → G × Err` (`(*G1Affine).MultiExp`: new value of the receiver and the error, as an uninterpreted
// function of the old receiver and the arguments; assumed not to write its slice arguments).
//
// Slices are values, so aliasing must not be observable. CHECKED here (fatal otherwise):
//   - an element write `x[i].M(..)` / `copy(x, ..)` / passing x to a function that overwrites that parameter is allowed on a slice PARAMETER (the
//     function then RETURNS the new contents of that parameter first: `<fn>.writes` lists them, so the generated def shows which caller slice is
//     overwritten) or on a local created by `make` in the same function that has not been aliased since;
//   - when a callee returns a slice cut from one of its parameters (`return f[1:]`), the argument variable and the result variable are FROZEN in the
//     caller: any later write to either is fatal; a slice-typed `x := y` / `x = y` (plain aliasing) is fatal;
//   - every fr.Element / G1Affine method used as a statement or in a chain returns its receiver in every declaration with a body (checkReturnsReceiver);
//   - `copy(dst, src)` only directly after `dst := make(..)`; no shadowing of a live variable; loops only of the form
//     `for i := e; i >= 0; i-- { simple statements not assigning i }` (fuel = (i+1).toNat, exact).
//
// Not modelled: panics (an out-of-range read yields `zero`, an out-of-range write does nothing, as in Model/GoImp.lean).
package main

import (
	"fmt"
	"go/ast"
	"go/parser"
	"go/token"
	"os"
	"path/filepath"
	"strings"
)

var kzgOpenFuncs = []string{"eval", "dividePolyByXminusA", "Commit", "Open", "BatchOpenSinglePoint"}

const kzParams = " {F G : Type} (zero : F) (add sub mul : F → F → F) (gzero : G) (multiExp : G → List G → List F → MultiExpConfig → G × Err)"
const kzArgs = " zero add sub mul gzero multiExp"

var kzReserved = map[string]bool{"zero": true, "add": true, "sub": true, "mul": true, "gzero": true, "multiExp": true, "F": true, "G": true, "idxD": true, "fuel_": true}

func kzName(n string) string {
	if leanReserved[n] || kzReserved[n] {
		return n + "'"
	}
	return n
}

type kzTy struct {
	k    string // int bool elem point slice struct cfg err
	elem *kzTy
	name string
}

func (t *kzTy) eq(u *kzTy) bool {
	if t == nil || u == nil {
		return t == u
	}
	if t.k != u.k || t.name != u.name {
		return false
	}
	if t.elem != nil || u.elem != nil {
		return t.elem.eq(u.elem)
	}
	return true
}

type kzField struct {
	name string
	ty   *kzTy
}

type kzSig struct {
	params   []*kzTy
	pnames   []string
	variadic bool
	results  []*kzTy
	writes   []int       // indices of slice parameters whose elements are overwritten (returned first)
	alias    map[int]int // result index -> parameter index the result is cut from
}

type kzPkg struct {
	curve, dir  string
	fset        *token.FileSet
	structDecl  map[string]*ast.StructType
	alias       map[string]ast.Expr
	structs     map[string][]kzField
	structOrd   []string
	errVars     []string
	errMsg      map[string]string
	funcs       map[string]*ast.FuncDecl
	sigs        map[string]*kzSig
	cfgFields   []kzField
	usedMethods map[string]bool // "elem.Add", "point.Set", …: every one is checked to return its receiver (checkReturnsReceiver)
}

type kzFn struct {
	p        *kzPkg
	name     string
	sig      *kzSig
	vars     map[string]*kzTy
	order    []string
	isParam  map[string]int
	owned    map[string]bool
	frozen   map[string]bool
	helpers  []string
	nloop    int
	needWait bool   // the loop just translated started goroutines (goLoopLines)
	extra    string // extra parameters of the function itself (abstract package-local functions it calls)
	inLoop   int
}

func (p *kzPkg) die(n ast.Node, f string, a ...any) {
	pos := ""
	if n != nil {
		pos = p.fset.Position(n.Pos()).String() + ": "
	}
	die("imp/kzgopen %s: %s%s", p.curve, pos, fmt.Sprintf(f, a...))
}

func (p *kzPkg) goType(e ast.Expr) *kzTy {
	switch v := e.(type) {
	case *ast.Ident:
		switch v.Name {
		case "int":
			return &kzTy{k: "int"}
		case "bool":
			return &kzTy{k: "bool"}
		case "error":
			return &kzTy{k: "err"}
		case "byte":
			return &kzTy{k: "byte"}
		}
		if a, ok := p.alias[v.Name]; ok {
			return p.goType(a)
		}
		if st, ok := p.structDecl[v.Name]; ok {
			if _, done := p.structs[v.Name]; !done {
				p.structs[v.Name] = nil
				var fs []kzField
				for _, fl := range st.Fields.List {
					if len(fl.Names) == 0 {
						p.die(fl, "embedded field")
					}
					for _, n := range fl.Names {
						fs = append(fs, kzField{n.Name, p.goType(fl.Type)})
					}
				}
				p.structs[v.Name] = fs
				p.structOrd = append(p.structOrd, v.Name)
			}
			return &kzTy{k: "struct", name: v.Name}
		}
	case *ast.SelectorExpr:
		switch exprText(v) {
		case "fr.Element":
			return &kzTy{k: "elem"}
		case "ecc.MultiExpConfig":
			return &kzTy{k: "cfg"}
		case "hash.Hash":
			return &kzTy{k: "hash"}
		case "sync.WaitGroup":
			return &kzTy{k: "waitgroup"}
		}
		if id, ok := v.X.(*ast.Ident); ok && id.Name == strings.ReplaceAll(p.curve, "-", "") && v.Sel.Name == "G1Affine" {
			return &kzTy{k: "point"}
		}
	case *ast.ArrayType:
		if v.Len == nil {
			return &kzTy{k: "slice", elem: p.goType(v.Elt)}
		}
	case *ast.Ellipsis:
		return &kzTy{k: "slice", elem: p.goType(v.Elt)}
	}
	p.die(e, "type %s outside the subset", exprText(e))
	return nil
}

func (p *kzPkg) lty(t *kzTy) string {
	switch t.k {
	case "int":
		return "Int"
	case "bool":
		return "Bool"
	case "elem":
		return "F"
	case "point":
		return "G"
	case "err":
		return "Err"
	case "hash":
		return "Hash"
	case "byte":
		return "UInt8"
	case "cfg":
		return "MultiExpConfig"
	case "slice":
		s := p.lty(t.elem)
		if strings.Contains(s, " ") {
			s = "(" + s + ")"
		}
		return "List " + s
	case "struct":
		return t.name + " F G"
	}
	die("kzgopen: lty %v", t)
	return ""
}

func (p *kzPkg) ltyA(t *kzTy) string {
	s := p.lty(t)
	if strings.Contains(s, " ") {
		return "(" + s + ")"
	}
	return s
}

func (p *kzPkg) zero(t *kzTy) string {
	switch t.k {
	case "int":
		return "0"
	case "bool":
		return "false"
	case "elem":
		return "zero"
	case "point":
		return "gzero"
	case "err":
		return "Err.nil"
	case "slice":
		return "[]"
	case "cfg":
		var parts []string
		for _, f := range p.cfgFields {
			parts = append(parts, f.name+" := "+p.zero(f.ty))
		}
		return "({ " + strings.Join(parts, ", ") + " } : MultiExpConfig)"
	case "struct":
		var parts []string
		for _, f := range p.structs[t.name] {
			parts = append(parts, f.name+" := "+p.zero(f.ty))
		}
		return "({ " + strings.Join(parts, ", ") + " } : " + p.lty(t) + ")"
	}
	die("kzgopen: zero %v", t)
	return ""
}

func (p *kzPkg) fieldsOf(t *kzTy) []kzField {
	if t.k == "cfg" {
		return p.cfgFields
	}
	if t.k == "struct" {
		return p.structs[t.name]
	}
	return nil
}

func loadKzg(curve string) *kzPkg {
	p := &kzPkg{curve: curve, dir: "ecc/" + curve + "/kzg", fset: token.NewFileSet(), structDecl: map[string]*ast.StructType{}, alias: map[string]ast.Expr{},
		structs: map[string][]kzField{}, usedMethods: map[string]bool{}, errMsg: map[string]string{}, funcs: map[string]*ast.FuncDecl{}, sigs: map[string]*kzSig{}}
	f, err := parser.ParseFile(p.fset, filepath.Join(repo, p.dir, "kzg.go"), nil, 0)
	if err != nil {
		die("imp/kzgopen: parse: %v", err)
	}
	for _, d := range f.Decls {
		switch v := d.(type) {
		case *ast.GenDecl:
			for _, s := range v.Specs {
				switch sp := s.(type) {
				case *ast.TypeSpec:
					if st, ok := sp.Type.(*ast.StructType); ok {
						p.structDecl[sp.Name.Name] = st
					} else if sp.Assign.IsValid() {
						p.alias[sp.Name.Name] = sp.Type
					}
				case *ast.ValueSpec:
					if v.Tok != token.VAR {
						continue
					}
					for i, n := range sp.Names {
						if i < len(sp.Values) {
							if c, ok := sp.Values[i].(*ast.CallExpr); ok && exprText(c.Fun) == "errors.New" && len(c.Args) == 1 {
								if bl, ok := c.Args[0].(*ast.BasicLit); ok && bl.Kind == token.STRING {
									p.errVars = append(p.errVars, n.Name)
									p.errMsg[n.Name] = bl.Value
								}
							}
						}
					}
				}
			}
		case *ast.FuncDecl:
			if v.Recv == nil {
				p.funcs[v.Name.Name] = v
			}
		}
	}
	// ecc.MultiExpConfig: read from ecc/ecc.go (int / bool fields only)
	ef, err := parser.ParseFile(p.fset, filepath.Join(repo, "ecc", "ecc.go"), nil, 0)
	if err != nil {
		die("imp/kzgopen: parse: %v", err)
	}
	found := false
	ast.Inspect(ef, func(n ast.Node) bool {
		if ts, ok := n.(*ast.TypeSpec); ok && ts.Name.Name == "MultiExpConfig" {
			st, ok := ts.Type.(*ast.StructType)
			if !ok {
				p.die(ts, "MultiExpConfig is not a struct")
			}
			found = true
			for _, fl := range st.Fields.List {
				t := p.goType(fl.Type)
				if t.k != "int" && t.k != "bool" {
					p.die(fl, "MultiExpConfig field type")
				}
				for _, nm := range fl.Names {
					p.cfgFields = append(p.cfgFields, kzField{nm.Name, t})
				}
			}
		}
		return true
	})
	if !found {
		die("imp/kzgopen: ecc.MultiExpConfig not found")
	}
	return p
}

// ---------------------------------------------------------------------------------------------- expressions

func (f *kzFn) declare(at ast.Node, n string, t *kzTy) {
	if n == "_" {
		return
	}
	if _, ok := f.vars[n]; ok {
		f.p.die(at, "%s shadows / redeclares a live variable", n)
	}
	if _, ok := f.p.funcs[n]; ok {
		f.p.die(at, "%s shadows a function", n)
	}
	f.vars[n] = t
	f.order = append(f.order, n)
}

func (f *kzFn) expr(e ast.Expr, want *kzTy) (string, *kzTy) {
	p := f.p
	switch v := e.(type) {
	case *ast.ParenExpr:
		return f.expr(v.X, want)
	case *ast.BasicLit:
		if v.Kind == token.INT {
			return v.Value, &kzTy{k: "int"}
		}
	case *ast.Ident:
		if v.Name == "nil" && want != nil && want.k == "err" {
			return "Err.nil", want
		}
		if t, ok := f.vars[v.Name]; ok {
			return kzName(v.Name), t
		}
		if _, ok := p.errMsg[v.Name]; ok {
			return v.Name, &kzTy{k: "err"}
		}
	case *ast.SelectorExpr:
		xs, xt := f.expr(v.X, nil)
		for _, fl := range p.fieldsOf(xt) {
			if fl.name == v.Sel.Name {
				return kzParen(xs) + "." + fl.name, fl.ty
			}
		}
		p.die(e, "selector %s on %v", v.Sel.Name, xt.k)
	case *ast.IndexExpr:
		xs, xt := f.expr(v.X, nil)
		is, it := f.expr(v.Index, nil)
		if xt.k != "slice" || it.k != "int" {
			p.die(e, "index expression types")
		}
		return "idxD " + p.zero(xt.elem) + " " + kzParen(xs) + " " + kzParen(is), xt.elem
	case *ast.SliceExpr:
		xs, xt := f.expr(v.X, nil)
		if xt.k != "slice" || v.Max != nil {
			p.die(e, "slice expression form")
		}
		out := xs
		if v.High != nil {
			hs, ht := f.expr(v.High, nil)
			if ht.k != "int" {
				p.die(e, "slice bound type")
			}
			out = "List.take (Int.toNat " + kzParen(hs) + ") " + kzParen(out)
		}
		if v.Low != nil {
			ls, lt := f.expr(v.Low, nil)
			if lt.k != "int" {
				p.die(e, "slice bound type")
			}
			out = "List.drop (Int.toNat " + kzParen(ls) + ") " + kzParen(out)
		}
		return out, xt
	case *ast.UnaryExpr:
		if v.Op == token.SUB {
			xs, xt := f.expr(v.X, nil)
			if xt.k == "int" {
				return "-" + kzParen(xs), xt
			}
		}
	case *ast.BinaryExpr:
		switch v.Op {
		case token.LOR, token.LAND:
			xs, xt := f.expr(v.X, nil)
			ys, yt := f.expr(v.Y, nil)
			if xt.k != "prop" || yt.k != "prop" {
				p.die(e, "%s on non-conditions", v.Op)
			}
			return xs + map[token.Token]string{token.LOR: " ∨ ", token.LAND: " ∧ "}[v.Op] + ys, xt
		case token.EQL, token.NEQ, token.LSS, token.LEQ, token.GTR, token.GEQ:
			xs, xt := f.expr(v.X, nil)
			ys, yt := f.expr(v.Y, xt)
			ok := xt.eq(yt) && (xt.k == "int" || (xt.k == "err" && (v.Op == token.EQL || v.Op == token.NEQ)))
			if !ok {
				p.die(e, "comparison of %v and %v", xt.k, yt.k)
			}
			op := map[token.Token]string{token.EQL: "=", token.NEQ: "≠", token.LSS: "<", token.LEQ: "≤", token.GTR: ">", token.GEQ: "≥"}[v.Op]
			return "(" + xs + " " + op + " " + ys + ")", &kzTy{k: "prop"}
		case token.ADD, token.SUB:
			xs, xt := f.expr(v.X, nil)
			ys, yt := f.expr(v.Y, nil)
			if xt.k != "int" || yt.k != "int" {
				p.die(e, "%s on non-int", v.Op)
			}
			return kzParen(xs) + " " + v.Op.String() + " " + kzParen(ys), xt
		}
	case *ast.CompositeLit:
		t := p.goType(v.Type)
		if len(v.Elts) == 0 {
			return p.zero(t), t
		}
		fs := p.fieldsOf(t)
		if fs == nil {
			p.die(e, "composite literal of %v", t.k)
		}
		given := map[string]string{}
		for _, el := range v.Elts {
			kv, ok := el.(*ast.KeyValueExpr)
			if !ok {
				p.die(el, "unkeyed composite literal")
			}
			fname := kv.Key.(*ast.Ident).Name
			var ft *kzTy
			for _, fl := range fs {
				if fl.name == fname {
					ft = fl.ty
				}
			}
			if ft == nil {
				p.die(el, "no field %s", fname)
			}
			vs, vt := f.expr(kv.Value, ft)
			if !vt.eq(ft) {
				p.die(el, "field %s type", fname)
			}
			if vt.k == "slice" {
				p.die(el, "slice stored in a struct (aliasing outside the subset)")
			}
			given[fname] = vs
		}
		var parts []string
		for _, fl := range fs {
			if g, ok := given[fl.name]; ok {
				parts = append(parts, fl.name+" := "+g)
			} else {
				parts = append(parts, fl.name+" := "+p.zero(fl.ty))
			}
		}
		return "({ " + strings.Join(parts, ", ") + " } : " + p.lty(t) + ")", t
	case *ast.CallExpr:
		switch exprText(v.Fun) {
		case "len":
			if len(v.Args) == 1 {
				xs, xt := f.expr(v.Args[0], nil)
				if xt.k == "slice" {
					return "len " + kzParen(xs), &kzTy{k: "int"}
				}
			}
			p.die(e, "len form")
		case "make":
			if len(v.Args) == 2 {
				t := p.goType(v.Args[0])
				ns, nt := f.expr(v.Args[1], nil)
				if t.k == "slice" && nt.k == "int" {
					return "List.replicate (Int.toNat " + kzParen(ns) + ") " + p.zero(t.elem), t
				}
			}
			p.die(e, "make form")
		}
		if id, ok := v.Fun.(*ast.Ident); ok {
			if sig := p.sigs[id.Name]; sig != nil {
				if len(sig.writes) != 0 || len(sig.results) != 1 {
					p.die(e, "call of %s in expression position (it overwrites a parameter or has several results)", id.Name)
				}
				return f.callTxt(v, sig), sig.results[0]
			}
		}
	}
	p.die(e, "expression outside the subset: %s", exprText(e))
	return "", nil
}

func kzParen(s string) string {
	if strings.ContainsAny(s, " ") && !(strings.HasPrefix(s, "(") && matchingParen(s)) {
		return "(" + s + ")"
	}
	return s
}

// the call text `name <params> args…` of a translated package-local function (a missing variadic tail = [])
func (f *kzFn) callTxt(v *ast.CallExpr, sig *kzSig) string {
	p := f.p
	name := v.Fun.(*ast.Ident).Name
	if v.Ellipsis.IsValid() {
		p.die(v, "call with ...")
	}
	n := len(sig.params)
	if sig.variadic {
		n--
	}
	if len(v.Args) < n || (!sig.variadic && len(v.Args) != n) {
		p.die(v, "call of %s: arity", name)
	}
	out := name + kzArgs
	for i := 0; i < n; i++ {
		as, at := f.expr(v.Args[i], sig.params[i])
		if !at.eq(sig.params[i]) {
			p.die(v.Args[i], "argument %d of %s: type", i, name)
		}
		out += " " + kzParen(as)
	}
	if sig.variadic {
		var els []string
		for _, a := range v.Args[n:] {
			as, at := f.expr(a, sig.params[n].elem)
			if !at.eq(sig.params[n].elem) {
				p.die(a, "variadic argument type")
			}
			els = append(els, as)
		}
		out += " [" + strings.Join(els, ", ") + "]"
	}
	return out
}

// ---------------------------------------------------------------------------------------------- writes / aliasing

// x is about to have elements overwritten
func (f *kzFn) noteWrite(at ast.Node, x string) {
	if f.frozen[x] {
		f.p.die(at, "write to %s after it has been aliased by a slice returned from a call", x)
	}
	if i, ok := f.isParam[x]; ok {
		for _, w := range f.sig.writes {
			if w == i {
				return
			}
		}
		f.sig.writes = append(f.sig.writes, i)
		return
	}
	if !f.owned[x] {
		f.p.die(at, "element write to %s, which is neither a parameter nor a local created by make in this function", x)
	}
}

// an lvalue path: ident | ident[i] | ident.f ; returns (read expression, type, write-back as a function of the new value)
func (f *kzFn) place(e ast.Expr) (string, *kzTy, func(string) string) {
	p := f.p
	if u, ok := e.(*ast.UnaryExpr); ok && u.Op == token.AND {
		e = u.X
	}
	switch v := e.(type) {
	case *ast.Ident:
		t, ok := f.vars[v.Name]
		if !ok {
			p.die(e, "unknown variable %s", v.Name)
		}
		n := kzName(v.Name)
		return n, t, func(val string) string {
			if t.k == "slice" {
				p.die(e, "assignment of a whole slice")
			}
			return "let " + n + " := " + val
		}
	case *ast.IndexExpr:
		if se, ok := v.X.(*ast.SelectorExpr); ok {
			// x.f[i] for a local struct x whose slice field f was created by make in this function
			id, ok := se.X.(*ast.Ident)
			if !ok {
				p.die(e, "element of a field of something that is not a variable")
			}
			if _, isP := f.isParam[id.Name]; isP {
				p.die(e, "element write through a field of the parameter %s", id.Name)
			}
			xs, xt := f.expr(se, nil)
			is, it := f.expr(v.Index, nil)
			if xt.k != "slice" || it.k != "int" {
				p.die(e, "element place types")
			}
			n := kzName(id.Name)
			return "idxD " + p.zero(xt.elem) + " " + kzParen(xs) + " " + kzParen(is), xt.elem, func(val string) string {
				f.noteWrite(e, exprText(se))
				return "let " + n + " := { " + n + " with " + se.Sel.Name + " := setAt " + xs + " " + kzParen(is) + " " + kzParen(val) + " }"
			}
		}
		id, ok := v.X.(*ast.Ident)
		if !ok {
			p.die(e, "element of something that is not a variable")
		}
		t, ok := f.vars[id.Name]
		is, it := f.expr(v.Index, nil)
		if !ok || t.k != "slice" || it.k != "int" {
			p.die(e, "element place types")
		}
		n := kzName(id.Name)
		return "idxD " + p.zero(t.elem) + " " + n + " " + kzParen(is), t.elem, func(val string) string {
			f.noteWrite(e, id.Name)
			return "let " + n + " := setAt " + n + " " + kzParen(is) + " " + kzParen(val)
		}
	case *ast.SelectorExpr:
		id, ok := v.X.(*ast.Ident)
		if !ok {
			p.die(e, "field of something that is not a variable")
		}
		t, ok := f.vars[id.Name]
		if !ok {
			p.die(e, "unknown variable %s", id.Name)
		}
		if _, isP := f.isParam[id.Name]; isP {
			p.die(e, "write to a field of the parameter %s", id.Name)
		}
		n := kzName(id.Name)
		for _, fl := range p.fieldsOf(t) {
			if fl.name == v.Sel.Name {
				return n + "." + fl.name, fl.ty, func(val string) string {
					if fl.ty.k == "slice" {
						p.die(e, "assignment of a whole slice")
					}
					return "let " + n + " := { " + n + " with " + fl.name + " := " + val + " }"
				}
			}
		}
	}
	p.die(e, "place outside the subset: %s", exprText(e))
	return "", nil, nil
}

// element / point method statement, possibly a chain on the same receiver
func (f *kzFn) methodStmt(call *ast.CallExpr) []string {
	p := f.p
	se, ok := call.Fun.(*ast.SelectorExpr)
	if !ok {
		p.die(call, "call statement outside the subset")
	}
	var lines []string
	recv := se.X
	if inner, ok := se.X.(*ast.CallExpr); ok {
		lines = f.methodStmt(inner)
		r := inner
		for {
			ise := r.Fun.(*ast.SelectorExpr)
			if c2, ok := ise.X.(*ast.CallExpr); ok {
				r = c2
				continue
			}
			recv = ise.X
			break
		}
	}
	_, rt, wb := f.place(recv)
	var args []string
	for _, a := range call.Args {
		u, ok := a.(*ast.UnaryExpr)
		if !ok || u.Op != token.AND {
			p.die(a, "method operand must be &place")
		}
		as, at := f.expr(u.X, nil)
		if !at.eq(rt) {
			p.die(a, "operand type")
		}
		args = append(args, kzParen(as))
	}
	var val string
	m := se.Sel.Name
	p.usedMethods[rt.k+"."+m] = true
	switch {
	case m == "Set" && len(args) == 1 && (rt.k == "elem" || rt.k == "point"):
		val = args[0]
	case rt.k == "elem" && len(args) == 2 && (m == "Add" || m == "Sub" || m == "Mul"):
		val = strings.ToLower(m) + " " + args[0] + " " + args[1]
	default:
		p.die(call, "method %s on %v outside the subset", m, rt.k)
	}
	return append(lines, wb(val))
}

// ---------------------------------------------------------------------------------------------- statements

func (f *kzFn) retTy() string {
	var ts []string
	for _, w := range f.sig.writes {
		ts = append(ts, f.p.ltyA(f.sig.params[w]))
	}
	for _, r := range f.sig.results {
		ts = append(ts, f.p.ltyA(r))
	}
	return strings.Join(ts, " × ")
}

func kzTuple(vs []string) string {
	if len(vs) == 1 {
		return vs[0]
	}
	return "(" + strings.Join(vs, ", ") + ")"
}

// simple statement → let lines
func (f *kzFn) simple(s ast.Stmt, prev ast.Stmt) []string {
	p := f.p
	switch v := s.(type) {
	case *ast.DeclStmt:
		gd := v.Decl.(*ast.GenDecl)
		if gd.Tok != token.VAR {
			p.die(s, "declaration")
		}
		var out []string
		for _, sp := range gd.Specs {
			vs := sp.(*ast.ValueSpec)
			if len(vs.Values) != 0 || vs.Type == nil {
				p.die(s, "var with initialiser")
			}
			t := p.goType(vs.Type)
			if t.k == "slice" {
				p.die(s, "var of slice type")
			}
			for _, n := range vs.Names {
				f.declare(s, n.Name, t)
				if t.k == "waitgroup" { // synchronisation only (see goLoopLines)
					continue
				}
				out = append(out, "let "+kzName(n.Name)+" : "+p.lty(t)+" := "+p.zero(t))
			}
		}
		return out
	case *ast.ExprStmt:
		call, ok := v.X.(*ast.CallExpr)
		if !ok {
			p.die(s, "expression statement")
		}
		if se, ok := call.Fun.(*ast.SelectorExpr); ok {
			if id, ok := se.X.(*ast.Ident); ok && f.vars[id.Name] != nil && f.vars[id.Name].k == "waitgroup" {
				if se.Sel.Name == "Add" || se.Sel.Name == "Wait" {
					return nil // synchronisation only: goLoopLines checks that Wait directly follows the loop that starts the goroutines
				}
				p.die(s, "WaitGroup.%s here", se.Sel.Name)
			}
		}
		if exprText(call.Fun) == "copy" && len(call.Args) == 2 {
			dst, ok := call.Args[0].(*ast.Ident)
			okPrev := false
			if as, isAs := prev.(*ast.AssignStmt); ok && isAs && as.Tok == token.DEFINE && len(as.Lhs) == 1 && exprText(as.Lhs[0]) == dst.Name {
				if c, isC := as.Rhs[0].(*ast.CallExpr); isC && exprText(c.Fun) == "make" {
					okPrev = true
				}
			}
			if !okPrev {
				p.die(s, "copy whose destination was not created by make in the statement just before")
			}
			ss, st := f.expr(call.Args[1], nil)
			if !st.eq(f.vars[dst.Name]) {
				p.die(s, "copy types")
			}
			f.noteWrite(s, dst.Name)
			return []string{"let " + kzName(dst.Name) + " := copy " + kzName(dst.Name) + " " + kzParen(ss)}
		}
		return f.methodStmt(call)
	case *ast.AssignStmt:
		if v.Tok == token.ASSIGN && len(v.Lhs) == 1 && len(v.Rhs) == 1 {
			if lines := f.sliceAssign(v); lines != nil {
				return lines
			}
			_, lt, wb := f.place(v.Lhs[0])
			es, et := f.expr(v.Rhs[0], lt)
			if !et.eq(lt) || lt.k == "slice" {
				p.die(s, "assignment types")
			}
			return []string{wb(es)}
		}
		if v.Tok == token.ASSIGN && len(v.Lhs) == 2 && len(v.Rhs) == 1 {
			return f.tupleAssign(v)
		}
		if v.Tok != token.DEFINE || len(v.Rhs) != 1 {
			p.die(s, "assignment form")
		}
		if lines, ok := f.defineSpecial(v); ok {
			return lines
		}
		var ids []string
		for _, l := range v.Lhs {
			id, ok := l.(*ast.Ident)
			if !ok {
				p.die(s, ":= to a non-variable")
			}
			ids = append(ids, id.Name)
		}
		// method call with results: only `_, err := recv.MultiExp(points, scalars, config)`
		if call, ok := v.Rhs[0].(*ast.CallExpr); ok {
			if se, ok := call.Fun.(*ast.SelectorExpr); ok {
				if se.Sel.Name == "MultiExp" && len(call.Args) == 3 && len(ids) == 2 && ids[0] == "_" {
					rs, rt, wb := f.place(se.X)
					ps, pt := f.expr(call.Args[0], nil)
					ss, st := f.expr(call.Args[1], nil)
					cs, ct := f.expr(call.Args[2], nil)
					if rt.k != "point" || !pt.eq(&kzTy{k: "slice", elem: &kzTy{k: "point"}}) || !st.eq(&kzTy{k: "slice", elem: &kzTy{k: "elem"}}) || ct.k != "cfg" {
						p.die(s, "MultiExp operand types")
					}
					if _, isId := se.X.(*ast.Ident); !isId {
						p.die(s, "MultiExp receiver must be a variable")
					}
					f.declare(s, ids[1], &kzTy{k: "err"})
					_ = wb
					return []string{"let (" + rs + ", " + kzName(ids[1]) + ") := multiExp " + rs + " " + kzParen(ps) + " " + kzParen(ss) + " " + kzParen(cs)}
				}
				p.die(s, "method call %s with results outside the subset", se.Sel.Name)
			}
			if id, ok := call.Fun.(*ast.Ident); ok && p.sigs[id.Name] != nil {
				sig := p.sigs[id.Name]
				if len(ids) != len(sig.results) {
					p.die(s, "result count of %s", id.Name)
				}
				txt := f.callTxt(call, sig)
				var pats []string
				for _, w := range sig.writes {
					a, ok := call.Args[w].(*ast.Ident)
					if !ok {
						p.die(call.Args[w], "argument for the overwritten parameter %s of %s must be a variable", sig.pnames[w], id.Name)
					}
					f.noteWrite(call.Args[w], a.Name)
					pats = append(pats, kzName(a.Name))
				}
				for i, n := range ids {
					f.declare(s, n, sig.results[i])
					if n == "_" {
						pats = append(pats, "_")
					} else {
						pats = append(pats, kzName(n))
					}
					if pi, ok := sig.alias[i]; ok {
						a, isId := call.Args[pi].(*ast.Ident)
						if !isId {
							p.die(call.Args[pi], "argument aliased by the result of %s must be a variable", id.Name)
						}
						f.frozen[a.Name] = true
						f.frozen[n] = true
					}
				}
				return []string{"let " + kzTuple(pats) + " := " + txt}
			}
		}
		if len(ids) != 1 {
			p.die(s, "tuple assignment outside the subset")
		}
		es, et := f.expr(v.Rhs[0], nil)
		if et.k == "slice" {
			c, ok := v.Rhs[0].(*ast.CallExpr)
			if !ok || exprText(c.Fun) != "make" {
				p.die(s, "slice-typed := whose right-hand side is not make(..) or a call (aliasing outside the subset)")
			}
			f.owned[ids[0]] = true
		}
		if et.k == "prop" {
			p.die(s, "boolean variable")
		}
		f.declare(s, ids[0], et)
		return []string{"let " + kzName(ids[0]) + " : " + p.lty(et) + " := " + es}
	}
	p.die(s, "statement outside the subset (%T)", s)
	return nil
}

func kzHasReturn(list []ast.Stmt) bool {
	r := false
	for _, s := range list {
		ast.Inspect(s, func(n ast.Node) bool {
			if _, ok := n.(*ast.ReturnStmt); ok {
				r = true
			}
			return true
		})
	}
	return r
}

func kzFalls(list []ast.Stmt) bool {
	if len(list) == 0 {
		return true
	}
	if _, ok := list[len(list)-1].(*ast.ReturnStmt); ok {
		return false
	}
	return true
}

// variables (live before the statement list) whose VALUE the list changes
func (f *kzFn) assignedIn(list []ast.Stmt) []string {
	set := map[string]bool{}
	for _, s := range list {
		ast.Inspect(s, func(n ast.Node) bool {
			switch v := n.(type) {
			case *ast.AssignStmt:
				if v.Tok == token.ASSIGN {
					for _, l := range v.Lhs {
						set[rootOf(l)] = true
					}
				}
				// `_, err := recv.MultiExp(..)` writes recv; a call of a writer function writes its arguments
				if c, ok := v.Rhs[0].(*ast.CallExpr); ok {
					if se, ok := c.Fun.(*ast.SelectorExpr); ok {
						set[rootOf(se.X)] = true
					}
					if id, ok := c.Fun.(*ast.Ident); ok && f.p.sigs[id.Name] != nil {
						for _, w := range f.p.sigs[id.Name].writes {
							set[rootOf(c.Args[w])] = true
						}
					}
				}
			case *ast.IncDecStmt:
				set[rootOf(v.X)] = true
			case *ast.ExprStmt:
				if c, ok := v.X.(*ast.CallExpr); ok {
					if exprText(c.Fun) == "copy" {
						set[rootOf(c.Args[0])] = true
					}
					for {
						se, ok := c.Fun.(*ast.SelectorExpr)
						if !ok {
							break
						}
						if c2, ok := se.X.(*ast.CallExpr); ok {
							c = c2
							continue
						}
						set[rootOf(se.X)] = true
						break
					}
				}
			}
			return true
		})
	}
	var out []string
	for _, n := range f.order {
		if t, live := f.vars[n]; live && set[n] && t.k != "waitgroup" && t.k != "chan" {
			dup := false
			for _, o := range out {
				dup = dup || o == n
			}
			if !dup {
				out = append(out, n)
			}
		}
	}
	return out
}

func (f *kzFn) freeIn(nodes ...ast.Node) map[string]bool {
	set := map[string]bool{}
	for _, n := range nodes {
		ast.Inspect(n, func(m ast.Node) bool {
			if id, ok := m.(*ast.Ident); ok {
				set[id.Name] = true
			}
			return true
		})
	}
	return set
}

func (f *kzFn) dropScope(names []string) {
	for _, n := range names {
		delete(f.vars, n)
	}
}

func (f *kzFn) declaredSince(mark int) []string { return append([]string{}, f.order[mark:]...) }

// statement list → Lean term (ind = indentation)
func (f *kzFn) seq(list []ast.Stmt, ind string, prev ast.Stmt) string {
	p := f.p
	if len(list) == 0 {
		p.die(f.p.funcs[f.name], "control reaches the end of the function without return")
	}
	s, rest := list[0], list[1:]
	switch v := s.(type) {
	case *ast.ReturnStmt:
		return ind + f.retVals(v) + "\n"
	case *ast.IfStmt:
		if v.Else != nil {
			p.die(s, "else branch")
		}
		if !kzHasReturn(v.Body.List) {
			return kzEmit(f.stmtLines(s, prev), ind) + f.seq(rest, ind, s)
		}
		mark := len(f.order)
		head := ""
		if v.Init != nil {
			for _, l := range f.simple(v.Init, nil) {
				head += ind + l + "\n"
			}
		}
		cs, ct := f.expr(v.Cond, nil)
		if ct.k != "prop" {
			p.die(s, "condition type")
		}
		// the body returns on some path: `if c then body;rest else rest` (rest duplicated when the body can fall through)
		saveVars, saveOrder := copyVars(f.vars), append([]string{}, f.order...)
		saveFrozen, saveOwned := copySet(f.frozen), copySet(f.owned)
		thenList := append([]ast.Stmt{}, v.Body.List...)
		if kzFalls(v.Body.List) {
			thenList = append(thenList, rest...)
		}
		thenTxt := f.seq(thenList, ind+"  ", nil)
		f.vars, f.order, f.frozen, f.owned = saveVars, saveOrder, saveFrozen, saveOwned
		f.dropScope(f.declaredSince(mark))
		elseTxt := f.seq(rest, ind, s)
		return head + ind + "if " + cs + " then\n" + thenTxt + ind + "else\n" + elseTxt
	case *ast.ForStmt:
		out := kzEmit(f.stmtLines(s, prev), ind)
		if f.needWait {
			// the loop started goroutines: the next statement must wait for all of them
			f.needWait = false
			if len(rest) == 0 || !f.isWgCall(rest[0], "Wait") {
				p.die(s, "a loop that starts goroutines must be followed directly by wg.Wait()")
			}
		}
		return out + f.seq(rest, ind, s)
	case *ast.RangeStmt:
		return f.rangeStmt(v, rest, ind)
	case *ast.GoStmt:
		return f.goChan(v, rest, ind)
	case *ast.BlockStmt, *ast.SwitchStmt, *ast.DeferStmt, *ast.BranchStmt, *ast.SelectStmt, *ast.SendStmt, *ast.LabeledStmt, *ast.TypeSwitchStmt:
		p.die(s, "statement outside the subset (%T)", s)
	}
	return kzEmit(f.stmtLines(s, prev), ind) + f.seq(rest, ind, s)
}

func copyVars(m map[string]*kzTy) map[string]*kzTy {
	c := map[string]*kzTy{}
	for k, v := range m {
		c[k] = v
	}
	return c
}

// ---------------------------------------------------------------------------------------------- functions and files

func (p *kzPkg) translate(name string) string {
	fd := p.funcs[name]
	if fd == nil || fd.Body == nil {
		die("imp/kzgopen %s: function %s not found", p.curve, name)
	}
	sig := &kzSig{alias: map[int]int{}}
	f := &kzFn{p: p, name: name, sig: sig, vars: map[string]*kzTy{}, isParam: map[string]int{}, owned: map[string]bool{}, frozen: map[string]bool{}}
	var params []string
	for _, fl := range fd.Type.Params.List {
		t := p.goType(fl.Type)
		if _, ok := fl.Type.(*ast.Ellipsis); ok {
			sig.variadic = true
		}
		if len(fl.Names) == 0 {
			p.die(fl, "unnamed parameter")
		}
		for _, n := range fl.Names {
			f.declare(fl, n.Name, t)
			f.isParam[n.Name] = len(sig.params)
			sig.params = append(sig.params, t)
			sig.pnames = append(sig.pnames, n.Name)
			params = append(params, "("+kzName(n.Name)+" : "+p.lty(t)+")")
		}
	}
	if fd.Type.Results == nil {
		p.die(fd, "function without results")
	}
	for _, fl := range fd.Type.Results.List {
		if len(fl.Names) > 0 {
			p.die(fl, "named results")
		}
		sig.results = append(sig.results, p.goType(fl.Type))
	}
	// the set of overwritten parameters must be known before `return` is emitted: translate twice (the first run only collects it)
	f.seq(fd.Body.List, "  ", nil)
	writes, alias := sig.writes, sig.alias
	f = &kzFn{p: p, name: name, sig: sig, vars: map[string]*kzTy{}, isParam: f.isParam, owned: map[string]bool{}, frozen: map[string]bool{}}
	for i, n := range sig.pnames {
		f.vars[n] = sig.params[i]
		f.order = append(f.order, n)
	}
	body := f.seq(fd.Body.List, "  ", nil)
	if len(sig.writes) != len(writes) || len(sig.alias) != len(alias) {
		p.die(fd, "internal: unstable write set")
	}
	p.sigs[name] = sig
	var b strings.Builder
	for _, h := range f.helpers {
		b.WriteString(h + "\n")
	}
	var wn []string
	for _, w := range sig.writes {
		wn = append(wn, fmt.Sprintf("%q", sig.pnames[w]))
	}
	fmt.Fprintf(&b, "/-- slice parameters of `%s` whose elements the Go function overwrites (their new contents are returned first) -/\ndef %s.writes : List String := [%s]\n", name, name, strings.Join(wn, ", "))
	var an []string
	for i := range sig.results {
		if pi, ok := sig.alias[i]; ok {
			an = append(an, fmt.Sprintf("(%d, %q)", i, sig.pnames[pi]))
		}
	}
	fmt.Fprintf(&b, "/-- results of `%s` that share memory with a parameter: (result index, parameter) -/\ndef %s.aliases : List (Nat × String) := [%s]\n", name, name, strings.Join(an, ", "))
	fmt.Fprintf(&b, "/-- %s/kzg.go line %d: `func %s` -/\ndef %s%s%s %s : %s :=\n%s\n", p.dir, p.fset.Position(fd.Pos()).Line, name, name, kzParams, f.extra, strings.Join(params, " "), f.retTy(), body)
	return b.String()
}

func runKzgOpen() {
	for ci, c := range groupCurves {
		ns := "KzgOpen_" + strings.ReplaceAll(c, "-", "_")
		outName := "Imp/" + ns + ".lean"
		// a failed translation must not leave a previous run's file behind: neither of this package nor of the ones not reached yet
		dieHook = func() {
			for _, d := range groupCurves[ci:] {
				os.Remove(filepath.Join(outDir, "Imp/KzgOpen_"+strings.ReplaceAll(d, "-", "_")+".lean"))
			}
		}
		p := loadKzg(c)
		var fns strings.Builder
		for _, fn := range kzgOpenFuncs {
			fns.WriteString(p.translate(fn))
		}
		p.checkReturnsReceiver()
		var b strings.Builder
		fmt.Fprintf(&b, "/- GENERATED by tools/goslp (impkzg.go) from /repo/%s/kzg.go on every run. DO NOT EDIT.\n", p.dir)
		b.WriteString("   Statement-by-statement translation of the prover side of KZG over an abstract scalar type F and group-element type G;\n   vocabulary: Model/GoImp.lean; parameters and checked side conditions: see the header of tools/goslp/impkzg.go. -/\n")
		b.WriteString("import GnarkVerif.Model.GoImpSlice\n\nset_option linter.unusedVariables false\n\n")
		fmt.Fprintf(&b, "namespace GV.Gen.Imp.%s\nopen GV.GoImp\n\n", ns)
		for _, e := range p.errVars {
			fmt.Fprintf(&b, "/-- `var %s = errors.New(%s)` -/\n@[reducible] def %s : Err := Err.sentinel %q\n", e, strings.ReplaceAll(p.errMsg[e], "-/", "- /"), e, e)
		}
		b.WriteString("\n/-- ecc/ecc.go `type MultiExpConfig struct` -/\nstructure MultiExpConfig where\n")
		for _, fl := range p.cfgFields {
			fmt.Fprintf(&b, "  %s : %s\n", fl.name, p.lty(fl.ty))
		}
		b.WriteString("\n")
		for _, sn := range p.structOrd {
			fmt.Fprintf(&b, "/-- `type %s struct` -/\nstructure %s (F G : Type) where\n", sn, sn)
			for _, fl := range p.structs[sn] {
				fmt.Fprintf(&b, "  %s : %s\n", fl.name, p.lty(fl.ty))
			}
			b.WriteString("\n")
		}
		b.WriteString(fns.String())
		fmt.Fprintf(&b, "end GV.Gen.Imp.%s\n", ns)
		writeFile(outName, b.String())
		dieHook = nil
	}
}

// A chain `z.Mul(..).Add(..)` is read as a sequence on z, and `z.M(..)` as a statement: sound when the method returns its receiver.
// Every declaration WITH A BODY of every method used (fr.Element: ecc/<curve>/fr/*.go, all build-tag variants; G1Affine: ecc/<curve>/*.go) must
// have a pointer receiver named r and only `return r` statements; at least one such declaration must exist.
func (p *kzPkg) checkReturnsReceiver() {
	for km := range p.usedMethods {
		parts := strings.SplitN(km, ".", 2)
		dir, recvTy := filepath.Join(repo, "ecc", p.curve, "fr"), "Element"
		if parts[0] == "point" {
			dir, recvTy = filepath.Join(repo, "ecc", p.curve), "G1Affine"
		}
		files, _ := filepath.Glob(filepath.Join(dir, "*.go"))
		found := 0
		for _, fn := range files {
			if strings.HasSuffix(fn, "_test.go") {
				continue
			}
			af, err := parser.ParseFile(p.fset, fn, nil, 0)
			if err != nil {
				die("imp/kzgopen: parse: %v", err)
			}
			for _, d := range af.Decls {
				fd, ok := d.(*ast.FuncDecl)
				if !ok || fd.Recv == nil || fd.Name.Name != parts[1] || fd.Body == nil || len(fd.Recv.List) != 1 {
					continue
				}
				st, ok := fd.Recv.List[0].Type.(*ast.StarExpr)
				if !ok || exprText(st.X) != recvTy || len(fd.Recv.List[0].Names) != 1 {
					continue
				}
				rn := fd.Recv.List[0].Names[0].Name
				found++
				nret := 0
				ast.Inspect(fd.Body, func(n ast.Node) bool {
					if _, isLit := n.(*ast.FuncLit); isLit {
						return false
					}
					if r, ok := n.(*ast.ReturnStmt); ok {
						nret++
						if len(r.Results) != 1 || exprText(r.Results[0]) != rn {
							p.die(r, "method %s.%s does not return its receiver (chains / statements on it are read as sequences)", recvTy, parts[1])
						}
					}
					return true
				})
				if nret == 0 {
					p.die(fd, "method %s.%s has no return", recvTy, parts[1])
				}
			}
		}
		if found == 0 {
			die("imp/kzgopen %s: no declaration with a body of method %s.%s", p.curve, recvTy, parts[1])
		}
	}
}
