// Part 7 (polydispatch.go): the form dispatch of ecc/<curve>/fr/iop/polynomial.go (7 packages) -> Gen/PolyDispatch.lean (C20).
//
// Recorded AS WRITTEN (nothing about the expected table is known to this pass):
//   - the `Basis` / `Layout` constant blocks (`X T = <literal> << iota` + following names), the fields of `type Form struct`, the six
//     form ids `var ( canonicalRegular = Form{Canonical, Regular} … )` resolved to (Basis name, Layout name) through the field order,
//   - ToLagrange / ToCanonical / ToLagrangeCoset: the ORDERED effects before the switch, of every `case` (label list + effects), of
//     `default`, and after the switch,
//   - ToRegular / ToBitReverse: the guard `if p.Layout == X { … }` and the effects after it,
//   - Evaluate / evaluate / GetCoeff: the case structure (if / else / for / closure nesting) with a parsed form for the conditions and
//     statements that match an expected pattern; every other statement of these three is kept verbatim as an opaque text item.
//
// A statement of the five conversion functions outside the effect grammar below is FATAL (gvgoslp exits non-zero).
package main

import (
	"bytes"
	"fmt"
	"go/ast"
	"go/parser"
	"go/printer"
	"go/token"
	"path/filepath"
	"strings"
)

var polyDirs = []string{"bn254", "bls12-377", "bls12-381", "bls24-315", "bls24-317", "bw6-633", "bw6-761"}

type pdPkg struct {
	dir  string
	fset *token.FileSet
	file *ast.File
}

func (p *pdPkg) die(n ast.Node, f string, a ...any) {
	pos := p.fset.Position(n.Pos())
	die("polydispatch: %s:%d: %s", pos.Filename, pos.Line, fmt.Sprintf(f, a...))
}

// source text of a node on one line, white space normalised
func pdText(n ast.Node) string {
	var b bytes.Buffer
	cfg := printer.Config{Mode: printer.RawFormat, Tabwidth: 1}
	cfg.Fprint(&b, token.NewFileSet(), n)
	return strings.Join(strings.Fields(b.String()), " ")
}

func pdIdent(e ast.Expr) (string, bool) {
	id, ok := e.(*ast.Ident)
	if !ok {
		return "", false
	}
	return id.Name, true
}

// `a.b` with identifiers a, b
func pdSel(e ast.Expr) (string, string, bool) {
	se, ok := e.(*ast.SelectorExpr)
	if !ok {
		return "", "", false
	}
	x, ok := pdIdent(se.X)
	if !ok {
		return "", "", false
	}
	return x, se.Sel.Name, true
}

func (p *pdPkg) method(name, recvType string) (*ast.FuncDecl, string) {
	for _, d := range p.file.Decls {
		fd, ok := d.(*ast.FuncDecl)
		if !ok || fd.Name.Name != name || fd.Recv == nil || len(fd.Recv.List) != 1 {
			continue
		}
		st, ok := fd.Recv.List[0].Type.(*ast.StarExpr)
		if !ok {
			continue
		}
		if id, ok := st.X.(*ast.Ident); ok && id.Name == recvType && len(fd.Recv.List[0].Names) == 1 {
			return fd, fd.Recv.List[0].Names[0].Name
		}
	}
	die("polydispatch: %s: method (*%s).%s not found", p.dir, recvType, name)
	return nil, ""
}

// ---- constant blocks, Form, form ids ----

// `const ( A T = <lit> << iota; B; C )`
func (p *pdPkg) constBlock(typ string) string {
	for _, d := range p.file.Decls {
		gd, ok := d.(*ast.GenDecl)
		if !ok || gd.Tok != token.CONST || len(gd.Specs) == 0 {
			continue
		}
		first := gd.Specs[0].(*ast.ValueSpec)
		if t, ok := first.Type.(*ast.Ident); !ok || t.Name != typ {
			continue
		}
		if len(first.Names) != 1 || len(first.Values) != 1 {
			p.die(first, "const block of %s: first entry is not `X %s = <literal> << iota`", typ, typ)
		}
		be, ok := first.Values[0].(*ast.BinaryExpr)
		if !ok || be.Op != token.SHL {
			p.die(first, "const block of %s: first entry is not `<literal> << iota`", typ)
		}
		base := litInt(be.X)
		if y, ok := pdIdent(be.Y); base == nil || !ok || y != "iota" {
			p.die(first, "const block of %s: first entry is not `<literal> << iota`", typ)
		}
		names := []string{leanStr(first.Names[0].Name)}
		for _, sp := range gd.Specs[1:] {
			vs := sp.(*ast.ValueSpec)
			if vs.Type != nil || len(vs.Values) != 0 || len(vs.Names) != 1 {
				p.die(vs, "const block of %s: entry with its own type or value", typ)
			}
			names = append(names, leanStr(vs.Names[0].Name))
		}
		return fmt.Sprintf("{ typ := %s, base := %s, names := [%s] }", leanStr(typ), base, strings.Join(names, ", "))
	}
	die("polydispatch: %s: const block of type %s not found", p.dir, typ)
	return ""
}

// fields of `type Form struct { Basis Basis; Layout Layout }` in order: (field name, type name)
func (p *pdPkg) formFields() [][2]string {
	for _, d := range p.file.Decls {
		gd, ok := d.(*ast.GenDecl)
		if !ok || gd.Tok != token.TYPE {
			continue
		}
		for _, sp := range gd.Specs {
			ts := sp.(*ast.TypeSpec)
			if ts.Name.Name != "Form" {
				continue
			}
			st, ok := ts.Type.(*ast.StructType)
			if !ok {
				p.die(ts, "type Form is not a struct")
			}
			var out [][2]string
			for _, f := range st.Fields.List {
				tn, ok := pdIdent(f.Type)
				if !ok || len(f.Names) == 0 {
					p.die(f, "type Form: unsupported field")
				}
				for _, n := range f.Names {
					out = append(out, [2]string{n.Name, tn})
				}
			}
			return out
		}
	}
	die("polydispatch: %s: type Form not found", p.dir)
	return nil
}

// every package-level `var x = Form{…}`: (name, Basis-field value, Layout-field value) as identifiers
func (p *pdPkg) formIds(fields [][2]string) [][3]string {
	var out [][3]string
	for _, d := range p.file.Decls {
		gd, ok := d.(*ast.GenDecl)
		if !ok || gd.Tok != token.VAR {
			continue
		}
		for _, sp := range gd.Specs {
			vs := sp.(*ast.ValueSpec)
			for i, n := range vs.Names {
				if i >= len(vs.Values) {
					continue
				}
				cl, ok := vs.Values[i].(*ast.CompositeLit)
				if !ok {
					continue
				}
				if t, ok := pdIdent(cl.Type); !ok || t != "Form" {
					continue
				}
				vals := map[string]string{}
				for k, e := range cl.Elts {
					if kv, ok := e.(*ast.KeyValueExpr); ok {
						key, ok1 := pdIdent(kv.Key)
						v, ok2 := pdIdent(kv.Value)
						if !ok1 || !ok2 {
							p.die(e, "form id %s: unsupported element", n.Name)
						}
						vals[key] = v
						continue
					}
					v, ok := pdIdent(e)
					if !ok || k >= len(fields) {
						p.die(e, "form id %s: unsupported element", n.Name)
					}
					vals[fields[k][0]] = v
				}
				b, okB := vals["Basis"]
				l, okL := vals["Layout"]
				if !okB || !okL || len(vals) != 2 {
					p.die(cl, "form id %s: does not set exactly Basis and Layout", n.Name)
				}
				out = append(out, [3]string{n.Name, b, l})
			}
		}
	}
	return out
}

// ---- effects of the conversion functions ----

type pdFn struct {
	p      *pdPkg
	name   string
	recv   string // receiver variable
	domain string // name of the *fft.Domain parameter ("" when there is none)
}

// one statement -> one effect (Lean term of type Eff); fatal when outside the grammar
func (f *pdFn) eff(s ast.Stmt) string {
	p := f.p
	switch v := s.(type) {
	case *ast.ReturnStmt:
		if len(v.Results) == 1 {
			if id, ok := pdIdent(v.Results[0]); ok && id == f.recv {
				return ".retP"
			}
		}
	case *ast.AssignStmt:
		if len(v.Lhs) != 1 || len(v.Rhs) != 1 {
			break
		}
		if v.Tok == token.ASSIGN {
			if x, fld, ok := pdSel(v.Lhs[0]); ok && x == f.recv {
				if val, ok := pdIdent(v.Rhs[0]); ok {
					if fld == "Layout" {
						return ".setLayout " + leanStr(val)
					}
					if fld == "Basis" {
						return ".setBasis " + leanStr(val)
					}
				}
			}
		}
		if v.Tok == token.DEFINE {
			lhs, ok := pdIdent(v.Lhs[0])
			if !ok {
				break
			}
			if x, fld, ok := pdSel(v.Rhs[0]); ok && x == f.recv && fld == "Form" {
				return ".saveForm " + leanStr(lhs)
			}
			if pdText(v.Rhs[0]) == "runtime.NumCPU()" {
				return ".nbTasksDefault " + leanStr(lhs)
			}
		}
	case *ast.IfStmt:
		// `if len(nbTasks) > 0 { n = nbTasks[0] }`
		if v.Init == nil && v.Else == nil && len(v.Body.List) == 1 {
			if as, ok := v.Body.List[0].(*ast.AssignStmt); ok && as.Tok == token.ASSIGN && len(as.Lhs) == 1 && len(as.Rhs) == 1 {
				if lhs, ok := pdIdent(as.Lhs[0]); ok {
					if ix, ok := as.Rhs[0].(*ast.IndexExpr); ok {
						if arr, ok := pdIdent(ix.X); ok && pdText(ix.Index) == "0" && pdText(v.Cond) == "len("+arr+") > 0" {
							return ".nbTasksOverride " + leanStr(lhs) + " " + leanStr(arr)
						}
					}
				}
			}
		}
	case *ast.ExprStmt:
		ce, ok := v.X.(*ast.CallExpr)
		if !ok {
			break
		}
		if id, ok := pdIdent(ce.Fun); ok && id == "panic" && len(ce.Args) == 1 {
			return ".panic " + leanStr(pdText(ce.Args[0]))
		}
		se, ok := ce.Fun.(*ast.SelectorExpr)
		if !ok {
			break
		}
		// p.grow(arg)
		if x, ok := pdIdent(se.X); ok && x == f.recv && se.Sel.Name == "grow" && len(ce.Args) == 1 {
			return ".grow " + leanStr(pdText(ce.Args[0]))
		}
		// fft.BitReverse(arg)
		if x, ok := pdIdent(se.X); ok && x == "fft" && se.Sel.Name == "BitReverse" && len(ce.Args) == 1 {
			return ".bitReverse " + leanStr(pdText(ce.Args[0]))
		}
		// p.coset.Set(&src)
		if x, fld, ok := pdSel(se.X); ok && x == f.recv && fld == "coset" && se.Sel.Name == "Set" && len(ce.Args) == 1 {
			if ue, ok := ce.Args[0].(*ast.UnaryExpr); ok && ue.Op == token.AND {
				return ".cosetSet " + leanStr(pdText(ue.X))
			}
		}
		// d.FFT(arg, fft.DIF|fft.DIT, opts…) / d.FFTInverse(…)
		if x, ok := pdIdent(se.X); ok && (se.Sel.Name == "FFT" || se.Sel.Name == "FFTInverse") && len(ce.Args) >= 2 {
			pk, dec, ok := pdSel(ce.Args[1])
			if !ok || pk != "fft" || (dec != "DIF" && dec != "DIT") {
				p.die(s, "%s: decimation argument `%s` is not fft.DIF / fft.DIT", f.name, pdText(ce.Args[1]))
			}
			var opts []string
			for _, o := range ce.Args[2:] {
				oc, ok := o.(*ast.CallExpr)
				if !ok {
					p.die(s, "%s: unsupported FFT option `%s`", f.name, pdText(o))
				}
				opk, on, ok := pdSel(oc.Fun)
				switch {
				case ok && opk == "fft" && on == "OnCoset" && len(oc.Args) == 0:
					opts = append(opts, ".onCoset")
				case ok && opk == "fft" && on == "WithNbTasks" && len(oc.Args) == 1:
					opts = append(opts, ".withNbTasks "+leanStr(pdText(oc.Args[0])))
				default:
					p.die(s, "%s: unsupported FFT option `%s`", f.name, pdText(o))
				}
			}
			inv := "false"
			if se.Sel.Name == "FFTInverse" {
				inv = "true"
			}
			return fmt.Sprintf(".fft %s %s %s .%s [%s]", inv, leanStr(x), leanStr(pdText(ce.Args[0])), dec, strings.Join(opts, ", "))
		}
	}
	p.die(s, "%s: unsupported statement `%s`", f.name, pdText(s))
	return ""
}

func (f *pdFn) effs(ss []ast.Stmt) string {
	var out []string
	for _, s := range ss {
		out = append(out, f.eff(s))
	}
	return "[" + strings.Join(out, ", ") + "]"
}

func (p *pdPkg) convFn(name string) string {
	fd, recv := p.method(name, "Polynomial")
	f := &pdFn{p: p, name: name, recv: recv}
	variadic := "false"
	for _, prm := range fd.Type.Params.List {
		switch pdText(prm.Type) {
		case "*fft.Domain":
			if len(prm.Names) != 1 || f.domain != "" {
				p.die(prm, "%s: unsupported domain parameter", name)
			}
			f.domain = prm.Names[0].Name
		case "...int":
			variadic = "true"
		default:
			p.die(prm, "%s: unsupported parameter `%s`", name, pdText(prm))
		}
	}
	if f.domain == "" {
		p.die(fd, "%s: no *fft.Domain parameter", name)
	}
	sw := -1
	for i, s := range fd.Body.List {
		if _, ok := s.(*ast.SwitchStmt); ok {
			if sw >= 0 {
				p.die(s, "%s: second switch", name)
			}
			sw = i
		}
	}
	if sw < 0 {
		p.die(fd, "%s: no switch", name)
	}
	ss := fd.Body.List[sw].(*ast.SwitchStmt)
	tag, ok := pdIdent(ss.Tag)
	if !ok || ss.Init != nil {
		p.die(ss, "%s: switch tag is not a plain identifier", name)
	}
	var cases []string
	dflt := "none"
	for _, c := range ss.Body.List {
		cc := c.(*ast.CaseClause)
		if cc.List == nil {
			if dflt != "none" {
				p.die(cc, "%s: two default clauses", name)
			}
			dflt = "some " + f.effs(cc.Body)
			continue
		}
		if dflt != "none" {
			p.die(cc, "%s: case after default (order of evaluation would differ from the recorded one)", name)
		}
		var labels []string
		for _, l := range cc.List {
			id, ok := pdIdent(l)
			if !ok {
				p.die(l, "%s: case label `%s` is not an identifier", name, pdText(l))
			}
			labels = append(labels, leanStr(id))
		}
		for _, s := range cc.Body {
			if _, ok := s.(*ast.BranchStmt); ok {
				p.die(s, "%s: break / fallthrough in a case", name)
			}
		}
		cases = append(cases, fmt.Sprintf("    ([%s], %s)", strings.Join(labels, ", "), f.effs(cc.Body)))
	}
	return fmt.Sprintf("{\n  name := %s, recv := %s, domain := %s, variadicNbTasks := %s,\n  pre := %s,\n  tag := %s,\n  cases := [\n%s],\n  dflt := %s,\n  post := %s }",
		leanStr(name), leanStr(recv), leanStr(f.domain), variadic, f.effs(fd.Body.List[:sw]), leanStr(tag), strings.Join(cases, ",\n"), dflt, f.effs(fd.Body.List[sw+1:]))
}

func (p *pdPkg) flipFn(name string) string {
	fd, recv := p.method(name, "Polynomial")
	f := &pdFn{p: p, name: name, recv: recv}
	if len(fd.Type.Params.List) != 0 || len(fd.Body.List) == 0 {
		p.die(fd, "%s: unsupported signature / empty body", name)
	}
	is, ok := fd.Body.List[0].(*ast.IfStmt)
	if !ok || is.Init != nil || is.Else != nil {
		p.die(fd.Body.List[0], "%s: first statement is not `if %s.Layout == X { … }`", name, recv)
	}
	be, ok := is.Cond.(*ast.BinaryExpr)
	if !ok || be.Op != token.EQL {
		p.die(is, "%s: guard is not `%s.Layout == X`", name, recv)
	}
	x, fld, ok1 := pdSel(be.X)
	g, ok2 := pdIdent(be.Y)
	if !ok1 || !ok2 || x != recv || fld != "Layout" {
		p.die(is, "%s: guard is not `%s.Layout == X`", name, recv)
	}
	return fmt.Sprintf("{ name := %s, recv := %s, guard := %s, thenEffs := %s, rest := %s }",
		leanStr(name), leanStr(recv), leanStr(g), f.effs(is.Body.List), f.effs(fd.Body.List[1:]))
}

// ---- skeleton of Evaluate / evaluate / GetCoeff ----

type pdSk struct {
	recv  string
	items []string
}

func (k *pdSk) add(depth int, kind, text, parsed string) {
	k.items = append(k.items, fmt.Sprintf("    ⟨%d, .%s, %s, %s⟩", depth, kind, leanStr(text), parsed))
}

// parsed form of a condition
func (k *pdSk) cond(e ast.Expr) string {
	r := k.recv
	t := pdText(e)
	if be, ok := e.(*ast.BinaryExpr); ok && be.Op == token.EQL {
		lhs := pdText(be.X)
		if rhs, ok := pdIdent(be.Y); ok {
			switch lhs {
			case r + ".Basis", r + ".polynomial.Form.Basis", r + ".Form.Basis":
				return ".basisEq " + leanStr(rhs)
			case r + ".Layout", r + ".polynomial.Form.Layout", r + ".Form.Layout":
				return ".layoutEq " + leanStr(rhs)
			}
		}
		if lhs == r+".shift" && pdText(be.Y) == "0" {
			return ".shiftEqZero"
		}
	}
	if t == "err != nil" {
		return ".errNotNil"
	}
	// `p.shift > lo && p.shift <= hi`
	if be, ok := e.(*ast.BinaryExpr); ok && be.Op == token.LAND {
		l, ok1 := be.X.(*ast.BinaryExpr)
		h, ok2 := be.Y.(*ast.BinaryExpr)
		if ok1 && ok2 && l.Op == token.GTR && h.Op == token.LEQ && pdText(l.X) == r+".shift" && pdText(h.X) == r+".shift" {
			lo, hi := litInt(l.Y), litInt(h.Y)
			if lo != nil && hi != nil {
				return fmt.Sprintf(".shiftIn %s %s", lo, hi)
			}
		}
	}
	return ".other"
}

// parsed form of a plain statement
func (k *pdSk) stmt(s ast.Stmt) (kind, parsed string) {
	r := k.recv
	t := pdText(s)
	switch v := s.(type) {
	case *ast.ReturnStmt:
		if len(v.Results) == 1 {
			rt := pdText(v.Results[0])
			switch {
			case rt == r+".polynomial.evaluate(x)":
				return "ret", ".callEvaluate \"x\""
			case strings.HasPrefix(rt, "(*"+r+".coefficients)[") && strings.HasSuffix(rt, "]"):
				return "ret", ".coeffAt " + leanStr(strings.TrimSuffix(strings.TrimPrefix(rt, "(*"+r+".coefficients)["), "]"))
			}
			if id, ok := pdIdent(v.Results[0]); ok {
				return "ret", ".var " + leanStr(id)
			}
		}
		if len(v.Results) == 0 {
			return "ret", ".bare"
		}
		return "ret", ".other"
	case *ast.ExprStmt:
		if ce, ok := v.X.(*ast.CallExpr); ok {
			if id, ok := pdIdent(ce.Fun); ok && len(ce.Args) == 0 {
				return "call", ".callClosure " + leanStr(id)
			}
			if id, ok := pdIdent(ce.Fun); ok && id == "panic" {
				return "stmt", ".panic"
			}
		}
		switch t {
		case "x.Div(&x, &" + r + ".coset)":
			return "stmt", ".divByCoset"
		case "x.Mul(&x, &g)":
			return "stmt", ".mulXBy \"g\""
		case "g.Exp(gen, big.NewInt(int64(" + r + ".shift)))":
			return "stmt", ".expShift \"g\" \"gen\""
		}
	case *ast.AssignStmt:
		switch t {
		case "g = smallExp(gen, " + r + ".shift)":
			return "stmt", ".smallExpShift \"g\" \"gen\""
		case "gen, err := fft.Generator(uint64(" + r + ".size))":
			return "stmt", ".generatorOfSize \"gen\""
		case "rho := n / " + r + ".size":
			return "stmt", ".rhoDef"
		case "n := " + r + ".coefficients.Len()":
			return "stmt", ".lenDef \"n\""
		}
	}
	return "stmt", ".other"
}

func (k *pdSk) walk(depth int, ss []ast.Stmt) {
	for _, s := range ss {
		switch v := s.(type) {
		case *ast.IfStmt:
			if v.Init != nil {
				k.add(depth, "stmt", pdText(v.Init), ".other")
			}
			k.add(depth, "ifC", pdText(v.Cond), k.cond(v.Cond))
			k.walk(depth+1, v.Body.List)
			switch e := v.Else.(type) {
			case nil:
			case *ast.BlockStmt:
				k.add(depth, "elseC", "", ".other")
				k.walk(depth+1, e.List)
			default:
				k.add(depth, "elseC", "", ".other")
				k.walk(depth+1, []ast.Stmt{e})
			}
		case *ast.ForStmt:
			hdr := "for "
			if v.Init != nil {
				hdr += pdText(v.Init)
			}
			hdr += "; "
			if v.Cond != nil {
				hdr += pdText(v.Cond)
			}
			hdr += "; "
			if v.Post != nil {
				hdr += pdText(v.Post)
			}
			k.add(depth, "forC", hdr, ".other")
			k.walk(depth+1, v.Body.List)
		case *ast.BlockStmt:
			k.walk(depth, v.List)
		case *ast.AssignStmt:
			// `name := func() { … }`
			if len(v.Lhs) == 1 && len(v.Rhs) == 1 {
				if fl, ok := v.Rhs[0].(*ast.FuncLit); ok {
					if id, ok := pdIdent(v.Lhs[0]); ok {
						k.add(depth, "closure", id, ".closureDef "+leanStr(id))
						k.walk(depth+1, fl.Body.List)
						continue
					}
				}
			}
			kind, parsed := k.stmt(s)
			k.add(depth, kind, pdText(s), parsed)
		default:
			kind, parsed := k.stmt(s)
			k.add(depth, kind, pdText(s), parsed)
		}
	}
}

func (p *pdPkg) skeleton(name, recvType string) string {
	fd, recv := p.method(name, recvType)
	k := &pdSk{recv: recv}
	k.walk(0, fd.Body.List)
	return "[\n" + strings.Join(k.items, ",\n") + "]"
}

const pdHeader = `/- GENERATED by tools/goslp (polydispatch.go) from /repo/ecc/<curve>/fr/iop/polynomial.go on every run. DO NOT EDIT.
   The form dispatch of the 7 iop packages AS WRITTEN: constant blocks, form ids, the ordered effects of every case of
   ToLagrange / ToCanonical / ToLagrangeCoset (a statement outside the effect grammar 'Eff' makes gvgoslp exit non-zero),
   ToRegular / ToBitReverse, and the case structure of Evaluate / evaluate / GetCoeff: there, a condition or statement that
   matches none of the expected patterns is kept VERBATIM as an item with parsed form '.other' (it is not rejected, and
   nothing is proved about its content). -/
namespace GV.Gen.PolyDispatch

/-- second argument of d.FFT / d.FFTInverse: 'fft.DIF' or 'fft.DIT' -/
inductive Dec | DIF | DIT
deriving DecidableEq, Repr

/-- an option of an FFT call: 'fft.OnCoset()' or 'fft.WithNbTasks(arg)' -/
inductive FOpt
  | onCoset
  | withNbTasks (arg : String)
deriving DecidableEq, Repr

/-- one statement of a conversion function, as written ('p' = the receiver variable) -/
inductive Eff
  | saveForm (var : String)                     -- var := p.Form
  | grow (arg : String)                         -- p.grow(arg)
  | nbTasksDefault (var : String)               -- var := runtime.NumCPU()
  | nbTasksOverride (var arr : String)          -- if len(arr) > 0 { var = arr[0] }
  | cosetSet (src : String)                     -- p.coset.Set(&src)
  | setLayout (name : String)                   -- p.Layout = name
  | setBasis (name : String)                    -- p.Basis = name
  | fft (inverse : Bool) (recv arg : String) (dec : Dec) (opts : List FOpt)   -- recv.FFT(arg, fft.dec, opts…) / recv.FFTInverse(…)
  | bitReverse (arg : String)                   -- fft.BitReverse(arg)
  | retP                                        -- return p
  | panic (msg : String)                        -- panic(msg)
deriving DecidableEq, Repr

/-- 'const ( n0 T = base << iota; n1; n2 … )' -/
structure ConstBlock where
  typ : String
  base : Nat
  names : List String
deriving DecidableEq, Repr

/-- ToLagrange / ToCanonical / ToLagrangeCoset: statements before the switch, 'switch tag { case labels: effects … default: … }',
    statements after the switch; all in source order -/
structure ConvFn where
  name : String
  recv : String
  domain : String
  variadicNbTasks : Bool
  pre : List Eff
  tag : String
  cases : List (List String × List Eff)
  dflt : Option (List Eff)
  post : List Eff
deriving DecidableEq, Repr

/-- ToRegular / ToBitReverse: 'if p.Layout == guard { thenEffs }' followed by 'rest' -/
structure FlipFn where
  name : String
  recv : String
  guard : String
  thenEffs : List Eff
  rest : List Eff
deriving DecidableEq, Repr

inductive SkKind | ifC | elseC | forC | closure | ret | call | stmt
deriving DecidableEq, Repr

/-- parsed form of a skeleton item ('.other': no expected pattern matched, only the text is kept) -/
inductive SkP
  | other
  | basisEq (name : String)            -- p.Basis == name
  | layoutEq (name : String)           -- p.Layout == name  /  p.polynomial.Form.Layout == name
  | shiftEqZero                        -- p.shift == 0
  | shiftIn (lo hi : Nat)              -- p.shift > lo && p.shift <= hi
  | errNotNil                          -- err != nil
  | divByCoset                         -- x.Div(&x, &p.coset)
  | generatorOfSize (var : String)     -- var, err := fft.Generator(uint64(p.size))
  | smallExpShift (dst base : String)  -- dst = smallExp(base, p.shift)
  | expShift (dst base : String)       -- dst.Exp(base, big.NewInt(int64(p.shift)))
  | mulXBy (var : String)              -- x.Mul(&x, &var)
  | callEvaluate (arg : String)        -- return p.polynomial.evaluate(arg)
  | callClosure (name : String)        -- name()
  | closureDef (name : String)         -- name := func() { … }
  | coeffAt (index : String)           -- return (*p.coefficients)[index]
  | var (name : String)                -- return name
  | bare                               -- return
  | lenDef (var : String)              -- var := p.coefficients.Len()
  | rhoDef                             -- rho := n / p.size
  | panic
deriving DecidableEq, Repr

/-- pre-order item of a function body: nesting depth, kind, source text, parsed form -/
structure SkItem where
  depth : Nat
  kind : SkKind
  text : String
  parsed : SkP
deriving DecidableEq, Repr

structure Extracted where
  pkg : String
  basisBlock : ConstBlock
  layoutBlock : ConstBlock
  formFields : List (String × String)
  formIds : List (String × String × String)     -- (id, value of field Basis, value of field Layout)
  toLagrange : ConvFn
  toCanonical : ConvFn
  toLagrangeCoset : ConvFn
  toRegular : FlipFn
  toBitReverse : FlipFn
  evaluateOuter : List SkItem     -- (*Polynomial).Evaluate
  evaluateInner : List SkItem     -- (*polynomial).evaluate
  getCoeff : List SkItem          -- (*Polynomial).GetCoeff

`

func runPolyDispatch() {
	var b strings.Builder
	b.WriteString(pdHeader)
	var names []string
	for _, c := range polyDirs {
		dir := filepath.Join("ecc", c, "fr", "iop")
		path := filepath.Join(repo, dir, "polynomial.go")
		fset := token.NewFileSet()
		file, err := parser.ParseFile(fset, path, nil, 0)
		if err != nil {
			die("polydispatch: parse %s: %v", path, err)
		}
		p := &pdPkg{dir: dir, fset: fset, file: file}
		fields := p.formFields()
		var ff, fi []string
		for _, f := range fields {
			ff = append(ff, fmt.Sprintf("(%s, %s)", leanStr(f[0]), leanStr(f[1])))
		}
		for _, f := range p.formIds(fields) {
			fi = append(fi, fmt.Sprintf("(%s, %s, %s)", leanStr(f[0]), leanStr(f[1]), leanStr(f[2])))
		}
		ln := strings.ReplaceAll(c, "-", "_")
		names = append(names, ln)
		fmt.Fprintf(&b, "def %s_toLagrange : ConvFn := %s\n\n", ln, p.convFn("ToLagrange"))
		fmt.Fprintf(&b, "def %s_toCanonical : ConvFn := %s\n\n", ln, p.convFn("ToCanonical"))
		fmt.Fprintf(&b, "def %s_toLagrangeCoset : ConvFn := %s\n\n", ln, p.convFn("ToLagrangeCoset"))
		fmt.Fprintf(&b, "def %s_evaluateOuter : List SkItem := %s\n\n", ln, p.skeleton("Evaluate", "Polynomial"))
		fmt.Fprintf(&b, "def %s_evaluateInner : List SkItem := %s\n\n", ln, p.skeleton("evaluate", "polynomial"))
		fmt.Fprintf(&b, "def %s_getCoeff : List SkItem := %s\n\n", ln, p.skeleton("GetCoeff", "Polynomial"))
		fmt.Fprintf(&b, "def %s : Extracted := {\n  pkg := %s,\n  basisBlock := %s,\n  layoutBlock := %s,\n  formFields := [%s],\n  formIds := [%s],\n",
			ln, leanStr(dir), p.constBlock("Basis"), p.constBlock("Layout"), strings.Join(ff, ", "), strings.Join(fi, ", "))
		fmt.Fprintf(&b, "  toLagrange := %s_toLagrange, toCanonical := %s_toCanonical, toLagrangeCoset := %s_toLagrangeCoset,\n", ln, ln, ln)
		fmt.Fprintf(&b, "  toRegular := %s,\n  toBitReverse := %s,\n", p.flipFn("ToRegular"), p.flipFn("ToBitReverse"))
		fmt.Fprintf(&b, "  evaluateOuter := %s_evaluateOuter, evaluateInner := %s_evaluateInner, getCoeff := %s_getCoeff }\n\n", ln, ln, ln)
	}
	fmt.Fprintf(&b, "def allPkgs : List Extracted := [%s]\n\nend GV.Gen.PolyDispatch\n", strings.Join(names, ", "))
	writeFile("PolyDispatch.lean", b.String())
}
