package main

// C11 — the kzg objects on SHARED readers and in RE-USED destinations (histories of the serialisation API), and the empty batch.
//
//   C11 stream   <curve> <size> <tau> <rdr> <kind,kind,…> <h> <vs> <trailer>   → <objects read> <bytes left> 1 | … 0:<reason>
//        every object is written one after the other to ONE buffer, <trailer> more bytes follow; ONE reader of kind <rdr> is handed
//        to every ReadFrom in turn: the reader's position after each call = the sum of the returned counts = the sum of the written
//        counts, every object equals what was written, the trailer is left untouched.
//        rdr: bytes (*bytes.Reader, has ReadByte) | buffer (*bytes.Buffer) | plain (Read only) | one (Read only, 1 byte per call)
//             | chunk (Read only, ≤ 5 bytes per call) | bufio (*bufio.Reader of the caller, has ReadByte)
//   C11 reread   <curve> <kind> <size1> <tau1> <size2> <tau2> <coeffs> <z>     → <points> <same> <c> <v> <h> <verdict>
//        string 1 is read into a destination, then string 2 into THE SAME destination; the destination is then used as in `open`
//   C11 rereadp  <curve> <kind> <h1> <vs1> <h2> <vs2>                          → <h2> <values held by the destination>
//   C11 mpcchain <curve> <size> <rounds> <mode> <drop|-> <rdr> <trailer>       → verdict of every link
//   C11 seal     <curve> <size> <rounds> <after>                               → <string handed out unchanged> <honest proof verdict>
//   C11 bopen0   <curve> <size> <tau> <z>                                      → BatchOpenSinglePoint of the EMPTY batch (child process)

import (
	"bufio"
	"bytes"
	"fmt"
	"io"
	"math/big"
	"os"
	"os/exec"
	"strings"
)

type c11codec struct {
	write func(io.Writer) (int64, error)
	read  func(io.Reader) (int64, error)
	same  func() string
}

// Read-only views of a byte slice (no ReadByte, no WriteTo, no Seek): what a socket or a pipe offers
type c11Plain struct {
	data []byte
	off  int
	max  int // most bytes per Read (0 = no limit)
}

func (r *c11Plain) Read(p []byte) (int, error) {
	if r.off >= len(r.data) {
		return 0, io.EOF
	}
	if r.max > 0 && len(p) > r.max {
		p = p[:r.max]
	}
	n := copy(p, r.data[r.off:])
	r.off += n
	return n, nil
}

// reader of a kind over data, and its position (bytes taken from it by its user)
func newC11Reader(kind string, data []byte) (io.Reader, func() int) {
	switch kind {
	case "bytes":
		r := bytes.NewReader(data)
		return r, func() int { return len(data) - r.Len() }
	case "buffer":
		r := bytes.NewBuffer(append([]byte{}, data...))
		return r, func() int { return len(data) - r.Len() }
	case "one", "chunk":
		r := &c11Plain{data: data, max: 1}
		if kind == "chunk" {
			r.max = 5
		}
		return r, func() int { return r.off }
	case "bufio":
		u := &c11Plain{data: data}
		r := bufio.NewReaderSize(u, 64)
		return r, func() int { return u.off - r.Buffered() }
	}
	r := &c11Plain{data: data}
	return r, func() int { return r.off }
}

var c11ReaderKinds = []string{"bytes", "buffer", "plain", "one", "chunk", "bufio"}

func c11Trailer(n int) []byte {
	t := make([]byte, n)
	for i := range t {
		t[i] = byte(i*37 + 11)
	}
	return t
}

func execC11Stream(op, name string, c kzgCurve, a []string) string {
	size := func(s string) uint64 { return parseBig(s).Uint64() }
	f := zr{c.modulus()}
	switch {
	case op == "stream" && len(a) == 7:
		srs, _, e := getSRS(name, c, size(a[0]), a[1])
		if e != "" {
			return e
		}
		h, vs, trailer := c.g1(parseBig(a[4])), bigList(a[5]), c11Trailer(int(size(a[6])))
		var cds []c11codec
		for _, kind := range strings.Split(a[3], ",") {
			cd, dst := c.codec(kind, srs, h, vs, nil)
			if dst == nil {
				return "bad-op"
			}
			cds = append(cds, cd)
		}
		var b bytes.Buffer
		var lens []int
		for i, cd := range cds {
			before := b.Len()
			nw, err := cd.write(&b)
			if err != nil {
				return fmt.Sprintf("%d 0:write", i)
			}
			if nw >= 0 && int(nw) != b.Len()-before {
				return fmt.Sprintf("%d 0:wcount", i)
			}
			lens = append(lens, b.Len()-before)
		}
		b.Write(trailer)
		r, pos := newC11Reader(a[2], b.Bytes())
		exp := 0
		for i, cd := range cds {
			nr, err := cd.read(r)
			exp += lens[i]
			switch {
			case err != nil:
				return fmt.Sprintf("%d 0:read:%s", i, strings.ReplaceAll(err.Error(), " ", "_"))
			case nr >= 0 && int(nr) != lens[i]:
				return fmt.Sprintf("%d 0:rcount:%d/%d", i, nr, lens[i])
			case pos() != exp:
				return fmt.Sprintf("%d 0:pos:%d/%d", i, pos(), exp)
			}
			if s := cd.same(); s != "" {
				return fmt.Sprintf("%d 0:%s", i, s)
			}
		}
		rest, _ := io.ReadAll(r)
		return fmt.Sprintf("%d %d %s", len(cds), len(rest), boolStr(bytes.Equal(rest, trailer)))
	case op == "reread" && len(a) == 7:
		srs1, _, e := getSRS(name, c, size(a[1]), a[2])
		if e != "" {
			return e
		}
		srs2, tau, e := getSRS(name, c, size(a[3]), a[4])
		if e != "" {
			return e
		}
		var dst any
		same := ""
		for i, s := range []any{srs1, srs2} {
			cd, d := c.codec(a[0], s, nil, nil, dst)
			if d == nil {
				return "bad-op"
			}
			dst = d
			var b bytes.Buffer
			if _, err := cd.write(&b); err != nil {
				return fmt.Sprintf("0:write%d", i+1)
			}
			if _, err := cd.read(&b); err != nil {
				return fmt.Sprintf("0:read%d:%s", i+1, strings.ReplaceAll(err.Error(), " ", "_"))
			}
			same = cd.same()
			if same != "" && i == 0 {
				return "0:first-" + same
			}
		}
		keys, n := c.asSRS(dst, srs2)
		out := fmt.Sprintf("%x %s", n, boolStr(same == ""))
		p, z := bigList(a[5]), parseBig(a[6])
		cm, err := c.commit(p, keys)
		if err != nil {
			return out + " " + kzgErr(err)
		}
		out += " " + inExponent(c, cm, f.eval(p, tau))
		hh, v, err := c.open(p, z, keys)
		if err != nil {
			return out + " " + kzgErr(err)
		}
		return out + " " + hexBig(v) + " " + inExponent(c, hh, f.quotAt(p, z, tau)) + " " + kzgVerdict(c.verify(cm, hh, v, z, keys))
	case op == "rereadp" && len(a) == 5:
		var dst any
		for i := 0; i < 2; i++ {
			cd, d := c.codec(a[0], nil, c.g1(parseBig(a[1+2*i])), bigList(a[2+2*i]), dst)
			if d == nil || (a[0] != "proof" && a[0] != "bproof") {
				return "bad-op"
			}
			dst = d
			var b bytes.Buffer
			if _, err := cd.write(&b); err != nil {
				return fmt.Sprintf("0:write%d", i+1)
			}
			if _, err := cd.read(&b); err != nil {
				return fmt.Sprintf("0:read%d:%s", i+1, strings.ReplaceAll(err.Error(), " ", "_"))
			}
		}
		hh, vals := c.proofOf(dst)
		return inExponent(c, hh, f.norm(parseBig(a[3]))) + " " + showBigList(vals)
	case op == "mpcchain" && len(a) == 6:
		drop := -1
		if a[3] != "-" {
			drop = int(size(a[3]))
		}
		switch a[2] {
		case "fresh", "reuse", "stream", "streamreuse":
		default:
			return "bad-op"
		}
		n, rounds := int(size(a[0])), int(size(a[1]))
		if n < 2 || n > 64 || rounds < 1 || rounds > 8 {
			return "bad-op"
		}
		return c.mpcChain(a[2], n, rounds, drop, int(size(a[5])), func(d []byte) (io.Reader, func() int) { return newC11Reader(a[4], d) })
	case op == "seal" && len(a) == 3:
		n, rounds := int(size(a[0])), int(size(a[1]))
		if n < 2 || n > 64 || rounds > 8 {
			return "bad-op"
		}
		return c.seal(n, rounds, a[2])
	case op == "bopen0" && len(a) == 3:
		// the empty batch dies inside a goroutine of BatchOpenSinglePoint (no recover possible): asked in a child process
		if os.Getenv("GV_C11_CHILD") == "" {
			cmd := exec.Command(os.Args[0], "-mode", "exec")
			cmd.Env = append(os.Environ(), "GV_C11_CHILD=1")
			cmd.Stdin = strings.NewReader("C11 bopen0 " + name + " " + join(a) + "\n")
			out, err := cmd.Output()
			if err != nil {
				return "panic"
			}
			return strings.TrimSpace(string(out))
		}
		srs, _, e := getSRS(name, c, size(a[0]), a[1])
		if e != "" {
			return e
		}
		_, _, err := c.batchOpen(nil, nil, parseBig(a[2]), srs)
		if err == nil {
			return "accepted"
		}
		return kzgErr(err)
	}
	return "bad-op"
}

func genC11Stream(g *gen, name string, c kzgCurve, sc func() *big.Int, tauTok func() (string, *big.Int)) {
	r := c.modulus()
	pick := func(xs []string) string { return xs[g.rng.intn(len(xs))] }
	vals := func(n int) []*big.Int {
		vs := make([]*big.Int, n)
		for i := range vs {
			vs[i] = sc()
		}
		return vs
	}
	all := []string{"srs", "srsraw", "srsunsafe", "srsunsafec", "pk", "pkraw", "pkunsafe", "vk", "vkraw", "proof", "bproof", "mpc1", "mpc2", "dump"}

	// --- every object kind followed by every object kind (a de Bruijn-like walk), on every reader kind in turn
	it := 0
	for i, k1 := range all {
		k2 := all[(i*5+3)%len(all)]
		for _, rd := range c11ReaderKinds {
			if !g.thorough() && it%3 != 0 && rd != "bytes" && rd != "plain" {
				it++
				continue
			}
			it++
			tt, _ := tauTok()
			trailer := []int{0, 1, 17, 5000}[g.rng.intn(4)]
			g.emit("C11 stream %s %x %s %s %s,%s %s %s %x", name, 2+g.rng.intn(4), tt, rd, k1, k2, hexBig(sc()), showBigList(vals(1+g.rng.intn(4))), trailer)
		}
	}
	// --- longer histories: 3..6 objects, the same kind several times, the setup transcripts among them
	for it := 0; it < g.budget(6, 40); it++ {
		n := 3 + g.rng.intn(4)
		ks := make([]string, n)
		for i := range ks {
			ks[i] = pick(all)
			if i > 0 && g.rng.intn(3) == 0 {
				ks[i] = ks[i-1]
			}
		}
		tt, _ := tauTok()
		g.emit("C11 stream %s %x %s %s %s %s %s %x", name, 2+g.rng.intn(5), tt, pick(c11ReaderKinds), strings.Join(ks, ","), hexBig(sc()), showBigList(vals(g.rng.intn(5))), g.rng.intn(3)*4097)
	}

	// --- re-used destinations: larger / equal / smaller first string, every way of reading a key, then Commit / Open / Verify
	sizes := [][2]int{{32, 8}, {8, 32}, {8, 8}, {3, 2}, {2, 5}, {6, 4}}
	keyKinds := []string{"srs", "srsraw", "srsunsafe", "srsunsafec", "pk", "pkraw", "pkunsafe", "vk", "vkraw", "dump"}
	for i, kind := range keyKinds {
		for j, sz := range sizes {
			if !g.thorough() && (i+j)%2 == 1 && j >= 3 {
				continue
			}
			t1, _ := tauTok()
			t2, tau2 := tauTok()
			// polynomial lengths around the SMALLER and the LARGER size: what fits string 2 and only that must be committed
			var l int
			switch g.rng.intn(6) {
			case 0, 1:
				l = sz[1]
			case 2:
				l = sz[1] + 1 + g.rng.intn(3)
			case 3:
				l = max(sz[0], sz[1])
			default:
				l = 1 + g.rng.intn(sz[1])
			}
			p := vals(l)
			z := sc()
			if g.rng.intn(4) == 0 {
				z = tau2
			}
			g.emit("C11 reread %s %s %x %s %x %s %s %s", name, kind, sz[0], t1, sz[1], t2, showBigList(p), hexBig(z))
		}
	}
	for it := 0; it < g.budget(6, 30); it++ {
		n1, n2 := g.rng.intn(7), g.rng.intn(7)
		if it%3 == 0 {
			n1 = n2 + 1 + g.rng.intn(4)
		}
		kind := "bproof"
		if it%6 == 5 {
			kind, n1, n2 = "proof", 1, 1
		}
		v2 := vals(n2)
		if len(v2) > 0 && g.rng.coin() {
			v2[0] = new(big.Int).Sub(r, big.NewInt(1))
		}
		g.emit("C11 rereadp %s %s %s %s %s %s", name, kind, hexBig(sc()), showBigList(vals(n1)), hexBig(sc()), showBigList(v2))
	}

	// --- setup ceremonies: the chain of transcripts read back link by link
	for _, mode := range []string{"fresh", "reuse", "stream", "streamreuse"} {
		rounds := 2 + g.rng.intn(3)
		rd := pick(c11ReaderKinds)
		g.emit("C11 mpcchain %s %x %x %s - %s %x", name, 2+g.rng.intn(7), rounds, mode, rd, g.rng.intn(2)*4100)
		if mode == "reuse" || mode == "stream" || g.thorough() {
			g.emit("C11 mpcchain %s %x %x %s %x %s %x", name, 2+g.rng.intn(4), rounds+1, mode, g.rng.intn(rounds+1), pick(c11ReaderKinds), g.rng.intn(9))
		}
	}
	for _, rd := range c11ReaderKinds {
		if g.thorough() {
			g.emit("C11 mpcchain %s %x 3 stream - %s %x", name, 2+g.rng.intn(7), rd, g.rng.intn(2)*4100)
		}
	}
	// --- the string handed out by Seal while the setup goes on being used
	for _, after := range []string{"none", "write", "seal", "contribute", "seal+contribute"} {
		g.emit("C11 seal %s %x %x %s", name, 2+g.rng.intn(7), g.rng.intn(3), after)
	}
	// --- the empty batch
	tt, _ := tauTok()
	g.emit("C11 bopen0 %s %x %s %s", name, 2+g.rng.intn(4), tt, hexBig(sc()))
}
